"""Shared harness of the receiver checks (C18 and the receiver parts of C02..C05).

Drives the real simulators.receiver.System deterministically: `datetime` of slaves.py is replaced
by a proxy whose utcnow() reads a seeded virtual clock, and Slave._datetime_to_time is wrapped so
that every rendering is recorded; the recorded graphs are handed to the Coq model as oracles.
Nothing in /repo is edited.
"""
import copy
from datetime import datetime, timedelta

from vlib.core import zlit, zlist

US = timedelta(microseconds=1)
EPOCH = datetime.min
NOW0 = (datetime(2026, 10, 1, 12, 0, 0) - EPOCH) // US

KINDS = ['INQUIRY', 'RESET', 'VERSION', 'SAVE', 'RESTORE', 'GET_ADDR', 'SET_ADDR', 'GET_TIME', 'SET_TIME',
         'GET_FRAME', 'SET_FRAME', 'GET_PORT', 'SET_PORT', 'GET_DATA', 'SET_DATA']
WITH_PARAMS = {'SET_ADDR', 'SET_TIME', 'SET_FRAME', 'GET_PORT', 'SET_PORT', 'GET_DATA', 'SET_DATA'}
QUERIES = ['INQUIRY', 'VERSION', 'GET_ADDR', 'GET_TIME', 'GET_FRAME', 'GET_PORT', 'GET_DATA']
DATA_BEARING = set(QUERIES)


def dt_us(d):
    return (d - EPOCH) // US


class Recorder:
    """virtual clock + oracle graphs of one run"""

    def __init__(self, rng=None, frozen=None, step=None):
        self.rng = rng
        self.frozen = frozen
        self.step = step          # fixed advance (microseconds) per utcnow() call: a virtual clock that moves
        self.now = NOW0 if frozen is None else frozen
        self.readings = []
        self.dates = {}
        self.renders = {}

    def utcnow(self):
        if self.step is not None:
            self.now += self.step
        elif self.frozen is None:
            r = self.rng.random()
            self.now += 0 if r < 0.3 else (self.rng.randrange(1, 50) if r < 0.7
                                           else self.rng.randrange(1, 3 * 10 ** 9))
        self.readings.append(self.now)
        return EPOCH + self.now * US


class _DTProxy:
    """stands for the name `datetime` inside simulators.receiver.slaves"""

    def __init__(self):
        self.rec = None

    def utcnow(self):
        return self.rec.utcnow()

    def __call__(self, *args):
        key = tuple(int(a) for a in args)
        try:
            d = datetime(*args)
        except ValueError:
            self.rec.dates[key] = None
            raise
        self.rec.dates[key] = dt_us(d)
        return d


_PROXY = _DTProxy()


def install(rec):
    """patch simulators.receiver.slaves (idempotent) and make `rec` the current recorder"""
    from simulators.receiver import slaves as S
    if getattr(S, '_verif_patched', None) is not S.Slave:
        orig = S.Slave.__dict__['_datetime_to_time'].__func__

        def wrapped(date):
            z = dt_us(date)
            try:
                out = orig(date)
            except Exception:
                _PROXY.rec.renders[z] = None
                raise
            _PROXY.rec.renders[z] = [ord(c) for c in out]
            return out
        S.Slave._datetime_to_time = staticmethod(wrapped)
        S.datetime = _PROXY
        S._verif_patched = S.Slave
    _PROXY.rec = rec
    return S


def kind_tag(S, cls):
    return {S.Slave: 0, S.Dewar: 1, S.Switch: 2, S.LNA: 3}[cls]


def make_system(tag, amin, amax, feeds):
    from simulators.receiver import System, slaves as S
    cls = [S.Slave, S.Dewar, S.Switch, S.LNA][tag]
    kw = dict(slave_type=cls, min_index=amin, max_index=amax)
    if tag == 3:
        kw['feeds'] = feeds
    return System(**kw)


DIO_ATTRS = ['LO_selector', 'vacuum_sensor', 'vacuum_pump', 'vacuum_pump_fault', 'vacuum_valve', 'cool_head',
             'calibration', 'single_dish', 'vlbi', 'is_remote', 'is_single_dish', 'is_vlbi']
SW_ATTRS = ['Out1', 'Out2', 'swa', 'swb', 'swc', 'swd']


def one(s):
    if not isinstance(s, str) or len(s) != 1:
        raise TypeError('expected a one-character str, got %r' % (s,))
    return ord(s)


def ords(s):
    if not isinstance(s, str):
        raise TypeError('expected str, got %r' % (s,))
    return [ord(c) for c in s]


def iz(v):
    if isinstance(v, bool) or not isinstance(v, int):
        raise TypeError('expected int, got %r' % (v,))
    return v


def board_regs(S, b, with_last=True):
    """register snapshot of one board as a list of ints (the format of Corr/RcvCorr.v dump_board,
    without the dict key)"""
    out = [one(b.address), one(b.frame_size), b.time_offset // US]
    if with_last:
        out += [0, 0] if b.last_cmd_date is None else [1, dt_us(b.last_cmd_date)]
        out += [one(b.last_cmd), one(b.last_cmd_id), one(b.last_cmd_answer)]
    out.append(len(b.port_settings))
    for (dt, pt, pn), v in b.port_settings.items():
        out += [one(dt), one(pt), one(pn), len(v)] + ords(v)
    t = type(b)
    if t is S.Slave:
        out += [0]
    elif t is S.Dewar:
        out += [1] + [iz(getattr(b, a)) for a in DIO_ATTRS]
    elif t is S.Switch:
        out += [2] + [iz(getattr(b, a)) for a in DIO_ATTRS + SW_ATTRS]
    elif t is S.LNA:
        out += [3, len(b.feeds), iz(b.AD), iz(b.EN), iz(b.L_ON), iz(b.R_ON)]
    else:
        raise TypeError('unknown board type %r' % t)
    return out


def snapshot(S, system, rec):
    out = [len(rec.readings), len(system.msg)] + ords(system.msg) + [len(system.slaves)]
    for k, b in system.slaves.items():
        out += [one(k)] + board_regs(S, b)
    return out


def regs_snapshot(S, system, with_last=True):
    """{key: registers} in dict order, for the property oracles"""
    return [(one(k), board_regs(S, b, with_last)) for k, b in system.slaves.items()]


def feed(system, data):
    """parse every byte; outcomes as (tag, reply): 0 False, 1 True, 2 reply, 3 exception, 4 other"""
    outs = []
    for x in data:
        try:
            r = system.parse(chr(x))
        except Exception:      # what the server swallows (and logs)
            outs.append((3, []))
            continue
        if r is True:
            outs.append((1, []))
        elif r is False:
            outs.append((0, []))
        elif isinstance(r, str):
            outs.append((2, [ord(c) for c in r]))
        else:
            outs.append((4, []))
    return outs


def xor(bs):
    x = 0
    for b in bs:
        x ^= b
    return x


def build(DEF, kind, ext, sa, ma, cid, params=(), good=True, eot=None, L=None, filler=(0, 0)):
    """bytes of one request; L: declared parameter length (default: the real one)"""
    code = ord(getattr(DEF, 'CMD_%s_%s' % ('EXT' if ext else 'ABBR', kind)))
    m = [ord(DEF.CMD_SOH), sa, ma, code, cid]
    params = list(params)
    if kind in WITH_PARAMS:
        m.append(len(params) if L is None else L)
        m += params
        if not ext and len(params) == 0 and L in (None, 0):
            m += list(filler)
    if ext:
        c = xor(m)
        m.append(c if good is True else (c ^ good_flip(good)))
        m.append(ord(DEF.CMD_EOT) if eot is None else eot)
    return m


def good_flip(good):
    return 0x55 if good is False else int(good)


def decode_answer(DEF, data, ext_hint=None):
    """independent decoder of a reply string: list of frames
    dict(master, slave, cmd, id, code, data or None); None when the string does not decode"""
    frames = []
    i = 0
    n = len(data)
    while i < n:
        if n - i < 6 or data[i] != 0x02:
            return None
        ma, sl, cmd, cid, code = data[i + 1:i + 6]
        ext = 0x41 <= cmd <= 0x4F
        abbr = 0x61 <= cmd <= 0x6F
        j = i + 6
        payload = None
        if (ext or abbr) and code == 0 and (cmd & 0x1F) in (1, 3, 6, 8, 10, 12, 14):
            if j >= n:
                return None
            ln = data[j]
            payload = data[j + 1:j + 1 + ln]
            if len(payload) != ln:
                return None
            j += 1 + ln
        if ext:
            if j + 2 > n or data[j] != xor(data[i:j]) or data[j + 1] != 0x04:
                return None
            j += 2
        frames.append(dict(master=ma, slave=sl, cmd=cmd, id=cid, code=code, data=payload))
        i = j
    return frames


# ---------------------------------------------------------------------------
# request generators

class Gen:
    def __init__(self, rng, DEF, tag):
        self.rng = rng
        self.DEF = DEF
        self.tag = tag
        self.dts = [ord(c) for c in DEF.DATA_TYPES]
        self.pts = [ord(c) for c in DEF.PORT_TYPES]
        self.pns = [ord(c) for c in DEF.PORT_NUMBERS]
        self.B01, self.U08, self.F32 = ord(DEF.DATA_TYPE_B01), ord(DEF.DATA_TYPE_U08), ord(DEF.DATA_TYPE_F32)
        self.DIO, self.AD24 = ord(DEF.PORT_TYPE_DIO), ord(DEF.PORT_TYPE_AD24)
        self.P0007 = ord(DEF.PORT_NUMBER_00_07)

    def byte(self):
        return self.rng.randrange(256)

    def key(self):
        r = self.rng.random()
        if r < 0.35:
            return [self.B01, self.DIO, self.rng.randrange(0, 33)]
        if r < 0.45:
            return [self.F32, self.rng.choice([self.AD24, self.AD24, self.DIO, self.rng.choice(self.pts)]),
                    self.rng.choice([self.P0007, self.rng.choice(self.pns)])]
        if r < 0.55:
            return [self.U08, self.DIO, self.rng.choice([self.P0007, 8, 9, self.rng.choice(self.pns)])]
        if r < 0.65:
            return [self.rng.choice([self.B01, self.U08, self.rng.choice(self.dts)]), self.DIO,
                    self.rng.choice([8, 9, self.rng.choice(self.pns)])]
        if r < 0.9:
            # a small pool so that writes are read back
            return [self.rng.choice(self.dts[:4]), self.rng.choice(self.pts[:3]), self.rng.choice(self.pns[:3])]
        k = [self.rng.choice(self.dts), self.rng.choice(self.pts), self.rng.choice(self.pns)]
        if self.rng.random() < 0.5:
            k[self.rng.randrange(3)] = self.byte()
        return k

    def value(self):
        r = self.rng.random()
        if r < 0.5:
            return [self.rng.randrange(2)]
        if r < 0.75:
            return [self.byte()]
        if r < 0.8:
            return [self.byte() for _ in range(252)]
        return [self.byte() for _ in range(self.rng.randrange(0, 6))]

    def time_params(self):
        r = self.rng.random()
        if r < 0.4:
            d = datetime(2026, 1, 1) + timedelta(seconds=self.rng.randrange(0, 10 ** 8))
            return [d.year // 100, d.year % 100, d.month, d.day, d.hour, d.minute, d.second,
                    self.rng.randrange(0, 110)]
        if r < 0.5:
            return [self.rng.randrange(10, 100), self.rng.randrange(0, 100), self.rng.randrange(1, 13),
                    self.rng.randrange(1, 29), self.rng.randrange(24), self.rng.randrange(60),
                    self.rng.randrange(60), self.rng.randrange(256)]
        if r < 0.62:
            # years 1..999: two-digit and three-digit years are rendered by a different code path
            y = self.rng.choice([self.rng.randrange(1, 100), self.rng.randrange(100, 1000)])
            return [y // 100, y % 100, self.rng.randrange(1, 13), self.rng.randrange(1, 29), self.rng.randrange(24),
                    self.rng.randrange(60), self.rng.randrange(60), self.rng.randrange(100)]
        if r < 0.7:
            return self.rng.choice([[99, 99, 12, 31, 23, 59, 59, 255], [0, 1, 1, 1, 0, 0, 0, 0],
                                    [20, 24, 2, 29, 12, 0, 0, 0], [20, 23, 2, 29, 12, 0, 0, 0],
                                    [9, 99, 12, 31, 23, 59, 59, 99], [0, 50, 6, 15, 1, 2, 3, 4],
                                    [1, 100, 1, 1, 0, 0, 0, 0], [0, 0, 1, 1, 0, 0, 0, 0]])
        if r < 0.87:
            return [self.byte() for _ in range(8)]
        return [self.byte() for _ in range(self.rng.choice([0, 1, 7, 9, 12]))]

    def params(self, kind, keys):
        rng = self.rng
        if kind == 'SET_ADDR':
            r = rng.random()
            if r < 0.55:
                return [rng.randrange(1, 0x7F) if rng.random() < 0.6 else rng.randrange(1, 8)]
            if r < 0.75 and keys:
                return [rng.choice(keys)]
            if r < 0.9:
                return [rng.choice([0, 0x7F, 0x80, 0xFF, self.byte()])]
            return [self.byte() for _ in range(rng.choice([0, 2, 3]))]
        if kind == 'SET_TIME':
            return self.time_params()
        if kind == 'SET_FRAME':
            r = rng.random()
            if r < 0.6:
                return [rng.randrange(1, 0x7F)]
            if r < 0.85:
                return [rng.choice([0, 0x7F, 0x80, 0xFF, self.byte()])]
            return [self.byte() for _ in range(rng.choice([0, 2, 5]))]
        if kind in ('GET_PORT', 'GET_DATA'):
            k = self.key()
            r = rng.random()
            if r < 0.9:
                return k
            return (k + [self.byte()]) if r < 0.95 else k[:rng.randrange(0, 3)]
        if kind == 'SET_PORT':
            k = self.key()
            r = rng.random()
            if r < 0.85:
                return k + [self.byte() if rng.random() < 0.5 else rng.randrange(2)]
            return (k + [1, 2]) if r < 0.92 else k[:rng.randrange(0, 4)]
        if kind == 'SET_DATA':
            k = self.key()
            if rng.random() < 0.92:
                return k + self.value()
            return k[:rng.randrange(0, 4)]
        return []

    def address(self, keys):
        r = self.rng.random()
        if r < 0.55 and keys:
            return self.rng.choice(keys)
        if r < 0.7:
            return 0x7F
        if r < 0.8:
            return 0x00
        if r < 0.9:
            return self.rng.randrange(1, 0x7F)
        return self.byte()

    def request(self, keys, kind=None, ext=None, sa=None, corrupt=None):
        """(bytes, description) of one request, well framed"""
        rng = self.rng
        DEF = self.DEF
        if kind is None and rng.random() < 0.06:
            # unknown command code
            acc = set(ord(c) for c in DEF.ACCEPTED_COMMANDS)
            c = rng.choice([x for x in (0x40, 0x50, 0x51, 0x60, 0x70, 0x00, 0x01, 0xFF, self.byte()) if x not in acc])
            sa = self.address(keys) if sa is None else sa
            return [ord(DEF.CMD_SOH), sa, self.byte(), c, self.byte()], ('UNKNOWN', False, sa)
        p = None
        if kind is None and self.tag in (1, 2, 3) and rng.random() < 0.3:
            kind, p = self.special()
        kind = rng.choice(KINDS) if kind is None else kind
        ext = (rng.random() < 0.5) if ext is None else ext
        sa = self.address(keys) if sa is None else sa
        if p is None:
            p = self.params(kind, keys)
        good = True
        if corrupt is None:
            corrupt = ext and rng.random() < 0.12
        if corrupt:
            good = rng.randrange(1, 256)
        eot = None if rng.random() < 0.9 else self.byte()
        filler = (self.byte(), self.byte())
        m = build(DEF, kind, ext, sa, self.byte(), self.byte(), p, good=good, eot=eot, filler=filler)
        return m, (kind, ext, sa)

    def special(self):
        """a get_data / set_data on the keys the board type treats specially (DIO bits, LNA drive keys)"""
        rng = self.rng
        if self.tag in (1, 2):
            pn = rng.choice([0, 1, 2, 4, 5, 6, 7, 8, 11, 12, 13, 14, 16, 17, 18, 19, 24, 26, 29, 30,
                             rng.randrange(0, 32)])
            if rng.random() < 0.55:
                return 'SET_DATA', [self.B01, self.DIO, pn, rng.randrange(2) if rng.random() < 0.9 else self.byte()]
            return 'GET_DATA', [self.B01, self.DIO, pn]
        k = rng.choice([[self.B01, self.DIO, 8], [self.B01, self.DIO, 9], [self.U08, self.DIO, self.P0007],
                        [self.F32, self.AD24, self.P0007], [self.F32, self.AD24, rng.choice(self.pns)],
                        [self.F32, rng.choice(self.pts), self.P0007], [self.U08, self.DIO, rng.choice(self.pns)]])
        if rng.random() < 0.55:
            v = [self.byte()] if rng.random() < 0.8 else [self.byte() for _ in range(rng.randrange(2, 5))]
            return 'SET_DATA', k + v
        return 'GET_DATA', k

    def garbage(self):
        rng = self.rng
        r = rng.random()
        soh = ord(self.DEF.CMD_SOH)
        if r < 0.4:
            return [rng.choice([x for x in range(256) if x != soh]) for _ in range(rng.randrange(1, 6))]
        if r < 0.7:
            # truncated frame: the rest of the stream is swallowed by it
            m, _ = self.request([1])
            return m[:rng.randrange(1, len(m))]
        if r < 0.85:
            return [soh] * rng.randrange(1, 5)
        return [self.byte() for _ in range(rng.randrange(1, 12))]



def scenario_stream(rng, DEF, g, tag, keys):
    """a dense exercise of the board-type specific registers: every writable DIO bit written with 0 and 1 in
    random order (so that the coupled read-only bits 16..19, 29, 30 and the switch positions go through all
    their states), every readable bit read in between; for the LNA its drive keys"""
    segs = []
    bro = [ord(c) for c in DEF.SLAVE_ADDR_BROADCAST]
    good = [k for k in keys if k not in bro] or [1]

    def req(kind, p, sa=None):
        segs.append(build(DEF, kind, rng.random() < 0.5, rng.choice(good) if sa is None else sa,
                          g.byte(), g.byte(), p))
    if tag in (1, 2):
        w = [0, 4, 5, 7, 8, 11, 12, 13, 14] + ([1, 2] if tag == 2 else [])
        r = [0, 1, 2, 4, 5, 6, 7, 8, 11, 12, 13, 14, 16, 17, 18, 19, 24, 26, 29, 30]
        for _ in range(rng.randrange(25, 45)):
            x = rng.random()
            if x < 0.5:
                req('SET_DATA', [g.B01, g.DIO, rng.choice(w), rng.randrange(2)])
            elif x < 0.9:
                req('GET_DATA', [g.B01, g.DIO, rng.choice(r)])
            elif x < 0.95:
                req('SET_DATA', [g.B01, g.DIO, rng.choice(w), rng.randrange(2)], sa=0x7F)
            else:
                req('INQUIRY', [])
    elif tag == 3:
        for _ in range(rng.randrange(20, 35)):
            kind, p = g.special()
            req(kind, p)
    else:
        for _ in range(rng.randrange(20, 35)):
            k = [rng.choice(g.dts[:3]), rng.choice(g.pts[:2]), rng.choice(g.pns[:2])]
            x = rng.random()
            if x < 0.3:
                req('SET_PORT', k + [g.byte()])
            elif x < 0.55:
                req('SET_DATA', k + g.value())
            elif x < 0.8:
                req('GET_DATA', k)
            else:
                req('GET_PORT', k)
    return segs


MAX_TIME = [99, 99, 12, 31, 23, 59, 59, 255]     # 9999-12-31 23:59:59.999999: the last instant datetime can hold


def raising_frames(DEF, g, sa):
    """[set_time to the last representable instant, a time query]: with a clock that moves, the query makes
    `last_cmd_date - time_offset` overflow (OverflowError escapes parse) -- the one exception a handler can
    still raise on the fixed tree (Proofs/RcvTotal.v)"""
    rng = g.rng
    q = rng.choice(['GET_TIME', 'INQUIRY'])
    return [build(DEF, 'SET_TIME', rng.random() < 0.5, sa, g.byte(), g.byte(), MAX_TIME),
            build(DEF, q, rng.random() < 0.5, sa, g.byte(), g.byte())]


def check_after_exception(ctx, DEF, cfg, prefix, rng, klass_prefix=''):
    """C03 / C18 on the implementation: history `prefix`, then a frame that makes a handler raise (virtual
    clock moving 1 ms per reading -- no real waiting), then ordinary requests.  After the raising frame the
    parser must be idle and the next well-formed requests must be framed and answered as usual."""
    rec = Recorder(step=1000)
    S = install(rec)
    system = make_system(*cfg)
    g = Gen(rng, DEF, cfg[0])
    stream = [list(x) for x in prefix]
    for seg in stream:
        feed(system, seg)
    feed(system, [0x55] * 263)
    stream.append([0x55] * 263)
    bro = [ord(c) for c in DEF.SLAVE_ADDR_BROADCAST]
    good = [k for k in (one(k) for k in system.slaves) if k not in bro]
    if not good:
        return None
    sa = rng.choice(good)
    st, q = raising_frames(DEF, g, sa)
    feed(system, st)
    stream.append(st)
    outs = feed(system, q)
    stream.append(q)

    def bad(klass, what, **w):
        ctx.fail(klass_prefix + klass, what, dict(w, config=list(cfg), stream=[list(x) for x in stream],
                                                  clock='virtual, +1 ms per utcnow()'))
    if outs[-1][0] != 3:
        return False          # this tree does not raise here: nothing to check
    if system.msg != '':
        bad('not_idle_after_exception', 'after a frame whose handler raised the parser is not idle: the bytes of '
            'that frame stay in the buffer', buffered=len(system.msg))
        return True
    for kind in ('GET_FRAME', 'GET_ADDR', 'VERSION'):
        m = build(DEF, kind, rng.random() < 0.5, sa, g.byte(), g.byte())
        outs = feed(system, m)
        stream.append(m)
        fr = decode_answer(DEF, outs[-1][1]) if outs[-1][0] == 2 else None
        if any(t != 1 for t, _ in outs[:-1]) or not fr or len(fr) != 1 or fr[0]['slave'] != sa or \
                (fr[0]['master'], fr[0]['cmd'], fr[0]['id']) != (m[2], m[3], m[4]):
            bad('unanswered_after_exception', 'a well-formed request after a frame whose handler raised is not '
                'answered once by the addressed board', request=m, outcome=outs[-1][0])
            return True
    return True


CONFIGS = [(1, 1), (1, 3), (1, 5), (0x7D, 0x7D), (0x7C, 0x7E), (2, 6), (1, 2), (0, 2), (0x7E, 0x80), (5, 4)]


def pick_config(rng, small=True):
    tag = rng.randrange(4)
    r = rng.random()
    if r < 0.8 or small:
        amin, amax = rng.choice(CONFIGS)
    elif r < 0.9:
        amin, amax = 1, 0x1F
    else:
        amin = rng.randrange(0, 0x80)
        amax = amin + rng.randrange(0, 4)
    feeds = rng.choice([1, 1, 2, 3, 7, 19, rng.randrange(1, 20)])
    return tag, amin, amax, feeds


def case_term(tag, feeds, addrs, rec, segs):
    """Coq term of type rcase"""
    dates = '[' + '; '.join('(%s, %s)' % (zlist(k), 'None' if v is None else '(Some %s)' % zlit(v))
                            for k, v in rec.dates.items()) + ']'
    rend = '[' + '; '.join('(%s, %s)' % (zlit(k), 'None' if v is None else '(Some %s)' % zlist(v))
                           for k, v in rec.renders.items()) + ']'
    st = []
    for outs, snap in segs:
        bs = '[' + '; '.join('(%s, %s, %s)' % (zlit(b), zlit(t), zlist(r)) for b, t, r in outs) + ']'
        st.append('(%s, %s)' % (bs, zlist(snap)))
    return 'RC %s %s %s %s %s %s [%s]' % (zlit(tag), zlit(feeds), zlist(addrs), zlist(rec.readings), dates, rend,
                                          ';\n '.join(st))


def run_history(ctx, rng, nseg, tag, amin, amax, feeds, stream=None, p_garbage=0.12):
    """one correspondence case: build a System, feed `nseg` segments, record everything"""
    from simulators.receiver import DEFINITIONS as DEF
    rec = Recorder(rng)
    S = install(rec)
    system = make_system(tag, amin, amax, feeds)
    g = Gen(rng, DEF, tag)
    addrs = list(range(amin, amax + 1))
    segs = []
    executed = 0
    for i in range(nseg):
        keys = [ord(k) for k in system.slaves]
        if stream is not None:
            data, desc = stream[i], None
        elif rng.random() < p_garbage:
            data, desc = g.garbage(), ('GARBAGE',)
        else:
            data, desc = g.request(keys)
        outs = feed(system, data)
        if any(t == 4 for t, _ in outs):
            raise RuntimeError('parse returned a value that is neither bool nor str')
        segs.append(([(b, t, r) for b, (t, r) in zip(data, outs)], snapshot(S, system, rec)))
        if desc:
            ctx.count('req:' + desc[0].lower())
        for t, _ in outs:
            ctx.count({0: 'byte:rejected', 1: 'byte:buffered/silent', 2: 'byte:reply', 3: 'byte:exception'}[t])
            executed += t == 2
    return case_term(tag, feeds, addrs, rec, segs), executed
