"""C11 — active-surface addressing: correspondence of Model/AslLine.v with
simulators/active_surface/__init__.py (USD objects spied on, opaque in the model) and the
property-level oracle on the real System (full attribute snapshots of every USD)."""
import copy
import re

from props import asl_lib as L

META = dict(
    id='C11',
    title='Active-surface addressing: unicast isolates, broadcast fans out, absent silent',
    design_ref='DESIGN.md section 7, C11',
    coq_target='Properties/C11.vo',
    coq_extra=['Corr/AslCorr.vo'],
    technique='Coq proof (dispatch theorems over a Gallina model of System.parse/_parse and the 24 handlers, '
              'parametric in the USD semantics) + in-Coq differential correspondence with the real System '
              '(USD calls spied on) + snapshot oracle on the real line',
    level_text='Theorems for every line configuration 0<=min<=max<=31, every command code (24 known + unknown), '
               'every parameter string, both start bytes and every USD semantics: a unicast invokes at most one '
               'method, on the addressed unit only, and its outcome depends on that unit only; a broadcast '
               'invokes the same decoded call once on every unit (none for the four getters) and is never '
               'answered; an address with no unit invokes nothing, changes nothing and is never answered. '
               'Stated on the message level and lifted to the byte level (framing automaton from idle). The '
               'model (code with fixes 04/05) is compared with the real System on seeded histories in Coq.',
    level_note='Trusted: Coq kernel + vm_compute; the hand-written line model as validated by the correspondence '
               'suites; the USD objects are opaque events (their semantics is C12/C13); time.sleep not modelled.',
    partial=None,
    rule='one case = one history of frames/garbage on one real line; non-trivial = distinct history with at '
         'least one USD method invocation or an addressed refusal',
    trusted=['spy subclass of USD recording (method, args, return value, delay_multiplier)'],
    assumptions=['USD methods return normally (no exception) and do not touch other units or the line',
                 'the response-delay sleep in _parse has no effect on state or replies'],
)


def gen(ctx):
    L.gen_tables(ctx)


# ---------------------------------------------------------------------------------------------
# correspondence

def gen_history(rng, lo, hi, nmsg):
    bs, tags = [], []
    for _ in range(nmsg):
        if rng.random() < 0.12:
            g, t = L.gen_garbage(rng)
            tags.append('garbage:' + t)
        else:
            g, t = L.gen_message(rng, lo, hi)
            tags.append(t)
        bs += g
    return bs, tags



def heterogeneous():
    """broadcasts of the commands whose USD method can refuse, on a line where exactly one unit
    (the first, or one in the middle) refuses and the others accept: (lo, hi, pokes, code, params)"""
    out = []
    for j in (0, 1, 2):
        out.append((2, 5, [(j, 'max_frequency', 5000)], 0x20, [0x17, 0x70]))         # min := 6000
        out.append((2, 5, [(j, 'min_frequency', 2000)], 0x21, [0x03, 0xE8]))         # max := 1000
        out.append((2, 5, [(j, 'running', True)], 0x30, [0, 0, 0x10, 0]))
        out.append((2, 5, [(j, 'running', True)], 0x31, [0, 0, 0x10, 0]))
        out.append((2, 5, [(j, 'running', True)], 0x32, [1]))
        out.append((2, 5, [(i, 'auto_resolution', True) for i in range(4) if i != j], 0x35, [0, 0, 5]))
    return out


def correspondence(ctx):
    rng = ctx.rng
    cases = []
    raised = 0
    n = ctx.n(260, 4000)
    corpus = [
        # F04: address below min served through negative indexing; F05: broadcast slope delayer
        (1, 3, [], L.frame(L.FC, 0, 0x12, []) + L.frame(L.FA, 0, 0x22, [7]) + L.frame(L.FC, None, 0x22, [7])),
        (5, 6, [], L.frame(L.FC, 4, 0x01, []) + L.frame(L.FC, 3, 0x28, [255]) + L.frame(L.FC, 0, 0x12, [])),
        (0, 31, [], L.frame(L.FC, None, 0x22, [9]) + L.frame(L.FC, 31, 0x12, [])),
    ]
    for lo, hi, pokes, code, params in heterogeneous():
        corpus.append((lo, hi, pokes, L.frame(L.FC, None, code, params) + L.frame(L.FA, hi, code, params)))
    for lo, hi, pokes, bs in corpus:
        term, outs, units = L.run_history(lo, hi, pokes, bs)
        cases.append(term)
        ctx.count('corpus')
    while len(cases) < n:
        lo, hi = L.gen_config(rng)
        pokes = L.gen_pokes(rng, hi - lo + 1)
        bs, tags = gen_history(rng, lo, hi, rng.randrange(1, 14))
        try:
            term, outs, units = L.run_history(lo, hi, pokes, bs)
        except L.UsdRaised:
            raised += 1
            continue
        cases.append(term)
        for t in tags:
            ctx.count(t)
        ncalls = sum(len(log) for _, log in units)
        if ncalls or any(o == [L.NAK] for o in outs):
            ctx.nontriv((lo, hi, tuple(bs), tuple(map(tuple, pokes and [(p[0], p[1], str(p[2])) for p in pokes]))))
    if raised:
        ctx.note('histories dropped because a USD method raised (outside the line model): %d' % raised)
    for c in cases[3:6]:
        ctx.sample(c[:600])
    ctx.run_cases('as_line', L.LINE_IMPORTS, 'lcase', 'ok_line', cases, show='show_line',
                  shard=ctx.n(40, 250))


# ---------------------------------------------------------------------------------------------
# oracle: the property statement on the real System

def prepared_line(lo, hi, pokes, prefix):
    """fresh real line, brought to some state by a prefix history, spies reset"""
    s = L.make_line(lo, hi)
    L.apply_pokes(s, pokes)
    L.feed(s, prefix)
    s._set_default()          # the property is about an idle parser (C03 covers the rest)
    L.spy_on(s)
    return s


def payload_of(start, reply):
    """payload bytes of a data reply (ACK start [hdr] payload chk)"""
    if start == L.FC:
        return reply[3:-1], reply[2]
    return reply[2:-1], None


def check_one(w):
    """re-execute one witness; returns None when the property holds, else a description"""
    lo, hi = w['min'], w['max']
    pokes = [tuple(p) for p in w['pokes']]
    prefix = bytes.fromhex(w['prefix'])
    start, target, code = w['start'], w['target'], w['code']
    params = list(bytes.fromhex(w['params']))
    n = hi - lo + 1
    with L.frozen_time():
        s = prepared_line(lo, hi, pokes, prefix)
        before = L.snapshots(s)
        msg = L.frame(start, target, code, params)
        outs = L.feed(s, msg)
        after = L.snapshots(s)
        logs = L.logs_of(s)
        if len(after) != len(before):
            return 'the line has %d units after the command, %d before' % (len(after), len(before))
        if any(o != 'T' for o in outs[:-1]):
            return 'frame not consumed byte by byte with True: %r' % (outs,)
        if L.fstate_of(s) != ([], False, 0):
            return 'parser not idle after the frame'
        bad = class_check(w, s, lo, hi, n, pokes, prefix, start, target, code, params,
                          outs, before, after, logs)
        if bad:
            return bad
        # whatever the command was, the units the parser addresses afterwards must still be the
        # units the positioning loop drives: command a velocity to every unit through parse, run
        # one iteration of the loop on the list the thread was started with, read the positions
        return motion_probe(s, lo, hi)


def real_usd():
    from simulators.active_surface.usd import USD
    return USD


def motion_probe(s, lo, hi):
    from simulators.active_surface.usd import USD
    if len(s.drivers) != hi - lo + 1:
        return 'the line has %d units instead of %d' % (len(s.drivers), hi - lo + 1)
    pos0 = [u.current_position for u in s.drivers]
    for a in range(lo, hi + 1):
        L.feed(s, L.frame(L.FA, a, 0x35, [0x00, 0x03, 0xE8]))       # set_velocity(1000)
    try:
        L.tick(s, 0.5)
    except Exception as ex:   # noqa
        return ('the positioning loop raised %s: %s (its thread ends: no unit of the line moves again)'
                % (type(ex).__name__, ex))
    for j, u in enumerate(s.drivers):
        if pos0[j] < USD.max_position and not u.current_position > pos0[j]:
            return ('unit %d does not move any more after the command (velocity 1000 commanded, one '
                    'iteration of the positioning loop run): position stays %d' % (lo + j, u.current_position))
    # the loop is shared by the whole line: stop every unit, let the loop run idle past the longest standby
    # delay (255 * 4.096 ms), and it must still be running (whatever the earlier commands configured on one unit)
    for a in range(lo, hi + 1):
        L.feed(s, L.frame(L.FA, a, 0x35, [0x00, 0x00, 0x00]))       # set_velocity(0)
    try:
        L.tick(s, 0.5)
        L.advance(2.0)
        L.tick(s, 0.5)
        L.tick(s, 0.5)
    except Exception as ex:   # noqa
        return ('the positioning loop raised %s: %s once the units were idle (its thread ends: no unit of the '
                'line moves again)' % (type(ex).__name__, ex))
    return None


def class_check(w, s, lo, hi, n, pokes, prefix, start, target, code, params, outs, before, after, logs):
    last = outs[-1]
    if target is None:
        # broadcast: never answered; every unit ends as after the same command sent to it alone
        if isinstance(last, list):
            return 'broadcast answered: %s' % bytes(last).hex()
        s2 = prepared_line(lo, hi, pokes, prefix)
        for a in range(lo, hi + 1):
            L.feed(s2, L.frame(start, a, code, params))
        expect = L.snapshots(s2)
        for j in range(n):
            if after[j] != expect[j]:
                diff = sorted(k for k in after[j] if after[j][k] != expect[j].get(k))
                return ('broadcast leaves unit %d (index %d) different from the unicast result: %s'
                        % (lo + j, j, diff))
            if len(logs[j]) > 1:
                return 'broadcast invoked unit %d %d times' % (lo + j, len(logs[j]))
        calls = set((c, repr(a)) for lg in logs for c, a, r, dm in lg)
        if len(calls) > 1:
            return 'broadcast invoked units with different arguments'
        return None
    if lo <= target <= hi:
        j = target - lo
        for i in range(n):
            if i != j and (after[i] != before[i] or logs[i]):
                return 'unicast to %d changed/invoked unit %d' % (target, lo + i)
        if len(logs[j]) > 1:
            return 'unicast invoked the unit more than once'
        if isinstance(last, list) and len(last) > 1:
            if last[0] != L.ACK or last[1] != start:
                return 'reply does not echo the start byte'
            payload, hdr = payload_of(start, last)
            if start == L.FC and (hdr & 0x1F) != target:
                return 'reply carries address %d, request had %d' % (hdr & 0x1F, target)
            u = s.drivers[j]
            if code == 0x12 and payload != list((u.current_position % 2 ** 32).to_bytes(4, 'big')):
                return 'position reply is not the position of the addressed unit'
            if code == 0x13 and payload != [ord(c) for c in real_usd().get_status(u)]:
                return 'status reply is not the status of the addressed unit'
        silent = before[j]['delay_multiplier'] == 255 and after[j]['delay_multiplier'] == 255
        if last in ('V', 'E', 'B', 'F'):
            if code in L.NPAR:
                return 'known command to a present unit gave %r' % (last,)
        elif last == 'T' and after[j]['delay_multiplier'] != 255:
            return 'present unit did not answer'
        elif isinstance(last, list) and silent:
            return 'unit with delay_multiplier 255 answered'
        return None
    # absent address
    if isinstance(last, list):
        return 'absent address %d answered: %s' % (target, bytes(last).hex())
    if after != before:
        j = [i for i in range(n) if after[i] != before[i]][0]
        return 'absent address %d changed unit %d' % (target, lo + j)
    if any(logs):
        return 'absent address %d invoked a unit' % target
    return None


def klass_of(w):
    if w['target'] is None:
        return 'broadcast'
    if w['min'] <= w['target'] <= w['max']:
        return 'unicast'
    return 'absent-below' if w['target'] < w['min'] else 'absent-above'


def oracle(ctx):
    rng = ctx.rng
    checked = 0
    hist = {}
    fixed_ws = [
        dict(min=1, max=3, pokes=[], prefix='', start=L.FC, target=0, code=0x12, params=''),
        dict(min=1, max=3, pokes=[], prefix='', start=L.FC, target=None, code=0x22, params='07'),
        dict(min=5, max=6, pokes=[], prefix='', start=L.FA, target=4, code=0x01, params=''),
        dict(min=5, max=6, pokes=[], prefix='', start=L.FA, target=3, code=0x28, params='ff'),
    ]
    ws = list(fixed_ws)
    # every code as broadcast on a 3-unit line and as below-min / above-max unicast
    for code in L.CODES:
        ps = bytes(L.valid_params(rng, code)).hex()
        ws.append(dict(min=2, max=4, pokes=[], prefix='', start=rng.choice([L.FA, L.FC]), target=None,
                       code=code, params=ps))
        ws.append(dict(min=2, max=4, pokes=[], prefix='', start=rng.choice([L.FA, L.FC]),
                       target=rng.choice([0, 1]), code=code, params=ps))
        ws.append(dict(min=2, max=4, pokes=[], prefix='', start=rng.choice([L.FA, L.FC]),
                       target=rng.choice([5, 31]), code=code, params=ps))
        ws.append(dict(min=2, max=4, pokes=[], prefix='', start=rng.choice([L.FA, L.FC]),
                       target=rng.choice([2, 3, 4]), code=code, params=ps))
    for lo, hi, pokes, code, params in heterogeneous():
        ws.append(dict(min=lo, max=hi, pokes=[list(p) for p in pokes], prefix='', start=L.FC, target=None,
                       code=code, params=bytes(params).hex()))
    for _ in range(ctx.n(900, 20000)):
        lo, hi = L.gen_config(rng)
        pokes = L.gen_pokes(rng, hi - lo + 1, soft=True, p=0.4)
        prefix = []
        for _ in range(rng.choice([0, 0, 1, 3, 6])):
            prefix += L.gen_message(rng, lo, hi, force_valid=True)[0]
        target, tk = L.gen_target(rng, lo, hi)
        r = rng.random()
        if r < 0.8:
            code = rng.choice(L.CODES)
            params = L.valid_params(rng, code)
        elif r < 0.92:
            code = rng.choice(L.CODES)
            params = [rng.randrange(256) for _ in range(rng.randrange(0, 7))]
        else:
            code = rng.choice(L.UNKNOWN_CODES)
            params = [rng.randrange(256) for _ in range(rng.randrange(0, 7))]
        ws.append(dict(min=lo, max=hi, pokes=[list(p) for p in pokes], prefix=bytes(prefix).hex(),
                       start=rng.choice([L.FA, L.FC]), target=target, code=code, params=bytes(params).hex()))
    seen = set()
    for w in ws:
        checked += 1
        k = klass_of(w)
        hist[k] = hist.get(k, 0) + 1
        bad = check_one(w)
        key = (k, re.sub(r'[0-9a-f]*\d[0-9a-f]*', '#', bad or '')[:40])
        if bad and key not in seen:
            seen.add(key)
            ctx.fail('as-' + k, bad, shrink(w))
    ctx.oracle_stats = dict(checked=checked, classes=hist)
    ctx.evaluations += checked


def shrink(w):
    """drop the prefix / pokes / parameters while the witness still fails"""
    w = copy.deepcopy(w)
    for key, val in (('prefix', ''), ('pokes', [])):
        if w[key]:
            t = dict(w, **{key: val})
            if check_one(t):
                w = t
    return w


def replay(ctx, obj):
    w = obj.get('witness') or {}
    if 'min' not in w:
        return False
    bad = check_one(w)
    if bad:
        print('  replay:', bad)
    return bool(bad)
