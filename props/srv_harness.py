"""Harness shared by props/c01.py and props/parts/c07_server.py (tag Srv).

Runs the REAL handler classes of simulators/server.py (ListenHandler, SendHandler: setup, handle,
_handle, _execute_custom_command, finish) on a fake request socket and a scripted fake `system`,
records everything the handler does to its environment, and renders cases for
coq/Corr/SrvCorr.v.  Nothing here sleeps, opens a socket or starts a thread.
"""
import logging
import queue
import socket
import types

from vlib.core import zlit, zlist, blit, natlit

TAIL = b'%%%%%'
SHUTDOWN = '$server_shutdown%%%%%'
CLIENT = ('127.0.0.1', 54321)
# attribute names the handlers themselves use on `system`; a custom command addressing one of
# them would act on the scripted parser itself, which the black-box model cannot express
RESERVED = [b'parse', b'system_greet', b'subscribe', b'unsubscribe', b'sampling_time']


# ---------------------------------------------------------------------------
# scripted environment

class Fail(Exception):
    pass


def make_exc(kind):
    return {'VE': ValueError('scripted'), 'UE': UnicodeEncodeError('latin-1', 'Ā', 0, 1, 'scripted'),
            'KE': KeyError('scripted'), 'RE': RuntimeError('scripted'), 'IO': IOError('scripted'),
            'AE': AttributeError('scripted'), 'IE': IndexError('scripted'),
            'TE': TypeError('scripted')}[kind]


OTHER_OBJECTS = {'int7': 7, 'int0': 0, 'bytes': b'xy', 'ebytes': b'', 'list': [1], 'elist': [],
                 'float': 2.5, 'tuple': ('a',)}


class FakeSystem:
    """Serves exactly: parse, system_greet, subscribe, unsubscribe, sampling_time and the names
    of the operation table; every other attribute does not exist (AttributeError), like an
    unknown custom command on a real System."""

    def __init__(self, log, outs, ops, greet=None):
        object.__setattr__(self, '_d', dict(log=log, outs=list(outs), ops=ops, greet=greet))

    def __getattribute__(self, name):
        d = object.__getattribute__(self, '_d')
        log = d['log']
        if name == 'parse':
            def parse(byte):
                log.append(('parse', byte))
                o = d['outs'].pop(0) if d['outs'] else ('F',)
                return realise_outcome(o)
            return parse
        if name == 'system_greet':
            return lambda: d['greet']
        if name == 'sampling_time':
            return 0.01
        if name == 'subscribe':
            return lambda q: log.append(('sub',))
        if name == 'unsubscribe':
            return lambda q: log.append(('unsub',))
        log.append(('look', name))
        ops = d['ops']
        if name not in ops:
            raise AttributeError(name)
        kind, strict, val = ops[name]
        if kind == 'noncallable':
            return 5

        def body(params):
            log.append(('call', name, list(params)))
            if kind == 'raise':
                raise make_exc(val)
            if kind == 'str':
                return val
            return OTHER_OBJECTS[val] if val is not None else None
        if strict:
            return lambda: body(())
        return lambda *params: body(params)


def realise_outcome(o):
    k = o[0]
    if k == 'F':
        return False
    if k == 'T':
        return True
    if k == 'S':
        return o[1]
    if k == 'N':
        return None
    if k == 'O':
        return OTHER_OBJECTS[o[1]]
    if k == 'E':
        raise make_exc(o[1])
    raise AssertionError(o)


class FakeSocket:
    def __init__(self, log, script, fails, dgram=False):
        self.log = log
        self.script = list(script)
        self.fails = set(fails)
        self.nsend = 0
        self.type = socket.SOCK_DGRAM if dgram else socket.SOCK_STREAM

    def recv(self, n):
        if not self.script:
            return b''
        ev = self.script.pop(0)
        if ev is None:
            raise BlockingIOError('scripted: no data / connection error')
        return ev

    def sendto(self, payload, addr):
        k = self.nsend
        self.nsend += 1
        if addr != CLIENT or not isinstance(payload, (bytes, bytearray)):
            self.log.append(('bad', repr((payload, addr))))
            return
        if k in self.fails:
            self.log.append(('sendfail', bytes(payload)))
            raise BrokenPipeError('scripted')
        self.log.append(('send', bytes(payload)))

    def setblocking(self, flag):
        pass


def exc_code(ex):
    if isinstance(ex, UnicodeEncodeError):
        return 2
    if isinstance(ex, ValueError):
        return 1
    if isinstance(ex, OSError):
        return 3
    return 0


class Patched:
    """replace the module-level `time` (sleep(0.01) before stop) and `Queue` of simulators.server
    for the duration of one run"""

    def __init__(self, qscript=None, log=None):
        self.qscript = qscript
        self.log = log

    def __enter__(self):
        from simulators import server as S
        self.S = S
        self.saved = (S.time, S.Queue)
        S.time = types.SimpleNamespace(sleep=lambda s: None, time=lambda: 0.0)
        # the handlers log every rejected byte to $ACSDATA/sim-server.log: keep the file small
        self.log_level = logging.root.manager.disable
        logging.disable(logging.CRITICAL)
        if self.qscript is not None:
            script = list(self.qscript)

            class FakeQueue:
                def __init__(self, maxsize=0):
                    pass

                def get(self, block=True, timeout=None):
                    ev = script.pop(0) if script else None
                    if ev is None:
                        raise queue.Empty()
                    return ev
            S.Queue = FakeQueue
        return S

    def __exit__(self, *a):
        self.S.time, self.S.Queue = self.saved
        logging.disable(self.log_level)


def merge_log(log):
    """('look', n) immediately followed by ('call', n, params) is one call with parameters"""
    out = []
    i = 0
    while i < len(log):
        ev = log[i]
        if ev[0] == 'look':
            if i + 1 < len(log) and log[i + 1][0] == 'call' and log[i + 1][1] == ev[1]:
                out.append(('call', ev[1], log[i + 1][2]))
                i += 2
                continue
            out.append(('call', ev[1], None))
        elif ev[0] == 'call':
            out.append(('bad', 'call without lookup'))
        else:
            out.append(ev)
        i += 1
    return out


def _run(handler_base, request, outs, ops, greet, log, qscript=None):
    final = {'cm': None}
    with Patched(qscript, log) as S:
        base = getattr(S, handler_base)

        class H(base):
            system = FakeSystem(log, outs, ops, greet)
            stop = staticmethod(lambda: log.append(('stop',)))

            def finish(self):
                final['cm'] = getattr(self, 'custom_msg', None)
        died = None
        try:
            H(request, CLIENT, None)
        except Exception as ex:     # noqa
            died = exc_code(ex)
            log.append(('dies', died, type(ex).__name__))
    return merge_log(log), final['cm'], died


def run_listen_tcp(greet, outs, ops, fails, evs):
    log = []
    return _run('ListenHandler', FakeSocket(log, evs, fails), outs, ops, greet, log)


def run_listen_udp(outs, ops, fails, msg):
    log = []
    return _run('ListenHandler', (bytes(msg), FakeSocket(log, [], fails, dgram=True)), outs, ops, None, log)


def run_send(first, ops, fails, rs, qs):
    log = []
    sock = FakeSocket(log, rs, fails, dgram=first is not None)
    request = sock if first is None else (bytes(first), sock)
    tr, _, died = _run('SendHandler', request, [], ops, None, log, qscript=qs)
    return tr, died


# ---------------------------------------------------------------------------
# Coq rendering

def s2l(s):
    return zlist([ord(c) for c in s]) if isinstance(s, str) else zlist(list(s))


def coq_outcome(o):
    k = o[0]
    if k == 'F':
        return 'ORet (VBool false)'
    if k == 'T':
        return 'ORet (VBool true)'
    if k == 'S':
        return 'ORet (VStr %s)' % s2l(o[1])
    if k == 'N':
        return 'ORet VNone'
    if k == 'O':
        return 'ORet VOther'
    if k == 'E':
        return 'OValueError' if o[1] in ('VE', 'UE') else 'OException'
    raise AssertionError(o)


def coq_sysres(kind, val):
    if kind == 'str':
        return 'RStr %s' % s2l(val)
    if kind == 'nonstr':
        return 'RNonStr'
    if kind == 'noncallable':
        return 'RExc'
    if kind == 'raise':
        return 'RAttrErr' if val == 'AE' else 'RExc'
    raise AssertionError(kind)


def coq_optab(ops):
    return '[' + '; '.join('(%s, %s, %s)' % (s2l(n), blit(strict), coq_sysres(kind, val))
                           for n, (kind, strict, val) in ops.items()) + ']'


def coq_list(items):
    return '[' + '; '.join(items) + ']'


def coq_opt(x, f):
    return 'None' if x is None else '(Some %s)' % f(x)


def coq_obs(ev):
    k = ev[0]
    if k == 'parse':
        return 'OParse %s' % zlit(ord(ev[1])) if isinstance(ev[1], str) and len(ev[1]) == 1 else 'OBad'
    if k == 'send':
        return 'OSend %s' % s2l(ev[1])
    if k == 'sendfail':
        return 'OSendFail %s' % s2l(ev[1])
    if k == 'call':
        ps = ev[2]
        if ps is not None and not all(isinstance(p, str) for p in ps):
            return 'OBad'
        return 'OCall %s %s' % (s2l(ev[1]), coq_opt(ps, lambda l: coq_list([s2l(p) for p in l])))
    if k == 'stop':
        return 'OStop'
    if k == 'sub':
        return 'OSub'
    if k == 'unsub':
        return 'OUnsub'
    if k == 'dies':
        return 'ODies %s' % zlit(ev[1])
    return 'OBad'


def coq_fails(fails):
    return coq_list([natlit(k) for k in sorted(fails)])


def coq_evs(evs):
    return coq_list([coq_opt(e, s2l) for e in evs])


def case_listen_tcp(greet, outs, ops, fails, evs, tr, cm, died):
    return 'CListenTcp %s %s %s %s %s %s %s %s' % (
        coq_opt(greet, s2l), coq_list([coq_outcome(o) for o in outs]), coq_optab(ops), coq_fails(fails),
        coq_evs(evs), coq_list([coq_obs(e) for e in tr]), s2l(cm or ''), blit(died is not None))


def case_listen_udp(outs, ops, fails, msg, tr, cm, died):
    return 'CListenUdp %s %s %s %s %s %s %s' % (
        coq_list([coq_outcome(o) for o in outs]), coq_optab(ops), coq_fails(fails), s2l(msg),
        coq_list([coq_obs(e) for e in tr]), s2l(cm or ''), blit(died is not None))


def case_send(first, ops, fails, rs, qs, tr, died):
    return 'CSend %s %s %s %s %s %s %s' % (
        coq_opt(first, s2l), coq_optab(ops), coq_fails(fails),
        coq_list(['RNoData' if r is None else 'RChunk %s' % s2l(r) for r in rs]),
        coq_list(['QEmpty' if q is None else 'QMsg %s' % s2l(q) for q in qs]),
        coq_list([coq_obs(e) for e in tr]), blit(died is not None))


# ---------------------------------------------------------------------------
# generators

OP_POOL = {
    'system_stop': ('str', True, SHUTDOWN),
    'system_foo': ('str', False, 'foo-ok'),
    'echo': ('str', False, 'e'),
    'empty': ('str', False, ''),
    'wide': ('str', False, 'aĀb'),
    'high': ('str', False, '\xe9\xff\x00'),
    'fake_stop': ('str', False, SHUTDOWN),
    'almost': ('str', False, '$server_shutdown%%%%'),
    'none': ('nonstr', False, None),
    'num': ('nonstr', False, 'int7'),
    'byt': ('nonstr', False, 'bytes'),
    'strictnone': ('nonstr', True, None),
    'aerr': ('raise', False, 'AE'),
    'verr': ('raise', False, 'VE'),
    'rerr': ('raise', False, 'RE'),
    'ioerr': ('raise', False, 'IO'),
    'attr': ('noncallable', False, None),
}
UNKNOWN_NAMES = ['nosuch', '', 'x', 'system_stop ', 'System_stop', 'system_sto', 'system_stopp', '_d',
                 '__class__', '__init__', 'stop', 'e cho']
PARAMS = ['1', 'a', '', 'x y', '3.5', '\xe9', '-2', 'on']
ALPHABET = (b'abcxyz019 _' * 3 + b'$$$$%%%%%%%%::,,\n\r\x00\x7f' + bytes([0x80, 0xa5, 0xe9, 0xff, 0x24 ^ 0x80]))


def gen_ops(rng):
    """operation table of one case: system_stop always (as on every real System), a random part
    of the pool otherwise (so every name is sometimes unknown)"""
    ops = {'system_stop': OP_POOL['system_stop']}
    if rng.random() < 0.04:      # a System whose stop answers something else
        ops['system_stop'] = ('str', True, rng.choice(['bye', '', SHUTDOWN + ' ']))
    for n, v in OP_POOL.items():
        if n != 'system_stop' and rng.random() < 0.7:
            ops[n] = v
    return ops


def gen_body(rng):
    r = rng.random()
    names = list(OP_POOL) + UNKNOWN_NAMES
    name = rng.choice(names) if r < 0.9 else ''.join(rng.choice('abxyz_%') for _ in range(rng.randrange(0, 5)))
    if rng.random() < 0.25:
        name = 'system_stop'
    r = rng.random()
    if r < 0.45:
        return name
    if r < 0.55:
        return name + ':'
    if r < 0.85:
        return name + ':' + ','.join(rng.choice(PARAMS) for _ in range(rng.randrange(1, 4)))
    # malformed: two or more ':'
    return name + ':' + rng.choice(['a:b', ':', 'a:', ':b', '1,2:3', 'a:b:c'])


def gen_token(rng):
    r = rng.random()
    if r < 0.30:
        return bytes(rng.choice(ALPHABET) for _ in range(rng.randrange(0, 9)))
    body = gen_body(rng).encode('latin-1')
    if r < 0.70:
        return b'$' + body + TAIL
    if r < 0.76:
        return b'$' + body + b'%' * rng.randrange(0, 5) + rng.choice([b'', b'a', b'\n', b'$'])
    if r < 0.82:
        return b'$' + bytes(rng.choice(b'ab%:,') for _ in range(rng.randrange(0, 4))) + b'$' + body + TAIL
    if r < 0.88:
        return b'$' + body + b'%' * rng.randrange(6, 12)
    if r < 0.92:
        return TAIL + body + TAIL
    if r < 0.96:
        k = rng.randrange(1, 5)
        return b'$' + body[:2] + b'%' * k + body[2:] + TAIL
    return b'$' + TAIL


def has_reserved(stream):
    return any(r in stream for r in RESERVED)


def gen_stream(rng, maxtok=5):
    while True:
        s = b''.join(gen_token(rng) for _ in range(rng.randrange(1, maxtok + 1)))
        if not has_reserved(s):
            return s


REPLIES = ['ack', 'A', '\xe9\xff', '\x00', 'long reply 0123456789', '$', '%%%%%', '$x%%%%%', '\n']
WIDE = ['Ā', 'ab€', '\U0001f600']


def gen_outcome(rng):
    r = rng.random()
    if r < 0.30:
        return ('F',)
    if r < 0.52:
        return ('T',)
    if r < 0.68:
        return ('S', rng.choice(REPLIES))
    if r < 0.72:
        return ('S', rng.choice(WIDE))
    if r < 0.75:
        return ('S', '')
    if r < 0.79:
        return ('N',)
    if r < 0.83:
        return ('O', rng.choice(sorted(OTHER_OBJECTS)))
    if r < 0.91:
        return ('E', rng.choice(['VE', 'VE', 'UE']))
    return ('E', rng.choice(['KE', 'RE', 'IO', 'AE', 'IE', 'TE']))


def gen_outcomes(rng, n):
    mode = rng.random()
    if mode < 0.15:       # a quiet parser
        return [rng.choice([('F',), ('T',)]) for _ in range(n)]
    if mode < 0.25:       # every byte answered
        return [('S', rng.choice(REPLIES)) for _ in range(n)]
    outs = [gen_outcome(rng) for _ in range(n)]
    # a reply immediately followed by exceptions (stale `response`), often
    for i in range(n - 1):
        if outs[i][0] == 'S' and rng.random() < 0.5:
            outs[i + 1] = ('E', rng.choice(['VE', 'KE', 'RE']))
            if i + 2 < n and rng.random() < 0.5:
                outs[i + 2] = ('E', rng.choice(['VE', 'KE']))
    return outs


def partitions(rng, stream, k):
    """k partitions of the stream into non-empty segments: whole, bytewise, random cuts"""
    n = len(stream)
    out = []
    if n == 0:
        return [[]]
    out.append([stream])
    if k > 1:
        out.append([stream[i:i + 1] for i in range(n)])
    while len(out) < k:
        ncut = rng.randrange(1, min(n, 6) + 1) if n > 1 else 0
        cuts = sorted(set(rng.randrange(1, n) for _ in range(ncut))) if n > 1 else []
        segs = [stream[a:b] for a, b in zip([0] + cuts, cuts + [n])]
        out.append(segs)
    return out[:k]


# ---------------------------------------------------------------------------
# the specification, transcribed to Python on the unsegmented stream (oracle side)

def op_result(ops, name, params):
    """('str', s) | ('other',)"""
    if name not in ops:
        return ('other',)
    kind, strict, val = ops[name]
    if kind != 'str' or (strict and params):
        return ('other',)
    return ('str', val)


def encodable(s):
    return all(ord(c) < 256 for c in s)


def command_at(stream, i):
    """body of the custom command ending exactly at index i (inclusive), else None"""
    pre = stream[:i + 1]
    p = pre.rfind(b'$')
    if p < 0:
        return None
    t = pre[p + 1:]
    if t.endswith(TAIL) and TAIL not in t[:-1]:
        return t[:-5].decode('latin-1')
    return None


def command_trace(ops, body):
    parts = body.split(':')
    if len(parts) > 2:
        return []
    name = parts[0]
    params = parts[1].split(',') if len(parts) == 2 and parts[1] else []
    tr = [('call', name, params)]
    res = op_result(ops, name, params)
    if res[0] == 'str' and encodable(res[1]):
        tr.append(('send', res[1].encode('latin-1')))
        if res[1] == SHUTDOWN:
            tr.append(('stop',))
    return tr


def spec_trace(stream, outs, ops):
    tr = []
    for i in range(len(stream)):
        tr.append(('parse', chr(stream[i])))
        o = outs[i] if i < len(outs) else ('F',)
        if o[0] == 'S' and o[1] and encodable(o[1]):
            tr.append(('send', o[1].encode('latin-1')))
        body = command_at(stream, i)
        if body is not None:
            tr += command_trace(ops, body)
    return tr


def same_trace(observed, expected):
    """observed calls without parameters (lookup only) are compared by name"""
    if len(observed) != len(expected):
        return False
    for a, b in zip(observed, expected):
        if a[0] == 'call' and b[0] == 'call' and a[2] is None:
            if a[1] != b[1]:
                return False
        elif tuple(a) != tuple(b) and list(a) != list(b):
            return False
    return True
