"""Harness shared by props/c01.py and props/parts/c07_server.py (tag Srv).

Runs the REAL handler classes of simulators/server.py (ListenHandler, SendHandler: setup, handle,
_handle, _execute_custom_command, finish) on a fake request socket and a scripted fake `system`,
records everything the handler does to its environment, and renders cases for
coq/Corr/SrvCorr.v.  Nothing here sleeps, opens a socket or starts a thread.
"""
import logging
import queue
import socket
import types

from vlib.core import zlit, zlist, blit, natlit

TAIL = b'%%%%%'
SHUTDOWN = '$server_shutdown%%%%%'
CLIENT = ('127.0.0.1', 54321)
# attribute names the handlers themselves use on `system`; a custom command addressing one of
# them would act on the scripted parser itself, which the black-box model cannot express
RESERVED = [b'parse', b'system_greet', b'subscribe', b'unsubscribe', b'sampling_time']


# ---------------------------------------------------------------------------
# scripted environment

class Fail(Exception):
    pass


# --- the exception objects a scripted parse / operation can raise ----------------------------
# The model only distinguishes "is a ValueError" from "any other Exception"; the tie must check
# that the handler treats EVERY such object that way: with no arguments (bare `raise ValueError`,
# as the real parsers do), with non-str or several arguments, subclasses, unusual __str__.

class OddStrValueError(ValueError):
    """__str__ with format characters and non-latin-1 text"""

    def __str__(self):
        return '%s %d %(x)s {0} \u20ac'


class NoArgsValueError(ValueError):
    """__init__ that does not forward its arguments: args == ()"""

    def __init__(self, *a):
        ValueError.__init__(self)
        self.detail = a


class EmptyStrError(Exception):
    def __str__(self):
        return ''


class OddAttributeError(AttributeError):
    def __str__(self):
        return '%d'


class DeviceError(RuntimeError):
    def __init__(self, code, text):
        RuntimeError.__init__(self, code, text)


def _exc_table():
    import json
    import struct
    return {
        # ValueError and subclasses
        'VE': lambda: ValueError('scripted'),
        'VE0': lambda: ValueError(),                       # bare `raise ValueError`
        'VEcls': lambda: ValueError,                       # `raise ValueError` (the class itself)
        'VEint': lambda: ValueError(5),
        'VE2': lambda: ValueError('a', 'b'),
        'VEnone': lambda: ValueError(None),
        'VEtuple': lambda: ValueError(('x', 1)),
        'VEfmt': lambda: ValueError('%s %d'),
        'VEbytes': lambda: ValueError(b'\xff'),
        'VEwide': lambda: ValueError('\u0100\u20ac'),
        'VEodd': lambda: OddStrValueError('x'),
        'VEnoargs': lambda: NoArgsValueError('hidden'),
        'UE': lambda: UnicodeEncodeError('latin-1', '\u0100', 0, 1, 'scripted'),
        'UD': lambda: UnicodeDecodeError('ascii', b'\xff', 0, 1, 'scripted'),
        'JD': lambda: json.JSONDecodeError('bad', 'doc', 0),
        # other Exceptions
        'KE': lambda: KeyError('scripted'),
        'KE0': lambda: KeyError(),
        'KEcls': lambda: KeyError,
        'RE': lambda: RuntimeError('scripted'),
        'RE0': lambda: RuntimeError(),
        'IO': lambda: IOError('scripted'),
        'IO2': lambda: OSError(5, 'Input/output error'),
        'CR': lambda: ConnectionResetError(104, 'reset'),
        'TO': lambda: TimeoutError(),
        'AE': lambda: AttributeError('scripted'),
        'AE0': lambda: AttributeError(),
        'AEodd': lambda: OddAttributeError('x'),
        'IE': lambda: IndexError('scripted'),
        'IE0': lambda: IndexError(),
        'TE': lambda: TypeError('scripted'),
        'ZD': lambda: ZeroDivisionError(),
        'SI': lambda: StopIteration(),
        'AS': lambda: AssertionError(),
        'NI': lambda: NotImplementedError(),
        'OV': lambda: OverflowError(34, 'too large'),
        'ME': lambda: MemoryError(),
        'SE': lambda: struct.error('unpack requires a buffer of 8 bytes'),
        'EX0': lambda: Exception(),
        'EXint': lambda: Exception(7, None),
        'ES': lambda: EmptyStrError('x'),
        'DE': lambda: DeviceError(3, 'fault'),
    }


EXC_TABLE = _exc_table()


def make_exc(kind):
    return EXC_TABLE[kind]()


def exc_class(kind):
    e = make_exc(kind)
    return e if isinstance(e, type) else type(e)


VALUE_ERRORS = sorted(k for k in EXC_TABLE if issubclass(exc_class(k), ValueError))
ATTR_ERRORS = sorted(k for k in EXC_TABLE if issubclass(exc_class(k), AttributeError))
OTHER_ERRORS = sorted(k for k in EXC_TABLE if not issubclass(exc_class(k), ValueError))


class SubStr(str):
    """a str subclass: isinstance(x, str) holds"""


class Obj:
    pass


OTHER_OBJECTS = {'int7': 7, 'int0': 0, 'int1': 1, 'neg': -1, 'bytes': b'xy', 'ebytes': b'', 'list': [1],
                 'elist': [], 'float': 2.5, 'nan': float('nan'), 'tuple': ('a',), 'etuple': (),
                 'dict': {'a': 1}, 'edict': {}, 'set': {1}, 'bytearray': bytearray(b'ab'),
                 'object': Obj(), 'class': Obj, 'function': len, 'ellipsis': Ellipsis, 'complex': 1j}


class FakeSystem:
    """Serves exactly: parse, system_greet, subscribe, unsubscribe, sampling_time and the names
    of the operation table; every other attribute does not exist (AttributeError), like an
    unknown custom command on a real System."""

    def __init__(self, log, outs, ops, greet=None):
        object.__setattr__(self, '_d', dict(log=log, outs=list(outs), ops=ops, greet=greet))

    def __getattribute__(self, name):
        d = object.__getattribute__(self, '_d')
        log = d['log']
        if name == 'parse':
            def parse(byte):
                log.append(('parse', byte))
                o = d['outs'].pop(0) if d['outs'] else ('F',)
                return realise_outcome(o)
            return parse
        if name == 'system_greet':
            return lambda: d['greet']
        if name == 'sampling_time':
            return 0.01
        if name == 'subscribe':
            return lambda q: log.append(('sub',))
        if name == 'unsubscribe':
            return lambda q: log.append(('unsub',))
        log.append(('look', name))
        ops = d['ops']
        if name not in ops:
            raise AttributeError(name)
        kind, strict, val = ops[name]
        if kind == 'noncallable':
            return 5

        def body(params):
            log.append(('call', name, list(params)))
            if kind == 'raise':
                raise make_exc(val)
            if kind == 'str':
                return val
            if kind == 'substr':
                return SubStr(val)
            return OTHER_OBJECTS[val] if val is not None else None
        if strict:
            return lambda: body(())
        return lambda *params: body(params)


def realise_outcome(o):
    k = o[0]
    if k == 'F':
        return False
    if k == 'T':
        return True
    if k == 'S':
        return o[1]
    if k == 'SS':                      # a str subclass instance
        return SubStr(o[1])
    if k == 'N':
        return None
    if k == 'O':
        return OTHER_OBJECTS[o[1]]
    if k == 'E':
        raise make_exc(o[1])
    raise AssertionError(o)


class OddIOError(IOError):
    """an IOError subclass built without arguments"""

    def __init__(self):
        IOError.__init__(self)

    def __str__(self):
        return '%s'


# the I/O errors the fake socket raises (recv and sendto), cycled deterministically
IO_ERRORS = [lambda: BlockingIOError('scripted'), lambda: BrokenPipeError('scripted'),
             lambda: ConnectionResetError(104, 'Connection reset by peer'), lambda: OSError(),
             lambda: IOError, lambda: TimeoutError('timed out'), lambda: socket.timeout(),
             lambda: OddIOError(), lambda: OSError(9, 'Bad file descriptor', 'x')]
IO_SEED = [0]      # start of the cycle for the sockets built next (set by the generators)
STOP_EXC = [None]  # exception kind the fake Server.stop raises after being recorded (or None)


class FakeSocket:
    def __init__(self, log, script, fails, dgram=False):
        self.nerr = IO_SEED[0]
        self.log = log
        self.script = list(script)
        self.fails = set(fails)
        self.nsend = 0
        self.type = socket.SOCK_DGRAM if dgram else socket.SOCK_STREAM

    def recv(self, n):
        if not self.script:
            return b''
        ev = self.script.pop(0)
        if ev is None:
            self.nerr += 1
            raise IO_ERRORS[self.nerr % len(IO_ERRORS)]()
        return ev

    def sendto(self, payload, addr):
        k = self.nsend
        self.nsend += 1
        if addr != CLIENT or not isinstance(payload, (bytes, bytearray)):
            self.log.append(('bad', repr((payload, addr))))
            return
        if k in self.fails:
            self.log.append(('sendfail', bytes(payload)))
            self.nerr += 1
            raise IO_ERRORS[self.nerr % len(IO_ERRORS)]()
        self.log.append(('send', bytes(payload)))

    def setblocking(self, flag):
        pass


def exc_code(ex):
    if isinstance(ex, UnicodeEncodeError):
        return 2
    if isinstance(ex, ValueError):
        return 1
    if isinstance(ex, OSError):
        return 3
    return 0


class FormatOnlyHandler(logging.Handler):
    """formats the record like logging.FileHandler would (errors handled the same way: not
    propagated), writes nothing"""

    def emit(self, record):
        try:
            self.format(record)
        except Exception:   # noqa  (logging.Handler.handleError: report, never raise)
            pass


class Patched:
    """replace the module-level `time` (sleep(0.01) before stop) and `Queue` of simulators.server
    for the duration of one run"""

    def __init__(self, qscript=None, log=None):
        self.qscript = qscript
        self.log = log

    def __enter__(self):
        from simulators import server as S
        self.S = S
        self.saved = (S.time, S.Queue)
        S.time = types.SimpleNamespace(sleep=lambda s: None, time=lambda: 0.0)
        # the handlers log every rejected byte to $ACSDATA/sim-server.log: keep the file small,
        # but still format every record (str(msg) % args) as the file handler would
        self.log_handlers = logging.root.handlers[:]
        logging.root.handlers[:] = [FormatOnlyHandler()]
        if self.qscript is not None:
            script = list(self.qscript)

            class FakeQueue:
                def __init__(self, maxsize=0):
                    pass

                def get(self, block=True, timeout=None):
                    ev = script.pop(0) if script else None
                    if ev is None:
                        raise queue.Empty()
                    return ev
            S.Queue = FakeQueue
        return S

    def __exit__(self, *a):
        self.S.time, self.S.Queue = self.saved
        logging.root.handlers[:] = self.log_handlers


def merge_log(log):
    """('look', n) immediately followed by ('call', n, params) is one call with parameters"""
    out = []
    i = 0
    while i < len(log):
        ev = log[i]
        if ev[0] == 'look':
            if i + 1 < len(log) and log[i + 1][0] == 'call' and log[i + 1][1] == ev[1]:
                out.append(('call', ev[1], log[i + 1][2]))
                i += 2
                continue
            out.append(('call', ev[1], None))
        elif ev[0] == 'call':
            out.append(('bad', 'call without lookup'))
        else:
            out.append(ev)
        i += 1
    return out


def make_stop(log):
    kind = STOP_EXC[0]

    def stop():
        log.append(('stop',))
        if kind is not None:
            raise make_exc(kind)       # Server.stop failing: the handler must survive it
    return stop


def environment(rng):
    """per-case choice of the I/O error cycle and of a failing Server.stop (no effect on what
    the model predicts: both are caught by the handler)"""
    IO_SEED[0] = rng.randrange(len(IO_ERRORS))
    STOP_EXC[0] = rng.choice(sorted(EXC_TABLE)) if rng.random() < 0.12 else None


def _run(handler_base, request, outs, ops, greet, log, qscript=None):
    final = {'cm': None}
    with Patched(qscript, log) as S:
        base = getattr(S, handler_base)

        class H(base):
            system = FakeSystem(log, outs, ops, greet)
            stop = staticmethod(make_stop(log))

            def finish(self):
                final['cm'] = getattr(self, 'custom_msg', None)
        died = None
        try:
            H(request, CLIENT, None)
        except Exception as ex:     # noqa
            died = exc_code(ex)
            log.append(('dies', died, type(ex).__name__))
    return merge_log(log), final['cm'], died


def run_listen_tcp(greet, outs, ops, fails, evs):
    log = []
    return _run('ListenHandler', FakeSocket(log, evs, fails), outs, ops, greet, log)


def run_listen_udp(outs, ops, fails, msg):
    log = []
    return _run('ListenHandler', (bytes(msg), FakeSocket(log, [], fails, dgram=True)), outs, ops, None, log)


def run_send(first, ops, fails, rs, qs):
    log = []
    sock = FakeSocket(log, rs, fails, dgram=first is not None)
    request = sock if first is None else (bytes(first), sock)
    tr, _, died = _run('SendHandler', request, [], ops, None, log, qscript=qs)
    return tr, died


# ---------------------------------------------------------------------------
# Coq rendering

def s2l(s):
    return zlist([ord(c) for c in s]) if isinstance(s, str) else zlist(list(s))


def coq_outcome(o):
    k = o[0]
    if k == 'F':
        return 'ORet (VBool false)'
    if k == 'T':
        return 'ORet (VBool true)'
    if k in ('S', 'SS'):
        return 'ORet (VStr %s)' % s2l(o[1])
    if k == 'N':
        return 'ORet VNone'
    if k == 'O':
        return 'ORet VOther'
    if k == 'E':
        return 'OValueError' if issubclass(exc_class(o[1]), ValueError) else 'OException'
    raise AssertionError(o)


def coq_sysres(kind, val):
    if kind in ('str', 'substr'):
        return 'RStr %s' % s2l(val)
    if kind == 'nonstr':
        return 'RNonStr'
    if kind == 'noncallable':
        return 'RExc'
    if kind == 'raise':
        return 'RAttrErr' if issubclass(exc_class(val), AttributeError) else 'RExc'
    raise AssertionError(kind)


def coq_optab(ops):
    return '[' + '; '.join('(%s, %s, %s)' % (s2l(n), blit(strict), coq_sysres(kind, val))
                           for n, (kind, strict, val) in ops.items()) + ']'


def coq_list(items):
    return '[' + '; '.join(items) + ']'


def coq_opt(x, f):
    return 'None' if x is None else '(Some %s)' % f(x)


def coq_obs(ev):
    k = ev[0]
    if k == 'parse':
        return 'OParse %s' % zlit(ord(ev[1])) if isinstance(ev[1], str) and len(ev[1]) == 1 else 'OBad'
    if k == 'send':
        return 'OSend %s' % s2l(ev[1])
    if k == 'sendfail':
        return 'OSendFail %s' % s2l(ev[1])
    if k == 'call':
        ps = ev[2]
        if ps is not None and not all(isinstance(p, str) for p in ps):
            return 'OBad'
        return 'OCall %s %s' % (s2l(ev[1]), coq_opt(ps, lambda l: coq_list([s2l(p) for p in l])))
    if k == 'stop':
        return 'OStop'
    if k == 'sub':
        return 'OSub'
    if k == 'unsub':
        return 'OUnsub'
    if k == 'dies':
        return 'ODies %s' % zlit(ev[1])
    return 'OBad'


def coq_fails(fails):
    return coq_list([natlit(k) for k in sorted(fails)])


def coq_evs(evs):
    return coq_list([coq_opt(e, s2l) for e in evs])


def case_listen_tcp(greet, outs, ops, fails, evs, tr, cm, died):
    return 'CListenTcp %s %s %s %s %s %s %s %s' % (
        coq_opt(greet, s2l), coq_list([coq_outcome(o) for o in outs]), coq_optab(ops), coq_fails(fails),
        coq_evs(evs), coq_list([coq_obs(e) for e in tr]), s2l(cm or ''), blit(died is not None))


def case_listen_udp(outs, ops, fails, msg, tr, cm, died):
    return 'CListenUdp %s %s %s %s %s %s %s' % (
        coq_list([coq_outcome(o) for o in outs]), coq_optab(ops), coq_fails(fails), s2l(msg),
        coq_list([coq_obs(e) for e in tr]), s2l(cm or ''), blit(died is not None))


def case_send(first, ops, fails, rs, qs, tr, died):
    return 'CSend %s %s %s %s %s %s %s' % (
        coq_opt(first, s2l), coq_optab(ops), coq_fails(fails),
        coq_list(['RNoData' if r is None else 'RChunk %s' % s2l(r) for r in rs]),
        coq_list(['QEmpty' if q is None else 'QMsg %s' % s2l(q) for q in qs]),
        coq_list([coq_obs(e) for e in tr]), blit(died is not None))


# ---------------------------------------------------------------------------
# generators

OP_POOL = {
    'system_stop': ('str', True, SHUTDOWN),
    'system_foo': ('str', False, 'foo-ok'),
    'echo': ('str', False, 'e'),
    'empty': ('str', False, ''),
    'wide': ('str', False, 'aĀb'),
    'high': ('str', False, '\xe9\xff\x00'),
    'fake_stop': ('str', False, SHUTDOWN),
    'almost': ('str', False, '$server_shutdown%%%%'),
    'none': ('nonstr', False, None),
    'num': ('nonstr', False, 'int7'),
    'byt': ('nonstr', False, 'bytes'),
    'strictnone': ('nonstr', True, None),
    'aerr': ('raise', False, 'AE'),
    'aerr0': ('raise', False, 'AE0'),
    'aerrodd': ('raise', False, 'AEodd'),
    'verr0': ('raise', False, 'VE0'),
    'kerr0': ('raise', False, 'KEcls'),
    'exc0': ('raise', False, 'EX0'),
    'estr': ('raise', False, 'ES'),
    'subshut': ('substr', False, SHUTDOWN),
    'substr': ('substr', False, 'sub'),
    'obj': ('nonstr', False, 'object'),
    'verr': ('raise', False, 'VE'),
    'rerr': ('raise', False, 'RE'),
    'ioerr': ('raise', False, 'IO'),
    'attr': ('noncallable', False, None),
}
UNKNOWN_NAMES = ['nosuch', '', 'x', 'system_stop ', 'System_stop', 'system_sto', 'system_stopp', '_d',
                 '__class__', '__init__', 'stop', 'e cho']
PARAMS = ['1', 'a', '', 'x y', '3.5', '\xe9', '-2', 'on']
ALPHABET = (b'abcxyz019 _' * 3 + b'$$$$%%%%%%%%::,,\n\r\x00\x7f' + bytes([0x80, 0xa5, 0xe9, 0xff, 0x24 ^ 0x80]))


def gen_ops(rng):
    """operation table of one case: system_stop always (as on every real System), a random part
    of the pool otherwise (so every name is sometimes unknown)"""
    ops = {'system_stop': OP_POOL['system_stop']}
    if rng.random() < 0.04:      # a System whose stop answers something else
        ops['system_stop'] = ('str', True, rng.choice(['bye', '', SHUTDOWN + ' ']))
    for n, v in OP_POOL.items():
        if n != 'system_stop' and rng.random() < 0.7:
            if v[0] == 'raise' and rng.random() < 0.4:      # any exception object
                v = ('raise', v[1], rng.choice(sorted(EXC_TABLE)))
            ops[n] = v
    return ops


def gen_body(rng):
    r = rng.random()
    names = list(OP_POOL) + UNKNOWN_NAMES
    name = rng.choice(names) if r < 0.9 else ''.join(rng.choice('abxyz_%') for _ in range(rng.randrange(0, 5)))
    if rng.random() < 0.25:
        name = 'system_stop'
    r = rng.random()
    if r < 0.45:
        return name
    if r < 0.55:
        return name + ':'
    if r < 0.85:
        return name + ':' + ','.join(rng.choice(PARAMS) for _ in range(rng.randrange(1, 4)))
    # malformed: two or more ':'
    return name + ':' + rng.choice(['a:b', ':', 'a:', ':b', '1,2:3', 'a:b:c'])


def gen_token(rng):
    r = rng.random()
    if r < 0.30:
        return bytes(rng.choice(ALPHABET) for _ in range(rng.randrange(0, 9)))
    body = gen_body(rng).encode('latin-1')
    if r < 0.70:
        return b'$' + body + TAIL
    if r < 0.76:
        return b'$' + body + b'%' * rng.randrange(0, 5) + rng.choice([b'', b'a', b'\n', b'$'])
    if r < 0.82:
        return b'$' + bytes(rng.choice(b'ab%:,') for _ in range(rng.randrange(0, 4))) + b'$' + body + TAIL
    if r < 0.88:
        return b'$' + body + b'%' * rng.randrange(6, 12)
    if r < 0.92:
        return TAIL + body + TAIL
    if r < 0.96:
        k = rng.randrange(1, 5)
        return b'$' + body[:2] + b'%' * k + body[2:] + TAIL
    return b'$' + TAIL


def has_reserved(stream):
    return any(r in stream for r in RESERVED)


def gen_stream(rng, maxtok=5):
    while True:
        s = b''.join(gen_token(rng) for _ in range(rng.randrange(1, maxtok + 1)))
        if not has_reserved(s):
            return s


REPLIES = ['ack', 'A', '\xe9\xff', '\x00', 'long reply 0123456789', '$', '%%%%%', '$x%%%%%', '\n']
WIDE = ['Ā', 'ab€', '\U0001f600']


def gen_outcome(rng):
    r = rng.random()
    if r < 0.30:
        return ('F',)
    if r < 0.52:
        return ('T',)
    if r < 0.66:
        return ('S', rng.choice(REPLIES))
    if r < 0.68:
        return ('SS', rng.choice(REPLIES))
    if r < 0.72:
        return ('S', rng.choice(WIDE))
    if r < 0.75:
        return ('S', '')
    if r < 0.79:
        return ('N',)
    if r < 0.83:
        return ('O', rng.choice(sorted(OTHER_OBJECTS)))
    if r < 0.91:
        return ('E', rng.choice(VALUE_ERRORS))
    return ('E', rng.choice(OTHER_ERRORS))


def gen_outcomes(rng, n):
    mode = rng.random()
    if mode < 0.15:       # a quiet parser
        return [rng.choice([('F',), ('T',)]) for _ in range(n)]
    if mode < 0.25:       # every byte answered
        return [('S', rng.choice(REPLIES)) for _ in range(n)]
    outs = [gen_outcome(rng) for _ in range(n)]
    # a reply immediately followed by exceptions (stale `response`), often
    for i in range(n - 1):
        if outs[i][0] in ('S', 'SS') and rng.random() < 0.5:
            outs[i + 1] = ('E', rng.choice(VALUE_ERRORS + OTHER_ERRORS))
            if i + 2 < n and rng.random() < 0.5:
                outs[i + 2] = ('E', rng.choice(VALUE_ERRORS + OTHER_ERRORS))
    return outs


def partitions(rng, stream, k):
    """k partitions of the stream into non-empty segments: whole, bytewise, random cuts"""
    n = len(stream)
    out = []
    if n == 0:
        return [[]]
    out.append([stream])
    if k > 1:
        out.append([stream[i:i + 1] for i in range(n)])
    while len(out) < k:
        ncut = rng.randrange(1, min(n, 6) + 1) if n > 1 else 0
        cuts = sorted(set(rng.randrange(1, n) for _ in range(ncut))) if n > 1 else []
        segs = [stream[a:b] for a, b in zip([0] + cuts, cuts + [n])]
        out.append(segs)
    return out[:k]


# ---------------------------------------------------------------------------
# the specification, transcribed to Python on the unsegmented stream (oracle side)

def op_result(ops, name, params):
    """('str', s) | ('other',)"""
    if name not in ops:
        return ('other',)
    kind, strict, val = ops[name]
    if kind not in ('str', 'substr') or (strict and params):
        return ('other',)
    return ('str', val)


def encodable(s):
    return all(ord(c) < 256 for c in s)


def command_at(stream, i):
    """body of the custom command ending exactly at index i (inclusive), else None"""
    pre = stream[:i + 1]
    p = pre.rfind(b'$')
    if p < 0:
        return None
    t = pre[p + 1:]
    if t.endswith(TAIL) and TAIL not in t[:-1]:
        return t[:-5].decode('latin-1')
    return None


def command_trace(ops, body):
    parts = body.split(':')
    if len(parts) > 2:
        return []
    name = parts[0]
    params = parts[1].split(',') if len(parts) == 2 and parts[1] else []
    tr = [('call', name, params)]
    res = op_result(ops, name, params)
    if res[0] == 'str' and encodable(res[1]):
        tr.append(('send', res[1].encode('latin-1')))
        if res[1] == SHUTDOWN:
            tr.append(('stop',))
    return tr


def spec_trace(stream, outs, ops):
    tr = []
    for i in range(len(stream)):
        tr.append(('parse', chr(stream[i])))
        o = outs[i] if i < len(outs) else ('F',)
        if o[0] in ('S', 'SS') and o[1] and encodable(o[1]):
            tr.append(('send', o[1].encode('latin-1')))
        body = command_at(stream, i)
        if body is not None:
            tr += command_trace(ops, body)
    return tr


def same_trace(observed, expected):
    """observed calls without parameters (lookup only) are compared by name"""
    if len(observed) != len(expected):
        return False
    for a, b in zip(observed, expected):
        if a[0] == 'call' and b[0] == 'call' and a[2] is None:
            if a[1] != b[1]:
                return False
        elif tuple(a) != tuple(b) and list(a) != list(b):
            return False
    return True
