"""C06 — simulator instances share no device state.

(A) gen/shr_sharing.py translates every module under simulators/ into the sharing table
    coq/Gen/ShrSharing.v; Proofs/ShrTable.v re-checks `sharing_ok` on it (vm_compute).
(B) Properties/C06.v: noninterference / frozen shared store / fresh-equals-first for every event
    history and any number of instances (Proofs/ShrHeapProofs.v).
(C) correspondence = dynamic validation of the translator's claims: for every simulator type and
    configuration, instances B (idle), A (driven with a seeded command history) and a late C of the
    real classes; what was observed (shared objects changed, B's observations changed, C differs
    from the pristine first instance, attributes of the device that reach shared mutable objects)
    is checked in Coq against what the generated table permits (Corr/ShrCorr.v).
(D) oracle: the property itself on the real classes (same runs + the whole message corpus as one
    history), failing histories are shrunk and reported with the shared object they go through.
"""
import contextlib
import copy
import importlib
import io
import json
import os
import random
import sys
import threading
import time as _time
import types

from vlib.core import GenError, write_if_changed, COQ, VERIF, REPO

META = dict(
    id='C06',
    title='Simulator instances share no device state',
    design_ref='DESIGN.md section 7, C06',
    coq_target='Properties/C06.vo',
    coq_extra=['Corr/ShrCorr.vo'],
    technique='Coq proof (noninterference by induction over event histories in a heap model of Python '
              'attribute resolution; side condition sharing_ok decided by vm_compute on a table generated '
              'from the source by an AST translator) + dynamic two/three-instance validation of the table '
              'on the real classes, diffed in Coq',
    level_text='For every class under simulators/ (except the listed known finding) and any number of '
               'instances: no history of operations on other devices changes any attribute view of an '
               'instance, nor any class-level/module-level object, and a late instance starts like the '
               'first one. Proved in Coq over a heap model (class store, instance stores, getattr fallback, '
               'rebinding vs in-place mutation, construction scripts); the per-class side condition is '
               're-decided on every run on the table the translator extracts from the current source. '
               'The translator is validated on every run by driving real instances A/B/C of every simulator '
               'type with seeded histories and comparing deep snapshots and replies.',
    level_note='Trusted: Coq kernel + vm_compute; gen/shr_sharing.py (type-blind taint analysis, validated '
               'dynamically); the abstraction of an object\'s deep state by one value; CPython attribute '
               'resolution as modelled. Known finding: minor_servos.System.configurations (F20).',
    partial='proof is over the generated sharing abstraction (translator trusted, validated dynamically); '
            'process-level code (server.py Simulator.start mutating the modules\' `servers` entries) is not modelled',
    rule='one case = one simulator type/configuration with a seeded command history on instance A while '
         'B idles and C is created afterwards; non-trivial = the history changed A\'s own state',
    trusted=['gen/shr_sharing.py AST translator', 'harness fakes: virtual clock, synchronous timers'],
    assumptions=['a method reaches only objects reachable from self, its arguments, its class/module '
                 'namespaces (no gc/ctypes/frame introspection)',
                 'the server hands each System instance only its own bytes (C01)'],
)

CORPUS = os.path.join(VERIF, 'corpus', 'C06', 'messages.json')
EXC = '\x00exception:'
T0 = 1790820600.0
TOBS = T0 + 3600.0


# ---------------------------------------------------------------------------
# (A) translator

def gen(ctx):
    from gen import shr_sharing
    importlib.reload(shr_sharing)
    text, info = shr_sharing.generate(REPO)
    write_if_changed(os.path.join(COQ, 'Gen', 'ShrSharing.v'), text)
    ctx.shr_info = info


def table_info(ctx):
    if getattr(ctx, 'shr_info', None) is None:
        from gen import shr_sharing
        try:
            ctx.shr_info = shr_sharing.generate(REPO)[1]
        except Exception:
            ctx.shr_info = dict(classes=[], shared={}, whitelist=[])
    return ctx.shr_info


# ---------------------------------------------------------------------------
# harness: virtual clock, synchronous timers, deterministic randomness

class VClock:
    EPS = 2.0 ** -20

    def __init__(self):
        self.now = T0
        self.lock = threading.Lock()

    def time(self):
        with self.lock:
            self.now += self.EPS
            return self.now

    def sleep(self, t):
        try:
            t = float(t)
        except Exception:
            t = 0.0
        with self.lock:
            if t > 0:
                self.now += min(t, 3600.0)
        _REAL['sleep'](0.0002)      # let other threads run; never really wait

    def set(self, t):
        with self.lock:
            self.now = t


_REAL = dict(time=_time.time, sleep=_time.sleep, Timer=threading.Timer)
CLOCK = VClock()
PENDING_TIMERS = []
ACTOR = [None]          # 'A' while the driven instance is being constructed / driven / stopped


class FakeTimer:
    """threading.Timer that fires only when the harness says so (virtual time)"""

    def __init__(self, interval, function, args=None, kwargs=None):
        self.interval, self.function = interval, function
        self.args = args if args is not None else []
        self.kwargs = kwargs if kwargs is not None else {}
        self.daemon = True
        self.name = 'FakeTimer'
        self._state = 'new'
        self.owner = None

    def start(self):
        if self._state != 'new':
            raise RuntimeError('threads can only be started once')
        self._state = 'pending'
        self.owner = ACTOR[0]
        PENDING_TIMERS.append(self)

    def cancel(self):
        if self._state == 'pending':
            self._state = 'cancelled'

    def is_alive(self):
        return self._state == 'pending'

    isAlive = is_alive

    def join(self, timeout=None):
        if self._state == 'new':
            raise RuntimeError('cannot join thread before it is started')

    def setDaemon(self, d):
        self.daemon = d

    def fire(self):
        if self._state == 'pending':
            self._state = 'done'
            self.function(*self.args, **self.kwargs)


def fire_timers(rounds=3):
    """virtual time passes for the driven instance: its pending timers fire (a few rounds, timers may
    re-arm); timers of the idle instances never fire (they stay idle) and are dropped"""
    prev = ACTOR[0]
    ACTOR[0] = 'A'
    try:
        for _ in range(rounds):
            batch = [t for t in PENDING_TIMERS if t._state == 'pending' and t.owner == 'A']
            rest = [t for t in PENDING_TIMERS if not (t._state == 'pending' and t.owner == 'A')]
            del PENDING_TIMERS[:]
            PENDING_TIMERS.extend(t for t in rest if t._state == 'pending')
            if not batch:
                break
            for t in batch:
                try:
                    with quiet():
                        t.fire()
                except Exception:
                    pass
    finally:
        ACTOR[0] = prev
    for t in PENDING_TIMERS:
        if t.owner == 'A':
            t.cancel()
    PENDING_TIMERS[:] = [t for t in PENDING_TIMERS if t._state == 'pending']


def drop_timers():
    for t in PENDING_TIMERS:
        t.cancel()
    del PENDING_TIMERS[:]


@contextlib.contextmanager
def quiet():
    old = sys.stdout
    sys.stdout = io.StringIO()
    try:
        yield
    finally:
        sys.stdout = old


def sim_modules():
    return [m for n, m in list(sys.modules.items())
            if (n == 'simulators' or n.startswith('simulators.')) and m is not None]


def make_datetime_shims():
    import datetime as dt

    class VDatetime(dt.datetime):
        @classmethod
        def utcnow(cls):
            return cls.utcfromtimestamp(CLOCK.time())

        @classmethod
        def now(cls, tz=None):
            return cls.utcfromtimestamp(CLOCK.time())

    shim = types.ModuleType('datetime')
    for k in dir(dt):
        if not k.startswith('__'):
            setattr(shim, k, getattr(dt, k))
    shim.datetime = VDatetime
    return dt, VDatetime, shim


class Patches:
    """time.time/time.sleep -> virtual clock; threading.Timer -> FakeTimer; datetime.utcnow -> virtual
    clock in the simulators modules.  Installed only around the dynamic runs."""

    def __init__(self):
        self.saved = []

    def setattr(self, obj, name, val):
        self.saved.append((obj, name, getattr(obj, name)))
        setattr(obj, name, val)

    def install(self):
        import warnings
        warnings.filterwarnings('ignore', category=DeprecationWarning)
        self.setattr(threading, 'excepthook', lambda args: None)   # command threads of A may die on garbage
        self.setattr(_time, 'time', CLOCK.time)
        self.setattr(_time, 'sleep', CLOCK.sleep)
        self.setattr(threading, 'Timer', FakeTimer)
        dt, VDatetime, shim = make_datetime_shims()
        for m in sim_modules():
            for k, v in list(vars(m).items()):
                if v is _REAL['Timer']:
                    self.setattr(m, k, FakeTimer)
                elif v is dt.datetime:
                    self.setattr(m, k, VDatetime)
                elif v is dt:
                    self.setattr(m, k, shim)
                elif v is _REAL['sleep']:
                    self.setattr(m, k, CLOCK.sleep)
                elif v is _REAL['time']:
                    self.setattr(m, k, CLOCK.time)

    def remove(self):
        for obj, name, val in reversed(self.saved):
            setattr(obj, name, val)
        self.saved = []


def seed_all(k):
    random.seed(k)
    try:
        import numpy
        numpy.random.seed(k % (2 ** 32))
    except Exception:
        pass


# ---------------------------------------------------------------------------
# canonical deep snapshots

def is_sim_instance(o):
    t = type(o)
    return (getattr(t, '__module__', '') or '').startswith('simulators') and not isinstance(o, type)


def canon(o, memo=None, depth=0):
    """canonical, address-free, order-independent rendering of an object graph"""
    if memo is None:
        memo = {}
    if o is None or isinstance(o, (bool, int, str)):
        return o
    if isinstance(o, float):
        return ('f', repr(o))
    if isinstance(o, complex):
        return ('c', repr(o))
    if isinstance(o, (bytes, bytearray)):
        return ('b', bytes(o).hex())
    if depth > 60:
        return ('deep',)
    oid = id(o)
    if oid in memo:
        return ('ref', memo[oid])
    tname = type(o).__module__ + '.' + type(o).__qualname__
    if isinstance(o, (types.FunctionType, types.BuiltinFunctionType, types.MethodType, type, types.ModuleType)):
        return ('callable', getattr(o, '__qualname__', getattr(o, '__name__', tname)))
    if isinstance(o, (threading.Thread, FakeTimer)):
        return ('thread',)
    if tname.startswith('_thread.') or tname.endswith('.Lock') or tname.endswith('.RLock') or \
            tname.endswith('.Condition') or tname.endswith('.Event') or tname.endswith('.Semaphore'):
        return ('sync', tname.split('.')[-1])
    if tname.startswith('socket.') or tname.startswith('http.server') or tname.startswith('socketserver'):
        return ('io', tname)
    memo[oid] = len(memo)
    if isinstance(o, (list, tuple)):
        return ('L' if isinstance(o, list) else 'T', [canon(x, memo, depth + 1) for x in o])
    if isinstance(o, dict):
        items = [(repr(canon(k, memo, depth + 1)), canon(v, memo, depth + 1)) for k, v in list(o.items())]
        return ('D', sorted(items, key=lambda kv: kv[0]))
    if isinstance(o, (set, frozenset)):
        return ('S', sorted(repr(canon(x, memo, depth + 1)) for x in o))
    if tname.startswith('multiprocessing.sharedctypes.'):
        try:
            if hasattr(o, 'raw'):
                return ('A', bytes(o.raw).hex())
            if hasattr(o, 'value'):
                return ('V', canon(o.value, memo, depth + 1))
            return ('A', [canon(x, memo, depth + 1) for x in o[:]])
        except Exception:
            return ('V?', tname)
    if tname in ('queue.Queue', 'queue.LifoQueue', 'queue.PriorityQueue'):
        return ('Q', [canon(x, memo, depth + 1) for x in list(o.queue)])
    if tname.startswith('multiprocessing.queues'):
        return ('MQ',)
    if tname.startswith('numpy.'):
        try:
            return ('np', canon(o.tolist(), memo, depth + 1))
        except Exception:
            return ('np?', tname)
    if tname.startswith('datetime.') or type(o).__name__ in ('VDatetime',):
        return ('dt', str(o))
    if tname == 're.Pattern':
        return ('re', o.pattern)
    if tname.startswith('collections.'):
        try:
            return ('coll', tname, canon(list(o.items()) if hasattr(o, 'items') else list(o), memo, depth + 1))
        except Exception:
            return ('coll?', tname)
    d = getattr(o, '__dict__', None)
    if isinstance(d, dict):
        return ('O', tname, sorted((k, canon(v, memo, depth + 1)) for k, v in list(d.items())))
    slots = getattr(type(o), '__slots__', None)
    if slots:
        return ('O', tname, sorted((k, canon(getattr(o, k, None), memo, depth + 1)) for k in slots))
    return ('?', tname)


def class_view(inst):
    """what getattr falls back to: class-level data attributes not shadowed by the instance"""
    out = {}
    own = getattr(inst, '__dict__', {})
    for k in type(inst).__mro__:
        if not (k.__module__ or '').startswith('simulators'):
            continue
        for name, v in vars(k).items():
            if name.startswith('__') or name in own or name in out:
                continue
            if isinstance(v, (types.FunctionType, staticmethod, classmethod, property, type)):
                continue
            out[name] = (k.__module__ + '.' + k.__qualname__, v)
    return out


MUTABLE_BUILTINS = (list, dict, set, bytearray)


def reach_ids(root, stop_at_instances=True, include_root=True):
    """ids of the mutable objects reachable from root (containers and objects with __dict__);
    does not enter classes, modules, functions, nor (optionally) instances of simulators classes"""
    out = {}
    stack = [(root, True)]
    seen = set()
    while stack:
        o, is_root = stack.pop()
        if id(o) in seen:
            continue
        seen.add(id(o))
        if o is None or isinstance(o, (bool, int, float, str, bytes, complex, type, types.ModuleType,
                                       types.FunctionType, types.BuiltinFunctionType, types.MethodType,
                                       threading.Thread, FakeTimer)):
            continue
        if is_sim_instance(o) and stop_at_instances and not is_root:
            continue
        if isinstance(o, MUTABLE_BUILTINS):
            if include_root or not is_root:
                out[id(o)] = o
            it = list(o.values()) if isinstance(o, dict) else list(o) if not isinstance(o, bytearray) else []
            for x in it:
                stack.append((x, False))
            if isinstance(o, dict):
                for x in list(o.keys()):
                    stack.append((x, False))
        elif isinstance(o, (tuple, frozenset)):
            for x in o:
                stack.append((x, False))
        else:
            d = getattr(o, '__dict__', None)
            tmod = type(o).__module__ or ''
            if isinstance(d, dict) and (tmod.startswith('simulators') or tmod.startswith('multiprocessing')
                                         or tmod in ('queue', 'collections')):
                if not is_root or include_root:
                    out[id(o)] = o
                if tmod.startswith('simulators'):
                    for x in list(d.values()):
                        stack.append((x, False))
                elif tmod == 'queue':
                    for x in list(getattr(o, 'queue', [])):
                        stack.append((x, False))
    return out


def device_instances(root):
    """instances of simulators classes reachable from the System instance (the device)"""
    out = []
    stack = [root]
    seen = set()
    while stack:
        o = stack.pop()
        if id(o) in seen:
            continue
        seen.add(id(o))
        if isinstance(o, (type, types.ModuleType, types.FunctionType, str, bytes, int, float, bool)) or o is None:
            continue
        if is_sim_instance(o):
            out.append(o)
            for v in list(getattr(o, '__dict__', {}).values()):
                stack.append(v)
        elif isinstance(o, dict):
            stack.extend(list(o.values()))
        elif isinstance(o, (list, tuple, set, frozenset)):
            stack.extend(list(o))
        elif type(o).__module__ == 'queue':
            stack.extend(list(getattr(o, 'queue', [])))
    return out


# ---------------------------------------------------------------------------
# shared objects of the process: every data attribute of every simulators class, every module-level
# name of every simulators module, every default argument

def shared_objects(info):
    out = {}
    wl = {k for k, _ in info.get('whitelist', [])}
    for m in sim_modules():
        mname = m.__name__
        for name, v in list(vars(m).items()):
            if name.startswith('__'):
                continue
            if isinstance(v, types.ModuleType):
                continue
            if isinstance(v, type):
                if (v.__module__ or '') == mname:
                    cq = mname + '.' + v.__qualname__
                    for an, av in list(vars(v).items()):
                        if isinstance(av, (staticmethod, classmethod)):
                            av = av.__func__
                        if isinstance(av, types.FunctionType):
                            add_defaults(out, cq + '.' + an, av)
                            continue
                        if an.startswith('__'):
                            continue
                        if isinstance(av, (property, type)):
                            continue
                        key = 'C:%s.%s' % (cq, an)
                        if key not in wl:
                            out[key] = av
                continue
            if isinstance(v, types.FunctionType):
                if (v.__module__ or '') == mname:
                    add_defaults(out, mname + '.' + v.__name__, v)
                continue
            if isinstance(v, (types.BuiltinFunctionType,)):
                continue
            # names imported from elsewhere are the other module's objects
            key = 'G:%s.%s' % (mname, name)
            if key not in wl:
                out[key] = v
    return out


def add_defaults(out, qual, fn):
    import inspect
    try:
        sig = inspect.signature(fn)
    except (TypeError, ValueError):
        return
    for p in sig.parameters.values():
        if p.default is not inspect.Parameter.empty:
            out['D:%s.%s' % (qual, p.name)] = p.default


def snapshot_shared(objs):
    return {k: canon(v) for k, v in objs.items()}


def is_deep_immutable(v, depth=0):
    if v is None or isinstance(v, (bool, int, float, complex, str, bytes, types.FunctionType,
                                   types.BuiltinFunctionType, type, types.ModuleType)):
        return True
    if isinstance(v, (tuple, frozenset)) and depth < 6:
        return all(is_deep_immutable(x, depth + 1) for x in v)
    if type(v).__name__ in ('Pattern', 'range', 'ABCMeta'):
        return True
    return False


def mutable_only(objs, d=None):
    """the mutable shared objects; with a driver: those of its own package and of the common modules
    (watched after every operation; everything else is compared once per run)"""
    out = {k: v for k, v in objs.items() if not is_deep_immutable(v)}
    if d is not None:
        pkg = '.'.join(d['mod'].split('.')[:2])
        pre = tuple(x + pkg for x in ('C:', 'G:', 'D:')) + tuple(
            x + y for x in ('C:', 'G:', 'D:') for y in ('simulators.utils', 'simulators.common'))
        out = {k: v for k, v in out.items() if k.startswith(pre)}
    return out


def owner_key(objs_ids, oid):
    return objs_ids.get(oid)


def shared_id_index(objs):
    """id of every mutable object reachable from a shared object -> key (first key wins; class-level
    keys before module-level ones so that the report names the class attribute)"""
    idx = {}
    for k in sorted(objs, key=lambda k: (0 if k.startswith('C:') else 1 if k.startswith('D:') else 2, k)):
        v = objs[k]
        if is_sim_instance(v):
            ids = reach_ids(v, stop_at_instances=False)
        else:
            ids = reach_ids(v, stop_at_instances=False)
        for oid in ids:
            idx.setdefault(oid, k)
    return idx


# ---------------------------------------------------------------------------
# drivers

def load_corpus():
    with open(CORPUS) as f:
        return json.load(f)


def resolve_cfg(cfg):
    args, kwargs = cfg
    out = {}
    for k, v in kwargs.items():
        if isinstance(v, str) and v.startswith('class:'):
            mod, _, name = v[6:].rpartition('.')
            out[k] = getattr(importlib.import_module(mod), name)
        else:
            out[k] = eval(v, {'__builtins__': {}}, {}) if isinstance(v, str) else v
    return out


def drivers():
    """one driver per (System class, constructor configuration) of the corpus, plus a few extra
    configurations of the parametrised simulators"""
    out = []
    for e in load_corpus():
        mod, _, cname = e['cls'].rpartition('.')
        kwargs = resolve_cfg(e['cfg'])
        label = e['cls'].replace('simulators.', '')
        if kwargs:
            label += '(' + ','.join('%s=%s' % (k, getattr(v, '__name__', v)) for k, v in sorted(kwargs.items())) + ')'
        out.append(dict(label=label, mod=mod, cname=cname, kwargs=kwargs, msgs=e['msgs']))
    extra = []
    for d in out:
        if d['mod'] == 'simulators.active_surface':
            extra.append(dict(d, label=d['label'] + '#full', kwargs={}))
        if d['mod'] == 'simulators.receiver' and d['kwargs'].get('slave_type').__name__ == 'LNA':
            extra.append(dict(d, label=d['label'] + '#feeds2', kwargs=dict(d['kwargs'], feeds=2)))
        if d['mod'] == 'simulators.acu':
            extra.append(dict(d, label=d['label'] + '#fast', kwargs=dict(sampling_time=0.05)))
    return out + extra


def construct(d):
    cls = getattr(importlib.import_module(d['mod']), d['cname'])
    with quiet():
        return cls(**d['kwargs'])


def quiesce(inst):
    """stop the background activity of an instance (it keeps answering)"""
    for o in device_instances(inst):
        st = getattr(o, '__dict__', {}).get('stop')
        if st is not None and hasattr(st, 'value') and not callable(st):
            try:
                st.value = True
            except Exception:
                pass
    for o in device_instances(inst):
        for v in list(getattr(o, '__dict__', {}).values()):
            if isinstance(v, threading.Thread) and v.is_alive() and v is not threading.current_thread():
                v.join(120)
                if v.is_alive():
                    raise RuntimeError('background thread of %s did not stop' % type(o).__name__)


def shutdown(inst):
    try:
        with quiet():
            inst.system_stop()
    except Exception:
        pass
    quiesce(inst)


def send(inst, msg):
    """feed one message byte by byte; -> list of outcomes (replies / 'F' / exception names)"""
    out = []
    for ch in msg:
        try:
            r = inst.parse(ch)
        except Exception as ex:      # the server logs and carries on
            out.append(EXC + type(ex).__name__)
            continue
        if r is True:
            continue
        if r is False:
            out.append('F')
        elif isinstance(r, str):
            out.append(r)
        elif r is None:
            out.append('None')
        else:
            out.append(repr(type(r)))
    return out


def apply_op(inst, op):
    kind = op[0]
    with quiet():
        if kind == 'msg':
            return send(inst, op[1])
        if kind == 'call':
            try:
                getattr(inst, op[1])()
            except Exception as ex:
                return [EXC + type(ex).__name__]
            return []
        if kind == 'sub':
            import queue
            q = queue.Queue()
            try:
                inst.subscribe(q)
                if op[1]:
                    inst.unsubscribe(q)
            except Exception as ex:
                return [EXC + type(ex).__name__]
            return []
    return []


def observe(inst, queries):
    """what an idle instance shows: instance state, class-level fallbacks, replies to the query
    catalogue at a fixed virtual time.  The catalogue is sent once beforehand so that bookkeeping the
    queries themselves cause (last-read timestamps, parser buffers) is the same before and after."""
    seed_all(99)
    for q in queries:
        CLOCK.set(TOBS)
        with quiet():
            send(inst, q)
    CLOCK.set(TOBS)
    seed_all(99)
    state = canon(inst)
    cview = {name: (owner, canon(v)) for name, (owner, v) in class_view(inst).items()}
    replies = []
    for q in queries:
        CLOCK.set(TOBS)
        with quiet():
            replies.append(send(inst, q))
    CLOCK.set(TOBS)
    state2 = canon(inst)
    return dict(state=state, state_after=state2, cview=cview, replies=replies)


def choose_queries(d, limit, hot=None, hits=None):
    """corpus messages that are idempotent observations on a pristine instance.  While trying them
    the mutable shared objects are watched: a message that changes one is a finding (hits)."""
    seed_all(1)
    CLOCK.set(T0)
    s = construct(d)
    quiesce(s)
    good = []
    try:
        cands = sorted(set(d['msgs']), key=lambda m: (len(m), m))
        for m in cands:
            if len(good) >= limit:
                break
            CLOCK.set(TOBS)
            h0 = snapshot_shared(hot) if hot is not None else None
            with quiet():
                r0 = send(s, m)
            if hot is not None:
                h1 = snapshot_shared(hot)
                if h1 != h0:
                    hits.append((sorted(k for k in hot if h1[k] != h0[k]), [('msg', m)]))
                    continue
            if not r0 or any(x.startswith(EXC) for x in r0):
                continue
            CLOCK.set(TOBS)
            s1 = canon(s)
            with quiet():
                r1 = send(s, m)
            CLOCK.set(TOBS)
            s2 = canon(s)
            with quiet():
                r2 = send(s, m)
            if s1 == s2 and r1 == r2:
                good.append(m)
        drop_timers()
    finally:
        shutdown(s)
    # the whole catalogue must be an idempotent observation as well
    while good:
        seed_all(1)
        CLOCK.set(T0)
        s = construct(d)
        quiesce(s)
        try:
            o1 = observe(s, good)
            o2 = observe(s, good)
        finally:
            shutdown(s)
        if o1 == o2 and o1['state'] == o1['state_after']:
            break
        good = good[:len(good) // 2]
    return good


def diff_paths(a, b, path='', out=None, limit=6):
    """first few paths at which two canonical values differ"""
    if out is None:
        out = []
    if len(out) >= limit or a == b:
        return out
    if isinstance(a, tuple) and isinstance(b, tuple) and len(a) == len(b) and a and a[0] == b[0]:
        if a[0] == 'O' and a[1] == b[1]:
            da, db = dict(a[2]), dict(b[2])
            for k in sorted(set(da) | set(db)):
                if da.get(k) != db.get(k):
                    diff_paths(da.get(k), db.get(k), path + '.' + k, out, limit)
            return out
        if a[0] in ('L', 'T') and len(a[1]) == len(b[1]):
            for i, (x, y) in enumerate(zip(a[1], b[1])):
                if x != y:
                    diff_paths(x, y, path + '[%d]' % i, out, limit)
            return out
        if a[0] == 'D':
            da, db = dict(a[1]), dict(b[1])
            for k in sorted(set(da) | set(db)):
                if da.get(k) != db.get(k):
                    diff_paths(da.get(k), db.get(k), path + '[%s]' % k, out, limit)
            return out
    out.append(path or '.')
    return out


def top_attr(path):
    p = path.lstrip('.')
    for sep in '.[':
        if sep in p:
            p = p.split(sep)[0]
    return p


class Baseline:
    """the very first instance of a configuration in this process (pristine), a second one
    constructed later at another virtual time (to learn which observations depend on the clock or on
    construction order by design), and the query catalogue"""

    def __init__(self, d, nq, info=None):
        self.hits = []          # (shared keys changed, history) seen while building the baseline
        hot = mutable_only(shared_objects(info), d) if info is not None else None
        h0 = snapshot_shared(hot) if hot is not None else None
        seed_all(7)
        CLOCK.set(T0)
        p0 = construct(d)
        quiesce(p0)
        p1 = None
        try:
            self.first0 = pre_observe(p0)
            seed_all(7)
            CLOCK.set(T0 + 977.25)
            p1 = construct(d)
            quiesce(p1)
            second0 = pre_observe(p1)
            if hot is not None:
                # objects created by the first import of helper modules are not in `hot`; compare the common part
                h1 = snapshot_shared(hot)
                if h1 != h0:
                    self.hits.append((sorted(k for k in hot if h1[k] != h0[k]), []))
            self.queries = choose_queries(d, nq, hot, self.hits) if nq else []
            self.first = observe(p0, self.queries)
            second = observe(p1, self.queries)
        finally:
            shutdown(p0)
            if p1 is not None:
                shutdown(p1)
        self.unstable_state = set(top_attr(p) for p in diff_paths(self.first0['state'], second0['state'], limit=200))
        self.unstable_replies = {i for i, (x, y) in enumerate(zip(self.first['replies'], second['replies'])) if x != y}
        self.unstable_cview = {k for k in set(self.first0['cview']) | set(second0['cview'])
                               if self.first0['cview'].get(k) != second0['cview'].get(k)}
        drop_timers()

    def fresh_diff(self, pre, obs):
        """where a late instance differs from the first one (outside what differs by design)"""
        out = []
        for p in diff_paths(self.first0['state'], pre['state'], limit=50):
            if top_attr(p) not in self.unstable_state:
                out.append(('state', p))
        for k in sorted(set(self.first0['cview']) | set(pre['cview'])):
            if k in self.unstable_cview:
                continue
            if self.first0['cview'].get(k) != pre['cview'].get(k):
                out.append(('class', k))
        for i, (x, y) in enumerate(zip(self.first['replies'], obs['replies'])):
            if i not in self.unstable_replies and x != y:
                out.append(('reply', i))
        return out


def pre_observe(inst):
    """state of an instance right after construction, before it received anything"""
    CLOCK.set(TOBS)
    return dict(state=canon(inst),
                cview={name: (owner, canon(v)) for name, (owner, v) in class_view(inst).items()})


def probe(d, info, rng, passes, chunk, cap=10 ** 6):
    """cheap search for operations that change a shared object: the corpus in seeded orders, a fresh
    instance every `chunk` messages, a snapshot of the mutable shared objects after every message.
    -> histories (prefix of a chunk up to the first message after which something shared differed)"""
    hits = {}
    for _ in range(passes):
        msgs = list(d['msgs'])
        rng.shuffle(msgs)
        ops = [('msg', mutate_msg(rng, m) if rng.random() < 0.15 else m) for m in msgs[:cap]]
        for c in custom_ops(d):
            ops.insert(rng.randrange(len(ops) + 1), c)
        for i in range(0, len(ops), chunk):
            part = ops[i:i + chunk]
            seed_all(12)
            CLOCK.set(T0 + 20)
            ACTOR[0] = 'A'
            X = construct(d)
            try:
                hot = mutable_only(shared_objects(info), d)
                s0 = snapshot_shared(hot)
                for j, op in enumerate(part):
                    apply_op(X, op)
                    s1 = snapshot_shared(hot)
                    if s1 != s0:
                        keys = tuple(sorted(k for k in hot if s1[k] != s0[k]))
                        if keys not in hits:
                            hits[keys] = part[:j + 1]
                        break
                fire_timers()
            finally:
                shutdown(X)
                ACTOR[0] = None
                drop_timers()
    return list(hits.values())


def run_case(d, base, history, info):
    """B idle, A driven with the history, C created afterwards.  -> observations"""
    res = dict(label=d['label'])
    seed_all(11)
    CLOCK.set(T0 + 10)
    B = construct(d)
    quiesce(B)
    A = None
    C = None
    try:
        obsB1 = observe(B, base.queries)
        seed_all(12)
        CLOCK.set(T0 + 20)
        ACTOR[0] = 'A'
        A = construct(d)
        objs = shared_objects(info)
        snap0 = snapshot_shared(objs)
        a_state0 = None
        for _ in range(5):
            try:
                a_state0 = canon(A)
                break
            except RuntimeError:     # A's own threads changed a container while it was walked
                _REAL['sleep'](0.01)
        outcomes = 0
        hot = mutable_only(objs, d)
        hot0 = snapshot_shared(hot)
        transient = set()
        for op in history:
            r = apply_op(A, op)
            outcomes += len(r)
            now = snapshot_shared(hot)
            if now != hot0:
                transient.update(k for k in hot if now[k] != hot0[k])
        fire_timers()
        shutdown(A)
        fire_timers()
        ACTOR[0] = None
        a_state1 = canon(A)
        # attributes of A's device that reach mutable objects of shared objects or of B's device
        idx = shared_id_index(objs)
        b_ids = {}
        for o in device_instances(B):
            for oid in reach_ids(o, stop_at_instances=True):
                b_ids[oid] = type(o).__module__ + '.' + type(o).__qualname__
        aliases = set()
        cross = set()
        classes = []
        for o in device_instances(A):
            cq = type(o).__module__ + '.' + type(o).__qualname__
            if cq not in classes:
                classes.append(cq)
            for an, av in list(getattr(o, '__dict__', {}).items()):
                for oid in reach_ids(av, stop_at_instances=True):
                    if oid in idx:
                        aliases.add((cq, an, idx[oid]))
                    if oid in b_ids and oid not in idx:
                        cross.add((cq, an, b_ids[oid]))
        objs1 = shared_objects(info)
        snap1 = snapshot_shared(objs1)
        changed = sorted(set(k for k in set(snap0) | set(snap1) if snap0.get(k) != snap1.get(k)) | transient)
        obsB2 = observe(B, base.queries)
        b_diff = []
        for p in diff_paths(obsB1['state'], obsB2['state'], limit=20):
            b_diff.append(('state', p))
        for k in sorted(set(obsB1['cview']) | set(obsB2['cview'])):
            if obsB1['cview'].get(k) != obsB2['cview'].get(k):
                b_diff.append(('class', k, (obsB2['cview'].get(k) or obsB1['cview'].get(k))[0]))
        for i, (x, y) in enumerate(zip(obsB1['replies'], obsB2['replies'])):
            if x != y:
                b_diff.append(('reply', i, base.queries[i], x, y))
        seed_all(7)
        CLOCK.set(T0)              # same seeds and same virtual instant as the very first instance
        C = construct(d)
        quiesce(C)
        snap2 = snapshot_shared(shared_objects(info))
        changed_by_new = sorted(k for k in set(snap1) | set(snap2) if snap1.get(k) != snap2.get(k))
        preC = pre_observe(C)
        obsC = observe(C, base.queries)
        c_diff = base.fresh_diff(preC, obsC)
        res.update(classes=classes, changed=changed, changed_by_new=changed_by_new, b_diff=b_diff,
                   c_diff=c_diff, aliases=sorted(aliases), cross=sorted(cross),
                   a_changed=a_state0 != a_state1, outcomes=outcomes)
    finally:
        ACTOR[0] = None
        for x in (A, B, C):
            if x is not None:
                shutdown(x)
        drop_timers()
    return res


# ---------------------------------------------------------------------------
# histories

def mutate_msg(rng, m):
    r = rng.random()
    if r < 0.55 or not m:
        return m
    if r < 0.75:                       # change a digit / letter of a parameter
        i = rng.randrange(len(m))
        c = m[i]
        if c.isdigit():
            c = rng.choice('0123456789')
        elif c.isalpha():
            c = rng.choice('ABCXYZabcxyz_')
        else:
            c = chr(rng.randrange(256))
        return m[:i] + c + m[i + 1:]
    if r < 0.85:                       # truncate
        return m[:rng.randrange(len(m))]
    if r < 0.93:                       # garbage in front
        return ''.join(chr(rng.randrange(256)) for _ in range(rng.randrange(1, 6))) + m
    return ''.join(chr(rng.randrange(256)) for _ in range(rng.randrange(1, 12)))


def custom_ops(d):
    """the operations a client can trigger besides protocol bytes: custom `$system_xxx%%%%%` commands
    (server.py calls the method of that name) and subscribe/unsubscribe of a sending system"""
    cls = getattr(importlib.import_module(d['mod']), d['cname'])
    ops = [('call', n_) for n_ in sorted(dir(cls))
           if n_.startswith('system_') and n_ not in ('system_stop', 'system_greet') and callable(getattr(cls, n_))]
    if hasattr(cls, 'subscribe'):
        ops += [('sub', False), ('sub', True)]
    return ops


def gen_history(rng, d, n):
    h = []
    cls = getattr(importlib.import_module(d['mod']), d['cname'])
    customs = sorted(n_ for n_ in dir(cls) if n_.startswith('system_') and n_ not in ('system_stop', 'system_greet'))
    for _ in range(n):
        r = rng.random()
        if customs and r < 0.04:
            h.append(('call', rng.choice(customs)))
        elif hasattr(cls, 'subscribe') and r < 0.08:
            h.append(('sub', rng.random() < 0.5))
        else:
            h.append(('msg', mutate_msg(rng, rng.choice(d['msgs']))))
    return h


def op_json(op):
    if op[0] == 'msg':
        return ['msg', op[1].encode('latin-1', 'replace').hex()]
    return list(op)


def op_from_json(o):
    if o[0] == 'msg':
        return ('msg', bytes.fromhex(o[1]).decode('latin-1'))
    return tuple(o)


# ---------------------------------------------------------------------------
# Coq rendering

def cstr(s):
    return '"' + s.replace('"', '""') + '"'


def clist(xs, f=cstr):
    return '[' + '; '.join(f(x) for x in xs) + ']'


def coq_case(res):
    changed = sorted(set(res['changed']) | set(res['changed_by_new']))
    al = ['(%s, (%s, %s))' % (cstr(c), cstr(a), cstr(k)) for c, a, k in res['aliases']]
    return 'CRun %s %s %s %s [%s]' % (
        clist(res['classes']), clist(changed),
        'true' if (res['b_diff'] or res['cross']) else 'false',
        'true' if res['c_diff'] else 'false',
        '; '.join(al))


# ---------------------------------------------------------------------------
# verdicts on one run (the property on the implementation)

def class_key(info, owner_cls, attr):
    return 'C:%s.%s' % (owner_cls, attr)


def failures_of(res, info):
    """[(klass, what)] — the property transcribed: nothing shared changes, B unchanged, C like the first"""
    out = []
    keys = sorted(set(res['changed']) | set(res['changed_by_new']))
    for k in keys:
        out.append(('shared:' + k, 'shared object %s changed while another instance was driven / constructed' % k))
    attributed = bool(keys)
    for bd in res['b_diff']:
        if bd[0] == 'class':
            k = 'C:%s.%s' % (bd[2], bd[1])
            if ('shared:' + k, ) not in [(o[0],) for o in out]:
                out.append(('shared:' + k, 'idle instance sees class attribute %s changed' % bd[1]))
        elif not attributed:
            out.append(('%s:idle_instance_changed' % res['label'],
                        'idle instance B changed (%s) after a history on A' % (bd[1],)))
    for cq, an, other in res['cross']:
        out.append(('%s:objects_shared_between_instances:%s.%s' % (res['label'], cq, an),
                    'a mutable object is reachable from both instances'))
    for cd in res['c_diff']:
        if cd[0] == 'class':
            continue      # reported through the shared key that changed
        if not attributed:
            out.append(('%s:late_instance_differs' % res['label'],
                        'late instance C differs from the first instance at %s %s' % cd))
    return out


def fails_in_fresh_process(label, history, klass):
    """a violation changes process-wide state, so a history must be re-tried in a fresh interpreter"""
    import subprocess
    import tempfile
    obj = dict(klass=klass, witness=dict(driver=label, history=[op_json(o) for o in history]))
    with tempfile.NamedTemporaryFile('w', suffix='.json', delete=False) as f:
        json.dump(obj, f)
        path = f.name
    try:
        env = dict(os.environ, PYTHONPATH=REPO, VERIF_REPO=REPO)
        code = ('import sys, json; sys.path.insert(0, %r); from vlib import core; core.use_repo(); '
                'import props.c06 as me; ctx = core.Ctx(me, "quick", 1); '
                'print("REPLAY-FAILS" if me.replay(ctx, json.load(open(%r))) else "REPLAY-HOLDS")' % (VERIF, path))
        p = subprocess.run([sys.executable, '-c', code], env=env, cwd=VERIF,
                           stdout=subprocess.PIPE, stderr=subprocess.DEVNULL, timeout=300, text=True)
        return 'REPLAY-FAILS' in p.stdout
    except Exception:
        return False
    finally:
        os.unlink(path)


def minimise(d, history, klass, budget=12):
    """shrink a failing history (delta debugging on the operation list, each attempt in a fresh process)"""
    def fails(h):
        return fails_in_fresh_process(d['label'], h, klass)
    cur = list(history)
    tries = 0
    # most violations need one operation: try the last one alone first
    if len(cur) > 1:
        tries += 1
        if fails(cur[-1:]):
            return cur[-1:]
    n = 2
    while len(cur) > 1 and tries < budget:
        chunk = max(1, len(cur) // n)
        reduced = False
        for i in range(0, len(cur), chunk):
            cand = cur[:i] + cur[i + chunk:]
            if not cand:
                continue
            tries += 1
            if fails(cand):
                cur = cand
                n = max(2, n - 1)
                reduced = True
                break
            if tries >= budget:
                break
        if not reduced:
            if chunk == 1:
                break
            n = min(len(cur), n * 2)
    return cur


# ---------------------------------------------------------------------------
# (C) + (D)

def dynamic_runs(ctx):
    """run every driver; returns list of (driver, baseline, history, result)"""
    if getattr(ctx, 'shr_runs', None) is not None:
        return ctx.shr_runs
    info = table_info(ctx)
    runs = []
    errors = []
    P = Patches()
    # import every simulators module first so that the patches and the shared-object census see them
    import pkgutil
    import simulators
    for m in pkgutil.walk_packages(simulators.__path__, 'simulators.'):
        try:
            importlib.import_module(m.name)
        except Exception as ex:
            errors.append('import %s: %r' % (m.name, ex))
    P.install()
    try:
        rng = ctx.rng
        nh = ctx.n(3, 40)
        for d in drivers():
            t0 = _REAL['time']()
            try:
                base = Baseline(d, ctx.n(12, 30), info)
            except Exception as ex:
                import traceback
                errors.append('%s: baseline: %s' % (d['label'], traceback.format_exc()[-600:]))
                continue
            for keys, hist in base.hits:
                cls = d['mod'] + '.' + d['cname']
                runs.append((d, base, hist, dict(label=d['label'], classes=[cls], changed=list(keys),
                                                 changed_by_new=[], b_diff=[], c_diff=[], aliases=[], cross=[],
                                                 a_changed=True, outcomes=0, baseline_hit=True)))
            hs = []
            # the whole corpus once, in a seeded order, then random histories
            allm = list(d['msgs'])
            rng.shuffle(allm)
            hs.append([('msg', m) for m in allm[:ctx.n(250, 1000)]])
            cust = custom_ops(d)
            if cust:
                h = []
                for c in cust:
                    h.append(c)
                    h += [('msg', rng.choice(d['msgs'])) for _ in range(2)]
                hs.append(h)
            for i in range(nh):
                hs.append(gen_history(rng, d, rng.choice([3, 8, 20, 45])))
            try:
                hs += probe(d, info, rng, ctx.n(2, 10), 10, ctx.n(160, 10 ** 6))
            except Exception:
                import traceback
                errors.append('%s: probe: %s' % (d['label'], traceback.format_exc()[-600:]))
            for h in hs:
                try:
                    res = run_case(d, base, h, info)
                except Exception:
                    import traceback
                    errors.append('%s: %s' % (d['label'], traceback.format_exc()[-600:]))
                    continue
                runs.append((d, base, h, res))
                ctx.count(d['label'].split('(')[0].split('#')[0])
                if res['a_changed']:
                    ctx.nontriv((d['label'], repr(h)))
            ctx.note('%s: %d histories, %d queries, %.1fs' % (d['label'], len(hs), len(base.queries),
                                                           _REAL['time']() - t0)) if not ctx.quick() else None
    finally:
        P.remove()
    ctx.shr_runs = runs
    ctx.shr_errors = errors
    return runs


def correspondence(ctx):
    runs = dynamic_runs(ctx)
    if ctx.shr_errors:
        ctx.broken.append(('correspondence', 'harness', ctx.shr_errors[:3]))
    cases = [coq_case(res) for _, _, _, res in runs]
    for c in cases[:2] + cases[len(cases) // 2:len(cases) // 2 + 2]:
        ctx.sample(c[:600])
    ctx.run_cases('sharing', 'From DS Require Import Corr.ShrCorr.\nFrom Coq Require Import String.\n'
                             'Open Scope string_scope.', 'shr_case', 'ok', cases, shard=ctx.n(40, 120))


def oracle(ctx):
    info = table_info(ctx)
    try:
        runs = dynamic_runs(ctx)
    except Exception:
        import traceback
        ctx.broken.append(('oracle', 'harness', traceback.format_exc()[-1200:]))
        return
    seen = set()
    checked = 0
    P = Patches()
    for d, base, h, res in runs:
        checked += 1
        for klass, what in failures_of(res, info):
            if klass in seen:
                continue
            seen.add(klass)
            hist = h
            if len(h) > 1 and not res.get('baseline_hit'):
                hist = minimise(d, h, klass)
            ctx.fail(klass, what, dict(driver=d['label'], history=[op_json(o) for o in hist],
                                       observed=dict(changed=res['changed'], changed_by_new=res['changed_by_new'],
                                                     b_diff=[list(map(str, x))[:3] for x in res['b_diff'][:4]],
                                                     c_diff=[list(map(str, x)) for x in res['c_diff'][:4]])))
    ctx.oracle_stats = dict(histories=checked, failing_classes=sorted(seen),
                            drivers=len({d['label'] for d, _, _, _ in runs}))


def replay(ctx, obj):
    """re-run the recorded history on the recorded simulator type; True if its failure class recurs"""
    info = table_info(ctx)
    w = obj.get('witness', {})
    ds = [d for d in drivers() if d['label'] == w.get('driver')]
    if not ds:
        return False
    d = ds[0]
    P = Patches()
    import pkgutil
    import simulators
    for m in pkgutil.walk_packages(simulators.__path__, 'simulators.'):
        try:
            importlib.import_module(m.name)
        except Exception:
            pass
    P.install()
    try:
        base = Baseline(d, 12, info)
        for keys, hist in base.hits:
            if obj.get('klass') in ['shared:' + k for k in keys]:
                ctx.fail(obj.get('klass'), 'shared object changed while pristine instances were constructed/queried', w)
                return True
        res = run_case(d, base, [op_from_json(o) for o in w.get('history', [])], info)
    finally:
        P.remove()
    fs = failures_of(res, info)
    for k, what in fs:
        if k == obj.get('klass'):
            ctx.fail(k, what, w)
            return True
    return False

