"""Bck — shared code of the backend parts of the cross-cutting properties (props/parts/c0x_backend.py)."""
from props import bck_common as B
from props import bck_oracle as O

IMPORTS = 'From DS Require Import Corr.BckCorr Model.BckModel.'

FLAVOURS = {
    # name: kwargs of gen_history, whether the history ends with resync + query block, with system_stop
    'c02': (dict(p_bad=0.3, p_reply=0.1, p_stop=0.03), True, False),
    'c03': (dict(p_bad=0.6, p_reply=0.12, chunked=0.6, p_stop=0.02), True, False),
    'c04': (dict(p_bad=0.3, p_reply=0.1), False, False),
    'c05': (dict(p_bad=0.1, p_reply=0.03, p_reg=0.7), False, False),
    'c07': (dict(p_bad=0.08, p_reply=0.03, p_stop=0.08), False, True),
}


def part_correspondence(ctx, flavour, n, length=(8, 24)):
    """random histories of the flavour on the three backend classes against Model/BckModel.v"""
    from props.c19 import history_stats
    rng = ctx.rng
    kw, queries, stop = FLAVOURS[flavour]
    cases = []
    skipped = 0
    with B.Env() as env:
        for i in range(n):
            variant = B.VARIANTS[i % 3] if i % 4 else 'mistral'
            h = B.History(env, variant)
            if variant == 'mistral' and rng.random() < 0.6:
                B.mistral_warmup(rng, h)
            h = B.gen_history(rng, env, variant, rng.randrange(*length), h=h, **kw)
            if stop:
                h.stop()
                if rng.random() < 0.3:
                    h.bytes(B.next_line(rng, h) + '\r\n')
                    h.stop()
            if queries:
                h.bytes('\r\n' + B.query_block())
            if not h.exact():
                skipped += 1
                continue
            history_stats(ctx, h, prefix='backend')
            cases.append(h.term())
            if i < 1:
                ctx.sample(dict(simulator='backend', variant=variant,
                                events=[[e[0], e[1] if e[0] != 'bytes' else e[1][:60]] for e in h.log[:6]]))
    if skipped:
        ctx.note('backend: %d histories skipped (inexact float interval)' % skipped)
    ctx.run_cases('backend_%s' % flavour, IMPORTS, 'bcase', 'ok', cases, show='show', shard=ctx.n(25, 60))


def part_oracle(ctx, pid, classes, n):
    O.run(ctx, pid, classes, n)


def part_replay(ctx, obj):
    return O.replay(obj)
