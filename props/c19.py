"""C19 — backends: every line answered once per grammar; acquisition state machine; MISTRAL task guards.

(A) gen/bck_tables.py -> coq/Gen/BckTables.v (regex strings, constants, command tables, timer sites);
(B) coq/Properties/C19.v over coq/Model/BckModel.v (+ Spec/BckGrammarSpec.v);
(C) correspondence: random histories (lines from the grammar and outside it over the whole byte alphabet,
    chunked arbitrarily, virtual-clock advances, system_stop, failure flag) on the real generic backend,
    sardara and mistral classes against the model, diff computed in Coq (Corr/BckCorr.v); plus
    grammar.parse_message against the hand-written recogniser on raw strings;
(D) oracle: the theorem statements transcribed to Python over the real classes (props/bck_common.py).
"""
import json
import os

from vlib.core import GenError, write_if_changed, COQ, REPO, VERIF
from props import bck_common as B

META = dict(
    id='C19',
    title='Backends answer every line once, per grammar; acquisition state stays coherent',
    design_ref='DESIGN.md section 7, C19',
    coq_target='Properties/C19.vo',
    coq_extra=['Corr/BckCorr.vo'],
    technique='Coq proof (invariants / case analysis over an executable Gallina model of grammar.py, '
              'genericbackend.py, sardara.py, mistral.py on a virtual clock with a timer ledger) + generated '
              'tables pinned to Golden + in-Coq differential correspondence with the real classes',
    level_text='One-reply-per-line, reply-grammar (independent declarative grammar and the executable '
               'recogniser), name/undefined echo, ignored replies, and the acquisition / MISTRAL state-machine '
               'lemmas are proved in Coq for every byte history, every oracle and every instant over a model '
               'of the fixed code (fixes/16, 17, 33); the model is compared with the real generic backend, '
               'sardara and mistral classes on random histories under a virtual clock and timer wheel on '
               'every run; regex strings, command tables, constants and timer sites are regenerated from the '
               'source and proved equal to the Golden tables. Partial: real threading.Timer scheduling '
               '(ties between timers due at the same instant, a timer racing a command, OverflowError of '
               'Timer for waits beyond ~292 years) is outside the model.',
    level_note='Trusted: Coq kernel + vm_compute; the hand-written recogniser as validated against '
               're/grammar.parse_message by correspondence; the oracles int(str), float(str), '
               'float(str)/ACS_TO_UNIX_TIME, the .7f rendering of the clock and str(float) are supplied per '
               'case by the same Python builtins; the virtual clock / timer wheel of props/bck_common.py.',
    partial='real Timer thread timing (ties, races with commands, overflow of very long waits)',
    rule='one case = one history (15-30 events: byte chunks, clock advances, system_stop, failure flag) on '
         'one backend instance, or one raw string through grammar.parse_message; non-trivial = distinct '
         'history containing an executed command, a refused command and a syntax error, or a distinct '
         'parse result',
    trusted=['props/bck_common.py virtual clock and timer wheel (stand-ins for time.time and threading.Timer)'],
    assumptions=['renderings supplied by the oracles contain no CR/LF (hypothesis of the reply-grammar theorem)',
                 'threading.Timer fires its callback once, at or after its deadline, unless cancelled before'],
)


def gen(ctx):
    from gen import bck_tables
    text = bck_tables.tables_text(REPO)
    write_if_changed(os.path.join(COQ, 'Gen', 'BckTables.v'), text)


# ---------------------------------------------------------------------------
# (C) correspondence

def corpus_scripts():
    """minimised past failures (kept in corpus/C19/*.json): list of (variant, script)"""
    d = os.path.join(VERIF, 'corpus', 'C19')
    out = []
    if os.path.isdir(d):
        for f in sorted(os.listdir(d)):
            if f.endswith('.json'):
                o = json.load(open(os.path.join(d, f)))
                out.append((o['variant'], [tuple(e) for e in o['script']], f))
    return out


def parse_cases(ctx, n):
    """grammar.parse_message on raw strings (also unstripped ones) against the model's recogniser"""
    from simulators.backend import grammar
    rng = ctx.rng
    strings = ['', '?', '!', '?a', '!a', '!a,ok', '!a,ok,', '?a,', '?a,b', '?a\r\n', '?a\n', '?a\r\n\n', '?a\r',
               '?a,b\r\n', '?a,b\n', '!a,ok\r\n', '!a,ok\n', '!a,fail,x\r\n\n', '!a,invalid', '!a,okay', '!a,okfail',
               '!a,ok,ok', '?a\n\n', '?a\r\n\r\n', '?a,b\rc', '?a-b-,x', '?1a', '?a1', '\n?a', ' ?a', 'x', ',',
               '?\xe9', '?a\x85', '?a,\x85', '?a,\x0b', '?a\x0b', '?a,b,,c,', '!a,fail,,']
    with B.Env() as env:
        h = B.History(env, 'mistral')
        for _ in range(n):
            r = rng.random()
            if r < 0.35:
                s = B.request_line(rng, h)
            elif r < 0.55:
                s = B.reply_line(rng)
            else:
                s = B.malformed_line(rng, h)
            if rng.random() < 0.35:
                s += rng.choice(['\r\n', '\n', '\r', '\r\n\n', '\n\n', '\r\n\r\n', '\n\r', '\r\r\n'])
            strings.append(s)
    cases = []
    for s in strings:
        try:
            m = grammar.parse_message(s)
            code = m.code
            if code is None:
                code = ''
            term = 'BParse %s (RMsg %s %s %s [%s])' % (
                B.zs(s), B.zs(m.message_type), B.zs(m.name), B.zs(code),
                '; '.join(B.zs(a) for a in m.arguments))
            ctx.count('parse:%s' % ('request' if m.is_request() else 'reply'))
            ctx.nontriv(('parse', s))
        except grammar.GrammarException as ex:
            term = 'BParse %s (RErr %s)' % (B.zs(s), B.zs(str(ex)))
            ctx.count('parse:error')
        cases.append(term)
    return cases


def history_stats(ctx, h, prefix='hist'):
    kinds = set()
    for ev in h.log:
        if ev[0] == 'bytes':
            for _, r in ev[2]:
                if r.startswith('!undefined,invalid'):
                    kinds.add('syntax-error')
                elif ',fail' in r[:r.find(',') + 6]:
                    kinds.add('refused')
                else:
                    kinds.add('executed')
        elif ev[0] == 'advance' and ev[2]:
            kinds.add('timer-fired')
        elif ev[0] == 'stop':
            kinds.add('system-stop')
    for k in kinds:
        ctx.count('%s:%s:%s' % (prefix, h.variant, k))
    if {'executed', 'refused', 'syntax-error'} <= kinds:
        ctx.nontriv((prefix, h.variant, tuple((e[0], e[1]) for e in h.log)))


def run_script(env, variant, script):
    h = B.History(env, variant)
    for e in script:
        if e[0] == 'bytes':
            h.bytes(e[1])
        elif e[0] == 'advance':
            h.advance(max(e[1], env.clock.key))
        elif e[0] == 'stop':
            h.stop()
        elif e[0] == 'failure':
            h.set_failure(bool(e[1]))
    return h


def history_cases(ctx, n, length=(12, 30)):
    rng = ctx.rng
    cases = []
    skipped = 0
    with B.Env() as env:
        for variant, script, _f in corpus_scripts():
            h = run_script(env, variant, script)
            cases.append(h.term())
            ctx.count('hist:corpus')
        for i in range(n):
            variant = B.VARIANTS[i % 3] if i % 7 else 'mistral'
            h = B.History(env, variant)
            if variant == 'mistral' and rng.random() < 0.6:
                B.mistral_warmup(rng, h)
            h = B.gen_history(rng, env, variant, rng.randrange(*length), h=h)
            if not h.exact():
                skipped += 1
                continue
            history_stats(ctx, h)
            cases.append(h.term())
            if i < 2:
                ctx.sample(dict(variant=variant, events=[[e[0], e[1] if e[0] != 'bytes' else e[1][:60]]
                                                         for e in h.log[:8]]))
    if skipped:
        ctx.note('%d histories skipped: float interval arithmetic inexact (timestamp beyond 2^43 s)' % skipped)
    return cases


def correspondence(ctx):
    cases = parse_cases(ctx, ctx.n(1500, 20000))
    ctx.run_cases('bck_parse', 'From DS Require Import Corr.BckCorr Model.BckModel.', 'bcase', 'ok', cases,
                  show='show', shard=ctx.n(400, 1500))
    cases = history_cases(ctx, ctx.n(420, 6000))
    ctx.run_cases('bck_hist', 'From DS Require Import Corr.BckCorr Model.BckModel.', 'bcase', 'ok', cases,
                  show='show', shard=ctx.n(28, 60))


# ---------------------------------------------------------------------------
# (D) oracle on the implementation

def oracle(ctx):
    from props import bck_oracle
    bck_oracle.run(ctx, 'C19', bck_oracle.C19_CLASSES, n=ctx.n(500, 8000))


def replay(ctx, obj):
    from props import bck_oracle
    return bck_oracle.replay(obj)
