"""C18 -- receiver boards answer exactly as addressed; abbreviated and extended forms agree.

gen:            coq/Gen/RcvTables.v from DEFINITIONS.py / slaves.py (fail closed)
correspondence: real simulators.receiver.System vs Model/RcvModel.v on seeded request histories
                (all board types, valid / corrupted / absent / broadcast / both forms / garbage),
                per-byte outcomes, replies and register snapshots compared inside Coq
oracle:         the C18 statements transcribed to Python over the real classes
"""
import copy
import json
import os

from vlib.core import GenError, VERIF
from props import rcv_harness as H

META = dict(
    id='C18',
    title='Receiver boards answer exactly as addressed; short and long forms agree',
    design_ref='DESIGN.md section 7, C18',
    coq_target='Properties/C18.vo',
    coq_extra=['Corr/RcvCorr.vo'],
    technique='Coq proof (refinement theorems over a Gallina model of System.parse/_parse and of the '
              'Slave/Dewar/Switch/LNA boards, tables generated from DEFINITIONS.py) + in-Coq '
              'differential correspondence with the real System',
    level_text='Addressing (unicast answered once by that board only, broadcast answered by every board in '
               'order, silent broadcast same effect, absent address silent and without effect), agreement of '
               'the abbreviated and extended forms (registers, answer code, data), checksum refusal without '
               'effect, and re-addressing (new address only; occupied/invalid refused) are proved in Coq for '
               'every board type, address map, command code, master/id byte and parameter string over an '
               'executable model of receiver/__init__.py and slaves.py; the model is compared with the real '
               'classes on seeded request histories on every run.',
    level_note='Trusted: Coq kernel + vm_compute; the hand-written model as validated by the correspondence '
               'suite; datetime (utcnow, constructor validity, rendering of an instant) enters the model as '
               'oracles recorded from the implementation; CPython dict/str semantics as mirrored.',
    partial=None,
    rule='one case = one System configuration and a history of 25-40 requests/garbage segments with per-byte '
         'outcomes and a state snapshot after each segment; non-trivial = distinct history with at least one '
         'answered request',
    trusted=['datetime.datetime (constructor validity, subtraction, utcnow) as recorded oracle graphs'],
    assumptions=['bytes reaching System.parse are code points 0..255 (the server decodes latin-1)',
                 'the n-th datetime.utcnow() call of a run returns clk n (any function clk)'],
)


def gen(ctx):
    from gen import rcv_tables
    rcv_tables.run(ctx)


# ---------------------------------------------------------------------------
# correspondence

def corpus_cases(ctx):
    """minimised past failures: JSON files {tag, amin, amax, feeds, stream: [[bytes]...]}"""
    d = os.path.join(VERIF, 'corpus', 'C18')
    out = []
    if os.path.isdir(d):
        for f in sorted(os.listdir(d)):
            if f.endswith('.json'):
                out.append(json.load(open(os.path.join(d, f))))
    return out


def correspondence(ctx):
    rng = ctx.rng
    cases = []
    for c in corpus_cases(ctx):
        term, _ = H.run_history(ctx, rng, len(c['stream']), c['tag'], c['amin'], c['amax'], c['feeds'],
                                stream=c['stream'])
        cases.append(term)
    n = ctx.n(160, 2400)
    for i in range(n):
        tag, amin, amax, feeds = H.pick_config(rng, small=(i % 10 != 0))
        big = amax - amin > 8
        term, executed = H.run_history(ctx, rng, 12 if big else rng.randrange(25, 41), tag, amin, amax, feeds)
        cases.append(term)
        ctx.count('board:%s' % ['slave', 'dewar', 'switch', 'lna'][tag])
        if executed:
            ctx.nontriv(term)
    from simulators.receiver import DEFINITIONS as DEF
    for i in range(ctx.n(24, 300)):
        tag = i % 4
        amin, amax = rng.choice([(1, 1), (1, 2), (0x7D, 0x7E)])
        feeds = rng.choice([1, 2, 7, 19])
        g = H.Gen(rng, DEF, tag)
        stream = H.scenario_stream(rng, DEF, g, tag, list(range(amin, amax + 1)))
        term, _ = H.run_history(ctx, rng, len(stream), tag, amin, amax, feeds, stream=stream)
        cases.append(term)
        ctx.count('scenario:%s' % ['slave', 'dewar', 'switch', 'lna'][tag])
        ctx.nontriv(term)
    ctx.sample(cases[-1][:600] + ' ...')
    ctx.run_cases('receiver', 'From DS Require Import Corr.RcvCorr.', 'rcase', 'ok', cases,
                  show='show', shard=ctx.n(10, 40))


# ---------------------------------------------------------------------------
# property-level oracle on the implementation

MASK = object()


def regs(S, system, mask_cmd=False):
    out = []
    for k, b in system.slaves.items():
        r = H.board_regs(S, b)
        if mask_cmd:
            r[5] = -1          # last_cmd (the command code: differs between the forms by design)
        out.append((H.one(k), r))
    return out


def run_req(system, m):
    """feed one request to a copy; returns (copy, final outcome, framing_ok)"""
    c = copy.deepcopy(system)
    outs = H.feed(c, m)
    return c, outs[-1], all(t == 1 for t, _ in outs[:-1])


def check_request(ctx, S, DEF, system, g, a, hist):
    """all C18 statements that apply to the request described by the argument dict `a`"""
    def bad(klass, what, **w):
        ctx.fail(klass, what, dict(w, config=hist['config'], history=[list(x) for x in hist['stream']], request=a))

    def mk(**over):
        b = dict(a, **over)
        return H.build(DEF, b['kind'], b['ext'], b['sa'], b['ma'], b['cid'], b['p'], good=b['good'],
                       eot=b['eot'], filler=b['filler'])
    m = mk()
    keys = [H.one(k) for k in system.slaves]
    before = regs(S, system)
    after_sys, (tag, reply), framed = run_req(system, m)
    after = regs(S, after_sys)
    if not framed:
        bad('framing', 'a well-framed request was not buffered byte by byte', request_bytes=m)
        return after_sys
    if tag == 3:
        bad('exception', 'an exception escaped parse (the request is swallowed by the server)', request_bytes=m)
        return after_sys
    frames = H.decode_answer(DEF, reply) if tag == 2 else []
    if frames is None:
        bad('undecodable', 'the answer does not decode as a sequence of answer frames', reply=reply)
        return after_sys
    code = ord(getattr(DEF, 'CMD_%s_%s' % ('EXT' if a['ext'] else 'ABBR', a['kind'])))
    for f in frames:
        if (f['master'], f['cmd'], f['id']) != (a['ma'], code, a['cid']):
            bad('echo', 'an answer frame does not echo master / command / id of the request', reply=reply)
    sa = a['sa']
    bro = [ord(c) for c in DEF.SLAVE_ADDR_BROADCAST]
    if sa not in bro:
        if sa in keys:
            if len(frames) != 1 or frames[0]['slave'] != sa:
                bad('unicast_once', 'a request to an existing board is not answered exactly once by that board',
                    reply=reply, outcome=tag)
            # the inquiry record holds the command that was received (the model proves it: classify_code_sweep)
            if len(frames) == 1 and a['good'] is True and a['kind'] not in ('INQUIRY', 'RESET'):
                key = chr(a['p'][0]) if (a['kind'] == 'SET_ADDR' and frames[0]['code'] == 0) else chr(sa)
                brd = after_sys.slaves.get(key)
                if brd is None or (ord(brd.last_cmd), ord(brd.last_cmd_id), ord(brd.last_cmd_answer)) != \
                        (code, a['cid'], frames[0]['code']):
                    bad('inquiry_record', 'the inquiry record of the board does not hold the command, id and '
                        'answer code of the request it just executed')
            moved = [k for k, _ in after if k not in keys]
            for (k, r) in before:
                if k != sa and dict(after).get(k) != r:
                    bad('unicast_other_board', 'a unicast request changed another board', board=k)
            if len(moved) > 1 or (moved and a['kind'] != 'SET_ADDR'):
                bad('unicast_other_board', 'the address map changed unexpectedly', moved=moved)
        else:
            if tag != 1 or after != before:
                bad('absent', 'a request to an absent address was answered or had an effect', outcome=tag)
    elif sa == ord(DEF.SLAVE_ADDR_BROADCAST_WITH_ANSWER):
        if keys and [f['slave'] for f in frames] != keys:
            bad('broadcast_all', 'a broadcast-with-answer is not answered by every board in order',
                answered=[f['slave'] for f in frames], boards=keys)
        if not keys and tag != 1:
            bad('broadcast_all', 'a broadcast on an empty system was answered')
    else:
        if tag != 1:
            bad('broadcast_silent', 'a broadcast-without-answer was answered', outcome=tag)
        alt_sys, (tag2, _), _ = run_req(system, mk(sa=ord(DEF.SLAVE_ADDR_BROADCAST_WITH_ANSWER)))
        if tag2 == 3 or regs(S, alt_sys) != after:
            bad('broadcast_silent_effect', 'the silent broadcast and the answered broadcast differ in effect')
    # corrupted checksum
    if a['ext'] and a['good'] is not True:
        if any(f['code'] != ord(DEF.CMD_ERR_CHKS) or f['data'] is not None for f in frames):
            bad('bad_checksum_answer', 'an extended request with a wrong checksum is not answered "checksum error"',
                reply=reply)
        if after != before:
            bad('bad_checksum_effect', 'an extended request with a wrong checksum had an effect')
        return after_sys
    # the two forms agree (good checksum)
    o_sys, (otag, oreply), oframed = run_req(system, mk(ext=not a['ext'], good=True))
    oframes = H.decode_answer(DEF, oreply) if otag == 2 else []
    if not oframed or otag != tag or oframes is None or \
            [(f['slave'], f['code'], f['data']) for f in oframes] != [(f['slave'], f['code'], f['data']) for f in frames]:
        bad('forms_answer', 'abbreviated and extended form of the same command answer differently',
            reply=reply, other=oreply)
    elif regs(S, o_sys, True) != regs(S, after_sys, True):
        bad('forms_effect', 'abbreviated and extended form of the same command differ in their effect')
    # re-addressing
    if a['kind'] == 'SET_ADDR' and frames:
        p = a['p']
        acc = [ord(c) for c in DEF.SLAVE_ADDR_ACCEPTED]
        first = frames[0]
        should = len(p) == 1 and p[0] in acc and p[0] not in keys
        acked = first['code'] == ord(DEF.CMD_ACK)
        if acked != should:
            bad('readdress_decision', 'set_address acknowledged/refused against the rule '
                '(one byte, 0x01..0x7E, not occupied)', code=first['code'])
        akeys = [k for k, _ in after]
        if acked:
            old = first['slave']
            want = [k for k in keys if k != old] + [p[0]]
            if akeys != want:
                bad('readdress_map', 'after an accepted address change the address map is wrong', keys=akeys)
            else:
                q = H.build(DEF, 'GET_ADDR', False, p[0], 7, 9)
                _, (t1, r1), _ = run_req(after_sys, q)
                fr = H.decode_answer(DEF, r1) if t1 == 2 else None
                if not fr or len(fr) != 1 or fr[0]['slave'] != p[0] or fr[0]['data'] != [p[0]]:
                    bad('readdress_new', 'the board does not answer at its new address', reply=r1)
                if old not in bro:
                    s2, (t2, _), _ = run_req(after_sys, H.build(DEF, 'GET_ADDR', False, old, 7, 9))
                    if t2 != 1 or regs(S, s2) != after:
                        bad('readdress_old', 'the board still answers at its old address')
            if any(f['code'] == ord(DEF.CMD_ACK) for f in frames[1:]):
                bad('readdress_broadcast', 'a broadcast set_address moved more than one board')
        else:
            if akeys != keys or [r[0] for _, r in after] != [r[0] for _, r in before]:
                bad('readdress_refused', 'a refused set_address changed the address map')
    return after_sys


def check_unknown(ctx, S, DEF, system, rng, g, sa, hist):
    """an unknown command code (5 bytes: SOH, slave, master, code, id): one short "unknown command" answer
    per addressed board that exists, none for an absent address or a silent broadcast, no effect at all"""
    accepted = set(ord(c) for c in DEF.ACCEPTED_COMMANDS)
    code = rng.choice([c for c in range(256) if c not in accepted])
    ma, cid = g.byte(), g.byte()
    m = [ord(DEF.CMD_SOH), sa, ma, code, cid]

    def bad(klass, what, **w):
        ctx.fail(klass, what, dict(w, config=hist['config'], history=[list(x) for x in hist['stream']],
                                   request=dict(kind='UNKNOWN', sa=sa, ma=ma, cid=cid, code=code), request_bytes=m))
    keys = [H.one(k) for k in system.slaves]
    before = regs(S, system)
    after_sys, (tag, reply), framed = run_req(system, m)
    if tag == 3:
        bad('exception', 'an exception escaped parse (the request is swallowed by the server)')
        return after_sys
    if regs(S, after_sys) != before:
        bad('unknown_command_effect', 'a request with an unknown command code changed a board')
    bro = [ord(c) for c in DEF.SLAVE_ADDR_BROADCAST]
    if sa == ord(DEF.SLAVE_ADDR_BROADCAST_WITH_ANSWER):
        who = keys
    elif sa in bro or sa not in keys:
        who = []
    else:
        who = [sa]
    want = []
    for k in who:
        want += [ord(DEF.CMD_STX), ma, k, code, cid, ord(DEF.CMD_ERR_CMD)]
    got = list(reply) if tag == 2 else []
    if got != want:
        if sa not in bro and sa not in keys:
            bad('absent', 'a request to an absent address was answered or had an effect', outcome=tag, reply=got)
        elif sa in bro and not who:
            bad('broadcast_silent', 'a broadcast-without-answer was answered', outcome=tag, reply=got)
        else:
            bad('unknown_command_answer', 'an unknown command code is not answered by exactly the addressed '
                'boards with the short "unknown command" frame', reply=got, expected=want)
    hist['stream'].append(m)
    return after_sys


def oracle(ctx):
    from simulators.receiver import DEFINITIONS as DEF
    rng = ctx.rng
    checked = 0
    for h in range(ctx.n(60, 1200)):
        rec = H.Recorder(frozen=H.NOW0 + h * 10 ** 6)
        S = H.install(rec)
        tag, amin, amax, feeds = H.pick_config(rng, small=(h % 8 != 0))
        system = H.make_system(tag, amin, amax, feeds)
        g = H.Gen(rng, DEF, tag)
        hist = dict(config=[tag, amin, amax, feeds], stream=[])
        for step in range(6 if amax - amin > 8 else 25):
            keys = [H.one(k) for k in system.slaves]
            kind = rng.choice(H.KINDS)
            ext = rng.random() < 0.5
            a = dict(kind=kind, ext=ext, sa=g.address(keys), ma=g.byte(), cid=g.byte(), p=g.params(kind, keys),
                     good=True if not (ext and rng.random() < 0.15) else rng.randrange(1, 256),
                     eot=None if rng.random() < 0.9 else g.byte(), filler=(g.byte(), g.byte()))
            system = check_request(ctx, S, DEF, system, g, a, hist)
            hist['stream'].append(H.build(DEF, a['kind'], a['ext'], a['sa'], a['ma'], a['cid'], a['p'],
                                          good=a['good'], eot=a['eot'], filler=a['filler']))
            checked += 1
            if rng.random() < 0.25:
                keys = [H.one(k) for k in system.slaves]
                system = check_unknown(ctx, S, DEF, system, rng, g, g.address(keys), hist)
                checked += 1
            if len(ctx.failures) > 20:
                break
    # a frame whose handler raises (virtual clock), then ordinary requests: answered once as addressed
    raised = 0
    for h in range(ctx.n(40, 600)):
        cfg = H.pick_config(rng)
        g = H.Gen(rng, DEF, cfg[0])
        prefix = [g.request(list(range(cfg[1], cfg[2] + 1)))[0] for _ in range(rng.randrange(0, 4))]
        raised += bool(H.check_after_exception(ctx, DEF, cfg, prefix, rng))
    ctx.oracle_stats = dict(requests_checked=checked, raising_frames_followed_by_requests=raised)
    ctx.evaluations += checked


def replay(ctx, obj):
    """re-execute the recorded history and request; True when a failure of the same class is reported again"""
    from simulators.receiver import DEFINITIONS as DEF
    w = obj['witness']
    if 'after_exception' in obj.get('klass', ''):
        H.install(H.Recorder(step=1000))
        system = H.make_system(*w['config'])
        last = None
        for seg in w['stream']:
            last = H.feed(system, seg)
        if obj['klass'] == 'not_idle_after_exception':
            return system.msg != ''
        fr = H.decode_answer(DEF, last[-1][1]) if last and last[-1][0] == 2 else None
        return not fr or len(fr) != 1
    tag, amin, amax, feeds = w['config']
    rec = H.Recorder(frozen=H.NOW0)
    S = H.install(rec)
    system = H.make_system(tag, amin, amax, feeds)
    for m in w['history']:
        H.feed(system, m)
    g = H.Gen(ctx.rng, DEF, tag)
    a = dict(w['request'])
    a['filler'] = tuple(a['filler'])
    n0 = len(ctx.failures)
    check_request(ctx, S, DEF, system, g, a, dict(config=w['config'], stream=w['history']))
    return any(f['klass'] == obj.get('klass') for f in ctx.failures[n0:])
