"""Framework core shared by every property check (DESIGN.md sections 2, 5, 6, 9).

A property module (props/cXX.py) provides

  META              dict: id, title, design_ref, technique, level_text, level_note,
                          coq_target (e.g. 'Properties/C09.vo'), partial (str or None)
  gen(ctx)          (optional) regenerate coq/Gen/*.v from REPO; raise GenError when a source
                    shape is not recognised (fail closed)
  correspondence(ctx) -> None.  Runs the implementation and the Coq model on the same inputs
                    through ctx.run_cases(...)
  oracle(ctx)       -> None.  Property-level oracle on the *implementation*; every failing
                    input is reported through ctx.fail(...)
  replay(ctx, obj)  -> bool: True when the recorded failing input still fails on REPO

The verdict rule is in Ctx.finish().
"""
import fcntl
import hashlib
import json
import os
import random
import re
import subprocess
import sys
import time
from concurrent.futures import ThreadPoolExecutor

VERIF = os.path.dirname(os.path.dirname(os.path.abspath(__file__)))
REPO = os.environ.get('VERIF_REPO', '/repo')
COQ = os.path.join(VERIF, 'coq')
WORK = os.path.join(VERIF, '.work')
KNOWN = os.path.join(VERIF, 'known_findings.txt')
def _mem_limited_jobs(want, per_job_kb=2600000):
    """Parallelism bounded by the memory that is really available (MemAvailable and the cgroup limit):
    a coqc of this development peaks between 0.3 and 2.5 GB, and an out-of-memory kill of one of sixteen
    parallel compilations must not be mistaken for a broken proof."""
    avail = None
    try:
        for ln in open('/proc/meminfo'):
            if ln.startswith('MemAvailable:'):
                avail = int(ln.split()[1])
    except OSError:
        pass
    for f in ('/sys/fs/cgroup/memory.max', '/sys/fs/cgroup/memory/memory.limit_in_bytes'):
        try:
            v = open(f).read().strip()
            if v.isdigit():
                lim = int(v) // 1024
                used = 0
                for g in ('/sys/fs/cgroup/memory.current', '/sys/fs/cgroup/memory/memory.usage_in_bytes'):
                    try:
                        used = int(open(g).read().strip()) // 1024
                        break
                    except (OSError, ValueError):
                        pass
                left = max(0, lim - used)
                avail = left if avail is None else min(avail, left)
        except OSError:
            pass
    try:
        ncpu = os.cpu_count() or want
    except Exception:
        ncpu = want
    n = min(want, ncpu)
    if avail is not None:
        n = min(n, max(1, avail // per_job_kb))
    return max(1, n)


NCPU = _mem_limited_jobs(int(os.environ.get('VERIF_JOBS', '16')))

FORBIDDEN = re.compile(
    r'\bAdmitted\b|\badmit\b|\bAxiom\b|\bParameter\b|\bConjecture\b|Unset Guard|'
    r'bypass_check|type-in-type|\bAdmit Obligations\b|impredicative-set')


class GenError(Exception):
    """A translator met a source shape it does not recognise (fail closed)."""


def use_repo():
    """Make `import simulators` resolve to REPO (and nothing else)."""
    if sys.path[0] != REPO:
        sys.path.insert(0, REPO)
    for name in list(sys.modules):
        if name == 'simulators' or name.startswith('simulators.'):
            mod = sys.modules[name]
            f = getattr(mod, '__file__', '') or ''
            if not f.startswith(REPO + '/'):
                del sys.modules[name]
    import simulators
    assert simulators.__file__.startswith(REPO + '/'), simulators.__file__


def sh(cmd, timeout, cwd=None, env=None):
    try:
        p = subprocess.run(cmd, shell=isinstance(cmd, str), cwd=cwd, env=env,
                           stdout=subprocess.PIPE, stderr=subprocess.STDOUT,
                           timeout=timeout, text=True, errors='replace')
        return p.returncode, p.stdout
    except subprocess.TimeoutExpired as ex:
        out = ex.stdout or ''
        if isinstance(out, bytes):
            out = out.decode('latin-1')
        return 124, out + '\n[timeout after %ss]' % timeout


def write_if_changed(path, text):
    try:
        with open(path) as f:
            if f.read() == text:
                return False
    except OSError:
        pass
    os.makedirs(os.path.dirname(path), exist_ok=True)
    tmp = path + '.tmp%d' % os.getpid()
    with open(tmp, 'w') as f:
        f.write(text)
    os.replace(tmp, path)
    return True


# ---------------------------------------------------------------------------
# Coq literals

def zlit(n):
    n = int(n)
    return '(%d)' % n if n < 0 else '%d' % n


def zlist(xs):
    return '[' + '; '.join(zlit(x) for x in xs) + ']'


def blist(bits):
    """'0101' or iterable of bools -> Coq list bool"""
    return '[' + '; '.join('true' if b in (True, '1', 1) else 'false' for b in bits) + ']'


def blit(b):
    return 'true' if b else 'false'


def natlit(n):
    assert 0 <= n < 5000, n
    return '%d%%nat' % n


def optlit(x, f=zlit):
    return 'None' if x is None else '(Some %s)' % f(x)


def bytes_of(s):
    """bytes or latin-1 str -> list of ints"""
    if isinstance(s, (bytes, bytearray)):
        return list(s)
    return [ord(c) for c in s]


# ---------------------------------------------------------------------------

class Ctx:
    def __init__(self, mod, tier, seed, parts=()):
        self.mod = mod
        self.parts = list(parts)
        self.meta = mod.META
        self.pid = self.meta['id']
        self.tier = tier
        self.seed = seed
        self.rng = random.Random(seed)
        self.t0 = time.time()
        self.work = os.path.join(WORK, self.pid)
        os.makedirs(self.work, exist_ok=True)
        self.broken = []        # (kind, name, detail): proof / tie / correspondence that no longer checks
        self.failures = []      # concrete failing inputs found on the implementation
        self.suites = []        # correspondence suite summaries
        self.oracle_stats = {}
        self.samples = []
        self.assumptions_text = ''
        self.obligations = 0
        self.discharged = 0
        self.cone_files = []
        self.notes = []
        self.evaluations = 0
        self.nontrivial = set()
        self.histogram = {}

    # -- small helpers -------------------------------------------------------
    def quick(self):
        return self.tier == 'quick'

    def n(self, quick, thorough):
        return quick if self.tier == 'quick' else thorough

    def sample(self, obj):
        if len(self.samples) < 8:
            self.samples.append(obj)

    def count(self, key, k=1):
        self.histogram[key] = self.histogram.get(key, 0) + k

    def nontriv(self, key):
        """record one distinct non-trivial case (hashed)"""
        self.nontrivial.add(hashlib.md5(repr(key).encode()).hexdigest()[:12])

    def note(self, s):
        self.notes.append(s)
        print('  note:', s, flush=True)

    # -- (A) translators -------------------------------------------------------
    def modules(self):
        return [self.mod] + self.parts

    def run_gen(self):
        for m in self.modules():
            gen = getattr(m, 'gen', None)
            if gen is None:
                continue
            try:
                gen(self)
            except GenError as ex:
                self.broken.append(('tie', 'translator %s' % m.__name__, str(ex)))
            except Exception as ex:  # any crash of a translator is a broken tie, too
                self.broken.append(('tie', 'translator %s' % m.__name__,
                                    '%s: %s' % (type(ex).__name__, ex)))

    def coq_targets(self):
        t = []
        if self.meta.get('coq_target'):
            t.append(self.meta['coq_target'])
        t += list(self.meta.get('coq_extra', []))
        for p in self.parts:
            t += list(p.PART.get('coq_targets', []))
        out = []
        for x in t:
            if x not in out:
                out.append(x)
        return out

    # -- (B) proofs --------------------------------------------------------------
    def coq_build(self):
        """make the property's target (full .vo), then recompile the Properties file to capture
        Print Assumptions; count obligations in the dependency cone."""
        targets = self.coq_targets()
        cone0 = []
        for t in targets:
            cone0 += [f for f in cone_of(t[:-1]) if f not in cone0]
        bad = scan_forbidden(cone0)
        if bad:
            self.broken.append(('proof', 'forbidden-construct', '; '.join(bad[:5])))
            return False
        rc, out = coq_make(targets, timeout=self.n(1500, 3000))
        self.build_log = out
        if rc != 0:
            m = re.search(r'File "([^"]+)", line (\d+)', out)
            where = '%s:%s' % (m.group(1), m.group(2)) if m else ' '.join(targets)
            name = failing_lemma(where) if m else None
            tail = '\n'.join(out.strip().splitlines()[-12:])
            self.broken.append(('proof', name or where, tail))
            return False
        # Print Assumptions output: recompile the (tiny) property files
        texts = []
        cone = []
        for target in targets:
            vfile = target[:-1]
            cone += [f for f in cone_of(vfile) if f not in cone]
            if not vfile.startswith('Properties/'):
                continue
            # output goes to a scratch .vo so the compiled tree is not rewritten; under the build lock
            # so that no concurrent make changes a dependency while this file is being compiled
            tmpdir = os.path.join(self.work, 'pa')
            os.makedirs(tmpdir, exist_ok=True)
            tmpvo = os.path.join(tmpdir, os.path.basename(vfile) + 'o')
            with open(os.path.join(WORK, 'coq.lock'), 'w') as lock:
                fcntl.flock(lock, fcntl.LOCK_EX)
                rc, out = sh(['coqc', '-Q', '.', 'DS', '-o', tmpvo, vfile], timeout=900, cwd=COQ)
            if rc != 0:
                self.broken.append(('proof', vfile, out[-1500:]))
                return False
            texts.append('[%s] %s' % (vfile, out.strip()))
        self.assumptions_text = '\n'.join(texts)
        self.cone_files = sorted(cone)
        ob = 0
        for f in self.cone_files:
            txt = open(os.path.join(COQ, f)).read()
            ob += len(re.findall(r'^\s*(?:Theorem|Lemma|Corollary|Example|Fact|Remark|Proposition)\b',
                                 txt, re.M))
        self.obligations = ob
        self.discharged = ob
        return True

    # -- (C) correspondence ------------------------------------------------------
    def run_cases(self, suite, imports, ctype, okfun, cases, show=None, shard=400, prelude='',
                  timeout=900):
        """cases: list of Coq terms of type `ctype` (inputs together with the implementation's
        outputs); okfun: Coq term of type ctype -> bool that runs the model and compares.
        Returns the list of mismatching indices.  `show` (optional Coq function) is evaluated on
        the first mismatching cases to put the model's output in the replay."""
        t0 = time.time()
        d = os.path.join(self.work, suite)
        os.makedirs(d, exist_ok=True)
        for f in os.listdir(d):
            os.unlink(os.path.join(d, f))
        shards = [cases[i:i + shard] for i in range(0, len(cases), shard)]
        files = []
        for k, sh_cases in enumerate(shards):
            name = 'cases_%s_%d' % (re.sub(r'\W', '_', suite), k)
            body = ['From DS Require Import Base.Prelude.', imports, prelude,
                    'Definition cases : list (%s) := [' % ctype,
                    ';\n'.join(sh_cases), '].',
                    'Definition bad := Eval vm_compute in (mism (%s) cases).' % okfun,
                    'Print bad.']
            path = os.path.join(d, name + '.v')
            with open(path, 'w') as f:
                f.write('\n'.join(body) + '\n')
            files.append(path)

        def one(path):
            return sh('ulimit -s unlimited 2>/dev/null; coqc -Q %s DS -Q %s Cases %s'
                      % (COQ, d, path), timeout=timeout, cwd=d)
        with ThreadPoolExecutor(max_workers=min(NCPU, _mem_limited_jobs(NCPU, 1500000))) as ex:
            results = list(ex.map(one, files))
        # a shard whose coqc was killed for lack of memory (or by the OOM killer) says nothing about the
        # model: evaluate those shards again, one at a time
        for k, (rc, out) in enumerate(results):
            if rc != 0 and (rc in (134, 137, -9, -6) or re.search(
                    r'out of memory|Out of memory|Cannot allocate memory|Killed', out)):
                results[k] = one(files[k])
        mism = []
        errors = []
        for k, (rc, out) in enumerate(results):
            if rc != 0:
                errors.append((k, out[-800:]))
                continue
            m = re.search(r'bad\s*=\s*(.*?)\s*:\s*list nat', out, re.S)
            if not m:
                errors.append((k, out[-800:]))
                continue
            idx = [int(x) for x in re.findall(r'\d+', m.group(1))]
            mism += [k * shard + i for i in idx]
        info = dict(suite=suite, cases=len(cases), mismatches=len(mism), errors=len(errors),
                    wall_s=round(time.time() - t0, 1))
        self.suites.append(info)
        self.evaluations += len(cases)
        print('  corr %-28s cases=%-6d mismatches=%-4d errors=%d  %.1fs'
              % (suite, len(cases), len(mism), len(errors), time.time() - t0), flush=True)
        if errors:
            self.broken.append(('correspondence', suite, 'coqc failed on shard %d: %s' % errors[0]))
        if mism:
            detail = {'first_mismatching_cases': [cases[i] for i in mism[:3]], 'indices': mism[:20]}
            if show:
                k = mism[0]
                path = os.path.join(d, 'show.v')
                with open(path, 'w') as f:
                    f.write('\n'.join(['From DS Require Import Base.Prelude.', imports, prelude,
                                       'Eval vm_compute in (%s (%s)).' % (show, cases[k])]) + '\n')
                rc, out = sh('coqc -Q %s DS %s' % (COQ, path), timeout=300, cwd=d)
                detail['model_output_first'] = out.strip()[-1500:]
            self.broken.append(('correspondence', suite, detail))
        return mism

    # -- (D) oracle on the implementation -------------------------------------------
    def fail(self, klass, what, witness):
        """a concrete input on which the property fails on the implementation.
        klass: class name used to match known findings."""
        self.failures.append(dict(klass=klass, what=what, witness=witness))

    # -- verdict ------------------------------------------------------------------------
    def finish(self):
        known = load_known()
        mine = [k for k in known if k['property'] == self.pid]
        unlisted = []
        listed = {}
        for f in self.failures:
            hit = None
            for k in mine:
                if k['klass'] == f['klass']:
                    hit = k
                    break
            if hit:
                listed.setdefault(hit['klass'], (hit, f))
            else:
                unlisted.append(f)
        rc = 0
        lines = []
        for klass, (k, f) in sorted(listed.items()):
            lines.append('KNOWN-FINDING: property=%s %s %s' % (self.pid, klass, k['what']))
        # known findings whose witness no longer fails are simply not printed
        if unlisted:
            f = unlisted[0]
            path = self.write_replay(dict(kind='failing-input', **f, others=len(unlisted) - 1,
                                          broken=[b[:2] for b in self.broken]))
            lines.append('VIOLATION property=%s replay=%s' % (self.pid, path))
            rc = 1
        elif self.broken:
            b = self.broken[0]
            path = self.write_replay(dict(kind='no-longer-checks', what=b[0], name=b[1],
                                          detail=b[2], all_broken=[x[:2] for x in self.broken]))
            lines.append('VIOLATION property=%s replay=%s no-failing-input-found'
                         % (self.pid, path))
            rc = 1
        self.write_evidence(violations=len(unlisted) + (1 if (self.broken and not unlisted) else 0),
                            known=[k for k in listed])
        for ln in lines:
            print(ln, flush=True)
        print('%s %s tier=%s seed=%d wall=%.1fs' % (self.pid, 'OK' if rc == 0 else 'FAILED',
                                                   self.tier, self.seed, time.time() - self.t0),
              flush=True)
        return rc

    def write_replay(self, obj):
        obj = dict(property=self.pid, seed=self.seed, tier=self.tier, repo=REPO, **obj)
        txt = json.dumps(obj, indent=1, default=repr, sort_keys=True)
        h = hashlib.md5(txt.encode()).hexdigest()[:10]
        path = os.path.join(VERIF, 'replays', '%s-%s.json' % (self.pid, h))
        os.makedirs(os.path.dirname(path), exist_ok=True)
        with open(path, 'w') as f:
            f.write(txt + '\n')
        return path

    def write_evidence(self, violations, known):
        meta = self.meta
        tb = [
            'Coq 8.16.1 kernel (coqc, vm_compute; no native_compute)',
            'Print Assumptions of the property theorems (this run): '
            + (re.sub(r'\s+', ' ', self.assumptions_text)[:3000] or 'n/a'),
            'correspondence harness /verif/props/%s.py + /verif/vlib (case generators, '
            'observables, fakes)' % self.pid.lower(),
        ] + list(meta.get('trusted', []))
        cov = dict(
            obligations=self.obligations,
            discharged=self.discharged if not any(b[0] == 'proof' for b in self.broken) else 0,
            checker_cmd='cd /verif/coq && make ' + ' '.join(self.coq_targets()),
            parts=[p.PART.get('name') for p in self.parts],
            trusted_base=tb,
            evaluations=self.evaluations,
            distinct_nontrivial=len(self.nontrivial),
            rule=meta.get('rule', ''),
            samples=self.samples or ['(none)'],
            traces_validated_against_impl=sum(s['cases'] for s in self.suites),
            correspondence_suites=self.suites,
            input_distribution=self.histogram,
            oracle=self.oracle_stats,
            cone_files=self.cone_files,
            broken=[[b[0], str(b[1])] for b in self.broken],
            known_findings_reproduced=known,
            partial=meta.get('partial'),
            notes=self.notes,
        )
        ev = dict(property_id=self.pid, tier=self.tier, seed=self.seed, level='proof',
                  coverage=cov, assumptions=list(meta.get('assumptions', [])),
                  wall_s=round(time.time() - self.t0, 2), violations=violations)
        path = os.path.join(VERIF, 'evidence', '%s.json' % self.pid)
        os.makedirs(os.path.dirname(path), exist_ok=True)
        with open(path, 'w') as f:
            json.dump(ev, f, indent=1, default=repr, sort_keys=True)
            f.write('\n')


# ---------------------------------------------------------------------------
# Coq build

def coq_project():
    """(re)write _CoqProject and Makefile from the files present."""
    files = []
    for root, dirs, names in os.walk(COQ):
        dirs[:] = sorted(d for d in dirs if not d.startswith('.'))
        for n in sorted(names):
            if n.endswith('.v'):
                files.append(os.path.relpath(os.path.join(root, n), COQ))
    text = '-Q . DS\n-arg -w -arg -notation-overridden,-deprecated\n' + '\n'.join(files) + '\n'
    changed = write_if_changed(os.path.join(COQ, '_CoqProject'), text)
    if changed or not os.path.exists(os.path.join(COQ, 'Makefile')):
        rc, out = sh('coq_makefile -f _CoqProject -o Makefile', timeout=120, cwd=COQ)
        if rc != 0:
            raise RuntimeError('coq_makefile failed: ' + out)


def coq_make(targets, timeout=1500, jobs=NCPU):
    os.makedirs(WORK, exist_ok=True)
    with open(os.path.join(WORK, 'coq.lock'), 'w') as lock:
        fcntl.flock(lock, fcntl.LOCK_EX)
        coq_project()
        jobs = min(jobs, _mem_limited_jobs(jobs))
        rc, out = sh('make -j%d %s' % (jobs, ' '.join(targets)), timeout=timeout, cwd=COQ)
        # an out-of-memory abort of a compilation is a property of the machine, not of a proof: rebuild what
        # is missing with less parallelism before anyone draws a conclusion from the failure
        tries = 0
        while rc != 0 and jobs > 1 and tries < 3 and re.search(
                r'out of memory|Out of memory|Cannot allocate memory|Error 134|Error 137|Killed|Stack overflow', out):
            jobs = max(1, jobs // 4)
            tries += 1
            rc, out2 = sh('make -j%d %s' % (jobs, ' '.join(targets)), timeout=timeout, cwd=COQ)
            out = out + '\n[retry with -j%d after an out-of-memory abort]\n' % jobs + out2
        return rc, out


def cone_of(vfile):
    """transitive DS.* dependencies of a .v file (paths relative to coq/)"""
    seen = []
    todo = [vfile]
    while todo:
        f = todo.pop()
        if f in seen or not os.path.exists(os.path.join(COQ, f)):
            continue
        seen.append(f)
        txt = open(os.path.join(COQ, f)).read()
        for m in re.finditer(r'From\s+DS\s+Require\s+(?:Import|Export)\s+((?:[\w.]+[ \t]+)*[\w.]+?)\.(?:\s|$)',
                             txt):
            for mod in m.group(1).split():
                todo.append(mod.replace('.', '/') + '.v')
    return sorted(seen)


def failing_lemma(where):
    """name of the lemma enclosing file:line"""
    try:
        path, line = where.rsplit(':', 1)
        path = path[2:] if path.startswith('./') else path
        lines = open(os.path.join(COQ, path)).read().splitlines()[:int(line)]
        for ln in reversed(lines):
            m = re.match(r'\s*(?:Theorem|Lemma|Corollary|Example|Fact|Remark|Proposition|Definition)\s+(\w+)',
                         ln)
            if m:
                return '%s (%s)' % (m.group(1), where)
    except Exception:
        pass
    return where


def scan_forbidden(files):
    """forbidden constructs in the given .v files (paths relative to coq/): the dependency cone of
    the property being checked"""
    bad = []
    for rel in files:
        if True:
            if True:
                p = os.path.join(COQ, rel)
                txt = re.sub(r'\(\*.*?\*\)', '', open(p).read(), flags=re.S)
                depth = 0
                for i, ln in enumerate(txt.splitlines(), 1):
                    if FORBIDDEN.search(ln):
                        bad.append('%s:%d: %s' % (os.path.relpath(p, COQ), i, ln.strip()[:80]))
                    # a Variable / Hypothesis / Context outside a Section declares an axiom
                    if re.match(r'\s*(Section|Module)\s+\w+', ln) and ':=' not in ln:
                        depth += 1
                    elif re.match(r'\s*End\s+\w+\s*\.', ln) and depth > 0:
                        depth -= 1
                    elif re.match(r'\s*(Variables?|Hypothes[ie]s|Context)\b', ln) and depth == 0:
                        bad.append('%s:%d: %s (outside a Section)'
                                   % (os.path.relpath(p, COQ), i, ln.strip()[:60]))
    return bad


# ---------------------------------------------------------------------------
# known findings

def load_known():
    """lines of known_findings.txt:
         KNOWN property=Cxx class=<klass> :: <what fails> :: <json witness>
         fixed: property=Cxx <commit> <what failed>        (suppresses nothing)
    """
    out = []
    files = [KNOWN] if os.path.exists(KNOWN) else []
    kd = os.path.join(VERIF, 'known')      # per-property fragments (merged into KNOWN at integration)
    if os.path.isdir(kd):
        files += [os.path.join(kd, f) for f in sorted(os.listdir(kd)) if f.endswith('.txt')]
    lines = []
    for fn in files:
        lines += open(fn).read().splitlines()
    for ln in lines:
        ln = ln.strip()
        if not ln.startswith('KNOWN '):
            continue
        head, what, wit = [x.strip() for x in ln.split(' :: ', 2)]
        m = re.match(r'KNOWN property=(\S+) class=(\S+)', head)
        out.append(dict(property=m.group(1), klass=m.group(2), what=what, witness=wit))
    return out


# ---------------------------------------------------------------------------

def main(argv):
    import argparse
    import importlib
    ap = argparse.ArgumentParser()
    ap.add_argument('prop')
    ap.add_argument('--tier', default=os.environ.get('VERIF_TIER') or 'quick',
                    choices=['quick', 'thorough'])
    ap.add_argument('--replay')
    ap.add_argument('--skip-coq', action='store_true', help='development only')
    a = ap.parse_args(argv)
    seed = int(os.environ.get('VERIF_SEED') or 20261001)
    os.environ.setdefault('PYTHONHASHSEED', '0')
    use_repo()
    sys.path.insert(0, VERIF)
    mod = importlib.import_module('props.%s' % a.prop.lower())
    parts = load_parts(a.prop.lower())
    ctx = Ctx(mod, a.tier, seed, parts)
    if parts:
        print('  parts: ' + ' '.join(p.PART['name'] for p in parts), flush=True)
    print('== %s (%s) tier=%s seed=%d repo=%s' % (ctx.pid, mod.META['title'], a.tier, seed, REPO),
          flush=True)
    if a.replay:
        obj = json.load(open(a.replay))
        if obj.get('kind') != 'failing-input':
            print('replay file records a proof/correspondence that no longer checks; '
                  're-running the whole check')
        else:
            still = False
            for m in ctx.modules():
                if hasattr(m, 'replay'):
                    still = bool(m.replay(ctx, obj)) or still
            print('replay: property %s on this input' % ('FAILS' if still else 'holds'))
            return 1 if still else 0
    ctx.run_gen()
    if not a.skip_coq:
        ok = ctx.coq_build()
        print('  coq: %s (%d obligations in %d files)'
              % ('ok' if ok else 'BROKEN', ctx.obligations, len(ctx.cone_files)), flush=True)
    if not any(b[0] == 'proof' and b[1] == 'forbidden-construct' for b in ctx.broken):
        for m in ctx.modules():
            if not hasattr(m, 'correspondence'):
                continue
            try:
                m.correspondence(ctx)
            except Exception as ex:
                import traceback
                ctx.broken.append(('correspondence', 'harness %s' % m.__name__,
                                   traceback.format_exc()[-1500:]))
    for m in ctx.modules():
        if not hasattr(m, 'oracle'):
            continue
        try:
            m.oracle(ctx)
        except Exception as ex:
            import traceback
            ctx.broken.append(('oracle', 'harness %s' % m.__name__, traceback.format_exc()[-1500:]))
    return ctx.finish()


def load_parts(prop):
    """props/parts/<prop>_*.py with PART['ready'] true: per-simulator parts of a cross-cutting
    property (C02, C03, C04, C05, C06, C07, C10)"""
    import importlib
    d = os.path.join(VERIF, 'props', 'parts')
    out = []
    if os.path.isdir(d):
        for f in sorted(os.listdir(d)):
            if f.startswith(prop + '_') and f.endswith('.py'):
                m = importlib.import_module('props.parts.' + f[:-3])
                if m.PART.get('ready'):
                    out.append(m)
    return out
