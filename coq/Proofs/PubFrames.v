(* C08 -- which frames sit in the clients' queues: at most one, never newer than the last
   update_status, the newest one for every client served in the running publication; frames are
   delivered to a client in strictly increasing order. *)
From Coq Require Import Sorting.Sorted.
From DS Require Import Base.Prelude Model.PubModel Proofs.PubInv Proofs.PubProofs.

Record InvF (s : state) : Prop := {
  f_le : forall c f, In f (mbox s c) -> f <= cur s;
  f_got_le : forall c g, In g (got s c) -> g <= cur s;
  (* clients not yet served in the running publication only hold / have read older frames *)
  f_todo_lt : pubphase (pc s) = true -> forall c, In c (todo s) ->
      (forall f, In f (mbox s c) -> f < cur s) /\ (forall g, In g (got s c) -> g < cur s);
  f_order : forall c f g, In f (mbox s c) -> In g (got s c) -> g < f;
  f_sorted : forall c, StronglySorted Z.gt (got s c);
  (* clients already served in the running publication hold the newest frame, or have read it *)
  f_served : pubphase (pc s) = true -> forall pre, subs s = pre ++ todo s -> forall c, In c pre ->
      mbox s c = [cur s] \/ (mbox s c = [] /\ hd_error (got s c) = Some (cur s))
}.

Lemma invF_init : InvF init.
Proof.
  constructor; cbn; try (intros; discriminate); try (intros; contradiction).
  intros c. constructor.
Qed.

Lemma len1_tail {A} (f : A) m : (length (f :: m) <= 1)%nat -> m = [].
Proof. destruct m; cbn; [reflexivity|lia]. Qed.

Lemma todo_split s c rest : Inv s -> pubphase (pc s) = true -> todo s = c :: rest ->
  exists pre, subs s = pre ++ c :: rest /\ ~ In c pre /\ ~ In c rest.
Proof.
  intros I Hpc Ht. destruct (i_todo s I Hpc) as [_ [pre Hpre]]. rewrite Ht in Hpre.
  exists pre. split; [exact Hpre|].
  pose proof (NoDup_app_r _ _ (i_nd_sub s I)) as Hnd. rewrite Hpre in Hnd.
  apply NoDup_remove_2 in Hnd. rewrite in_app_iff in Hnd. tauto.
Qed.

Lemma invF_client s l s' e : Inv s -> InvF s -> client_step s l = Some (s', e) -> InvF s'.
Proof.
  intros I F H. destruct l as [c|c|c|]; cbn in H; try discriminate.
  - destruct (phase_of s c); try discriminate. injection H as <- <-.
    constructor; cbn; apply F.
  - destruct (phase_of s c) eqn:Hp; try discriminate.
    destruct (mbox s c) as [|f m] eqn:Hm; injection H as <- <-; [exact F|].
    assert (Hm0 : m = []).
    { apply (len1_tail f). rewrite <- Hm. apply (i_len s I). }
    subst m.
    assert (Hf : forall g, In g (got s c) -> g < f).
    { intros g Hg. apply (f_order s F c f g); [rewrite Hm; left; reflexivity|exact Hg]. }
    constructor; cbn.
    + intros x f'. destruct (Z.eq_dec x c) as [->|Hn]; [rewrite upd_same; intros []|].
      rewrite upd_other by exact Hn. apply (f_le s F).
    + intros x g. destruct (Z.eq_dec x c) as [->|Hn].
      * rewrite upd_same. intros [<-|Hg]; [apply (f_le s F c); rewrite Hm; left; reflexivity|].
        apply (f_got_le s F c g Hg).
      * rewrite upd_other by exact Hn. apply (f_got_le s F).
    + intros Hpc x Hx. destruct (f_todo_lt s F Hpc x Hx) as [H1 H2].
      destruct (Z.eq_dec x c) as [->|Hn].
      * rewrite !upd_same. split; [intros f' []|].
        intros g [<-|Hg]; [apply H1; rewrite Hm; left; reflexivity|apply H2; exact Hg].
      * rewrite !upd_other by exact Hn. split; assumption.
    + intros x f' g. destruct (Z.eq_dec x c) as [->|Hn]; [rewrite upd_same; intros []|].
      rewrite !upd_other by exact Hn. apply (f_order s F).
    + intros x. destruct (Z.eq_dec x c) as [->|Hn].
      * rewrite upd_same. constructor; [apply (f_sorted s F)|].
        apply Forall_forall. intros g Hg. specialize (Hf g Hg). lia.
      * rewrite upd_other by exact Hn. apply (f_sorted s F).
    + intros Hpc pre Hpre x Hx. destruct (f_served s F Hpc pre Hpre x Hx) as [H1|[H1 H2]].
      * destruct (Z.eq_dec x c) as [->|Hn].
        -- rewrite !upd_same. right. split; [reflexivity|]. rewrite Hm in H1. injection H1 as ->. reflexivity.
        -- rewrite !upd_other by exact Hn. left; exact H1.
      * destruct (Z.eq_dec x c) as [->|Hn]; [congruence|].
        rewrite !upd_other by exact Hn. right. split; assumption.
  - destruct (phase_of s c); try discriminate. injection H as <- <-.
    constructor; cbn; apply F.
Qed.

(* the start of an iteration's second half: new frame number, nobody served yet *)
Lemma invF_after_update cf s l : InvF s -> pubphase (pc s) = false -> InvF (after_update cf s l).
Proof.
  intros F Hpc. unfold after_update, end_iter, die.
  destruct (period cf =? 0).
  { constructor; cbn; try apply F; rewrite Hpc; intros; discriminate. }
  destruct (counter s mod period cf =? 0).
  - assert (Hle : forall c f, In f (mbox s c) -> f <= cur s + 1)
      by (intros c f Hf; pose proof (f_le s F c f Hf); lia).
    assert (Hgle : forall c g, In g (got s c) -> g <= cur s + 1)
      by (intros c g Hg; pose proof (f_got_le s F c g Hg); lia).
    destruct l as [|c1 r1].
    + constructor; cbn; try apply F; try assumption; intros; discriminate.
    + constructor; cbn; try apply F; try assumption.
      * intros _ c _. split; [intros f Hf; pose proof (f_le s F c f Hf)|
                              intros g Hg; pose proof (f_got_le s F c g Hg)]; lia.
      * intros _ pre Hpre c Hc. exfalso.
        assert (Hl : length (c1 :: r1) = length (pre ++ c1 :: r1)) by (rewrite <- Hpre; reflexivity).
        rewrite app_length in Hl. destruct pre; [destruct Hc|cbn in Hl; lia].
  - constructor; cbn; try apply F; intros; discriminate.
Qed.

Lemma invF_pub cf s : Inv s -> InvF s -> period cf <> 0 -> InvF (fst (pub_step cf s)).
Proof.
  intros I F Hper. unfold pub_step. rewrite (i_stat s I).
  destruct (pc s) eqn:Hpc.
  - cbn. constructor; cbn; try apply F; intros; discriminate.
  - destruct (unsubq s); cbn; constructor; cbn; try apply F; intros; discriminate.
  - destruct (subq s) eqn:Hq.
    + destruct (inv_after_update cf s I Hpc Hq Hper) as (subs' & -> & _). cbn [fst].
      apply invF_after_update; [exact F|rewrite Hpc; reflexivity].
    + cbn. constructor; cbn; try apply F; intros; discriminate.
  - (* PClear *)
    assert (Hpp : pubphase (pc s) = true) by (rewrite Hpc; reflexivity).
    destruct (i_todo s I Hpp) as [Hne _].
    unfold pub_publish. destruct (todo s) as [|c rest] eqn:Ht; [congruence|]. rewrite Hpc.
    destruct (todo_split s c rest I Hpp Ht) as (pre0 & Hpre0 & Hcpre & Hcrest).
    destruct (mbox s c) as [|f m] eqn:Hm; cbn.
    + constructor; cbn; try apply F.
      * intros _ x Hx. apply (f_todo_lt s F Hpp). rewrite Ht. exact Hx.
      * intros _ pre Hpre x Hx. apply (f_served s F Hpp pre); [rewrite Ht; exact Hpre|exact Hx].
    + assert (Hsub : forall x f', In f' (upd (mbox s) c m x) -> In f' (mbox s x)).
      { intros x f'. destruct (Z.eq_dec x c) as [->|Hn].
        - rewrite upd_same, Hm. intros Hi. right; exact Hi.
        - rewrite upd_other by exact Hn. auto. }
      constructor; cbn; try apply F.
      * intros x f' Hf. apply (f_le s F x). apply Hsub; exact Hf.
      * intros _ x Hx. assert (Hx' : In x (todo s)) by (rewrite Ht; exact Hx).
        destruct (f_todo_lt s F Hpp x Hx') as [H1 H2].
        split; [|exact H2]. intros f' Hf. apply H1. apply Hsub; exact Hf.
      * intros x f' g Hf. apply (f_order s F x). apply Hsub; exact Hf.
      * intros _ pre Hpre x Hx.
        assert (pre = pre0) by (eapply app_inv_tail; rewrite <- Hpre0; symmetry; exact Hpre).
        subst pre. assert (Hn : x <> c) by (intros ->; contradiction).
        rewrite upd_other by exact Hn. apply (f_served s F Hpp pre0); [rewrite Ht; exact Hpre0|exact Hx].
  - (* PPut *)
    assert (Hpp : pubphase (pc s) = true) by (rewrite Hpc; reflexivity).
    destruct (i_todo s I Hpp) as [Hne _].
    unfold pub_publish. destruct (todo s) as [|c rest] eqn:Ht; [congruence|]. rewrite Hpc.
    destruct (todo_split s c rest I Hpp Ht) as (pre0 & Hpre0 & Hcpre & Hcrest).
    pose proof (i_put s I Hpc c rest Ht) as Hm. rewrite Hm.
    replace (is_full cf []) with false
      by (unfold is_full; cbn; destruct (0 <? cap cf) eqn:E; cbn; [symmetry; apply Z.leb_gt; lia|reflexivity]).
    cbn [fst app].
    assert (Hc_todo : In c (todo s)) by (rewrite Ht; left; reflexivity).
    destruct (f_todo_lt s F Hpp c Hc_todo) as [_ Hgot_c].
    assert (Hle' : forall x f, In f (upd (mbox s) c [cur s] x) -> f <= cur s).
    { intros x f. destruct (Z.eq_dec x c) as [->|Hn].
      - rewrite upd_same. intros [<-|[]]. lia.
      - rewrite upd_other by exact Hn. apply (f_le s F). }
    assert (Hord' : forall x f g, In f (upd (mbox s) c [cur s] x) -> In g (got s x) -> g < f).
    { intros x f g. destruct (Z.eq_dec x c) as [->|Hn].
      - rewrite upd_same. intros [<-|[]] Hg. apply Hgot_c; exact Hg.
      - rewrite upd_other by exact Hn. apply (f_order s F). }
    destruct rest as [|c2 r2] eqn:Hrest.
    + unfold end_iter. constructor; cbn; try apply F; try assumption; intros; discriminate.
    + constructor; cbn; try apply F; try assumption.
      * intros _ x Hx. assert (Hn : x <> c) by (intros ->; contradiction).
        rewrite upd_other by exact Hn. apply (f_todo_lt s F Hpp). rewrite Ht. right; exact Hx.
      * intros _ pre Hpre x Hx.
        assert (pre = pre0 ++ [c]).
        { eapply app_inv_tail. rewrite <- app_assoc. cbn. rewrite <- Hpre0. symmetry; exact Hpre. }
        subst pre. apply in_app_or in Hx. destruct Hx as [Hx|[<-|[]]].
        -- assert (Hn : x <> c) by (intros ->; contradiction).
           rewrite upd_other by exact Hn.
           apply (f_served s F Hpp pre0); [rewrite Ht; exact Hpre0|exact Hx].
        -- rewrite upd_same. left; reflexivity.
Qed.

Lemma invF_step cf s l s' : period cf <> 0 -> Inv s -> InvF s -> step cf s l = Some s' -> InvF s'.
Proof.
  intros Hper I F H. unfold step in H.
  destruct (step_ev cf s l) as [[s1 e]|] eqn:E; [|discriminate]. injection H as <-.
  destruct l; cbn [step_ev] in E; try (eapply invF_client; eauto; fail).
  injection E as E. pose proof (invF_pub cf s I F Hper) as H. rewrite E in H. exact H.
Qed.

Lemma invF_reachable cf s : period cf <> 0 -> reachable cf s -> InvF s.
Proof.
  intros Hper R. induction R as [|s l s' R IH Hs]; [exact invF_init|].
  eapply invF_step; eauto. eapply inv_reachable; eauto.
Qed.

(* ------------------------------------------------------------------------------------------ *)
(* theorems *)

(* never two frames pending, never a frame from the future *)
Lemma at_most_one_pending cf s c : period cf <> 0 -> reachable cf s ->
  (length (mbox s c) <= 1)%nat /\ forall f, In f (mbox s c) -> f <= cur s.
Proof.
  intros Hper R. split; [apply i_len; eapply inv_reachable; eauto|].
  apply f_le. eapply invF_reachable; eauto.
Qed.

(* the put of a publication leaves exactly the newest frame in the client's queue, whatever was in
   it before the publication (a stale frame is removed, not queued behind) *)
Lemma put_newest cf s c r : period cf <> 0 -> reachable cf s -> pc s = PPut -> todo s = c :: r ->
  snd (pub_step cf s) = EPut c (cur s) /\ mbox (fst (pub_step cf s)) c = [cur s] /\
  stat (fst (pub_step cf s)) = Running.
Proof.
  intros Hper R Hpc Ht. pose proof (inv_reachable cf s Hper R) as I.
  unfold pub_step. rewrite (i_stat s I), Hpc. unfold pub_publish. rewrite Ht, Hpc.
  rewrite (i_put s I Hpc c r Ht).
  replace (is_full cf []) with false
    by (unfold is_full; cbn; destruct (0 <? cap cf) eqn:E; cbn; [symmetry; apply Z.leb_gt; lia|reflexivity]).
  cbn [fst snd app]. split; [reflexivity|].
  destruct r; cbn; rewrite upd_same; split; try reflexivity; apply (i_stat s I).
Qed.

(* every client with the publisher at PClear/PPut for it is a subscriber, and the loop visits all *)
Lemma publication_serves_all cf s : period cf <> 0 -> reachable cf s -> pubphase (pc s) = true ->
  forall c, In c (subs s) ->
    In c (todo s) \/ mbox s c = [cur s] \/ (mbox s c = [] /\ hd_error (got s c) = Some (cur s)).
Proof.
  intros Hper R Hpp c Hc. pose proof (inv_reachable cf s Hper R) as I.
  pose proof (invF_reachable cf s Hper R) as F.
  destruct (i_todo s I Hpp) as [_ [pre Hpre]]. rewrite Hpre in Hc. apply in_app_or in Hc.
  destruct Hc as [Hc|Hc]; [right; apply (f_served s F Hpp pre Hpre c Hc)|left; exact Hc].
Qed.

(* at the end of a publication (the step that serves the last subscriber) every subscriber has
   exactly one pending frame, the newest -- or has already read that very frame *)
Lemma publication_complete cf s c : period cf <> 0 -> reachable cf s -> pc s = PPut -> todo s = [c] ->
  let s' := fst (pub_step cf s) in
  pc s' = PTop /\ subs s' = subs s /\ cur s' = cur s /\
  forall x, In x (subs s') ->
    mbox s' x = [cur s'] \/ (mbox s' x = [] /\ hd_error (got s' x) = Some (cur s')).
Proof.
  intros Hper R Hpc Ht. pose proof (inv_reachable cf s Hper R) as I.
  pose proof (invF_reachable cf s Hper R) as F.
  assert (Hpp : pubphase (pc s) = true) by (rewrite Hpc; reflexivity).
  destruct (todo_split s c [] I Hpp Ht) as (pre & Hpre & Hcpre & _).
  unfold pub_step. rewrite (i_stat s I), Hpc. unfold pub_publish. rewrite Ht, Hpc.
  rewrite (i_put s I Hpc c [] Ht).
  replace (is_full cf []) with false
    by (unfold is_full; cbn; destruct (0 <? cap cf) eqn:E; cbn; [symmetry; apply Z.leb_gt; lia|reflexivity]).
  cbn. repeat split; try reflexivity.
  intros x Hx. rewrite Hpre in Hx. apply in_app_or in Hx. destruct Hx as [Hx|[<-|[]]].
  - assert (Hn : x <> c) by (intros ->; contradiction).
    rewrite upd_other by exact Hn. apply (f_served s F Hpp pre); [rewrite Ht; exact Hpre|exact Hx].
  - rewrite upd_same. left; reflexivity.
Qed.

(* frames reach a client in strictly increasing order: never a stale frame after a newer one *)
Lemma delivery_increasing cf s c : period cf <> 0 -> reachable cf s -> StronglySorted Z.gt (got s c).
Proof. intros Hper R. apply f_sorted. eapply invF_reachable; eauto. Qed.

(* and what a client reads next is newer than everything it has read *)
Lemma pending_newer_than_read cf s c f g : period cf <> 0 -> reachable cf s ->
  In f (mbox s c) -> In g (got s c) -> g < f.
Proof. intros Hper R. apply f_order. eapply invF_reachable; eauto. Qed.

(* no frame before the subscription *)
Lemma no_frame_before_subscribe cf s c : period cf <> 0 -> reachable cf s ->
  phase_of s c = CInit -> mbox s c = [].
Proof. intros Hper R Hp. apply (i_init s (inv_reachable cf s Hper R) c Hp). Qed.
