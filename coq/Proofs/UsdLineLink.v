(* Link to the active-surface line model of C11 (Model/AslLine.v, tag Asl), which is parametric in
   the semantics of one unit: [usd_sem] is the USD of Model/UsdModel.v seen through Asl's method-call
   interface, and the three facts Asl's theorems take as hypotheses about usd.py are discharged for
   it: the getters are pure, the values they return fit the reply fields under [Inv], and every
   method call preserves [Inv]. *)
From DS Require Import Base.Prelude Base.Bits Model.Utils Model.UsdModel Spec.UsdSpec.
From DS Require Import Proofs.UsdMotion Proofs.UsdInv Proofs.UsdRefine Proofs.UsdHistory.
From DS Require Import Model.AslLine Proofs.AslReplyProofs Proofs.AslLineProofs.

Definition of_mres (u : usd) (m : mres) : usd * uret :=
  match m with MOk u' => (u', RNone) | _ => (u, RNone) end.   (* blocking: excluded under Inv *)
Definition of_opt_usd (u : usd) (o : option usd) : usd * uret :=
  match o with Some u' => (u', RNone) | None => (u, RNone) end.
Definition of_pair (ub : usd * bool) : usd * uret := (fst ub, RBool (snd ub)).

(* USD method named by the command code, applied to already decoded arguments *)
Definition usd_sem (u : usd) (c : ucall) : usd * uret :=
  let code := c_code c in
  match c_args c with
  | [] =>
      if code =? 1 then (soft_reset u, RNone)
      else if code =? 2 then of_mres u (soft_trigger u)
      else if code =? 16 then (u, RList (version u))
      else if code =? 17 then (soft_stop u, RNone)
      else if code =? 18 then (u, RInt (current_position u))
      else if code =? 19 then match get_status u with Some l => (u, RStr l) | None => (u, RNone) end
      else if code =? 20 then (u, RInt (driver_type u))
      else (u, RNone)
  | [AInt z] =>
      if code =? 32 then of_pair (set_min_frequency z u)
      else if code =? 33 then of_pair (set_max_frequency z u)
      else if code =? 34 then (set_slope_delayer z u, RNone)
      else if code =? 35 then (set_reference_position z u, RNone)
      else if code =? 37 then of_opt_usd u (set_io_pins z u)
      else if code =? 38 then of_opt_usd u (set_resolution (Some z) u)
      else if code =? 40 then (set_delay_multiplier z u, RNone)
      else if code =? 41 then of_opt_usd u (set_delayed_execution z u)
      else if code =? 42 then of_opt_usd u (set_stop_io z u)
      else if code =? 43 then of_opt_usd u (set_positioning_io z u)
      else if code =? 44 then of_opt_usd u (set_home_io z u)
      else if code =? 48 then of_pair (set_absolute_position z u)
      else if code =? 49 then of_pair (set_relative_position z u)
      else if code =? 50 then of_pair (rotate z u)
      else if code =? 53 then of_pair (set_velocity z u)
      else (u, RNone)
  | [ANone] => if code =? 38 then of_opt_usd u (set_resolution None u) else (u, RNone)
  | [AInt mode; AInt mult] =>
      if code =? 39 then of_opt_usd u (set_current_reduction mode mult u) else (u, RNone)
  | [AList (p0 :: _)] => if code =? 45 then of_opt_usd u (set_working_mode p0 u) else (u, RNone)
  | _ => (u, RNone)
  end.

Definition usd_delay (u : usd) : Z := delay_multiplier u.

(* ---- the getters are pure ---- *)
Lemma usd_getters_pure drv : getters_pure usd_sem drv.
Proof.
  intros u c _ Hc. unfold usd_sem.
  destruct (c_args c) as [|[z| |l] [|[z'| |l'] [|a3 r]]];
    destruct Hc as [E|[E|[E|[E|[]]]]]; cbv zeta; rewrite <- ?E; cbn [Z.eqb Pos.eqb fst]; try reflexivity;
    try (destruct (get_status u); reflexivity); try (destruct l; reflexivity).
Qed.

(* ---- the values returned by the getters fit the reply fields ---- *)
Lemma decode_getter code ps c k : AslLine.decode code ps = DCall c k -> is_getter k = true ->
  c = mkcall 16 [] /\ k = KVersion \/ c = mkcall 18 [] /\ k = KPosition \/
  c = mkcall 19 [] /\ k = KStatus \/ c = mkcall 20 [] /\ k = KType.
Proof.
  unfold AslLine.decode. intros Hd Hg.
  repeat match type of Hd with
         | context [match ?x with _ => _ end] => destruct x
         end; try discriminate; injection Hd as <- <-; cbn in Hg; try discriminate; tauto.
Qed.

Lemma status_bytes_ok u : Inv u -> bytes (status_bytes u) /\ length (status_bytes u) = 3%nat.
Proof.
  intros H. generalize (inv_iodir u H) (inv_ioval u H) (inv_res u H).
  unfold status_bytes. destruct (io_dir u) as [[d0 d1] d2], (io_val u) as [[v0 v1] v2].
  intros (D0 & D1 & D2) (V0 & V1 & V2) (j & Hj & Hr). rewrite Hr, Z.log2_pow2 by lia.
  split; [|reflexivity]. unfold bit01, flag in *.
  repeat apply Forall_cons; try apply Forall_nil; unfold byte; try lia.
  destruct (running u), (delayed_execution u), (ready u), (full_current u), (auto_resolution u); lia.
Qed.

Lemma usd_ret_ok : usd_ok usd_sem Inv.
Proof.
  intros u code ps c k H Hd.
  destruct (is_getter k) eqn:Hg; [|destruct k; try discriminate Hg; exact I].
  destruct (decode_getter code ps c k Hd Hg) as [[-> ->]|[[-> ->]|[[-> ->]|[-> ->]]]];
    unfold usd_sem; cbn [c_code c_args Z.eqb Pos.eqb snd ret_ok].
  - exists (version u). split; [reflexivity|]. rewrite (inv_ver u H). cbn. lia.
  - exists (current_position u). split; [reflexivity|]. pose proof (inv_pos u H) as Hp.
    unfold pos_ok, min_position, max_position in Hp. lia.
  - rewrite status_refines by exact H. cbn [snd]. exists (status_bytes u). split; [reflexivity|].
    apply status_bytes_ok, H.
  - exists (driver_type u). split; [reflexivity|]. rewrite (inv_drv u H). lia.
Qed.

(* ---- every method call preserves the invariant (any arguments) ---- *)
Lemma digit_01 s i x : digit s i = Some x -> bit01 x.
Proof.
  unfold digit. destruct (nth_error s i) as [b|]; [|discriminate]. cbn. intros [= <-].
  destruct b; [right|left]; reflexivity.
Qed.

Lemma ite01 a b : bit01 b -> bit01 (if a =? 1 then b else 0).
Proof. intros Hb. destruct (a =? 1); [exact Hb|left; reflexivity]. Qed.

Lemma soft_trigger_inv u u' : Inv u -> soft_trigger u = MOk u' -> Inv u'.
Proof.
  intros H. unfold soft_trigger. destruct (ready u) eqn:Hr; [|intros [= <-]; exact H].
  destruct (position_queue u) as [|[np ab] rest] eqn:Hq; [discriminate|]. intros [= <-].
  cbv zeta. destruct u; cbn in *. subst.
  destruct (negb (UsdModel.truthy velocity)), ab, rest; keep_inv H;
    try (split; [discriminate|congruence]); try (split; [reflexivity|discriminate]).
Qed.

Lemma frequency_inv f u : Inv u ->
  Inv (fst (set_min_frequency f u)) /\ Inv (fst (set_max_frequency f u)).
Proof.
  intros H. unfold set_min_frequency, set_max_frequency.
  destruct ((f <? 20) || (10000 <? f)) eqn:E1; cbn [fst]; [auto|].
  destruct (max_frequency u <? f) eqn:E2, (f <? min_frequency u) eqn:E3; cbn [fst]; split;
    try exact H; destruct u; keep_inv H; lia.
Qed.

Lemma set_io_pins_inv p u u' : Inv u -> set_io_pins p u = Some u' -> Inv u'.
Proof.
  intros H. unfold set_io_pins.
  destruct (digit (bstr p) 3) as [d0|] eqn:E0; [|discriminate].
  destruct (digit (bstr p) 7) as [v0|] eqn:E1; [|discriminate].
  destruct (digit (bstr p) 2) as [d1|] eqn:E2; [|discriminate].
  destruct (digit (bstr p) 6) as [v1|] eqn:E3; [|discriminate].
  destruct (digit (bstr p) 1) as [d2|] eqn:E4; [|discriminate].
  destruct (digit (bstr p) 5) as [v2|] eqn:E5; [|discriminate].
  intros [= <-]. apply digit_01 in E0, E1, E2, E3, E4, E5.
  destruct u; keep_inv H; unfold tri01; repeat split; auto using ite01.
Qed.

Lemma set_resolution_inv r u u' : Inv u -> set_resolution r u = Some u' -> Inv u'.
Proof.
  intros H. unfold set_resolution, resolutions_get. destruct r as [k|].
  - destruct ((0 <=? k) && (k <=? 7)) eqn:E; [|discriminate]. cbn [option_map]. intros [= <-].
    destruct u; keep_inv H. exists k. split; [lia|reflexivity].
  - cbn. intros [= <-]. destruct u; keep_inv H. exists 0. split; [lia|reflexivity].
Qed.

Lemma set_current_reduction_inv m d u u' : Inv u -> set_current_reduction m d u = Some u' -> Inv u'.
Proof.
  intros H. unfold set_current_reduction, standby_modes_get.
  destruct (m =? 0); [|destruct (m =? 1); [|destruct (m =? 2); [|destruct (m =? 3); [|discriminate]]]];
    cbn [option_map]; intros [= <-]; destruct u; keep_inv H; lia.
Qed.

Lemma set_delayed_execution_inv p u u' : Inv u -> set_delayed_execution p u = Some u' -> Inv u'.
Proof.
  intros H. unfold set_delayed_execution.
  destruct (nth_error (bstr p) 0); [|discriminate]. destruct (level_enable (bstr p)) as [[lv en]|];
    [|discriminate]. intros [= <-]. destruct u; keep_inv H. split; [discriminate|congruence].
Qed.

Lemma io_setters_inv p u u' : Inv u ->
  (set_stop_io p u = Some u' \/ set_positioning_io p u = Some u' \/ set_home_io p u = Some u') ->
  Inv u'.
Proof.
  intros H. unfold set_stop_io, set_positioning_io, set_home_io.
  destruct (level_enable (bstr p)) as [[lv en]|]; cbn [option_map fst snd];
    intros [E|[E|E]]; try discriminate; injection E as <-; destruct u; keep_inv H.
Qed.

Lemma set_working_mode_inv p u u' : Inv u -> set_working_mode p u = Some u' -> Inv u'.
Proof.
  intros H. unfold set_working_mode. destruct (digit (bstr p) 7) as [k|]; [|discriminate].
  destruct (baud_rates_get k); [|discriminate]. cbn. intros [= <-]. destruct u; keep_inv H.
Qed.

Lemma positioning_inv z u : Inv u ->
  Inv (fst (set_absolute_position z u)) /\ Inv (fst (set_relative_position z u)) /\
  Inv (fst (rotate z u)) /\ Inv (fst (set_velocity z u)).
Proof.
  intros H. unfold set_absolute_position, set_relative_position, rotate, set_velocity.
  destruct (delayed_execution u), (running u),
    (negb (auto_resolution u) && ((Z.abs z <? 10) && negb (z =? 0))); cbn [fst];
    (split; [|split; [|split]]); try exact H; destruct u; keep_inv H;
    try (split; [intros _; destruct position_queue; discriminate|reflexivity]).
Qed.

Lemma usd_inv_kept : inv_kept usd_sem Inv.
Proof.
  intros u c H. unfold usd_sem. cbv zeta.
  destruct (c_args c) as [|[z| |l] [|[z'| |l'] [|a3 r]]]; cbn [fst]; try exact H;
    try (destruct l; exact H).
  - (* no argument *)
    repeat match goal with |- context [if ?x then _ else _] => destruct x end; cbn [fst]; try exact H.
    + apply inv_default, H.
    + unfold of_mres. destruct (soft_trigger u) as [u'| |] eqn:E; cbn [fst]; try exact H.
      exact (soft_trigger_inv u _ H E).
    + unfold soft_stop. destruct u; keep_inv H.
    + destruct (get_status u); exact H.
  - (* one integer *)
    unfold of_pair, of_opt_usd.
    destruct (frequency_inv z u H) as [F1 F2].
    destruct (positioning_inv z u H) as (P1 & P2 & P3 & P4).
    repeat match goal with |- context [if ?x then _ else _] => destruct x end; cbn [fst];
      try exact H; try assumption;
      try (destruct u; keep_inv H; fail);
      match goal with
      | |- context [set_io_pins z u] => destruct (set_io_pins z u) eqn:E; cbn [fst];
                                         [exact (set_io_pins_inv _ u _ H E)|exact H]
      | |- context [set_resolution (Some z) u] =>
          destruct (set_resolution (Some z) u) eqn:E; cbn [fst];
          [exact (set_resolution_inv _ u _ H E)|exact H]
      | |- context [set_delayed_execution z u] =>
          destruct (set_delayed_execution z u) eqn:E; cbn [fst];
          [exact (set_delayed_execution_inv _ u _ H E)|exact H]
      | |- context [set_stop_io z u] =>
          destruct (set_stop_io z u) eqn:E; cbn [fst]; [exact (io_setters_inv z u _ H (or_introl E))|exact H]
      | |- context [set_positioning_io z u] =>
          destruct (set_positioning_io z u) eqn:E; cbn [fst]; [exact (io_setters_inv z u _ H (or_intror (or_introl E)))|exact H]
      | |- context [set_home_io z u] =>
          destruct (set_home_io z u) eqn:E; cbn [fst]; [exact (io_setters_inv z u _ H (or_intror (or_intror E)))|exact H]
      end.
  - (* two integers: set_current_reduction *)
    destruct (c_code c =? 39); cbn [fst]; [|exact H]. unfold of_opt_usd.
    destruct (set_current_reduction z z' u) eqn:E; cbn [fst];
      [exact (set_current_reduction_inv _ _ u _ H E)|exact H].
  - (* None: automatic resolution *)
    destruct (c_code c =? 38); cbn [fst]; [|exact H]. unfold of_opt_usd.
    destruct (set_resolution None u) eqn:E; cbn [fst]; [exact (set_resolution_inv _ u _ H E)|exact H].
  - (* a byte list: set_working_mode *)
    destruct l as [|p0 l]; cbn [fst]; [exact H|]. destruct (c_code c =? 45); cbn [fst]; [|exact H].
    unfold of_opt_usd. destruct (set_working_mode p0 u) eqn:E; cbn [fst];
      [exact (set_working_mode_inv _ u _ H E)|exact H].
Qed.

(* the three hypotheses of the line theorems (C11, C04/C10 active-surface parts), for the USD model *)
Theorem usd_discharges_line_hypotheses :
  usd_ok usd_sem Inv /\ inv_kept usd_sem Inv /\ (forall drv, getters_pure usd_sem drv) /\
  (forall idx, 0 <= idx < 32 -> Inv (usd_init idx)).
Proof.
  split; [exact usd_ret_ok|]. split; [exact usd_inv_kept|]. split; [exact usd_getters_pure|].
  exact inv_init.
Qed.
Print Assumptions usd_discharges_line_hypotheses.
