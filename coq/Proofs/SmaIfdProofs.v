(* IFD: device invariant, specification of one executed line, byte-level C02/C03/C04/C05. *)
From DS Require Import Base.Prelude Base.Bits Model.SmaCommon Model.SmaIfd Proofs.SmaBase Proofs.SmaFramer.

Definition ifd_type (i : Z) : Z :=
  if i =? 0 then 2 else if i =? 1 then 0 else if i =? 2 then 1 else if i =? 3 then 3
  else if i =? 4 then 4 else 5.

Definition board_ok (i : Z) (b : board) : Prop :=
  b_a0 b = i /\ b_a1 b = i /\ b_type b = ifd_type i /\ length (b_att b) = 4%nat /\ 0 <= b_sr b < 256.

Definition ifd_inv (d : ifd_dev) : Prop :=
  length d = 21%nat /\ forall i b, get_board d i = Some b -> board_ok i b.

Lemma ifd_inv0 : ifd_inv ifd_dev0.
Proof.
  split; [reflexivity|]. intros i b H. unfold get_board in H.
  destruct (0 <=? i) eqn:E; [|discriminate].
  assert (Hn : (Z.to_nat i < 21)%nat).
  { change 21%nat with (length ifd_dev0). apply nth_error_Some. rewrite H. discriminate. }
  remember (Z.to_nat i) as n eqn:Hn'. assert (Hi : i = Z.of_nat n) by lia. subst i. clear Hn' E.
  do 21 (destruct n as [|n];
         [cbn in H; injection H as <-; unfold board_ok; cbn; repeat split; try reflexivity; lia|]).
  lia.
Qed.

Lemma get_board_range d i b : get_board d i = Some b -> 0 <= i < Z.of_nat (length d).
Proof.
  unfold get_board. destruct (0 <=? i) eqn:E; [|discriminate]. intros H.
  assert (Z.to_nat i < length d)%nat by (apply nth_error_Some; rewrite H; discriminate). lia.
Qed.

Lemma put_board_some d i b b' : get_board d i = Some b -> exists d', put_board d i b' = Some d'.
Proof.
  intros H. pose proof (get_board_range _ _ _ H) as Hr. unfold put_board.
  replace (0 <=? i) with true by lia. apply set_nth_some. lia.
Qed.

Lemma get_put_same d i b d' : put_board d i b = Some d' -> get_board d' i = Some b.
Proof.
  unfold put_board, get_board. destruct (0 <=? i); [|discriminate]. apply set_nth_eq.
Qed.

Lemma get_put_other d i b d' j : put_board d i b = Some d' -> j <> i -> get_board d' j = get_board d j.
Proof.
  unfold put_board, get_board. destruct (0 <=? i) eqn:Ei; [|discriminate]. intros H Hj.
  destruct (0 <=? j) eqn:Ej; [|reflexivity]. eapply set_nth_neq; eauto. lia.
Qed.

Lemma put_board_inv d i b d' : ifd_inv d -> put_board d i b = Some d' -> board_ok i b -> ifd_inv d'.
Proof.
  intros [Hl Hb] Hp Hok. split.
  - unfold put_board in Hp. destruct (0 <=? i); [|discriminate].
    rewrite (set_nth_length _ _ _ _ Hp). exact Hl.
  - intros j bj Hj. destruct (Z.eq_dec j i) as [->|Hne].
    + rewrite (get_put_same _ _ _ _ Hp) in Hj. injection Hj as <-. exact Hok.
    + rewrite (get_put_other _ _ _ _ _ Hp Hne) in Hj. apply Hb. exact Hj.
Qed.

(* ---- status register bit fields, by exhaustive sweep over the 256 register values ---- *)
Definition sr_bw (sr : Z) : Z := (sr / 8) mod 4.      (* sr[3:5] *)
Definition sr_in (sr : Z) : Z := (sr / 2) mod 4.      (* sr[5:7] *)
Definition sr_en (sr : Z) : Z := (sr / 8) mod 2.      (* sr[4]   *)

Definition in256 (x : Z) : bool := (0 <=? x) && (x <? 256).

Lemma upd_bw_facts sr p : 0 <= sr < 256 -> 0 <= p < 4 ->
  0 <= upd_bw sr p < 256 /\ sr_bw (upd_bw sr p) = p /\ sr_in (upd_bw sr p) = sr_in sr.
Proof.
  intros Hs Hp.
  pose proof (range_sweep2 (fun sr p => in256 (upd_bw sr p) && (sr_bw (upd_bw sr p) =? p)
                                        && (sr_in (upd_bw sr p) =? sr_in sr)) 256 4
                ltac:(vm_compute; reflexivity) sr p ltac:(lia) ltac:(lia)) as H.
  cbv beta in H. unfold in256 in H. lia.
Qed.

Lemma upd_in_facts sr p : 0 <= sr < 256 -> 0 <= p < 2 ->
  0 <= upd_in sr p < 256 /\ sr_in (upd_in sr p) = p + 1 /\ sr_bw (upd_in sr p) = sr_bw sr.
Proof.
  intros Hs Hp.
  pose proof (range_sweep2 (fun sr p => in256 (upd_in sr p) && (sr_in (upd_in sr p) =? p + 1)
                                        && (sr_bw (upd_in sr p) =? sr_bw sr)) 256 2
                ltac:(vm_compute; reflexivity) sr p ltac:(lia) ltac:(lia)) as H.
  cbv beta in H. unfold in256 in H. lia.
Qed.

Lemma upd_en_facts sr e : 0 <= sr < 256 -> 0 <= e < 2 ->
  0 <= upd_en sr e < 256 /\ sr_en (upd_en sr e) = e.
Proof.
  intros Hs He.
  pose proof (range_sweep2 (fun sr e => in256 (upd_en sr e) && (sr_en (upd_en sr e) =? e)) 256 2
                ltac:(vm_compute; reflexivity) sr e ltac:(lia) ltac:(lia)) as H.
  cbv beta in H. unfold in256 in H. lia.
Qed.

(* ---- what one executed line can do to the addressed board ---- *)
Inductive board_upd : ifd_cmd -> outcome -> board -> board -> Prop :=
| bu_bw brd p : 0 <= p < 4 ->
    board_upd IfB (OReply ifd_ack) brd (with_sr brd (upd_bw (b_sr brd) p))
| bu_in brd p : 0 <= p < 2 ->
    board_upd IfI (OReply ifd_ack) brd (with_sr brd (upd_in (b_sr brd) p))
| bu_lo brd r l e : 0 <= e < 2 -> num_eq_int r 10 = true ->
    board_upd IfS (OReply ifd_ack) brd (with_lo_en (with_reflo brd r l) (upd_en (b_sr brd) e) e)
| bu_lo_partial brd r l :          (* the float-enable defect: ValueError after a partial store *)
    board_upd IfS OValueError brd (with_reflo brd r l)
| bu_att brd c v a : 0 <= c < 4 -> set_nth (Z.to_nat c) v (b_att brd) = Some a ->
    board_upd IfA (OReply ifd_ack) brd (with_att brd a).

Lemma board_upd_ok c o i brd brd' : board_ok i brd -> board_upd c o brd brd' -> board_ok i brd'.
Proof.
  intros (H0 & H1 & H2 & H3 & H4) Hu. destruct Hu; unfold board_ok; cbn; repeat split; auto; try lia.
  - apply (upd_bw_facts (b_sr brd) p); auto.
  - apply (upd_bw_facts (b_sr brd) p); auto.
  - apply (upd_in_facts (b_sr brd) p); auto.
  - apply (upd_in_facts (b_sr brd) p); auto.
  - apply (upd_en_facts (b_sr brd) e); auto.
  - apply (upd_en_facts (b_sr brd) e); auto.
  - erewrite set_nth_length; eauto.
Qed.

Definition ifd_wf_reply (r : list Z) : Prop :=
  r = ifd_ack \/ r = ifd_nak \/ exists i brd, board_ok i brd /\ r = ifd_status_reply brd.

(* the 4th parameter of an S command went through float() *)
Definition float_enable (params : list num) : Prop :=
  exists p0 r l f, params = [p0; r; l; NFlt f].

Definition hpost (c : ifd_cmd) (d : ifd_dev) (i : Z) (brd : board) (params : list num)
           (d' : ifd_dev) (o : outcome) : Prop :=
  (d' = d /\ o <> OReply ifd_ack /\ o <> OTrue /\ o <> OFalse /\
   (forall r, o = OReply r -> r = ifd_nak \/ (c = IfQ /\ r = ifd_status_reply brd))) \/
  (exists brd', put_board d i brd' = Some d' /\ board_upd c o brd brd' /\
                (o = OValueError -> float_enable params)).

Ltac same_case := solve [left; repeat split; try discriminate; try (intros ? Hr_; injection Hr_ as <-; auto; fail)].

Lemma ifd_store_post c d i brd params brd' o d'' o'' :
  get_board d i = Some brd -> ifd_store d i brd' o = (d'', o'') ->
  board_upd c o brd brd' -> (o = OValueError -> float_enable params) ->
  hpost c d i brd params d'' o''.
Proof.
  intros Hg Hs Hu Hf. unfold ifd_store in Hs.
  destruct (put_board_some d i brd brd' Hg) as [d1 Hp]. rewrite Hp in Hs. injection Hs as <- <-.
  right. exists brd'. auto.
Qed.

Lemma num_in_range_int n v : num_in_range n v = true -> exists z, num_int v = Some z /\ 0 <= z < n.
Proof. unfold num_in_range. destruct (num_int v) as [z|]; [|discriminate]. intros H. exists z. split; [reflexivity|lia]. Qed.

Lemma num_in01_int v : num_in01 v = true -> exists z, num_int v = Some z /\ 0 <= z < 2.
Proof.
  unfold num_in01, num_eq_int. destruct (num_int v) as [z|]; [|discriminate]. intros H. exists z.
  split; [reflexivity|lia].
Qed.

Lemma ifd_handle_post c d i brd params d' o :
  get_board d i = Some brd -> ifd_handle c d i brd params = (d', o) -> hpost c d i brd params d' o.
Proof.
  intros Hg H. destruct c; cbn [ifd_handle] in H.
  - (* ? *) unfold ifd_get_status in H.
    destruct params as [|p0 [|p1 r]]; injection H as <- <-; try same_case.
    left. split; [reflexivity|]. split.
    { intros Habs. injection Habs as Habs. unfold ifd_status_reply in Habs.
      apply (f_equal (@length Z)) in Habs. rewrite !app_length in Habs. cbn in Habs. lia. }
    split; [discriminate|]. split; [discriminate|].
    intros r Hr. injection Hr as <-. right. auto.
  - (* B *) unfold ifd_set_bandwidth in H.
    destruct params as [|p0 [|bw [|x r]]]; try (injection H as <- <-; same_case).
    destruct (num_in_range 4 bw) eqn:Er; cbn [negb] in H; [|injection H as <- <-; same_case].
    destruct ((b_type brd =? 0) || (b_type brd =? 1)); cbn [negb] in H; [|injection H as <- <-; same_case].
    destruct bw as [p|f]; [|injection H as <- <-; same_case].
    destruct (num_in_range_int _ _ Er) as (z & Ez & Hz). cbn in Ez. injection Ez as <-.
    eapply ifd_store_post; eauto; [constructor; lia|discriminate].
  - (* S *) unfold ifd_set_lo in H.
    destruct params as [|p0 [|rf [|lo [|en [|x r]]]]]; try (injection H as <- <-; same_case).
    destruct (num_eq_int rf 10) eqn:E10; cbn [negb] in H; [|injection H as <- <-; same_case].
    destruct (num_in01 en) eqn:Een; cbn [negb] in H; [|injection H as <- <-; same_case].
    destruct (b_type brd =? 2); cbn [negb] in H; [|injection H as <- <-; same_case].
    destruct en as [e|f].
    + destruct (num_in01_int _ Een) as (z & Ez & Hz). cbn in Ez. injection Ez as <-.
      eapply ifd_store_post; eauto; [constructor; auto|discriminate].
    + eapply ifd_store_post; eauto; [constructor|].
      intros _. exists p0, rf, lo, f. reflexivity.
  - (* A *) unfold ifd_set_att in H.
    destruct params as [|p0 [|ch [|v [|x r]]]]; try (injection H as <- <-; same_case).
    destruct (num_in_range 4 ch) eqn:Er; cbn [negb] in H; [|injection H as <- <-; same_case].
    destruct (num_neg v || num_gt_max v); [injection H as <- <-; same_case|].
    destruct (b_type brd =? 5); cbn [negb] in H; [|injection H as <- <-; same_case].
    destruct ch as [cc|f]; [|injection H as <- <-; same_case].
    destruct (num_in_range_int _ _ Er) as (z & Ez & Hz). cbn in Ez. injection Ez as <-.
    destruct (set_nth (Z.to_nat cc) (num_x2 v) (b_att brd)) as [a|] eqn:Ea;
      [|injection H as <- <-; same_case].
    eapply ifd_store_post; eauto; [econstructor; eauto|discriminate].
  - (* I *) unfold ifd_set_input in H.
    destruct params as [|p0 [|v [|x r]]]; try (injection H as <- <-; same_case).
    destruct (num_in01 v) eqn:Ev; cbn [negb] in H; [|injection H as <- <-; same_case].
    destruct (b_type brd =? 1); cbn [negb] in H; [|injection H as <- <-; same_case].
    destruct v as [p|f]; [|injection H as <- <-; same_case].
    destruct (num_in01_int _ Ev) as (z & Ez & Hz). cbn in Ez. injection Ez as <-.
    eapply ifd_store_post; eauto; [constructor; lia|discriminate].
Qed.

(* which command and board a complete line addresses, and its converted parameters *)
Definition ifd_parsed (e : env) (m : list Z) : option (ifd_cmd * list num) :=
  match ifd_tokens m with
  | a0 :: rest =>
      match ifd_lookup a0, ifd_params e rest with
      | Some c, POk ps => Some (c, ps)
      | _, _ => None
      end
  | [] => None
  end.

Definition ifd_target (e : env) (m : list Z) : option (ifd_cmd * Z) :=
  match ifd_parsed e m with
  | Some (c, p0 :: _) => match num_int p0 with Some i => Some (c, i) | None => None end
  | _ => None
  end.

Definition ifd_params_of (e : env) (m : list Z) : list num :=
  match ifd_parsed e m with Some (_, ps) => ps | None => [] end.

(* specification of one executed line *)
Definition ifd_post (e : env) (d : ifd_dev) (m : list Z) (d' : ifd_dev) (o : outcome) : Prop :=
  (d' = d /\ o <> OReply ifd_ack /\ o <> OTrue /\ o <> OFalse /\
   (forall r, o = OReply r -> r = ifd_nak \/
      exists i brd, ifd_target e m = Some (IfQ, i) /\ get_board d i = Some brd /\
                    r = ifd_status_reply brd)) \/
  (exists c i brd brd', ifd_target e m = Some (c, i) /\ get_board d i = Some brd /\
      put_board d i brd' = Some d' /\ board_upd c o brd brd' /\
      (o = OValueError -> float_enable (ifd_params_of e m))).

Lemma ifd_exec_post e d m d' o : ifd_exec e d m = (d', o) -> ifd_post e d m d' o.
Proof.
  intros H. unfold ifd_exec in H. unfold ifd_post, ifd_target, ifd_params_of, ifd_parsed.
  destruct (Z.of_nat (length m) <? 3); [injection H as <- <-; same_case|].
  destruct (ifd_tokens m) as [|a0 [|a1 rest]]; try (injection H as <- <-; same_case).
  destruct (ifd_lookup a0) as [c|]; [|injection H as <- <-; same_case].
  destruct (ifd_params e (a1 :: rest)) as [ps| |]; try (injection H as <- <-; same_case).
  unfold ifd_dispatch in H.
  destruct ps as [|p0 ps]; [injection H as <- <-; same_case|].
  destruct (num_in_range ifd_nboards p0); cbn [negb] in H; [|injection H as <- <-; same_case].
  destruct (num_int p0) as [i|]; [|injection H as <- <-; same_case].
  destruct (get_board d i) as [brd|] eqn:Hg; [|injection H as <- <-; same_case].
  destruct (ifd_handle_post _ _ _ _ _ _ _ Hg H) as [(-> & H1 & H2 & H3 & H4)|(brd' & Hp & Hu & Hf)].
  - left. repeat split; auto. intros r Hr. destruct (H4 r Hr) as [->|[-> ->]]; [left; reflexivity|].
    right. exists i, brd. auto.
  - right. exists c, i, brd, brd'. auto.
Qed.

Lemma ifd_exec_inv e d m d' o : ifd_inv d -> ifd_exec e d m = (d', o) -> ifd_inv d'.
Proof.
  intros Hi H. destruct (ifd_exec_post _ _ _ _ _ H) as [(-> & _)|(c & i & brd & brd' & _ & Hg & Hp & Hu & _)].
  - exact Hi.
  - eapply put_board_inv; eauto. eapply board_upd_ok; eauto. apply (proj2 Hi). exact Hg.
Qed.

Lemma ifd_exec_wf e d m d' o r : ifd_inv d -> ifd_exec e d m = (d', o) -> o = OReply r -> ifd_wf_reply r.
Proof.
  intros Hi H Ho. destruct (ifd_exec_post _ _ _ _ _ H) as [(-> & _ & _ & _ & Hr)|(c & i & brd & brd' & _ & _ & _ & Hu & _)].
  - destruct (Hr r Ho) as [->|(i & brd & _ & Hg & ->)]; [right; left; reflexivity|].
    right. right. exists i, brd. split; [apply (proj2 Hi); exact Hg|reflexivity].
  - subst o. inversion Hu; subst; left; reflexivity.
Qed.

(* ---- framer instance ---- *)
Lemma ifd_fcfg_max : 2 <= maxlen ifd_fcfg.
Proof. cbn. lia. Qed.
Lemma ifd_tail_not_hdr b : is_tail ifd_fcfg b = true -> is_hdr ifd_fcfg b = false.
Proof. cbn. unfold ifd_is_tail, ifd_is_hdr. lia. Qed.

Definition ifd_sinv (s : ifd_state) : Prop := sbounded ifd_fcfg s /\ ifd_inv (dev s).

Lemma ifd_init_sinv : ifd_sinv ifd_init.
Proof. split; [unfold sbounded, fbounded; cbn; lia|exact ifd_inv0]. Qed.

(* what one step executes, if anything *)
Definition ifd_executed (s : ifd_state) (b : Z) : option (list Z) :=
  match snd (fstep ifd_fcfg (buf s) b) with EExec m => Some m | EOut _ => None end.

Lemma ifd_step_cases e s b :
  (ifd_executed s b = None /\ dev (fst (ifd_step e s b)) = dev s /\
   (snd (ifd_step e s b) = OTrue \/ snd (ifd_step e s b) = OFalse \/ snd (ifd_step e s b) = OValueError)) \/
  (exists m, ifd_executed s b = Some m /\
             ifd_exec e (dev s) m = (dev (fst (ifd_step e s b)), snd (ifd_step e s b))).
Proof.
  unfold ifd_executed, ifd_step, sstep.
  destruct (fstep ifd_fcfg (buf s) b) as [bf [o1|m]] eqn:Ef; cbn [fst snd dev].
  - left. repeat split.
    unfold fstep in Ef.
    repeat match type of Ef with (if ?c then _ else _) = _ => destruct c end;
      try discriminate; injection Ef as _ <-; auto.
  - right. exists m. split; [reflexivity|]. destruct (ifd_exec e (dev s) m) as [d1 o1]. reflexivity.
Qed.

Lemma ifd_step_sinv e s b : ifd_sinv s -> ifd_sinv (fst (ifd_step e s b)).
Proof.
  intros [Hb Hi]. split.
  - apply (sstep_bounded ifd_fcfg ifd_fcfg_max ifd_tail_not_hdr (ifd_exec e) s b Hb).
  - destruct (ifd_step_cases e s b) as [(_ & -> & _)|(m & _ & He)]; [exact Hi|].
    eapply ifd_exec_inv; eauto.
Qed.

Lemma ifd_run_sinv e bs : forall s, ifd_sinv s -> ifd_sinv (fst (ifd_run e s bs)).
Proof.
  induction bs as [|b r IH]; intros s H; cbn.
  - exact H.
  - unfold ifd_run. cbn [srun]. pose proof (ifd_step_sinv e s b H) as H1. unfold ifd_step in H1.
    destruct (sstep (fstep ifd_fcfg) (ifd_exec e) s b) as [s1 o]. cbn [fst] in H1.
    specialize (IH s1 H1). unfold ifd_run in IH.
    destruct (srun (fstep ifd_fcfg) (ifd_exec e) s1 r) as [s2 os]. exact IH.
Qed.

Definition ifd_reachable (e : env) (s : ifd_state) : Prop := exists bs, s = fst (ifd_run e ifd_init bs).

Lemma ifd_reachable_sinv e s : ifd_reachable e s -> ifd_sinv s.
Proof. intros [bs ->]. apply ifd_run_sinv. exact ifd_init_sinv. Qed.

(* ---- C04 ---- *)
Theorem ifd_replies_wf e s b r :
  ifd_reachable e s -> snd (ifd_step e s b) = OReply r -> ifd_wf_reply r.
Proof.
  intros Hr H. apply ifd_reachable_sinv in Hr. destruct Hr as [_ Hi].
  destruct (ifd_step_cases e s b) as [(_ & _ & [H1|[H1|H1]])|(m & _ & He)]; try congruence.
  eapply ifd_exec_wf; eauto.
Qed.

Lemma board_fields_length brd : length (b_att brd) = 4%nat -> length (board_fields brd) = 12%nat.
Proof. intros H. unfold board_fields. rewrite !app_length, map_length, H. reflexivity. Qed.

(* a status reply is `ack\n` + twelve ', '-separated fields + `\n`; the first two fields are the
   decimal board address *)
Theorem ifd_status_reply_shape i brd : board_ok i brd ->
  exists fields, ifd_status_reply brd = ifd_ack ++ join comma_sp fields ++ [10] /\
                 length fields = 12%nat /\
                 nth_error fields 0 = Some (render_int i) /\ nth_error fields 1 = Some (render_int i).
Proof.
  intros (H0 & H1 & _ & H3 & _). exists (board_fields brd). split; [reflexivity|].
  split; [apply board_fields_length; exact H3|]. unfold board_fields. cbn. rewrite H0, H1. auto.
Qed.

(* ---- C05: refused writes ---- *)

(* the class of the known finding: an S line whose 4th parameter contains '.' *)
Definition ifd_float_enable_line (e : env) (m : list Z) : Prop :=
  (exists i, ifd_target e m = Some (IfS, i)) /\ float_enable (ifd_params_of e m).

Theorem ifd_refused_unchanged_except e s b :
  snd (ifd_step e s b) <> OReply ifd_ack ->
  (forall m, ifd_executed s b = Some m -> ~ ifd_float_enable_line e m) ->
  dev (fst (ifd_step e s b)) = dev s.
Proof.
  intros Ho Hc. destruct (ifd_step_cases e s b) as [(_ & H & _)|(m & Hm & He)]; [exact H|].
  destruct (ifd_exec_post _ _ _ _ _ He) as [(H & _)|(c & i & brd & brd' & Ht & _ & _ & Hu & Hf)];
    [exact H|].
  exfalso. inversion Hu; subst; try (apply Ho; congruence).
  apply (Hc m Hm). split; [exists i; exact Ht|]. apply Hf. congruence.
Qed.

(* ---- C05: frame: a step changes board j only by an acknowledged (or partial S) write to j ---- *)
Definition ifd_writes (e : env) (c : ifd_cmd) (j : Z) (s : ifd_state) (b : Z) : Prop :=
  (snd (ifd_step e s b) = OReply ifd_ack \/ snd (ifd_step e s b) = OValueError) /\
  exists m, ifd_executed s b = Some m /\ ifd_target e m = Some (c, j).

Fixpoint ifd_quiet (e : env) (P : ifd_state -> Z -> Prop) (s : ifd_state) (h : list Z) : Prop :=
  match h with
  | [] => True
  | b :: r => ~ P s b /\ ifd_quiet e P (fst (ifd_step e s b)) r
  end.

(* per step: board j afterwards is board j before, or related to it by the write of command c *)
Lemma ifd_step_board e s b j :
  get_board (dev (fst (ifd_step e s b))) j = get_board (dev s) j \/
  exists c brd brd', ifd_writes e c j s b /\ get_board (dev s) j = Some brd /\
                     get_board (dev (fst (ifd_step e s b))) j = Some brd' /\
                     board_upd c (snd (ifd_step e s b)) brd brd'.
Proof.
  destruct (ifd_step_cases e s b) as [(_ & -> & _)|(m & Hm & He)]; [left; reflexivity|].
  destruct (ifd_exec_post _ _ _ _ _ He) as [(-> & _)|(c & i & brd & brd' & Ht & Hg & Hp & Hu & _)];
    [left; reflexivity|].
  destruct (Z.eq_dec j i) as [->|Hne].
  - right. exists c, brd, brd'. repeat split; auto.
    + inversion Hu; auto.
    + exists m. auto.
    + eapply get_put_same; eauto.
  - left. eapply get_put_other; eauto.
Qed.

(* registers as projections of a board *)
Definition reg_att (brd : board) : list Z := b_att brd.
Definition reg_bw (brd : board) : Z := sr_bw (b_sr brd).
Definition reg_in (brd : board) : Z := sr_in (b_sr brd).
Definition reg_lo (brd : board) : num * num * Z * Z * Z :=
  (b_ref brd, b_lo brd, sr_en (b_sr brd), b_f10 brd, b_f11 brd).

Definition cmd_eqb (a b : ifd_cmd) : bool :=
  match a, b with IfQ, IfQ | IfB, IfB | IfS, IfS | IfA, IfA | IfI, IfI => true | _, _ => false end.

(* which register projection a command may change *)
Lemma board_upd_frame c o i brd brd' : board_ok i brd -> board_upd c o brd brd' ->
  (c <> IfA -> reg_att brd' = reg_att brd) /\
  (c <> IfB -> c <> IfS -> reg_bw brd' = reg_bw brd) /\
  (c <> IfI -> c <> IfS -> reg_in brd' = reg_in brd) /\
  (c = IfA -> reg_lo brd' = reg_lo brd).
Proof.
  intros (H0 & H1 & H2 & H3 & H4) Hu.
  destruct Hu; unfold reg_att, reg_bw, reg_in, reg_lo, with_sr, with_att, with_lo_en, with_reflo;
    cbn [b_att b_sr b_ref b_lo b_f10 b_f11];
    repeat split; intros; try congruence; try reflexivity.
  all: try (apply (upd_bw_facts (b_sr brd) p); auto; fail).
  all: try (apply (upd_in_facts (b_sr brd) p); auto; fail).
Qed.

Lemma cmd_in_dec c (cs : list ifd_cmd) : In c cs \/ ~ In c cs.
Proof.
  induction cs as [|x l IH]; [right; intros []|].
  destruct IH as [IH|IH]; [left; right; exact IH|].
  destruct (cmd_eqb x c) eqn:E.
  - left. left. destruct x, c; try discriminate; reflexivity.
  - right. intros [->|Hin]; [destruct c; discriminate|contradiction].
Qed.

(* generic preservation of a register projection over a quiet history *)
Section Quiet.
  Variable e : env.
  Variable A : Type.
  Variable f : board -> A.
  Variable cs : list ifd_cmd.           (* the commands that may change f *)
  Hypothesis Hframe : forall c o i brd brd', board_ok i brd -> board_upd c o brd brd' ->
                                            ~ In c cs -> f brd' = f brd.

  Definition writes_any (j : Z) (s : ifd_state) (b : Z) : Prop :=
    exists c, In c cs /\ ifd_writes e c j s b.

  Lemma ifd_quiet_preserves j h : forall s brd,
    ifd_sinv s -> get_board (dev s) j = Some brd -> ifd_quiet e (writes_any j) s h ->
    exists brd2, get_board (dev (fst (ifd_run e s h))) j = Some brd2 /\ f brd2 = f brd.
  Proof using Hframe.
    induction h as [|b r IH]; intros s brd Hs Hg Hq.
    - exists brd. auto.
    - destruct Hq as [Hq1 Hq2].
      pose proof (ifd_step_sinv e s b Hs) as Hs1.
      assert (Hstep : exists brd1, get_board (dev (fst (ifd_step e s b))) j = Some brd1 /\ f brd1 = f brd).
      { destruct (ifd_step_board e s b j) as [Heq|(c & b0 & b1 & Hw & Hg0 & Hg1 & Hu)].
        - exists brd. rewrite Heq. auto.
        - exists b1. split; [exact Hg1|]. rewrite Hg in Hg0. injection Hg0 as <-.
          destruct (cmd_in_dec c cs) as [Hin|Hnin].
          + exfalso. apply Hq1. exists c. auto.
          + eapply Hframe; eauto. apply (proj2 (proj2 Hs)). exact Hg. }
      destruct Hstep as (brd1 & Hg1 & Hf1).
      destruct (IH _ brd1 Hs1 Hg1 Hq2) as (brd2 & Hg2 & Hf2).
      exists brd2. split; [|congruence].
      unfold ifd_run in *. cbn [srun]. unfold ifd_step in *.
      destruct (sstep (fstep ifd_fcfg) (ifd_exec e) s b) as [s1 o]. cbn [fst] in *.
      destruct (srun (fstep ifd_fcfg) (ifd_exec e) s1 r) as [s2 os]. exact Hg2.
  Qed.
End Quiet.

(* ---- canonical command lines ---- *)
Definition ifd_line_okb (l : list Z) : bool :=
  match l with
  | [] => false
  | h :: r => ifd_is_hdr h && forallb (fun b => negb (ifd_is_tail b)) r && (Z.of_nat (length l) <? 15)
  end.

Lemma ifd_line_okb_ok l : ifd_line_okb l = true -> line_ok ifd_fcfg l.
Proof.
  destruct l as [|h r]; cbn; [discriminate|]. intros H.
  apply andb_true_iff in H as [H H3]. apply andb_true_iff in H as [H1 H2].
  repeat split; auto.
  - apply Forall_forall. intros x Hx. rewrite forallb_forall in H2. specialize (H2 x Hx).
    destruct (ifd_is_tail x); [discriminate|reflexivity].
  - lia.
Qed.

Fixpoint params_ints (ps : list num) : option (list Z) :=
  match ps with
  | [] => Some []
  | NInt z :: r => option_map (cons z) (params_ints r)
  | NFlt _ :: _ => None
  end.

Lemma params_ints_eq ps zs : params_ints ps = Some zs -> ps = map NInt zs.
Proof.
  revert zs. induction ps as [|[z|f] r IH]; intros zs H; cbn in H.
  - injection H as <-. reflexivity.
  - destruct (params_ints r) as [l|]; [|discriminate]. injection H as <-. cbn. f_equal. auto.
  - discriminate.
Qed.

Definition ifd_line_check (e : env) (l : list Z) (c : ifd_cmd) (zs : list Z) : bool :=
  ifd_line_okb l && negb (Z.of_nat (length l) <? 3) &&
  match ifd_tokens l with
  | a0 :: a1 :: rest =>
      match ifd_lookup a0, ifd_params e (a1 :: rest) with
      | Some c', POk ps =>
          cmd_eqb c' c && match params_ints ps with Some l' => zlist_eqb l' zs | None => false end
      | _, _ => false
      end
  | _ => false
  end.

Lemma ifd_body_line l t : body ifd_fcfg (l ++ [t]) = l.
Proof. cbn. apply removelast_last. Qed.

Lemma ifd_run_line e s l t c zs :
  sidle s = true -> ifd_line_check e l c zs = true -> ifd_is_tail t = true ->
  ifd_run e s (l ++ [t]) =
  let (d', o) := ifd_dispatch c (dev s) (map NInt zs) in
  ({| buf := []; dev := d' |}, repeat OTrue (length l) ++ [o]).
Proof.
  intros Hi Hc Ht. unfold ifd_line_check in Hc.
  apply andb_true_iff in Hc as [Hc H3]. apply andb_true_iff in Hc as [H1 H2].
  apply ifd_line_okb_ok in H1. unfold ifd_run.
  rewrite (line_from_idle ifd_fcfg ifd_fcfg_max ifd_tail_not_hdr (ifd_exec e) s l t Hi H1 Ht).
  rewrite ifd_body_line. unfold ifd_exec.
  destruct (Z.of_nat (length l) <? 3); [discriminate|].
  destruct (ifd_tokens l) as [|a0 [|a1 rest]]; try discriminate.
  destruct (ifd_lookup a0) as [c'|]; [|discriminate].
  destruct (ifd_params e (a1 :: rest)) as [ps| |]; try discriminate.
  apply andb_true_iff in H3 as [Hc1 Hc2].
  destruct (params_ints ps) as [l'|] eqn:Ep; [|discriminate].
  apply zlist_eqb_eq in Hc2. subst l'. apply params_ints_eq in Ep. subst ps.
  assert (c' = c) by (destruct c', c; try discriminate; reflexivity). subst c'. reflexivity.
Qed.

Definition ifd_line_status (i : Z) : list Z := [63; 32] ++ render_int i.
Definition ifd_line_att (i ch v : Z) : list Z :=
  [65; 32] ++ render_int i ++ [32] ++ render_int ch ++ [32] ++ render_int v.
Definition ifd_line_bw (i v : Z) : list Z := [66; 32] ++ render_int i ++ [32] ++ render_int v.
Definition ifd_line_in (i v : Z) : list Z := [73; 32] ++ render_int i ++ [32] ++ render_int v.
Definition ifd_line_lo (i f en : Z) : list Z :=
  [83; 32] ++ render_int i ++ [32; 49; 48; 32] ++ render_int f ++ [32] ++ render_int en.

Section Lines.
  Variable e : env.

  Lemma ifd_status_lines i : 0 <= i < 21 -> ifd_line_check e (ifd_line_status i) IfQ [i] = true.
  Proof.
    intros H. apply (range_sweep (fun i => ifd_line_check e (ifd_line_status i) IfQ [i]) 21);
      [vm_compute; reflexivity|lia].
  Qed.

  Lemma ifd_att_lines i ch v : 0 <= i < 21 -> 0 <= ch < 4 -> 0 <= v < 32 ->
    ifd_line_check e (ifd_line_att i ch v) IfA [i; ch; v] = true.
  Proof.
    intros Hi Hc Hv.
    pose proof (range_sweep (fun i => forallb (fun ch => forallb (fun v =>
                  ifd_line_check e (ifd_line_att i ch v) IfA [i; ch; v]) (zrange 32)) (zrange 4)) 21
                  ltac:(vm_compute; reflexivity) i ltac:(lia)) as H. cbv beta in H.
    pose proof (range_sweep _ _ H ch ltac:(lia)) as H2. cbv beta in H2.
    exact (range_sweep _ _ H2 v ltac:(lia)).
  Qed.

  Lemma ifd_bw_lines i v : 0 <= i < 21 -> 0 <= v < 4 ->
    ifd_line_check e (ifd_line_bw i v) IfB [i; v] = true.
  Proof.
    intros Hi Hv.
    apply (range_sweep2 (fun i v => ifd_line_check e (ifd_line_bw i v) IfB [i; v]) 21 4);
      [vm_compute; reflexivity|lia|lia].
  Qed.

  Lemma ifd_in_lines i v : 0 <= i < 21 -> 0 <= v < 2 ->
    ifd_line_check e (ifd_line_in i v) IfI [i; v] = true.
  Proof.
    intros Hi Hv.
    apply (range_sweep2 (fun i v => ifd_line_check e (ifd_line_in i v) IfI [i; v]) 21 2);
      [vm_compute; reflexivity|lia|lia].
  Qed.

  (* LO frequency: every value that fits the 15-character line with board 0: 0 .. 9999 *)
  Lemma ifd_lo_lines f en : 0 <= f < 10000 -> 0 <= en < 2 ->
    ifd_line_check e (ifd_line_lo 0 f en) IfS [0; 10; f; en] = true.
  Proof.
    intros Hf He.
    apply (range_sweep2 (fun f en => ifd_line_check e (ifd_line_lo 0 f en) IfS [0; 10; f; en])
             (Z.to_nat 10000) 2); [vm_compute; reflexivity|lia|lia].
  Qed.

  (* dispatch on an in-range integer board index reaches the handler *)
  Lemma ifd_dispatch_int c d i rest brd :
    0 <= i < 21 -> get_board d i = Some brd ->
    ifd_dispatch c d (NInt i :: rest) = ifd_handle c d i brd (NInt i :: rest).
  Proof.
    intros Hi Hg. unfold ifd_dispatch, num_in_range, ifd_nboards. cbn [num_int].
    replace ((0 <=? i) && (i <? 21)) with true by lia. cbn [negb]. rewrite Hg. reflexivity.
  Qed.

  Lemma inv_get_board d i : ifd_inv d -> 0 <= i < 21 -> exists brd, get_board d i = Some brd /\ board_ok i brd.
  Proof.
    intros [Hl Hb] Hi. unfold get_board. replace (0 <=? i) with true by lia.
    destruct (nth_error d (Z.to_nat i)) as [brd|] eqn:E.
    - exists brd. split; [reflexivity|]. apply Hb. unfold get_board.
      replace (0 <=? i) with true by lia. exact E.
    - apply nth_error_None in E. lia.
  Qed.

  (* C02: the status query of any board from any reachable idle state *)
  Theorem ifd_status_from_idle s i t :
    ifd_sinv s -> sidle s = true -> 0 <= i < 21 -> ifd_is_tail t = true ->
    exists brd, get_board (dev s) i = Some brd /\ board_ok i brd /\
      ifd_run e s (ifd_line_status i ++ [t]) =
      (Build_sstate [] (dev s),
       repeat OTrue (length (ifd_line_status i)) ++ [OReply (ifd_status_reply brd)]).
  Proof.
    intros [Hb Hinv] Hidle Hi Ht.
    destruct (inv_get_board _ _ Hinv Hi) as (brd & Hg & Hok).
    exists brd. split; [exact Hg|]. split; [exact Hok|].
    rewrite (ifd_run_line e s _ t IfQ [i] Hidle (ifd_status_lines i Hi) Ht).
    cbn [map]. rewrite (ifd_dispatch_int IfQ _ i [] brd Hi Hg). reflexivity.
  Qed.

  (* generic read-back after a quiet history *)
  Lemma ifd_readback_generic (A : Type) (f : board -> A) cs
        (Hframe : forall c o i brd brd', board_ok i brd -> board_upd c o brd brd' ->
                                         ~ In c cs -> f brd' = f brd)
        s1 j brd1 h t' :
    ifd_sinv s1 -> 0 <= j < 21 -> get_board (dev s1) j = Some brd1 ->
    ifd_quiet e (writes_any e cs j) s1 h -> sidle (fst (ifd_run e s1 h)) = true ->
    ifd_is_tail t' = true ->
    exists brd2, f brd2 = f brd1 /\ board_ok j brd2 /\
      snd (ifd_run e (fst (ifd_run e s1 h)) (ifd_line_status j ++ [t'])) =
      repeat OTrue (length (ifd_line_status j)) ++ [OReply (ifd_status_reply brd2)].
  Proof.
    intros Hs1 Hj Hg Hq Hidle Ht'.
    destruct (ifd_quiet_preserves e A f cs Hframe j h s1 brd1 Hs1 Hg Hq) as (brd2 & Hg2 & Hf2).
    pose proof (ifd_run_sinv e h s1 Hs1) as Hs2.
    destruct (ifd_status_from_idle _ j t' Hs2 Hidle Hj Ht') as (brd3 & Hg3 & Hok3 & Hrun).
    rewrite Hg2 in Hg3. injection Hg3 as <-.
    exists brd2. split; [exact Hf2|]. split; [exact Hok3|]. rewrite Hrun. reflexivity.
  Qed.

  Lemma frame_att c o i brd brd' : board_ok i brd -> board_upd c o brd brd' -> ~ In c [IfA] ->
    reg_att brd' = reg_att brd.
  Proof. intros H Hu Hn. apply (board_upd_frame _ _ _ _ _ H Hu). intros ->. apply Hn. left. reflexivity. Qed.

  Lemma frame_bw c o i brd brd' : board_ok i brd -> board_upd c o brd brd' -> ~ In c [IfB; IfS] ->
    reg_bw brd' = reg_bw brd.
  Proof.
    intros H Hu Hn. apply (board_upd_frame _ _ _ _ _ H Hu); intros ->; apply Hn; cbn; auto.
  Qed.

  Lemma frame_in c o i brd brd' : board_ok i brd -> board_upd c o brd brd' -> ~ In c [IfI; IfS] ->
    reg_in brd' = reg_in brd.
  Proof.
    intros H Hu Hn. apply (board_upd_frame _ _ _ _ _ H Hu); intros ->; apply Hn; cbn; auto.
  Qed.

  Lemma frame_lo c o i brd brd' : board_ok i brd -> board_upd c o brd brd' -> ~ In c [IfS; IfB; IfI] ->
    reg_lo brd' = reg_lo brd.
  Proof.
    intros H Hu Hn. apply (board_upd_frame _ _ _ _ _ H Hu).
    destruct c; try reflexivity; exfalso; apply Hn; cbn; auto.
    inversion Hu.
  Qed.

  (* C05, attenuation (integer dB values): `A i ch v` on a type-5 board is acknowledged and the
     status of board i then shows 2*v at entry 5+ch until the next acknowledged `A` to board i *)
  Theorem ifd_att_readback s i ch v t :
    ifd_reachable e s -> sidle s = true -> 5 <= i < 21 -> 0 <= ch < 4 -> 0 <= v < 32 ->
    ifd_is_tail t = true ->
    let s1 := fst (ifd_run e s (ifd_line_att i ch v ++ [t])) in
    snd (ifd_run e s (ifd_line_att i ch v ++ [t])) =
      repeat OTrue (length (ifd_line_att i ch v)) ++ [OReply ifd_ack] /\
    forall h t', ifd_quiet e (writes_any e [IfA] i) s1 h -> sidle (fst (ifd_run e s1 h)) = true ->
      ifd_is_tail t' = true ->
      exists brd, nth_error (b_att brd) (Z.to_nat ch) = Some (2 * v) /\ board_ok i brd /\
        snd (ifd_run e (fst (ifd_run e s1 h)) (ifd_line_status i ++ [t'])) =
        repeat OTrue (length (ifd_line_status i)) ++ [OReply (ifd_status_reply brd)].
  Proof.
    intros Hr Hidle Hi Hc Hv Ht. apply ifd_reachable_sinv in Hr.
    pose proof (ifd_run_sinv e (ifd_line_att i ch v ++ [t]) s Hr) as Hs1.
    destruct Hr as [Hb Hinv].
    destruct (inv_get_board (dev s) i Hinv ltac:(lia)) as (brd & Hg & Hok).
    rewrite (ifd_run_line e s _ t IfA [i; ch; v] Hidle (ifd_att_lines i ch v ltac:(lia) Hc Hv) Ht) in *.
    cbn [map] in *. rewrite (ifd_dispatch_int IfA _ i _ brd ltac:(lia) Hg) in *.
    cbn [ifd_handle ifd_set_att] in *.
    unfold num_in_range in *. cbn [num_int num_neg num_gt_max num_x2] in *.
    replace ((0 <=? ch) && (ch <? 4)) with true in * by lia.
    replace ((v <? 0) || (31 <? v)) with false in * by lia.
    pose proof Hok as (H0 & H1 & H2 & H3 & H4).
    replace (b_type brd =? 5) with true in * by (rewrite H2; unfold ifd_type;
      repeat match goal with |- context [i =? ?k] => replace (i =? k) with false by lia end; reflexivity).
    cbn [negb] in *.
    destruct (set_nth_some (Z.to_nat ch) (2 * v) (b_att brd)) as [a Ha]; [lia|].
    rewrite Ha in *. unfold ifd_store in *.
    destruct (put_board_some (dev s) i brd (with_att brd a) Hg) as [d1 Hp]. rewrite Hp in *.
    cbn [fst snd] in *. split; [reflexivity|].
    intros h t' Hq Hi' Ht'.
    destruct (ifd_readback_generic _ reg_att [IfA] frame_att _ i (with_att brd a) h t' Hs1
                ltac:(lia) (get_put_same _ _ _ _ Hp) Hq Hi' Ht') as (brd2 & Hf & Hok2 & Hrun).
    exists brd2. split; [|split; [exact Hok2|exact Hrun]].
    unfold reg_att in Hf. cbn in Hf. rewrite Hf. eapply set_nth_eq; eauto.
  Qed.

  (* C05, bandwidth: `B i v` on boards 1, 2 (types 0, 1) *)
  Theorem ifd_bw_readback s i v t :
    ifd_reachable e s -> sidle s = true -> 1 <= i <= 2 -> 0 <= v < 4 -> ifd_is_tail t = true ->
    let s1 := fst (ifd_run e s (ifd_line_bw i v ++ [t])) in
    snd (ifd_run e s (ifd_line_bw i v ++ [t])) =
      repeat OTrue (length (ifd_line_bw i v)) ++ [OReply ifd_ack] /\
    forall h t', ifd_quiet e (writes_any e [IfB; IfS] i) s1 h -> sidle (fst (ifd_run e s1 h)) = true ->
      ifd_is_tail t' = true ->
      exists brd, sr_bw (b_sr brd) = v /\ board_ok i brd /\
        snd (ifd_run e (fst (ifd_run e s1 h)) (ifd_line_status i ++ [t'])) =
        repeat OTrue (length (ifd_line_status i)) ++ [OReply (ifd_status_reply brd)].
  Proof.
    intros Hr Hidle Hi Hv Ht. apply ifd_reachable_sinv in Hr.
    pose proof (ifd_run_sinv e (ifd_line_bw i v ++ [t]) s Hr) as Hs1.
    destruct Hr as [Hb Hinv].
    destruct (inv_get_board (dev s) i Hinv ltac:(lia)) as (brd & Hg & Hok).
    rewrite (ifd_run_line e s _ t IfB [i; v] Hidle (ifd_bw_lines i v ltac:(lia) Hv) Ht) in *.
    cbn [map] in *. rewrite (ifd_dispatch_int IfB _ i _ brd ltac:(lia) Hg) in *.
    cbn [ifd_handle ifd_set_bandwidth] in *.
    unfold num_in_range in *. cbn [num_int] in *.
    replace ((0 <=? v) && (v <? 4)) with true in * by lia.
    pose proof Hok as (H0 & H1 & H2 & H3 & H4).
    replace ((b_type brd =? 0) || (b_type brd =? 1)) with true in *
      by (rewrite H2; unfold ifd_type; destruct (Z.eq_dec i 1) as [->|]; [reflexivity|];
          replace i with 2 by lia; reflexivity).
    cbn [negb] in *. unfold ifd_store in *.
    destruct (put_board_some (dev s) i brd (with_sr brd (upd_bw (b_sr brd) v)) Hg) as [d1 Hp].
    rewrite Hp in *. cbn [fst snd] in *. split; [reflexivity|].
    intros h t' Hq Hi' Ht'.
    destruct (ifd_readback_generic _ reg_bw [IfB; IfS] frame_bw _ i _ h t' Hs1
                ltac:(lia) (get_put_same _ _ _ _ Hp) Hq Hi' Ht') as (brd2 & Hf & Hok2 & Hrun).
    exists brd2. split; [|split; [exact Hok2|exact Hrun]].
    unfold reg_bw in Hf. cbn in Hf. rewrite Hf. apply (upd_bw_facts (b_sr brd) v); auto.
  Qed.

  (* C05, input conversion: `I 2 v` (board 2 is the type-1 board); entry 9 bits 5..6 hold v+1 *)
  Theorem ifd_in_readback s v t :
    ifd_reachable e s -> sidle s = true -> 0 <= v < 2 -> ifd_is_tail t = true ->
    let s1 := fst (ifd_run e s (ifd_line_in 2 v ++ [t])) in
    snd (ifd_run e s (ifd_line_in 2 v ++ [t])) =
      repeat OTrue (length (ifd_line_in 2 v)) ++ [OReply ifd_ack] /\
    forall h t', ifd_quiet e (writes_any e [IfI; IfS] 2) s1 h -> sidle (fst (ifd_run e s1 h)) = true ->
      ifd_is_tail t' = true ->
      exists brd, sr_in (b_sr brd) = v + 1 /\ board_ok 2 brd /\
        snd (ifd_run e (fst (ifd_run e s1 h)) (ifd_line_status 2 ++ [t'])) =
        repeat OTrue (length (ifd_line_status 2)) ++ [OReply (ifd_status_reply brd)].
  Proof.
    intros Hr Hidle Hv Ht. apply ifd_reachable_sinv in Hr.
    pose proof (ifd_run_sinv e (ifd_line_in 2 v ++ [t]) s Hr) as Hs1.
    destruct Hr as [Hb Hinv].
    destruct (inv_get_board _ 2 Hinv ltac:(lia)) as (brd & Hg & Hok).
    rewrite (ifd_run_line e s _ t IfI [2; v] Hidle (ifd_in_lines 2 v ltac:(lia) Hv) Ht) in *.
    cbn [map] in *. rewrite (ifd_dispatch_int IfI _ 2 _ brd ltac:(lia) Hg) in *.
    cbn [ifd_handle ifd_set_input] in *.
    unfold num_in01, num_eq_int in *. cbn [num_int] in *.
    replace ((v =? 0) || (v =? 1)) with true in * by lia.
    pose proof Hok as (H0 & H1 & H2 & H3 & H4).
    replace (b_type brd =? 1) with true in * by (rewrite H2; reflexivity).
    cbn [negb] in *. unfold ifd_store in *.
    destruct (put_board_some (dev s) 2 brd (with_sr brd (upd_in (b_sr brd) v)) Hg) as [d1 Hp].
    rewrite Hp in *. cbn [fst snd] in *. split; [reflexivity|].
    intros h t' Hq Hi' Ht'.
    destruct (ifd_readback_generic _ reg_in [IfI; IfS] frame_in _ 2 _ h t' Hs1
                ltac:(lia) (get_put_same _ _ _ _ Hp) Hq Hi' Ht') as (brd2 & Hf & Hok2 & Hrun).
    exists brd2. split; [|split; [exact Hok2|exact Hrun]].
    unfold reg_in in Hf. cbn in Hf. rewrite Hf. apply (upd_in_facts (b_sr brd) v); auto.
  Qed.

  (* C05, local oscillator: `S 0 10 f en` (board 0 is the type-2 board) *)
  Theorem ifd_lo_readback s f en t :
    ifd_reachable e s -> sidle s = true -> 0 <= f < 10000 -> 0 <= en < 2 -> ifd_is_tail t = true ->
    let s1 := fst (ifd_run e s (ifd_line_lo 0 f en ++ [t])) in
    snd (ifd_run e s (ifd_line_lo 0 f en ++ [t])) =
      repeat OTrue (length (ifd_line_lo 0 f en)) ++ [OReply ifd_ack] /\
    forall h t', ifd_quiet e (writes_any e [IfS; IfB; IfI] 0) s1 h ->
      sidle (fst (ifd_run e s1 h)) = true -> ifd_is_tail t' = true ->
      exists brd, reg_lo brd = (NInt 10, NInt f, en, Z.lxor en 1, en) /\ board_ok 0 brd /\
        snd (ifd_run e (fst (ifd_run e s1 h)) (ifd_line_status 0 ++ [t'])) =
        repeat OTrue (length (ifd_line_status 0)) ++ [OReply (ifd_status_reply brd)].
  Proof.
    intros Hr Hidle Hf Hen Ht. apply ifd_reachable_sinv in Hr.
    pose proof (ifd_run_sinv e (ifd_line_lo 0 f en ++ [t]) s Hr) as Hs1.
    destruct Hr as [Hb Hinv].
    destruct (inv_get_board _ 0 Hinv ltac:(lia)) as (brd & Hg & Hok).
    rewrite (ifd_run_line e s _ t IfS [0; 10; f; en] Hidle (ifd_lo_lines f en Hf Hen) Ht) in *.
    cbn [map] in *. rewrite (ifd_dispatch_int IfS _ 0 _ brd ltac:(lia) Hg) in *.
    cbn [ifd_handle ifd_set_lo] in *.
    unfold num_in01, num_eq_int in *. cbn [num_int] in *.
    replace ((en =? 0) || (en =? 1)) with true in * by lia.
    pose proof Hok as (H0 & H1 & H2 & H3 & H4).
    replace (b_type brd =? 2) with true in * by (rewrite H2; reflexivity).
    cbn [negb Z.eqb] in *. unfold ifd_store in *.
    match goal with Hx : context [put_board (dev s) 0 ?B] |- _ =>
      destruct (put_board_some (dev s) 0 brd B Hg) as [d1 Hp] end.
    rewrite Hp in *. cbn [fst snd] in *. split; [reflexivity|].
    intros h t' Hq Hi' Ht'.
    destruct (ifd_readback_generic _ reg_lo [IfS; IfB; IfI] frame_lo _ 0 _ h t' Hs1
                ltac:(lia) (get_put_same _ _ _ _ Hp) Hq Hi' Ht') as (brd2 & Hf2 & Hok2 & Hrun).
    exists brd2. split; [|split; [exact Hok2|exact Hrun]].
    rewrite Hf2. unfold reg_lo. cbn. repeat f_equal. apply (upd_en_facts (b_sr brd) en); auto.
  Qed.

  (* C02 *)
  Theorem ifd_queries_answered s i t :
    ifd_reachable e s -> sidle s = true -> 0 <= i < 21 -> ifd_is_tail t = true ->
    exists r, snd (ifd_run e s (ifd_line_status i ++ [t])) =
                repeat OTrue (length (ifd_line_status i)) ++ [OReply r] /\
              ifd_wf_reply r /\
              (exists brd, board_ok i brd /\ r = ifd_status_reply brd) /\
              dev (fst (ifd_run e s (ifd_line_status i ++ [t]))) = dev s /\
              sidle (fst (ifd_run e s (ifd_line_status i ++ [t]))) = true.
  Proof.
    intros Hr Hidle Hi Ht. apply ifd_reachable_sinv in Hr.
    destruct (ifd_status_from_idle s i t Hr Hidle Hi Ht) as (brd & Hg & Hok & Hrun).
    rewrite Hrun. cbn [fst snd dev]. eexists. split; [reflexivity|].
    split; [right; right; exists i, brd; auto|]. split; [exists brd; auto|]. split; reflexivity.
  Qed.
End Lines.

(* ---- per-channel refinement of the attenuation read-back ---- *)

(* an executed `A` line addressed to board i changes entry 5+ch of that board only if its second
   parameter is the integer ch *)
Lemma ifd_exec_att_chan e d m d' o i brd brd' ch :
  ifd_exec e d m = (d', o) -> ifd_target e m = Some (IfA, i) ->
  get_board d i = Some brd -> get_board d' i = Some brd' -> 0 <= ch ->
  nth_error (ifd_params_of e m) 1 <> Some (NInt ch) ->
  nth_error (b_att brd') (Z.to_nat ch) = nth_error (b_att brd) (Z.to_nat ch).
Proof.
  intros H Ht Hg Hg' Hch Hn. unfold ifd_exec in H.
  unfold ifd_target, ifd_params_of, ifd_parsed in *.
  assert (Hsame : d' = d -> nth_error (b_att brd') (Z.to_nat ch) = nth_error (b_att brd) (Z.to_nat ch)).
  { intros ->. rewrite Hg in Hg'. injection Hg' as <-. reflexivity. }
  destruct (Z.of_nat (length m) <? 3); [injection H as <- _; auto|].
  destruct (ifd_tokens m) as [|a0 [|a1 rest]]; try (injection H as <- _; auto; fail).
  destruct (ifd_lookup a0) as [c|]; [|discriminate].
  destruct (ifd_params e (a1 :: rest)) as [ps| |]; try discriminate.
  destruct ps as [|p0 ps]; [discriminate|].
  destruct (num_int p0) as [i0|] eqn:Ei; [|discriminate]. injection Ht as -> ->.
  unfold ifd_dispatch in H. rewrite Ei in H.
  destruct (num_in_range ifd_nboards p0); cbn [negb] in H; [|injection H as <- _; auto].
  rewrite Hg in H. cbn [ifd_handle] in H. unfold ifd_set_att in H.
  destruct ps as [|chn [|v [|x r]]]; try (injection H as <- _; auto; fail).
  destruct (num_in_range 4 chn) eqn:Er; cbn [negb] in H; [|injection H as <- _; auto].
  destruct (num_neg v || num_gt_max v); [injection H as <- _; auto|].
  destruct (b_type brd =? 5); cbn [negb] in H; [|injection H as <- _; auto].
  destruct chn as [cc|f]; [|injection H as <- _; auto].
  destruct (set_nth (Z.to_nat cc) (num_x2 v) (b_att brd)) as [a|] eqn:Ea; [|injection H as <- _; auto].
  unfold ifd_store in H. destruct (put_board d i (with_att brd a)) as [d1|] eqn:Hp; [|injection H as <- _; auto].
  injection H as <- _. rewrite (get_put_same _ _ _ _ Hp) in Hg'. injection Hg' as <-. cbn [b_att with_att].
  unfold num_in_range in Er. cbn [num_int] in Er. cbn [nth_error] in Hn.
  eapply set_nth_neq; eauto. intros E. apply Hn. f_equal. f_equal. lia.
Qed.

Section AttChannel.
  Variable e : env.

  (* the step is an acknowledged `A` write to channel ch of board j *)
  Definition ifd_writes_att (j ch : Z) (s : ifd_state) (b : Z) : Prop :=
    ifd_writes e IfA j s b /\
    exists m, ifd_executed s b = Some m /\ nth_error (ifd_params_of e m) 1 = Some (NInt ch).

  Lemma chan_param_dec (ps : list num) ch :
    nth_error ps 1 = Some (NInt ch) \/ nth_error ps 1 <> Some (NInt ch).
  Proof.
    destruct (nth_error ps 1) as [[z|f]|]; try (right; discriminate).
    destruct (Z.eq_dec z ch) as [->|Hne]; [left; reflexivity|right; congruence].
  Qed.

  Lemma ifd_quiet_att_chan j ch h : forall s brd,
    ifd_sinv s -> 0 <= ch -> get_board (dev s) j = Some brd ->
    ifd_quiet e (ifd_writes_att j ch) s h ->
    exists brd2, get_board (dev (fst (ifd_run e s h))) j = Some brd2 /\
                 nth_error (b_att brd2) (Z.to_nat ch) = nth_error (b_att brd) (Z.to_nat ch).
  Proof.
    induction h as [|b r IH]; intros s brd Hs Hch Hg Hq.
    - exists brd. auto.
    - destruct Hq as [Hq1 Hq2].
      pose proof (ifd_step_sinv e s b Hs) as Hs1.
      assert (Hstep : exists brd1, get_board (dev (fst (ifd_step e s b))) j = Some brd1 /\
                nth_error (b_att brd1) (Z.to_nat ch) = nth_error (b_att brd) (Z.to_nat ch)).
      { destruct (ifd_step_board e s b j) as [Heq|(c & b0 & b1 & Hw & Hg0 & Hg1 & Hu)].
        - exists brd. rewrite Heq. auto.
        - exists b1. split; [exact Hg1|]. rewrite Hg in Hg0. injection Hg0 as <-.
          assert (Hok : board_ok j brd) by (apply (proj2 (proj2 Hs)); exact Hg).
          destruct (cmd_in_dec c [IfA]) as [[<-|[]]|Hnin].
          + destruct (ifd_step_cases e s b) as [(Hn & _)|(m & Hm & He)].
            { destruct Hw as [_ (m' & Hm' & _)]. congruence. }
            pose proof Hw as [_ (m' & Hm' & Ht)]. rewrite Hm in Hm'. injection Hm' as <-.
            destruct (chan_param_dec (ifd_params_of e m) ch) as [Hp|Hp].
            * exfalso. apply Hq1. split; [exact Hw|]. exists m. auto.
            * eapply ifd_exec_att_chan; eauto.
          + assert (Hf : reg_att b1 = reg_att brd).
            { apply (board_upd_frame _ _ _ _ _ Hok Hu). intros ->. apply Hnin. left. reflexivity. }
            unfold reg_att in Hf. rewrite Hf. reflexivity. }
      destruct Hstep as (brd1 & Hg1 & Hf1).
      destruct (IH _ brd1 Hs1 Hch Hg1 Hq2) as (brd2 & Hg2 & Hf2).
      exists brd2. split; [|congruence].
      unfold ifd_run in *. cbn [srun]. unfold ifd_step in *.
      destruct (sstep (fstep ifd_fcfg) (ifd_exec e) s b) as [s1 o]. cbn [fst] in *.
      destruct (srun (fstep ifd_fcfg) (ifd_exec e) s1 r) as [s2 os]. exact Hg2.
  Qed.

  (* C05, attenuation, per channel: the read-back of channel ch of board i holds until the next
     acknowledged `A i ch _` (writes to the other channels of the board do not matter) *)
  Theorem ifd_att_readback_chan s i ch v t :
    ifd_reachable e s -> sidle s = true -> 5 <= i < 21 -> 0 <= ch < 4 -> 0 <= v < 32 ->
    ifd_is_tail t = true ->
    let s1 := fst (ifd_run e s (ifd_line_att i ch v ++ [t])) in
    snd (ifd_run e s (ifd_line_att i ch v ++ [t])) =
      repeat OTrue (length (ifd_line_att i ch v)) ++ [OReply ifd_ack] /\
    forall h t', ifd_quiet e (ifd_writes_att i ch) s1 h -> sidle (fst (ifd_run e s1 h)) = true ->
      ifd_is_tail t' = true ->
      exists brd, nth_error (b_att brd) (Z.to_nat ch) = Some (2 * v) /\ board_ok i brd /\
        snd (ifd_run e (fst (ifd_run e s1 h)) (ifd_line_status i ++ [t'])) =
        repeat OTrue (length (ifd_line_status i)) ++ [OReply (ifd_status_reply brd)].
  Proof.
    intros Hr Hidle Hi Hc Hv Ht. apply ifd_reachable_sinv in Hr.
    pose proof (ifd_run_sinv e (ifd_line_att i ch v ++ [t]) s Hr) as Hs1.
    destruct Hr as [Hb Hinv].
    destruct (inv_get_board (dev s) i Hinv ltac:(lia)) as (brd & Hg & Hok).
    rewrite (ifd_run_line e s _ t IfA [i; ch; v] Hidle (ifd_att_lines e i ch v ltac:(lia) Hc Hv) Ht) in *.
    cbn [map] in *. rewrite (ifd_dispatch_int IfA _ i _ brd ltac:(lia) Hg) in *.
    cbn [ifd_handle ifd_set_att] in *.
    unfold num_in_range in *. cbn [num_int num_neg num_gt_max num_x2] in *.
    replace ((0 <=? ch) && (ch <? 4)) with true in * by lia.
    replace ((v <? 0) || (31 <? v)) with false in * by lia.
    pose proof Hok as (H0 & H1 & H2 & H3 & H4).
    replace (b_type brd =? 5) with true in * by (rewrite H2; unfold ifd_type;
      repeat match goal with |- context [i =? ?k] => replace (i =? k) with false by lia end; reflexivity).
    cbn [negb] in *.
    destruct (set_nth_some (Z.to_nat ch) (2 * v) (b_att brd)) as [a Ha]; [lia|].
    rewrite Ha in *. unfold ifd_store in *.
    destruct (put_board_some (dev s) i brd (with_att brd a) Hg) as [d1 Hp]. rewrite Hp in *.
    cbn [fst snd] in *. split; [reflexivity|].
    intros h t' Hq Hi' Ht'.
    destruct (ifd_quiet_att_chan i ch h _ (with_att brd a) Hs1 ltac:(lia) (get_put_same _ _ _ _ Hp) Hq)
      as (brd2 & Hg2 & Hf2).
    pose proof (ifd_run_sinv e h _ Hs1) as Hs2.
    destruct (ifd_status_from_idle e _ i t' Hs2 Hi' ltac:(lia) Ht') as (brd3 & Hg3 & Hok3 & Hrun).
    rewrite Hg2 in Hg3. injection Hg3 as <-.
    exists brd2. split; [|split; [exact Hok3|rewrite Hrun; reflexivity]].
    rewrite Hf2. cbn [b_att with_att]. eapply set_nth_eq; eauto.
  Qed.
End AttChannel.

(* ---- the two known findings, as refuted full statements (witnesses by computation) ---- *)
Definition fl_03 : fl :=       (* float('0.3') *)
  {| fl_int := None; fl_neg := false; fl_gt := false; fl_x2 := 0; fl_str := [48; 46; 51] |}.
Definition fl_1dot : fl :=     (* float('1.') *)
  {| fl_int := Some 1; fl_neg := false; fl_gt := false; fl_x2 := 2; fl_str := [49; 46; 48] |}.
Definition env_w : env := [([48; 46; 51], Some fl_03); ([49; 46], Some fl_1dot)].
Definition line_A503 : list Z := [65; 32; 53; 32; 48; 32; 48; 46; 51; 10].          (* A 5 0 0.3\n *)
Definition line_S_float : list Z := [83; 32; 48; 32; 49; 48; 32; 53; 48; 32; 49; 46; 10].  (* S 0 10 50 1.\n *)

(* F28: `A 5 0 0.3` is acknowledged but entry 5 of board 5 then reads 0, i.e. 0.0 dB, not 0.3 dB *)
Lemma ifd_att_offgrid_refuted :
  let (s1, outs) := ifd_run env_w ifd_init line_A503 in
  last outs OFalse = OReply ifd_ack /\
  option_map (fun b => nth_error (b_att b) 0) (get_board (dev s1) 5) = Some (Some 0).
Proof. vm_compute. auto. Qed.

(* `S 0 10 50 1.` raises ValueError (no reply) yet the LO frequency of board 0 is now 50 *)
Lemma ifd_refused_unchanged_refuted :
  exists e s b, ifd_reachable e s /\ snd (ifd_step e s b) = OValueError /\
                dev (fst (ifd_step e s b)) <> dev s.
Proof.
  exists env_w, (fst (ifd_run env_w ifd_init (removelast line_S_float))), 10.
  split; [eexists; reflexivity|]. split; [vm_compute; reflexivity|].
  intros H. apply (f_equal (fun d => option_map b_lo (get_board d 0))) in H.
  vm_compute in H. discriminate.
Qed.

Example ifd_reachable_example :
  let s := fst (ifd_run env_w ifd_init ([65; 32; 55; 32; 49; 32; 51; 10] ++ line_A503)) in
  ifd_reachable env_w s /\ sidle s = true /\
  option_map b_att (get_board (dev s) 7) = Some [63; 6; 63; 63].
Proof. cbv zeta. split; [eexists; reflexivity|]. vm_compute. auto. Qed.
