(* Aax — supersession of the tracking thread over a history: at most one tracking thread exists,
   so once a stop / new positioning command has left the trajectory state different from
   "tracking" nothing can set it back before the old tracking thread runs and ends. *)
From DS Require Import Base.Prelude Model.AaxModel Proofs.AaxArith Proofs.AaxStep Proofs.AaxProofs.

Definition is_track (m : mover) : bool := match m with MTrack _ _ _ _ => true | _ => false end.
Definition tracks (ms : list mover) : list mover := filter is_track ms.

Record TInv (st : sys) : Prop := mkTInv {
  t_one : (length (tracks (movers st)) <= 1)%nat;
  t_pta : pta (axs st) = false -> tracks (movers st) = [] }.

Lemma tracks_app ms m : tracks (ms ++ [m]) = tracks ms ++ (if is_track m then [m] else []).
Proof. unfold tracks. rewrite filter_app. cbn. now destruct (is_track m). Qed.

Lemma tracks_cons x r : tracks (x :: r) = if is_track x then x :: tracks r else tracks r.
Proof. reflexivity. Qed.

Lemma tracks_remove_move id ms i cnt kd tgt rate :
  find_mover id ms = Some (MMove i cnt kd tgt rate) -> tracks (remove_mover id ms) = tracks ms.
Proof.
  induction ms as [|x r IH]; cbn [find_mover remove_mover]; [discriminate|].
  destruct (mover_id x =? id) eqn:E.
  - intros [= ->]. reflexivity.
  - intros H. rewrite !tracks_cons, (IH H). reflexivity.
Qed.

Lemma tracks_remove_track id ms i cnt rate fin : (length (tracks ms) <= 1)%nat ->
  find_mover id ms = Some (MTrack i cnt rate fin) -> tracks (remove_mover id ms) = [].
Proof.
  induction ms as [|x r IH]; cbn [find_mover remove_mover]; [discriminate|].
  destruct (mover_id x =? id) eqn:E.
  - intros Hl [= ->]. rewrite tracks_cons in Hl. cbn [is_track length] in Hl.
    destruct (tracks r); [reflexivity|cbn in Hl; lia].
  - intros Hl H. rewrite tracks_cons in *. destruct (is_track x) eqn:Ex.
    + cbn [length] in Hl. apply find_mover_in in H as [Hin _].
      assert (In (MTrack i cnt rate fin) (tracks r)) by (apply filter_In; split; [assumption|reflexivity]).
      destruct (tracks r); [contradiction|cbn in Hl; lia].
    + apply IH; assumption.
Qed.

Lemma tracks_replace_len id ms i cnt rate fin m' : is_track m' = true ->
  find_mover id ms = Some (MTrack i cnt rate fin) ->
  length (tracks (replace_mover id m' ms)) = length (tracks ms).
Proof.
  intros Hm'. induction ms as [|x r IH]; cbn [find_mover replace_mover]; [discriminate|].
  destruct (mover_id x =? id) eqn:E.
  - intros [= ->]. rewrite !tracks_cons, Hm'. reflexivity.
  - intros H. rewrite !tracks_cons. destruct (is_track x); cbn [length]; rewrite (IH H); reflexivity.
Qed.

Lemma move_tick_pta_traj c s cnt kd tgt rate d :
  pta (fst (move_tick c s cnt kd tgt rate d)) = pta s /\
  traj (fst (move_tick c s cnt kd tgt rate d)) = traj s.
Proof.
  unfold move_tick, finish. destruct (opt_is (cur s) cnt); [|split; reflexivity].
  destruct (_ && _); axs; destruct (_ =? tgt); try destruct kd; split; reflexivity.
Qed.

Lemma tr_body_pta c s rate nx k : pta (fst (fst (tr_body c s rate nx k))) = pta s.
Proof.
  unfold tr_body. destruct (truthy nx && _); [|reflexivity].
  assert (H2 : pta (fst (fst (tr_pt2 c s rate (oval nx) k))) = pta s).
  { unfold tr_pt2. destruct (ptst s =? 2); axs; [|reflexivity]. destruct (p s =? _); reflexivity. }
  destruct (tr_pt2 c s rate (oval nx) k) as [[s2 p2] v2]. cbn [fst] in H2.
  assert (H4 : pta (fst (fst (tr_pt4 c s2 (oval nx) p2))) = pta s2).
  { unfold tr_pt4. destruct (ptst s2 =? 4); axs; [|reflexivity]. destruct (p s2 =? _); reflexivity. }
  destruct (tr_pt4 c s2 (oval nx) p2) as [[s4 p4] go]. cbn [fst] in H4.
  assert (H3 : pta (fst (fst (tr_pt3 c s4 p4 v2 go k))) = pta s4).
  { unfold tr_pt3. destruct (_ || _); reflexivity. }
  congruence.
Qed.

Lemma track_tick_pta c s cnt rate fin k :
  match track_tick c s cnt rate fin k with
  | (s', Some _) => pta s' = pta s
  | (s', None) => pta s' = false
  end.
Proof.
  unfold track_tick. destruct (_ && _); [reflexivity|].
  destruct (tr_select (set_traj 7 s) fin) as [nx fin'].
  pose proof (tr_body_pta c (set_traj 7 s) rate nx k) as H.
  destruct (tr_body c (set_traj 7 s) rate nx k) as [[s1 p1] v1]. cbn [fst] in *. axs. exact H.
Qed.

Lemma tinv_init c p0 : TInv (init c p0).
Proof. constructor; cbn; [lia|reflexivity]. Qed.

Lemma tinv_step c st e : TInv st -> TInv (step c st e).
Proof.
  intros [H1 H2]. destruct e as [cnt cm|id k| |nx pt bahn|z|z]; cbn [step].
  - unfold cmd_step.
    destruct cm; axs; try (constructor; cbn [axs movers]; axs; assumption).
    + (* preset absolute *) constructor; cbn [axs movers]; axs; rewrite tracks_app; cbn; rewrite app_nil_r; assumption.
    + constructor; cbn [axs movers]; axs; rewrite tracks_app; cbn; rewrite app_nil_r; assumption.
    + constructor; cbn [axs movers]; axs; rewrite tracks_app; cbn; rewrite app_nil_r; assumption.
    + (* program track *)
      destruct (pta (axs st)) eqn:Ep; constructor; cbn [axs movers]; axs.
      * assumption.
      * intros; congruence.
      * rewrite tracks_app, (H2 eq_refl). cbn. lia.
      * discriminate.
    + destruct (has_stow c); constructor; cbn [axs movers]; axs; assumption.
    + destruct (has_stow c); constructor; cbn [axs movers]; axs; assumption.
    + destruct (has_stow c); [|constructor; cbn [axs movers]; axs; assumption].
      destruct (nthZ (stows c) idx); constructor; cbn [axs movers]; axs; try assumption;
        rewrite tracks_app; cbn; rewrite app_nil_r; assumption.
  - rewrite tick_movers_spec.
    destruct (find_mover id (movers st)) as [[i cnt kd tgt rate|i cnt rate fin]|] eqn:Ef.
    + pose proof (move_tick_pta_traj c (axs st) cnt kd tgt rate (disp rate k)) as [Hp _].
      destruct (move_tick c (axs st) cnt kd tgt rate (disp rate k)) as [s' [|]]; cbn [fst] in Hp;
        constructor; cbn [axs movers]; rewrite ?(tracks_remove_move _ _ _ _ _ _ _ Ef), ?Hp; assumption.
    + pose proof (track_tick_pta c (axs st) cnt rate fin k) as Hp.
      destruct (track_tick c (axs st) cnt rate fin k) as [s' [[cnt' fin']|]]; constructor; cbn [axs movers].
      * rewrite (tracks_replace_len id (movers st) i cnt rate fin (MTrack i cnt' rate fin') eq_refl Ef). assumption.
      * rewrite Hp. intros Hf. specialize (H2 Hf). apply find_mover_in in Ef as [Hin _].
        assert (In (MTrack i cnt rate fin) (tracks (movers st))) by (apply filter_In; split; [assumption|reflexivity]).
        rewrite H2 in H. contradiction.
      * rewrite (tracks_remove_track _ _ _ _ _ _ H1 Ef). cbn. lia.
      * intros _. apply (tracks_remove_track _ _ _ _ _ _ H1 Ef).
    + constructor; assumption.
  - constructor; cbn [axs movers]; [assumption|].
    unfold update_status. destruct (has_stow c); axs;
      repeat match goal with |- context [if ?b then _ else _] => destruct b end; axs; assumption.
  - constructor; assumption.
  - constructor; cbn [axs movers]; [assumption|]. destruct (_ && _); assumption.
  - constructor; cbn [axs movers]; [assumption|]. destruct (_ && _); assumption.
Qed.

Lemma reach_tinv c p0 st : reach c p0 st -> TInv st.
Proof. induction 1; [apply tinv_init|now apply tinv_step]. Qed.

Lemma cmd_step_traj_keep c s id cnt cm : traj s <> 7 -> traj (fst (cmd_step c s id cnt cm)) <> 7.
Proof.
  intros H. unfold cmd_step. destruct cm; axs; try lia; try assumption.
  - destruct (pta _); assumption.
  - destruct (has_stow c); assumption.
  - destruct (has_stow c); assumption.
  - destruct (has_stow c); [|assumption]. destruct (nthZ (stows c) idx); axs; [lia|assumption].
Qed.

(* an event that is not an iteration of the (only) tracking thread keeps "not tracking" *)
Lemma step_traj_keep c st e id cnt rate fin : TInv st -> In (MTrack id cnt rate fin) (movers st) ->
  (forall k, e <> ETick id k) -> traj (axs st) <> 7 -> traj (axs (step c st e)) <> 7.
Proof.
  intros [H1 _] Hin Hne Htr. destruct e as [cnt' cm|i k| |nx pt bahn|z|z]; cbn [step].
  - pose proof (cmd_step_traj_keep c (axs st) (nid st) cnt' cm Htr) as H.
    destruct (cmd_step c (axs st) (nid st) cnt' cm) as [s' [m'|]]; exact H.
  - rewrite tick_movers_spec.
    destruct (find_mover i (movers st)) as [[i' c' kd tgt r'|i' c' r' f']|] eqn:Ef; [| |exact Htr].
    + pose proof (move_tick_pta_traj c (axs st) c' kd tgt r' (disp r' k)) as [_ Ht].
      destruct (move_tick c (axs st) c' kd tgt r' (disp r' k)) as [s' e']. cbn [fst axs] in *. congruence.
    + exfalso. apply find_mover_in in Ef as [Hin' Hid'].
      assert (A : In (MTrack id cnt rate fin) (tracks (movers st))) by (apply filter_In; split; [assumption|reflexivity]).
      assert (B : In (MTrack i' c' r' f') (tracks (movers st))) by (apply filter_In; split; [assumption|reflexivity]).
      destruct (tracks (movers st)) as [|x [|y l]]; cbn in H1; [contradiction| |lia].
      destruct A as [A|[]]. destruct B as [B|[]]. rewrite A in B. injection B as E1 _ _ _.
      cbn in Hid'. apply (Hne k). now rewrite E1, Hid'.
  - destruct (update_status_frame c (axs st)) as (_&_&_&_&_&_&_&_&Ht). cbn [axs]. congruence.
  - exact Htr.
  - cbn [axs]. destruct (_ && _); exact Htr.
  - cbn [axs]. destruct (_ && _); exact Htr.
Qed.

Definition quiet_t (id : Z) (cnt : option Z) (e : event) : Prop :=
  match e with
  | ETick i _ => i <> id
  | ECmd n _ => Some n <> cnt
  | _ => True
  end.

Section TrackSupersession.
Variable c : cfg.
Variable p0 : Z.
Hypothesis Hwf : wf_cfg c.
Hypothesis Hp0 : in_range c p0.

(* C15 (f) for the tracking thread: a stop / preset / relative preset / slew whose counter differs
   from the tracking thread's ends tracking within one iteration of that thread, whatever other
   events come in between *)
Theorem stop_or_newer_command_ends_tracking es : forall st id cnt rate fin cnt' cm k,
  reach c p0 st -> In (MTrack id cnt rate fin) (movers st) ->
  ends_tracking c cm = true -> cnt <> Some cnt' -> accepted c (axs st) cm ->
  let st1 := step c st (ECmd cnt' cm) in
  all_ok c st1 es -> Forall (quiet_t id cnt) es ->
  let st2 := run c st1 es in
  let st3 := step c st2 (ETick id k) in
  p (axs st3) = p (axs st2) /\ v (axs st3) = 0 /\ pta (axs st3) = false /\
  ~ In id (map mover_id (movers st3)).
Proof.
  intros st id cnt rate fin cnt' cm k Hreach Hin He Hne Hacc st1 Hok Hq st2 st3.
  assert (Hsup : supersedes c cm = true) by (destruct cm; try discriminate; reflexivity).
  assert (Hreach1 : reach c p0 st1) by (apply reach_step; assumption).
  assert (Hin1 : In (MTrack id cnt rate fin) (movers st1)) by (apply step_keeps_mover; [assumption|discriminate]).
  destruct (command_supersedes c st cnt' cm Hsup) as [Hc1 Ht1]. specialize (Ht1 He).
  fold st1 in Hc1, Ht1.
  assert (Hgen : forall es st1, reach c p0 st1 -> In (MTrack id cnt rate fin) (movers st1) ->
            cnt <> cur (axs st1) -> traj (axs st1) <> 7 -> all_ok c st1 es -> Forall (quiet_t id cnt) es ->
            reach c p0 (run c st1 es) /\ In (MTrack id cnt rate fin) (movers (run c st1 es)) /\
            cnt <> cur (axs (run c st1 es)) /\ traj (axs (run c st1 es)) <> 7).
  { clear - Hwf Hp0. induction es as [|e r IH]; intros s1 Hr Hi Hc Ht Hok Hq; [cbn; tauto|].
    destruct Hok as [Hok1 Hok2]. inversion Hq as [|? ? Hq1 Hq2]; subst.
    cbn [run fold_left]. apply IH; try assumption.
    - now apply reach_step.
    - apply step_keeps_mover; [assumption|]. cbn [mover_id]. intros k' ->. now apply Hq1.
    - destruct (step_cur c s1 e) as [->|(n & cm' & -> & ->)]; [assumption|].
      cbn in Hq1. congruence.
    - apply (step_traj_keep c s1 e id cnt rate fin); try assumption.
      + now apply (reach_tinv c p0).
      + intros k' ->. now apply Hq1. }
  assert (Hc1' : cnt <> cur (axs st1)) by (rewrite Hc1; assumption).
  destruct (Hgen es st1 Hreach1 Hin1 Hc1' Ht1 Hok Hq) as (Hr2 & Hi2 & Hc2 & Ht2).
  exact (superseded_track_one_tick c p0 Hwf Hp0 st2 id cnt rate fin k Hr2 Hi2 Hc2 Ht2).
Qed.
End TrackSupersession.
