(* Minor-servo PLC (tag Msv): structural lemmas about Model/MsvModel.v, valid for EVERY instance of
   the number operations (so in particular for the bit-exact binary64 instance). *)
From DS Require Import Base.Prelude Model.MsvTypes Model.MsvModel.

Section Proofs.
Context {T : Type} (ops : numops T) (orc : oracles T) (cf : cfg T).

Notation sc_loop := (sc_loop ops).
Notation set_coords := (set_coords ops).
Notation get_status := (get_status ops).

(* the device state: everything but the receive buffer *)
Definition dev (s : sys T) := (s_conf s, s_gcap s, s_cover s, s_last s, s_servos s).

(* value checked and stored for a cell by set_coords *)
Definition cell_value (apply : bool) (offs : list T) (j : nat) (x : T) : option T :=
  if apply then option_map (nadd ops x) (nth_error offs j) else Some x.

(* a value the range check of set_coords accepts on axis j *)
Definition accepted_on (sc : sconf T) (j : nat) (v : T) : Prop :=
  nfinite ops v = true /\
  exists lo hi, nth_error (sc_min sc) j = Some lo /\ nth_error (sc_max sc) j = Some hi /\
                nlt ops v lo = false /\ nlt ops hi v = false.

(* ---------------------------------------------------------------------------------------------- *)
(* set_coords *)

Lemma cons_res_ok (x : T) (r : scres T) (l : list T) : cons_res x r = SOk l -> exists l', r = SOk l' /\ l = x :: l'.
Proof. destruct r; cbn; intros H; try discriminate. injection H as <-. eauto. Qed.

Lemma sc_loop_ok : forall vals apply sc cmd offs i l,
  sc_loop apply sc cmd offs i vals = SOk l ->
  length l = length vals /\
  forall k, match nth_error vals k with
            | None => True
            | Some None => nth_error l k = nth_error cmd (i + k) /\ nth_error cmd (i + k) <> None
            | Some (Some x) => exists v, cell_value apply offs (i + k) x = Some v /\
                                         nth_error l k = Some v /\ accepted_on sc (i + k) v
            end.
Proof.
  induction vals as [|v vs IH]; intros apply sc cmd offs i l H.
  - cbn in H. injection H as <-. split; [reflexivity|]. intros [|k]; cbn; exact I.
  - cbn [MsvModel.sc_loop] in H. destruct v as [x|].
    + fold (cell_value apply offs i x) in H.
      destruct (cell_value apply offs i x) as [v|] eqn:Hv; [|discriminate].
      destruct (negb (nfinite ops v)) eqn:Hf; [discriminate|].
      destruct (nth_error (sc_min sc) i) as [lo|] eqn:Hlo; [|discriminate].
      destruct (nth_error (sc_max sc) i) as [hi|] eqn:Hhi; [|discriminate].
      destruct (nlt ops v lo || nlt ops hi v) eqn:Hr; [discriminate|].
      apply cons_res_ok in H as (l' & Hl' & ->).
      apply IH in Hl' as [Hlen Hk]. split; [cbn; congruence|].
      intros [|k].
      * cbn. rewrite Nat.add_0_r. exists v. split; [exact Hv|]. split; [reflexivity|].
        split; [destruct (nfinite ops v); [reflexivity|discriminate]|].
        exists lo, hi. apply orb_false_iff in Hr as [? ?]. auto.
      * cbn [nth_error]. specialize (Hk k). replace (i + S k)%nat with (S i + k)%nat by lia. exact Hk.
    + destruct (nth_error cmd i) as [c|] eqn:Hc; [|discriminate].
      apply cons_res_ok in H as (l' & Hl' & ->).
      apply IH in Hl' as [Hlen Hk]. split; [cbn; congruence|].
      intros [|k].
      * cbn. rewrite Nat.add_0_r. rewrite Hc. split; [reflexivity|discriminate].
      * cbn [nth_error]. specialize (Hk k). replace (i + S k)%nat with (S i + k)%nat by lia. exact Hk.
Qed.

Lemma cons_res_refused (x : T) (r : scres T) : cons_res x r = SRefused -> r = SRefused.
Proof. destruct r; cbn; intros H; congruence. Qed.

(* a refusal has a genuine offender: some tabulated/commanded value is not finite or outside *)
Lemma sc_loop_refused : forall vals apply sc cmd offs i,
  sc_loop apply sc cmd offs i vals = SRefused ->
  exists k x v, nth_error vals k = Some (Some x) /\ cell_value apply offs (i + k) x = Some v /\
                ~ accepted_on sc (i + k) v.
Proof.
  induction vals as [|v vs IH]; intros apply sc cmd offs i H; [discriminate|].
  cbn [MsvModel.sc_loop] in H. destruct v as [x|].
  - fold (cell_value apply offs i x) in H.
    destruct (cell_value apply offs i x) as [v|] eqn:Hv; [|discriminate].
    destruct (negb (nfinite ops v)) eqn:Hf.
    { exists 0%nat, x, v. rewrite Nat.add_0_r. split; [reflexivity|]. split; [exact Hv|].
      intros [Hfin _]. rewrite Hfin in Hf. discriminate. }
    destruct (nth_error (sc_min sc) i) as [lo|] eqn:Hlo; [|discriminate].
    destruct (nth_error (sc_max sc) i) as [hi|] eqn:Hhi; [|discriminate].
    destruct (nlt ops v lo || nlt ops hi v) eqn:Hr.
    { exists 0%nat, x, v. rewrite Nat.add_0_r. split; [reflexivity|]. split; [exact Hv|].
      intros [_ (lo' & hi' & H1 & H2 & H3 & H4)]. rewrite Hlo in H1. rewrite Hhi in H2.
      injection H1 as <-. injection H2 as <-. rewrite H3, H4 in Hr. discriminate. }
    apply cons_res_refused in H. apply IH in H as (k & x' & v' & H1 & H2 & H3).
    exists (S k), x', v'. replace (i + S k)%nat with (S i + k)%nat by lia. auto.
  - destruct (nth_error cmd i) as [c|] eqn:Hc; [|discriminate].
    apply cons_res_refused in H. apply IH in H as (k & x' & v' & H1 & H2 & H3).
    exists (S k), x', v'. replace (i + S k)%nat with (S i + k)%nat by lia. auto.
Qed.

(* with lists as long as the row, set_coords raises no IndexError *)
Lemma sc_loop_no_error : forall vals apply sc cmd offs i,
  (i + length vals <= length cmd)%nat -> (i + length vals <= length offs)%nat ->
  (i + length vals <= length (sc_min sc))%nat -> (i + length vals <= length (sc_max sc))%nat ->
  sc_loop apply sc cmd offs i vals <> SError.
Proof.
  induction vals as [|v vs IH]; intros apply sc cmd offs i H1 H2 H3 H4; [discriminate|].
  cbn [length] in *. cbn [MsvModel.sc_loop].
  assert (Hn : forall (l : list T), (i + S (length vs) <= length l)%nat -> nth_error l i <> None).
  { intros l Hl. apply nth_error_Some. lia. }
  assert (IH' : sc_loop apply sc cmd offs (S i) vs <> SError) by (apply IH; lia).
  assert (Hc : forall r x, r <> SError -> cons_res x r <> @SError T).
  { intros r x Hr. destruct r; cbn; congruence. }
  destruct v as [x|].
  - assert (Hv : exists v, (if apply then option_map (nadd ops x) (nth_error offs i) else Some x) = Some v).
    { destruct apply; [|eauto]. destruct (nth_error offs i) eqn:Ho; [cbn; eauto|exfalso; exact (Hn offs H2 Ho)]. }
    destruct Hv as [v ->].
    destruct (negb _); [discriminate|].
    destruct (nth_error (sc_min sc) i) eqn:Hlo; [|exfalso; exact (Hn _ H3 Hlo)].
    destruct (nth_error (sc_max sc) i) eqn:Hhi; [|exfalso; exact (Hn _ H4 Hhi)].
    destruct (_ || _); [discriminate|]. apply Hc, IH'.
  - destruct (nth_error cmd i) eqn:Hci; [|exfalso; exact (Hn _ H1 Hci)].
    apply Hc, IH'.
Qed.

(* without '*' cells the commanded list is not read *)
Lemma sc_loop_cmd_irrel : forall xs apply sc cmd cmd' offs i,
  sc_loop apply sc cmd offs i (map Some xs) = sc_loop apply sc cmd' offs i (map Some xs).
Proof.
  induction xs as [|x xs IH]; intros; [reflexivity|]. cbn [map MsvModel.sc_loop].
  destruct (if apply then _ else _); [|reflexivity]. destruct (negb _); [reflexivity|].
  destruct (nth_error (sc_min sc) i); [|reflexivity]. destruct (nth_error (sc_max sc) i); [|reflexivity].
  destruct (_ || _); [reflexivity|]. rewrite (IH apply sc cmd cmd' offs (S i)). reflexivity.
Qed.

(* set_coords: a refusal or an error leaves the servo untouched; success rewrites exactly
   cmd_coords / future_oper_mode (and ends any aliasing) *)
Lemma set_coords_not_true sc sv vals fm ap sv' r :
  set_coords sc sv vals fm ap = (sv', r) -> r <> Some true -> sv' = sv.
Proof.
  unfold MsvModel.set_coords. destruct (sc_loop _ _ _ _ _ _); intros H Hr; injection H as <- <-; congruence.
Qed.

Lemma set_coords_true sc sv vals fm ap sv' :
  set_coords sc sv vals fm ap = (sv', Some true) ->
  exists l, sc_loop ap sc (sv_cmd sv) (sv_offs sv) 0 vals = SOk l /\ sv' = commit_coords sv l fm.
Proof.
  unfold MsvModel.set_coords. destruct (sc_loop _ _ _ _ _ _) eqn:E; intros H; injection H as <-; try discriminate.
  eauto.
Qed.

(* ---------------------------------------------------------------------------------------------- *)
(* update helpers *)

Lemma upd_length {A} i (x : A) l : length (upd i x l) = length l.
Proof. revert i; induction l as [|y l IH]; intros [|i]; cbn; auto. Qed.

Lemma nth_upd_same {A} i (x y : A) l : nth_error l i = Some y -> nth_error (upd i x l) i = Some x.
Proof. revert i; induction l as [|z l IH]; intros [|i]; cbn; intros H; try discriminate; auto. Qed.

Lemma nth_upd_other {A} i j (x : A) l : i <> j -> nth_error (upd i x l) j = nth_error l j.
Proof.
  revert i j; induction l as [|z l IH]; intros [|i] [|j] H; cbn; auto; try congruence.
Qed.

Lemma upd_same_id {A} i (x : A) l : nth_error l i = Some x -> upd i x l = l.
Proof.
  revert i; induction l as [|z l IH]; intros [|i]; cbn; intros H; try discriminate; auto.
  - congruence.
  - f_equal; auto.
Qed.

(* ---------------------------------------------------------------------------------------------- *)
(* refused commands change nothing (every handler) *)

Ltac bad_tac :=
  repeat match goal with
  | H : (_, _) = (_, _) |- _ => injection H as <- <-
  | H : bad _ = (_, _) |- _ => unfold bad in H
  | |- context [match ?x with _ => _ end] => destruct x eqn:?
  | H : context [match ?x with _ => _ end] |- _ => destruct x eqn:?
  | H : context [if ?x then _ else _] |- _ => destruct x eqn:?
  end; try congruence; try reflexivity; try discriminate.

Lemma h_status_bad s e args s' : h_status ops orc cf s e args = (s', RBad) -> s' = s.
Proof.
  unfold h_status, good_opt. intros H.
  destruct args as [|a [|b r]]; bad_tac.
Qed.

Lemma h_setup_bad s e args s' : h_setup ops cf s e args = (s', RBad) -> s' = s.
Proof. unfold h_setup. intros H. destruct args as [|a [|b r]]; bad_tac. Qed.

Lemma h_stow_bad s e args s' : h_stow orc cf s e args = (s', RBad) -> s' = s.
Proof. unfold h_stow. intros H. destruct args as [|a [|b [|c r]]]; bad_tac. Qed.

Lemma h_stop_bad s e args s' : h_stop cf s e args = (s', RBad) -> s' = s.
Proof. unfold h_stop. intros H. destruct args as [|a [|b r]]; bad_tac. Qed.

Lemma h_preset_bad s e args s' : h_preset ops orc cf s e args = (s', RBad) -> s' = s.
Proof. unfold h_preset. intros H. destruct args as [|a [|b r]]; bad_tac. Qed.

Lemma h_offset_bad s e args s' : h_offset orc cf s e args = (s', RBad) -> s' = s.
Proof. unfold h_offset. intros H. destruct args as [|a [|b r]]; bad_tac. Qed.

(* arithmetic law used by _programTrack: the time of point 0 of a trajectory whose start time is not in
   the past is not in the past either ( start + 0 * gap ); holds for binary64 and for the reals
   (Proofs/MsvGen.v) *)
Definition pt_law : Prop := forall t0 now, nlt ops t0 now = false ->
  nlt ops (nadd ops t0 (nmul ops (nofZ ops 0) (c_gap cf))) now = false.

Lemma pt_book_bad e tk tid pid st tk' : pt_law -> pt_book ops orc cf e tk tid pid st = PtBad tk' -> tk' = tk.
Proof.
  intros Hlaw. unfold pt_book, pt_stage1.
  destruct (zlist_eqb st [42]).
  - destruct (negb (opt_z_eqb tid (tk_id tk))); [intros H; injection H as <-; reflexivity|].
    destruct (tk_pid tk) as [p|]; [|discriminate].
    destruct (negb (pid =? p + 1)); [intros H; injection H as <-; reflexivity|].
    destruct (tk_start tk) as [start|]; [|discriminate].
    unfold pt_finish. destruct (nlt ops _ (e_now e)); [intros H; injection H as <-; reflexivity|].
    destruct (_ <? _)%nat; [destruct (e_pt_ok e)|]; discriminate.
  - destruct (pyfloat orc st) as [t0|]; [|intros H; injection H as <-; reflexivity].
    destruct (c_start_check cf && negb (nfinite ops t0)); [intros H; injection H as <-; reflexivity|].
    destruct (nlt ops t0 (e_now e)) eqn:Hp; [intros H; injection H as <-; reflexivity|].
    destruct (pid =? 0) eqn:Hpid; cbn [negb]; [|intros H; injection H as <-; reflexivity].
    apply Z.eqb_eq in Hpid. subst pid. unfold pt_finish. rewrite (Hlaw t0 (e_now e) Hp).
    destruct (_ <? _)%nat; [destruct (e_pt_ok e)|]; discriminate.
Qed.

Lemma set_trk_same (sv : servo T) : set_trk sv (sv_mode sv) (sv_trk sv) = sv.
Proof. destruct sv. reflexivity. Qed.

Lemma set_servo_same (s : sys T) i sv : nth_error (s_servos s) i = Some sv -> set_servo s i sv = s.
Proof. intros H. destruct s. unfold set_servo. cbn in *. f_equal. apply upd_same_id. exact H. Qed.

Lemma h_programtrack_bad s e args s' : pt_law -> h_programtrack ops orc cf s e args = (s', RBad) -> s' = s.
Proof.
  intros Hlaw. unfold h_programtrack, bad. destruct args as [|sid rest]; [intros H; injection H as <-; reflexivity|].
  destruct (find_servo sid 0 (c_servos cf)) as [[i sc]|]; [|intros H; injection H as <-; reflexivity].
  destruct (negb (sc_pt sc)); [intros H; injection H as <-; reflexivity|].
  destruct (negb _); [intros H; injection H as <-; reflexivity|].
  destruct rest as [|tid [|pid [|st toks]]]; try (intros H; injection H as <-; reflexivity).
  destruct (nth_error (s_servos s) i) as [sv|] eqn:Hsv; [|discriminate].
  destruct (pyint orc tid) as [tidz|]; [|intros H; injection H as <-; reflexivity].
  destruct (pyint orc pid) as [pidz|]; [|intros H; injection H as <-; reflexivity].
  destruct (pt_coords ops orc toks (sv_offs sv)) as [[l|]|]; try discriminate;
    [|intros H; injection H as <-; reflexivity].
  destruct (pt_book ops orc cf e (sv_trk sv) tidz pidz st) as [tk|tk|tk] eqn:Hb; try discriminate.
  intros H. injection H as <-. apply pt_book_bad in Hb; [|exact Hlaw]. subst tk.
  rewrite set_trk_same. apply set_servo_same. exact Hsv.
Qed.

Lemma dispatch_bad h f s e args s' : pt_law ->
  dispatch ops orc cf h = Some f -> f s e args = (s', RBad) -> s' = s.
Proof.
  unfold dispatch. intros Hlaw Hd Hf.
  repeat match type of Hd with
  | (if ?c then _ else _) = _ => destruct c
  end; try discriminate; injection Hd as <-;
  eauto using h_status_bad, h_setup_bad, h_stow_bad, h_stop_bad, h_preset_bad, h_offset_bad,
              h_programtrack_bad.
Qed.

(* ---------------------------------------------------------------------------------------------- *)
(* text level: a BAD reply line means nothing changed *)

Fixpoint prefixb (p l : list Z) : bool :=
  match p, l with
  | [], _ => true
  | a :: p', b :: l' => (a =? b) && prefixb p' l'
  | _ :: _, [] => false
  end.

Lemma prefixb_app p x : prefixb p (p ++ x) = true.
Proof. induction p as [|a p IH]; cbn; [reflexivity|]. rewrite Z.eqb_refl. exact IH. Qed.

(* GOOD and BAD reply lines cannot be confused (checked on the generated strings) *)
Definition replies_distinct : bool := negb (prefixb (c_good_prefix cf) (c_bad cf ++ crlf)).

Lemma good_not_bad e body : replies_distinct = true -> good orc cf e ++ body ++ crlf <> c_bad cf ++ crlf.
Proof.
  unfold replies_distinct, good. intros H E. rewrite <- E in H. rewrite <- app_assoc in H.
  rewrite prefixb_app in H. discriminate.
Qed.

Lemma execute_bad s e msg s' : pt_law -> replies_distinct = true ->
  execute ops orc cf s e msg = (s', OReply (c_bad cf ++ crlf)) -> s' = s.
Proof.
  intros Hlaw Hd. unfold execute. destruct (tokens msg) as [|c args]; [discriminate|].
  destruct (assoc c (c_commands cf)) as [h|]; [|intros H; injection H as <-; reflexivity].
  destruct (dispatch ops orc cf h) as [f|] eqn:Hf; [|discriminate].
  destruct (f s e args) as [s1 [| body |]] eqn:Hr; intros H; try discriminate.
  - injection H as <-. eapply dispatch_bad; eauto.
  - injection H as <- H. exfalso. eapply good_not_bad; eauto.
Qed.

Lemma parse_bad s e b s' : pt_law -> replies_distinct = true ->
  parse ops orc cf s e b = (s', OReply (c_bad cf ++ crlf)) -> dev s' = dev s /\ s_msg s' = [].
Proof.
  intros Hlaw Hd. unfold parse. destruct (ends_crlf (s_msg s ++ [b])); [|discriminate].
  intros H. apply execute_bad in H; [|exact Hlaw|exact Hd]. subst s'. split; reflexivity.
Qed.

(* ---------------------------------------------------------------------------------------------- *)
(* PRESET *)

Definition preset_servo (sv : servo T) (l : list T) : servo T :=
  mk_servo 0 40 (sv_coords sv) l (sv_offs sv) (sv_last sv) None false (sv_trk sv).

Lemma h_preset_cases s e sid toks i sc xs sv :
  toks <> [] ->
  find_servo sid 0 (c_servos cf) = Some (i, sc) ->
  length toks = sc_dof sc ->
  floats orc toks = Some xs ->
  nth_error (s_servos s) i = Some sv ->
  h_preset ops orc cf s e (sid :: toks) =
  match sc_loop true sc (sv_cmd sv) (sv_offs sv) 0 (map Some xs) with
  | SOk l => (set_last (set_servo s i (preset_servo sv l)) (e_now e), RGood [])
  | SRefused => (s, RBad)
  | SError => (s, RExc)
  end.
Proof.
  intros Hne Hf Hlen Hfl Hsv. unfold h_preset.
  destruct toks as [|t0 toks']; [congruence|].
  rewrite Hf. rewrite Hlen, Nat.eqb_refl. cbn [negb]. rewrite Hfl, Hsv.
  unfold MsvModel.set_coords at 1.
  destruct (sc_loop true sc (sv_cmd sv) (sv_offs sv) 0 (map Some xs)) as [l| |] eqn:E; try reflexivity.
  unfold MsvModel.set_coords. cbn [cancel_set_mode commit_coords sv_cmd sv_offs].
  rewrite (sc_loop_cmd_irrel xs true sc l (sv_cmd sv)), E. reflexivity.
Qed.

Lemma floats_length : forall toks xs, floats orc toks = Some xs -> length xs = length toks.
Proof.
  induction toks as [|t toks IH]; intros xs H; cbn in H.
  - injection H as <-. reflexivity.
  - destruct (pyfloat orc t); [|discriminate]. destruct (floats orc toks) as [l|]; [|discriminate].
    cbn in H. injection H as <-. cbn. f_equal. auto.
Qed.

(* an accepted PRESET: which state results, and what was commanded *)
Lemma h_preset_good s e args s' body :
  h_preset ops orc cf s e args = (s', RGood body) ->
  exists sid toks i sc xs sv l,
    args = sid :: toks /\ find_servo sid 0 (c_servos cf) = Some (i, sc) /\ length toks = sc_dof sc /\
    floats orc toks = Some xs /\ nth_error (s_servos s) i = Some sv /\
    s' = set_last (set_servo s i (preset_servo sv l)) (e_now e) /\ length l = length xs /\
    forall k x, nth_error xs k = Some x ->
      exists v, cell_value true (sv_offs sv) k x = Some v /\ nth_error l k = Some v /\ accepted_on sc k v.
Proof.
  intros H. destruct args as [|sid [|t0 toks]]; try (cbn in H; unfold bad in H; discriminate).
  destruct (find_servo sid 0 (c_servos cf)) as [[i sc]|] eqn:Hf;
    [|cbn in H; rewrite Hf in H; unfold bad in H; discriminate].
  destruct (length (t0 :: toks) =? sc_dof sc)%nat eqn:Hlen;
    [|unfold h_preset in H; rewrite Hf, Hlen in H; cbn [negb] in H; unfold bad in H; discriminate].
  destruct (floats orc (t0 :: toks)) as [xs|] eqn:Hfl;
    [|unfold h_preset in H; rewrite Hf, Hlen in H; cbn [negb] in H; rewrite Hfl in H; unfold bad in H;
      discriminate].
  destruct (nth_error (s_servos s) i) as [sv|] eqn:Hsv;
    [|unfold h_preset in H; rewrite Hf, Hlen in H; cbn [negb] in H; rewrite Hfl, Hsv in H; discriminate].
  apply Nat.eqb_eq in Hlen.
  rewrite (h_preset_cases s e sid (t0 :: toks) i sc xs sv) in H; auto; [|discriminate].
  destruct (sc_loop true sc (sv_cmd sv) (sv_offs sv) 0 (map Some xs)) as [l| |] eqn:El; try discriminate.
  injection H as <- _. exists sid, (t0 :: toks), i, sc, xs, sv, l.
  apply sc_loop_ok in El as [Hll Hk]. rewrite map_length in Hll.
  repeat (split; [assumption || reflexivity|]).
  intros k x Hx. specialize (Hk k). rewrite nth_error_map, Hx in Hk. cbn [option_map] in Hk. change (0 + k)%nat with k in Hk. exact Hk.
Qed.

(* the decision of PRESET on well-formed arguments: refused exactly when some coordinate plus its
   offset is not a value the axis accepts (not finite, below the minimum, above the maximum) *)
Lemma preset_decision s e sid toks i sc xs sv :
  toks <> [] -> find_servo sid 0 (c_servos cf) = Some (i, sc) -> length toks = sc_dof sc ->
  floats orc toks = Some xs -> nth_error (s_servos s) i = Some sv ->
  (sc_dof sc <= length (sv_offs sv))%nat -> (sc_dof sc <= length (sc_min sc))%nat ->
  (sc_dof sc <= length (sc_max sc))%nat ->
  ((exists k x v, nth_error xs k = Some x /\ cell_value true (sv_offs sv) k x = Some v /\ ~ accepted_on sc k v)
   -> h_preset ops orc cf s e (sid :: toks) = (s, RBad)) /\
  ((forall k x v, nth_error xs k = Some x -> cell_value true (sv_offs sv) k x = Some v -> accepted_on sc k v)
   -> exists l, h_preset ops orc cf s e (sid :: toks)
                = (set_last (set_servo s i (preset_servo sv l)) (e_now e), RGood []) /\
                length l = length xs /\
                forall k x, nth_error xs k = Some x -> nth_error l k = cell_value true (sv_offs sv) k x).
Proof.
  intros Hne Hf Hlen Hfl Hsv Lo Lmin Lmax.
  rewrite (h_preset_cases s e sid toks i sc xs sv); auto.
  pose proof (floats_length _ _ Hfl) as Lxs.
  assert (Hnoerr : sc_loop true sc (sv_cmd sv) (sv_offs sv) 0 (map Some xs) <> SError).
  { rewrite (sc_loop_cmd_irrel xs true sc (sv_cmd sv) xs). apply sc_loop_no_error; rewrite map_length; cbn; lia. }
  destruct (sc_loop true sc (sv_cmd sv) (sv_offs sv) 0 (map Some xs)) as [l| |] eqn:El; [| |congruence].
  - apply sc_loop_ok in El as [Hll Hk]. rewrite map_length in Hll. split.
    + intros (k & x & v & Hx & Hv & Hna). exfalso. specialize (Hk k). rewrite nth_error_map, Hx in Hk.
      cbn [option_map] in Hk. change (0 + k)%nat with k in Hk. destruct Hk as (v' & Hv' & _ & Hacc). rewrite Hv in Hv'. injection Hv' as <-. auto.
    + intros _. exists l. split; [reflexivity|]. split; [exact Hll|]. intros k x Hx.
      specialize (Hk k). rewrite nth_error_map, Hx in Hk. cbn [option_map] in Hk. change (0 + k)%nat with k in Hk. destruct Hk as (v & Hv & Hn & _).
      congruence.
  - split; [reflexivity|]. intros Hall. exfalso.
    apply sc_loop_refused in El as (k & x & v & Hx & Hv & Hna). rewrite nth_error_map in Hx.
    destruct (nth_error xs k) as [x'|] eqn:Ex; [|discriminate]. cbn [option_map] in Hx. injection Hx as ->.
    change (0 + k)%nat with k in Hv, Hna. eauto.
Qed.

(* ---------------------------------------------------------------------------------------------- *)
(* SETUP *)

Definition setup_servo (sc : sconf T) (sv : servo T) (row : list (option T)) : servo T :=
  fst (set_coords sc (cancel_set_mode sv 0) row 10 false).

Lemma setup_loop_spec : forall scs rows svs svs',
  setup_loop ops scs rows svs = Some svs' ->
  length svs' = length svs /\
  forall j sc sv, nth_error scs j = Some sc -> nth_error svs j = Some sv ->
    exists row, nth_error rows j = Some row /\ nth_error svs' j = Some (setup_servo sc sv row).
Proof.
  induction scs as [|sc scs IH]; intros rows svs svs' H.
  - cbn in H. injection H as <-. split; [reflexivity|]. intros [|j]; discriminate.
  - cbn [setup_loop] in H. destruct svs as [|sv svs]; [discriminate|].
    destruct rows as [|row rows]; [discriminate|].
    destruct (set_coords sc (cancel_set_mode sv 0) row 10 false) as [sv1 [r|]] eqn:E; [|discriminate].
    destruct (setup_loop ops scs rows svs) as [tl|] eqn:Etl; [|discriminate].
    cbn in H. injection H as <-. apply IH in Etl as [Hlen Hj]. split; [cbn; congruence|].
    intros [|j] sc' sv' H1 H2; cbn in *.
    + injection H1 as <-. injection H2 as <-. exists row. split; [reflexivity|].
      unfold setup_servo. rewrite E. reflexivity.
    + eauto.
Qed.

Lemma setup_servo_spec sc sv row :
  let sv' := setup_servo sc sv row in
  sv_mode sv' = 0 /\ sv_timer sv' = None /\ sv_coords sv' = sv_coords sv /\ sv_offs sv' = sv_offs sv /\
  sv_last sv' = sv_last sv /\
  match sc_loop false sc (sv_cmd sv) (sv_offs sv) 0 row with
  | SOk l => sv_cmd sv' = l /\ sv_future sv' = 10
  | _ => sv_cmd sv' = sv_cmd sv /\ sv_future sv' = sv_future sv
  end.
Proof.
  unfold setup_servo, MsvModel.set_coords. cbn [cancel_set_mode sv_cmd sv_offs].
  destruct (sc_loop false sc (sv_cmd sv) (sv_offs sv) 0 row); cbn; auto 10.
Qed.

Lemma h_setup_good s e args s' body :
  h_setup ops cf s e args = (s', RGood body) ->
  exists name r svs', args = [name] /\ find_row name (c_table cf) = Some r /\
    setup_loop ops (c_servos cf) (tr_rows r) (s_servos s) = Some svs' /\
    s_servos s' = svs' /\ s_conf s' = tr_id r /\ s_last s' = Some (e_now e).
Proof.
  unfold h_setup. destruct args as [|name [|b r]]; try (unfold bad; discriminate).
  destruct (find_row name (c_table cf)) as [r|] eqn:Hr; [|unfold bad; discriminate].
  destruct (setup_loop ops (c_servos cf) (tr_rows r) (s_servos s)) as [svs|] eqn:E; [|discriminate].
  intros H. injection H as <- <-. exists name, r, svs. repeat split; auto.
Qed.

(* every cell of the row is a value set_coords accepts on its axis *)
Definition row_ok (sc : sconf T) (row : list (option T)) : Prop :=
  forall k x, nth_error row k = Some (Some x) -> accepted_on sc k x.

Lemma sc_loop_row_ok : forall row sc cmd offs i,
  (forall k x, nth_error row k = Some (Some x) -> accepted_on sc (i + k) x) ->
  (i + length row <= length cmd)%nat ->
  exists l, sc_loop false sc cmd offs i row = SOk l.
Proof.
  induction row as [|c row IH]; intros sc cmd offs i Hok Hlen; [cbn; eauto|].
  cbn [MsvModel.sc_loop]. cbn [length] in Hlen.
  destruct (IH sc cmd offs (S i)) as [l Hl].
  { intros k x Hk. replace (S i + k)%nat with (i + S k)%nat by lia. apply Hok. exact Hk. }
  { lia. }
  destruct c as [x|].
  - destruct (Hok 0%nat x eq_refl) as [Hfin (lo & hi & H1 & H2 & H3 & H4)].
    rewrite Nat.add_0_r in *. rewrite Hfin, H1, H2, H3, H4, Hl. cbn. eauto.
  - destruct (nth_error cmd i) eqn:Hc.
    + rewrite Hl. cbn. eauto.
    + apply nth_error_None in Hc. lia.
Qed.

(* SETUP from ANY state: a tabulated cell is commanded, a '*' cell keeps the commanded value *)
Lemma setup_cells s e args s' body j sc sv :
  h_setup ops cf s e args = (s', RGood body) ->
  nth_error (c_servos cf) j = Some sc -> nth_error (s_servos s) j = Some sv ->
  exists name r row sv',
    args = [name] /\ find_row name (c_table cf) = Some r /\ nth_error (tr_rows r) j = Some row /\
    nth_error (s_servos s') j = Some sv' /\
    sv_mode sv' = 0 /\ sv_timer sv' = None /\ sv_coords sv' = sv_coords sv /\ sv_offs sv' = sv_offs sv /\
    (forall k, nth_error row k = Some None -> nth_error (sv_cmd sv') k = nth_error (sv_cmd sv) k) /\
    (row_ok sc row -> (length row <= length (sv_cmd sv))%nat ->
       sv_future sv' = 10 /\ length (sv_cmd sv') = length row /\
       forall k x, nth_error row k = Some (Some x) -> nth_error (sv_cmd sv') k = Some x).
Proof.
  intros H Hsc Hsv. apply h_setup_good in H as (name & r & svs' & -> & Hr & Hloop & Hs' & _ & _).
  apply setup_loop_spec in Hloop as [_ Hj]. destruct (Hj j sc sv Hsc Hsv) as (row & Hrow & Hsv').
  exists name, r, row, (setup_servo sc sv row). rewrite Hs'.
  destruct (setup_servo_spec sc sv row) as (Hm & Ht & Hc & Ho & _ & Hcmd).
  repeat (split; [assumption || reflexivity|]). split.
  - intros k Hk. destruct (sc_loop false sc (sv_cmd sv) (sv_offs sv) 0 row) as [l| |] eqn:E.
    + destruct Hcmd as [-> _]. apply sc_loop_ok in E as [_ Hkk]. specialize (Hkk k). rewrite Hk in Hkk.
      cbn in Hkk. apply Hkk.
    + destruct Hcmd as [-> _]. reflexivity.
    + destruct Hcmd as [-> _]. reflexivity.
  - intros Hok Hlen.
    destruct (sc_loop_row_ok row sc (sv_cmd sv) (sv_offs sv) 0) as [l Hl]; [exact Hok|cbn; lia|].
    rewrite Hl in Hcmd. destruct Hcmd as [-> ->]. apply sc_loop_ok in Hl as [Hlen' Hkk].
    split; [reflexivity|]. split; [exact Hlen'|]. intros k x Hk. specialize (Hkk k). rewrite Hk in Hkk.
    destruct Hkk as (v & Hv & Hn & _). cbn in Hv. injection Hv as <-. exact Hn.
Qed.

(* ---------------------------------------------------------------------------------------------- *)
(* operative-mode sequence.  Between two commands addressed to it a servo is touched only by its
   timer firing and by status refreshes (STATUS=<servo> or the update thread): [qstep]. *)

Inductive quiet := QFire (tick : Z) | QStatus (sc : sconf T) (e : env T).
Definition qstep (sv : servo T) (q : quiet) : servo T :=
  match q with QFire t => fire_servo t sv | QStatus sc e => get_status sc e sv end.
Definition qrun (sv : servo T) (qs : list quiet) : servo T := fold_left qstep qs sv.

Lemma get_status_timer sc e sv : sv_timer (get_status sc e sv) = sv_timer sv.
Proof.
  unfold MsvModel.get_status.
  repeat match goal with |- context [if ?c then _ else _] => destruct c
                    | |- context [match ?x with _ => _ end] => destruct x end; reflexivity.
Qed.

Lemma get_status_offs sc e sv : sv_offs (get_status sc e sv) = sv_offs sv.
Proof.
  unfold MsvModel.get_status.
  repeat match goal with |- context [if ?c then _ else _] => destruct c
                    | |- context [match ?x with _ => _ end] => destruct x end; reflexivity.
Qed.

(* modes 20, 30, 50 are never left by a refresh *)
Lemma get_status_sticky sc e sv :
  sv_mode sv = 20 \/ sv_mode sv = 30 \/ sv_mode sv = 50 -> sv_mode (get_status sc e sv) = sv_mode sv.
Proof.
  intros H. unfold MsvModel.get_status.
  destruct (sv_mode sv =? 50) eqn:E50; [destruct (tk_pt (sv_trk sv)); destruct (tk_times (sv_trk sv)); reflexivity|].
  destruct ((sv_mode sv =? 20) || (sv_mode sv =? 30)) eqn:E23; [reflexivity|].
  exfalso. apply orb_false_iff in E23. lia.
Qed.

Definition moving (f : Z) (sv : servo T) : Prop :=
  sv_mode sv = 0 /\ sv_future sv = f /\ sv_timer sv = None.
Definition arrived (f : Z) (sv : servo T) : Prop :=
  sv_mode sv = f /\ sv_future sv = 0 /\ sv_timer sv = None /\ list_eq ops (sv_coords sv) (sv_cmd sv) = true.

(* after an accepted SETUP (f = 10) or PRESET (f = 40): the mode reads 0 until the refresh on which
   the coordinates equal the commanded ones, and f from then on *)
Lemma moving_or_arrived_step f sv q : f = 10 \/ f = 40 ->
  moving f sv \/ arrived f sv -> moving f (qstep sv q) \/ arrived f (qstep sv q).
Proof.
  intros Hf [(Hm & Hfu & Ht) | (Hm & Hfu & Ht & Heq)]; destruct q as [tick | sc e]; cbn [qstep].
  - left. unfold fire_servo. rewrite Ht. repeat split; assumption.
  - unfold MsvModel.get_status. rewrite Hm. cbn [Z.eqb orb].
    assert (Hnz : (sv_future sv =? 0) = false) by (apply Z.eqb_neq; lia).
    rewrite Hnz. cbn [negb]. rewrite orb_true_r.
    destruct (list_eq ops (move_all ops _ _ _ _) (sv_cmd sv)) eqn:E.
    + right. repeat split; cbn; auto.
    + left. repeat split; cbn; auto.
  - right. unfold fire_servo. rewrite Ht. repeat split; assumption.
  - right. unfold MsvModel.get_status.
    assert (H50 : (sv_mode sv =? 50) = false) by (apply Z.eqb_neq; lia).
    assert (H20 : (sv_mode sv =? 20) = false) by (apply Z.eqb_neq; lia).
    assert (H30 : (sv_mode sv =? 30) = false) by (apply Z.eqb_neq; lia).
    rewrite H50, H20, H30, Heq, Hfu. cbn. repeat split; assumption.
Qed.

Lemma moving_or_arrived f sv qs : f = 10 \/ f = 40 ->
  moving f sv \/ arrived f sv -> moving f (qrun sv qs) \/ arrived f (qrun sv qs).
Proof.
  intros Hf. revert sv. induction qs as [|q qs IH]; intros sv H; [exact H|].
  cbn. apply IH. apply moving_or_arrived_step; assumption.
Qed.

(* STOP: 30 at once and until the next command *)
Lemma stop_persists sv qs : sv_mode sv = 30 -> sv_timer sv = None ->
  sv_mode (qrun sv qs) = 30 /\ sv_timer (qrun sv qs) = None.
Proof.
  revert sv. induction qs as [|q qs IH]; intros sv Hm Ht; [auto|].
  cbn. apply IH; destruct q as [tick | sc e]; cbn [qstep].
  - unfold fire_servo. rewrite Ht. exact Hm.
  - rewrite get_status_sticky; auto.
  - unfold fire_servo. rewrite Ht. exact Ht.
  - rewrite get_status_timer. exact Ht.
Qed.

(* STOW: the timer set by the command fires at its tick whatever refreshes happen; from then on the
   mode reads 20 *)
Definition fires (t : Z) (q : quiet) : bool := match q with QFire tick => t <=? tick | _ => false end.

Lemma stowed_persists sv qs : sv_mode sv = 20 -> sv_timer sv = None ->
  sv_mode (qrun sv qs) = 20 /\ sv_timer (qrun sv qs) = None.
Proof.
  revert sv. induction qs as [|q qs IH]; intros sv Hm Ht; [auto|].
  cbn. apply IH; destruct q as [tick | sc e]; cbn [qstep].
  - unfold fire_servo. rewrite Ht. exact Hm.
  - rewrite get_status_sticky; auto.
  - unfold fire_servo. rewrite Ht. exact Ht.
  - rewrite get_status_timer. exact Ht.
Qed.

Lemma stow_sequence sv t qs : sv_timer sv = Some (t, 20) ->
  if existsb (fires t) qs
  then sv_mode (qrun sv qs) = 20 /\ sv_timer (qrun sv qs) = None
  else sv_timer (qrun sv qs) = Some (t, 20).
Proof.
  revert sv. induction qs as [|q qs IH]; intros sv Ht; [exact Ht|].
  cbn [existsb qrun fold_left]. destruct (fires t q) eqn:Hq; cbn [orb].
  - destruct q as [tick | sc e]; [|discriminate]. cbn in Hq. cbn [qstep]. unfold fire_servo. rewrite Ht, Hq.
    apply stowed_persists; reflexivity.
  - apply IH. destruct q as [tick | sc e]; cbn [qstep].
    + cbn in Hq. unfold fire_servo. rewrite Ht, Hq. exact Ht.
    + rewrite get_status_timer. exact Ht.
Qed.

(* what the accepted commands do to the addressed servo *)
Lemma h_stop_good s e args s' body : h_stop cf s e args = (s', RGood body) ->
  exists sid i sc sv, args = [sid] /\ find_servo sid 0 (c_servos cf) = Some (i, sc) /\
    nth_error (s_servos s) i = Some sv /\
    s' = set_last (set_servo s i (cancel_set_mode sv 30)) (e_now e).
Proof.
  unfold h_stop. destruct args as [|sid [|b r]]; try (unfold bad; discriminate).
  destruct (find_servo sid 0 (c_servos cf)) as [[i sc]|] eqn:Hf; [|unfold bad; discriminate].
  destruct (nth_error (s_servos s) i) as [sv|] eqn:Hsv; [|discriminate].
  intros H. injection H as <- <-. exists sid, i, sc, sv. auto.
Qed.

Definition stow_servo (e : env T) (sv : servo T) : servo T :=
  mk_servo 0 (sv_future sv) (sv_coords sv) (sv_cmd sv) (sv_offs sv) (sv_last sv)
           (Some (e_tick e + c_timer cf, 20)) (sv_alias sv) (sv_trk sv).

Lemma h_stow_good_servo s e sid pos i sc s' body :
  find_servo sid 0 (c_servos cf) = Some (i, sc) ->
  h_stow orc cf s e [sid; pos] = (s', RGood body) ->
  exists sv, nth_error (s_servos s) i = Some sv /\
             s' = set_last (set_servo s i (stow_servo e sv)) (e_now e).
Proof.
  intros Hf. unfold h_stow. rewrite Hf.
  destruct (pyint orc pos) as [p|]; [|destruct (zlist_eqb sid gcap_name); unfold bad; discriminate].
  destruct (zlist_eqb sid gcap_name); [discriminate|].
  destruct (nth_error (s_servos s) i) as [sv|] eqn:Hsv; [|discriminate].
  intros H. injection H as <- <-. exists sv. split; reflexivity.
Qed.

(* ---------------------------------------------------------------------------------------------- *)
(* framing (C03) *)

Lemma ends_crlf_app l : ends_crlf (l ++ [13; 10]) = true.
Proof.
  induction l as [|a l IH]; [reflexivity|].
  cbn [app]. destruct l as [|b l]; [reflexivity|]. destruct l as [|c l]; [reflexivity|].
  exact IH.
Qed.

Lemma ends_crlf_spec l : ends_crlf l = true -> exists l', l = l' ++ [13; 10].
Proof.
  induction l as [|a l IH]; [discriminate|].
  destruct l as [|b l]; [discriminate|]. destruct l as [|c l].
  - cbn. intros H. apply andb_true_iff in H as [H1 H2]. apply Z.eqb_eq in H1, H2. subst.
    exists []. reflexivity.
  - intros H. change (ends_crlf (b :: c :: l) = true) in H. apply IH in H as [l' ->].
    exists (a :: l'). reflexivity.
Qed.

(* the buffer after one byte: empty exactly when the byte completes a CRLF *)
Lemma parse_msg s e b :
  s_msg (fst (parse ops orc cf s e b)) = if ends_crlf (s_msg s ++ [b]) then [] else s_msg s ++ [b].
Proof.
  unfold parse. destruct (ends_crlf (s_msg s ++ [b])); [|reflexivity].
  unfold execute. cbn.
  repeat match goal with |- context [match ?x with _ => _ end] => destruct x eqn:? end; cbn;
    try reflexivity.
Abort.

End Proofs.
