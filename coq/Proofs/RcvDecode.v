(* Every reply of the receiver model decodes under the independent decoder Spec/RcvSpec.v and echoes
   the identity of the request (C04, receiver part). *)
From DS Require Import Base.Prelude Gen.RcvTables Model.RcvModel Spec.RcvSpec Proofs.RcvAssoc Proofs.RcvProofs Proofs.RcvBoards Proofs.RcvFraming.

#[local] Arguments mem : simpl never.

Definition data_kind (k : cmdk) : bool :=
  match k with
  | KInquiry | KVersion | KGetAddr | KGetTime | KGetFrame | KGetPort | KGetData => true
  | _ => false
  end.

Lemma in2 (c a b : Z) : mem c [a; b] = true -> c = a \/ c = b.
Proof.
  unfold mem. cbn. destruct (Z.eqb_spec c a); [auto|]. destruct (Z.eqb_spec c b); [auto|]. discriminate.
Qed.

Lemma classify_codes c k : classify c = Some k -> c = ext_code k \/ c = abbr_code k.
Proof.
  unfold classify.
  repeat match goal with
  | |- (if mem c ?l then _ else _) = _ -> _ =>
      let E := fresh "E" in destruct (mem c l) eqn:E;
      [intros H; injection H as <-; apply in2 in E; exact E|]
  end.
  discriminate.
Qed.

Lemma ext_range c : mem c CMD_EXT = rx_is_ext c.
Proof.
  unfold rx_is_ext. destruct (mem c CMD_EXT) eqn:E.
  - apply mem_in in E. cbn in E. symmetry. intuition (subst; reflexivity).
  - symmetry. apply Bool.not_true_is_false. intros H.
    assert (Hc : c = 65 \/ c = 66 \/ c = 67 \/ c = 68 \/ c = 69 \/ c = 70 \/ c = 71 \/ c = 72 \/ c = 73 \/
                 c = 74 \/ c = 75 \/ c = 76 \/ c = 77 \/ c = 78 \/ c = 79) by lia.
    assert (mem c CMD_EXT = true) by (intuition (subst; reflexivity)). congruence.
Qed.

Lemma stx_eot : CMD_STX = 2 /\ CMD_EOT = 4.
Proof. split; reflexivity. Qed.

Lemma has_data_codes k code :
  rx_has_data (ext_code k) code = (code =? 0) && data_kind k /\
  rx_has_data (abbr_code k) code = (code =? 0) && data_kind k.
Proof.
  unfold rx_has_data. destruct (code =? 0); destruct k; split; reflexivity.
Qed.

Lemma has_data_nonzero c code : code <> 0 -> rx_has_data c code = false.
Proof.
  intros H. unfold rx_has_data. destruct (Z.eqb_spec code 0); [contradiction|].
  rewrite andb_false_r. reflexivity.
Qed.

(* shape of an answer tail for command byte c *)
Definition tail_wf (c : Z) (tail : list Z) (tr : bool) : Prop :=
  tr = rx_is_ext c /\
  exists code, (tail = [code] /\ rx_has_data c code = false) \/
               (exists d, tail = code :: zlen d :: d /\ rx_has_data c code = true).

Section D.
  Variable clk : nat -> Z.
  Variable mkdate : list Z -> option Z.
  Variable render : Z -> option (list Z).
  Notation exec := (exec clk mkdate render).
  Notation exec_req := (exec_req clk mkdate render).
  Notation run_targets := (run_targets clk mkdate render).
  Notation handle := (handle clk mkdate render).

  Ltac unf := unfold RcvModel.exec, gen_get, get_data, set_data, fin, store, dio_value, get_extra, with_data.
  Ltac go := repeat (progress (unf; cbn [b_com b_kind e_board e_ans e_tick]; brk)).

  (* the answer of a command: code alone, or ACK + length + data for the commands that return data *)
  Lemma exec_shape keys b t k ext cid p code extra :
    e_ans (exec keys b t k ext cid p) = Some (code, extra) ->
    (extra = [] /\ (code =? 0) && data_kind k = false) \/
    (exists d, extra = zlen d :: d /\ code = 0 /\ data_kind k = true).
  Proof.
    destruct b as [c kd].
    destruct k; go; intros H; try discriminate; injection H as <- <-;
      first [ left; split; reflexivity | left; split; [reflexivity|apply andb_false_r]
            | right; eexists; repeat split; reflexivity
            | match goal with H : (_ =? CMD_ACK) = true |- _ =>
                apply Z.eqb_eq in H; change CMD_ACK with 0 in H; subst; right; eexists; repeat split; reflexivity end
            | match goal with H : (_ =? CMD_ACK) = false |- _ =>
                change CMD_ACK with 0 in H; left; split; [reflexivity|rewrite H; reflexivity] end ].
  Qed.

  Lemma exec_req_shape q keys b t tail :
    q_ext q = mem (q_cmd q) CMD_EXT ->
    r_tail (exec_req q keys b t) = Some tail ->
    tail_wf (q_cmd q) tail (r_trailer (exec_req q keys b t)).
  Proof.
    intros Hq. unfold RcvModel.exec_req.
    destruct (mem (q_cmd q) ACCEPTED_COMMANDS) eqn:Ea; cbn [negb].
    - destruct (q_chk q) eqn:Ec.
      + cbn. intros H; injection H as <-. split; [rewrite Hq; apply ext_range|].
        exists CMD_ERR_CHKS. left. split; [reflexivity|apply has_data_nonzero; discriminate].
      + pose proof classify_total as Ht. rewrite forallb_forall in Ht. pose proof Ea as Ea'. apply mem_in in Ea'.
        specialize (Ht _ Ea'). destruct (classify (q_cmd q)) as [k|] eqn:Ek; [|discriminate].
        destruct (e_ans (exec keys b t k (q_ext q) (q_cid q) (q_params q))) as [[code extra]|] eqn:Ee;
          cbn [r_tail r_trailer]; [|discriminate].
        intros H; injection H as <-. split; [rewrite Hq; apply ext_range|].
        exists code. destruct (has_data_codes k code) as [He Hab].
        destruct (exec_shape _ _ _ _ _ _ _ _ _ Ee) as [[-> Hd]|(d & -> & -> & Hd)].
        * left. split; [reflexivity|].
          destruct (classify_codes _ _ Ek) as [Hc|Hc]; rewrite Hc; [rewrite He|rewrite Hab]; exact Hd.
        * right. exists d. split; [reflexivity|].
          destruct (has_data_codes k 0) as [He0 Hab0].
          destruct (classify_codes _ _ Ek) as [Hc|Hc]; rewrite Hc; [rewrite He0|rewrite Hab0]; rewrite Hd; reflexivity.
    - cbn. intros H; injection H as <-. split.
      + rewrite <- ext_range. symmetry. apply Bool.not_true_is_false. intros He.
        pose proof ext_accepted as Hf. rewrite forallb_forall in Hf. apply mem_in in He. specialize (Hf _ He).
        cbn beta in Hf. congruence.
      + exists CMD_ERR_CMD. left. split; [reflexivity|apply has_data_nonzero; discriminate].
  Qed.

  (* the reply is made of one frame per answering board, each with a well-formed tail *)
  Definition ans := (Z * list Z * bool)%type.
  Definition render_ans (q : req) (l : list ans) : list Z :=
    flat_map (fun x : ans => let '(a, tail, tr) := x in frame q a tail tr) l.

  Lemma run_targets_answered q : q_ext q = mem (q_cmd q) CMD_EXT ->
    forall targets sl t acc sl' t' total,
    run_targets q targets sl t acc = (sl', t', Some total) ->
    exists l : list ans, total = acc ++ render_ans q l /\
      Forall (fun x : ans => let '(a, tail, tr) := x in In a targets /\ tail_wf (q_cmd q) tail tr) l.
  Proof.
    intros Hq. induction targets as [|a rest IH]; intros sl t acc sl' t' total Hr; cbn in Hr.
    - injection Hr as <- <- <-. exists []. cbn. rewrite app_nil_r. split; [reflexivity|constructor].
    - destruct (aget Z.eqb sl a) as [b|] eqn:Hb.
      + pose proof (exec_req_shape q (keys_of sl) b t) as Hs.
        set (r := exec_req q (keys_of sl) b t) in *.
        destruct (r_tail r) as [tail|] eqn:Et; [|discriminate].
        specialize (Hs tail Hq eq_refl).
        assert (Hcont : forall sl2, run_targets q rest sl2 (r_tick r) (acc ++ frame q a tail (r_trailer r))
                                    = (sl', t', Some total) ->
                 exists l : list ans, total = acc ++ render_ans q l /\
                   Forall (fun x : ans => let '(a0, tail0, tr) := x in In a0 (a :: rest) /\ tail_wf (q_cmd q) tail0 tr) l).
        { intros sl2 H2. apply IH in H2 as (l & -> & Hl). exists ((a, tail, r_trailer r) :: l). split.
          - cbn. rewrite <- app_assoc. reflexivity.
          - constructor; [split; [left; reflexivity|assumption]|].
            eapply Forall_impl; [|exact Hl]. intros [[a0 tl0] tr0] [Hin Hw]. split; [right; assumption|assumption]. }
        destruct (r_moved r) as [[a'|]|]; [eapply Hcont; eauto|discriminate|eapply Hcont; eauto].
      + apply IH in Hr as (l & -> & Hl). exists l. split; [reflexivity|].
        eapply Forall_impl; [|exact Hl]. intros [[a0 tl0] tr0] [Hin Hw]. split; [right; assumption|assumption].
  Qed.

  (* the decoder on one well-formed frame followed by anything *)
  Definition frame_of (q : req) (x : ans) : aframe :=
    let '(a, tail, tr) := x in
    match tail with
    | [code] => mkF (q_master q) a (q_cmd q) (q_cid q) code None
    | code :: _ :: d => mkF (q_master q) a (q_cmd q) (q_cid q) code (Some d)
    | [] => mkF (q_master q) a (q_cmd q) (q_cid q) 0 None
    end.

  Lemma firstn_zlen_app {A} (d x : list A) : firstn (Z.to_nat (zlen d)) (d ++ x) = d.
  Proof.
    unfold zlen. rewrite Nat2Z.id. rewrite firstn_app. replace (length d - length d)%nat with 0%nat by lia.
    rewrite firstn_all. cbn. apply app_nil_r.
  Qed.
  Lemma skipn_zlen_app {A} (d x : list A) : skipn (Z.to_nat (zlen d)) (d ++ x) = x.
  Proof.
    unfold zlen. rewrite Nat2Z.id. rewrite skipn_app. replace (length d - length d)%nat with 0%nat by lia.
    rewrite skipn_all. reflexivity.
  Qed.

  Lemma rx_dec_frame q a tail tr fuel rest :
    tail_wf (q_cmd q) tail tr ->
    rx_dec (S fuel) (frame q a tail tr ++ rest) = option_map (cons (frame_of q (a, tail, tr))) (rx_dec fuel rest).
  Proof.
    intros [-> (code & [[-> Hd]|(d & -> & Hd)])]; unfold frame; cbn [frame_of].
    - destruct (rx_is_ext (q_cmd q)) eqn:Ee.
      + cbn [app rx_dec]. change (CMD_STX =? 2) with true. cbn [negb]. rewrite Hd, Ee.
        change (rx_xor ([CMD_STX; q_master q; a; q_cmd q; q_cid q; code] ++ []))
          with (xor_sum [CMD_STX; q_master q; a; q_cmd q; q_cid q; code]).
        rewrite Z.eqb_refl. change (CMD_EOT =? 4) with true. reflexivity.
      + cbn [app rx_dec]. change (CMD_STX =? 2) with true. cbn [negb]. rewrite Hd, Ee. reflexivity.
    - destruct (rx_is_ext (q_cmd q)) eqn:Ee.
      + cbn [app]. rewrite <- ?app_assoc. cbn [app rx_dec]. change (CMD_STX =? 2) with true. cbn [negb].
        rewrite Hd, Ee.
        assert (Hl : (0 <=? zlen d) && (zlen d <=? Z.of_nat (length (d ++ xor_sum (CMD_STX :: q_master q :: a :: q_cmd q :: q_cid q :: code :: zlen d :: d) :: CMD_EOT :: rest))) = true).
        { rewrite app_length. unfold zlen. apply andb_true_iff. split; lia. }
        rewrite Hl. rewrite firstn_zlen_app, skipn_zlen_app.
        change (rx_xor ([CMD_STX; q_master q; a; q_cmd q; q_cid q; code] ++ zlen d :: d))
          with (xor_sum (CMD_STX :: q_master q :: a :: q_cmd q :: q_cid q :: code :: zlen d :: d)).
        rewrite Z.eqb_refl. change (CMD_EOT =? 4) with true. reflexivity.
      + cbn [app]. rewrite <- ?app_assoc. cbn [app rx_dec]. change (CMD_STX =? 2) with true. cbn [negb].
        rewrite Hd, Ee.
        assert (Hl : (0 <=? zlen d) && (zlen d <=? Z.of_nat (length (d ++ rest))) = true).
        { rewrite app_length. unfold zlen. apply andb_true_iff. split; lia. }
        rewrite Hl. rewrite firstn_zlen_app, skipn_zlen_app. reflexivity.
  Qed.

  Lemma rx_dec_all q : forall (l : list ans) fuel,
    Forall (fun x : ans => let '(a, tail, tr) := x in tail_wf (q_cmd q) tail tr) l ->
    (length l <= fuel)%nat ->
    rx_dec (S fuel) (render_ans q l) = Some (map (frame_of q) l).
  Proof.
    induction l as [|[[a tail] tr] l IH]; intros fuel Hf Hlen; [reflexivity|].
    inversion Hf as [|? ? Hw Hl]; subst. cbn [length] in Hlen. destruct fuel as [|fuel]; [lia|].
    cbn [render_ans flat_map]. rewrite rx_dec_frame by assumption. fold (render_ans q l).
    rewrite IH; [reflexivity|assumption|lia].
  Qed.

  Lemma frame_len_pos q a tail tr : (1 <= length (frame q a tail tr))%nat.
  Proof. unfold frame. destruct tr; cbn; lia. Qed.

  Lemma render_ans_len q l : (length l <= length (render_ans q l))%nat.
  Proof.
    induction l as [|[[a tail] tr] l IH]; [cbn; lia|]. cbn [render_ans flat_map length]. rewrite app_length.
    pose proof (frame_len_pos q a tail tr). fold (render_ans q l). lia.
  Qed.

  Lemma decode_ext_flag m sa q : decode m = Some (sa, q) -> q_ext q = mem (q_cmd q) CMD_EXT.
  Proof.
    unfold decode. destruct m as [|x0 [|x1 [|x2 [|x3 [|x4 rest]]]]]; try discriminate.
    destruct (nth_error _ _); [|discriminate]. intros H. injection H as <- <-. reflexivity.
  Qed.

  Lemma decode_fields m sa q : decode m = Some (sa, q) ->
    exists x0 rest, m = x0 :: sa :: q_master q :: q_cmd q :: q_cid q :: rest.
  Proof.
    unfold decode. destruct m as [|x0 [|x1 [|x2 [|x3 [|x4 rest]]]]]; try discriminate.
    destruct (nth_error _ _); [|discriminate]. intros H. injection H as <- <-. eauto.
  Qed.

  (* every reply decodes; every decoded frame echoes master, command and id of the request, carries the
     address of a board that was addressed, its length byte equals the length of its data and (for an
     extended command) its checksum verifies -- both checked by the decoder *)
  Theorem reply_decodes sl t m sa q sl' t' r :
    decode m = Some (sa, q) -> handle sl t m = (sl', t', OReply r) ->
    exists l : list ans,
      r = render_ans q l /\ rx_decode r = Some (map (frame_of q) l) /\ l <> [] /\
      Forall (fun x : ans => let '(a, tail, tr) := x in In a (targets_of sa sl) /\ tail_wf (q_cmd q) tail tr) l.
  Proof.
    intros Hd Hh. unfold RcvModel.handle in Hh. rewrite Hd in Hh.
    destruct (run_targets q (targets_of sa sl) sl t []) as [[sl2 t2] [total|]] eqn:Er; [|discriminate].
    apply (run_targets_answered q (decode_ext_flag _ _ _ Hd)) in Er as (l & Ht & Hl). cbn [app] in Ht. subst total.
    destruct (send_answer sa && negb match render_ans q l with [] => true | _ => false end) eqn:Es; [|discriminate].
    injection Hh as <- <- <-. exists l. split; [reflexivity|]. split; [|split].
    - unfold rx_decode. apply rx_dec_all.
      + eapply Forall_impl; [|exact Hl]. intros [[a tail] tr] [_ Hw]. exact Hw.
      + apply render_ans_len.
    - intros ->. cbn in Es. rewrite andb_false_r in Es. discriminate.
    - exact Hl.
  Qed.

  Lemma frame_of_echo q x : let f := frame_of q x in
    f_master f = q_master q /\ f_cmd f = q_cmd q /\ f_id f = q_cid q /\ f_slave f = fst (fst x).
  Proof. destruct x as [[a tail] tr]. cbn. destruct tail as [|c [|l d]]; cbn; auto. Qed.
End D.
