(* C08 -- every iteration of the update loop ends within a bounded number of publisher steps:
   a potential [work] that each publisher step decreases and each client step increases by at
   most 4.  Together with the two-tick take-up (Proofs/PubProofs.v) this bounds the number of
   publisher steps between a subscription and its take-up. *)
From DS Require Import Base.Prelude Model.PubModel Proofs.PubInv Proofs.PubProofs.

Definition len {A} (l : list A) : Z := Z.of_nat (length l).

(* publisher steps still needed to reach the loop head if no client interferes (upper bound) *)
Definition work (s : state) : Z :=
  match pc s with
  | PTop => 0
  | PDrainU => (len (unsubq s) + 1) + (len (subq s) + 1) + 3 * (len (subs s) + len (subq s))
  | PDrainS => (len (subq s) + 1) + 3 * (len (subs s) + len (subq s))
  | PClear => match todo s with [] => 0 | c :: r => len (mbox s c) + 2 + 3 * len r end
  | PPut => match todo s with [] => 0 | c :: r => 1 + 3 * len r end
  end.

Fixpoint npub (ls : list label) : Z :=
  match ls with [] => 0 | LPub :: r => 1 + npub r | _ :: r => npub r end.
Fixpoint nclient (ls : list label) : Z :=
  match ls with [] => 0 | LPub :: r => nclient r | _ :: r => 1 + nclient r end.

Ltac proj := cbn [subq unsubq subs pend todo mbox phase_of pc counter cur stat iter subtick got
                    fst snd length].

Lemma len_nonneg {A} (l : list A) : 0 <= len l.
Proof. unfold len. lia. Qed.

Lemma work_nonneg s : 0 <= work s.
Proof.
  unfold work. destruct (pc s); try lia.
  - pose proof (len_nonneg (unsubq s)). pose proof (len_nonneg (subq s)). pose proof (len_nonneg (subs s)). lia.
  - pose proof (len_nonneg (subq s)). pose proof (len_nonneg (subs s)). lia.
  - destruct (todo s) as [|c r]; [lia|]. pose proof (len_nonneg (mbox s c)). pose proof (len_nonneg r). lia.
  - destruct (todo s) as [|c r]; [lia|]. pose proof (len_nonneg r). lia.
Qed.

Lemma remove1_length x l l' : remove1 x l = Some l' -> length l = S (length l').
Proof.
  revert l'. induction l as [|y r IH]; intros l' H; cbn in H; [discriminate|].
  destruct (x =? y); [injection H as <-; reflexivity|].
  destruct (remove1 x r) as [r'|]; [|discriminate]. injection H as <-. cbn. rewrite (IH r' eq_refl). reflexivity.
Qed.

Lemma remove_all_length xs : forall l l', remove_all xs l = Some l' -> (length l' <= length l)%nat.
Proof.
  induction xs as [|x r IH]; intros l l' H; cbn in H; [injection H as <-; lia|].
  destruct (remove1 x l) as [l1|] eqn:E; [|discriminate].
  apply remove1_length in E. apply IH in H. lia.
Qed.

(* a publisher step that does not start at the loop head makes progress ... *)
Lemma pub_work cf s : Inv s -> period cf <> 0 -> pc s <> PTop ->
  work (fst (pub_step cf s)) + 1 <= work s /\ iter (fst (pub_step cf s)) = iter s.
Proof.
  intros I Hper Hpc. pose proof (inv_pub cf s I Hper) as I'. revert I'.
  unfold pub_step. rewrite (i_stat s I). unfold work at 2.
  destruct (pc s) eqn:Epc; [congruence| | | |]; clear Hpc.
  - destruct (unsubq s) as [|x r] eqn:Hu; proj; intros _; unfold work, len; proj; lia.
  - destruct (subq s) as [|x r] eqn:Hq.
    + destruct (inv_after_update cf s I Epc Hq Hper) as (subs' & Hrem & _). rewrite Hrem. proj.
      pose proof (remove_all_length _ _ _ Hrem) as Hlen.
      destruct (after_update_proj cf s subs') as (_ & _ & Hmb & _ & _ & Hit & _ & _).
      intros I'. split; [|exact Hit].
      pose proof (i_len _ I') as Hl1. revert Hl1.
      unfold after_update, end_iter, die, work, len.
      destruct (period cf =? 0) eqn:E0; [apply Z.eqb_eq in E0; contradiction|].
      destruct (counter s mod period cf =? 0); [|proj; lia].
      destruct subs' as [|c1 r1]; proj; [lia|]. intros Hl1. specialize (Hl1 c1). cbn [length] in Hlen. lia.
    + proj. intros _. unfold work, len. proj. rewrite app_length. proj. lia.
  - destruct (i_todo s I) as [Hne _]; [rewrite Epc; reflexivity|].
    unfold pub_publish. destruct (todo s) as [|c r] eqn:Ht; [congruence|]. rewrite Epc.
    destruct (mbox s c) as [|f m] eqn:Hm; proj; intros _; unfold work, len; proj;
      rewrite ?Ht, ?Hm, ?upd_same; proj; lia.
  - destruct (i_todo s I) as [Hne _]; [rewrite Epc; reflexivity|].
    unfold pub_publish. destruct (todo s) as [|c r] eqn:Ht; [congruence|]. rewrite Epc.
    rewrite (i_put s I Epc c r Ht).
    replace (is_full cf []) with false
      by (unfold is_full; cbn; destruct (0 <? cap cf) eqn:E; cbn; [symmetry; apply Z.leb_gt; lia|reflexivity]).
    proj. destruct r as [|c2 r2]; unfold end_iter, work, len; proj; intros I'; [lia|].
    pose proof (i_len _ I' c2) as Hl. proj. revert Hl. proj. lia.
Qed.

(* ... one that starts at the loop head begins the next tick *)
Lemma pub_top cf s : stat s = Running -> pc s = PTop -> iter (fst (pub_step cf s)) = iter s + 1.
Proof. intros Hs Hpc. unfold pub_step. rewrite Hs, Hpc. reflexivity. Qed.

Lemma pub_iter_mono cf s : Inv s -> period cf <> 0 -> iter s <= iter (fst (pub_step cf s)).
Proof.
  intros I Hper. destruct (pc s) eqn:Hpc.
  - rewrite pub_top; [lia|apply (i_stat s I)|exact Hpc].
  - destruct (pub_work cf s I Hper) as [_ ->]; [congruence|lia].
  - destruct (pub_work cf s I Hper) as [_ ->]; [congruence|lia].
  - destruct (pub_work cf s I Hper) as [_ ->]; [congruence|lia].
  - destruct (pub_work cf s I Hper) as [_ ->]; [congruence|lia].
Qed.

(* a client step delays the publisher by at most four steps *)
Lemma client_work s l s' e : Inv s -> client_step s l = Some (s', e) ->
  work s' <= work s + 4 /\ iter s' = iter s.
Proof.
  intros I H. destruct l as [c|c|c|]; cbn in H; try discriminate.
  - destruct (phase_of s c); try discriminate. injection H as <- <-.
    split; [|reflexivity]. unfold work, len. proj. rewrite app_length. proj.
    destruct (pc s); try lia; destruct (todo s); lia.
  - destruct (phase_of s c); try discriminate.
    destruct (mbox s c) as [|f m] eqn:Hm; injection H as <- <-; [split; [lia|reflexivity]|].
    split; [|reflexivity]. unfold work, len. proj.
    destruct (pc s); try lia; destruct (todo s) as [|x r]; try lia.
    destruct (Z.eq_dec x c) as [->|Hn]; [rewrite upd_same, Hm; proj; lia|rewrite upd_other by exact Hn; lia].
  - destruct (phase_of s c); try discriminate. injection H as <- <-.
    split; [|reflexivity]. unfold work, len. proj. rewrite app_length. proj.
    destruct (pc s); try lia; destruct (todo s); lia.
Qed.

Lemma run_iter_mono cf : period cf <> 0 -> forall ls s s', Inv s -> run cf s ls = Some s' ->
  iter s <= iter s'.
Proof.
  intros Hper ls. induction ls as [|l r IH]; intros s s' I H; cbn in H.
  - injection H as <-. lia.
  - destruct (step cf s l) as [s1|] eqn:E; [|discriminate].
    pose proof (inv_step cf s l s1 Hper I E) as I1. specialize (IH s1 s' I1 H).
    unfold step in E. destruct (step_ev cf s l) as [[s2 e]|] eqn:E2; [|discriminate].
    injection E as ->. destruct l; cbn [step_ev] in E2.
    + destruct (client_work s _ s1 e I E2) as [_ Hi]. lia.
    + destruct (client_work s _ s1 e I E2) as [_ Hi]. lia.
    + destruct (client_work s _ s1 e I E2) as [_ Hi]. lia.
    + injection E2 as E2. pose proof (pub_iter_mono cf s I Hper) as Hm. rewrite E2 in Hm. cbn in Hm. lia.
Qed.

(* Bounded iteration: in any execution in which the publisher takes more than
   work s + 4 * (number of client steps) steps, it passes the loop head. *)
Lemma iteration_bound cf : period cf <> 0 -> forall ls s s', Inv s -> run cf s ls = Some s' ->
  work s + 4 * nclient ls + 1 <= npub ls -> iter s < iter s'.
Proof.
  intros Hper ls. induction ls as [|l r IH]; intros s s' I H Hn.
  - cbn in Hn. pose proof (work_nonneg s). lia.
  - cbn [run] in H. destruct (step cf s l) as [s1|] eqn:E; [|discriminate].
    pose proof (inv_step cf s l s1 Hper I E) as I1.
    unfold step in E. destruct (step_ev cf s l) as [[s2 e]|] eqn:E2; [|discriminate].
    injection E as ->. destruct l; cbn [step_ev] in E2; cbn [npub nclient] in Hn.
    + destruct (client_work s _ s1 e I E2) as [Hw Hi]. rewrite <- Hi. apply (IH s1 s' I1 H). lia.
    + destruct (client_work s _ s1 e I E2) as [Hw Hi]. rewrite <- Hi. apply (IH s1 s' I1 H). lia.
    + destruct (client_work s _ s1 e I E2) as [Hw Hi]. rewrite <- Hi. apply (IH s1 s' I1 H). lia.
    + injection E2 as E2. assert (Hs : s1 = fst (pub_step cf s)) by (rewrite E2; reflexivity).
      destruct (pc s) eqn:Hpc.
      * pose proof (pub_top cf s (i_stat s I) Hpc) as Ht. rewrite <- Hs in Ht.
        pose proof (run_iter_mono cf Hper r s1 s' I1 H). lia.
      * destruct (pub_work cf s I Hper) as [Hw Hi]; [congruence|]. rewrite <- Hs in Hw, Hi.
        rewrite <- Hi. apply (IH s1 s' I1 H). lia.
      * destruct (pub_work cf s I Hper) as [Hw Hi]; [congruence|]. rewrite <- Hs in Hw, Hi.
        rewrite <- Hi. apply (IH s1 s' I1 H). lia.
      * destruct (pub_work cf s I Hper) as [Hw Hi]; [congruence|]. rewrite <- Hs in Hw, Hi.
        rewrite <- Hi. apply (IH s1 s' I1 H). lia.
      * destruct (pub_work cf s I Hper) as [Hw Hi]; [congruence|]. rewrite <- Hs in Hw, Hi.
        rewrite <- Hi. apply (IH s1 s' I1 H). lia.
Qed.

Lemma iteration_bound_reachable cf : period cf <> 0 -> forall ls s s', reachable cf s ->
  run cf s ls = Some s' -> work s + 4 * nclient ls + 1 <= npub ls -> iter s < iter s'.
Proof. intros Hper ls s s' R. apply iteration_bound; [exact Hper|eapply inv_reachable; eauto]. Qed.

(* the explicit size of the bound: linear in the number of queued requests and subscribers *)
Lemma work_size s : Inv s ->
  work s <= len (unsubq s) + 4 * len (subq s) + 3 * len (subs s) + 2.
Proof.
  intros I. unfold work.
  pose proof (len_nonneg (unsubq s)). pose proof (len_nonneg (subq s)). pose proof (len_nonneg (subs s)).
  destruct (pc s) eqn:Hpc; try lia.
  - destruct (i_todo s I) as [_ [pre Hpre]]; [rewrite Hpc; reflexivity|].
    destruct (todo s) as [|c r]; [lia|].
    pose proof (i_len s I c). unfold len in *. rewrite Hpre, app_length. cbn [length]. lia.
  - destruct (i_todo s I) as [_ [pre Hpre]]; [rewrite Hpc; reflexivity|].
    destruct (todo s) as [|c r]; [lia|].
    unfold len in *. rewrite Hpre, app_length. cbn [length]. lia.
Qed.

Lemma work_size_reachable cf s : period cf <> 0 -> reachable cf s ->
  work s <= len (unsubq s) + 4 * len (subq s) + 3 * len (subs s) + 2.
Proof. intros Hper R. exact (work_size s (inv_reachable cf s Hper R)). Qed.
