(* What History.insert / clean / get guarantee (code with fixes/22), as an invariant of every state
   the MSCU simulator reaches under a monotone clock in fewer than 2^15 - 2 events, and its
   consequences: getpos / getstatus never die with IndexError (C02), a position stamped now is read
   back unchanged (C05). *)
From DS Require Import Base.Prelude Model.SmcBase Model.SmcFloat Model.SmcMscu
  Proofs.SmcBaseProofs Proofs.SmcMscuProofs.
From Coq Require Import Sorting.Sorted.

Definition le_e (a b : entry) : Prop := fst a <= fst b.
Definition sorted (l : list entry) : Prop := StronglySorted le_e l.

(* ---------------- list.sort(key=itemgetter(0)) ---------------- *)
Lemma ins_sorted_In x l y : In y (ins_sorted x l) <-> y = x \/ In y l.
Proof.
  induction l as [|z l IH]; cbn.
  - intuition.
  - destruct (fst x <? fst z); cbn; [intuition|]. rewrite IH. intuition.
Qed.

Lemma ins_sorted_length x l : length (ins_sorted x l) = S (length l).
Proof. induction l as [|z l IH]; cbn; [reflexivity|]. destruct (fst x <? fst z); cbn; auto. Qed.

Lemma ins_sorted_sorted x l : sorted l -> sorted (ins_sorted x l).
Proof.
  induction 1 as [|z l Hs IH Hz]; cbn.
  - constructor; constructor.
  - destruct (fst x <? fst z) eqn:E.
    + constructor; [constructor; assumption|]. constructor; [unfold le_e; lia|].
      rewrite Forall_forall in *. intros w Hw. specialize (Hz w Hw). unfold le_e in *. lia.
    + constructor; [exact IH|]. rewrite Forall_forall in *. intros w Hw.
      apply ins_sorted_In in Hw as [->|Hw]; [unfold le_e; lia|auto].
Qed.

Lemma ins_sorted_last x l : Forall (fun y => fst y <= fst x) l -> ins_sorted x l = l ++ [x].
Proof.
  induction 1 as [|z l Hz _ IH]; cbn; [reflexivity|].
  destruct (fst x <? fst z) eqn:E; [lia|]. rewrite IH. reflexivity.
Qed.

Definition sort_acc (acc l : list entry) : list entry := fold_left (fun a x => ins_sorted x a) l acc.

Lemma sort_acc_In l : forall acc y, In y (sort_acc acc l) <-> In y acc \/ In y l.
Proof.
  induction l as [|x l IH]; intros acc y; cbn; [intuition|].
  unfold sort_acc in IH. rewrite IH. rewrite ins_sorted_In. intuition.
Qed.
Lemma sort_acc_length l : forall acc, length (sort_acc acc l) = (length acc + length l)%nat.
Proof.
  induction l as [|x l IH]; intros acc; cbn; [lia|]. unfold sort_acc in IH. rewrite IH, ins_sorted_length. lia.
Qed.
Lemma sort_acc_sorted l : forall acc, sorted acc -> sorted (sort_acc acc l).
Proof.
  induction l as [|x l IH]; intros acc H; cbn; [exact H|]. apply IH. apply ins_sorted_sorted. exact H.
Qed.

Lemma sort_In l y : In y (sort_entries l) <-> In y l.
Proof. unfold sort_entries. change (In y (sort_acc [] l) <-> In y l). rewrite sort_acc_In. cbn. intuition. Qed.
Lemma sort_length l : length (sort_entries l) = length l.
Proof. unfold sort_entries. change (length (sort_acc [] l) = length l). rewrite sort_acc_length. reflexivity. Qed.
Lemma sort_sorted l : sorted (sort_entries l).
Proof. apply (sort_acc_sorted l []). constructor. Qed.
Lemma sort_snoc l x : sort_entries (l ++ [x]) = ins_sorted x (sort_entries l).
Proof. unfold sort_entries. rewrite fold_left_app. reflexivity. Qed.

Lemma sorted_head_min y r e : sorted (y :: r) -> In e (y :: r) -> fst y <= fst e.
Proof.
  intros H [<-|Hin]; [lia|]. inversion H as [|? ? _ Hall]; subst.
  rewrite Forall_forall in Hall. apply (Hall e Hin).
Qed.

(* self.history[-2 ** 15:] *)
Lemma keep_last_id l : Z.of_nat (length l) <= hist_cap -> keep_last l = l.
Proof.
  intros H. unfold keep_last. replace (Z.to_nat (Z.of_nat (length l) - hist_cap)) with 0%nat by lia. reflexivity.
Qed.

(* ---------------- History.insert ---------------- *)
Section Insert.
  Variables (h : list entry) (ts : Z) (pos : list pval).
  Hypothesis Hlen : Z.of_nat (length h) < hist_cap.

  Lemma h_insert_eq : h_insert h ts pos = ins_sorted (ts, pos) (sort_entries h).
  Proof.
    unfold h_insert. rewrite sort_snoc. apply keep_last_id. rewrite ins_sorted_length, sort_length. lia.
  Qed.
  Lemma h_insert_In y : In y (h_insert h ts pos) <-> y = (ts, pos) \/ In y h.
  Proof. rewrite h_insert_eq, ins_sorted_In, sort_In. reflexivity. Qed.
  Lemma h_insert_length : length (h_insert h ts pos) = S (length h).
  Proof. rewrite h_insert_eq, ins_sorted_length, sort_length. reflexivity. Qed.
  (* nothing dated later: the new entry is the last one *)
  Lemma h_insert_newest : Forall (fun y => fst y <= ts) h -> h_insert h ts pos = sort_entries h ++ [(ts, pos)].
  Proof.
    intros H. rewrite h_insert_eq. apply ins_sorted_last. rewrite Forall_forall in *.
    intros y Hy. apply (proj1 (sort_In _ _)) in Hy. apply (H y Hy).
  Qed.
End Insert.

(* ---------------- History.clean (fixed) ---------------- *)
Lemma take_until_In t l y : In y (fst (take_until_later t l)) -> In y l /\ fst y <= t.
Proof.
  induction l as [|x l IH]; cbn; [intuition|].
  destruct (t <? fst x) eqn:E; cbn; [intuition|].
  destruct (take_until_later t l) as [p f]. cbn in *. intros [<-|H]; [split; [auto|lia]|].
  destruct (IH H). auto.
Qed.
Lemma take_until_head t x l : fst x <= t -> In x (fst (take_until_later t (x :: l))).
Proof.
  intros H. cbn. destruct (t <? fst x) eqn:E; [lia|]. destruct (take_until_later t l). left. reflexivity.
Qed.
Lemma take_until_length t l : (length (fst (take_until_later t l)) <= length l)%nat.
Proof.
  induction l as [|x l IH]; cbn; [lia|]. destruct (t <? fst x); cbn; [lia|].
  destruct (take_until_later t l). cbn in *. lia.
Qed.

Lemma h_clean_fixed h t : h_clean true h t = fst (take_until_later t (sort_entries h)).
Proof. unfold h_clean. destruct (take_until_later t (sort_entries h)) as [p f]. rewrite orb_true_r. reflexivity. Qed.

Lemma h_clean_In h t y : In y (h_clean true h t) -> In y h /\ fst y <= t.
Proof. rewrite h_clean_fixed. intros H. apply take_until_In in H as [H1 H2]. apply (proj1 (sort_In _ _)) in H1. auto. Qed.
Lemma h_clean_length h t : (length (h_clean true h t) <= length h)%nat.
Proof. rewrite h_clean_fixed. rewrite <- (sort_length h). apply take_until_length. Qed.
(* clean never removes the positions that are not later than now: one of them survives *)
Lemma h_clean_keeps_past h t e : In e h -> fst e <= t -> exists e', In e' (h_clean true h t) /\ fst e' <= t.
Proof.
  intros Hin Hle. rewrite h_clean_fixed.
  pose proof (sort_sorted h) as Hs. apply (proj2 (sort_In _ _)) in Hin.
  destruct (sort_entries h) as [|y r]; [destruct Hin|].
  pose proof (sorted_head_min y r e Hs Hin) as Hmin.
  exists y. split; [apply take_until_head; lia|lia].
Qed.

(* ---------------- History.get ---------------- *)
Lemma get_back_members t : forall r nxt g, get_back t r nxt = Some g ->
  match g with
  | GDirect c => In c r
  | GInterp c n => In c r /\ (In n r \/ nxt = Some n)
  | GEmpty => False
  end.
Proof.
  induction r as [|cur r IH]; intros nxt g H; cbn in H; [discriminate|].
  destruct (fst cur <=? t).
  - inversion H; subst. destruct nxt; cbn; auto.
  - apply IH in H. destruct g; cbn in *; try tauto.
    destruct H as [H1 [H2|H2]]; [auto|]. injection H2 as <-. auto.
Qed.

Lemma interp_all_same_length f : forall cs ns, length cs = length ns -> interp_all f cs ns <> None.
Proof.
  induction cs as [|c cs IH]; intros [|n ns] H; cbn [interp_all length] in *; try congruence.
  destruct (interp1 f c n); [|congruence].
  specialize (IH ns ltac:(lia)). destruct (interp_all f cs ns) as [[vs|]|]; congruence.
Qed.

(* a non-empty history whose entries all have the same number of axes: History.get cannot raise
   IndexError - it answers, or float() overflows (known class mscu_query_OverflowError) *)
Lemma positions_no_index_error h t k :
  h <> [] -> Forall (fun e => length (snd e) = k) h -> positions_r h t <> PIndexError.
Proof.
  intros Hne Hall. unfold positions_r, h_get. rewrite Forall_forall in Hall.
  match goal with |- context [get_back ?a ?b ?c] => destruct (get_back a b c) as [g|] eqn:E end.
  - apply get_back_members in E. destruct g as [c|c n|]; cbv iota beta; [congruence| |destruct E].
    destruct E as [Hc [Hn|Hn]]; [|congruence].
    apply in_rev in Hc. apply in_rev in Hn.
    destruct (of_int (t - fst c)); [|congruence]. destruct (of_int (fst n - fst c)); [|congruence].
    pose proof (interp_all_same_length (fdiv f f0) (snd c) (snd n)) as Hi.
    rewrite (Hall c Hc), (Hall n Hn) in Hi. specialize (Hi eq_refl).
    destruct (interp_all (fdiv f f0) (snd c) (snd n)) as [[vs|]|]; congruence.
  - destruct h; [congruence|]. cbv iota beta. congruence.
Qed.

(* ---------------- the invariant ---------------- *)
Definition sinv (a : nat) (nw : Z) (s : servo) : Prop :=
  (exists e, In e (hist s) /\ fst e <= nw) /\ Forall (fun e => length (snd e) = axes_of a) (hist s).
Definition dinv (d : dev) : Prop :=
  length (servos d) = 4%nat /\ forall a s, nth_opt a (servos d) = Some s -> sinv a (now d) s.
Definition bounded (n : nat) (d : dev) : Prop :=
  forall a s, nth_opt a (servos d) = Some s -> (length (hist s) <= n)%nat.

Lemma stow_length a : length (stow_of a) = axes_of a.
Proof. destruct a as [|[|[|a]]]; reflexivity. Qed.

(* the ways one command changes the device *)
Inductive trans (a : nat) (s : servo) (d : dev) : dev -> Prop :=
| t_same : trans a s d d
| t_cab c : trans a s d (upd_servo a (set_cab c) d)
| t_insert ts pos c : length pos = axes_of a -> (ts = now d \/ True) ->
    trans a s d (upd_servo a (fun s0 => set_hist (h_insert (hist s0) ts pos) (set_cab c s0)) d)
| t_clean : trans a s d (upd_servo a (set_hist (h_clean true (hist s) (now d))) d).

Lemma lastn_p_length n l : (n <= length l)%nat -> length (lastn_p n l) = n.
Proof. intros H. unfold lastn_p. rewrite skipn_length. lia. Qed.

Lemma set_hist_set_cab h s : set_hist h s = set_hist h (set_cab (cab s) s).
Proof. destruct s; reflexivity. Qed.

Lemma exec_servo_trans e d a s name num ps :
  nth_opt a (servos d) = Some s -> trans a s d (fst (exec_servo true e d a s name num ps)).
Proof.
  intros Hs. unfold exec_servo.
  repeat match goal with
         | |- context [if ?x then _ else _] => destruct x eqn:?
         | |- context [match ?x with _ => _ end] => destruct x eqn:?
         end; cbn [fst]; try apply t_same; try apply t_cab; try apply t_clean.
  all: try (match goal with
            | |- trans ?a0 ?s0 ?d0 _ =>
                apply (t_insert a0 s0 d0 (now d0) (stow_of a0) CAB_STOW (stow_length a0) (or_introl eq_refl))
            end).
  all: match goal with
    | Hs0 : nth_opt ?a0 (servos ?d0) = Some ?s0,
      H : nak ?d0 || negb (length ?ps =? axes_of ?a0 + 3)%nat = false
      |- trans ?a0 ?s0 ?d0 (upd_servo ?a0 (set_hist (h_insert (hist ?s0) ?ts _)) ?d0) =>
        let Hl := fresh "Hl" in let T := fresh "T" in
        assert (Hl : length (lastn_p (axes_of a0) ps) = axes_of a0);
        [ apply lastn_p_length; apply orb_false_iff in H as [_ H]; apply negb_false_iff in H;
          apply Nat.eqb_eq in H; lia
        | pose proof (t_insert a0 s0 d0 ts (lastn_p (axes_of a0) ps) (cab s0) Hl (or_intror I)) as T;
          unfold upd_servo in *; rewrite Hs0 in *; destruct s0; exact T ]
    end.
Qed.

Lemma nth_opt_upd_same a f d s : nth_opt a (servos d) = Some s ->
  nth_opt a (servos (upd_servo a f d)) = Some (f s).
Proof.
  intros H. unfold upd_servo. rewrite H. cbn [servos]. apply nth_opt_set_nth_same.
  eapply nth_opt_Some_lt; exact H.
Qed.
Lemma nth_opt_upd_other a a' f d : a <> a' -> nth_opt a' (servos (upd_servo a f d)) = nth_opt a' (servos d).
Proof.
  intros H. unfold upd_servo. destruct (nth_opt a (servos d)); [|reflexivity]. cbn [servos].
  apply nth_opt_set_nth_other. exact H.
Qed.
Lemma upd_servo_now a f d : now (upd_servo a f d) = now d.
Proof. unfold upd_servo. destruct (nth_opt a (servos d)); reflexivity. Qed.
Lemma upd_servo_len a f d : length (servos (upd_servo a f d)) = length (servos d).
Proof. unfold upd_servo. destruct (nth_opt a (servos d)); [|reflexivity]. cbn. apply set_nth_length. Qed.

Lemma trans_inv a s d d' n :
  nth_opt a (servos d) = Some s -> trans a s d d' ->
  dinv d -> bounded n d -> Z.of_nat n < hist_cap -> dinv d' /\ bounded (S n) d' /\ now d' = now d.
Proof.
  intros Hs T [Hl Hinv] Hb Hn.
  assert (Hgen : forall f, sinv a (now d) (f s) -> (length (hist (f s)) <= S n)%nat ->
                           dinv (upd_servo a f d) /\ bounded (S n) (upd_servo a f d) /\ now (upd_servo a f d) = now d).
  { intros f Hf Hlen. split; [|split].
    - split; [rewrite upd_servo_len; exact Hl|]. intros a' s' H'. rewrite upd_servo_now.
      destruct (Nat.eq_dec a a') as [<-|Hne].
      + rewrite (nth_opt_upd_same a f d s Hs) in H'. injection H' as <-. exact Hf.
      + rewrite nth_opt_upd_other in H' by exact Hne. apply Hinv. exact H'.
    - intros a' s' H'. destruct (Nat.eq_dec a a') as [<-|Hne].
      + rewrite (nth_opt_upd_same a f d s Hs) in H'. injection H' as <-. exact Hlen.
      + rewrite nth_opt_upd_other in H' by exact Hne. specialize (Hb a' s' H'). lia.
    - apply upd_servo_now. }
  destruct (Hinv a s Hs) as [[e0 [He0 Hle0]] Hall]. specialize (Hb a s Hs) as Hbs.
  destruct T as [|c|ts pos c Hpos _|].
  - split; [split; assumption|]. split; [|reflexivity]. intros a' s' H'. specialize (Hb a' s' H'). lia.
  - apply Hgen; destruct s; cbn in *; [split; [eauto|assumption]|lia].
  - apply Hgen; destruct s as [h cb]; cbn [hist set_hist set_cab cab] in *.
    + split.
      * exists e0. split; [|exact Hle0]. apply h_insert_In; [lia|]. right. exact He0.
      * rewrite Forall_forall in *. intros y Hy. apply h_insert_In in Hy; [|lia].
        destruct Hy as [->|Hy]; [exact Hpos|auto].
    + rewrite h_insert_length by lia. lia.
  - apply Hgen; destruct s as [h cb]; cbn [hist set_hist] in *.
    + split.
      * apply (h_clean_keeps_past h (now d) e0 He0 Hle0).
      * rewrite Forall_forall in *. intros y Hy. apply h_clean_In in Hy as [Hy _]. auto.
    + pose proof (h_clean_length h (now d)). lia.
Qed.

Lemma exec_inv e d c n :
  dinv d -> bounded n d -> Z.of_nat n < hist_cap ->
  dinv (fst (exec true e d c)) /\ bounded (S n) (fst (exec true e d c)) /\ now (fst (exec true e d c)) = now d.
Proof.
  intros Hi Hb Hn.
  assert (Hsame : dinv d /\ bounded (S n) d /\ now d = now d).
  { split; [exact Hi|]. split; [|reflexivity]. intros a s H. specialize (Hb a s H). lia. }
  unfold exec.
  repeat match goal with
         | |- context [if ?x then _ else _] => destruct x eqn:?
         | |- context [match ?x with _ => _ end] => destruct x eqn:?
         end; cbn [fst]; try exact Hsame.
  eapply trans_inv; eauto. apply exec_servo_trans. assumption.
Qed.

Lemma step_inv e s x n :
  dinv (dv s) -> bounded n (dv s) -> Z.of_nat n < hist_cap ->
  match x with ETick t => now (dv s) <= t | _ => True end ->
  dinv (dv (fst (step true e s x))) /\ bounded (S n) (dv (fst (step true e s x))) /\
  match x with ETick t => now (dv (fst (step true e s x))) = t | _ => now (dv (fst (step true e s x))) = now (dv s) end.
Proof.
  intros Hi Hb Hn Hx.
  assert (Hsame : dinv (dv s) /\ bounded (S n) (dv s) /\ now (dv s) = now (dv s)).
  { split; [exact Hi|]. split; [|reflexivity]. intros a sv H. specialize (Hb a sv H). lia. }
  destruct x as [b|t|v]; cbn [step].
  - unfold step_byte.
    repeat match goal with
           | |- context [if ?x then _ else _] => destruct x eqn:?
           | |- context [match ?x with _ => _ end] => destruct x eqn:?
           end; cbn [fst dv]; try exact Hsame.
    all: match goal with
         | H : exec _ ?e0 (dv ?s0) ?c = (?d', _), Hi0 : dinv (dv ?s0), Hb0 : bounded ?n0 (dv ?s0),
           Hn0 : Z.of_nat ?n0 < hist_cap |- _ =>
             let HH := fresh "HH" in
             pose proof (exec_inv e0 (dv s0) c n0 Hi0 Hb0 Hn0) as HH; rewrite H in HH; cbn [fst] in HH; exact HH
         end.
  - cbn [fst dv now servos]. destruct Hi as [Hl Hinv]. split; [|split; [|reflexivity]].
    + split; [exact Hl|]. cbn [servos now]. intros a sv H. destruct (Hinv a sv H) as [[e0 [H1 H2]] H3].
      split; [exists e0; split; [exact H1|lia]|exact H3].
    + intros a sv H. specialize (Hb a sv H). lia.
  - cbn [fst dv now servos]. destruct Hi as [Hl Hinv]. split; [split; [exact Hl|exact Hinv]|].
    split; [|reflexivity]. intros a sv H. specialize (Hb a sv H). lia.
Qed.

(* the clock never runs backwards *)
Fixpoint mono (nw : Z) (evs : list ev) : Prop :=
  match evs with
  | [] => True
  | ETick t :: r => nw <= t /\ mono t r
  | _ :: r => mono nw r
  end.

Lemma run_inv_mscu e : forall evs s n,
  dinv (dv s) -> bounded n (dv s) -> mono (now (dv s)) evs ->
  Z.of_nat n + Z.of_nat (length evs) <= hist_cap ->
  dinv (dv (fst (run (step true e) s evs))).
Proof.
  induction evs as [|x evs IH]; intros s n Hi Hb Hm Hn; cbn [run]; [exact Hi|].
  cbn [length] in Hn.
  assert (Hx : match x with ETick t => now (dv s) <= t | _ => True end).
  { destruct x; cbn in Hm; tauto. }
  destruct (step_inv e s x n Hi Hb ltac:(lia) Hx) as (Hi' & Hb' & Hnow).
  destruct (step true e s x) as [s1 o] eqn:E. cbn [fst] in *.
  specialize (IH s1 (S n) Hi' Hb').
  destruct (run (step true e) s1 evs) as [s2 os] eqn:E2. cbn [fst] in *.
  apply IH; [|lia]. destruct x; cbn in Hm; [rewrite Hnow; exact Hm|rewrite Hnow; tauto|rewrite Hnow; exact Hm].
Qed.

Lemma init_inv t0 : dinv (dv (init t0)) /\ bounded 2 (dv (init t0)).
Proof.
  assert (Hs : forall a, sinv a t0 (servo0 t0 a) /\ length (hist (servo0 t0 a)) = 2%nat).
  { intros a. unfold servo0. cbn [hist].
    assert (H0 : Z.of_nat (length (@nil entry)) < hist_cap) by (cbn; unfold hist_cap; lia).
    assert (H1 : Z.of_nat (length (h_insert [] t0 (repeat (PInt 0) (axes_of a)))) < hist_cap).
    { rewrite h_insert_length by exact H0. cbn. unfold hist_cap. lia. }
    split; [split|].
    - exists (t0, stow_of a). split; [|cbn; lia]. apply h_insert_In; [exact H1|]. left. reflexivity.
    - rewrite Forall_forall. intros y Hy. apply h_insert_In in Hy; [|exact H1].
      destruct Hy as [->|Hy]; [apply stow_length|].
      apply h_insert_In in Hy; [|exact H0]. destruct Hy as [->|[]]. cbn. apply repeat_length.
    - rewrite h_insert_length by exact H1. rewrite h_insert_length by exact H0. reflexivity. }
  split.
  - split; [reflexivity|]. intros a s H. unfold init in H. cbn [dv servos map] in H.
    destruct a as [|[|[|[|a]]]]; cbn [nth_opt] in H; try (destruct a; discriminate H); injection H as <-; apply Hs.
  - intros a s H. unfold init in H. cbn [dv servos map] in H.
    destruct a as [|[|[|[|a]]]]; cbn [nth_opt] in H; try (destruct a; discriminate H); injection H as <-;
      rewrite (proj2 (Hs _)); lia.
Qed.

(* every state reached from construction by fewer than 2^15 - 2 events under a monotone clock *)
Theorem ms_reachable_inv e t0 evs :
  mono t0 evs -> Z.of_nat (length evs) + 2 <= hist_cap ->
  dinv (dv (fst (run (step true e) (init t0) evs))).
Proof.
  intros Hm Hn. destruct (init_inv t0) as [Hi Hb].
  apply (run_inv_mscu e evs (init t0) 2 Hi Hb); [exact Hm|lia].
Qed.

(* ---------------- C02: getpos / getstatus under the invariant ---------------- *)
Lemma render_total e : (forall b, py_repr e b <> None) -> forall vs, render_list e vs <> None.
Proof.
  intros H. induction vs as [|v vs IH]; cbn; [discriminate|].
  destruct v as [z|b]; cbn.
  - destruct (render_list e vs); [discriminate|congruence].
  - specialize (H b). destruct (py_repr e b); [|congruence]. destruct (render_list e vs); [discriminate|congruence].
Qed.

Theorem ms_getpos_unconditional fx e d a s num :
  dinv d -> nth_opt a (servos d) = Some s -> (forall b, py_repr e b <> None) ->
  (exists r, exec_servo fx e d a s $"getpos" num [] = (d, OReply r)) \/
  (positions_r (hist s) (now d) = POverflow /\ exec_servo fx e d a s $"getpos" num [] = (d, OException)).
Proof.
  intros [_ Hinv] Hs Hr. destruct (Hinv a s Hs) as [[e0 [He0 _]] Hall].
  assert (Hne : hist s <> []) by (intros E; rewrite E in He0; destruct He0).
  pose proof (positions_no_index_error (hist s) (now d) (axes_of a) Hne Hall) as Hp.
  unfold exec_servo. cbn [zlist_eqb list_eqb]. cbn -[positions render_list axes_of].
  unfold positions. destruct (positions_r (hist s) (now d)) as [vs| |] eqn:E; [|congruence|right; split; reflexivity].
  left. pose proof (render_total e Hr vs) as Hv. destruct (render_list e vs) as [t|]; [|congruence].
  eexists. reflexivity.
Qed.

Theorem ms_getstatus_unconditional fx e d a s num :
  dinv d -> nth_opt a (servos d) = Some s -> (forall b, py_repr e b <> None) ->
  (exists r, exec_servo fx e d a s $"getstatus" num [] = (d, OReply r)) \/
  (positions_r (hist s) (now d) = POverflow /\ exec_servo fx e d a s $"getstatus" num [] = (d, OException)).
Proof.
  intros [_ Hinv] Hs Hr. destruct (Hinv a s Hs) as [[e0 [He0 _]] Hall].
  assert (Hne : hist s <> []) by (intros E; rewrite E in He0; destruct He0).
  pose proof (positions_no_index_error (hist s) (now d) (axes_of a) Hne Hall) as Hp.
  unfold exec_servo. cbn [zlist_eqb list_eqb]. cbn -[positions render_list axes_of].
  unfold positions. destruct (positions_r (hist s) (now d)) as [vs| |] eqn:E; [|congruence|right; split; reflexivity].
  left. pose proof (render_total e Hr vs) as Hv. destruct (render_list e vs) as [t|]; [|congruence].
  eexists. reflexivity.
Qed.

(* ---------------- C05: a position stamped now is read back unchanged ---------------- *)
(* History after an acknowledged 'setpos' whose time stamp is 0 (= now) on a history without
   future-dated entries: the new entry is the newest, and getpos at any later time returns it as
   written until the next insert / clean of that servo *)
Theorem ms_insert_now_readback h nw pos t :
  Z.of_nat (length h) < hist_cap -> Forall (fun y => fst y <= nw) h -> nw <= t ->
  positions (h_insert h nw pos) t = Some pos.
Proof.
  intros Hl Hall Ht. rewrite (h_insert_newest h nw pos Hl Hall).
  apply (ms_positions_newest (sort_entries h) (nw, pos) t). cbn. exact Ht.
Qed.

(* ---------------- C05: until the next write of that servo's history ---------------- *)
Definition hist_of (a : nat) (d : dev) : option (list entry) := option_map hist (nth_opt a (servos d)).
Definition hist_writer (name : list Z) : bool := mem_s name [$"setpos"; $"stow"; $"clean"].

Lemma hist_of_upd_other a a' f d : a' <> a -> hist_of a (upd_servo a' f d) = hist_of a d.
Proof. intros H. unfold hist_of. rewrite nth_opt_upd_other by exact H. reflexivity. Qed.
Lemma hist_of_upd_cab a a' c d : hist_of a (upd_servo a' (set_cab c) d) = hist_of a d.
Proof.
  destruct (Nat.eq_dec a' a) as [->|Hne]; [|apply hist_of_upd_other; exact Hne].
  unfold hist_of, upd_servo. destruct (nth_opt a (servos d)) as [s|] eqn:E; [|rewrite E; reflexivity].
  cbn [servos]. rewrite nth_opt_set_nth_same by (eapply nth_opt_Some_lt; exact E). reflexivity.
Qed.

(* a command addressed to another servo, or one that is not setpos / stow / clean, leaves the history
   of servo a exactly as it is - whatever its outcome (reply, refusal, exception) *)
Lemma ms_hist_frame_servo fx e d a a' s name num ps :
  (a' <> a \/ hist_writer name = false) ->
  hist_of a (fst (exec_servo fx e d a' s name num ps)) = hist_of a d.
Proof.
  intros H. unfold exec_servo.
  destruct H as [Hne|Hw].
  - repeat match goal with
           | |- context [if ?x then _ else _] => destruct x eqn:?
           | |- context [match ?x with _ => _ end] => destruct x eqn:?
           end; cbn [fst]; try reflexivity; apply hist_of_upd_other; exact Hne.
  - unfold hist_writer in Hw. cbn [mem_s existsb] in Hw.
    apply orb_false_iff in Hw as [H1 Hw]. apply orb_false_iff in Hw as [H2 Hw]. apply orb_false_iff in Hw as [H3 _].
    assert (E1 : zlist_eqb name $"setpos" = false).
    { destruct (zlist_eqb name $"setpos") eqn:E; [|reflexivity]. apply zlist_eqb_eq in E. subst. discriminate H1. }
    assert (E2 : zlist_eqb name $"stow" = false).
    { destruct (zlist_eqb name $"stow") eqn:E; [|reflexivity]. apply zlist_eqb_eq in E. subst. discriminate H2. }
    assert (E3 : zlist_eqb name $"clean" = false).
    { destruct (zlist_eqb name $"clean") eqn:E; [|reflexivity]. apply zlist_eqb_eq in E. subst. discriminate H3. }
    rewrite E1, E2, E3.
    repeat match goal with
           | |- context [if ?x then _ else _] => destruct x eqn:?
           | |- context [match ?x with _ => _ end] => destruct x eqn:?
           end; cbn [fst]; try reflexivity; apply hist_of_upd_cab.
Qed.

Definition touches (a : nat) (c : cmd) : bool :=
  match c with
  | KMsg name _ (PInt z :: _) => (Z.to_nat z =? a)%nat && hist_writer name
  | _ => false
  end.

Lemma ms_hist_frame fx e d a c : touches a c = false -> hist_of a (fst (exec fx e d c)) = hist_of a d.
Proof.
  intros H. unfold exec. destruct c as [| |name num ps]; try reflexivity.
  destruct ps as [|[z|b] rest]; try reflexivity.
  destruct ((0 <=? z) && (z <? Z.of_nat (length (servos d)))); [|reflexivity].
  destruct (nth_opt (Z.to_nat z) (servos d)) as [s|]; [|reflexivity].
  apply ms_hist_frame_servo. cbn [touches] in H. apply andb_false_iff in H as [H|H].
  - left. apply Nat.eqb_neq in H. exact H.
  - right. exact H.
Qed.

Fixpoint exec_all (fx : bool) (e : env) (d : dev) (cs : list cmd) : dev :=
  match cs with [] => d | c :: r => exec_all fx e (fst (exec fx e d c)) r end.

Lemma ms_hist_stable fx e a : forall cs d,
  Forall (fun c => touches a c = false) cs -> hist_of a (exec_all fx e d cs) = hist_of a d.
Proof.
  induction cs as [|c cs IH]; intros d H; cbn [exec_all]; [reflexivity|].
  inversion H as [|? ? Hc Hcs]; subst. rewrite IH by exact Hcs. apply ms_hist_frame. exact Hc.
Qed.

(* setpos stamped now on a history without later entries, then any commands that are not
   setpos / stow / clean of that servo, the clock at any t >= now: getpos reads the written values *)
Theorem ms_setpos_now_until fx e d a s pos cs t :
  nth_opt a (servos d) = Some s -> Z.of_nat (length (hist s)) < hist_cap ->
  Forall (fun y => fst y <= now d) (hist s) -> now d <= t ->
  Forall (fun c => touches a c = false) cs ->
  let d1 := upd_servo a (set_hist (h_insert (hist s) (now d) pos)) d in
  exists h, hist_of a (exec_all fx e d1 cs) = Some h /\ positions h t = Some pos.
Proof.
  intros Hs Hl Hall Ht Hcs d1. exists (h_insert (hist s) (now d) pos). split.
  - rewrite ms_hist_stable by exact Hcs. unfold d1, hist_of. rewrite (nth_opt_upd_same a _ d s Hs). reflexivity.
  - apply ms_insert_now_readback; assumption.
Qed.
