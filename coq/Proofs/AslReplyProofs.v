(* Every reply the line model emits decodes under the independent decoder Spec/AslReplySpec.v and
   names its request (part c04_as). *)
From DS Require Import Base.Prelude Base.Bits Model.Utils Model.AslLine Spec.AslReplySpec.
From DS Require Import Proofs.UtilsProofs Proofs.AslFrameProofs Proofs.AslLineProofs.

Lemma idx_in idx : 0 <= idx <= 31 -> In idx (map Z.of_nat (seq 0 32)).
Proof.
  intros H. apply in_map_iff. exists (Z.to_nat idx). split; [lia|]. apply in_seq. lia.
Qed.

Lemma addr_byte_val k idx : In k [1; 3; 4] -> 0 <= idx <= 31 -> addr_byte k idx = [k * 32 + idx].
Proof.
  intros Hk Hi.
  assert (A : forallb (fun k => forallb (fun i => zlist_eqb (addr_byte k i) [k * 32 + i])
                                        (map Z.of_nat (seq 0 32))) [1; 3; 4] = true)
    by (vm_compute; reflexivity).
  rewrite forallb_forall in A. specialize (A k Hk).
  rewrite forallb_forall in A. specialize (A idx (idx_in idx Hi)).
  now apply zlist_eqb_eq.
Qed.

Lemma bytes_app l1 l2 : bytes l1 -> bytes l2 -> bytes (l1 ++ l2).
Proof. unfold bytes. intros. apply Forall_app. auto. Qed.

Lemma bytes_cons b l : byte b -> bytes l -> bytes (b :: l).
Proof. unfold bytes. intros. constructor; auto. Qed.

Lemma close_bytes r : bytes r -> bytes (close r).
Proof.
  intros H. unfold close. apply bytes_app; [exact H|].
  apply bytes_cons; [|constructor]. apply checksum_byte. unfold bytes, byte in H.
  eapply Forall_impl; [|exact H]. cbn. intros. lia.
Qed.

Lemma close_sum r : bytes r -> rsum (close r) mod 256 = 255.
Proof.
  intros H. unfold close. change (rsum (r ++ [checksum r])) with (zsum (r ++ [checksum r])).
  apply checksum_closes. unfold bytes, byte in H. eapply Forall_impl; [|exact H]. cbn. intros. lia.
Qed.

Definition data_of (start idx : Z) (payload : list Z) : dreply :=
  DData start (if start =? 252 then Some idx else None) payload.

(* a data reply assembled by the handlers decodes to its fields *)
Lemma decode_data start idx k payload :
  is_header start = true -> 0 <= idx <= 31 -> In k [1; 3; 4] -> bytes payload ->
  Z.of_nat (length payload) = k ->
  usd_decode (close (reply_head start idx k ++ payload)) = Some (data_of start idx payload).
Proof.
  intros Hs Hi Hk Hp Hl.
  assert (Hk' : 1 <= k <= 4) by (cbn in Hk; lia).
  assert (Hne : payload <> []) by (intros ->; cbn in Hl; lia).
  unfold is_header in Hs. unfold reply_head, data_of.
  destruct (Z.eqb_spec start 252) as [->|Hn].
  - (* FC *)
    rewrite (addr_byte_val k idx Hk Hi).
    set (h := k * 32 + idx).
    assert (Hh : byte h) by (unfold h, byte; lia).
    set (body := (6 :: 252 :: [h]) ++ payload).
    assert (Hb : bytes body).
    { unfold body. repeat apply bytes_cons; try (unfold byte; lia); assumption. }
    pose proof (close_bytes body Hb) as Hcb. pose proof (close_sum body Hb) as Hcs.
    unfold usd_decode. apply bytesb_spec in Hcb. rewrite Hcb. cbn [negb].
    unfold close in *. unfold body in *. cbn [app] in *.
    rewrite rev_unit. rewrite rev_length, rev_involutive.
    replace (h / 32) with k by (unfold h; lia). replace (h mod 32) with idx by (unfold h; lia).
    rewrite Hl, Z.eqb_refl. replace (1 <=? k) with true by lia.
    rewrite Hcs. reflexivity.
  - (* FA *)
    assert (start = 250) as -> by lia. cbn [Z.eqb Pos.eqb].
    set (body := (6 :: 250 :: []) ++ payload).
    assert (Hb : bytes body).
    { unfold body. repeat apply bytes_cons; try (unfold byte; lia); assumption. }
    pose proof (close_bytes body Hb) as Hcb. pose proof (close_sum body Hb) as Hcs.
    unfold usd_decode. apply bytesb_spec in Hcb. rewrite Hcb. cbn [negb].
    unfold close in *. unfold body in *. cbn [app] in *.
    rewrite rev_unit.
    destruct (rev payload) as [|x t] eqn:Er.
    { exfalso. apply Hne. apply (f_equal (@rev Z)) in Er. rewrite rev_involutive in Er. exact Er. }
    rewrite Hcs. cbn [Z.eqb Pos.eqb]. rewrite <- Er, rev_involutive. reflexivity.
Qed.

(* what the line needs from the units: the values the four getters return fit their reply
   fields (for the real USD: position range invariant C12, status/version/type constants) *)
Definition ret_ok (k : rkind) (r : uret) : Prop :=
  match k with
  | KAck | KBool => True
  | KVersion => exists l, r = RList l /\ 0 <= zsum l + 15 < 256
  | KPosition => exists z, as_int r = Some z /\ -2147483648 <= z < 2147483648
  | KStatus => exists l, r = RStr l /\ bytes l /\ length l = 3%nat
  | KType => exists z, as_int r = Some z /\ -128 <= z < 128
  end.

Definition good_reply (start idx : Z) (r : list Z) : Prop :=
  exists d, usd_decode r = Some d /\ echoes start idx d /\ bytes r.

Lemma good_data start idx k payload :
  is_header start = true -> 0 <= idx <= 31 -> In k [1; 3; 4] -> bytes payload ->
  Z.of_nat (length payload) = k ->
  good_reply start idx (close (reply_head start idx k ++ payload)).
Proof.
  intros Hs Hi Hk Hp Hl. exists (data_of start idx payload). split; [now apply decode_data|]. split.
  - unfold data_of, echoes. split; [reflexivity|]. intros ->. reflexivity.
  - apply close_bytes. apply bytes_app; [|exact Hp]. unfold reply_head.
    apply bytes_cons; [unfold byte; lia|]. apply bytes_cons; [now apply is_header_byte|].
    destruct (start =? 252); [|constructor].
    rewrite (addr_byte_val k idx Hk Hi). apply bytes_cons; [|constructor].
    cbn in Hk. unfold byte. lia.
Qed.

Lemma good_single start idx b : b = 6 \/ b = 21 -> good_reply start idx [b].
Proof.
  intros [->| ->]; [exists DAck|exists DNakR]; (split; [reflexivity|split; [exact I|]]);
    (apply bytes_cons; [unfold byte; lia|constructor]).
Qed.

Lemma build_good k start idx r rep :
  is_header start = true -> 0 <= idx <= 31 -> ret_ok k r ->
  build k start idx r = BReply rep -> good_reply start idx rep.
Proof.
  intros Hs Hi Hr Hb. destruct k; cbn [build ret_ok] in *.
  - injection Hb as <-. apply good_single. auto.
  - injection Hb as <-. apply good_single. destruct (truthy r); auto.
  - destruct Hr as (l & -> & Hv).
    replace ((0 <=? zsum l + 15) && (zsum l + 15 <? 1114112)) with true in Hb by lia.
    injection Hb as <-. apply good_data; cbn; auto.
    apply bytes_cons; [unfold byte; lia|constructor].
  - destruct Hr as (z & Ez & Hz). rewrite Ez in Hb.
    destruct (int_to_bytes z 4 false) as [bs|] eqn:Eb; [|discriminate]. injection Hb as <-.
    apply int_bytes_roundtrip in Eb; [|lia]. destruct Eb as (_ & Hl & Hy).
    apply good_data; cbn; auto. rewrite Hl. reflexivity.
  - destruct Hr as (l & -> & Hy & Hl). injection Hb as <-.
    apply good_data; cbn; auto. rewrite Hl. reflexivity.
  - destruct Hr as (z & Ez & Hz). rewrite Ez in Hb.
    destruct (int_to_bytes z 1 false) as [bs|] eqn:Eb; [|discriminate]. injection Hb as <-.
    apply int_bytes_roundtrip in Eb; [|lia]. destruct Eb as (_ & Hl & Hy).
    apply good_data; cbn; auto. rewrite Hl. reflexivity.
Qed.

Section ReplyProofs.
  Context {U : Type}.
  Variable sem : U -> ucall -> U * uret.
  Variable delay : U -> Z.
  Variable Inv : U -> Prop.      (* an invariant of the units, e.g. the C12 range invariant *)

  (* the units return values that fit the reply fields, in every state satisfying Inv *)
  Definition usd_ok : Prop :=
    forall u code ps c k, Inv u -> decode code ps = DCall c k -> ret_ok k (snd (sem u c)).
  Definition inv_kept : Prop := forall u c, Inv u -> Inv (fst (sem u c)).

  Lemma unit_exec_good start idx code ps u u' r :
    usd_ok -> Inv u -> is_header start = true -> 0 <= idx <= 31 ->
    unit_exec sem delay start idx code ps u = (u', OReply r) -> good_reply start idx r.
  Proof.
    intros Hok Hu Hs Hi. unfold unit_exec.
    destruct (known code); cbn [negb]; [|discriminate].
    destruct (decode code ps) as [| |c k] eqn:Ed.
    - destruct (delay u =? 255); [discriminate|]. intros [= _ <-]. apply good_single. auto.
    - discriminate.
    - specialize (Hok u code ps c k Hu Ed). destruct (sem u c) as [u1 rv]. cbn [snd] in Hok.
      destruct (build k start idx rv) as [rep| |] eqn:Eb; try discriminate.
      destruct (delay u1 =? 255); [discriminate|]. intros [= _ <-].
      eapply build_good; eassumption.
  Qed.

  (* message level: whatever the request, a reply decodes and names the request *)
  Definition hdr_ok (q : request) : Prop :=
    match q with
    | QBcast _ _ _ => True
    | QUni start idx _ _ => is_header start = true /\ 0 <= idx <= 31
    end.

  Theorem exec_reply_good min drv q drv' r :
    usd_ok -> Forall Inv drv -> hdr_ok q ->
    exec sem delay true true min drv q = (drv', OReply r) ->
    match q with
    | QBcast _ _ _ => False
    | QUni start idx _ _ => good_reply start idx r
    end.
  Proof.
    intros Hok Hinv Hw He. destruct q as [start code ps|start idx code ps].
    - rewrite exec_broadcast in He. injection He as _ He. destruct (known code); discriminate.
    - destruct Hw as (Hs & Hi).
      destruct (Z_lt_le_dec (idx - min) 0) as [Hlo|Hlo];
        [|destruct (Z_lt_le_dec (idx - min) (Z.of_nat (length drv))) as [Hhi|Hhi]].
      + rewrite exec_absent in He by (unfold on_line; lia).
        injection He as _ He. destruct (known code); discriminate.
      + assert (Hon : on_line min drv idx) by (unfold on_line; lia).
        destruct (unicast_only_addressed sem delay min drv start idx code ps Hon) as (u & Hu & Hx).
        rewrite Hx in He. injection He as _ He.
        assert (HIu : Inv u).
        { rewrite Forall_forall in Hinv. apply Hinv. eapply nth_error_In; exact Hu. }
        destruct (unit_exec sem delay start idx code ps u) as [u' o] eqn:Eu. cbn [snd] in He. subst o.
        eapply unit_exec_good; eassumption.
      + rewrite exec_absent in He by (unfold on_line; lia).
        injection He as _ He. destruct (known code); discriminate.
  Qed.

  (* the invariant of the units is kept by every request *)
  Lemma upd_Forall (P : U -> Prop) l k x : Forall P l -> P x -> Forall P (upd l k x).
  Proof.
    revert k; induction l as [|h t IH]; intros [|k] Hl Hx; cbn; inversion Hl; subst;
      constructor; auto.
  Qed.

  Lemma exec_keeps_inv min drv q :
    inv_kept -> Forall Inv drv -> Forall Inv (fst (exec sem delay true true min drv q)).
  Proof.
    intros Hk Hinv. destruct q as [start code ps|start idx code ps].
    - rewrite exec_broadcast. cbn [fst]. rewrite Forall_forall in *. intros x Hx.
      apply in_map_iff in Hx. destruct Hx as (u & <- & Hu). specialize (Hinv u Hu).
      unfold bcast_effect. destruct (negb (known code)); [exact Hinv|].
      destruct (decode code ps) as [| |c k]; try exact Hinv.
      destruct (is_getter k); [exact Hinv|]. now apply Hk.
    - destruct (Z_lt_le_dec (idx - min) 0) as [Hlo|Hlo];
        [|destruct (Z_lt_le_dec (idx - min) (Z.of_nat (length drv))) as [Hhi|Hhi]].
      + rewrite exec_absent by (unfold on_line; lia). exact Hinv.
      + assert (Hon : on_line min drv idx) by (unfold on_line; lia).
        destruct (unicast_only_addressed sem delay min drv start idx code ps Hon) as (u & Hu & ->).
        cbn [fst]. apply upd_Forall; [exact Hinv|].
        assert (HIu : Inv u).
        { rewrite Forall_forall in Hinv. apply Hinv. eapply nth_error_In; exact Hu. }
        unfold unit_exec. destruct (negb (known code)); [exact HIu|].
        destruct (decode code ps) as [| |c k]; try exact HIu.
        specialize (Hk u c HIu). destruct (sem u c) as [u1 rv]. cbn [fst] in Hk.
        destruct (build k start idx rv); exact Hk.
      + rewrite exec_absent by (unfold on_line; lia). exact Hinv.
  Qed.

  (* byte level, any history: every reply the line ever emits decodes, is made of bytes, and
     echoes the start byte / address of the frame that was just completed *)
  Definition line_ok (l : line) : Prop :=
    fwf (l_f l) /\ Forall byte (f_msg (l_f l)) /\ Forall Inv (l_drv l).

  Lemma parse_msg_fields msg q : parse_msg msg = PReq q ->
    match q with
    | QBcast start _ _ => exists t, msg = start :: 0 :: t
    | QUni start idx _ _ => exists h t, msg = start :: h :: t /\ idx = hdr_index h
    end.
  Proof.
    unfold parse_msg. destruct (rev msg) as [|c t]; [discriminate|].
    destruct (negb (checksum (removelast msg) =? c)); [discriminate|].
    destruct msg as [|start [|h [|m2 [|m3 rest]]]]; try discriminate.
    destruct (Z.eqb_spec h 0) as [->|Hh]; intros [= <-]; eauto.
  Qed.

  Lemma parse_msg_err msg o : parse_msg msg = PErr o -> o = OException \/ o = OValueError.
  Proof.
    unfold parse_msg. destruct (rev msg) as [|c t]; [intros [= <-]; auto|].
    destruct (negb (checksum (removelast msg) =? c)); [intros [= <-]; auto|].
    destruct msg as [|start [|h [|m2 [|m3 rest]]]]; try (intros [= <-]; auto).
    destruct (h =? 0); discriminate.
  Qed.

  Theorem lstep_reply_good l b l' r :
    usd_ok -> line_ok l -> byte b -> lstep sem delay l b = (l', OReply r) ->
    exists start h t, f_msg (l_f l) ++ [b] = start :: h :: t /\ good_reply start (h mod 32) r.
  Proof.
    intros Hok (Hf & Hm & Hinv) Hb. unfold AslLine.lstep, lstep_gen.
    destruct (fstep (l_f l) b) as [f' e] eqn:Es. destruct e as [| |g|m]; try discriminate.
    destruct (frame_shape _ _ _ _ Hf Es) as (-> & -> & Hlen & (h0 & t0 & Em & Hh0)).
    unfold AslLine.dispatch.
    destruct (parse_msg (f_msg (l_f l) ++ [b])) as [o|q] eqn:Ep.
    { intros [= _ ->]. destruct (parse_msg_err _ _ Ep); discriminate. }
    destruct (exec sem delay true true (l_min l) (l_drv l) q) as [drv' o] eqn:Ee.
    intros [= _ ->].
    pose proof (parse_msg_fields _ _ Ep) as Hq.
    assert (Hbytes : Forall byte (f_msg (l_f l) ++ [b])) by (apply Forall_app; split; [exact Hm|auto]).
    destruct q as [start code ps|start idx code ps].
    - rewrite exec_broadcast in Ee. injection Ee as _ Ee. destruct (known code); discriminate.
    - destruct Hq as (h & t & Emsg & ->). exists start, h, t. split; [exact Emsg|].
      rewrite Emsg in Em, Hbytes. injection Em as <- _.
      assert (Hhb : byte h) by (inversion Hbytes as [|? ? _ H2]; inversion H2; assumption).
      destruct (hdr_fields h Hhb) as [_ Hx]. rewrite <- Hx.
      apply (exec_reply_good (l_min l) (l_drv l) (QUni start (hdr_index h) code ps) drv' r Hok Hinv);
        [|exact Ee].
      cbn [hdr_ok]. split; [exact Hh0|]. rewrite Hx. unfold byte in Hhb. lia.
  Qed.

  Lemma fstep_msg f b :
    f_msg (fst (fstep f b)) = [] \/ f_msg (fst (fstep f b)) = f_msg f ++ [b].
  Proof.
    unfold fstep. destruct (length (f_msg f)) as [|[|[|n]]].
    - destruct (is_header b); cbn; auto.
    - destruct (b =? 0); [cbn; auto|].
      destruct ((7 <? hdr_nbytes b) || (hdr_nbytes b <? 1)); cbn; auto.
    - destruct (f_all f); [destruct ((7 <? b) || (b <? 1))|]; cbn; auto.
    - destruct (f_exp f =? 0); cbn; auto.
  Qed.

  Lemma lstep_keeps_ok l b :
    inv_kept -> line_ok l -> byte b -> line_ok (fst (lstep sem delay l b)).
  Proof.
    intros Hk (Hf & Hm & Hinv) Hb. unfold line_ok, AslLine.lstep, lstep_gen.
    pose proof (fwf_step (l_f l) b Hf) as Hf'. pose proof (fstep_msg (l_f l) b) as Hmsg.
    destruct (fstep (l_f l) b) as [f' e]. cbn [fst] in Hf', Hmsg.
    assert (Hm' : Forall byte (f_msg f')).
    { destruct Hmsg as [-> | ->]; [constructor|]. apply Forall_app. split; [exact Hm|auto]. }
    destruct e as [| |g|m]; cbn [fst l_f l_drv]; try (split; [exact Hf'|split; [exact Hm'|exact Hinv]]).
    unfold AslLine.dispatch. destruct (parse_msg m) as [o|q].
    - cbn [fst l_f l_drv]. split; [exact Hf'|split; [exact Hm'|exact Hinv]].
    - pose proof (exec_keeps_inv (l_min l) (l_drv l) q Hk Hinv) as He.
      destruct (exec sem delay true true (l_min l) (l_drv l) q) as [drv' o].
      cbn [fst l_f l_drv] in *. split; [exact Hf'|split; [exact Hm'|exact He]].
  Qed.

  Definition decodes (o : outcome) : Prop :=
    match o with
    | OReply r => exists d, usd_decode r = Some d /\ bytes r
    | _ => True
    end.

  Theorem lrun_replies_good bs : forall l,
    usd_ok -> inv_kept -> line_ok l -> Forall byte bs ->
    Forall decodes (snd (lrun sem delay l bs)).
  Proof.
    induction bs as [|b bs IH]; intros l Hok Hk Hl Hbs; cbn [AslLine.lrun]; [constructor|].
    inversion Hbs as [|? ? Hb Hbs']; subst.
    destruct (lstep sem delay l b) as [l1 o] eqn:Es.
    pose proof (lstep_keeps_ok l b Hk Hl Hb) as Hl1. rewrite Es in Hl1. cbn [fst] in Hl1.
    specialize (IH l1 Hok Hk Hl1 Hbs'). destruct (lrun sem delay l1 bs) as [l2 os]. cbn [snd] in *.
    constructor; [|exact IH].
    destruct o as [| |r| | |]; cbn; auto.
    destruct (lstep_reply_good l b l1 r Hok Hl Hb Es) as (s0 & h & t & _ & (d & Hd & _ & Hy)).
    eauto.
  Qed.

  Lemma line_ok_init min drv : Forall Inv drv -> line_ok (mkL min drv finit).
  Proof. intros H. split; [exact fwf_init|split; [constructor|exact H]]. Qed.
End ReplyProofs.

(* ---------- the hypotheses on the units are satisfiable: a constant toy USD ---------- *)

Definition kind_of (code : Z) : rkind :=
  match code with
  | 16 => KVersion | 18 => KPosition | 19 => KStatus | 20 => KType
  | 32 | 33 | 48 | 49 | 50 | 53 => KBool
  | _ => KAck
  end.

Lemma decode_kind code ps c k : decode code ps = DCall c k -> c_code c = code /\ k = kind_of code.
Proof.
  unfold decode. intros Hd.
  repeat match type of Hd with
  | context [match ?x with _ => _ end] => destruct x
  end; try discriminate; injection Hd as <- <-; split; reflexivity.
Qed.

Definition toy_sem (u : Z) (c : ucall) : Z * uret :=
  (u, match c_code c with
      | 16 => RList [1; 3] | 18 => RInt u | 19 => RStr [0; 24; 24] | 20 => RInt 32
      | _ => RBool true
      end).
Definition toy_inv (u : Z) : Prop := -2688000 <= u <= 2688000.

Example toy_usd_ok : usd_ok toy_sem toy_inv /\ inv_kept toy_sem toy_inv /\
  getters_pure toy_sem [0; 5; -7].
Proof.
  split; [|split].
  - intros u code ps c k Hu Hd. destruct (decode_kind code ps c k Hd) as [Hc ->].
    unfold toy_sem. cbn [snd]. rewrite Hc. unfold toy_inv in Hu.
    unfold kind_of.
    repeat match goal with
    | |- context [match ?x with _ => _ end] => destruct x
    end; cbn [ret_ok]; auto;
    first [ solve [exists [1; 3]; split; [reflexivity|cbn; lia]]
          | solve [exists u; split; [reflexivity|lia]]
          | solve [exists [0; 24; 24]; split; [reflexivity|split; [|reflexivity]];
                   repeat constructor; unfold byte; lia]
          | solve [exists 32; split; [reflexivity|lia]] ].
  - intros u c Hu. exact Hu.
  - intros u c _ _. reflexivity.
Qed.
