(* C12 / C13 lifted to all histories: invariant along every history, refinement of whole runs,
   and the consequences for reachable states. *)
From DS Require Import Base.Prelude Base.Bits Model.Utils Model.UsdModel Spec.UsdSpec.
From DS Require Import Proofs.UtilsProofs Proofs.UsdMotion Proofs.UsdInv Proofs.UsdRefine.

(* well-formed events: any command code, either (any non-negative) start byte, any string of
   parameter bytes; time steps of k/1024 s, k >= 0 *)
Definition wf_event (e : event) : Prop :=
  match e with
  | ECmd _ b p => 0 <= b /\ bytes p
  | ETick k => 0 <= k
  end.

Lemma handle_inv c b p u : 0 <= b -> bytes p -> Inv u -> Inv (fst (handle c b p u)).
Proof. intros Hb Hp H. rewrite handle_refines by assumption. apply spec_handle_inv; assumption. Qed.

Lemma tick_inv k now u : Inv u -> Inv (tick k now u).
Proof. intros H. apply calc_inv, H. Qed.

Lemma step_refines s e : wf_event e -> Inv (fst s) ->
  step s e = spec_step s e /\ Inv (fst (fst (step s e))).
Proof.
  destruct s as [u now]. cbn [fst]. intros Hw H. destruct e as [c b p|k]; cbn [wf_event] in Hw.
  - destruct Hw as [Hb Hp]. unfold step, spec_step, parse1, spec_parse1.
    rewrite handle_refines by assumption.
    pose proof (spec_handle_inv c b p u Hp H) as Hi.
    destruct (spec_handle c b p u) as [u' o]. split; [reflexivity|exact Hi].
  - unfold step, spec_step. rewrite tick_refines by assumption. split; [reflexivity|].
    cbn [fst]. rewrite <- tick_refines by assumption. apply tick_inv, H.
Qed.

Theorem run_refines h : forall s, Forall wf_event h -> Inv (fst s) ->
  run s h = spec_run s h /\ Inv (fst (fst (run s h))).
Proof.
  induction h as [|e h IH]; intros s Hw H.
  - cbn. auto.
  - inversion Hw as [|? ? He Hh]; subst. cbn [run spec_run].
    destruct (step_refines s e He H) as [E Hi]. rewrite <- E.
    destruct (step s e) as [s1 o]. cbn [fst] in Hi.
    destruct (IH s1 Hh Hi) as [E2 Hi2]. rewrite <- E2.
    destruct (run s1 h) as [s2 os]. auto.
Qed.

(* states reachable from a freshly constructed unit through any well-formed history *)
Definition reachable (idx : Z) (u : usd) : Prop :=
  exists clk h, Forall wf_event h /\ fst (fst (run (usd_init idx, clk) h)) = u.

Lemma reachable_inv idx u : 0 <= idx < 32 -> reachable idx u -> Inv u.
Proof.
  intros Hi (clk & h & Hw & <-). apply run_refines; [exact Hw|apply inv_init, Hi].
Qed.

(* ---- histories whose time steps carry an arbitrary displacement d >= 0 (covers elapsed times
   off the dyadic grid) ---- *)
Inductive gevent :=
| GCmd (code byte_start : Z) (params : list Z)
| GTick (d now : Z).
Definition wf_gevent (e : gevent) : Prop :=
  match e with GCmd _ b p => 0 <= b /\ bytes p | GTick d _ => 0 <= d end.
Definition gstep (u : usd) (e : gevent) : usd :=
  match e with GCmd c b p => fst (handle c b p u) | GTick d now => calc_position d now u end.
Definition grun (u : usd) (h : list gevent) : usd := fold_left gstep h u.

Lemma grun_inv h : forall u, Forall wf_gevent h -> Inv u -> Inv (grun u h).
Proof.
  induction h as [|e h IH]; intros u Hw H; [exact H|].
  inversion Hw as [|? ? He Hh]; subst. cbn [grun fold_left]. apply IH; [exact Hh|].
  destruct e as [c b p|d now]; cbn [gstep wf_gevent] in *.
  - apply handle_inv; tauto.
  - apply calc_inv, H.
Qed.

Definition greachable (idx : Z) (u : usd) : Prop :=
  exists h, Forall wf_gevent h /\ grun (usd_init idx) h = u.

Lemma greachable_inv idx u : 0 <= idx < 32 -> greachable idx u -> Inv u.
Proof. intros Hi (h & Hw & <-). apply grun_inv; [exact Hw|apply inv_init, Hi]. Qed.

(* the grid histories are instances of the general ones *)
Fixpoint to_g (u : usd) (now : Z) (h : list event) : list gevent :=
  match h with
  | [] => []
  | ECmd c b p :: h' => GCmd c b p :: to_g (fst (handle c b p u)) now h'
  | ETick k :: h' => GTick (displacement u k) (now + k) :: to_g (tick k (now + k) u) (now + k) h'
  end.

Lemma run_as_grun h : forall u now, fst (fst (run (u, now) h)) = grun u (to_g u now h).
Proof.
  induction h as [|e h IH]; intros u now; [reflexivity|].
  destruct e as [c b p|k]; cbn [run step to_g grun fold_left gstep].
  - unfold parse1. destruct (handle c b p u) as [u' o] eqn:E. cbn [fst]. specialize (IH u' now).
    destruct (run (u', now) h) as [s2 os]. exact IH.
  - specialize (IH (tick k (now + k) u) (now + k)).
    destruct (run (tick k (now + k) u, now + k) h) as [s2 os]. exact IH.
Qed.

Lemma to_g_wf h : forall u now, Inv u -> Forall wf_event h -> Forall wf_gevent (to_g u now h).
Proof.
  induction h as [|e h IH]; intros u now H Hw; [constructor|].
  inversion Hw as [|? ? He Hh]; subst. destruct e as [c b p|k]; cbn [to_g wf_event] in *.
  - constructor; [exact He|]. apply IH; [apply handle_inv; tauto|exact Hh].
  - constructor; [cbn; apply displacement_nonneg; assumption|]. apply IH; [apply tick_inv, H|exact Hh].
Qed.

Lemma reachable_greachable idx u : 0 <= idx < 32 -> reachable idx u -> greachable idx u.
Proof.
  intros Hi (clk & h & Hw & <-). exists (to_g (usd_init idx) clk h). split.
  - apply to_g_wf; [apply inv_init, Hi|exact Hw].
  - symmetry. apply run_as_grun.
Qed.

(* ---------- C12 over histories ---------- *)
Theorem range_always idx u : 0 <= idx < 32 -> greachable idx u -> pos_ok u.
Proof. intros Hi Hr. apply inv_pos, (greachable_inv idx u Hi Hr). Qed.

(* commands never move the actuator: only soft_reset changes the position (to 0, a reboot) *)
Lemma exec_position c b u :
  current_position (fst (exec c b u)) = current_position u \/
  (c = CReset /\ current_position (fst (exec c b u)) = 0).
Proof.
  destruct c; cbn [exec]; unfold request_position, acked, refused;
    repeat match goal with
           | |- context [if ?x then _ else _] => destruct x
           | |- context [match position_queue u with _ => _ end] => destruct (position_queue u) as [|[? ?] ?]
           end; cbn [fst]; try (left; destruct u; reflexivity); right; split; reflexivity.
Qed.

Theorem commands_do_not_move c b p u : 0 <= b -> bytes p -> Inv u ->
  current_position (fst (handle c b p u)) = current_position u \/
  (c = 1 /\ p = [] /\ current_position (fst (handle c b p u)) = 0).
Proof.
  intros Hb Hp H. rewrite handle_refines by assumption. unfold spec_handle.
  destruct (decode c p) as [cm| |] eqn:Hd; cbn [fst refused]; auto.
  destruct (exec_position cm b u) as [E|[-> E]]; [auto|]. right.
  assert (c = 1 /\ p = []).
  { unfold decode in Hd.
    repeat match type of Hd with
           | context [match ?x with _ => _ end] => destruct x; try discriminate Hd
           end; auto. }
  tauto.
Qed.

(* step bound on the grid: the displacement is the rounded frequency x (128/resolution) x dt *)
Theorem step_bound_grid k now u : Inv u -> 0 <= k ->
  Z.abs (current_position (tick k now u) - current_position u)
  <= round_half_even (frequency_of u * (128 / resolution u) * k) 1024.
Proof.
  intros H Hk. unfold tick. apply calc_step_bound; [|apply H].
  apply displacement_nonneg; assumption.
Qed.

(* an accepted positioning command makes its target the heading *)
Theorem absolute_accepted b x y z w u : 0 <= b -> bytes [x; y; z; w] -> Inv u ->
  delayed_execution u = false -> running u = false -> vel_idle u ->
  let r := handle 48 b [x; y; z; w] u in
  snd r = OReply ack /\ heading (fst r) (reference_position u + s32 x y z w).
Proof.
  intros Hb Hp H Hd Hr Hv. cbv zeta. rewrite handle_refines by assumption.
  unfold spec_handle. cbn [decode exec]. unfold request_position. rewrite Hd, Hr. cbn [acked fst snd].
  split; [reflexivity|]. unfold heading, pos_ok, vel_idle in *. pose proof (inv_pos u H) as Hpos.
  unfold pos_ok in Hpos. destruct u; cbn in *. auto.
Qed.

Theorem relative_accepted b x y z w u : 0 <= b -> bytes [x; y; z; w] -> Inv u ->
  delayed_execution u = false -> running u = false -> vel_idle u ->
  let r := handle 49 b [x; y; z; w] u in
  snd r = OReply ack /\ heading (fst r) (current_position u + s32 x y z w).
Proof.
  intros Hb Hp H Hd Hr Hv. cbv zeta. rewrite handle_refines by assumption.
  unfold spec_handle. cbn [decode exec]. unfold request_position. rewrite Hd, Hr. cbn [acked fst snd].
  split; [reflexivity|]. unfold heading, pos_ok, vel_idle in *. pose proof (inv_pos u H) as Hpos.
  unfold pos_ok in Hpos. destruct u; cbn in *. auto.
Qed.

(* busy refusal: while running (and not in delayed mode) positioning and rotation are answered
   NAK and change nothing *)
Theorem busy_nak b p u c : 0 <= b -> bytes p -> Inv u ->
  running u = true -> delayed_execution u = false -> In c [48; 49] -> length p = 4%nat ->
  handle c b p u = (u, OReply nak).
Proof.
  intros Hb Hp H Hr Hd Hc Hl. rewrite handle_refines by assumption.
  destruct p as [|x [|y [|z [|w [|v q]]]]]; try discriminate Hl.
  destruct Hc as [<-|[<-|[]]]; unfold spec_handle; cbn [decode exec]; unfold request_position;
    rewrite Hd, Hr; reflexivity.
Qed.

Theorem busy_nak_rotate b x u : 0 <= b -> byte x -> Inv u -> running u = true ->
  handle 50 b [x] u = (u, OReply nak).
Proof.
  intros Hb Hx H Hr. rewrite handle_refines; [|assumption|constructor; [assumption|constructor]|assumption].
  unfold spec_handle. cbn [decode exec]. rewrite Hr. reflexivity.
Qed.

(* ---------- C13 consequences read off the specification ---------- *)
Lemma spec_outcome c b p u :
  (exists s, snd (spec_handle c b p u) = OReply s) \/
  (snd (spec_handle c b p u) = OValueError /\ decode c p = DUnknown /\ fst (spec_handle c b p u) = u).
Proof.
  unfold spec_handle. destruct (decode c p) as [cm| |]; [|left; eexists; reflexivity|right; auto].
  left. destruct cm; cbn [exec]; unfold request_position, acked, refused;
    repeat match goal with
           | |- context [if ?x then _ else _] => destruct x
           | |- context [match position_queue u with _ => _ end] => destruct (position_queue u) as [|[? ?] ?]
           end; eexists; reflexivity.
Qed.

(* no command ever blocks or fails internally in a reachable state *)
Theorem never_blocks c b p u : 0 <= b -> bytes p -> Inv u ->
  snd (handle c b p u) <> OBlock /\ snd (handle c b p u) <> OException.
Proof.
  intros Hb Hp H. rewrite handle_refines by assumption.
  destruct (spec_outcome c b p u) as [[s ->]|[-> _]]; split; discriminate.
Qed.

(* status byte 2 decodes to the flags, status byte 1 to the I/O lines *)
Lemma flags_decode r de rd fc ar k : 0 <= k <= 7 ->
  let s2 := flag r * 128 + flag de * 64 + flag rd * 32 + flag fc * 16 + flag ar * 8 + k in
  bitb s2 7 = r /\ bitb s2 6 = de /\ bitb s2 5 = rd /\ bitb s2 4 = fc /\ bitb s2 3 = ar /\
  s2 mod 8 = k.
Proof.
  intros Hk. cbv zeta. unfold bitb, bitz.
  change (2 ^ 7) with 128. change (2 ^ 6) with 64. change (2 ^ 5) with 32. change (2 ^ 4) with 16.
  change (2 ^ 3) with 8.
  destruct r, de, rd, fc, ar; cbn [flag]; repeat split; lia.
Qed.

Lemma lines_decode d0 d1 d2 v0 v1 v2 : bit01 d0 -> bit01 d1 -> bit01 d2 -> bit01 v0 -> bit01 v1 ->
  bit01 v2 ->
  let s1 := d2 * 64 + d1 * 32 + d0 * 16 + v2 * 4 + v1 * 2 + v0 in
  (d0, d1, d2) = (bitz s1 4, bitz s1 5, bitz s1 6) /\ (v0, v1, v2) = (bitz s1 0, bitz s1 1, bitz s1 2).
Proof.
  unfold bit01. intros D0 D1 D2 V0 V1 V2. cbv zeta. unfold bitz.
  change (2 ^ 6) with 64. change (2 ^ 5) with 32. change (2 ^ 4) with 16. change (2 ^ 2) with 4.
  change (2 ^ 1) with 2. change (2 ^ 0) with 1.
  split; repeat f_equal; lia.
Qed.

Theorem status_faithful u : Inv u ->
  exists s1 s2, status_bytes u = [0; s1; s2] /\
  bitb s2 7 = running u /\ bitb s2 6 = delayed_execution u /\ bitb s2 5 = ready u /\
  bitb s2 4 = full_current u /\ bitb s2 3 = auto_resolution u /\ 2 ^ (s2 mod 8) = resolution u /\
  io_dir u = (bitz s1 4, bitz s1 5, bitz s1 6) /\ io_val u = (bitz s1 0, bitz s1 1, bitz s1 2).
Proof.
  intros H. inv_fields H. unfold status_bytes.
  destruct (io_dir u) as [[d0 d1] d2]. destruct (io_val u) as [[v0 v1] v2].
  destruct Hiodir as (D0 & D1 & D2). destruct Hioval as (V0 & V1 & V2).
  destruct Hres as (k & Hk & ->). rewrite Z.log2_pow2 by lia.
  eexists. eexists. split; [reflexivity|].
  destruct (flags_decode (running u) (delayed_execution u) (ready u) (full_current u)
              (auto_resolution u) k Hk) as (F1 & F2 & F3 & F4 & F5 & F6).
  destruct (lines_decode d0 d1 d2 v0 v1 v2 D0 D1 D2 V0 V1 V2) as (L1 & L2).
  rewrite F6. repeat split; assumption.
Qed.

Theorem status_reply b u : 0 <= b -> Inv u ->
  handle 19 b [] u = (u, OReply (spec_frame b (usd_index u) (status_bytes u))).
Proof. intros Hb H. rewrite handle_refines; [reflexivity|assumption|constructor|assumption]. Qed.

(* delayed execution is switched on AND off by bit 7 of the parameter; the queue is flushed *)
Theorem delayed_enable_bit b x u : 0 <= b -> byte x -> Inv u ->
  let r := handle 41 b [x] u in
  snd r = OReply ack /\ delayed_execution (fst r) = bitb x 7 /\
  position_queue (fst r) = [] /\ ready (fst r) = false.
Proof.
  intros Hb Hx H. cbv zeta. rewrite handle_refines; [|assumption|constructor; [assumption|constructor]|assumption].
  unfold spec_handle. cbn [decode exec acked fst snd]. destruct u; cbn. auto.
Qed.

(* one queued position is released per TRIGGER, oldest first *)
Theorem trigger_releases_one b u p a rest : 0 <= b -> Inv u -> position_queue u = (p, a) :: rest ->
  let r := handle 2 b [] u in
  snd r = OReply ack /\ position_queue (fst r) = rest /\
  ready (fst r) = negb (match rest with [] => true | _ => false end) /\
  (vel_idle u -> cmd_position (fst r) = Some (if a then p else current_position u + p)).
Proof.
  intros Hb H Hq. cbv zeta. rewrite handle_refines; [|assumption|constructor|assumption].
  unfold spec_handle. cbn [decode exec]. rewrite Hq. unfold vel_idle. rewrite <- moving_truthy.
  destruct (moving_by_velocity u); cbn [acked fst snd]; destruct rest, a, u; cbn; repeat split;
    auto; discriminate.
Qed.

Theorem trigger_empty_queue b u : 0 <= b -> Inv u -> position_queue u = [] ->
  handle 2 b [] u = (u, OReply ack).
Proof.
  intros Hb H Hq. rewrite handle_refines; [|assumption|constructor|assumption].
  unfold spec_handle. cbn [decode exec]. rewrite Hq. reflexivity.
Qed.

Theorem reset_defaults b u : 0 <= b -> Inv u ->
  handle 1 b [] u = (usd_default (usd_index u) (last_movement u), OReply ack).
Proof. intros Hb H. reflexivity. Qed.

(* wrong number of parameter bytes: NAK, nothing changes; unknown code: rejected, nothing changes *)
Theorem bad_params_nak c b p u : 0 <= b -> bytes p -> Inv u -> decode c p = DBadParams ->
  handle c b p u = (u, OReply nak).
Proof.
  intros Hb Hp H Hd. rewrite handle_refines by assumption. unfold spec_handle. rewrite Hd. reflexivity.
Qed.

Theorem unknown_code_rejected c b p u : 0 <= b -> bytes p -> Inv u -> decode c p = DUnknown ->
  handle c b p u = (u, OValueError).
Proof.
  intros Hb Hp H Hd. rewrite handle_refines by assumption. unfold spec_handle. rewrite Hd. reflexivity.
Qed.

(* fix 06 scenario: a positioning to the present position completes on the next iteration *)
Theorem target_equal_current b x y z w u d now : 0 <= b -> bytes [x; y; z; w] -> Inv u ->
  delayed_execution u = false -> running u = false -> vel_idle u ->
  reference_position u + s32 x y z w = current_position u ->
  let r := handle 48 b [x; y; z; w] u in
  snd r = OReply ack /\ arrived (calc_position d now (fst r)) (current_position u).
Proof.
  intros Hb Hp H Hd Hr Hv He. cbv zeta.
  destruct (absolute_accepted b x y z w u Hb Hp H Hd Hr Hv) as [A Hh]. split; [exact A|].
  rewrite He in Hh. apply heading_at_target; [exact Hh|].
  rewrite handle_refines by assumption. unfold spec_handle. cbn [decode exec].
  unfold request_position. rewrite Hd, Hr. destruct u; reflexivity.
Qed.

(* known finding: positioning acknowledged while a velocity command is pending *)
Lemma arrival_refuted_motion_pending :
  let h := [ECmd 53 252 [0; 3; 232]; ECmd 48 252 [0; 0; 1; 244]; ETick 1024; ETick 1024; ETick 1024] in
  let r := run (usd_init 1, 1024) h in
  Forall wf_event h /\ nth 1 (snd r) None = Some (OReply ack) /\
  cmd_position (fst (fst r)) = Some 500 /\ current_position (fst (fst r)) = 192000 /\
  running (fst (fst r)) = true.
Proof.
  cbv zeta. split; [repeat constructor; cbn; unfold byte; lia|]. vm_compute. auto.
Qed.

(* ---------- lines of several units: unicast, broadcast, time steps ---------- *)
Definition wf_levent (e : levent) : Prop :=
  match e with
  | LUni _ _ b p | LBcast _ b p => 0 <= b /\ bytes p
  | LTick k => 0 <= k
  end.

Lemma parse1_refines c b p u : 0 <= b -> bytes p -> Inv u ->
  parse1 c b p u = spec_parse1 c b p u /\ Inv (fst (parse1 c b p u)).
Proof.
  intros Hb Hp H. unfold parse1, spec_parse1. rewrite handle_refines by assumption.
  pose proof (spec_handle_inv c b p u Hp H) as Hi.
  destruct (spec_handle c b p u) as [u' o]. split; [reflexivity|exact Hi].
Qed.

Lemma upd_nth_inv us : forall j x, Forall Inv us -> Inv x -> Forall Inv (upd_nth us j x).
Proof.
  induction us as [|h t IH]; intros j x Hf Hx; [constructor|].
  inversion Hf; subst. destruct j; cbn; constructor; auto.
Qed.

Lemma known_decode c p : known_code c = false <-> decode c p = DUnknown.
Proof.
  split.
  - intros Hk. apply decode_unknown; intros ->; discriminate Hk.
  - intros Hd. destruct (known_code c) eqn:Hk; [|reflexivity]. exfalso.
    unfold known_code in Hk. apply existsb_exists in Hk. destruct Hk as (x & Hin & Hx).
    apply Z.eqb_eq in Hx. subst x. cbn in Hin.
    repeat (destruct Hin as [<-|Hin]; [cbn in Hd;
      repeat match type of Hd with context [match ?y with _ => _ end] => destruct y end;
      discriminate Hd|]). exact Hin.
Qed.

Lemma lstep_refines s e : wf_levent e -> Forall Inv (fst s) ->
  lstep s e = spec_lstep s e /\ Forall Inv (fst (fst (lstep s e))).
Proof.
  destruct s as [us now]. cbn [fst]. intros Hw Hf. destruct e as [j c b p|c b p|k]; cbn [wf_levent] in Hw.
  - destruct Hw as [Hb Hp]. unfold lstep, spec_lstep.
    destruct (nth_error us j) as [u|] eqn:Hn; [|split; [reflexivity|exact Hf]].
    assert (Hu : Inv u).
    { rewrite Forall_forall in Hf. apply Hf. eapply nth_error_In. exact Hn. }
    destruct (parse1_refines c b p u Hb Hp Hu) as [E Hi]. rewrite <- E.
    destruct (parse1 c b p u) as [u' o]. split; [reflexivity|]. cbn [fst] in *.
    apply upd_nth_inv; assumption.
  - destruct Hw as [Hb Hp]. unfold lstep, spec_lstep.
    destruct (known_code c) eqn:Hk.
    + assert (Hd : decode c p <> DUnknown) by (intros Hd; apply known_decode in Hd; congruence).
      assert (Hm : bcast c b p us = map (fun u => fst (spec_handle c b p u)) us).
      { unfold bcast. apply map_ext_in. intros u Hin. rewrite handle_refines; auto.
        rewrite Forall_forall in Hf. auto. }
      rewrite Hm. split.
      * destruct (decode c p); try reflexivity. congruence.
      * cbn [fst]. rewrite Forall_forall in *. intros x Hx. apply in_map_iff in Hx.
        destruct Hx as (u & <- & Hin). apply spec_handle_inv; auto.
    + apply (known_decode c p) in Hk. rewrite Hk. split; [reflexivity|exact Hf].
  - unfold lstep, spec_lstep. split.
    + f_equal. f_equal. apply map_ext_in. intros u Hin. apply tick_refines; [|exact Hw].
      rewrite Forall_forall in Hf. auto.
    + cbn [fst]. rewrite Forall_forall in *. intros x Hx. apply in_map_iff in Hx.
      destruct Hx as (u & <- & Hin). apply tick_inv. auto.
Qed.

Theorem lrun_refines h : forall s, Forall wf_levent h -> Forall Inv (fst s) ->
  lrun s h = spec_lrun s h /\ Forall Inv (fst (fst (lrun s h))).
Proof.
  induction h as [|e h IH]; intros s Hw H.
  - cbn. auto.
  - inversion Hw as [|? ? He Hh]; subst. cbn [lrun spec_lrun].
    destruct (lstep_refines s e He H) as [E Hi]. rewrite <- E.
    destruct (lstep s e) as [s1 o]. cbn [fst] in Hi.
    destruct (IH s1 Hh Hi) as [E2 Hi2]. rewrite <- E2.
    destruct (lrun s1 h) as [s2 os]. auto.
Qed.

Lemma init_line_inv idxs : Forall (fun i => 0 <= i < 32) idxs -> Forall Inv (map usd_init idxs).
Proof.
  induction 1 as [|i l Hi _ IH]; cbn; constructor; [apply inv_init, Hi|exact IH].
Qed.

(* a broadcast stop halts every unit of the line *)
Theorem broadcast_stop_halts b us : forall u, In u us ->
  In (soft_stop u) (bcast 17 b [] us) /\
  forall d now more,
    current_position (ticks more (calc_position d now (soft_stop u))) = current_position u /\
    running (calc_position d now (soft_stop u)) = false.
Proof.
  intros u Hin. split.
  - unfold bcast. apply in_map_iff. exists u. split; [reflexivity|exact Hin].
  - intros d now more. apply stop_halts.
Qed.

Theorem broadcast_is_unicast_everywhere c b p us :
  bcast c b p us = map (fun u => fst (parse1 c b p u)) us.
Proof.
  unfold bcast. apply map_ext. intros u. unfold parse1. destruct (handle c b p u). reflexivity.
Qed.

(* the response-delay rule: multiplier 255 (as left by the command itself) means no answer *)
Theorem silent_iff_delay_255 c b p u r : snd (handle c b p u) = OReply r ->
  snd (parse1 c b p u) = (if delay_multiplier (fst (handle c b p u)) =? 255 then OSilent else OReply r).
Proof.
  unfold parse1. destruct (handle c b p u) as [u' o]. cbn [fst snd]. intros ->. reflexivity.
Qed.
