(* Lemmas for C05 part acu (agent Acmd): read-back of acknowledged ACU parameter writes, refused
   writes change nothing.  Models: Model/AcmdAxis.v [parameter_command], Model/AcmdParam.v. *)
From DS Require Import Base.Prelude Base.Bits Model.Utils Gen.AcmdTables.
From DS Require Import Model.AcmdFrame Model.AcmdAxis Model.AcmdParam Proofs.AcmdAxisProofs.
From Coq Require Import Reals Lra.
From Flocq Require Import Core IEEE754.BinarySingleNaN.

Notation le_dec := DS.Base.Bits.le_dec (only parsing).

(* ------------------------------------------------------------------ int(round(x)), int(x) *)

Lemma round_FIX0 rnd (x : R) : round radix2 (FIX_exp 0) rnd x = IZR (rnd x).
Proof.
  unfold round, F2R, scaled_mantissa, cexp, FIX_exp. cbn [Fnum Fexp].
  change (bpow radix2 (- 0)) with 1%R. change (bpow radix2 0) with 1%R.
  rewrite !Rmult_1_r. reflexivity.
Qed.

(* int(round(x)) of a Python float: the integer nearest to the double, ties to even;
   ValueError / OverflowError exactly for NaN / infinities *)
Theorem py_round_int_spec (x : f64) :
  py_round_int x = if is_finite x then Some (ZnearestE (B2R x)) else None.
Proof.
  unfold py_round_int. destruct (is_finite x) eqn:Hf; [|reflexivity]. f_equal.
  destruct (Bnearbyint_correct 53 1024 _ mode_NE x) as (Hr & _ & _).
  apply eq_IZR. rewrite Btrunc_correct, Hr. cbn [round_mode].
  rewrite !round_FIX0. rewrite Ztrunc_IZR. reflexivity.
  exact acmd_prec_lt_emax.
Qed.

(* int(x): truncation toward zero *)
Theorem py_int_spec (x : f64) :
  py_int x = if is_finite x then Some (Ztrunc (B2R x)) else None.
Proof.
  unfold py_int. destruct (is_finite x); [|reflexivity]. f_equal.
  apply eq_IZR. rewrite Btrunc_correct, round_FIX0; [reflexivity|exact acmd_prec_lt_emax].
Qed.

(* ------------------------------------------------------------------ axis position offset *)

(* the protocol's encoding of an offset of v degrees: round-half-even of the double v * 10^6 *)
Definition udeg (v : f64) : Z := ZnearestE (B2R (fmul v (f_of_Z million))).

Theorem axis_offset_readback ax cmd : length cmd = 26%nat ->
  let r := parameter_command ax cmd in
  snd r = TDone -> par_answer (fst r) = 1 ->
  (pc_id cmd = 11 /\ p_Offset (mo (fst r)) = udeg (mc_p1 cmd)) \/
  (pc_id cmd = 12 /\ p_Offset (mo (fst r)) = p_Offset (mo ax) + udeg (mc_p1 cmd)).
Proof.
  intros Hl. cbv zeta. unfold parameter_command.
  rewrite (uint_le_slice 4 8), (uint_le_slice 8 10) by lia.
  rewrite (real_le_slice 10), (real_le_slice 18) by lia.
  change (10 + 8)%nat with 18%nat. change (18 + 8)%nat with 26%nat.
  fold (mc_counter cmd) (pc_id cmd) (mc_p1 cmd).
  cbn [set_par mo].
  destruct (axis_state (mo ax) =? 3); cbn [negb].
  2: { intros _ H. cbn [fst snd set_par par_answer] in H. lia. }
  unfold udeg, offset_command. rewrite py_round_int_spec.
  destruct (Z.eqb_spec (pc_id cmd) 11) as [H11|H11].
  { destruct (is_finite (fmul (mc_p1 cmd) (f_of_Z million))); [|cbv beta iota; cbn [fst snd]; intros H; discriminate H].
    destruct (fits_i32 _); cbv beta iota; cbn [fst snd]; [|intros H; discriminate H].
    intros _ _. left. split; [exact H11|]. cbn. reflexivity. }
  destruct (Z.eqb_spec (pc_id cmd) 12) as [H12|H12].
  { destruct (is_finite (fmul (mc_p1 cmd) (f_of_Z million))); [|cbv beta iota; cbn [fst snd]; intros H; discriminate H].
    destruct (fits_i32 _); cbv beta iota; cbn [fst snd]; [|intros H; discriminate H].
    intros _ _. right. split; [exact H12|]. cbn. reflexivity. }
  intros _ H. cbn [fst snd set_par par_answer] in H. lia.
Qed.

(* mode commands and status refreshes never touch the offset: it holds until the next
   acknowledged offset command *)
Lemma move_offset cfg m c dp dr : p_Offset (fst (move cfg m c dp dr)) = p_Offset m.
Proof. unfold move. acmd_bm; reflexivity. Qed.

Theorem mode_command_keeps_offset cfg ax cmd :
  p_Offset (mo (fst (mode_command cfg ax cmd))) = p_Offset (mo ax).
Proof.
  unfold mode_command. acmd_bm; try reflexivity;
  match goal with |- context [run_handler ?c ?h ?a ?n ?x ?y] =>
    destruct h; unfold run_handler, after_move, finish end; acmd_bm;
  cbn [fst snd mo with_mo set_ex set_rx p_Offset set_traj set_cmc set_motion_state set_vel set_brakes
       set_stow set_pt_active set_pos];
  rewrite ?move_offset; cbn [p_Offset set_traj set_cmc set_motion_state]; try reflexivity;
  try (match goal with H : move _ _ _ _ _ = _ |- _ =>
         let E := fresh in pose proof (f_equal (fun r => p_Offset (fst r)) H) as E;
         cbn [fst] in E; rewrite move_offset in E; cbn [p_Offset set_traj set_cmc set_motion_state] in E;
         cbn [fst snd]; congruence end).
Qed.

Theorem tick_keeps_offset cfg ax : p_Offset (mo (tick cfg ax)) = p_Offset (mo ax).
Proof. unfold tick. destruct (has_stow cfg); reflexivity. Qed.

(* ------------------------------------------------------------------ pointing subsystem *)

Definition q_fields (p : p5state) : Z * Z * f64 := (q_pt_offset p, q_time_source p, q_time_off p).

Lemma p5_unfold ok now p cmd : length cmd = 26%nat ->
  p5_parameter_command ok now p cmd =
  let p0 := mkP5 (mc_counter cmd) (pc_id cmd) (q_answer p) (q_pt_offset p) (q_time_source p) (q_time_off p) in
  if pc_id cmd =? 50 then p5_time_source ok p0 (mc_p1 cmd) (mc_p2 cmd)
  else if pc_id cmd =? 51 then p5_time_offset now p0 (mc_p1 cmd) (mc_p2 cmd)
  else if pc_id cmd =? 60 then p5_track_correction p0 (mc_p1 cmd)
  else (p5_answer p0 5, TDone).
Proof.
  intros Hl. unfold p5_parameter_command.
  rewrite (uint_le_slice 4 8), (uint_le_slice 8 10) by lia.
  rewrite (real_le_slice 10), (real_le_slice 18) by lia.
  change (10 + 8)%nat with 18%nat. change (18 + 8)%nat with 26%nat. reflexivity.
Qed.

Ltac p5_cases :=
  unfold p5_time_source, p5_time_offset, p5_track_correction, p5_answer;
  rewrite ?py_int_spec, ?py_round_int_spec; acmd_bm;
  cbn [fst snd q_fields q_counter q_id q_answer q_pt_offset q_time_source q_time_off].

(* counter and parameter id are echoed by every decodable command *)
Theorem p5_counter_echo ok now p cmd : length cmd = 26%nat ->
  let r := p5_parameter_command ok now p cmd in
  q_counter (fst r) = mc_counter cmd /\ q_id (fst r) = pc_id cmd.
Proof. intros Hl. cbv zeta. rewrite p5_unfold by exact Hl. cbv zeta. p5_cases; auto. Qed.

(* a write that is not acknowledged (answer other than 1, or the handler raised) leaves every
   read-back field unchanged *)
Theorem p5_refused_unchanged ok now p cmd : length cmd = 26%nat ->
  let r := p5_parameter_command ok now p cmd in
  snd r <> TDone \/ q_answer (fst r) <> 1 -> q_fields (fst r) = q_fields p.
Proof.
  intros Hl. cbv zeta. rewrite p5_unfold by exact Hl. cbv zeta.
  p5_cases; intros [H|H]; try reflexivity; try congruence; try lia.
Qed.

(* each field is written only by its own parameter id *)
Theorem p5_ownership ok now p cmd : length cmd = 26%nat ->
  let p' := fst (p5_parameter_command ok now p cmd) in
  (q_pt_offset p' <> q_pt_offset p -> pc_id cmd = 60) /\
  (q_time_source p' <> q_time_source p -> pc_id cmd = 50) /\
  (q_time_off p' <> q_time_off p -> pc_id cmd = 51).
Proof.
  intros Hl. cbv zeta. rewrite p5_unfold by exact Hl. cbv zeta.
  destruct (Z.eqb_spec (pc_id cmd) 50); [|destruct (Z.eqb_spec (pc_id cmd) 51); [|destruct (Z.eqb_spec (pc_id cmd) 60)]];
    p5_cases; repeat split; intros H; try congruence; try lia; exfalso; apply H; reflexivity.
Qed.

(* the protocol's encoding of a program-track time correction of v seconds: round-half-even of
   the double v * 1000, in milliseconds *)
Definition msec (v : f64) : Z := ZnearestE (B2R (fmul v (f_of_Z 1000))).

Theorem p5_track_correction_readback ok now p cmd : length cmd = 26%nat -> pc_id cmd = 60 ->
  let r := p5_parameter_command ok now p cmd in
  snd r = TDone -> q_answer (fst r) = 1 -> q_pt_offset (fst r) = msec (mc_p1 cmd).
Proof.
  intros Hl Hid. cbv zeta. rewrite p5_unfold by exact Hl. cbv zeta. rewrite Hid. cbn [Z.eqb Pos.eqb].
  unfold msec. p5_cases; intros H1 H2; try congruence; try lia; try reflexivity.
  match goal with H : (if ?c then _ else _) = Some _ |- _ => destruct c; congruence end.
Qed.

Theorem p5_time_source_readback ok now p cmd : length cmd = 26%nat -> pc_id cmd = 50 ->
  let r := p5_parameter_command ok now p cmd in
  snd r = TDone -> q_answer (fst r) = 1 ->
  q_time_source (fst r) = Ztrunc (B2R (mc_p1 cmd)) /\ 1 <= q_time_source (fst r) <= 3.
Proof.
  intros Hl Hid. cbv zeta. rewrite p5_unfold by exact Hl. cbv zeta. rewrite Hid. cbn [Z.eqb Pos.eqb].
  p5_cases; intros H1 H2; try congruence; try lia.
  all: repeat match goal with H : (if ?c then Some _ else None) = Some _ |- _ =>
         destruct c; [injection H as <-|discriminate H] end.
  all: split; [reflexivity|lia].
Qed.

(* the day fraction stored for a time offset command of mode k *)
Definition time_off_spec (now old : f64) (k : Z) (p2 : f64) (v : f64) : Prop :=
  (k = 1 /\ v = fadd old (day_fraction 1000000)) \/
  (k = 2 /\ v = fsub old (day_fraction 1000000)) \/
  (exists us, timedelta_us p2 = Some us /\
     ((k = 3 /\ v = dp now us) \/ (k = 4 /\ v = fadd old (dp now us)))).

Theorem p5_time_offset_readback ok now p cmd : length cmd = 26%nat -> pc_id cmd = 51 ->
  let r := p5_parameter_command ok now p cmd in
  snd r = TDone -> q_answer (fst r) = 1 ->
  time_off_spec now (q_time_off p) (Ztrunc (B2R (mc_p1 cmd))) (mc_p2 cmd) (q_time_off (fst r)).
Proof.
  intros Hl Hid. cbv zeta. rewrite p5_unfold by exact Hl. cbv zeta. rewrite Hid. cbn [Z.eqb Pos.eqb].
  unfold time_off_spec. p5_cases; intros H1 H2; try congruence; try lia.
  all: repeat match goal with H : (if ?c then Some _ else None) = Some _ |- _ =>
         destruct c; [injection H as <-|discriminate H] end.
  - left. split; [lia|reflexivity].
  - right. left. split; [lia|reflexivity].
  - right. right. eexists. split; [reflexivity|]. left. split; [lia|reflexivity].
  - right. right. eexists. split; [reflexivity|]. right. split; [lia|reflexivity].
Qed.
