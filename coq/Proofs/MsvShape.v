(* Minor-servo PLC (tag Msv): the shape invariant (every per-axis list of every servo has DOF
   entries) holds in every reachable state, for every instance of the number operations; with it
   the STATUS queries can never raise and are always answered (C02). *)
From DS Require Import Base.Prelude Model.MsvTypes Model.MsvModel Proofs.MsvProofs Proofs.MsvKin.

Section Shape.
Context {T : Type} (ops : numops T) (orc : oracles T) (cf : cfg T).

Definition shape_sconf (sc : sconf T) : Prop :=
  length (sc_min sc) = sc_dof sc /\ length (sc_max sc) = sc_dof sc /\ length (sc_delta sc) = sc_dof sc.
(* what get_status relies on in mode 50: a loaded spline table comes with a non-empty time list *)
Definition trk_ok (tk : trk T) : Prop := tk_pt tk = true -> tk_times tk <> [].
Definition len_inv (sc : sconf T) (sv : servo T) : Prop :=
  length (sv_coords sv) = sc_dof sc /\ length (sv_cmd sv) = sc_dof sc /\ length (sv_offs sv) = sc_dof sc /\
  trk_ok (sv_trk sv).

(* arithmetic laws of the time checks of _programTrack (binary64 and reals: Proofs/MsvGen.v) *)
Hypothesis law0 : pt_law ops cf.
Hypothesis law5 : forall p now, nlt ops p now = false -> nlt ops p (nsub ops now (nofZ ops 5)) = false.

Hypothesis wf : Forall shape_sconf (c_servos cf).
Hypothesis wf_table :
  Forall (fun r => Forall2 (fun sc row => length row = sc_dof sc) (c_servos cf) (tr_rows r)) (c_table cf).

Definition shape_inv (s : sys T) : Prop := Forall2 len_inv (c_servos cf) (s_servos s).

Lemma move_all_length : forall ms cs ts dt n,
  length ms = n -> length cs = n -> length ts = n -> length (move_all ops dt ms cs ts) = n.
Proof.
  induction ms as [|m ms IH]; intros [|c cs] [|t ts] dt n H1 H2 H3; cbn in *; try lia.
  destruct n; [lia|]. f_equal. apply IH; lia.
Qed.

Lemma clamp_all_length : forall los his cs n,
  length los = n -> length his = n -> length cs = n -> length (clamp_all ops los his cs) = n.
Proof.
  induction los as [|lo l IH]; intros [|hi h] [|c cs] n H1 H2 H3; cbn in *; try lia.
  destruct n; [lia|]. f_equal. apply IH; lia.
Qed.

Lemma get_status_len sc e sv : shape_sconf sc -> len_inv sc sv -> len_inv sc (get_status ops sc e sv).
Proof.
  intros (Lmin & Lmax & Ld) (Lc & Lcmd & Lo & Ltk). unfold get_status.
  assert (Hno : trk_ok (no_trk (T:=T))) by (intros H; discriminate).
  destruct (sv_mode sv =? 50).
  - destruct (tk_pt (sv_trk sv)) eqn:Hpt; [|repeat split; cbn; auto].
    destruct (tk_times (sv_trk sv)) as [|first rest] eqn:Hti; [repeat split; cbn; auto|].
    assert (Htk' : trk_ok (if nlt ops (last rest first) (e_now e) then no_trk else sv_trk sv))
      by (destruct (nlt ops _ _); assumption).
    destruct (nge ops (e_now e) first && (length (e_spl e) =? sc_dof sc)%nat && negb (sc_dof sc =? 0)%nat) eqn:Hg.
    + apply andb_true_iff in Hg as [Hg _]. apply andb_true_iff in Hg as [_ Hg]. apply Nat.eqb_eq in Hg.
      assert (L : length (move_all ops (nsub ops (e_now e) (sv_last sv)) (sc_delta sc) (sv_coords sv)
                                   (clamp_all ops (sc_min sc) (sc_max sc) (e_spl e))) = sc_dof sc).
      { apply move_all_length; auto. apply clamp_all_length; auto. }
      repeat split; cbn [sv_coords sv_cmd sv_offs sv_trk]; auto. destruct (sv_alias sv); auto.
    + repeat split; cbn [sv_coords sv_cmd sv_offs sv_trk]; auto.
  - destruct ((sv_mode sv =? 20) || (sv_mode sv =? 30)); [repeat split; cbn; auto|].
    destruct (negb _ || negb _); [|repeat split; cbn; auto].
    assert (L : length (move_all ops (nsub ops (e_now e) (sv_last sv)) (sc_delta sc) (sv_coords sv)
                                 (sv_cmd sv)) = sc_dof sc) by (apply move_all_length; auto).
    destruct (list_eq ops _ _); repeat split; cbn; auto.
Qed.

Lemma len_inv_same sc (sv sv' : servo T) :
  sv_coords sv' = sv_coords sv -> sv_cmd sv' = sv_cmd sv -> sv_offs sv' = sv_offs sv ->
  sv_trk sv' = sv_trk sv -> len_inv sc sv -> len_inv sc sv'.
Proof. unfold len_inv. intros -> -> -> ->. auto. Qed.

Lemma wf_nth_shape i sc : nth_error (c_servos cf) i = Some sc -> shape_sconf sc.
Proof. intros H. eapply Forall_forall in wf; [exact wf|]. eapply nth_error_In; eauto. Qed.

Lemma init_shape : shape_inv (init_sys ops cf).
Proof.
  unfold shape_inv, init_sys. cbn [s_servos]. clear wf wf_table.
  induction (c_servos cf) as [|sc l IH]; cbn; constructor; auto.
  unfold len_inv, init_servo. cbn. rewrite repeat_length. repeat split; auto. intros H; discriminate.
Qed.

Lemma set_servo_shape s i sc sv' : shape_inv s -> nth_error (c_servos cf) i = Some sc ->
  len_inv sc sv' -> shape_inv (set_servo s i sv').
Proof. intros H E Hp. unfold shape_inv, set_servo. cbn. eapply Forall2_upd; eauto. Qed.

Lemma shape_servos s s' : s_servos s' = s_servos s -> shape_inv s -> shape_inv s'.
Proof. unfold shape_inv. intros ->. auto. Qed.

Lemma fire_servos_shape tick : forall scs svs,
  Forall2 len_inv scs svs -> Forall2 len_inv scs (map (fire_servo tick) svs).
Proof.
  intros scs svs H. induction H as [|sc sv scs svs H0 H IH]; cbn; constructor; auto.
  unfold fire_servo. destruct (sv_timer sv) as [[t m]|]; [|exact H0].
  destruct (t <=? tick); [|exact H0]. exact H0.
Qed.

Lemma fire_shape tick s : shape_inv s -> shape_inv (fire tick s).
Proof.
  intros H. unfold shape_inv, fire. pose proof (fire_servos_shape tick _ _ H) as Hm.
  destruct (s_cover s) as [[t p]|]; [destruct (t <=? tick)|]; exact Hm.
Qed.

Lemma refresh_all_shape e : forall scs svs spls,
  Forall shape_sconf scs -> Forall2 len_inv scs svs ->
  Forall2 len_inv scs (fst (refresh_all ops e scs svs spls)) /\ snd (refresh_all ops e scs svs spls) = false.
Proof.
  intros scs svs spls Hwf H. revert spls.
  induction H as [|sc sv scs svs H0 H IH]; intros spls; cbn [refresh_all]; [split; [constructor|reflexivity]|].
  inversion Hwf as [|? ? Hsc Hscs]; subst.
  assert (Hr : gs_raises sv = false).
  { unfold gs_raises. destruct H0 as (_ & _ & _ & Htk). destruct (tk_pt (sv_trk sv)) eqn:Hpt.
    - destruct (tk_times (sv_trk sv)) eqn:Hti; [exfalso; apply (Htk Hpt); exact Hti|].
      rewrite andb_false_r. reflexivity.
    - rewrite andb_false_r. reflexivity. }
  rewrite Hr. destruct (IH Hscs (tl spls)) as [IH1 IH2].
  destruct (refresh_all ops e scs svs (tl spls)) as [r x]. cbn [fst snd] in *. split; [|exact IH2].
  constructor; [apply get_status_len; auto|exact IH1].
Qed.

Lemma refresh_shape e spls s : shape_inv s -> shape_inv (fst (refresh ops cf e spls s)).
Proof.
  intros H. unfold shape_inv, refresh.
  destruct (refresh_all_shape e (c_servos cf) (s_servos s) spls wf H) as [G _].
  destruct (refresh_all ops e (c_servos cf) (s_servos s) spls). exact G.
Qed.

(* the update thread never raises in a state with the invariant *)
Theorem refresh_no_raise e spls s : shape_inv s -> snd (refresh ops cf e spls s) = false.
Proof.
  intros H. unfold refresh.
  destruct (refresh_all_shape e (c_servos cf) (s_servos s) spls wf H) as [_ G].
  destruct (refresh_all ops e (c_servos cf) (s_servos s) spls). exact G.
Qed.

Lemma setup_loop_shape : forall scs rows svs svs',
  Forall2 (fun sc row => length row = sc_dof sc) scs rows -> Forall2 len_inv scs svs ->
  setup_loop ops scs rows svs = Some svs' -> Forall2 len_inv scs svs'.
Proof.
  induction scs as [|sc scs IH]; intros rows svs svs' Hrows H E.
  - cbn in E. injection E as <-. exact H.
  - inversion H as [|? sv ? svs0 H0 Hr]; subst.
    inversion Hrows as [|? row ? rows0 Hrow Hrows']; subst.
    cbn [setup_loop] in E.
    destruct (set_coords ops sc (cancel_set_mode sv 0) row 10 false) as [sv1 [r|]] eqn:Es; [|discriminate].
    destruct (setup_loop ops scs rows0 svs0) as [tl|] eqn:Et; [|discriminate].
    cbn in E. injection E as <-. constructor; [|eapply IH; eauto].
    destruct H0 as (Lc & Lcmd & Lo & Ltk).
    unfold set_coords in Es. cbn [cancel_set_mode sv_cmd sv_offs] in Es.
    destruct (sc_loop ops false sc (sv_cmd sv) (sv_offs sv) 0 row) as [l| |] eqn:El;
      injection Es as <- _; repeat split; cbn; auto.
    apply (sc_loop_ok ops) in El as [Hll _]. lia.
Qed.

Lemma set_offsets_length : forall (xs offs offs' : list T),
  set_offsets offs xs = Some offs' -> length offs' = length offs.
Proof.
  induction xs as [|x xs IH]; intros [|o offs] offs' H; cbn in *; try discriminate.
  - injection H as <-. reflexivity.
  - injection H as <-. reflexivity.
  - destruct (set_offsets offs xs) as [l|] eqn:E; [|discriminate]. cbn in H. injection H as <-.
    cbn. f_equal. eauto.
Qed.

Lemma bisect_last (p x : T) : nlt ops p x = false ->
  forall l, (bisect_left ops (l ++ [p]) x <= length l)%nat.
Proof.
  intros Hp. induction l as [|a l IH]; cbn.
  - rewrite Hp. lia.
  - destruct (nlt ops a x); lia.
Qed.

Lemma skipn_app_nonempty {A} (l : list A) p k : (k <= length l)%nat -> skipn k (l ++ [p]) <> [].
Proof.
  revert k. induction l as [|a l IH]; intros [|k] H; cbn in *; try discriminate; try lia.
  apply IH. lia.
Qed.

Lemma pt_finish_times e start tk1 pid :
  match pt_finish ops cf e start tk1 pid with
  | PtBad _ => True
  | PtGood tk' | PtExc tk' => tk_times tk' <> []
  end.
Proof.
  unfold pt_finish. destruct (nlt ops _ (e_now e)) eqn:Hp; [exact I|].
  apply law5 in Hp.
  set (times1 := match tk_times tk1 with [t0] => _ | l => l end).
  assert (Hne : skipn (bisect_left ops (times1 ++ [nadd ops start (nmul ops (nofZ ops pid) (c_gap cf))])
                                   (nsub ops (e_now e) (nofZ ops 5)))
                      (times1 ++ [nadd ops start (nmul ops (nofZ ops pid) (c_gap cf))]) <> []).
  { apply skipn_app_nonempty. apply bisect_last. exact Hp. }
  destruct (_ <? _)%nat; [destruct (e_pt_ok e)|]; cbn [tk_times]; exact Hne.
Qed.

(* whatever _programTrack answers, the bookkeeping it leaves behind keeps the invariant *)
Lemma pt_book_ok e tk tid pid st : trk_ok tk ->
  match pt_book ops orc cf e tk tid pid st with PtBad tk' | PtGood tk' | PtExc tk' => trk_ok tk' end.
Proof.
  intros Hok. pose proof (pt_book_bad ops orc cf e tk tid pid st) as Hbad.
  destruct (pt_book ops orc cf e tk tid pid st) as [tk'|tk'|tk'] eqn:Hb.
  - rewrite (Hbad tk' law0 eq_refl). exact Hok.
  - revert Hb. unfold pt_book.
    destruct (pt_stage1 ops orc cf e tk tid pid st) as [r|[[start|] tk1]] eqn:H1.
    + revert H1. unfold pt_stage1.
      repeat match goal with |- context [if ?c then _ else _] => destruct c
                        | |- context [match ?x with _ => _ end] => destruct x end;
        intros H1; try discriminate; injection H1 as <-; discriminate.
    + intros Hf. pose proof (pt_finish_times e start tk1 pid) as Ht. rewrite Hf in Ht. intros _. exact Ht.
    + discriminate.
  - revert Hb. unfold pt_book.
    destruct (pt_stage1 ops orc cf e tk tid pid st) as [r|[[start|] tk1]] eqn:H1.
    + revert H1. unfold pt_stage1.
      repeat match goal with |- context [if ?c then _ else _] => destruct c
                        | |- context [match ?x with _ => _ end] => destruct x end;
        intros H1; try discriminate; injection H1 as <-; intros H2; try discriminate; injection H2 as <-; exact Hok.
    + intros Hf. pose proof (pt_finish_times e start tk1 pid) as Ht. rewrite Hf in Ht. intros _. exact Ht.
    + revert H1. unfold pt_stage1.
      repeat match goal with |- context [if ?c then _ else _] => destruct c
                        | |- context [match ?x with _ => _ end] => destruct x eqn:? end;
        intros H1; try discriminate; injection H1 as ? <-; intros H2; injection H2 as <-; exact Hok.
Qed.

Ltac inv_same := match goal with
  | H : (_, _) = (_, _) |- _ => injection H as <- _; try assumption
  end.

Lemma h_status_shape s e args s' r : shape_inv s -> h_status ops orc cf s e args = (s', r) -> shape_inv s'.
Proof.
  intros Hs. unfold h_status, bad. destruct args as [|sid [|b l]]; intros H; try inv_same.
  destruct (find_servo sid 0 (c_servos cf)) as [[i sc]|] eqn:Hf; try inv_same.
  destruct (nth_error (s_servos s) i) as [sv|] eqn:Hsv; try inv_same.
  apply find_servo_nth0 in Hf.
  assert (Hg : shape_inv (set_servo s i (get_status ops sc e sv))).
  { eapply set_servo_shape; eauto.
    apply get_status_len; [eapply wf_nth_shape; eauto|]. eapply Forall2_nth; eauto. }
  destruct (gs_raises sv); injection H as <- _; exact Hg.
Qed.

Lemma h_setup_shape s e args s' r : shape_inv s -> h_setup ops cf s e args = (s', r) -> shape_inv s'.
Proof.
  intros Hs. unfold h_setup, bad. destruct args as [|name [|b l]]; intros H; try inv_same.
  destruct (find_row name (c_table cf)) as [row|] eqn:Hr; try inv_same.
  destruct (setup_loop ops (c_servos cf) (tr_rows row) (s_servos s)) as [svs|] eqn:El; try inv_same.
  unfold shape_inv. cbn. eapply setup_loop_shape; eauto.
  apply find_row_in in Hr. eapply Forall_forall in wf_table; eauto.
Qed.

Lemma h_stop_shape s e args s' r : shape_inv s -> h_stop cf s e args = (s', r) -> shape_inv s'.
Proof.
  intros Hs. unfold h_stop, bad. destruct args as [|sid [|b l]]; intros H; try inv_same.
  destruct (find_servo sid 0 (c_servos cf)) as [[i sc]|] eqn:Hf; try inv_same.
  destruct (nth_error (s_servos s) i) as [sv|] eqn:Hsv; try inv_same.
  apply find_servo_nth0 in Hf. eapply shape_servos with (s := set_servo s i (cancel_set_mode sv 30));
    [reflexivity|].
  eapply set_servo_shape; eauto. eapply len_inv_same with (sv := sv); [reflexivity|reflexivity|reflexivity|reflexivity|].
  eapply Forall2_nth; eauto.
Qed.

Lemma h_stow_shape s e args s' r : shape_inv s -> h_stow orc cf s e args = (s', r) -> shape_inv s'.
Proof.
  intros Hs. unfold h_stow, bad. destruct args as [|sid [|pos [|c l]]]; intros H; try inv_same.
  destruct (find_servo sid 0 (c_servos cf)) as [[i sc]|] eqn:Hf.
  - destruct (pyint orc pos) as [p|]; [|destruct (zlist_eqb sid gcap_name); inv_same].
    destruct (zlist_eqb sid gcap_name); try inv_same.
    destruct (nth_error (s_servos s) i) as [sv|] eqn:Hsv; try inv_same.
    apply find_servo_nth0 in Hf.
    match goal with |- shape_inv (set_last (set_servo s i ?x) _) =>
      eapply shape_servos with (s := set_servo s i x); [reflexivity|] end.
    eapply set_servo_shape; eauto. eapply len_inv_same with (sv := sv); [reflexivity|reflexivity|reflexivity|reflexivity|].
    eapply Forall2_nth; eauto.
  - destruct (zlist_eqb sid gcap_name); try inv_same.
    destruct (pyint orc pos) as [p|]; try inv_same.
    destruct ((p <? 0) || (4 <? p)); try inv_same.
    destruct (s_gcap s =? p); try inv_same.
    destruct ((s_gcap s <=? 1) || (p =? 1)); inv_same.
Qed.

Lemma h_preset_shape s e args s' r : shape_inv s -> h_preset ops orc cf s e args = (s', r) -> shape_inv s'.
Proof.
  intros Hs. destruct args as [|sid [|t0 toks]]; try (cbn; unfold bad; intros H; inv_same).
  destruct (find_servo sid 0 (c_servos cf)) as [[i sc]|] eqn:Hf;
    [|cbn; rewrite Hf; unfold bad; intros H; inv_same].
  destruct (length (t0 :: toks) =? sc_dof sc)%nat eqn:Hlen;
    [|unfold h_preset; rewrite Hf, Hlen; cbn [negb]; unfold bad; intros H; inv_same].
  destruct (floats orc (t0 :: toks)) as [xs|] eqn:Hfl;
    [|unfold h_preset; rewrite Hf, Hlen; cbn [negb]; rewrite Hfl; unfold bad; intros H; inv_same].
  destruct (nth_error (s_servos s) i) as [sv|] eqn:Hsv;
    [|unfold h_preset; rewrite Hf, Hlen; cbn [negb]; rewrite Hfl, Hsv; intros H; inv_same].
  apply Nat.eqb_eq in Hlen.
  rewrite (h_preset_cases ops orc cf s e sid (t0 :: toks) i sc xs sv); auto; [|discriminate].
  apply find_servo_nth0 in Hf. pose proof (Forall2_nth _ _ _ _ _ _ Hs Hf Hsv) as (Lc & Lcmd & Lo & Ltk).
  destruct (sc_loop ops true sc (sv_cmd sv) (sv_offs sv) 0 (map Some xs)) as [l| |] eqn:El;
    intros H; try inv_same.
  eapply shape_servos with (s := set_servo s i (preset_servo sv l)); [reflexivity|].
  eapply set_servo_shape; eauto. repeat split; cbn; auto.
  apply (sc_loop_ok ops) in El as [Hll _]. rewrite map_length in Hll.
  rewrite Hll, (MsvProofs.floats_length orc _ _ Hfl). exact Hlen.
Qed.

Lemma h_offset_shape s e args s' r : shape_inv s -> h_offset orc cf s e args = (s', r) -> shape_inv s'.
Proof.
  intros Hs. unfold h_offset, bad. destruct args as [|sid [|t0 toks]]; intros H; try inv_same.
  destruct (find_servo sid 0 (c_servos cf)) as [[i sc]|] eqn:Hf; try inv_same.
  destruct (negb _); try inv_same.
  destruct (floats orc (t0 :: toks)) as [xs|]; try inv_same.
  destruct (nth_error (s_servos s) i) as [sv|] eqn:Hsv; try inv_same.
  destruct (set_offsets (sv_offs sv) xs) as [offs'|] eqn:Ho; try inv_same.
  apply find_servo_nth0 in Hf.
  match goal with |- shape_inv (set_last (set_servo s i ?x) _) =>
    eapply shape_servos with (s := set_servo s i x); [reflexivity|] end.
  eapply set_servo_shape; eauto. pose proof (Forall2_nth _ _ _ _ _ _ Hs Hf Hsv) as (Lc & Lcmd & Lo & Ltk).
  repeat split; cbn; auto. rewrite (set_offsets_length _ _ _ Ho). exact Lo.
Qed.

Lemma h_programtrack_shape s e args s' r :
  shape_inv s -> h_programtrack ops orc cf s e args = (s', r) -> shape_inv s'.
Proof.
  intros Hs. unfold h_programtrack, bad. destruct args as [|sid rest]; intros H; try inv_same.
  destruct (find_servo sid 0 (c_servos cf)) as [[i sc]|] eqn:Hf; try inv_same.
  destruct (negb (sc_pt sc)); try inv_same.
  destruct (negb _); try inv_same.
  destruct rest as [|tid [|pid [|st toks]]]; try inv_same.
  destruct (nth_error (s_servos s) i) as [sv|] eqn:Hsv; try inv_same.
  destruct (pyint orc tid); [|inv_same]. destruct (pyint orc pid); [|inv_same].
  destruct (pt_coords ops orc toks (sv_offs sv)) as [[l|]|]; try inv_same.
  apply find_servo_nth0 in Hf. pose proof (Forall2_nth _ _ _ _ _ _ Hs Hf Hsv) as (Lc & Lcmd & Lo & Ltk).
  assert (Hk : forall m tk, trk_ok tk -> shape_inv (set_servo s i (set_trk sv m tk))).
  { intros m tk Htk. eapply set_servo_shape; eauto. repeat split; cbn; auto. }
  pose proof (pt_book_ok e (sv_trk sv) z z0 st Ltk) as Hb.
  destruct (pt_book ops orc cf e (sv_trk sv) z z0 st) as [tk|tk|tk]; injection H as <- _; apply Hk; exact Hb.
Qed.

Lemma dispatch_shape h f s e args s' r : shape_inv s ->
  dispatch ops orc cf h = Some f -> f s e args = (s', r) -> shape_inv s'.
Proof.
  intros Hs Hd Hf. unfold dispatch in Hd.
  repeat match type of Hd with (if ?c then _ else _) = _ => destruct c end; try discriminate;
    injection Hd as <-;
    eauto using h_status_shape, h_setup_shape, h_stow_shape, h_stop_shape, h_preset_shape, h_offset_shape,
                h_programtrack_shape.
Qed.

Lemma execute_shape s e msg : shape_inv s -> shape_inv (fst (execute ops orc cf s e msg)).
Proof.
  intros Hs. unfold execute. destruct (tokens msg) as [|c args]; [exact Hs|].
  destruct (assoc c (c_commands cf)) as [h|]; [|exact Hs].
  destruct (dispatch ops orc cf h) as [f|] eqn:Hd; [|exact Hs].
  destruct (f s e args) as [s1 r] eqn:Hf.
  assert (shape_inv s1) by (eapply dispatch_shape; eauto).
  destruct r; assumption.
Qed.

Lemma parse_shape s e b : shape_inv s -> shape_inv (fst (parse ops orc cf s e b)).
Proof.
  intros Hs. unfold parse. destruct (ends_crlf (s_msg s ++ [b])).
  - apply execute_shape. exact Hs.
  - exact Hs.
Qed.

Lemma step_shape w ev : shape_inv (snd w) -> shape_inv (snd (fst (step ops orc cf w ev))).
Proof.
  intros Hw. destruct w as [e0 s]. cbn [fst snd] in *. destruct ev as [e|b|spls]; cbn [step fst snd].
  - apply fire_shape. exact Hw.
  - pose proof (parse_shape s e0 b Hw) as H. destruct (parse ops orc cf s e0 b). exact H.
  - apply refresh_shape. exact Hw.
Qed.

(* every reachable state has the shape *)
Theorem run_shape : forall evs w, shape_inv (snd w) -> shape_inv (snd (fst (run ops orc cf w evs))).
Proof.
  induction evs as [|ev evs IH]; intros w Hw; [exact Hw|].
  cbn [run]. pose proof (step_shape w ev Hw) as H1. destruct (step ops orc cf w ev) as [w1 o].
  specialize (IH w1 H1). destruct (run ops orc cf w1 evs). exact IH.
Qed.

(* ---- STATUS is always answered ---------------------------------------------------------------------- *)
(* a layout only refers to axes below DOF and to at most [n] random draws *)
Fixpoint layout_ok (dof n : nat) (ps : list piece) : bool :=
  match ps with
  | [] => true
  | PLit _ :: r | PMode :: r => layout_ok dof n r
  | PRnd :: r => match n with O => false | S n' => layout_ok dof n' r end
  | PCoord i :: r | POffs i :: r => (i <? dof)%nat && layout_ok dof n r
  | _ => false
  end.

Lemma render_servo_ok : forall ps mode sv draws dof,
  layout_ok dof (length draws) ps = true -> length (sv_coords sv) = dof -> length (sv_offs sv) = dof ->
  exists body, render_servo orc ps mode sv draws = Some body.
Proof.
  induction ps as [|p ps IH]; intros mode sv draws dof H L1 L2; [cbn; eauto|].
  destruct p; cbn [layout_ok] in H; try discriminate; cbn [render_servo].
  - destruct (IH mode sv draws dof H L1 L2) as [b ->]. cbn. eauto.
  - destruct (IH mode sv draws dof H L1 L2) as [b ->]. cbn. eauto.
  - destruct draws as [|d ds]; [discriminate|]. cbn [length] in H.
    destruct (IH mode sv ds dof H L1 L2) as [b ->]. cbn. eauto.
  - apply andb_true_iff in H as [Hi H]. apply Nat.ltb_lt in Hi.
    destruct (nth_error (sv_coords sv) i) eqn:E; [|apply nth_error_None in E; lia].
    destruct (IH mode sv draws dof H L1 L2) as [b ->]. cbn. eauto.
  - apply andb_true_iff in H as [Hi H]. apply Nat.ltb_lt in Hi.
    destruct (nth_error (sv_offs sv) i) eqn:E; [|apply nth_error_None in E; lia].
    destruct (IH mode sv draws dof H L1 L2) as [b ->]. cbn. eauto.
Qed.

Fixpoint sys_layout_ok (ps : list piece) : bool :=
  match ps with
  | [] => true
  | PLit _ :: r | PCfg :: r | PTime :: r | PGcap :: r | PLast :: r => sys_layout_ok r
  | _ => false
  end.

Lemma render_sys_ok : forall ps e s, sys_layout_ok ps = true -> exists body, render_sys orc ps e s = Some body.
Proof.
  induction ps as [|p ps IH]; intros e s H; [cbn; eauto|].
  destruct p; cbn [sys_layout_ok] in H; try discriminate; cbn [render_sys];
    destruct (IH e s H) as [b ->]; cbn; eauto.
Qed.

Lemma Forall2_nth_ex {A B} (P : A -> B -> Prop) l1 l2 i a :
  Forall2 P l1 l2 -> nth_error l1 i = Some a -> exists b, nth_error l2 i = Some b /\ P a b.
Proof.
  intros H; revert i. induction H as [|a0 b0 l1 l2 H0 H IH]; intros [|i] E; cbn in *; try discriminate.
  - injection E as <-. eauto.
  - eauto.
Qed.

(* C02: in every state with the shape (so in every reachable state) STATUS=<servo> of an existing
   servo is answered GOOD — never BAD, never an exception — provided random.uniform delivers its
   draws; so is the general STATUS *)
Theorem status_servo_answered s e sid i sc :
  shape_inv s -> find_servo sid 0 (c_servos cf) = Some (i, sc) ->
  layout_ok (sc_dof sc) (length (e_draws e)) (sc_layout sc) = true ->
  exists s' body, h_status ops orc cf s e [sid] = (s', RGood body) /\ shape_inv s' /\ s_msg s' = s_msg s.
Proof.
  intros Hs Hf Hl. unfold h_status. rewrite Hf. pose proof (find_servo_nth0 _ _ _ _ Hf) as Hn.
  destruct (Forall2_nth_ex _ _ _ _ _ Hs Hn) as (sv & Hsv & Hlen). rewrite Hsv.
  assert (Hr : gs_raises sv = false).
  { unfold gs_raises. destruct Hlen as (_ & _ & _ & Htk). destruct (tk_pt (sv_trk sv)) eqn:Hpt.
    - destruct (tk_times (sv_trk sv)) eqn:Hti; [exfalso; apply (Htk Hpt); exact Hti|].
      rewrite andb_false_r. reflexivity.
    - rewrite andb_false_r. reflexivity. }
  rewrite Hr.
  pose proof (get_status_len sc e sv (wf_nth_shape _ _ Hn) Hlen) as (L1 & _ & L3 & _).
  destruct (render_servo_ok (sc_layout sc) (sv_mode sv) (get_status ops sc e sv) (e_draws e) (sc_dof sc) Hl L1 L3)
    as [body ->].
  eexists _, body. split; [reflexivity|]. split; [|reflexivity].
  eapply set_servo_shape; eauto. apply get_status_len; [eapply wf_nth_shape; eauto|exact Hlen].
Qed.

Theorem status_general_answered s e : sys_layout_ok (c_sys_layout cf) = true ->
  exists body, h_status ops orc cf s e [] = (s, RGood body).
Proof.
  intros H. unfold h_status. destruct (render_sys_ok _ e s H) as [body ->]. eexists. reflexivity.
Qed.

End Shape.
