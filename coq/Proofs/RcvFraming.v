(* Framing of System.parse: the buffer evolves independently of the boards; resynchronisation
   within 263 = 8 + 255 bytes; the completion length is a function of msg[3] and msg[5]; the
   abbreviated / extended request constructors and what _parse reads off them. *)
From DS Require Import Base.Prelude Gen.RcvTables Model.RcvModel Proofs.RcvAssoc Proofs.RcvProofs.

#[local] Arguments mem : simpl never.

Lemma zlen_app {A} (l1 l2 : list A) : zlen (l1 ++ l2) = zlen l1 + zlen l2.
Proof. unfold zlen. rewrite app_length. lia. Qed.
Lemma zlen_cons {A} (x : A) l : zlen (x :: l) = 1 + zlen l.
Proof. unfold zlen. cbn [length]. lia. Qed.
Lemma zlen_nil {A} : zlen (@nil A) = 0.
Proof. reflexivity. Qed.
Lemma zlen_nonneg {A} (l : list A) : 0 <= zlen l.
Proof. unfold zlen. lia. Qed.

(* the buffer after one byte *)
Definition next (msg : list Z) (b : Z) : list Z :=
  match frame_step msg b with FMore m => m | _ => [] end.
Fixpoint ffeed (msg : list Z) (bs : list Z) : list Z :=
  match bs with [] => msg | b :: r => ffeed (next msg b) r end.

(* the completion length, a function of the command byte and of the parameter-length byte only *)
Definition flen (c l : Z) : Z :=
  if mem c CMD_ABBR_NO_PARAMS || negb (mem c ACCEPTED_COMMANDS) then 5
  else if mem c CMD_EXT_NO_PARAMS then 7
  else if mem c CMD_ABBR_WITH_PARAMS && (1 <=? l) then 6 + l
  else 8 + l.

Lemma flen_bound c l : byte l -> 5 <= flen c l <= 263.
Proof.
  unfold byte, flen. intros H.
  destruct (_ || _); [lia|]. destruct (mem c CMD_EXT_NO_PARAMS); [lia|]. destruct (_ && _); lia.
Qed.

(* reachable buffers: a proper prefix of a frame *)
Definition buf_inv (msg : list Z) : Prop :=
  bytes msg /\ (6 <= zlen msg -> zlen msg < 8 + nth 5 msg 0).

Lemma buf_inv_nil : buf_inv [].
Proof. split; [constructor|]. rewrite zlen_nil. lia. Qed.

Lemma bytes_snoc msg b : bytes msg -> byte b -> bytes (msg ++ [b]).
Proof. intros H Hb. apply Forall_app. split; [assumption|]. constructor; [assumption|constructor]. Qed.

Lemma frame_step_more msg b m : buf_inv msg -> byte b -> frame_step msg b = FMore m ->
  m = msg ++ [b] /\ buf_inv m.
Proof.
  intros [Hby Hlen] Hb.
  assert (Hbm : bytes (msg ++ [b])) by (apply bytes_snoc; assumption).
  destruct msg as [|x0 [|x1 [|x2 [|x3 [|x4 [|x5 rest]]]]]].
  - cbn. destruct (b =? CMD_SOH); [|discriminate]. intros H; injection H as <-. split; [reflexivity|].
    split; [assumption|]. unfold zlen; cbn [length app nth]; lia.
  - cbn. intros H; injection H as <-. split; [reflexivity|]. split; [assumption|]. unfold zlen; cbn [length app nth]; lia.
  - cbn. intros H; injection H as <-. split; [reflexivity|]. split; [assumption|]. unfold zlen; cbn [length app nth]; lia.
  - cbn. intros H; injection H as <-. split; [reflexivity|]. split; [assumption|]. unfold zlen; cbn [length app nth]; lia.
  - unfold frame_step. cbn [length app nth]. destruct (_ || _); [discriminate|].
    intros H; injection H as <-. split; [reflexivity|]. split; [assumption|]. unfold zlen; cbn [length app nth]; lia.
  - cbn. intros H; injection H as <-. split; [reflexivity|]. split; [assumption|]. unfold byte in Hb. unfold zlen; cbn [length app nth]; lia.
  - unfold frame_step. cbn [length]. set (m' := (x0 :: x1 :: x2 :: x3 :: x4 :: x5 :: rest) ++ [b]).
    assert (H5 : nth 5 m' 0 = x5) by reflexivity.
    assert (Hz : zlen m' = zlen (x0 :: x1 :: x2 :: x3 :: x4 :: x5 :: rest) + 1)
      by (unfold m'; rewrite zlen_app; reflexivity).
    assert (H6 : 6 <= zlen (x0 :: x1 :: x2 :: x3 :: x4 :: x5 :: rest))
      by (repeat rewrite zlen_cons; pose proof (zlen_nonneg rest); lia).
    specialize (Hlen H6). cbn [nth] in Hlen. rewrite H5.
    destruct (_ && _); [discriminate|].
    destruct (zlen m' =? 6 + x5) eqn:E1.
    + destruct (mem _ CMD_ABBR_WITH_PARAMS); [discriminate|]. intros H; injection H as <-.
      split; [reflexivity|]. split; [assumption|]. intros _. rewrite H5. lia.
    + destruct (zlen m' =? 8 + x5) eqn:E2; [discriminate|]. intros H; injection H as <-.
      split; [reflexivity|]. split; [assumption|]. intros _. rewrite H5. lia.
Qed.

Lemma buf_inv_short msg : buf_inv msg -> zlen msg <= 262.
Proof.
  intros [Hby Hlen]. destruct (Z_lt_dec (zlen msg) 6); [lia|]. specialize (Hlen ltac:(lia)).
  assert (Hb : byte (nth 5 msg 0)).
  { destruct (nth_in_or_default 5 msg 0) as [Hin|Heq]; [|rewrite Heq; unfold byte; lia].
    unfold bytes in Hby. rewrite Forall_forall in Hby. auto. }
  unfold byte in Hb. lia.
Qed.

Lemma idle_stays bs : Forall (fun b => b <> CMD_SOH) bs -> ffeed [] bs = [].
Proof.
  induction 1 as [|b r Hb _ IH]; [reflexivity|]. cbn [ffeed]. unfold next. cbn.
  destruct (Z.eqb_spec b CMD_SOH); [contradiction|]. exact IH.
Qed.

(* after at most one maximum-length frame of non-header bytes the parser is idle *)
Lemma resync : forall bs msg, buf_inv msg -> bytes bs -> Forall (fun b => b <> CMD_SOH) bs ->
  263 <= zlen msg + zlen bs -> ffeed msg bs = [].
Proof.
  induction bs as [|b r IH]; intros msg Hi Hby Hns Hlen.
  - apply buf_inv_short in Hi. rewrite zlen_nil in Hlen. lia.
  - inversion Hby as [|? ? Hb Hr]; subst. inversion Hns as [|? ? Hn Hnr]; subst. cbn [ffeed]. unfold next.
    destruct (frame_step msg b) as [| m | m] eqn:E.
    + apply idle_stays. assumption.
    + destruct (frame_step_more msg b m Hi Hb E) as [-> Hi']. apply IH; auto.
      rewrite zlen_app, zlen_cons in *. rewrite zlen_nil. lia.
    + apply idle_stays. assumption.
Qed.

Lemma ffeed_inv : forall bs msg, buf_inv msg -> bytes bs -> buf_inv (ffeed msg bs).
Proof.
  induction bs as [|b r IH]; intros msg Hi Hby; [assumption|].
  inversion Hby as [|? ? Hb Hr]; subst. cbn [ffeed]. apply IH; [|assumption]. unfold next.
  destruct (frame_step msg b) eqn:E; try apply buf_inv_nil.
  destruct (frame_step_more msg b msg0 Hi Hb E) as [_ H]. exact H.
Qed.

(* ---- completion ---- *)
(* Some m: the last byte of bs completes message m, no earlier byte completes or is rejected *)
Fixpoint frun (msg : list Z) (bs : list Z) : option (list Z) :=
  match bs with
  | [] => None
  | b :: r =>
      match r with
      | [] => match frame_step msg b with FDone m => Some m | _ => None end
      | _ => match frame_step msg b with FMore m' => frun m' r | _ => None end
      end
  end.

Lemma step_long pre x5 rest b :
  let msg := pre ++ x5 :: rest in
  length pre = 5%nat -> 0 <= x5 ->
  let c := nth 3 pre 0 in
  flen c x5 <> 5 -> zlen msg + 1 <= flen c x5 ->
  frame_step msg b = if zlen msg + 1 =? flen c x5 then FDone (msg ++ [b]) else FMore (msg ++ [b]).
Proof.
  intros msg Hp H0 c Hf5 Hle.
  destruct pre as [|x0 [|x1 [|x2 [|x3 [|x4 [|? ?]]]]]]; try discriminate. clear Hp.
  cbn [nth] in c. subst c. unfold msg in *. clear msg. cbn [app] in *.
  unfold frame_step. cbn [app length].
  set (msg := x0 :: x1 :: x2 :: x3 :: x4 :: x5 :: rest) in *.
  set (m' := x0 :: x1 :: x2 :: x3 :: x4 :: x5 :: rest ++ [b]).
  change (nth 3 m' 0) with x3. change (nth 5 m' 0) with x5.
  assert (Hz : zlen m' = zlen msg + 1) by (change m' with (msg ++ [b]); rewrite zlen_app; reflexivity).
  assert (H7 : 7 <= zlen m').
  { rewrite Hz. unfold msg. repeat rewrite zlen_cons. pose proof (zlen_nonneg rest). lia. }
  set (c := x3) in *.
  rewrite Hz. unfold flen in *.
  destruct (mem c CMD_ABBR_NO_PARAMS || negb (mem c ACCEPTED_COMMANDS)); [congruence|].
  destruct (mem c CMD_EXT_NO_PARAMS); cbn [andb].
  - destruct (Z.eqb_spec (zlen msg + 1) 7) as [E|E]; [reflexivity|lia].
  - rewrite andb_false_r. destruct (mem c CMD_ABBR_WITH_PARAMS); cbn [andb].
    + destruct (Z.leb_spec 1 x5); cbn [andb] in Hle.
      * destruct (Z.eqb_spec (zlen msg + 1) (6 + x5)); [reflexivity|].
        destruct (Z.eqb_spec (zlen msg + 1) (8 + x5)); [lia|reflexivity].
      * destruct (Z.eqb_spec (zlen msg + 1) (6 + x5)); [lia|]. reflexivity.
    + destruct (Z.eqb_spec (zlen msg + 1) (6 + x5)).
      * destruct (Z.eqb_spec (zlen msg + 1) (8 + x5)); [lia|reflexivity].
      * reflexivity.
Qed.

Lemma frun_tail pre x5 : length pre = 5%nat -> 0 <= x5 -> flen (nth 3 pre 0) x5 <> 5 ->
  forall bs rest, bs <> [] -> zlen (pre ++ x5 :: rest) + zlen bs = flen (nth 3 pre 0) x5 ->
  frun (pre ++ x5 :: rest) bs = Some (pre ++ x5 :: rest ++ bs).
Proof.
  intros Hp H0 Hf5. induction bs as [|b r IH]; intros rest Hne Hlen; [contradiction|].
  rewrite zlen_cons in Hlen. pose proof (zlen_nonneg r) as Hr.
  assert (Hstep := step_long pre x5 rest b Hp H0 Hf5). cbv zeta in Hstep.
  cbn [frun]. destruct r as [|b2 r2].
  - rewrite zlen_nil in Hlen. rewrite Hstep by lia.
    destruct (Z.eqb_spec (zlen (pre ++ x5 :: rest) + 1) (flen (nth 3 pre 0) x5)); [|lia].
    rewrite <- app_assoc. reflexivity.
  - rewrite zlen_cons in Hlen, Hr. pose proof (zlen_nonneg r2). rewrite Hstep by lia.
    destruct (Z.eqb_spec (zlen (pre ++ x5 :: rest) + 1) (flen (nth 3 pre 0) x5)); [lia|].
    replace ((pre ++ x5 :: rest) ++ [b]) with (pre ++ x5 :: (rest ++ [b])) by (rewrite <- app_assoc; reflexivity).
    rewrite IH; [|discriminate|].
    + rewrite <- app_assoc. reflexivity.
    + replace (pre ++ x5 :: rest ++ [b]) with ((pre ++ x5 :: rest) ++ [b]) by (rewrite <- app_assoc; reflexivity).
      rewrite zlen_app, !zlen_cons, zlen_nil. lia.
Qed.

(* a message of the right length for its command byte and parameter-length byte, starting with SOH,
   is buffered byte by byte and completes exactly on its last byte *)
Lemma frame_complete sa ma c cid rest :
  bytes rest -> zlen rest + 5 = flen c (hd 0 rest) ->
  frun [] (CMD_SOH :: sa :: ma :: c :: cid :: rest) = Some (CMD_SOH :: sa :: ma :: c :: cid :: rest).
Proof.
  intros Hby Hlen. unfold flen in Hlen.
  destruct rest as [|x5 rest].
  - cbn [frun]. cbn. rewrite zlen_nil in Hlen. cbn [hd] in Hlen.
    destruct (mem c CMD_ABBR_NO_PARAMS || negb (mem c ACCEPTED_COMMANDS)) eqn:E; [reflexivity|].
    destruct (mem c CMD_EXT_NO_PARAMS); [lia|]. destruct (_ && _); lia.
  - cbn [hd] in Hlen. inversion Hby as [|? ? Hb5 Hr]; subst. unfold byte in Hb5.
    assert (Hf5 : flen c x5 <> 5).
    { unfold flen. rewrite zlen_cons in Hlen. pose proof (zlen_nonneg rest).
      destruct (mem c CMD_ABBR_NO_PARAMS || negb (mem c ACCEPTED_COMMANDS)); lia. }
    assert (Hc : mem c CMD_ABBR_NO_PARAMS || negb (mem c ACCEPTED_COMMANDS) = false).
    { unfold flen in Hf5. destruct (_ || _); [congruence|reflexivity]. }
    cbn [frun]. cbn [frame_step length app]. change (CMD_SOH =? CMD_SOH) with true. cbn iota.
    cbn [frame_step length app nth]. unfold frame_step at 1. cbn [length app nth]. rewrite Hc.
    destruct rest as [|b r].
    + exfalso. rewrite zlen_cons, zlen_nil in Hlen. rewrite Hc in Hlen.
      destruct (mem c CMD_EXT_NO_PARAMS); [lia|].
      destruct (mem c CMD_ABBR_WITH_PARAMS); destruct (Z.leb_spec 1 x5); cbn [andb] in Hlen; lia.
    + unfold frame_step at 1. cbn [length app].
      pose proof (frun_tail [CMD_SOH; sa; ma; c; cid] x5 eq_refl ltac:(lia) Hf5 (b :: r) [] ltac:(discriminate)) as Ht.
      cbn [app nth] in Ht. apply Ht. fold (flen c x5) in Hlen.
      rewrite !zlen_cons in *. rewrite zlen_nil. lia.
Qed.

Section F.
  Variable clk : nat -> Z.
  Variable mkdate : list Z -> option Z.
  Variable render : Z -> option (list Z).
  Notation handle := (handle clk mkdate render).
  Notation parse := (parse clk mkdate render).
  Notation run := (run clk mkdate render).

  Lemma parse_msg s b : s_msg (fst (parse s b)) = next (s_msg s) b.
  Proof.
    unfold RcvModel.parse, next. destruct (frame_step (s_msg s) b); try reflexivity.
    destruct (handle (s_slaves s) (s_tick s) m) as [[? ?] ?]. reflexivity.
  Qed.

  Lemma run_msg : forall bs s, s_msg (fst (run s bs)) = ffeed (s_msg s) bs.
  Proof.
    induction bs as [|b r IH]; intros s; [reflexivity|]. cbn [RcvModel.run ffeed].
    pose proof (parse_msg s b) as Hp. destruct (parse s b) as [s1 o]. cbn [fst] in Hp.
    specialize (IH s1). destruct (run s1 r) as [s2 os]. cbn [fst] in *. rewrite IH, Hp. reflexivity.
  Qed.

  (* a byte that is not the header is discarded by an idle parser, without any effect *)
  Lemma idle_discards s b : s_msg s = [] -> b <> CMD_SOH -> parse s b = (s, OFalse).
  Proof.
    intros Hm Hb. unfold RcvModel.parse. rewrite Hm. cbn.
    destruct (Z.eqb_spec b CMD_SOH); [contradiction|]. destruct s; cbn in *. subst. reflexivity.
  Qed.

  Definition frame_result (s : sys) (m : list Z) (n : nat) : sys * list outcome :=
    let '(sl, t, o) := handle (s_slaves s) (s_tick s) m in (mkSys sl [] t, repeat OTrue n ++ [o]).

  Lemma run_of_frun : forall bs s m, frun (s_msg s) bs = Some m ->
    run s bs = frame_result s m (length bs - 1).
  Proof.
    induction bs as [|b r IH]; intros s m H; [discriminate|]. cbn [frun] in H. cbn [RcvModel.run].
    unfold RcvModel.parse. destruct r as [|b2 r2].
    - destruct (frame_step (s_msg s) b) as [| |m'] eqn:E; try discriminate. injection H as ->.
      unfold frame_result. destruct (handle (s_slaves s) (s_tick s) m) as [[sl t] o]. reflexivity.
    - destruct (frame_step (s_msg s) b) as [|m'|] eqn:E; try discriminate.
      specialize (IH (mkSys (s_slaves s) m' (s_tick s)) m H). rewrite IH.
      unfold frame_result. cbn [s_slaves s_tick]. destruct (handle (s_slaves s) (s_tick s) m) as [[sl t] o].
      cbn [length]. replace (S (S (length r2)) - 1)%nat with (S (S (length r2) - 1)) by lia. reflexivity.
  Qed.

  (* a well-formed frame fed to an idle parser: every byte but the last is buffered (True), the last
     one delivers the message to _parse *)
  Lemma run_frame s sa ma c cid rest :
    s_msg s = [] -> bytes rest -> zlen rest + 5 = flen c (hd 0 rest) ->
    let m := CMD_SOH :: sa :: ma :: c :: cid :: rest in
    run s m = frame_result s m (length m - 1).
  Proof.
    intros Hm Hby Hlen m. apply run_of_frun. rewrite Hm. apply frame_complete; assumption.
  Qed.
End F.

(* ---- the request constructors ---- *)
Definition abbr_frame (k : cmdk) (sa ma cid : Z) (p fill : list Z) : list Z :=
  [CMD_SOH; sa; ma; abbr_code k; cid] ++
  (if has_params k then zlen p :: p ++ (match p with [] => fill | _ => [] end) else []).
Definition ext_body (k : cmdk) (sa ma cid : Z) (p : list Z) : list Z :=
  [CMD_SOH; sa; ma; ext_code k; cid] ++ (if has_params k then zlen p :: p else []).
Definition ext_frame (k : cmdk) (sa ma cid : Z) (p : list Z) (ck eot : Z) : list Z :=
  ext_body k sa ma cid p ++ [ck; eot].
(* the parameter string the abbreviated form delivers (the two filler bytes when none is declared) *)
Definition abbr_params (k : cmdk) (p fill : list Z) : list Z :=
  if has_params k then match p with [] => fill | _ => p end else [].

Lemma firstn_len_app {A} (l1 l2 : list A) : firstn (length (l1 ++ l2) - length l2) (l1 ++ l2) = l1.
Proof.
  rewrite app_length. replace (length l1 + length l2 - length l2)%nat with (length l1 + 0)%nat by lia.
  rewrite firstn_app_2. cbn. apply app_nil_r.
Qed.

Lemma decode_abbr k sa ma cid p fill :
  decode (abbr_frame k sa ma cid p fill) =
  Some (sa, mkReq ma (abbr_code k) cid false false (abbr_params k p fill)).
Proof.
  destruct (kinds_ok k) as (_ & _ & _ & He & _ & _ & _ & Hw).
  unfold abbr_frame, abbr_params, decode. cbn [app]. rewrite He, Hw. cbn [andb].
  set (tail := if has_params k then _ else []).
  destruct (nth_error _ _) eqn:E.
  - f_equal. f_equal. f_equal. unfold tail. destruct (has_params k); [|reflexivity]. cbn [skipn].
    destruct p; [reflexivity|rewrite app_nil_r; reflexivity].
  - exfalso. apply nth_error_None in E. cbn [length] in E. lia.
Qed.

Lemma decode_ext k sa ma cid p ck eot :
  decode (ext_frame k sa ma cid p ck eot) =
  Some (sa, mkReq ma (ext_code k) cid true (negb (ck =? xor_sum (ext_body k sa ma cid p)))
                  (if has_params k then p else [])).
Proof.
  destruct (kinds_ok k) as (_ & _ & He & _ & _ & _ & Hw & _).
  unfold ext_frame. set (body := ext_body k sa ma cid p).
  assert (Hb : exists rest, body = CMD_SOH :: sa :: ma :: ext_code k :: cid :: rest /\
                            rest = if has_params k then zlen p :: p else []).
  { eexists. split; reflexivity. }
  destruct Hb as (rest & Hb & Hrest). unfold decode. rewrite Hb. cbn [app]. rewrite He, Hw.
  change (CMD_SOH :: sa :: ma :: ext_code k :: cid :: rest ++ [ck; eot])
    with ((CMD_SOH :: sa :: ma :: ext_code k :: cid :: rest) ++ [ck; eot]). rewrite <- Hb.
  replace (length (body ++ [ck; eot]) - 2)%nat with (length (body ++ [ck; eot]) - length [ck; eot])%nat
    by reflexivity.
  rewrite firstn_len_app.
  assert (Hn : nth_error (body ++ [ck; eot]) (length (body ++ [ck; eot]) - length [ck; eot]) = Some ck).
  { rewrite app_length. replace (length body + length [ck; eot] - length [ck; eot])%nat with (length body + 0)%nat by lia.
    rewrite nth_error_app2 by lia. replace (length body + 0 - length body)%nat with 0%nat by lia. reflexivity. }
  rewrite Hn. cbn [andb]. f_equal. f_equal. f_equal.
  rewrite Hb, Hrest. destruct (has_params k); [|reflexivity]. cbn [app skipn].
  replace (length (p ++ [ck; eot]) - 2)%nat with (length (p ++ [ck; eot]) - length [ck; eot])%nat by reflexivity.
  apply firstn_len_app.
Qed.

Lemma abbr_frame_len k sa ma cid p fill rest :
  abbr_frame k sa ma cid p fill = CMD_SOH :: sa :: ma :: abbr_code k :: cid :: rest ->
  zlen p <= 255 -> length fill = 2%nat -> zlen rest + 5 = flen (abbr_code k) (hd 0 rest).
Proof.
  destruct (framing_classes k) as (H1 & H2 & H3 & _). destruct (kinds_ok k) as (_ & _ & _ & _ & _ & Ha & _).
  unfold abbr_frame. cbn [app]. intros H. injection H as <-. intros Hp Hf. unfold flen. rewrite H1, H2, H3, Ha.
  destruct (has_params k); cbn [negb orb andb hd]; [|reflexivity].
  rewrite zlen_cons, zlen_app. destruct p as [|x p].
  - rewrite zlen_nil. cbn. unfold zlen. rewrite Hf. reflexivity.
  - rewrite zlen_nil. rewrite zlen_cons. pose proof (zlen_nonneg p).
    destruct (Z.leb_spec 1 (1 + zlen p)); lia.
Qed.

Lemma ext_frame_len k sa ma cid p ck eot rest :
  ext_frame k sa ma cid p ck eot = CMD_SOH :: sa :: ma :: ext_code k :: cid :: rest ->
  zlen rest + 5 = flen (ext_code k) (hd 0 rest).
Proof.
  destruct (framing_classes k) as (_ & _ & _ & H4 & H5 & H6). destruct (kinds_ok k) as (_ & _ & _ & _ & Ha & _).
  unfold ext_frame, ext_body. cbn [app]. intros H. injection H as <-. unfold flen. rewrite H4, H5, H6, Ha.
  destruct (has_params k); cbn [negb orb andb hd app]; [|reflexivity].
  rewrite !zlen_cons, zlen_app. unfold zlen. cbn [length]. lia.
Qed.

Lemma bytes_tail5 x0 x1 x2 x3 x4 rest : bytes (x0 :: x1 :: x2 :: x3 :: x4 :: rest) -> bytes rest.
Proof. intros H. do 5 (inversion H as [|? ? _ H']; subst; clear H; rename H' into H). exact H. Qed.

Section G.
  Variable clk : nat -> Z.
  Variable mkdate : list Z -> option Z.
  Variable render : Z -> option (list Z).
  Notation handle := (handle clk mkdate render).
  Notation run := (run clk mkdate render).

  Lemma run_abbr_frame s k sa ma cid p fill :
    s_msg s = [] -> bytes (abbr_frame k sa ma cid p fill) -> zlen p <= 255 -> length fill = 2%nat ->
    let m := abbr_frame k sa ma cid p fill in
    run s m = frame_result clk mkdate render s m (length m - 1).
  Proof.
    intros Hm Hby Hp Hf m.
    assert (He : exists rest, m = CMD_SOH :: sa :: ma :: abbr_code k :: cid :: rest) by (eexists; reflexivity).
    destruct He as (rest & He). rewrite He. apply run_frame; [assumption| |].
    - unfold m in He. rewrite He in Hby. eapply bytes_tail5; eauto.
    - eapply abbr_frame_len; eauto.
  Qed.

  Lemma run_ext_frame s k sa ma cid p ck eot :
    s_msg s = [] -> bytes (ext_frame k sa ma cid p ck eot) ->
    let m := ext_frame k sa ma cid p ck eot in
    run s m = frame_result clk mkdate render s m (length m - 1).
  Proof.
    intros Hm Hby m.
    assert (He : exists rest, m = CMD_SOH :: sa :: ma :: ext_code k :: cid :: rest) by (eexists; reflexivity).
    destruct He as (rest & He). rewrite He. apply run_frame; [assumption| |].
    - unfold m in He. rewrite He in Hby. eapply bytes_tail5; eauto.
    - eapply ext_frame_len; eauto.
  Qed.

  (* an extended request whose checksum byte is wrong: every addressed board answers 'checksum error',
     nothing changes *)
  Lemma bad_checksum_frame sl t k sa ma cid p ck eot :
    ck <> xor_sum (ext_body k sa ma cid p) ->
    let q := mkReq ma (ext_code k) cid true true (if has_params k then p else []) in
    handle sl t (ext_frame k sa ma cid p ck eot) =
    (sl, t, reply_of (send_answer sa)
              (flat_map (fun a => frame q a [CMD_ERR_CHKS] true) (present sl (targets_of sa sl)))).
  Proof.
    intros Hck q. pose proof (decode_ext k sa ma cid p ck eot) as Hd.
    destruct (Z.eqb_spec ck (xor_sum (ext_body k sa ma cid p))) as [|_]; [contradiction|]. cbn [negb] in Hd.
    apply (bad_checksum clk mkdate render sl t _ sa q Hd). reflexivity.
  Qed.
End G.
