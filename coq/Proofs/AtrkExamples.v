(* C17 — concrete states and loads: the witnesses of the three known classes in which the
   statement's acceptance rule cannot be honoured, non-vacuity examples, and a spline that
   satisfies the hypothesis [interpolates]. *)
From DS Require Import Base.Prelude Model.AtrkModel Proofs.AtrkSpec Proofs.AtrkLoad Proofs.AtrkAdvance.
From DS Require Import Proofs.AtrkTrack.
From Coq Require Import QArith_base.
#[local] Close Scope Q_scope.
#[local] Open Scope Z_scope.

Definition lim0 : limits := {| az_lo := -90000000; az_hi := 450000000; el_lo := 5000000; el_hi := 90000000 |}.
Definition st0 : pstate := init 180000000 90000000.

Definition good (u : Z) : coord := {| c_bits := u; c_ud := Some u |}.     (* bits irrelevant here *)
Definition nan : coord := {| c_bits := 9221120237041090560; c_ud := None |}.
Definition ent (t a e : Z) : entry := {| e_t := t; e_az := good a; e_el := good e |}.

Definition five : list entry :=
  [ent 0 181000000 80000000; ent 1000 181500000 79000000; ent 2000 182000000 78000000;
   ent 3000 182500000 77000000; ent 4000 183000000 76000000].

Definition hdr (c m : Z) (s : option Z) : header :=
  {| h_cnt := c; h_param := 61; h_interp := 4; h_track := 1; h_mode := m; h_start := s;
     h_room := 1000000000000000 |}.

Definition sv (a e : Z) : sval := {| s_az := a; s_el := e; s_fits := true |}.

Lemma es_five : equally_spaced (etimes five).
Proof. exists 1000. split; [lia|]. repeat constructor. Qed.

(* a new table of 5 points is accepted from the initial state *)
Example accept_five : ans (load st0 (hdr 7 1 (Some 100)) five) = 1.
Proof. reflexivity. Qed.

Example acceptable_five : acceptable st0 (hdr 7 1 (Some 100)) five /\ feasible st0 (hdr 7 1 (Some 100)) five.
Proof.
  split.
  - unfold acceptable. cbn. repeat split; try lia. left. repeat split; try lia. exact es_five.
  - unfold feasible. cbn. split; [congruence|]. split; [repeat constructor; cbn; congruence|].
    split; [lia|]. intros lt Hlt. injection Hlt as <-. lia.
Qed.

(* class 1: start time not a date *)
Lemma refuted_start : inv st0 /\ acceptable st0 (hdr 7 1 None) five /\ ans (load st0 (hdr 7 1 None) five) = 5.
Proof.
  split; [apply inv_init|]. split; [|reflexivity].
  unfold acceptable. cbn. repeat split; try lia. left. repeat split; try lia. exact es_five.
Qed.

(* same class as 1: the track would end after the last representable date *)
Definition hdr_late : header :=
  {| h_cnt := 7; h_param := 61; h_interp := 4; h_track := 1; h_mode := 1; h_start := Some 100;
     h_room := 3999999 |}.

Lemma refuted_end : inv st0 /\ acceptable st0 hdr_late five /\ ans (load st0 hdr_late five) = 5.
Proof.
  split; [apply inv_init|]. split; [|reflexivity].
  unfold acceptable. cbn. repeat split; try lia. left. repeat split; try lia. exact es_five.
Qed.

(* class 2: a NaN coordinate *)
Definition five_nan : list entry :=
  [ent 0 181000000 80000000; ent 1000 181500000 79000000; ent 2000 182000000 78000000;
   ent 3000 182500000 77000000; {| e_t := 4000; e_az := nan; e_el := good 76000000 |}].

Lemma refuted_coord : inv st0 /\ acceptable st0 (hdr 7 1 (Some 100)) five_nan /\
  ans (load st0 (hdr 7 1 (Some 100)) five_nan) = 5.
Proof.
  split; [apply inv_init|]. split; [|reflexivity].
  unfold acceptable. cbn. repeat split; try lia. left. repeat split; try lia. exact es_five.
Qed.

(* class 3: a running track consumed down to its last point, one more point appended *)
Definition hist1 : list event :=
  [ELoad (hdr 7 1 (Some 100)) five; ETick (sv 181000000 80000000) (sv 183000000 76000000) (zq 4000)].

Definition st_last : pstate :=
  match run lim0 st0 hist1 with Some s => s | None => st0 end.

Lemma st_last_run : run lim0 st0 hist1 = Some st_last.
Proof. reflexivity. Qed.

Lemma st_last_inv : inv st_last.
Proof. eapply reachable_inv. exact st_last_run. Qed.

Example st_last_shape : pt_state st_last = 3 /\ times (tbl st_last) = [4000] /\ pt_len st_last = 1 /\
  az_bahn st_last = 183000000.
Proof. repeat split. Qed.

Lemma refuted_short : inv st_last /\ acceptable st_last (hdr 8 2 (Some 100)) [ent 5000 183500000 75000000] /\
  ans (load st_last (hdr 8 2 (Some 100)) [ent 5000 183500000 75000000]) = 5.
Proof.
  split; [apply st_last_inv|]. split; [|reflexivity].
  unfold acceptable. cbn. repeat split; try lia. right. repeat split.
  - discriminate.
  - exists 100. split; reflexivity.
  - exists 1000. split; [lia|]. repeat constructor.
Qed.

Theorem accept_iff_refuted : exists st h es,
  inv st /\ h_param h = 61 /\ acceptable st h es /\ ans (load st h es) = 5.
Proof.
  exists st0, (hdr 7 1 None), five. destruct refuted_start as [H1 [H2 H3]].
  split; [exact H1|]. split; [reflexivity|]. split; [exact H2|exact H3].
Qed.

(* a whole track: enabled, waiting, running through a loaded point, completed on the last
   coordinates *)
Definition tr1 : pstate := load st0 (hdr 7 1 (Some 100)) five.
Definition tr2 : option pstate := advance lim0 (sv 181000000 80000000) (sv 0 0) tr1 (Qmake (-1) 1024).
Definition tr3 : option pstate :=
  match tr2 with Some s => advance lim0 (sv 0 0) (sv 182000000 78000000) s (zq 2000) | None => None end.
Definition tr4 : option pstate :=
  match tr3 with Some s => advance lim0 (sv 0 0) (sv 0 0) s (Qmake 8000001 2) | None => None end.

Example whole_track :
  pt_state tr1 = 2 /\
  option_map pt_state tr2 = Some 2 /\
  option_map pt_state tr3 = Some 3 /\
  option_map (fun s => times (tbl s)) tr3 = Some [2000; 3000; 4000] /\
  option_map az_bahn tr3 = Some 182000000 /\
  option_map pt_state tr4 = Some 4 /\
  option_map tbl tr4 = Some [] /\
  option_map (fun s => (az_bahn s, el_bahn s)) tr4 = Some (183000000, 76000000).
Proof. vm_compute. repeat split. Qed.

(* ------------------------------------------------------------------ the hypothesis is satisfiable *)

(* a "spline" that answers the loaded point whose time is asked for *)
Definition at_time (x : Q) (p : point) : bool := p_t p * Zpos (Qden x) =? Qnum x.
Definition spl_lookup (tb : list point) (x : Q) : sval :=
  match find (at_time x) tb with
  | Some p => {| s_az := p_az p; s_el := p_el p; s_fits := true |}
  | None => {| s_az := 0; s_el := 0; s_fits := true |}
  end.

Lemma find_at_time tb : forall p, equally_spaced (times tb) -> In p tb ->
  find (at_time (zq (p_t p))) tb = Some p.
Proof.
  induction tb as [|q r IH]; intros p Hsp Hin; [contradiction|].
  cbn [find]. unfold at_time at 1, zq. cbn [Qden Qnum]. rewrite Z.mul_1_r.
  destruct Hin as [->|Hin].
  - rewrite Z.eqb_refl. reflexivity.
  - destruct Hsp as [d [Hd Hap]]. cbn [times map] in Hap.
    pose proof (ap_strict _ _ _ Hd Hap) as HS. rewrite Forall_forall in HS.
    specialize (HS (p_t p) (in_map p_t _ _ Hin)).
    replace (p_t q =? p_t p) with false by lia.
    apply IH; [|exact Hin]. exists d. split; [exact Hd|]. eapply ap_tail; eauto.
Qed.

Example interpolates_satisfiable : interpolates spl_lookup.
Proof.
  intros tb p _ Hsp Hin. unfold spl_lookup. rewrite (find_at_time _ _ Hsp Hin). cbn.
  rewrite !Z.sub_diag. cbn. lia.
Qed.
