(* C16 (tag Alay) — the obligations on the *generated* layout (Gen/AlayLayout.v, rewritten from the
   source on every run): it equals the committed Golden copy, it is well formed, it tiles the
   blocks, the initial blocks of a real System are good, the frame constants add up. *)
From Coq Require Import String.
From DS Require Import Base.Prelude Base.Bits Model.Utils Proofs.UtilsProofs.
From DS Require Import Model.AlayModel Model.AlayWf Model.AlayGolden Gen.AlayLayout.
From DS Require Import Proofs.AlayLists Proofs.AlayProofs Proofs.AlayFrame.

(* ---------- Gen = Golden: any change of an offset, width, kind, domain, size, flag, limit or of the
   block order re-opens these ---------- *)
Lemma gen_golden_gs : AlayLayout.gs_table = AlayGolden.gs_table /\ AlayLayout.gs_size = AlayGolden.gs_size.
Proof. split; vm_compute; reflexivity. Qed.
Lemma gen_golden_axis : AlayLayout.axis_table = AlayGolden.axis_table /\ AlayLayout.axis_size = AlayGolden.axis_size.
Proof. split; vm_compute; reflexivity. Qed.
Lemma gen_golden_motor : AlayLayout.motor_table = AlayGolden.motor_table /\ AlayLayout.motor_size = AlayGolden.motor_size.
Proof. split; vm_compute; reflexivity. Qed.
Lemma gen_golden_ps : AlayLayout.ps_table = AlayGolden.ps_table /\ AlayLayout.ps_size = AlayGolden.ps_size.
Proof. split; vm_compute; reflexivity. Qed.
Lemma gen_golden_fs : AlayLayout.fs_table = AlayGolden.fs_table /\ AlayLayout.fs_size = AlayGolden.fs_size.
Proof. split; vm_compute; reflexivity. Qed.
Lemma gen_golden_frame :
  AlayLayout.frame_size = AlayGolden.frame_size /\ AlayLayout.start_flag = AlayGolden.start_flag /\
  AlayLayout.end_flag = AlayGolden.end_flag /\ AlayLayout.length_field = AlayGolden.length_field /\
  AlayLayout.block_order = AlayGolden.block_order /\ AlayLayout.clock_read = AlayGolden.clock_read /\
  AlayLayout.mode_codes = AlayGolden.mode_codes.
Proof. repeat split; vm_compute; reflexivity. Qed.
Lemma gen_golden_env :
  AlayLayout.env_AZ = AlayGolden.env_AZ /\ AlayLayout.env_EL = AlayGolden.env_EL /\
  AlayLayout.env_CW = AlayGolden.env_CW /\ AlayLayout.env_default = AlayGolden.env_default.
Proof. repeat split; vm_compute; reflexivity. Qed.

(* ---------- well-formedness of the generated tables ---------- *)
Lemma gs_ok : layout_ok AlayLayout.gs_size AlayLayout.gs_table = true. Proof. vm_compute. reflexivity. Qed.
Lemma axis_ok : layout_ok AlayLayout.axis_size AlayLayout.axis_table = true. Proof. vm_compute. reflexivity. Qed.
Lemma motor_ok : layout_ok AlayLayout.motor_size AlayLayout.motor_table = true. Proof. vm_compute. reflexivity. Qed.
Lemma ps_ok : layout_ok AlayLayout.ps_size AlayLayout.ps_table = true. Proof. vm_compute. reflexivity. Qed.
Lemma fs_ok : layout_ok AlayLayout.fs_size AlayLayout.fs_table = true. Proof. vm_compute. reflexivity. Qed.

Lemma all_tile :
  tiles AlayLayout.gs_size AlayLayout.gs_table && tiles AlayLayout.axis_size AlayLayout.axis_table &&
  tiles AlayLayout.motor_size AlayLayout.motor_table && tiles AlayLayout.ps_size AlayLayout.ps_table &&
  tiles AlayLayout.fs_size AlayLayout.fs_table = true.
Proof. vm_compute. reflexivity. Qed.

(* ---------- the 18 blocks of a System, in frame order ---------- *)
Record desc := { d_table : list field; d_size : nat; d_env : axis_env }.

Definition motors (e : axis_env) : list desc :=
  repeat {| d_table := AlayLayout.motor_table; d_size := AlayLayout.motor_size; d_env := AlayLayout.env_default |}
         (n_motors e).

Definition desc_of (id : block_id) : list desc :=
  match id with
  | BGS => [{| d_table := AlayLayout.gs_table; d_size := AlayLayout.gs_size; d_env := AlayLayout.env_default |}]
  | BAZ => [{| d_table := AlayLayout.axis_table; d_size := AlayLayout.axis_size; d_env := AlayLayout.env_AZ |}]
  | BEL => [{| d_table := AlayLayout.axis_table; d_size := AlayLayout.axis_size; d_env := AlayLayout.env_EL |}]
  | BCW => [{| d_table := AlayLayout.axis_table; d_size := AlayLayout.axis_size; d_env := AlayLayout.env_CW |}]
  | BMotors BAZ => motors AlayLayout.env_AZ
  | BMotors BEL => motors AlayLayout.env_EL
  | BMotors BCW => motors AlayLayout.env_CW
  | BMotors _ => []
  | BPS => [{| d_table := AlayLayout.ps_table; d_size := AlayLayout.ps_size; d_env := AlayLayout.env_default |}]
  | BFS => [{| d_table := AlayLayout.fs_table; d_size := AlayLayout.fs_size; d_env := AlayLayout.env_default |}]
  end.

Definition sys_desc : list desc := flat_map desc_of AlayLayout.block_order.
Definition block_sizes : list nat := map d_size sys_desc.

Definition desc_wf (d : desc) : bool := layout_ok (d_size d) (d_table d).
Definition good_b (d : desc) (b : block) : bool :=
  (length b =? d_size d)%nat && bytesb b && enum_ok (d_table d) b.

Fixpoint forallb2 {A B} (p : A -> B -> bool) (l1 : list A) (l2 : list B) : bool :=
  match l1, l2 with
  | [], [] => true
  | x :: t1, y :: t2 => p x y && forallb2 p t1 t2
  | _, _ => false
  end.

Lemma sys_desc_wf : forallb desc_wf sys_desc = true.
Proof. vm_compute. reflexivity. Qed.

(* the initial blocks of a real System (evaluated by the translator under a frozen clock) are good *)
Lemma init_blocks_good : forallb2 good_b sys_desc AlayLayout.init_blocks = true.
Proof. vm_compute. reflexivity. Qed.

Lemma forallb2_nth {A B} (p : A -> B -> bool) l1 l2 : forallb2 p l1 l2 = true ->
  forall k x y, nth_error l1 k = Some x -> nth_error l2 k = Some y -> p x y = true.
Proof.
  revert l2; induction l1 as [|a t IH]; intros [|c u] H [|k] x y Hx Hy; cbn in *; try discriminate.
  - injection Hx as <-. injection Hy as <-. now apply andb_true_iff in H as [H _].
  - apply andb_true_iff in H as [_ H]. eapply IH; eauto.
Qed.

(* every block reachable from the initial state of a System by any history of assignments has its
   declared size, consists of bytes and holds a documented code in every enumerated field *)
Theorem system_blocks_good k d b0 ops :
  nth_error sys_desc k = Some d -> nth_error AlayLayout.init_blocks k = Some b0 ->
  good (d_size d) (d_table d) (run_sets (d_table d) (d_env d) ops b0).
Proof.
  intros Hd Hb.
  pose proof (forallb2_nth _ _ _ init_blocks_good k d b0 Hd Hb) as Hg.
  assert (Hwf : desc_wf d = true).
  { pose proof sys_desc_wf as H. rewrite forallb_forall in H. apply H. eapply nth_error_In. exact Hd. }
  unfold good_b in Hg. apply andb_true_iff in Hg as [Hg He]. apply andb_true_iff in Hg as [Hl Hbb].
  apply good_reachable; [exact Hwf|].
  repeat split; [now apply Nat.eqb_eq|now apply bytesb_spec|exact He].
Qed.

(* ---------- frame constants ---------- *)
Definition frame0 : option block :=
  frame_init AlayLayout.frame_size AlayLayout.start_flag AlayLayout.end_flag AlayLayout.length_field.

Lemma frame_constants :
  AlayLayout.frame_size = 813%nat /\ AlayLayout.length_field = 813 /\
  offsets 12 block_sizes = [12; 37; 129; 221; 313; 340; 367; 394; 421; 448; 475; 502; 529; 556; 583; 610; 637;
                            664; 793]%nat /\
  (12 + fold_right Nat.add 0 block_sizes + 4 = 813)%nat /\ length sys_desc = 19%nat.
Proof. repeat split; vm_compute; reflexivity. Qed.

(* where _update_loop reads the clock from the frame is the actTime field of the pointing block *)
Lemma clock_read_is_actTime :
  match find_field AlayLayout.ps_table "actTime"%string with
  | Some f => AlayLayout.clock_read = (664 + foff f, 664 + foff f + flen f)%nat /\ fkind f = KReal64
  | None => False
  end.
Proof. vm_compute. split; reflexivity. Qed.

Lemma frame0_shape : exists f0, frame0 = Some f0 /\ length f0 = 813%nat /\
  slice 0 4 f0 = AlayLayout.start_flag /\ bytes_to_uint (slice 4 4 f0) true = Some 813 /\
  slice 809 4 f0 = AlayLayout.end_flag /\ AlayLayout.start_flag = [26; 207; 252; 29] /\
  AlayLayout.end_flag = [209; 207; 252; 161].
Proof. eexists. split; [vm_compute; reflexivity|]. repeat split; vm_compute; reflexivity. Qed.

Lemma sizes_sum_firstn (blocks : list block) sizes k : map (@length Z) blocks = sizes ->
  length (concat (firstn k blocks)) = fold_right Nat.add 0%nat (firstn k sizes).
Proof.
  intros <-. rewrite length_concat. rewrite firstn_map. reflexivity.
Qed.

(* every frame published from blocks of the declared sizes: 813 bytes, start flag, length 813, the
   millisecond counter, every block byte-identical at its fixed offset, end flag *)
Theorem frame_published f0 ms blocks : frame0 = Some f0 -> 0 <= ms < 2 ^ 32 ->
  map (@length Z) blocks = block_sizes ->
  exists fr, frame_update f0 ms blocks = Some fr /\
    length fr = 813%nat /\
    slice 0 4 fr = AlayLayout.start_flag /\
    bytes_to_uint (slice 4 4 fr) true = Some 813 /\
    bytes_to_uint (slice 8 4 fr) true = Some ms /\
    slice 809 4 fr = AlayLayout.end_flag /\
    (forall k o blk, nth_error (offsets 12 block_sizes) k = Some o -> nth_error blocks k = Some blk ->
       slice o (length blk) fr = blk).
Proof.
  intros H0 Hms Hsz.
  destruct frame0_shape as (f0' & E0 & Hl0 & Hs & Hlen & He & _). rewrite H0 in E0. injection E0 as <-.
  destruct frame_constants as (_ & _ & _ & Hsum & _).
  assert (Hpl : (length (concat blocks) + 16 = length f0)%nat).
  { rewrite length_concat, Hsz, Hl0. lia. }
  destruct (frame_update_defined f0 ms blocks Hms Hpl) as [fr Hfr].
  exists fr. split; [exact Hfr|].
  pose proof (frame_update_length _ _ _ _ Hfr) as L.
  pose proof (frame_header_kept _ _ _ _ Hfr) as Hh.
  pose proof (frame_trailer_kept _ _ _ _ Hfr) as Ht. rewrite Hl0 in Ht. change (813 - 4)%nat with 809%nat in Ht.
  repeat split.
  - congruence.
  - change (slice 0 4 fr) with (slice (0 + 0) 4 fr).
    rewrite <- (slice_slice 0 8 0 4 fr) by lia. rewrite Hh. rewrite slice_slice by lia. exact Hs.
  - change (slice 4 4 fr) with (slice (0 + 4) 4 fr).
    rewrite <- (slice_slice 0 8 4 4 fr) by lia. rewrite Hh. rewrite slice_slice by lia. exact Hlen.
  - eapply frame_ms. exact Hfr.
  - rewrite Ht. exact He.
  - intros k o blk Ho Hb.
    assert (Hk : (k < length block_sizes)%nat).
    { rewrite <- Hsz, map_length. apply nth_error_Some. congruence. }
    rewrite offsets_nth in Ho by exact Hk. injection Ho as <-.
    rewrite <- (sizes_sum_firstn blocks block_sizes k Hsz).
    eapply frame_block_identical; eauto.
Qed.

(* known finding (known/C16.txt, class version_negative_component): a negative version component is
   accepted and read back as another number *)
Lemma version_negative_refuted : exists f b b',
  find_field AlayLayout.gs_table "version"%string = Some f /\
  length b = AlayLayout.gs_size /\ bytes b /\
  set AlayLayout.env_default f (VPair 1 (-1)) b = Some b' /\
  get f b' = Some (VPair 1 255).
Proof.
  eexists. exists (repeat 0 25). eexists.
  split; [vm_compute; reflexivity|]. split; [reflexivity|]. split; [apply bytesb_spec; reflexivity|].
  split; vm_compute; reflexivity.
Qed.

(* the pinned (unfixed) general-status accessors: the view is most-significant-bit first inside each
   byte while the write-back assumes bit order; such a field is rejected by [field_ok], and for good
   reason: on the all-zero block the bit just set is not read back, and a second assignment moves it *)
Definition pinned_EStop : field := {| fname := "EStop_Device"; foff := 9; flen := 1; fkind := KBit 9 4 0 MsbPerByte |}.
Definition pinned_ES_SP : field := {| fname := "ES_SP"; foff := 9; flen := 1; fkind := KBit 9 4 1 MsbPerByte |}.

Lemma pinned_interlock_refuted :
  field_ok 25 pinned_EStop = false /\
  exists b1 b2,
    set AlayLayout.env_default pinned_EStop (VBool true) (repeat 0 25) = Some b1 /\
    get pinned_EStop b1 = Some (VBool false) /\
    set AlayLayout.env_default pinned_ES_SP (VBool true) b1 = Some b2 /\
    get pinned_EStop b2 = Some (VBool true) /\ get pinned_ES_SP b2 = Some (VBool false).
Proof. split; [reflexivity|]. eexists. eexists. repeat split; vm_compute; reflexivity. Qed.

(* ---------- command records ---------- *)
(* whatever mode id a mode command carries, the recorded "received mode command" is a documented code *)
Lemma received_mode_documented m : In (received_mode AlayLayout.mode_codes m) AlayLayout.mode_codes.
Proof.
  unfold received_mode. destruct (existsb (Z.eqb m) AlayLayout.mode_codes) eqn:E.
  - apply existsb_exists in E as (x & Hx & Ex). apply Z.eqb_eq in Ex. now subst x.
  - vm_compute. auto.
Qed.

Lemma received_mode_known m : In m AlayLayout.mode_codes -> received_mode AlayLayout.mode_codes m = m.
Proof.
  intros H. unfold received_mode.
  replace (existsb (Z.eqb m) AlayLayout.mode_codes) with true; [reflexivity|].
  symmetry. apply existsb_exists. exists m. split; [exact H|apply Z.eqb_refl].
Qed.

(* ---------- an assignment on one subsystem leaves every other block of the System alone ---------- *)
Lemma nth_error_upd_other' {A} k j (x : A) l : k <> j -> nth_error (upd k x l) j = nth_error l j.
Proof. apply nth_error_upd_other. Qed.

Lemma sys_set_other descs k op st j : j <> k -> nth_error (sys_set descs k op st) j = nth_error st j.
Proof.
  intros H. unfold sys_set. destruct (nth_error descs k) as [[t e]|]; [|reflexivity].
  destruct (nth_error st k); [|reflexivity]. apply nth_error_upd_other. congruence.
Qed.

Lemma sys_set_length descs k op st : length (sys_set descs k op st) = length st.
Proof.
  unfold sys_set. destruct (nth_error descs k) as [[t e]|]; [|reflexivity].
  destruct (nth_error st k); [|reflexivity]. apply upd_length.
Qed.

(* a history that never addresses block j leaves block j as it was *)
Lemma sys_run_untouched descs ops : forall st j, (forall o, In o ops -> fst o <> j) ->
  nth_error (sys_run descs ops st) j = nth_error st j.
Proof.
  unfold sys_run. induction ops as [|o ops IH]; intros st j H; [reflexivity|].
  cbn [fold_left]. rewrite IH by (intros o' Ho'; apply H; right; exact Ho').
  apply sys_set_other. intros E. apply (H o); [left; reflexivity|auto].
Qed.
