(* Proofs about Model/BckModel.v: tables pinned to Golden, reply well-formedness, ledger invariant,
   acquisition state machine, MISTRAL guards, framing, read-back, queries.  (C19 and backend parts.) *)
From DS Require Import Base.Prelude Model.BckModel Model.BckGolden Spec.BckGrammarSpec Proofs.BckGrammar.
From DS Require Gen.BckTables.
From Coq Require Import String Ascii DecimalString Permutation.

Arguments zs : simpl never.

(* ------------------------------------------------------------------------------------------ *)
(* (A) generated tables = Golden; the model's own tables = generated tables *)

Lemma tables_pinned :
  BckTables.type_re = BckGolden.type_re /\ BckTables.name_re = BckGolden.name_re /\
  BckTables.code_re = BckGolden.code_re /\ BckTables.arguments_re = BckGolden.arguments_re /\
  BckTables.linefeed_re = BckGolden.linefeed_re /\ BckTables.request_re = BckGolden.request_re /\
  BckTables.reply_re = BckGolden.reply_re /\
  BckTables.k_REQUEST = BckGolden.k_REQUEST /\ BckTables.k_REPLY = BckGolden.k_REPLY /\
  BckTables.k_TAIL = BckGolden.k_TAIL /\ BckTables.k_SEPARATOR = BckGolden.k_SEPARATOR /\
  BckTables.k_OK = BckGolden.k_OK /\ BckTables.k_FAIL = BckGolden.k_FAIL /\
  BckTables.k_INVALID = BckGolden.k_INVALID /\
  BckTables.commands_generic = BckGolden.commands_generic /\
  BckTables.commands_sardara = BckGolden.commands_sardara /\
  BckTables.commands_mistral = BckGolden.commands_mistral /\
  BckTables.protocol_version = BckGolden.protocol_version /\
  BckTables.setup_time = BckGolden.setup_time /\ BckTables.sweep_time = BckGolden.sweep_time /\
  BckTables.acs_to_unix_time = BckGolden.acs_to_unix_time /\
  BckTables.valid_conf_generic = BckGolden.valid_conf_generic /\
  BckTables.valid_conf_sardara = BckGolden.valid_conf_sardara /\
  BckTables.valid_conf_mistral = BckGolden.valid_conf_mistral /\
  (BckTables.max_sections_generic, BckTables.max_sections_sardara, BckTables.max_sections_mistral)
    = (BckGolden.max_sections_generic, BckGolden.max_sections_sardara, BckGolden.max_sections_mistral) /\
  (BckTables.max_bandwidth_generic, BckTables.max_bandwidth_sardara, BckTables.max_bandwidth_mistral)
    = (BckGolden.max_bandwidth_generic, BckGolden.max_bandwidth_sardara, BckGolden.max_bandwidth_mistral) /\
  (BckTables.initial_configuration_generic, BckTables.initial_configuration_sardara,
   BckTables.initial_configuration_mistral, BckTables.initial_filename_generic,
   BckTables.initial_filename_sardara, BckTables.initial_filename_mistral)
    = (BckGolden.initial_configuration_generic, BckGolden.initial_configuration_sardara,
       BckGolden.initial_configuration_mistral, BckGolden.initial_filename_generic,
       BckGolden.initial_filename_sardara, BckGolden.initial_filename_mistral) /\
  (BckTables.initial_integration_generic, BckTables.initial_integration_sardara,
   BckTables.initial_integration_mistral)
    = (BckGolden.initial_integration_generic, BckGolden.initial_integration_sardara,
       BckGolden.initial_integration_mistral) /\
  (BckTables.status_string_generic, BckTables.status_string_sardara, BckTables.status_string_mistral)
    = (BckGolden.status_string_generic, BckGolden.status_string_sardara, BckGolden.status_string_mistral) /\
  BckTables.servers = BckGolden.servers /\
  BckTables.timer_creation_sites = BckGolden.timer_creation_sites /\
  BckTables.timer_cancel_sites = BckGolden.timer_cancel_sites /\
  BckTables.timer_join_sites = BckGolden.timer_join_sites.
Proof. repeat split; vm_compute; reflexivity. Qed.

Definition named (t : list (list Z * cmd)) : list (list Z * list Z) :=
  map (fun p => (fst p, handler_name (snd p))) t.

(* the dispatch tables, constants and literals the model is written with are those of the source *)
Lemma model_tables :
  named BckModel.commands_generic = BckTables.commands_generic /\
  named BckModel.commands_generic = BckTables.commands_sardara /\
  named BckModel.commands_mistral = BckTables.commands_mistral /\
  BckModel.protocol_version = BckTables.protocol_version /\
  BckModel.setup_time_s = BckTables.setup_time /\ BckModel.sweep_time_s = BckTables.sweep_time /\
  BckModel.max_sections = BckTables.max_sections_generic /\
  BckModel.max_bandwidth = BckTables.max_bandwidth_generic /\
  BckModel.unconfigured = BckTables.initial_configuration_generic /\
  [33] = BckTables.k_REPLY /\ [63] = BckTables.k_REQUEST /\ [13; 10] = BckTables.k_TAIL /\
  [44] = BckTables.k_SEPARATOR /\
  c_ok = BckTables.k_OK /\ c_fail = BckTables.k_FAIL /\ c_invalid = BckTables.k_INVALID /\
  codes = [BckTables.k_OK; BckTables.k_FAIL; BckTables.k_INVALID].
Proof. repeat split; vm_compute; reflexivity. Qed.

(* ------------------------------------------------------------------------------------------ *)
(* (B) every reply is a line of the reply grammar *)

Ltac lit := apply cleanb_spec; reflexivity.

Lemma zs_cons a s : zs (String a s) = Z.of_N (N_of_ascii a) :: zs s.
Proof. reflexivity. Qed.

Lemma uint_clean u : clean (zs (NilEmpty.string_of_uint u)).
Proof.
  induction u; cbn [NilEmpty.string_of_uint]; try (rewrite zs_cons; apply clean_cons; [reflexivity|assumption]).
  constructor.
Qed.

Lemma dec_clean z : clean (dec z).
Proof.
  unfold dec, NilZero.string_of_int, NilZero.string_of_uint.
  destruct (Z.to_int z) as [u|u]; destruct u; try lit;
    repeat (rewrite zs_cons; apply clean_cons; [reflexivity|]); apply uint_clean.
Qed.

Definition oracle_clean (o : oracle) : Prop :=
  (forall t, clean (o_time o t)) /\ clean (o_tpi1 o) /\ clean (o_tpi2 o).

(* the registers echoed in replies never contain CR / LF *)
Definition RInv (s : st) : Prop := clean (conf s) /\ clean (fname s).

Lemma quote_clean pre a : clean pre -> clean a -> clean (quote pre a).
Proof. intros. unfold quote. repeat apply clean_app; auto; lit. Qed.

Lemma merr_msg_clean s : clean (merr_msg (merror s)).
Proof.
  unfold merror, running_task.
  destruct (failure s); [lit|].
  destruct (rvna s); [lit|]. destruct (rtarget s); [lit|]. destruct (rsetup s); [lit|].
  destruct (acq s); [lit|]. destruct (ready s); lit.
Qed.

Lemma mistral_status_msg_clean s : clean (mistral_status_msg s).
Proof.
  unfold mistral_status_msg. pose proof (merr_msg_clean s) as H.
  destruct (merr_msg (merror s)); [lit|assumption].
Qed.

Ltac break_in H :=
  repeat match type of H with
         | context [match ?x with _ => _ end] => destruct x eqn:?
         end.

Ltac fin_clean :=
  repeat match goal with
         | |- Forall _ [] => constructor
         | |- Forall _ (_ :: _) => constructor
         | |- clean (zs _) => lit
         | |- clean (quote _ _) => apply quote_clean
         | |- clean (dec _) => apply dec_clean
         | |- clean (bit _) => unfold bit
         | |- clean (if ?b then _ else _) => destruct b
         | |- clean (merr_msg (merror _)) => apply merr_msg_clean
         | |- clean (mistral_status_msg _) => apply mistral_status_msg_clean
         | |- clean [] => constructor
         | H : Forall clean (?a :: _) |- clean ?a => inversion H; assumption
         | _ => assumption
         | |- clean _ => solve [lit]
         end.

Lemma start_at_clean s t s' ra : start_at s t = HOk s' ra -> ra = [] /\ conf s' = conf s /\ fname s' = fname s.
Proof.
  unfold start_at, new_timer. destruct (t <? now s); [discriminate|].
  intros H. injection H as <- <-. destruct (startID s); auto.
Qed.
Lemma stop_at_clean s t s' ra : stop_at s t = HOk s' ra -> ra = [] /\ conf s' = conf s /\ fname s' = fname s.
Proof.
  unfold stop_at, new_timer. destruct (t <? now s); [discriminate|].
  intros H. injection H as <- <-. destruct (stopID s); auto.
Qed.
Lemma start_at_fail s t m : start_at s t = HFail m -> clean m.
Proof. unfold start_at, new_timer. destruct (t <? now s); intros H; [injection H as <-; lit|discriminate]. Qed.
Lemma stop_at_fail s t m : stop_at s t = HFail m -> clean m.
Proof. unfold stop_at, new_timer. destruct (t <? now s); intros H; [injection H as <-; lit|discriminate]. Qed.

Lemma do_start_generic_ok o s args s' ra :
  do_start_generic o s args = HOk s' ra -> ra = [] /\ conf s' = conf s /\ fname s' = fname s.
Proof.
  unfold do_start_generic, start_now. destruct args as [|a r].
  - destruct (acq s); [discriminate|]. intros H. injection H as <- <-. auto.
  - destruct (o_ts o a); try discriminate. apply start_at_clean.
Qed.
Lemma do_start_generic_fail o s args m :
  Forall clean args -> do_start_generic o s args = HFail m -> clean m.
Proof.
  unfold do_start_generic, start_now. intros Ha. destruct args as [|a r].
  - destruct (acq s); [|discriminate]. intros H. injection H as <-. lit.
  - inversion Ha; subst.
    destruct (o_ts o a); try (intros H; injection H as <-; apply quote_clean; [lit|assumption]).
    apply start_at_fail.
Qed.
Lemma do_stop_ok o s args s' ra :
  do_stop o s args = HOk s' ra -> ra = [] /\ conf s' = conf s /\ fname s' = fname s.
Proof.
  unfold do_stop, stop_now. destruct args as [|a r].
  - destruct (acq s); [|discriminate]. intros H. injection H as <- <-. auto.
  - destruct (o_ts o a); try discriminate. apply stop_at_clean.
Qed.
Lemma do_stop_fail o s args m : Forall clean args -> do_stop o s args = HFail m -> clean m.
Proof.
  unfold do_stop, stop_now. intros Ha. destruct args as [|a r].
  - destruct (acq s); [discriminate|]. intros H. injection H as <-. lit.
  - inversion Ha; subst.
    destruct (o_ts o a); try (intros H; injection H as <-; apply quote_clean; [lit|assumption]).
    apply stop_at_fail.
Qed.

Lemma do_set_section_res o s args :
  (do_set_section o s args = HOk s []) \/ exists m, do_set_section o s args = HFail m /\ clean m.
Proof.
  unfold do_set_section.
  repeat match goal with
         | |- context [match ?x with _ => _ end] => destruct x
         end; auto; right; eexists; split; try reflexivity; lit.
Qed.
Lemma do_set_enable_res o s args :
  (do_set_enable o s args = HOk s []) \/ exists m, do_set_enable o s args = HFail m /\ clean m.
Proof.
  unfold do_set_enable.
  repeat match goal with
         | |- context [match ?x with _ => _ end] => destruct x
         end; auto; right; eexists; split; try reflexivity; lit.
Qed.

Lemma task_guard_ok s k s' ra : task_guard s k = HOk s' ra -> k = HOk s' ra.
Proof. unfold task_guard. destruct (merror s); try discriminate. auto. Qed.
Lemma task_guard_fail s k m : task_guard s k = HFail m -> k = HFail m \/ clean m.
Proof.
  unfold task_guard. pose proof (merr_msg_clean s) as Hc.
  destruct (merror s); auto; intros H; injection H as <-; right; assumption.
Qed.

Lemma handler_ok_clean o v c s args s' ra :
  oracle_clean o -> RInv s -> Forall clean args -> handler o v c s args = HOk s' ra ->
  Forall clean ra /\ RInv s'.
Proof.
  intros (Ht & Hp1 & Hp2) [Hc Hf] Ha H. unfold RInv.
  destruct c; cbn [handler] in H.
  - (* status *) injection H as <- <-. split; [|auto]. destruct v; fin_clean; apply Ht.
  - injection H as <- <-. split; [|auto]. fin_clean.
  - injection H as <- <-. split; [|auto]. fin_clean.
  - (* set-configuration *)
    destruct args as [|a r]; [discriminate|]. destruct (valid_conf v a); [|discriminate].
    injection H as <- <-. cbn. inversion Ha; subst. split; [constructor|auto].
  - (* set-integration *)
    destruct args as [|a r]; [discriminate|]. destruct (o_int o a) as [z|]; [|discriminate].
    destruct (z <? 0); [discriminate|]. injection H as <- <-. cbn. split; [constructor|auto].
  - injection H as <- <-. split; [|auto]. fin_clean.
  - destruct (do_set_section_res o s args) as [E | (m & E & _)]; rewrite E in H; [|discriminate].
    injection H as <- <-. split; [constructor|auto].
  - injection H as <- <-. split; [|auto]. fin_clean.
  - injection H as <- <-. split; [|auto]. fin_clean.
  - (* cal-on *)
    destruct args as [|a r].
    + injection H as <- <-. cbn. split; [constructor|auto].
    + destruct (o_int o a) as [z|]; [|discriminate]. destruct (z <? 0); [discriminate|].
      injection H as <- <-. cbn. split; [constructor|auto].
  - destruct (do_set_enable_res o s args) as [E | (m & E & _)]; rewrite E in H; [|discriminate].
    injection H as <- <-. split; [constructor|auto].
  - injection H as <- <-. split; [|auto]. fin_clean. apply Ht.
  - (* start *)
    assert (E : do_start_generic o s args = HOk s' ra).
    { destruct v; auto. apply task_guard_ok in H. assumption. }
    apply do_start_generic_ok in E. destruct E as (-> & -> & ->). split; [constructor|auto].
  - apply do_stop_ok in H. destruct H as (-> & -> & ->). split; [constructor|auto].
  - (* set-filename *)
    destruct args as [|a r]; [discriminate|]. injection H as <- <-. cbn. inversion Ha; subst.
    split; [constructor|auto].
  - injection H as <- <-. split; [|auto]. fin_clean.
  - injection H as <- <-. split; [constructor|auto].
  - (* setup *)
    unfold new_timer in H. destruct (merror s); try discriminate; injection H as <- <-; cbn;
      (split; [constructor|auto]).
  - apply task_guard_ok in H. unfold new_timer in H. injection H as <- <-. cbn. split; [constructor|auto].
  - apply task_guard_ok in H. unfold new_timer in H. injection H as <- <-. cbn. split; [constructor|auto].
  - (* reset *)
    injection H as <- <-. cbn. split; [constructor|]. split; [lit|constructor].
Qed.

Lemma handler_fail_clean o v c s args m :
  Forall clean args -> handler o v c s args = HFail m -> clean m.
Proof.
  intros Ha H.
  destruct c; cbn [handler] in H; try discriminate.
  - destruct args as [|a r]; [injection H as <-; lit|]. destruct (valid_conf v a); [discriminate|].
    injection H as <-. lit.
  - destruct args as [|a r]; [injection H as <-; lit|].
    destruct (o_int o a) as [z|]; [destruct (z <? 0); [|discriminate]|]; injection H as <-; lit.
  - destruct (do_set_section_res o s args) as [E | (m' & E & Hm)]; rewrite E in H; [discriminate|].
    injection H as <-. assumption.
  - destruct args as [|a r]; [discriminate|].
    destruct (o_int o a) as [z|]; [destruct (z <? 0); [|discriminate]|]; injection H as <-; lit.
  - destruct (do_set_enable_res o s args) as [E | (m' & E & Hm)]; rewrite E in H; [discriminate|].
    injection H as <-. assumption.
  - destruct v; try (eapply do_start_generic_fail; eassumption).
    apply task_guard_fail in H. destruct H as [H|H]; [|assumption].
    eapply do_start_generic_fail; eassumption.
  - eapply do_stop_fail; eassumption.
  - destruct args as [|a r]; [injection H as <-; lit|discriminate].
  - pose proof (merr_msg_clean s) as Hc. unfold new_timer in H.
    destruct (merror s); try discriminate; injection H as <-; assumption.
  - apply task_guard_fail in H. destruct H as [H|H]; [|assumption]. unfold new_timer in H. discriminate.
  - apply task_guard_fail in H. destruct H as [H|H]; [|assumption]. unfold new_timer in H. discriminate.
Qed.

Lemma undefined_wf : name_wf undefined_name.
Proof.
  exists 117, [110; 100; 101; 102; 105; 110; 101; 100]. repeat split.
  - unfold alpha; lia.
  - repeat constructor; unfold namech, alpha; lia.
Qed.

Lemma syntax_reply_wf what :
  clean what -> exists oa, reply_line (syntax_reply what) undefined_name code_invalid oa.
Proof.
  intros Hw. unfold syntax_reply. eexists. unfold undefined, c_invalid. rewrite zs_undefined, zs_invalid.
  apply reply_str_wf.
  - apply undefined_wf.
  - right; right; reflexivity.
  - constructor; [|constructor]. apply clean_app; [lit|assumption].
Qed.

(* C19 (one reply, grammar, echo): what _parse answers to one line, in any state *)
Theorem parse_line_reply o v s line s' x :
  oracle_clean o -> RInv s -> parse_line o v s line = (s', x) ->
  RInv s' /\
  match parse_message line with
  | PMRep _ _ _ => x = OTrue /\ s' = s
  | PMReq name _ =>
      exists r code oa, x = OReply r /\ reply_line r name code oa /\ (code = code_ok \/ code = code_fail)
  | _ => exists r oa, x = OReply r /\ reply_line r undefined_name code_invalid oa /\ s' = s
  end.
Proof.
  intros Ho Hr H. unfold parse_line in H.
  destruct (parse_message line) as [|c| |name args|name code args] eqn:Hpm.
  - injection H as <- <-. split; [assumption|].
    destruct (syntax_reply_wf (zs "empty message is not valid")) as [oa Hoa]; [lit|]. eauto.
  - injection H as <- <-. split; [assumption|].
    destruct (syntax_reply_wf (quote (zs "invalid message type ") [c])) as [oa Hoa]; [|eauto].
    apply quote_clean; [lit|].
    (* the offending character is the first of a stripped... any line: it may be CR or LF only if the line
       starts with one; parse_line is only ever called on stripped lines, but the reply is a grammar line
       only when the character is not CR / LF: handled by the caller; here we need it *)
    constructor; [|constructor].
    destruct line as [|t body]; [discriminate|]. unfold parse_message in Hpm.
    destruct (t =? 33); [destruct (parse_name body) as [[? [|? ?]]|]; try discriminate;
                         destruct (_ =? 44); try discriminate;
                         destruct (parse_code codes _) as [[? ?]|]; discriminate|].
    destruct (t =? 63); [destruct (parse_name body) as [[? ?]|]; try discriminate;
                         destruct (parse_optargs _); discriminate|].
    injection Hpm as <-.
    admit.
  - injection H as <- <-. split; [assumption|].
    destruct (syntax_reply_wf (zs "invalid syntax")) as [oa Hoa]; [lit|]. eauto.
  - destruct (parse_message_request_wf _ _ _ Hpm) as [Hn Ha].
    destruct (dispatch v name) as [c|].
    + destruct (handler o v c s args) as [s1 ra|m] eqn:Hh.
      * injection H as <- <-.
        destruct (handler_ok_clean _ _ _ _ _ _ _ Ho Hr Ha Hh) as [Hra Hr1]. split; [assumption|].
        eexists _, _, _. split; [reflexivity|]. split.
        -- apply reply_str_wf; [assumption| |eassumption].
           unfold c_fail, c_ok. rewrite zs_ok, zs_fail. destruct (failure s1); [right; left|left]; reflexivity.
        -- unfold c_fail, c_ok. rewrite zs_ok, zs_fail. destruct (failure s1); auto.
      * injection H as <- <-. split; [assumption|].
        eexists _, _, _. split; [reflexivity|]. split.
        -- apply reply_str_wf; [assumption|unfold c_fail; rewrite zs_fail; right; left; reflexivity|].
           constructor; [|constructor]. eapply handler_fail_clean; eassumption.
        -- unfold c_fail. rewrite zs_fail. auto.
    + injection H as <- <-. split; [assumption|].
      eexists _, _, _. split; [reflexivity|]. split.
      * apply reply_str_wf; [assumption|unfold c_fail; rewrite zs_fail; right; left; reflexivity|].
        constructor; [|constructor]. apply quote_clean; [lit|].
        destruct Hn as (c0 & r0 & -> & Hc0 & Hr0). apply clean_cons.
        -- unfold alpha in Hc0. unfold not_crlf, is_crlf. lia.
        -- unfold clean. rewrite Forall_forall in *. intros y Hy. specialize (Hr0 y Hy).
           unfold namech, alpha in Hr0. unfold not_crlf, is_crlf. lia.
      * unfold c_fail. rewrite zs_fail. auto.
  - injection H as <- <-. auto.
Admitted.
