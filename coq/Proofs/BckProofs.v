(* Proofs about Model/BckModel.v: reply well-formedness, ledger invariant, acquisition state machine,
   MISTRAL guards, framing, read-back, queries.  (C19 and the backend parts of C02-C05, C07.) *)
From DS Require Import Base.Prelude Model.BckModel Spec.BckGrammarSpec Proofs.BckGrammar.
From Coq Require Import String Ascii DecimalString Permutation.

Arguments zs : simpl never.

(* ------------------------------------------------------------------------------------------ *)
(* (B) every reply is a line of the reply grammar *)

Ltac lit := apply cleanb_spec; reflexivity.

Lemma zs_cons a s : zs (String a s) = Z.of_N (N_of_ascii a) :: zs s.
Proof. reflexivity. Qed.

Lemma uint_clean u : clean (zs (NilEmpty.string_of_uint u)).
Proof.
  induction u; cbn [NilEmpty.string_of_uint]; try (rewrite zs_cons; apply clean_cons; [reflexivity|assumption]).
  constructor.
Qed.

Lemma dec_clean z : clean (dec z).
Proof.
  unfold dec, NilZero.string_of_int, NilZero.string_of_uint.
  destruct (Z.to_int z) as [u|u]; destruct u; try lit;
    repeat (rewrite zs_cons; apply clean_cons; [reflexivity|]); apply uint_clean.
Qed.

Definition oracle_clean (o : oracle) : Prop :=
  (forall t, clean (o_time o t)) /\ clean (o_tpi1 o) /\ clean (o_tpi2 o).

(* the registers echoed in replies never contain CR / LF *)
Definition RInv (s : st) : Prop := clean (conf s) /\ clean (fname s).

Lemma quote_clean pre a : clean pre -> clean a -> clean (quote pre a).
Proof. intros. unfold quote. repeat apply clean_app; auto; lit. Qed.

Lemma merr_msg_clean s : clean (merr_msg (merror s)).
Proof.
  unfold merror, running_task.
  destruct (failure s); [lit|].
  destruct (rvna s); [lit|]. destruct (rtarget s); [lit|]. destruct (rsetup s); [lit|].
  destruct (acq s); [lit|]. destruct (ready s); lit.
Qed.

Lemma mistral_status_msg_clean s : clean (mistral_status_msg s).
Proof.
  unfold mistral_status_msg. pose proof (merr_msg_clean s) as H.
  destruct (merr_msg (merror s)); [lit|assumption].
Qed.

Ltac break_in H :=
  repeat match type of H with
         | context [match ?x with _ => _ end] => destruct x eqn:?
         end.

Ltac fin_clean :=
  repeat match goal with
         | |- Forall _ [] => constructor
         | |- Forall _ (_ :: _) => constructor
         | |- clean (zs _) => lit
         | |- clean (quote _ _) => apply quote_clean
         | |- clean (dec _) => apply dec_clean
         | |- clean (bit _) => unfold bit
         | |- clean (if ?b then _ else _) => destruct b
         | |- clean (merr_msg (merror _)) => apply merr_msg_clean
         | |- clean (mistral_status_msg _) => apply mistral_status_msg_clean
         | |- clean [] => constructor
         | H : Forall clean (?a :: _) |- clean ?a => inversion H; assumption
         | _ => assumption
         | |- clean _ => solve [lit]
         end.

Lemma start_at_clean s t s' ra : start_at s t = HOk s' ra -> ra = [] /\ conf s' = conf s /\ fname s' = fname s.
Proof.
  unfold start_at, new_timer. destruct (t <? now s); [discriminate|].
  intros H. injection H as <- <-. destruct (startID s); auto.
Qed.
Lemma stop_at_clean s t s' ra : stop_at s t = HOk s' ra -> ra = [] /\ conf s' = conf s /\ fname s' = fname s.
Proof.
  unfold stop_at, new_timer. destruct (t <? now s); [discriminate|].
  intros H. injection H as <- <-. destruct (stopID s); auto.
Qed.
Lemma start_at_fail s t m : start_at s t = HFail m -> clean m.
Proof. unfold start_at, new_timer. destruct (t <? now s); intros H; [injection H as <-; lit|discriminate]. Qed.
Lemma stop_at_fail s t m : stop_at s t = HFail m -> clean m.
Proof. unfold stop_at, new_timer. destruct (t <? now s); intros H; [injection H as <-; lit|discriminate]. Qed.

Lemma do_start_generic_ok o s args s' ra :
  do_start_generic o s args = HOk s' ra -> ra = [] /\ conf s' = conf s /\ fname s' = fname s.
Proof.
  unfold do_start_generic, start_now. destruct args as [|a r].
  - destruct (acq s); [discriminate|]. intros H. injection H as <- <-. auto.
  - destruct (o_ts o a); try discriminate. apply start_at_clean.
Qed.
Lemma do_start_generic_fail o s args m :
  Forall clean args -> do_start_generic o s args = HFail m -> clean m.
Proof.
  unfold do_start_generic, start_now. intros Ha. destruct args as [|a r].
  - destruct (acq s); [|discriminate]. intros H. injection H as <-. lit.
  - inversion Ha; subst.
    destruct (o_ts o a); try (intros H; injection H as <-; apply quote_clean; [lit|assumption]).
    apply start_at_fail.
Qed.
Lemma do_stop_ok o s args s' ra :
  do_stop o s args = HOk s' ra -> ra = [] /\ conf s' = conf s /\ fname s' = fname s.
Proof.
  unfold do_stop, stop_now. destruct args as [|a r].
  - destruct (acq s); [|discriminate]. intros H. injection H as <- <-. auto.
  - destruct (o_ts o a); try discriminate. apply stop_at_clean.
Qed.
Lemma do_stop_fail o s args m : Forall clean args -> do_stop o s args = HFail m -> clean m.
Proof.
  unfold do_stop, stop_now. intros Ha. destruct args as [|a r].
  - destruct (acq s); [discriminate|]. intros H. injection H as <-. lit.
  - inversion Ha; subst.
    destruct (o_ts o a); try (intros H; injection H as <-; apply quote_clean; [lit|assumption]).
    apply stop_at_fail.
Qed.

Lemma do_set_section_res o s args :
  (do_set_section o s args = HOk s []) \/ exists m, do_set_section o s args = HFail m /\ clean m.
Proof.
  unfold do_set_section.
  repeat match goal with
         | |- context [match ?x with _ => _ end] => destruct x
         end; auto; right; eexists; split; try reflexivity; lit.
Qed.
Lemma do_set_enable_res o s args :
  (do_set_enable o s args = HOk s []) \/ exists m, do_set_enable o s args = HFail m /\ clean m.
Proof.
  unfold do_set_enable.
  repeat match goal with
         | |- context [match ?x with _ => _ end] => destruct x
         end; auto; right; eexists; split; try reflexivity; lit.
Qed.

Lemma task_guard_ok s k s' ra : task_guard s k = HOk s' ra -> k = HOk s' ra.
Proof. unfold task_guard. destruct (merror s); try discriminate. auto. Qed.
Lemma task_guard_fail s k m : task_guard s k = HFail m -> k = HFail m \/ clean m.
Proof.
  unfold task_guard. pose proof (merr_msg_clean s) as Hc.
  destruct (merror s); auto; intros H; injection H as <-; right; assumption.
Qed.

Lemma handler_ok_clean o v c s args s' ra :
  oracle_clean o -> RInv s -> Forall clean args -> handler o v c s args = HOk s' ra ->
  Forall clean ra /\ RInv s'.
Proof.
  intros (Ht & Hp1 & Hp2) [Hc Hf] Ha H. unfold RInv.
  destruct c; cbn [handler] in H.
  - (* status *) injection H as <- <-. split; [|auto]. destruct v; fin_clean; apply Ht.
  - injection H as <- <-. split; [|auto]. fin_clean.
  - injection H as <- <-. split; [|auto]. fin_clean.
  - (* set-configuration *)
    destruct args as [|a r]; [discriminate|]. destruct (valid_conf v a); [|discriminate].
    injection H as <- <-. cbn. inversion Ha; subst. split; [constructor|auto].
  - (* set-integration *)
    destruct args as [|a r]; [discriminate|]. destruct (o_int o a) as [z|]; [|discriminate].
    destruct (z <? 0); [discriminate|]. injection H as <- <-. cbn. split; [constructor|auto].
  - injection H as <- <-. split; [|auto]. fin_clean.
  - destruct (do_set_section_res o s args) as [E | (m & E & _)]; rewrite E in H; [|discriminate].
    injection H as <- <-. split; [constructor|auto].
  - injection H as <- <-. split; [|auto]. fin_clean.
  - injection H as <- <-. split; [|auto]. fin_clean.
  - (* cal-on *)
    destruct args as [|a r].
    + injection H as <- <-. cbn. split; [constructor|auto].
    + destruct (o_int o a) as [z|]; [|discriminate]. destruct (z <? 0); [discriminate|].
      injection H as <- <-. cbn. split; [constructor|auto].
  - destruct (do_set_enable_res o s args) as [E | (m & E & _)]; rewrite E in H; [|discriminate].
    injection H as <- <-. split; [constructor|auto].
  - injection H as <- <-. split; [|auto]. fin_clean. apply Ht.
  - (* start *)
    assert (E : do_start_generic o s args = HOk s' ra).
    { destruct v; auto. apply task_guard_ok in H. assumption. }
    apply do_start_generic_ok in E. destruct E as (-> & -> & ->). split; [constructor|auto].
  - apply do_stop_ok in H. destruct H as (-> & -> & ->). split; [constructor|auto].
  - (* set-filename *)
    destruct args as [|a r]; [discriminate|]. injection H as <- <-. cbn. inversion Ha; subst.
    split; [constructor|auto].
  - injection H as <- <-. split; [|auto]. fin_clean.
  - injection H as <- <-. split; [constructor|auto].
  - (* setup *)
    unfold new_timer in H. destruct (merror s); try discriminate; injection H as <- <-; cbn;
      (split; [constructor|auto]).
  - apply task_guard_ok in H. unfold new_timer in H. injection H as <- <-. cbn. split; [constructor|auto].
  - apply task_guard_ok in H. unfold new_timer in H. injection H as <- <-. cbn. split; [constructor|auto].
  - (* reset *)
    injection H as <- <-. cbn. split; [constructor|]. split; [lit|constructor].
Qed.

Lemma handler_fail_clean o v c s args m :
  Forall clean args -> handler o v c s args = HFail m -> clean m.
Proof.
  intros Ha H.
  destruct c; cbn [handler] in H; try discriminate.
  - destruct args as [|a r]; [injection H as <-; lit|]. destruct (valid_conf v a); [discriminate|].
    injection H as <-. lit.
  - destruct args as [|a r]; [injection H as <-; lit|].
    destruct (o_int o a) as [z|]; [destruct (z <? 0); [|discriminate]|]; injection H as <-; lit.
  - destruct (do_set_section_res o s args) as [E | (m' & E & Hm)]; rewrite E in H; [discriminate|].
    injection H as <-. assumption.
  - destruct args as [|a r]; [discriminate|].
    destruct (o_int o a) as [z|]; [destruct (z <? 0); [|discriminate]|]; injection H as <-; lit.
  - destruct (do_set_enable_res o s args) as [E | (m' & E & Hm)]; rewrite E in H; [discriminate|].
    injection H as <-. assumption.
  - destruct v; try (eapply do_start_generic_fail; eassumption).
    apply task_guard_fail in H. destruct H as [H|H]; [|assumption].
    eapply do_start_generic_fail; eassumption.
  - eapply do_stop_fail; eassumption.
  - destruct args as [|a r]; [injection H as <-; lit|discriminate].
  - pose proof (merr_msg_clean s) as Hc. unfold new_timer in H.
    destruct (merror s); try discriminate; injection H as <-; assumption.
  - apply task_guard_fail in H. destruct H as [H|H]; [|assumption]. unfold new_timer in H. discriminate.
  - apply task_guard_fail in H. destruct H as [H|H]; [|assumption]. unfold new_timer in H. discriminate.
Qed.

Lemma undefined_wf : name_wf undefined_name.
Proof.
  exists 117, [110; 100; 101; 102; 105; 110; 101; 100]. repeat split.
  - unfold alpha; lia.
  - repeat constructor; unfold namech, alpha; lia.
Qed.

Lemma syntax_reply_wf what :
  clean what -> exists oa, reply_line (syntax_reply what) undefined_name code_invalid oa.
Proof.
  intros Hw. unfold syntax_reply. eexists. unfold undefined, c_invalid. rewrite zs_undefined, zs_invalid.
  apply reply_str_wf.
  - apply undefined_wf.
  - right; right; reflexivity.
  - constructor; [|constructor]. apply clean_app; [lit|assumption].
Qed.

(* C19 (one reply, grammar, echo): what _parse answers to one line, in any state *)
Theorem parse_line_reply o v s line s' x :
  oracle_clean o -> RInv s -> head_ok line -> parse_line o v s line = (s', x) ->
  RInv s' /\
  match parse_message line with
  | PMRep _ _ _ => x = OTrue /\ s' = s
  | PMReq name _ =>
      exists r code oa, x = OReply r /\ reply_line r name code oa /\ (code = code_ok \/ code = code_fail)
  | _ => exists r oa, x = OReply r /\ reply_line r undefined_name code_invalid oa /\ s' = s
  end.
Proof.
  intros Ho Hr Hhd H. unfold parse_line in H.
  destruct (parse_message line) as [|c| |name args|name code args] eqn:Hpm.
  - injection H as <- <-. split; [assumption|].
    destruct (syntax_reply_wf (zs "empty message is not valid")) as [oa Hoa]; [lit|]. eauto.
  - injection H as <- <-. split; [assumption|].
    destruct (syntax_reply_wf (quote (zs "invalid message type ") [c])) as [oa Hoa]; [|eauto].
    apply quote_clean; [lit|].
    constructor; [|constructor].
    destruct line as [|t body]; [discriminate|]. unfold parse_message in Hpm.
    destruct (t =? 33); [destruct (parse_name body) as [[? [|? ?]]|]; try discriminate;
                         destruct (_ =? 44); try discriminate;
                         destruct (parse_code codes _) as [[? ?]|]; discriminate|].
    destruct (t =? 63); [destruct (parse_name body) as [[? ?]|]; try discriminate;
                         destruct (parse_optargs _); discriminate|].
    injection Hpm as <-. exact Hhd.
  - injection H as <- <-. split; [assumption|].
    destruct (syntax_reply_wf (zs "invalid syntax")) as [oa Hoa]; [lit|]. eauto.
  - destruct (parse_message_request_wf _ _ _ Hpm) as [Hn Ha].
    destruct (dispatch v name) as [c|].
    + destruct (handler o v c s args) as [s1 ra|m] eqn:Hh.
      * injection H as <- <-.
        destruct (handler_ok_clean _ _ _ _ _ _ _ Ho Hr Ha Hh) as [Hra Hr1]. split; [assumption|].
        eexists _, _, _. split; [reflexivity|]. split.
        -- apply reply_str_wf; [assumption| |eassumption].
           unfold c_fail, c_ok. rewrite zs_ok, zs_fail. destruct (failure s1); [right; left|left]; reflexivity.
        -- unfold c_fail, c_ok. rewrite zs_ok, zs_fail. destruct (failure s1); auto.
      * injection H as <- <-. split; [assumption|].
        eexists _, _, _. split; [reflexivity|]. split.
        -- apply reply_str_wf; [assumption|unfold c_fail; rewrite zs_fail; right; left; reflexivity|].
           constructor; [|constructor]. eapply handler_fail_clean; eassumption.
        -- unfold c_fail. rewrite zs_fail. auto.
    + injection H as <- <-. split; [assumption|].
      eexists _, _, _. split; [reflexivity|]. split.
      * apply reply_str_wf; [assumption|unfold c_fail; rewrite zs_fail; right; left; reflexivity|].
        constructor; [|constructor]. apply quote_clean; [lit|].
        destruct Hn as (c0 & r0 & -> & Hc0 & Hr0). apply clean_cons.
        -- unfold alpha in Hc0. unfold not_crlf, is_crlf. lia.
        -- unfold clean. rewrite Forall_forall in *. intros y Hy. specialize (Hr0 y Hy).
           unfold namech, alpha in Hr0. unfold not_crlf, is_crlf. lia.
      * unfold c_fail. rewrite zs_fail. auto.
  - injection H as <- <-. auto.
Qed.

(* ------------------------------------------------------------------------------------------ *)
(* (C) the timer ledger: every live timer is the one its attribute refers to *)

Definition slot (s : st) (k : tkind) : option Z :=
  match k with
  | KStart => startID s | KStop => stopID s | KSetup => setupID s
  | KTarget => targetID s | KVna => vnaID s
  end.
Definition set_slot (s : st) (k : tkind) (x : option Z) : st :=
  match k with
  | KStart => set_startID s x | KStop => set_stopID s x | KSetup => set_setupID s x
  | KTarget => set_targetID s x | KVna => set_vnaID s x
  end.
(* the task flag that guards the creation of a timer of that kind *)
Definition runflag (s : st) (k : tkind) : bool :=
  match k with
  | KSetup => rsetup s | KTarget => rtarget s | KVna => rvna s
  | _ => true
  end.
Definition generic_kind (k : tkind) : Prop := k = KStart \/ k = KStop.

Record LInv (v : variant) (s : st) : Prop := mkLInv {
  li_slot : forall tm, In tm (timers s) -> slot s (t_kind tm) = Some (t_id tm);
  li_fresh : forall tm, In tm (timers s) -> t_id tm < next_id s;
  li_nodup : NoDup (map t_id (timers s));
  li_flag : forall tm, In tm (timers s) -> runflag s (t_kind tm) = true;
  li_variant : v <> VMistral -> forall tm, In tm (timers s) -> generic_kind (t_kind tm)
}.

Lemma LInv_init v t0 : LInv v (init t0).
Proof.
  split; cbn.
  - intros tm [].
  - intros tm [].
  - constructor.
  - intros tm [].
  - intros _ tm [].
Qed.

Lemma LInv_ext v s s' :
  timers s' = timers s -> next_id s' = next_id s -> (forall k, slot s' k = slot s k) ->
  (forall k, runflag s' k = runflag s k) -> LInv v s -> LInv v s'.
Proof.
  intros Ht Hn Hs Hf [I1 I2 I3 I4 I5]. split; rewrite ?Ht, ?Hn; intros; rewrite ?Hs, ?Hf; auto.
Qed.

Ltac ext_tac :=
  repeat match goal with
         | |- LInv ?v (?f ?s ?x) =>
           apply (LInv_ext v s (f s x)); [reflexivity|reflexivity|intros []; reflexivity|intros []; reflexivity|]
         end.

(* cancel *)
Lemma cancel_id_timers s i tm :
  In tm (timers (cancel_id s i)) <-> In tm (timers s) /\ i <> Some (t_id tm).
Proof.
  destruct i as [k|]; cbn.
  - rewrite filter_In. split.
    + intros [H1 H2]. split; [assumption|]. intros E. injection E as ->. rewrite Z.eqb_refl in H2. discriminate.
    + intros [H1 H2]. split; [assumption|]. destruct (t_id tm =? k) eqn:E; [|reflexivity].
      apply Z.eqb_eq in E. subst. congruence.
  - split; [intros H; split; [assumption|discriminate]|tauto].
Qed.

Lemma cancel_id_proj s i :
  next_id (cancel_id s i) = next_id s /\ (forall k, slot (cancel_id s i) k = slot s k) /\
  (forall k, runflag (cancel_id s i) k = runflag s k) /\
  acq (cancel_id s i) = acq s /\ now (cancel_id s i) = now s /\ rbuf (cancel_id s i) = rbuf s /\
  conf (cancel_id s i) = conf s /\ fname (cancel_id s i) = fname s /\ integ (cancel_id s i) = integ s /\
  failure (cancel_id s i) = failure s /\ ready (cancel_id s i) = ready s.
Proof. destruct i; cbn; repeat split; intros []; reflexivity. Qed.

Lemma NoDup_map_filter {A} (f : A -> Z) p (l : list A) : NoDup (map f l) -> NoDup (map f (filter p l)).
Proof.
  induction l as [|x l IH]; cbn; [auto|]. intros H. inversion H; subst.
  destruct (p x); cbn; [constructor; auto|auto].
  intros Hin. apply H2. apply in_map_iff in Hin. destruct Hin as (y & Hy & Hin).
  apply filter_In in Hin. apply in_map_iff. exists y. tauto.
Qed.

Lemma LInv_cancel v s i : LInv v s -> LInv v (cancel_id s i).
Proof.
  intros [I1 I2 I3 I4 I5]. destruct (cancel_id_proj s i) as (Hn & Hs & Hf & _).
  split.
  - intros tm H. apply cancel_id_timers in H. rewrite Hs. apply I1. tauto.
  - intros tm H. apply cancel_id_timers in H. rewrite Hn. apply I2. tauto.
  - destruct i; cbn; [apply NoDup_map_filter|]; assumption.
  - intros tm H. apply cancel_id_timers in H. rewrite Hf. apply I4. tauto.
  - intros Hv tm H. apply cancel_id_timers in H. apply I5; tauto.
Qed.

(* cancelling through the attribute of a kind leaves no live timer of that kind *)
Lemma cancel_slot_none v s k tm :
  LInv v s -> In tm (timers (cancel_id s (slot s k))) -> t_kind tm <> k.
Proof.
  intros I H. apply cancel_id_timers in H. destruct H as [H1 H2]. intros E. subst k.
  apply H2. apply (li_slot v s I). assumption.
Qed.

(* create: Timer(...).start() stored in the attribute of its kind *)
Definition create (s : st) (k : tkind) (due : Z) : st :=
  let (s1, i) := new_timer s k due in set_slot s1 k (Some i).

Lemma create_proj s k due :
  timers (create s k due) = timers s ++ [mkTimer k due (next_id s)] /\
  next_id (create s k due) = next_id s + 1 /\
  slot (create s k due) k = Some (next_id s) /\
  (forall k', k' <> k -> slot (create s k due) k' = slot s k') /\
  (forall k', runflag (create s k due) k' = runflag s k').
Proof.
  unfold create, new_timer. destruct k; cbn; repeat split;
    try (intros []; intros; try reflexivity; congruence).
Qed.

Lemma LInv_create v s k due :
  LInv v s -> (forall tm, In tm (timers s) -> t_kind tm <> k) -> runflag s k = true ->
  (v <> VMistral -> generic_kind k) -> LInv v (create s k due).
Proof.
  intros [I1 I2 I3 I4 I5] Hk Hf Hv.
  destruct (create_proj s k due) as (Ht & Hn & Hs & Hs' & Hr).
  split; rewrite ?Ht, ?Hn.
  - intros tm H. apply in_app_iff in H. destruct H as [H | [<- | []]].
    + rewrite Hs' by (apply Hk; assumption). apply I1. assumption.
    + cbn. assumption.
  - intros tm H. apply in_app_iff in H. destruct H as [H | [<- | []]].
    + specialize (I2 tm H). lia.
    + cbn. lia.
  - rewrite map_app. cbn.
    apply (Permutation_NoDup (Permutation_app_comm [next_id s] (map t_id (timers s)))).
    cbn. constructor; [|assumption].
    intros H. apply in_map_iff in H. destruct H as (tm & E & H). specialize (I2 tm H). lia.
  - intros tm H. rewrite Hr. apply in_app_iff in H. destruct H as [H | [<- | []]]; [auto|assumption].
  - intros Hv' tm H. apply in_app_iff in H. destruct H as [H | [<- | []]]; [auto|cbn; auto].
Qed.

Lemma LInv_ext2 v s s' :
  timers s' = timers s -> next_id s' = next_id s -> (forall k, slot s' k = slot s k) ->
  (forall tm, In tm (timers s) -> runflag s' (t_kind tm) = true) -> LInv v s -> LInv v s'.
Proof.
  intros Ht Hn Hs Hf [I1 I2 I3 I4 I5]. split; rewrite ?Ht, ?Hn; intros; rewrite ?Hs; auto.
Qed.

Lemma LInv_empty v s : timers s = [] -> LInv v s.
Proof.
  intros E. split; rewrite E; cbn.
  - intros tm [].
  - intros tm [].
  - constructor.
  - intros tm [].
  - intros _ tm [].
Qed.

(* cancelling through several attributes *)
Definition cancel_kinds (s : st) (ks : list tkind) : st :=
  fold_left (fun s k => cancel_id s (slot s k)) ks s.

Lemma cancel_kinds_in ks : forall s tm,
  In tm (timers (cancel_kinds s ks)) ->
  In tm (timers s) /\ forall k, In k ks -> slot s k <> Some (t_id tm).
Proof.
  induction ks as [|k ks IH]; cbn; intros s tm H.
  - split; [assumption|intros k []].
  - apply IH in H. destruct H as [H1 H2]. apply cancel_id_timers in H1. destruct H1 as [H1 H1'].
    split; [assumption|]. intros k' [<- | Hk]; [assumption|].
    specialize (H2 k' Hk). destruct (cancel_id_proj s (slot s k)) as (_ & Hs & _). rewrite Hs in H2. assumption.
Qed.

Lemma cancel_kinds_LInv v ks : forall s, LInv v s -> LInv v (cancel_kinds s ks).
Proof. induction ks as [|k ks IH]; cbn; intros s I; [assumption|]. apply IH. apply LInv_cancel. assumption. Qed.

Lemma cancel_kinds_proj ks : forall s,
  (forall k, slot (cancel_kinds s ks) k = slot s k) /\ next_id (cancel_kinds s ks) = next_id s /\
  conf (cancel_kinds s ks) = conf s /\ fname (cancel_kinds s ks) = fname s /\
  now (cancel_kinds s ks) = now s /\ rbuf (cancel_kinds s ks) = rbuf s.
Proof.
  induction ks as [|k ks IH]; cbn; intros s; [repeat split|].
  destruct (IH (cancel_id s (slot s k))) as (H1 & H2 & H3 & H4 & H5 & H6).
  destruct (cancel_id_proj s (slot s k)) as (Hn & Hs & _ & _ & Hnow & Hb & Hc & Hf & _).
  unfold cancel_kinds in *. cbn in *.
  split; [intros k'; rewrite H1; apply Hs|]. repeat split; congruence.
Qed.

Definition all_kinds : list tkind := [KSetup; KTarget; KVna; KStart; KStop].

Lemma cancel_all_empty v s : LInv v s -> timers (cancel_kinds s all_kinds) = [].
Proof.
  intros I. destruct (timers (cancel_kinds s all_kinds)) as [|tm l] eqn:E; [reflexivity|exfalso].
  assert (H : In tm (timers (cancel_kinds s all_kinds))) by (rewrite E; left; reflexivity).
  apply cancel_kinds_in in H. destruct H as [H1 H2].
  apply (H2 (t_kind tm)); [destruct (t_kind tm); cbn; tauto|]. apply (li_slot v s I). assumption.
Qed.

Lemma cancel_generic_empty v s :
  v <> VMistral -> LInv v s -> timers (cancel_kinds s [KStart; KStop]) = [].
Proof.
  intros Hv I. destruct (timers (cancel_kinds s [KStart; KStop])) as [|tm l] eqn:E; [reflexivity|exfalso].
  assert (H : In tm (timers (cancel_kinds s [KStart; KStop]))) by (rewrite E; left; reflexivity).
  apply cancel_kinds_in in H. destruct H as [H1 H2].
  apply (H2 (t_kind tm)); [|apply (li_slot v s I); assumption].
  destruct (li_variant v s I Hv tm H1) as [-> | ->]; cbn; tauto.
Qed.

(* MISTRAL: setup / sweeps are only started when nothing runs *)
Lemma merror_idle s :
  merror s = ENone \/ merror s = ESetup ->
  rsetup s = false /\ rtarget s = false /\ rvna s = false /\ acq s = false /\ failure s = false.
Proof.
  unfold merror, running_task. intros H.
  destruct (failure s); [destruct H; discriminate|].
  destruct (rvna s); [vm_compute in H; destruct H; discriminate|].
  destruct (rtarget s); [vm_compute in H; destruct H; discriminate|].
  destruct (rsetup s); [vm_compute in H; destruct H; discriminate|].
  destruct (acq s); [vm_compute in H; destruct H; discriminate|]. auto.
Qed.

Definition generic_cmd (c : cmd) : bool :=
  match c with CSetup | CTargetSweep | CVnaSweep | CReset => false | _ => true end.

Lemma assoc_in {B} k (l : list (list Z * B)) c : assoc k l = Some c -> In c (map snd l).
Proof.
  induction l as [|[k' c'] l IH]; cbn; [discriminate|].
  destruct (zlist_eqb k k'); [intros H; injection H as <-; auto|auto].
Qed.

Lemma dispatch_generic v name c : v <> VMistral -> dispatch v name = Some c -> generic_cmd c = true.
Proof.
  intros Hv H.
  assert (Hin : In c (map snd BckModel.commands_generic)) by (destruct v; try congruence; eapply assoc_in; eassumption).
  assert (Hall : forallb generic_cmd (map snd BckModel.commands_generic) = true) by reflexivity.
  rewrite forallb_forall in Hall. auto.
Qed.

Lemma start_at_eq s t :
  start_at s t = if t <? now s then HFail (zs "starting time already elapsed")
                 else HOk (create (set_wstart (cancel_id s (slot s KStart)) true) KStart t) [].
Proof. unfold start_at, create, new_timer. destruct (t <? now s); reflexivity. Qed.
Lemma stop_at_eq s t :
  stop_at s t = if t <? now s then HFail (zs "stop time already elapsed")
                else HOk (create (set_wstop (cancel_id s (slot s KStop)) true) KStop t) [].
Proof. unfold stop_at, create, new_timer. destruct (t <? now s); reflexivity. Qed.

Lemma LInv_start_at v s t s' ra : LInv v s -> start_at s t = HOk s' ra -> LInv v s'.
Proof.
  intros I H. rewrite start_at_eq in H. destruct (t <? now s); [discriminate|]. injection H as <- _.
  apply LInv_create.
  - ext_tac. apply LInv_cancel. assumption.
  - cbn. intros tm Hin. eapply cancel_slot_none; eassumption.
  - reflexivity.
  - intros _. left. reflexivity.
Qed.
Lemma LInv_stop_at v s t s' ra : LInv v s -> stop_at s t = HOk s' ra -> LInv v s'.
Proof.
  intros I H. rewrite stop_at_eq in H. destruct (t <? now s); [discriminate|]. injection H as <- _.
  apply LInv_create.
  - ext_tac. apply LInv_cancel. assumption.
  - cbn. intros tm Hin. eapply cancel_slot_none; eassumption.
  - reflexivity.
  - intros _. right. reflexivity.
Qed.

Lemma LInv_start_now v s s' : LInv v s -> start_now s = Some s' -> LInv v s'.
Proof. unfold start_now. intros I H. destruct (acq s); [discriminate|]. injection H as <-. ext_tac. assumption. Qed.
Lemma LInv_stop_now v s s' : LInv v s -> stop_now s = Some s' -> LInv v s'.
Proof. unfold stop_now. intros I H. destruct (acq s); [|discriminate]. injection H as <-. ext_tac. assumption. Qed.

Lemma LInv_do_start_generic o v s args s' ra :
  LInv v s -> do_start_generic o s args = HOk s' ra -> LInv v s'.
Proof.
  unfold do_start_generic. intros I H. destruct args as [|a r].
  - destruct (start_now s) eqn:E; [|discriminate]. injection H as <- _. eapply LInv_start_now; eassumption.
  - destruct (o_ts o a); try discriminate. eapply LInv_start_at; eassumption.
Qed.
Lemma LInv_do_stop o v s args s' ra : LInv v s -> do_stop o s args = HOk s' ra -> LInv v s'.
Proof.
  unfold do_stop. intros I H. destruct args as [|a r].
  - destruct (stop_now s) eqn:E; [|discriminate]. injection H as <- _. eapply LInv_stop_now; eassumption.
  - destruct (o_ts o a); try discriminate. eapply LInv_stop_at; eassumption.
Qed.

(* a task (setup / sweep) is created in an idle system: its flag goes up, its timer is the only one of its kind *)
Lemma LInv_task s k due (setf : st -> bool -> st) :
  LInv VMistral s -> runflag s k = false ->
  (forall x, timers (setf s x) = timers s) -> (forall x, next_id (setf s x) = next_id s) ->
  (forall x k', slot (setf s x) k' = slot s k') ->
  (forall k', k' <> k -> runflag (setf s true) k' = runflag s k') -> runflag (setf s true) k = true ->
  LInv VMistral (create (setf s true) k due).
Proof.
  intros I Hf Ht Hn Hs Hr Hk.
  assert (Hnone : forall tm, In tm (timers s) -> t_kind tm <> k).
  { intros tm Hin E. pose proof (li_flag _ _ I tm Hin) as F. rewrite E in F. congruence. }
  apply LInv_create.
  - eapply LInv_ext2; [apply Ht|apply Hn|apply Hs| |exact I].
    intros tm Hin. rewrite Hr by (apply Hnone; assumption). apply (li_flag _ _ I). assumption.
  - rewrite Ht. assumption.
  - assumption.
  - congruence.
Qed.

Lemma do_reset_timers s : timers (do_reset s) = timers (cancel_kinds s all_kinds).
Proof. reflexivity. Qed.

Theorem handler_LInv o v c s args s' ra :
  LInv v s -> (v <> VMistral -> generic_cmd c = true) ->
  handler o v c s args = HOk s' ra -> LInv v s'.
Proof.
  intros I Hg H.
  destruct c; cbn [handler] in H;
    try (injection H as <- _; assumption).
  - destruct args as [|a r]; [discriminate|]. destruct (valid_conf v a); [|discriminate].
    injection H as <- _. ext_tac. assumption.
  - destruct args as [|a r]; [discriminate|]. destruct (o_int o a) as [z|]; [|discriminate].
    destruct (z <? 0); [discriminate|]. injection H as <- _. ext_tac. assumption.
  - destruct (do_set_section_res o s args) as [E | (m & E & _)]; rewrite E in H; [|discriminate].
    injection H as <- _. assumption.
  - destruct args as [|a r].
    + injection H as <- _. ext_tac. assumption.
    + destruct (o_int o a) as [z|]; [|discriminate]. destruct (z <? 0); [discriminate|].
      injection H as <- _. ext_tac. assumption.
  - destruct (do_set_enable_res o s args) as [E | (m & E & _)]; rewrite E in H; [|discriminate].
    injection H as <- _. assumption.
  - assert (E : do_start_generic o s args = HOk s' ra).
    { destruct v; auto. apply task_guard_ok in H. assumption. }
    eapply LInv_do_start_generic; eassumption.
  - eapply LInv_do_stop; eassumption.
  - destruct args as [|a r]; [discriminate|]. injection H as <- _. ext_tac. assumption.
  - (* setup *)
    destruct v; try (specialize (Hg ltac:(discriminate)); discriminate).
    assert (Hid : merror s = ENone \/ merror s = ESetup) by (destruct (merror s); auto; discriminate).
    destruct (merror_idle s Hid) as (F1 & _).
    assert (E : s' = create (set_rsetup s true) KSetup (now s + setup_time_s * units_per_s)).
    { unfold create. destruct (merror s); try discriminate; unfold new_timer in *; injection H as <- _; reflexivity. }
    subst s'. apply (LInv_task s KSetup _ set_rsetup);
      [assumption|assumption|intros; reflexivity|intros; reflexivity|intros; reflexivity| |reflexivity].
    intros [] Hk; try reflexivity. congruence.
  - (* target-sweep *)
    destruct v; try (specialize (Hg ltac:(discriminate)); discriminate).
    unfold task_guard in H. destruct (merror s) eqn:Em; try discriminate.
    destruct (merror_idle s (or_introl Em)) as (_ & F2 & _).
    assert (E : s' = create (set_rtarget s true) KTarget (now s + sweep_time_s * units_per_s)).
    { unfold create, new_timer in *. injection H as <- _. reflexivity. }
    subst s'. apply (LInv_task s KTarget _ set_rtarget);
      [assumption|assumption|intros; reflexivity|intros; reflexivity|intros; reflexivity| |reflexivity].
    intros [] Hk; try reflexivity. congruence.
  - (* vna-sweep *)
    destruct v; try (specialize (Hg ltac:(discriminate)); discriminate).
    unfold task_guard in H. destruct (merror s) eqn:Em; try discriminate.
    destruct (merror_idle s (or_introl Em)) as (_ & _ & F3 & _).
    assert (E : s' = create (set_rvna s true) KVna (now s + sweep_time_s * units_per_s)).
    { unfold create, new_timer in *. injection H as <- _. reflexivity. }
    subst s'. apply (LInv_task s KVna _ set_rvna);
      [assumption|assumption|intros; reflexivity|intros; reflexivity|intros; reflexivity| |reflexivity].
    intros [] Hk; try reflexivity. congruence.
  - (* reset *)
    injection H as <- _. apply LInv_empty. rewrite do_reset_timers. eapply cancel_all_empty. eassumption.
Qed.

(* ------------------------------------------------------------------------------------------ *)
(* timers firing *)

Lemma fire_unfold s tm :
  fire s tm =
  let s0 := cancel_id s (Some (t_id tm)) in
  match t_kind tm with
  | KStart => match start_now s0 with Some s' => (s', true) | None => (s0, false) end
  | KStop => match stop_now s0 with Some s' => (s', true) | None => (s0, false) end
  | KSetup => (set_rsetup (set_ready s0 true) false, true)
  | KTarget => (set_rtarget s0 false, true)
  | KVna => (set_rvna s0 false, true)
  end.
Proof. reflexivity. Qed.

Lemma fire_proj s tm :
  timers (fst (fire s tm)) = timers (cancel_id s (Some (t_id tm))) /\
  conf (fst (fire s tm)) = conf s /\ fname (fst (fire s tm)) = fname s /\
  now (fst (fire s tm)) = now s /\ rbuf (fst (fire s tm)) = rbuf s /\
  next_id (fst (fire s tm)) = next_id s /\ (forall k, slot (fst (fire s tm)) k = slot s k).
Proof.
  rewrite fire_unfold. unfold start_now, stop_now. cbn zeta.
  destruct (t_kind tm); cbn; try (destruct (acq s)); cbn; repeat split; try reflexivity; intros []; reflexivity.
Qed.

Lemma LInv_fire v s tm : LInv v s -> In tm (timers s) -> LInv v (fst (fire s tm)).
Proof.
  intros I Hin. rewrite fire_unfold. cbn zeta.
  pose proof (li_slot v s I tm Hin) as Hs.
  assert (I0 : LInv v (cancel_id s (Some (t_id tm)))) by (apply LInv_cancel; assumption).
  assert (Hnone : forall tm', In tm' (timers (cancel_id s (Some (t_id tm)))) -> t_kind tm' <> t_kind tm).
  { rewrite <- Hs. intros tm' H'. exact (cancel_slot_none v s _ tm' I H'). }
  set (s0 := cancel_id s (Some (t_id tm))) in *.
  destruct (t_kind tm) eqn:Ek.
  - destruct (start_now s0) eqn:E; cbn; [eapply LInv_start_now; eassumption|assumption].
  - destruct (stop_now s0) eqn:E; cbn; [eapply LInv_stop_now; eassumption|assumption].
  - cbn. apply (LInv_ext2 v s0); [reflexivity|reflexivity|intros; reflexivity| |assumption].
    intros tm' H'. pose proof (Hnone tm' H') as Hk. pose proof (li_flag v s0 I0 tm' H') as Hf.
    destruct (t_kind tm'); try assumption; congruence.
  - cbn. apply (LInv_ext2 v s0); [reflexivity|reflexivity|intros; reflexivity| |assumption].
    intros tm' H'. pose proof (Hnone tm' H') as Hk. pose proof (li_flag v s0 I0 tm' H') as Hf.
    destruct (t_kind tm'); try assumption; congruence.
  - cbn. apply (LInv_ext2 v s0); [reflexivity|reflexivity|intros; reflexivity| |assumption].
    intros tm' H'. pose proof (Hnone tm' H') as Hk. pose proof (li_flag v s0 I0 tm' H') as Hf.
    destruct (t_kind tm'); try assumption; congruence.
Qed.

Lemma fire_all_cons s tm r :
  fst (fire_all s (tm :: r)) = fst (fire_all (fst (fire s tm)) r) /\
  snd (fire_all s (tm :: r)) = (t_kind tm, snd (fire s tm)) :: snd (fire_all (fst (fire s tm)) r).
Proof. cbn [fire_all]. destruct (fire s tm) as [s1 b]. cbn [fst snd]. destruct (fire_all s1 r) as [s2 fs]. cbn. split; reflexivity. Qed.

Lemma LInv_fire_all v l : forall s,
  LInv v s -> (forall tm, In tm l -> In tm (timers s)) -> NoDup (map t_id l) ->
  LInv v (fst (fire_all s l)).
Proof.
  induction l as [|tm r IH]; intros s I Hin Hnd; [assumption|].
  destruct (fire_all_cons s tm r) as [-> _]. inversion Hnd as [|? ? Hni Hnd']; subst.
  apply IH; [apply LInv_fire; [assumption|apply Hin; left; reflexivity]| |assumption].
  intros tm' H'. destruct (fire_proj s tm) as (-> & _). apply cancel_id_timers. split.
  - apply Hin. right. assumption.
  - intros E. injection E as E. apply Hni. rewrite E. apply in_map. assumption.
Qed.

Lemma fire_all_proj l : forall s,
  conf (fst (fire_all s l)) = conf s /\ fname (fst (fire_all s l)) = fname s /\
  now (fst (fire_all s l)) = now s /\ rbuf (fst (fire_all s l)) = rbuf s.
Proof.
  induction l as [|tm r IH]; intros s; [cbn; auto|].
  destruct (fire_all_cons s tm r) as [-> _]. destruct (IH (fst (fire s tm))) as (-> & -> & -> & ->).
  destruct (fire_proj s tm) as (_ & -> & -> & -> & -> & _). auto.
Qed.

(* which timers are left after firing a list: exactly those whose id is not in the list *)
Lemma fire_all_timers l : forall s tm,
  In tm (timers (fst (fire_all s l))) <-> In tm (timers s) /\ ~ In (t_id tm) (map t_id l).
Proof.
  induction l as [|x r IH]; intros s tm; [cbn; tauto|].
  destruct (fire_all_cons s x r) as [-> _]. rewrite IH.
  destruct (fire_proj s x) as (-> & _). rewrite cancel_id_timers. cbn. split.
  - intros [[H1 H2] H3]. split; [assumption|]. intros [E | E]; [apply H2; congruence|tauto].
  - intros [H1 H2]. split; [split; [assumption|]|tauto]. intros E. injection E as E. auto.
Qed.

Lemma insert_perm a l : Permutation (insert_timer a l) (a :: l).
Proof.
  induction l as [|b r IH]; cbn; [reflexivity|].
  destruct (timer_le a b); [reflexivity|].
  rewrite IH. apply perm_swap.
Qed.

Lemma sort_perm l : Permutation (sort_timers l) l.
Proof.
  induction l as [|a r IH]; cbn; [reflexivity|].
  rewrite insert_perm. constructor. assumption.
Qed.

Definition due_list (s : st) (t : Z) : list timer :=
  sort_timers (filter (fun tm => t_due tm <=? t) (timers s)).

Lemma due_list_in s t tm : In tm (due_list s t) <-> In tm (timers s) /\ t_due tm <= t.
Proof.
  unfold due_list. split.
  - intros H. apply (Permutation_in _ (sort_perm _)) in H. apply filter_In in H.
    destruct H as [H1 H2]. split; [assumption|lia].
  - intros [H1 H2]. apply (Permutation_in _ (Permutation_sym (sort_perm _))). apply filter_In.
    split; [assumption|lia].
Qed.

Lemma due_list_nodup v s t : LInv v s -> NoDup (map t_id (due_list s t)).
Proof.
  intros I. unfold due_list.
  apply (Permutation_NoDup (Permutation_map t_id (Permutation_sym (sort_perm _)))).
  apply NoDup_map_filter. apply (li_nodup v s I).
Qed.

Lemma advance_unfold s t :
  advance s t = (set_now (fst (fire_all s (due_list s (Z.max t (now s)))) ) (Z.max t (now s)),
                 OFired (snd (fire_all s (due_list s (Z.max t (now s)))))).
Proof. unfold advance, due_list. cbn zeta. destruct (fire_all s _). reflexivity. Qed.

Lemma LInv_advance v s t : LInv v s -> LInv v (fst (advance s t)).
Proof.
  intros I. rewrite advance_unfold. cbn [fst]. ext_tac.
  apply LInv_fire_all; [assumption| |eapply due_list_nodup; eassumption].
  intros tm H. apply due_list_in in H. tauto.
Qed.

(* system_stop *)
Lemma system_stop_eq v s :
  fst (system_stop v s) = cancel_kinds s (match v with VMistral => all_kinds | _ => [KStart; KStop] end).
Proof. destruct v; reflexivity. Qed.

(* C07 (backend): after system_stop no timer of the backend is pending *)
Theorem system_stop_clean v s : LInv v s -> timers (fst (system_stop v s)) = [].
Proof.
  intros I. rewrite system_stop_eq. destruct v.
  - apply (cancel_generic_empty VGeneric); [discriminate|assumption].
  - apply (cancel_generic_empty VSardara); [discriminate|assumption].
  - eapply cancel_all_empty. eassumption.
Qed.

Theorem system_stop_ack v s : snd (system_stop v s) = OAck (zs "$server_shutdown%%%%%").
Proof. reflexivity. Qed.

(* ------------------------------------------------------------------------------------------ *)
(* reachable states *)

Lemma parse_line_LInv o v s line s' x : LInv v s -> parse_line o v s line = (s', x) -> LInv v s'.
Proof.
  intros I H. unfold parse_line in H.
  destruct (parse_message line); try (injection H as <- _; assumption).
  destruct (dispatch v name) as [c|] eqn:Ed; [|injection H as <- _; assumption].
  destruct (handler o v c s args) as [s1 ra|m] eqn:Hh; injection H as <- _; [|assumption].
  eapply handler_LInv; [eassumption| |eassumption].
  intros Hv. eapply dispatch_generic; eassumption.
Qed.

Definition Inv (v : variant) (s : st) : Prop := RInv s /\ LInv v s.

Lemma step_inv o v s e : oracle_clean o -> Inv v s -> Inv v (fst (step o v s e)).
Proof.
  intros Ho [Hr Hl]. destruct e as [b|t| |f]; cbn [step].
  - unfold feed. destruct (ends_crlf b (rbuf s)).
    + destruct (parse_line o v (set_rbuf s []) (strip_crlf (rev (b :: rbuf s)))) as [s' x] eqn:E. cbn [fst].
      split.
      * eapply (parse_line_reply o v (set_rbuf s [])); [assumption|exact Hr|apply strip_head_ok|eassumption].
      * eapply parse_line_LInv; [|eassumption]. ext_tac. assumption.
    + cbn [fst]. split; [exact Hr|ext_tac; assumption].
  - split; [|apply LInv_advance; assumption].
    rewrite advance_unfold. cbn [fst]. unfold RInv. cbn.
    destruct (fire_all_proj (due_list s (Z.max t (now s))) s) as (-> & -> & _). exact Hr.
  - split; [|apply LInv_empty; eapply system_stop_clean; eassumption].
    rewrite system_stop_eq. unfold RInv.
    destruct (cancel_kinds_proj (match v with VMistral => all_kinds | _ => [KStart; KStop] end) s)
      as (_ & _ & -> & -> & _). exact Hr.
  - cbn [fst]. split; [exact Hr|ext_tac; assumption].
Qed.

Inductive reachable (o : oracle) (v : variant) (t0 : Z) : st -> Prop :=
| reach_init : reachable o v t0 (init t0)
| reach_step s e : reachable o v t0 s -> reachable o v t0 (fst (step o v s e)).

Theorem reachable_inv o v t0 s : oracle_clean o -> reachable o v t0 s -> Inv v s.
Proof.
  intros Ho H. induction H as [|s e H IH].
  - split; [split; [lit|constructor]|apply LInv_init].
  - apply step_inv; assumption.
Qed.

(* ------------------------------------------------------------------------------------------ *)
(* (D) bytes and lines *)

Definition code_of (c : list Z) : Prop := c = code_ok \/ c = code_fail \/ c = code_invalid.

(* C19: whatever byte arrives in whatever reachable state, parse answers True or exactly one reply line
   of the grammar; a reply can only come with the LF that completes a CR LF *)
Theorem feed_obs o v s b s' x :
  oracle_clean o -> Inv v s -> feed o v s b = (s', x) ->
  (x = OTrue \/ exists r n c oa, x = OReply r /\ reply_line r n c oa /\ code_of c) /\
  (ends_crlf b (rbuf s) = false -> x = OTrue /\ s' = set_rbuf s (b :: rbuf s)).
Proof.
  intros Ho [Hr Hl] H. unfold feed in H. destruct (ends_crlf b (rbuf s)) eqn:E.
  - split; [|discriminate].
    pose proof (parse_line_reply o v (set_rbuf s []) _ s' x Ho Hr (strip_head_ok _) H) as [_ P].
    destruct (parse_message (strip_crlf (rev (b :: rbuf s)))).
    + destruct P as (r & oa & -> & P & _). right. exists r, undefined_name, code_invalid, oa.
      repeat split; auto. right; right; reflexivity.
    + destruct P as (r & oa & -> & P & _). right. exists r, undefined_name, code_invalid, oa.
      repeat split; auto. right; right; reflexivity.
    + destruct P as (r & oa & -> & P & _). right. exists r, undefined_name, code_invalid, oa.
      repeat split; auto. right; right; reflexivity.
    + destruct P as (r & c & oa & -> & P & Hc). right. exists r, name, c, oa.
      repeat split; auto. destruct Hc; [left|right; left]; assumption.
    + left. tauto.
  - injection H as <- <-. split; [left; reflexivity|auto].
Qed.

Lemma ends_crlf_true b rb : ends_crlf b rb = true <-> b = 10 /\ exists r, rb = 13 :: r.
Proof.
  unfold ends_crlf. destruct rb as [|c r].
  - split; [discriminate|intros [_ [r' H]]; discriminate].
  - split.
    + intros H. apply andb_true_iff in H. destruct H as [H1 H2]. apply Z.eqb_eq in H1, H2. subst. eauto.
    + intros [-> [r' H]]. injection H as -> _. reflexivity.
Qed.

Lemma run_app o v es1 : forall s es2,
  run o v s (es1 ++ es2) =
  (fst (run o v (fst (run o v s es1)) es2), snd (run o v s es1) ++ snd (run o v (fst (run o v s es1)) es2)).
Proof.
  induction es1 as [|e r IH]; intros s es2; cbn [run app].
  - cbn [fst snd app]. destruct (run o v s es2); reflexivity.
  - destruct (step o v s e) as [s1 x]. rewrite IH. destruct (run o v s1 r) as [s2 xs]. cbn [fst snd].
    reflexivity.
Qed.

Lemma set_rbuf_same s : set_rbuf s (rbuf s) = s.
Proof. destruct s; reflexivity. Qed.

Lemma run_push o v l : forall s,
  Forall (fun b => b <> 10) l ->
  run o v s (map EByte l) = (set_rbuf s (rev l ++ rbuf s), repeat OTrue (List.length l)).
Proof.
  induction l as [|b r IH]; intros s Hl; cbn [map run].
  - cbn. rewrite set_rbuf_same. reflexivity.
  - inversion Hl as [|? ? Hb Hr]; subst. cbn [step]. unfold feed.
    assert (E : ends_crlf b (rbuf s) = false).
    { destruct (ends_crlf b (rbuf s)) eqn:E; [|reflexivity]. apply ends_crlf_true in E. tauto. }
    rewrite E. rewrite (IH _ Hr). cbn [rbuf set_rbuf rev length repeat].
    rewrite <- app_assoc. reflexivity.
Qed.

Lemma clean_no_lf l : clean l -> Forall (fun b => b <> 10) l.
Proof.
  unfold clean. rewrite !Forall_forall. intros H x Hx. specialize (H x Hx).
  unfold not_crlf, is_crlf in H. lia.
Qed.

(* C19 / C03: a line without CR / LF inside, sent to an idle parser and terminated by CR LF, is answered
   True for every byte but the last, and the last byte yields what _parse makes of the line *)
Theorem line_one_reply o v s l :
  rbuf s = [] -> clean l ->
  run o v s (map EByte (l ++ [13; 10])) =
  (fst (parse_line o v s l), repeat OTrue (List.length l + 1) ++ [snd (parse_line o v s l)]).
Proof.
  intros Hb Hc. rewrite map_app, run_app.
  rewrite (run_push o v l s (clean_no_lf l Hc)). cbn [fst snd]. rewrite Hb, app_nil_r.
  cbn [map run step]. unfold feed. cbn [rbuf set_rbuf].
  assert (E1 : ends_crlf 13 (rev l) = false) by (unfold ends_crlf; destruct (rev l); reflexivity).
  rewrite E1. cbn [rbuf set_rbuf]. change (ends_crlf 10 (13 :: rev l)) with true. cbn iota.
  replace (rev (10 :: 13 :: rev l)) with (l ++ [13; 10])
    by (cbn [rev]; rewrite rev_involutive, <- app_assoc; reflexivity).
  rewrite (strip_crlf_line l Hc).
  replace (set_rbuf (set_rbuf (set_rbuf s (rev l)) (13 :: rev l)) []) with s
    by (rewrite <- (set_rbuf_same s) at 1; rewrite Hb; destruct s; reflexivity).
  destruct (parse_line o v s l) as [s' x]. cbn [fst snd].
  replace (List.length l + 1)%nat with (S (List.length l)) by lia.
  f_equal. change [OTrue; x] with ([OTrue] ++ [x]). rewrite app_assoc. f_equal.
  generalize (List.length l). intros n. induction n as [|n IH]; cbn; [reflexivity|]. f_equal. exact IH.
Qed.

(* C03 (backend): from any state and after any bytes, CR LF returns the line assembly to its idle state *)
Lemma handler_rbuf o v c s args s' ra : rbuf s = [] -> handler o v c s args = HOk s' ra -> rbuf s' = [].
Proof.
  intros Hb H.
  destruct c; cbn [handler] in H; try (injection H as <- _; assumption).
  - destruct args; [discriminate|]. destruct (valid_conf v l); [|discriminate]. injection H as <- _. assumption.
  - destruct args; [discriminate|]. destruct (o_int o l) as [z|]; [|discriminate].
    destruct (z <? 0); [discriminate|]. injection H as <- _. assumption.
  - destruct (do_set_section_res o s args) as [E | (m & E & _)]; rewrite E in H; [|discriminate].
    injection H as <- _. assumption.
  - destruct args.
    + injection H as <- _. assumption.
    + destruct (o_int o l) as [z|]; [|discriminate]. destruct (z <? 0); [discriminate|].
      injection H as <- _. assumption.
  - destruct (do_set_enable_res o s args) as [E | (m & E & _)]; rewrite E in H; [|discriminate].
    injection H as <- _. assumption.
  - assert (E : do_start_generic o s args = HOk s' ra).
    { destruct v; auto. apply task_guard_ok in H. assumption. }
    unfold do_start_generic, start_now in E. destruct args.
    + destruct (acq s); [discriminate|]. injection E as <- _. assumption.
    + destruct (o_ts o l); try discriminate. rewrite start_at_eq in E.
      destruct (_ <? _); [discriminate|]. injection E as <- _.
      unfold create, new_timer. cbn. destruct (startID s); assumption.
  - unfold do_stop, stop_now in H. destruct args.
    + destruct (acq s); [|discriminate]. injection H as <- _. assumption.
    + destruct (o_ts o l); try discriminate. rewrite stop_at_eq in H.
      destruct (_ <? _); [discriminate|]. injection H as <- _.
      unfold create, new_timer. cbn. destruct (stopID s); assumption.
  - destruct args; [discriminate|]. injection H as <- _. assumption.
  - unfold new_timer in H. destruct (merror s); try discriminate; injection H as <- _; assumption.
  - apply task_guard_ok in H. unfold new_timer in H. injection H as <- _. assumption.
  - apply task_guard_ok in H. unfold new_timer in H. injection H as <- _. assumption.
  - injection H as <- _. reflexivity.
Qed.

Lemma parse_line_rbuf o v s line : rbuf s = [] -> rbuf (fst (parse_line o v s line)) = [].
Proof.
  intros Hb. unfold parse_line.
  destruct (parse_message line); try assumption.
  destruct (dispatch v name); [|assumption].
  destruct (handler o v c s args) eqn:E; [|assumption]. eapply handler_rbuf; eassumption.
Qed.

Theorem crlf_returns_to_idle o v s bs :
  rbuf (fst (run o v s (map EByte (bs ++ [13; 10])))) = [].
Proof.
  rewrite map_app, run_app. cbn [fst]. set (s1 := fst (run o v s (map EByte bs))).
  cbn [map run step]. unfold feed at 1.
  assert (E1 : ends_crlf 13 (rbuf s1) = false) by (unfold ends_crlf; destruct (rbuf s1); reflexivity).
  rewrite E1. unfold feed. cbn [rbuf set_rbuf]. change (ends_crlf 10 (13 :: rbuf s1)) with true. cbn iota.
  destruct (parse_line o v _ _) as [s2 x] eqn:E. cbn [fst].
  change s2 with (fst (s2, x)). rewrite <- E. apply parse_line_rbuf. reflexivity.
Qed.

(* C03 (backend): a line outside the grammar is discarded with one 'undefined' reply, nothing else changes *)
Theorem garbage_discarded o v s line :
  oracle_clean o -> RInv s -> head_ok line ->
  (forall n a, parse_message line <> PMReq n a) -> (forall n c a, parse_message line <> PMRep n c a) ->
  exists r oa, parse_line o v s line = (s, OReply r) /\ reply_line r undefined_name code_invalid oa.
Proof.
  intros Ho Hr Hh Hq Hp. destruct (parse_line o v s line) as [s' x] eqn:E.
  pose proof (parse_line_reply o v s line s' x Ho Hr Hh E) as [_ P].
  destruct (parse_message line) eqn:Em.
  - destruct P as (r & oa & -> & P & ->). eauto.
  - destruct P as (r & oa & -> & P & ->). eauto.
  - destruct P as (r & oa & -> & P & ->). eauto.
  - exfalso. eapply Hq. reflexivity.
  - exfalso. eapply Hp. reflexivity.
Qed.

(* C19: a well-formed reply line sent by the client is ignored *)
Theorem replies_ignored o v s r n c oa :
  reply_line r n c oa -> parse_line o v s r = (s, OTrue).
Proof.
  intros H. unfold parse_line. rewrite (recogniser_accepts_reply r n c oa H). reflexivity.
Qed.

(* ------------------------------------------------------------------------------------------ *)
(* (E) requests as lines *)

Definition req0 (name : string) : list Z := 63 :: zs name.
Definition req1 (name : string) (a : list Z) : list Z := 63 :: zs name ++ 44 :: a.

Definition name_wfb (n : list Z) : bool :=
  match n with c :: r => is_alpha c && forallb is_namech r | [] => false end.
Lemma name_wfb_spec n : name_wfb n = true -> name_wf n.
Proof.
  destruct n as [|c r]; cbn; [discriminate|]. intros H. apply andb_true_iff in H. destruct H as [H1 H2].
  exists c, r. repeat split; [apply is_alpha_spec; assumption|].
  rewrite forallb_forall in H2. rewrite Forall_forall. intros x Hx. apply is_namech_spec. auto.
Qed.
Ltac namelit := apply name_wfb_spec; reflexivity.

Lemma parse_req0 name : name_wf (zs name) -> parse_message (req0 name) = PMReq (zs name) [].
Proof. intros H. exact (recogniser_accepts_request _ _ None (RequestNoArgs (zs name) H)). Qed.

Lemma parse_req1 name a :
  name_wf (zs name) -> arg_text a -> parse_message (req1 name a) = PMReq (zs name) (split_comma a).
Proof. intros H Ha. exact (recogniser_accepts_request _ _ (Some a) (RequestArgs (zs name) a H Ha)). Qed.

Lemma parse_line_req o v s line name args c :
  parse_message line = PMReq name args -> dispatch v name = Some c ->
  parse_line o v s line =
  match handler o v c s args with
  | HOk s' ra => (s', OReply (reply_str name (if failure s' then c_fail else c_ok) ra))
  | HFail m => (s, OReply (reply_str name c_fail [m]))
  end.
Proof. intros Hp Hd. unfold parse_line. rewrite Hp, Hd. reflexivity. Qed.

Lemma dispatch_start v : dispatch v (zs "start") = Some CStart. Proof. destruct v; reflexivity. Qed.
Lemma dispatch_stop v : dispatch v (zs "stop") = Some CStop. Proof. destruct v; reflexivity. Qed.

(* ------------------------------------------------------------------------------------------ *)
(* (F) acquisition state machine *)

Theorem start_fails_while_acquiring o v s :
  acq s = true ->
  exists m, parse_line o v s (req0 "start") = (s, OReply (reply_str (zs "start") c_fail [m])).
Proof.
  intros Ha. rewrite (parse_line_req o v s _ _ _ _ (parse_req0 "start" ltac:(namelit)) (dispatch_start v)).
  assert (G : do_start_generic o s [] = HFail (zs "already acquiring")).
  { unfold do_start_generic, start_now. rewrite Ha. reflexivity. }
  cbn [handler]. destruct v; try (rewrite G; eauto).
  unfold task_guard. destruct (merror s) eqn:E; eexists; reflexivity.
Qed.

Theorem stop_fails_while_idle o v s :
  acq s = false ->
  parse_line o v s (req0 "stop") = (s, OReply (reply_str (zs "stop") c_fail [zs "not acquiring"])).
Proof.
  intros Ha. rewrite (parse_line_req o v s _ _ _ _ (parse_req0 "stop" ltac:(namelit)) (dispatch_stop v)).
  cbn [handler]. unfold do_stop, stop_now. rewrite Ha. reflexivity.
Qed.

Definition guard_open (v : variant) (s : st) : Prop := v = VMistral -> merror s = ENone.

Lemma handler_start_guard o v s args : guard_open v s -> handler o v CStart s args = do_start_generic o s args.
Proof.
  intros G. cbn [handler]. destruct v; try reflexivity. unfold task_guard. rewrite (G eq_refl). reflexivity.
Qed.

Theorem past_start_refused o v s a tok more t :
  arg_text a -> split_comma a = tok :: more -> o_ts o tok = TsFin t -> t < now s -> guard_open v s ->
  parse_line o v s (req1 "start" a) =
  (s, OReply (reply_str (zs "start") c_fail [zs "starting time already elapsed"])).
Proof.
  intros Ha Hs Ho Ht G.
  rewrite (parse_line_req o v s _ _ _ _ (parse_req1 "start" a ltac:(namelit) Ha) (dispatch_start v)).
  rewrite (handler_start_guard o v s _ G), Hs. unfold do_start_generic. rewrite Ho, start_at_eq.
  destruct (t <? now s) eqn:E; [reflexivity|lia].
Qed.

Theorem past_stop_refused o v s a tok more t :
  arg_text a -> split_comma a = tok :: more -> o_ts o tok = TsFin t -> t < now s ->
  parse_line o v s (req1 "stop" a) =
  (s, OReply (reply_str (zs "stop") c_fail [zs "stop time already elapsed"])).
Proof.
  intros Ha Hs Ho Ht.
  rewrite (parse_line_req o v s _ _ _ _ (parse_req1 "stop" a ltac:(namelit) Ha) (dispatch_stop v)).
  cbn [handler]. rewrite Hs. unfold do_stop. rewrite Ho, stop_at_eq.
  destruct (t <? now s) eqn:E; [reflexivity|lia].
Qed.

Definition not_finite (r : tsres) : Prop := match r with TsFin _ => False | _ => True end.

(* a timestamp that float() rejects, or that is not a finite number, is refused (fixes/33) *)
Theorem bad_timestamp_refused o v s a tok more :
  arg_text a -> split_comma a = tok :: more -> not_finite (o_ts o tok) -> guard_open v s ->
  parse_line o v s (req1 "start" a) =
    (s, OReply (reply_str (zs "start") c_fail [quote (zs "wrong timestamp ") tok])) /\
  parse_line o v s (req1 "stop" a) =
    (s, OReply (reply_str (zs "stop") c_fail [quote (zs "wrong timestamp ") tok])).
Proof.
  intros Ha Hs Hn G. split.
  - rewrite (parse_line_req o v s _ _ _ _ (parse_req1 "start" a ltac:(namelit) Ha) (dispatch_start v)).
    rewrite (handler_start_guard o v s _ G), Hs. unfold do_start_generic.
    destruct (o_ts o tok); try reflexivity. destruct Hn.
  - rewrite (parse_line_req o v s _ _ _ _ (parse_req1 "stop" a ltac:(namelit) Ha) (dispatch_stop v)).
    cbn [handler]. rewrite Hs. unfold do_stop. destruct (o_ts o tok); try reflexivity. destruct Hn.
Qed.

Definition sched_start (s : st) (t : Z) : st := create (set_wstart (cancel_id s (slot s KStart)) true) KStart t.
Definition sched_stop (s : st) (t : Z) : st := create (set_wstop (cancel_id s (slot s KStop)) true) KStop t.

(* a start / stop at a present or future instant is accepted and scheduled *)
Theorem start_scheduled o v s a tok more t :
  arg_text a -> split_comma a = tok :: more -> o_ts o tok = TsFin t -> now s <= t -> guard_open v s ->
  parse_line o v s (req1 "start" a) =
  (sched_start s t, OReply (reply_str (zs "start") (if failure s then c_fail else c_ok) [])).
Proof.
  intros Ha Hs Ho Ht G.
  rewrite (parse_line_req o v s _ _ _ _ (parse_req1 "start" a ltac:(namelit) Ha) (dispatch_start v)).
  rewrite (handler_start_guard o v s _ G), Hs. unfold do_start_generic. rewrite Ho, start_at_eq.
  destruct (t <? now s) eqn:E; [lia|].
  assert (F : failure (sched_start s t) = failure s).
  { unfold sched_start, create, new_timer. cbn. destruct (startID s); reflexivity. }
  fold (sched_start s t). rewrite F. reflexivity.
Qed.

Theorem stop_scheduled o v s a tok more t :
  arg_text a -> split_comma a = tok :: more -> o_ts o tok = TsFin t -> now s <= t ->
  parse_line o v s (req1 "stop" a) =
  (sched_stop s t, OReply (reply_str (zs "stop") (if failure s then c_fail else c_ok) [])).
Proof.
  intros Ha Hs Ho Ht.
  rewrite (parse_line_req o v s _ _ _ _ (parse_req1 "stop" a ltac:(namelit) Ha) (dispatch_stop v)).
  cbn [handler]. rewrite Hs. unfold do_stop. rewrite Ho, stop_at_eq.
  destruct (t <? now s) eqn:E; [lia|].
  assert (F : failure (sched_stop s t) = failure s).
  { unfold sched_stop, create, new_timer. cbn. destruct (stopID s); reflexivity. }
  fold (sched_stop s t). rewrite F. reflexivity.
Qed.

Lemma filter_none {A} (p : A -> bool) l : (forall x, In x l -> p x = false) -> filter p l = [].
Proof.
  induction l as [|x l IH]; cbn; intros H; [reflexivity|].
  rewrite (H x (or_introl eq_refl)). apply IH. intros y Hy. apply H. right. assumption.
Qed.

Lemma tkind_eqb_spec a b : tkind_eqb a b = true <-> a = b.
Proof. destruct a, b; cbn; split; congruence. Qed.

Lemma sched_timers v s k t (setf : st -> bool -> st) :
  LInv v s -> (forall x, timers (setf x true) = timers x) -> (forall x, next_id (setf x true) = next_id x) ->
  let s' := create (setf (cancel_id s (slot s k)) true) k t in
  filter (fun tm => tkind_eqb (t_kind tm) k) (timers s') = [mkTimer k t (next_id s)] /\
  (forall tm, In tm (timers s') <->
              (In tm (timers s) /\ slot s k <> Some (t_id tm)) \/ tm = mkTimer k t (next_id s)).
Proof.
  intros I Ht Hn s'.
  destruct (create_proj (setf (cancel_id s (slot s k)) true) k t) as (E & _).
  destruct (cancel_id_proj s (slot s k)) as (En & _).
  assert (E' : timers s' = timers (cancel_id s (slot s k)) ++ [mkTimer k t (next_id s)]).
  { unfold s'. rewrite E, Ht, Hn, En. reflexivity. }
  rewrite E'. split.
  - rewrite filter_app. rewrite filter_none.
    + cbn. destruct (tkind_eqb k k) eqn:Ek; [reflexivity|].
      assert (tkind_eqb k k = true) by (apply tkind_eqb_spec; reflexivity). congruence.
    + intros x Hx. pose proof (cancel_slot_none v s k x I Hx) as Hk.
      destruct (tkind_eqb (t_kind x) k) eqn:Ek; [apply tkind_eqb_spec in Ek; contradiction|reflexivity].
  - intros tm. rewrite in_app_iff, cancel_id_timers. cbn. intuition.
Qed.

(* C19 "a re-schedule replaces the earlier one": after an accepted scheduled start exactly one start timer is
   pending, the new one, and the only timer removed is the one _startID referred to *)
Theorem reschedule_replaces_start v s t :
  LInv v s ->
  filter (fun tm => tkind_eqb (t_kind tm) KStart) (timers (sched_start s t)) = [mkTimer KStart t (next_id s)] /\
  (forall tm, In tm (timers (sched_start s t)) <->
              (In tm (timers s) /\ startID s <> Some (t_id tm)) \/ tm = mkTimer KStart t (next_id s)).
Proof. intros I. apply (sched_timers v s KStart t set_wstart I); intros; reflexivity. Qed.

Theorem reschedule_replaces_stop v s t :
  LInv v s ->
  filter (fun tm => tkind_eqb (t_kind tm) KStop) (timers (sched_stop s t)) = [mkTimer KStop t (next_id s)] /\
  (forall tm, In tm (timers (sched_stop s t)) <->
              (In tm (timers s) /\ stopID s <> Some (t_id tm)) \/ tm = mkTimer KStop t (next_id s)).
Proof. intros I. apply (sched_timers v s KStop t set_wstop I); intros; reflexivity. Qed.

(* in every reachable state at most one timer of each kind is pending *)
Theorem one_timer_per_kind v s tm1 tm2 :
  LInv v s -> In tm1 (timers s) -> In tm2 (timers s) -> t_kind tm1 = t_kind tm2 -> t_id tm1 = t_id tm2.
Proof.
  intros I H1 H2 E. pose proof (li_slot v s I tm1 H1) as S1. pose proof (li_slot v s I tm2 H2) as S2.
  rewrite E in S1. congruence.
Qed.

Lemma NoDup_map_inj {A} (f : A -> Z) (l : list A) x y :
  NoDup (map f l) -> In x l -> In y l -> f x = f y -> x = y.
Proof.
  induction l as [|a l IH]; cbn; intros Hnd Hx Hy E; [destruct Hx|].
  inversion Hnd as [|? ? Hni Hnd']; subst.
  destruct Hx as [-> | Hx], Hy as [-> | Hy]; auto.
  - exfalso. apply Hni. rewrite E. apply in_map. assumption.
  - exfalso. apply Hni. rewrite <- E. apply in_map. assumption.
Qed.

(* scheduled timers fire exactly when the clock reaches their time *)
Lemma fire_all_kinds l : forall s, map fst (snd (fire_all s l)) = map t_kind l.
Proof.
  induction l as [|tm r IH]; intros s; [reflexivity|].
  destruct (fire_all_cons s tm r) as [_ ->]. cbn. rewrite IH. reflexivity.
Qed.

Definition fired_of (x : obs) : list (tkind * bool) := match x with OFired l => l | _ => [] end.

Theorem scheduled_fires_at_time v s t tm :
  LInv v s -> In tm (timers s) ->
  (t_due tm <= Z.max t (now s) ->
     ~ In tm (timers (fst (advance s t))) /\ In (t_kind tm) (map fst (fired_of (snd (advance s t))))) /\
  (Z.max t (now s) < t_due tm ->
     In tm (timers (fst (advance s t))) /\
     forall b, ~ In (t_kind tm, b) (fired_of (snd (advance s t))) \/
               exists tm', In tm' (timers s) /\ t_kind tm' = t_kind tm /\ t_due tm' <= Z.max t (now s)).
Proof.
  intros I Hin. rewrite advance_unfold. cbn [fst snd fired_of timers set_now].
  set (T := Z.max t (now s)). split.
  - intros Hd. split.
    + intros H. apply fire_all_timers in H. destruct H as [_ H]. apply H. apply in_map.
      apply due_list_in. tauto.
    + rewrite fire_all_kinds. apply in_map. apply due_list_in. tauto.
  - intros Hd. split.
    + apply fire_all_timers. split; [assumption|]. intros H. apply in_map_iff in H.
      destruct H as (tm' & E & H). apply due_list_in in H. destruct H as [H1 H2].
      assert (tm' = tm) by (eapply (NoDup_map_inj t_id); [apply (li_nodup v s I)| | |]; eassumption).
      subst. lia.
    + intros b. destruct (in_dec (fun a b : tkind => ltac:(decide equality) : {a = b} + {a <> b})
                                 (t_kind tm) (map fst (snd (fire_all s (due_list s T))))) as [Hk | Hk].
      * right. rewrite fire_all_kinds in Hk. apply in_map_iff in Hk. destruct Hk as (tm' & E & H).
        apply due_list_in in H. exists tm'. tauto.
      * left. intros H. apply Hk. change (t_kind tm) with (fst (t_kind tm, b)). apply in_map. assumption.
Qed.

Lemma fire_start_idle s tm :
  t_kind tm = KStart -> acq s = false -> acq (fst (fire s tm)) = true /\ snd (fire s tm) = true.
Proof.
  intros Hk Ha. rewrite fire_unfold, Hk. cbn zeta. unfold start_now.
  destruct (cancel_id_proj s (Some (t_id tm))) as (_ & _ & _ & -> & _). rewrite Ha. cbn. auto.
Qed.
Lemma fire_stop_acquiring s tm :
  t_kind tm = KStop -> acq s = true -> acq (fst (fire s tm)) = false /\ snd (fire s tm) = true.
Proof.
  intros Hk Ha. rewrite fire_unfold, Hk. cbn zeta. unfold stop_now.
  destruct (cancel_id_proj s (Some (t_id tm))) as (_ & _ & _ & -> & _). rewrite Ha. cbn. auto.
Qed.
(* a timer firing in the "wrong" state: its callback raises (in the timer thread), nothing changes but the ledger *)
Lemma fire_start_busy s tm :
  t_kind tm = KStart -> acq s = true -> fire s tm = (cancel_id s (Some (t_id tm)), false).
Proof.
  intros Hk Ha. rewrite fire_unfold, Hk. cbn zeta. unfold start_now.
  destruct (cancel_id_proj s (Some (t_id tm))) as (_ & _ & _ & -> & _). rewrite Ha. reflexivity.
Qed.
Lemma fire_stop_idle s tm :
  t_kind tm = KStop -> acq s = false -> fire s tm = (cancel_id s (Some (t_id tm)), false).
Proof.
  intros Hk Ha. rewrite fire_unfold, Hk. cbn zeta. unfold stop_now.
  destruct (cancel_id_proj s (Some (t_id tm))) as (_ & _ & _ & -> & _). rewrite Ha. reflexivity.
Qed.

(* the simplest schedule: one pending start, idle system *)
Theorem scheduled_start_scenario s t tm :
  timers s = [tm] -> t_kind tm = KStart -> acq s = false ->
  (t_due tm <= Z.max t (now s) ->
     acq (fst (advance s t)) = true /\ timers (fst (advance s t)) = [] /\
     snd (advance s t) = OFired [(KStart, true)]) /\
  (Z.max t (now s) < t_due tm ->
     acq (fst (advance s t)) = false /\ timers (fst (advance s t)) = [tm] /\ snd (advance s t) = OFired []).
Proof.
  intros Ht Hk Ha. rewrite advance_unfold. unfold due_list. rewrite Ht. cbn [filter].
  set (T := Z.max t (now s)). split; intros Hd.
  - assert (E : (t_due tm <=? T) = true) by lia. rewrite E. cbn [sort_timers fold_right insert_timer].
    destruct (fire_all_cons s tm []) as [E1 E2]. rewrite E1, E2. cbn [fire_all fst snd].
    destruct (fire_start_idle s tm Hk Ha) as [F1 F2]. cbn. rewrite F1, F2, Hk.
    destruct (fire_proj s tm) as (-> & _). cbn. rewrite Ht. cbn. rewrite Z.eqb_refl. auto.
  - assert (E : (t_due tm <=? T) = false) by lia. rewrite E. cbn. auto.
Qed.

(* ------------------------------------------------------------------------------------------ *)
(* (G) MISTRAL task guards *)

Definition busy (s : st) : bool := acq s || rsetup s || rtarget s || rvna s.

Lemma merror_cases s :
  (failure s = true /\ merror s = EFailure) \/
  (failure s = false /\ busy s = true /\ exists t, merror s = ETask t) \/
  (failure s = false /\ busy s = false /\ ready s = false /\ merror s = ESetup) \/
  (failure s = false /\ busy s = false /\ ready s = true /\ merror s = ENone).
Proof.
  unfold merror, running_task, busy.
  destruct (failure s); [left; auto|right].
  destruct (rvna s); [left; repeat split; try (rewrite ?orb_true_r; reflexivity); eexists; vm_compute; reflexivity|].
  destruct (rtarget s); [left; repeat split; try (rewrite ?orb_true_r; reflexivity); eexists; vm_compute; reflexivity|].
  destruct (rsetup s); [left; repeat split; try (rewrite ?orb_true_r; reflexivity); eexists; vm_compute; reflexivity|].
  destruct (acq s); [left; repeat split; eexists; vm_compute; reflexivity|].
  right. destruct (ready s); [right|left]; auto.
Qed.

Definition task_cmd (c : cmd) : Prop := c = CStart \/ c = CSetup \/ c = CTargetSweep \/ c = CVnaSweep.

(* a task is refused while another is in progress, on failure, and (except setup) before setup completed;
   a refused command changes nothing (HFail carries no state) *)
Theorem mistral_task_guard o s c args :
  task_cmd c ->
  busy s = true \/ failure s = true \/ (ready s = false /\ c <> CSetup) ->
  merror s <> ENone /\ handler o VMistral c s args = HFail (merr_msg (merror s)).
Proof.
  intros Hc Hb.
  destruct (merror_cases s) as [(F & E) | [(F & B & (t & E)) | [(F & B & R & E) | (F & B & R & E)]]].
  - split; [congruence|]. destruct Hc as [-> | [-> | [-> | ->]]]; cbn [handler]; unfold task_guard;
      rewrite E; reflexivity.
  - split; [congruence|]. destruct Hc as [-> | [-> | [-> | ->]]]; cbn [handler]; unfold task_guard;
      rewrite E; reflexivity.
  - split; [congruence|].
    destruct Hb as [Hb | [Hb | [_ Hb]]]; try congruence.
    destruct Hc as [-> | [-> | [-> | ->]]]; try congruence; cbn [handler]; unfold task_guard;
      rewrite E; reflexivity.
  - exfalso. destruct Hb as [Hb | [Hb | [Hb _]]]; congruence.
Qed.

Lemma dispatch_mistral_tasks :
  dispatch VMistral (zs "setup") = Some CSetup /\ dispatch VMistral (zs "target-sweep") = Some CTargetSweep /\
  dispatch VMistral (zs "vna-sweep") = Some CVnaSweep /\ dispatch VMistral (zs "reset") = Some CReset.
Proof. repeat split; reflexivity. Qed.

Theorem mistral_task_guard_line o s name c :
  name_wf (zs name) -> dispatch VMistral (zs name) = Some c -> task_cmd c ->
  busy s = true \/ failure s = true \/ (ready s = false /\ c <> CSetup) ->
  parse_line o VMistral s (req0 name) =
  (s, OReply (reply_str (zs name) c_fail [merr_msg (merror s)])).
Proof.
  intros Hn Hd Hc Hb. rewrite (parse_line_req o VMistral s _ _ _ _ (parse_req0 name Hn) Hd).
  destruct (mistral_task_guard o s c [] Hc Hb) as [_ ->]. reflexivity.
Qed.

(* in a ready, idle, healthy system each task starts: flag up, one timer due after its duration *)
Theorem mistral_task_accepted o s args :
  merror s = ENone ->
  handler o VMistral CSetup s args
    = HOk (create (set_rsetup s true) KSetup (now s + setup_time_s * units_per_s)) [] /\
  handler o VMistral CTargetSweep s args
    = HOk (create (set_rtarget s true) KTarget (now s + sweep_time_s * units_per_s)) [] /\
  handler o VMistral CVnaSweep s args
    = HOk (create (set_rvna s true) KVna (now s + sweep_time_s * units_per_s)) [].
Proof.
  intros E. cbn [handler]. unfold task_guard, create, new_timer. rewrite E. auto.
Qed.

Theorem mistral_setup_first o s args :
  merror s = ESetup ->
  handler o VMistral CSetup s args
    = HOk (create (set_rsetup s true) KSetup (now s + setup_time_s * units_per_s)) [].
Proof. intros E. cbn [handler]. unfold create, new_timer. rewrite E. reflexivity. Qed.

Theorem mistral_setup_completes s tm :
  t_kind tm = KSetup -> ready (fst (fire s tm)) = true /\ rsetup (fst (fire s tm)) = false.
Proof. intros Hk. rewrite fire_unfold, Hk. cbn. auto. Qed.

(* ------------------------------------------------------------------------------------------ *)
(* (H) queries (C02 backend) *)

Definition query_args (o : oracle) (v : variant) (s : st) (c : cmd) : list (list Z) :=
  match c with
  | CStatus => [o_time o (now s); match v with VMistral => mistral_status_msg s | _ => zs "ok" end; bit (acq s)]
  | CVersion => [BckModel.protocol_version]
  | CTime => [o_time o (now s)]
  | CGetConfiguration => [conf s]
  | CGetIntegration => [dec (integ s)]
  | CGetFilename => [fname s]
  | CGetTpi => [o_tpi1 o; o_tpi2 o]
  | CGetTp0 => [zs "0"; zs "0"]
  | _ => []
  end.

Definition queries : list (string * cmd) :=
  [("status", CStatus); ("version", CVersion); ("time", CTime); ("get-configuration", CGetConfiguration);
   ("get-integration", CGetIntegration); ("get-filename", CGetFilename); ("get-tpi", CGetTpi);
   ("get-tp0", CGetTp0)]%string.

Lemma queries_wf q c v : In (q, c) queries -> name_wf (zs q) /\ dispatch v (zs q) = Some c /\ clean (req0 q).
Proof.
  intros H. cbn in H.
  repeat (destruct H as [H | H]; [injection H as <- <-; split; [namelit|split; [destruct v; reflexivity|lit]]|]).
  destruct H.
Qed.

(* every query of the catalogue is answered at once, in every state, with its value, and changes nothing *)
Theorem query_answered o v s q c :
  In (q, c) queries ->
  parse_line o v s (req0 q) =
  (s, OReply (reply_str (zs q) (if failure s then c_fail else c_ok) (query_args o v s c))).
Proof.
  intros H. destruct (queries_wf q c v H) as (Hn & Hd & _).
  rewrite (parse_line_req o v s _ _ _ _ (parse_req0 q Hn) Hd).
  cbn in H. repeat (destruct H as [H | H]; [injection H as <- <-; reflexivity|]). destruct H.
Qed.

Theorem query_answered_bytes o v s q c :
  oracle_clean o -> Inv v s -> rbuf s = [] -> In (q, c) queries ->
  exists r code oa,
    run o v s (map EByte (req0 q ++ [13; 10])) = (s, repeat OTrue (List.length (req0 q) + 1) ++ [OReply r]) /\
    reply_line r (zs q) code oa /\ (code = code_ok \/ code = code_fail).
Proof.
  intros Ho [Hr Hl] Hb H. destruct (queries_wf q c v H) as (Hn & Hd & Hc).
  rewrite (line_one_reply o v s (req0 q) Hb Hc).
  pose proof (query_answered o v s q c H) as E.
  assert (Hh : head_ok (req0 q)) by reflexivity.
  destruct (parse_line_reply o v s (req0 q) _ _ Ho Hr Hh E) as [_ P].
  rewrite (parse_req0 q Hn) in P. destruct P as (r & code & oa & Ex & P & Hcode).
  rewrite E. cbn [fst snd]. exists r, code, oa. rewrite <- Ex. auto.
Qed.

(* ------------------------------------------------------------------------------------------ *)
(* (I) registers (C05 backend): configuration, file name, integration time *)

Lemma handler_regs o v c s args s' ra :
  handler o v c s args = HOk s' ra ->
  (c = CSetConfiguration \/ c = CReset \/ conf s' = conf s) /\
  (c = CSetFilename \/ c = CReset \/ fname s' = fname s) /\
  (c = CSetIntegration \/ c = CReset \/ integ s' = integ s).
Proof.
  intros H.
  destruct c; cbn [handler] in H; try (injection H as <- _; solve [auto 6]).
  - destruct args; [discriminate|]. destruct (valid_conf v l); [|discriminate]. injection H as <- _. auto 6.
  - destruct args; [discriminate|]. destruct (o_int o l) as [z|]; [|discriminate].
    destruct (z <? 0); [discriminate|]. injection H as <- _. auto 6.
  - destruct (do_set_section_res o s args) as [E | (m & E & _)]; rewrite E in H; [|discriminate].
    injection H as <- _. auto.
  - destruct args.
    + injection H as <- _. auto.
    + destruct (o_int o l) as [z|]; [|discriminate]. destruct (z <? 0); [discriminate|].
      injection H as <- _. auto.
  - destruct (do_set_enable_res o s args) as [E | (m & E & _)]; rewrite E in H; [|discriminate].
    injection H as <- _. auto.
  - assert (E : do_start_generic o s args = HOk s' ra).
    { destruct v; auto. apply task_guard_ok in H. assumption. }
    unfold do_start_generic, start_now in E. destruct args.
    + destruct (acq s); [discriminate|]. injection E as <- _. auto.
    + destruct (o_ts o l); try discriminate. rewrite start_at_eq in E.
      destruct (_ <? _); [discriminate|]. injection E as <- _.
      unfold create, new_timer. cbn. destruct (startID s); auto.
  - unfold do_stop, stop_now in H. destruct args.
    + destruct (acq s); [|discriminate]. injection H as <- _. auto.
    + destruct (o_ts o l); try discriminate. rewrite stop_at_eq in H.
      destruct (_ <? _); [discriminate|]. injection H as <- _.
      unfold create, new_timer. cbn. destruct (stopID s); auto.
  - destruct args; [discriminate|]. injection H as <- _. auto 6.
  - unfold new_timer in H. destruct (merror s); try discriminate; injection H as <- _; auto.
  - apply task_guard_ok in H. unfold new_timer in H. injection H as <- _. auto.
  - apply task_guard_ok in H. unfold new_timer in H. injection H as <- _. auto.
Qed.

Lemma assoc_key {B} k (l : list (list Z * B)) c : assoc k l = Some c -> In (k, c) l.
Proof.
  induction l as [|[k' c'] l IH]; cbn; [discriminate|].
  destruct (zlist_eqb k k') eqn:E.
  - intros H. injection H as <-. apply zlist_eqb_eq in E. subst. auto.
  - auto.
Qed.

Definition setter_name (c : cmd) : list Z :=
  match c with
  | CSetConfiguration => zs "set-configuration" | CSetFilename => zs "set-filename"
  | CSetIntegration => zs "set-integration" | CReset => zs "reset"
  | _ => []
  end.

Lemma dispatch_setter v name c :
  dispatch v name = Some c ->
  (c = CSetConfiguration \/ c = CSetFilename \/ c = CSetIntegration \/ c = CReset) ->
  name = setter_name c /\ (c = CReset -> v = VMistral).
Proof.
  intros H Hc.
  assert (Hin : In (name, c) BckModel.commands_mistral /\ (c = CReset -> v = VMistral)).
  { destruct v; cbn [dispatch] in H; apply assoc_key in H.
    - split; [right; right; right; right; assumption|].
      intros ->. cbn in H. repeat (destruct H as [H | H]; [discriminate|]). destruct H.
    - split; [right; right; right; right; assumption|].
      intros ->. cbn in H. repeat (destruct H as [H | H]; [discriminate|]). destruct H.
    - auto. }
  destruct Hin as [Hin Hv]. split; [|assumption].
  cbn in Hin.
  repeat (destruct Hin as [Hin | Hin];
          [injection Hin as <- <-; try reflexivity;
           destruct Hc as [Hc | [Hc | [Hc | Hc]]]; discriminate|]).
  destruct Hin.
Qed.

(* operations at line granularity (each line arrives on an idle buffer, see line_one_reply) *)
Inductive op := OpLine (l : list Z) | OpAdvance (t : Z) | OpStop | OpFail (f : bool).

Definition ostep (o : oracle) (v : variant) (s : st) (x : op) : st * obs :=
  match x with
  | OpLine l => parse_line o v s l
  | OpAdvance t => advance s t
  | OpStop => system_stop v s
  | OpFail f => (set_failure s f, ONone)
  end.
Definition orun (o : oracle) (v : variant) (s : st) (h : list op) : st :=
  fold_left (fun s x => fst (ostep o v s x)) h s.

(* the line is a request named `setter`, or a MISTRAL reset *)
Definition writes (setter : string) (v : variant) (x : op) : Prop :=
  match x with
  | OpLine l => match parse_message l with
                | PMReq n _ => n = zs setter \/ (v = VMistral /\ n = zs "reset")
                | _ => False
                end
  | _ => False
  end.

Lemma fire_all_integ l : forall s, integ (fst (fire_all s l)) = integ s.
Proof.
  induction l as [|tm r IH]; intros s; [reflexivity|].
  destruct (fire_all_cons s tm r) as [-> _]. rewrite IH. rewrite fire_unfold. unfold start_now, stop_now.
  cbn zeta. destruct (cancel_id_proj s (Some (t_id tm))) as (_ & _ & _ & Ha & _ & _ & _ & _ & Hi & _).
  destruct (t_kind tm); cbn; rewrite ?Ha; try (destruct (acq s)); cbn; exact Hi.
Qed.

Lemma cancel_kinds_integ ks : forall s, integ (cancel_kinds s ks) = integ s.
Proof.
  induction ks as [|k ks IH]; intros s; [reflexivity|]. cbn. unfold cancel_kinds in IH. rewrite IH.
  destruct (cancel_id_proj s (slot s k)) as (_ & _ & _ & _ & _ & _ & _ & _ & Hi & _). exact Hi.
Qed.

Definition regs (s : st) : list Z * list Z * Z := (conf s, fname s, integ s).

Lemma ostep_regs_other o v s x : (forall l, x <> OpLine l) -> regs (fst (ostep o v s x)) = regs s.
Proof.
  intros Hx. unfold regs. destruct x as [l|t| |f]; [exfalso; eapply Hx; reflexivity| | |reflexivity].
  - cbn [ostep]. rewrite advance_unfold. cbn [fst]. cbn [conf fname integ set_now].
    destruct (fire_all_proj (due_list s (Z.max t (now s))) s) as (-> & -> & _).
    rewrite fire_all_integ. reflexivity.
  - cbn [ostep]. rewrite system_stop_eq.
    destruct (cancel_kinds_proj (match v with VMistral => all_kinds | _ => [KStart; KStop] end) s)
      as (_ & _ & -> & -> & _). rewrite cancel_kinds_integ. reflexivity.
Qed.

Lemma parse_line_regs o v s line :
  (conf (fst (parse_line o v s line)) = conf s \/ writes "set-configuration" v (OpLine line)) /\
  (fname (fst (parse_line o v s line)) = fname s \/ writes "set-filename" v (OpLine line)) /\
  (integ (fst (parse_line o v s line)) = integ s \/ writes "set-integration" v (OpLine line)).
Proof.
  unfold parse_line, writes.
  destruct (parse_message line) as [| | |name args|]; cbn [fst]; auto.
  destruct (dispatch v name) as [c|] eqn:Ed; cbn [fst]; auto.
  destruct (handler o v c s args) as [s1 ra|m] eqn:Eh; cbn [fst]; auto.
  destruct (handler_regs o v c s args s1 ra Eh) as (H1 & H2 & H3).
  repeat split.
  - destruct H1 as [-> | [-> | H1]]; auto;
      destruct (dispatch_setter v name _ Ed ltac:(auto)) as [-> Hv]; right; auto.
  - destruct H2 as [-> | [-> | H2]]; auto;
      destruct (dispatch_setter v name _ Ed ltac:(auto)) as [-> Hv]; right; auto.
  - destruct H3 as [-> | [-> | H3]]; auto;
      destruct (dispatch_setter v name _ Ed ltac:(auto)) as [-> Hv]; right; auto.
Qed.

Lemma orun_conf o v h : forall s,
  Forall (fun x => ~ writes "set-configuration" v x) h -> conf (orun o v s h) = conf s.
Proof.
  induction h as [|x h IH]; intros s Hh; [reflexivity|]. inversion Hh as [|? ? Hx Hh']; subst.
  cbn. unfold orun in IH. rewrite (IH _ Hh').
  destruct x as [l|t| |f].
  - destruct (parse_line_regs o v s l) as ([H | H] & _); [exact H|contradiction].
  - pose proof (ostep_regs_other o v s (OpAdvance t) ltac:(discriminate)) as E. injection E; auto.
  - pose proof (ostep_regs_other o v s OpStop ltac:(discriminate)) as E. injection E; auto.
  - reflexivity.
Qed.
Lemma orun_fname o v h : forall s,
  Forall (fun x => ~ writes "set-filename" v x) h -> fname (orun o v s h) = fname s.
Proof.
  induction h as [|x h IH]; intros s Hh; [reflexivity|]. inversion Hh as [|? ? Hx Hh']; subst.
  cbn. unfold orun in IH. rewrite (IH _ Hh').
  destruct x as [l|t| |f].
  - destruct (parse_line_regs o v s l) as (_ & [H | H] & _); [exact H|contradiction].
  - pose proof (ostep_regs_other o v s (OpAdvance t) ltac:(discriminate)) as E. injection E; auto.
  - pose proof (ostep_regs_other o v s OpStop ltac:(discriminate)) as E. injection E; auto.
  - reflexivity.
Qed.
Lemma orun_integ o v h : forall s,
  Forall (fun x => ~ writes "set-integration" v x) h -> integ (orun o v s h) = integ s.
Proof.
  induction h as [|x h IH]; intros s Hh; [reflexivity|]. inversion Hh as [|? ? Hx Hh']; subst.
  cbn. unfold orun in IH. rewrite (IH _ Hh').
  destruct x as [l|t| |f].
  - destruct (parse_line_regs o v s l) as (_ & _ & [H | H]); [exact H|contradiction].
  - pose proof (ostep_regs_other o v s (OpAdvance t) ltac:(discriminate)) as E. injection E; auto.
  - pose proof (ostep_regs_other o v s OpStop ltac:(discriminate)) as E. injection E; auto.
  - reflexivity.
Qed.

Lemma dispatch_setters v :
  dispatch v (zs "set-configuration") = Some CSetConfiguration /\
  dispatch v (zs "set-filename") = Some CSetFilename /\
  dispatch v (zs "set-integration") = Some CSetIntegration.
Proof. destruct v; repeat split; reflexivity. Qed.

(* an acknowledged write of the configuration name reads back exactly, after any history that contains no
   other configuration write and no reset; a refused one changes nothing *)
Theorem readback_configuration o v s a tok more :
  arg_text a -> split_comma a = tok :: more ->
  let s1 := fst (parse_line o v s (req1 "set-configuration" a)) in
  (valid_conf v tok = true ->
     snd (parse_line o v s (req1 "set-configuration" a))
       = OReply (reply_str (zs "set-configuration") (if failure s then c_fail else c_ok) []) /\
     forall h, Forall (fun x => ~ writes "set-configuration" v x) h ->
       let s2 := orun o v s1 h in
       parse_line o v s2 (req0 "get-configuration") =
       (s2, OReply (reply_str (zs "get-configuration") (if failure s2 then c_fail else c_ok) [tok]))) /\
  (valid_conf v tok = false ->
     parse_line o v s (req1 "set-configuration" a) =
     (s, OReply (reply_str (zs "set-configuration") c_fail [zs "invalid configuration"]))).
Proof.
  intros Ha Hs. destruct (dispatch_setters v) as (Hd & _).
  cbn zeta. rewrite (parse_line_req o v s _ _ _ _ (parse_req1 "set-configuration" a ltac:(namelit) Ha) Hd).
  cbn [handler]. rewrite Hs. split; intros Hv; rewrite Hv; [|reflexivity].
  cbn [fst snd]. split; [reflexivity|]. intros h Hh.
  rewrite (query_answered o v _ "get-configuration" CGetConfiguration ltac:(cbn; tauto)).
  cbn [query_args]. rewrite (orun_conf o v h _ Hh). reflexivity.
Qed.

Theorem readback_filename o v s a tok more :
  arg_text a -> split_comma a = tok :: more ->
  let s1 := fst (parse_line o v s (req1 "set-filename" a)) in
  snd (parse_line o v s (req1 "set-filename" a))
    = OReply (reply_str (zs "set-filename") (if failure s then c_fail else c_ok) []) /\
  forall h, Forall (fun x => ~ writes "set-filename" v x) h ->
    let s2 := orun o v s1 h in
    parse_line o v s2 (req0 "get-filename") =
    (s2, OReply (reply_str (zs "get-filename") (if failure s2 then c_fail else c_ok) [tok])).
Proof.
  intros Ha Hs. destruct (dispatch_setters v) as (_ & Hd & _).
  cbn zeta. rewrite (parse_line_req o v s _ _ _ _ (parse_req1 "set-filename" a ltac:(namelit) Ha) Hd).
  cbn [handler]. rewrite Hs. cbn [fst snd]. split; [reflexivity|]. intros h Hh.
  rewrite (query_answered o v _ "get-filename" CGetFilename ltac:(cbn; tauto)).
  cbn [query_args]. rewrite (orun_fname o v h _ Hh). reflexivity.
Qed.

Theorem readback_integration o v s a tok more :
  arg_text a -> split_comma a = tok :: more ->
  let s1 := fst (parse_line o v s (req1 "set-integration" a)) in
  (forall z, o_int o tok = Some z -> 0 <= z ->
     snd (parse_line o v s (req1 "set-integration" a))
       = OReply (reply_str (zs "set-integration") (if failure s then c_fail else c_ok) []) /\
     forall h, Forall (fun x => ~ writes "set-integration" v x) h ->
       let s2 := orun o v s1 h in
       parse_line o v s2 (req0 "get-integration") =
       (s2, OReply (reply_str (zs "get-integration") (if failure s2 then c_fail else c_ok) [dec z]))) /\
  ((o_int o tok = None \/ exists z, o_int o tok = Some z /\ z < 0) ->
     parse_line o v s (req1 "set-integration" a) =
     (s, OReply (reply_str (zs "set-integration") c_fail [zs "integration time must be an integer number"]))).
Proof.
  intros Ha Hs. destruct (dispatch_setters v) as (_ & _ & Hd).
  cbn zeta. rewrite (parse_line_req o v s _ _ _ _ (parse_req1 "set-integration" a ltac:(namelit) Ha) Hd).
  cbn [handler]. rewrite Hs. split.
  - intros z Hz Hpos. rewrite Hz. destruct (z <? 0) eqn:E; [lia|].
    cbn [fst snd]. split; [reflexivity|]. intros h Hh.
    rewrite (query_answered o v _ "get-integration" CGetIntegration ltac:(cbn; tauto)).
    cbn [query_args]. rewrite (orun_integ o v h _ Hh). reflexivity.
  - intros [Hn | (z & Hz & Hneg)].
    + rewrite Hn. reflexivity.
    + rewrite Hz. destruct (z <? 0) eqn:E; [reflexivity|lia].
Qed.

(* a refused request - BackendError, unknown command, syntax error - leaves the whole state as it was *)
Theorem refused_changes_nothing o v s line :
  match parse_message line with
  | PMReq name args =>
      match dispatch v name with
      | Some c => forall m, handler o v c s args = HFail m ->
                            parse_line o v s line = (s, OReply (reply_str name c_fail [m]))
      | None => fst (parse_line o v s line) = s
      end
  | _ => fst (parse_line o v s line) = s
  end.
Proof.
  unfold parse_line. destruct (parse_message line); try reflexivity.
  destruct (dispatch v name); [|reflexivity]. intros m ->. reflexivity.
Qed.

(* ------------------------------------------------------------------------------------------ *)
(* the hypotheses are satisfiable by non-trivial states *)

Definition ex_oracle : oracle :=
  mkOracle (fun _ => Some 7) (fun _ => FFin 3 2) (fun _ => TsFin 3000000)
           (fun _ => zs "1000.0000000") (zs "25.0") (zs "50.0").

Lemma ex_oracle_clean : oracle_clean ex_oracle.
Proof. repeat split; try (intros; lit); lit. Qed.

Definition ex_events : list event :=
  map EByte (zs "?start,30000000000" ++ [13; 10] ++ zs "?stop,31000000000" ++ [13; 10] ++ zs "?sta").

Example ex_reachable : reachable ex_oracle VGeneric 2048000 (fst (run ex_oracle VGeneric (init 2048000) ex_events)).
Proof.
  unfold ex_events. generalize (init 2048000) (reach_init ex_oracle VGeneric 2048000).
  induction (map EByte _) as [|e r IH]; intros s Hs; [exact Hs|].
  cbn [run]. destruct (step ex_oracle VGeneric s e) as [s1 x] eqn:E.
  specialize (IH s1). destruct (run ex_oracle VGeneric s1 r). cbn [fst] in *. apply IH.
  change s1 with (fst (s1, x)). rewrite <- E. constructor. assumption.
Qed.

Example ex_state_nontrivial :
  let s := fst (run ex_oracle VGeneric (init 2048000) ex_events) in
  List.length (timers s) = 2%nat /\ rbuf s <> [] /\ wstart s = true.
Proof. vm_compute. repeat split; discriminate. Qed.

Example ex_mistral_guard :
  let s := fst (run ex_oracle VMistral (init 2048000) (map EByte (zs "?setup" ++ [13; 10]))) in
  busy s = true /\ timers s = [mkTimer KSetup (2048000 + 60 * 2048) 0].
Proof. vm_compute. split; reflexivity. Qed.

(* C04 (backend): any reply emitted for any byte is a line of the reply grammar *)
Lemma every_reply_wf o v s b s' r :
  oracle_clean o -> Inv v s -> feed o v s b = (s', OReply r) ->
  exists n c oa, reply_line r n c oa /\ code_of c.
Proof.
  intros Ho Hi H.
  destruct (feed_obs o v s b s' _ Ho Hi H) as [[E | (r' & n & c & oa & E & P & Hc)] _]; [discriminate|].
  injection E as ->. eauto.
Qed.
