(* Aax — C04 (part acu): the reply triples of an axis status block name the request they answer. *)
From DS Require Import Base.Prelude Model.AaxModel Model.AaxReply.
From DS Require Import Proofs.AaxArith Proofs.AaxStep Proofs.AaxProofs.

(* ---- who writes the executed triple ---- *)
Lemma cmd_step_ex c s id cnt cm :
  let s' := fst (cmd_step c s id cnt cm) in
  ecnt s' = cnt /\ ecmd s' = mode_id cm /\ (eans s' = 1 \/ eans s' = 2).
Proof.
  unfold cmd_step. destruct cm; axs; cbn [mode_id]; try (repeat split; auto; fail).
  - destruct (pta _); axs; repeat split; auto.
  - destruct (has_stow c); axs; [|repeat split; auto].
    destruct (nthZ (stows c) idx); axs; repeat split; auto.
Qed.

Definition ex3 (s : ax) : Z * Z * Z := (ecnt s, ecmd s, eans s).

Lemma move_tick_ex c s cnt kd tgt rate d :
  let r := move_tick c s cnt kd tgt rate d in
  ex3 (fst r) = ex3 s \/
  (opt_is (cur s) cnt = true /\ snd r = true /\ ex3 (fst r) = (cnt, kind_code kd, 1)).
Proof.
  unfold move_tick, finish, ex3.
  destruct (opt_is (cur s) cnt); [|left; reflexivity].
  destruct (_ && _); axs.
  - destruct (_ =? tgt); [right; destruct kd; repeat split; reflexivity|left; reflexivity].
  - destruct (_ =? tgt); [right; destruct kd; repeat split; reflexivity|left; reflexivity].
Qed.

Lemma track_tick_ex c s cnt rate fin k : ex3 (fst (track_tick c s cnt rate fin k)) = ex3 s.
Proof.
  unfold track_tick, ex3. destruct (_ && _); [reflexivity|].
  destruct (tr_select (set_traj 7 s) fin) as [nx fin'].
  pose proof (tr_body_frame c (set_traj 7 s) rate nx k) as H.
  destruct (tr_body c (set_traj 7 s) rate nx k) as [[s1 p1] v1]. cbn [fst] in *. axs.
  destruct H as (_ & _ & _ & H1 & H2 & H3 & _). axs. congruence.
Qed.

Lemma update_status_ex c s : ex3 (update_status c s) = ex3 s.
Proof.
  destruct (update_status_frame c s) as (_&_&_&_&_&H1&H2&H3&_). unfold ex3. congruence.
Qed.

Definition exec_of (s : sys) : Z * Z * Z := ex3 (axs s).

(* (ii-a) whenever the executed triple changes it is written either by the command that is being
   received (which it then names, answer 2 = active or 1 = executed) or by the positioning thread
   of the command that is the current one, on arrival (which it then names, answer 1) *)
Theorem executed_written_by_named_thread c st e :
  let st' := step c st e in
  exec_of st' = exec_of st \/
  (exists cnt cm, e = ECmd cnt cm /\ ecnt (axs st') = cnt /\ ecmd (axs st') = mode_id cm /\
                  (eans (axs st') = 1 \/ eans (axs st') = 2)) \/
  (exists id k cnt kd tgt rate, e = ETick id k /\ In (MMove id cnt kd tgt rate) (movers st) /\
                  cur (axs st) = Some cnt /\ exec_of st' = (cnt, kind_code kd, 1)).
Proof.
  destruct e as [cnt cm|id k| |nx pt bahn|z|z]; cbn [step]; unfold exec_of.
  - right. left. exists cnt, cm.
    pose proof (cmd_step_ex c (axs st) (nid st) cnt cm) as H.
    destruct (cmd_step c (axs st) (nid st) cnt cm) as [s' [m|]]; cbn [fst axs] in *; tauto.
  - rewrite tick_movers_spec.
    destruct (find_mover id (movers st)) as [[i cnt kd tgt rate|i cnt rate fin]|] eqn:Ef.
    + pose proof (move_tick_ex c (axs st) cnt kd tgt rate (disp rate k)) as H.
      destruct (move_tick c (axs st) cnt kd tgt rate (disp rate k)) as [s' ended]. cbn [fst snd axs] in *.
      destruct H as [H|(H1 & H2 & H3)]; [left; exact H|].
      right. right. apply find_mover_in in Ef as [Hin Hid]. cbn in Hid. subst i.
      exists id, k, cnt, kd, tgt, rate. repeat split; try assumption.
      unfold opt_is in H1. destruct (cur (axs st)) as [y|]; [|discriminate]. f_equal. lia.
    + left. pose proof (track_tick_ex c (axs st) cnt rate fin k) as H.
      destruct (track_tick c (axs st) cnt rate fin k) as [s' [[cnt' fin']|]]; exact H.
    + left. reflexivity.
  - left. apply update_status_ex.
  - left. reflexivity.
  - left. cbn [axs]. now destruct (_ && _).
  - left. cbn [axs]. now destruct (_ && _).
Qed.

(* (ii-b) a superseded positioning thread (its counter is not curr_mode_counter when it wakes) and
   the tracking thread never write the executed triple *)
Theorem superseded_thread_never_writes c st id cnt kd tgt rate k :
  NoDup (map mover_id (movers st)) -> In (MMove id cnt kd tgt rate) (movers st) ->
  cur (axs st) <> Some cnt -> exec_of (step c st (ETick id k)) = exec_of st.
Proof.
  intros Hn Hin Hcur. rewrite (step_tick_move c st id cnt kd tgt rate k Hn Hin). unfold exec_of. cbn [axs].
  assert (Hs : opt_is (cur (axs st)) cnt = false).
  { unfold opt_is. destruct (cur (axs st)) as [y|]; [|reflexivity].
    destruct (y =? cnt) eqn:E; [|reflexivity]. exfalso. apply Hcur. f_equal. lia. }
  rewrite (move_tick_stale c (axs st) cnt kd tgt rate (disp rate k) Hs). reflexivity.
Qed.

Theorem tracking_thread_never_writes c st id cnt rate fin k :
  NoDup (map mover_id (movers st)) -> In (MTrack id cnt rate fin) (movers st) ->
  exec_of (step c st (ETick id k)) = exec_of st.
Proof.
  intros Hn Hin. destruct (step_tick_track c st id cnt rate fin k Hn Hin) as [H _].
  unfold exec_of. rewrite H. apply track_tick_ex.
Qed.

(* ---- (ii-c) after a superseding command the executed triple names it until a newer command ---- *)
Definition move_counter_kind (m : mover) (cnt M : Z) : Prop :=
  match m with MMove _ c kd _ _ => c = cnt -> kind_code kd = M | _ => True end.

Definition Names (st : sys) (cnt M : Z) : Prop :=
  cur (axs st) = Some cnt /\ ecnt (axs st) = cnt /\ ecmd (axs st) = M /\
  (eans (axs st) = 1 \/ eans (axs st) = 2) /\
  Forall (fun m => move_counter_kind m cnt M) (movers st).

Definition fresh (st : sys) (cnt : Z) : Prop :=
  Forall (fun m => match m with MMove _ c _ _ _ => c <> cnt | _ => True end) (movers st).

Definition not_cmd (e : event) : Prop := match e with ECmd _ _ => False | _ => True end.

Lemma names_after_cmd c st cnt cm : supersedes c cm = true -> fresh st cnt ->
  Names (step c st (ECmd cnt cm)) cnt (mode_id cm).
Proof.
  intros Hs Hf. unfold Names. cbn [step].
  pose proof (cmd_step_ex c (axs st) (nid st) cnt cm) as (E1 & E2 & E3).
  pose proof (cmd_step_cur c (axs st) (nid st) cnt cm) as Hc. rewrite Hs in Hc.
  assert (Hold : Forall (fun m => move_counter_kind m cnt (mode_id cm)) (movers st)).
  { eapply Forall_impl; [|exact Hf]. intros [i c' kd t r|i c' r f]; cbn; [intros; congruence|auto]. }
  assert (Hnew : forall m, snd (cmd_step c (axs st) (nid st) cnt cm) = Some m ->
                           move_counter_kind m cnt (mode_id cm)).
  { unfold cmd_step. destruct cm; cbn [snd]; try discriminate.
    - intros m [= <-]. cbn. reflexivity.
    - intros m [= <-]. cbn. reflexivity.
    - intros m [= <-]. cbn. reflexivity.
    - destruct (pta _); cbn [snd]; [discriminate|]. intros m [= <-]. exact I.
    - destruct (has_stow c); [|discriminate]. destruct (nthZ (stows c) idx); cbn [snd]; [|discriminate].
      intros m [= <-]. cbn. reflexivity. }
  destruct (cmd_step c (axs st) (nid st) cnt cm) as [s' [m|]]; cbn [fst snd axs movers] in *;
    repeat split; try assumption.
  apply Forall_app. split; [assumption|]. constructor; [now apply Hnew|constructor].
Qed.

Lemma names_step c st e cnt M : Names st cnt M -> not_cmd e -> Names (step c st e) cnt M.
Proof.
  intros (Hc & H1 & H2 & H3 & Hm) Hn. unfold Names.
  destruct e as [cnt' cm|id k| |nx pt bahn|z|z]; cbn [step not_cmd] in *; [contradiction| | | | |].
  - rewrite tick_movers_spec.
    destruct (find_mover id (movers st)) as [[i c' kd tgt rate|i c' rate fin]|] eqn:Ef.
    + pose proof (move_tick_ex c (axs st) c' kd tgt rate (disp rate k)) as Hex.
      pose proof (move_tick_cur c (axs st) c' kd tgt rate (disp rate k)) as Hcur.
      apply find_mover_in in Ef as [Hin _]. pose proof Hm as Hm0. rewrite Forall_forall in Hm0.
      pose proof (Hm0 _ Hin) as Hk. cbn in Hk.
      destruct (move_tick c (axs st) c' kd tgt rate (disp rate k)) as [s' ended]. cbn [fst snd axs movers] in *.
      assert (Hmv : Forall (fun m => move_counter_kind m cnt M) (if ended then remove_mover id (movers st) else movers st)).
      { destruct ended; [now apply Forall_remove_mover|assumption]. }
      destruct Hex as [Hex|(Ho & _ & Hex)]; unfold ex3 in Hex.
      * injection Hex as -> -> ->. rewrite Hcur. repeat split; assumption.
      * assert (c' = cnt).
        { unfold opt_is in Ho. rewrite Hc in Ho. lia. }
        subst c'. injection Hex as -> -> ->. rewrite Hcur. repeat split; auto.
    + pose proof (track_tick_ex c (axs st) c' rate fin k) as Hex.
      pose proof (track_tick_cur c (axs st) c' rate fin k) as Hcur.
      destruct (track_tick c (axs st) c' rate fin k) as [s' [[cnt' fin']|]]; cbn [fst axs movers] in *;
        unfold ex3 in Hex; injection Hex as -> -> ->; rewrite Hcur; repeat split; try assumption.
      * apply Forall_replace_mover; [exact I|assumption].
      * now apply Forall_remove_mover.
    + cbn [axs movers]. repeat split; assumption.
  - destruct (update_status_frame c (axs st)) as (_&_&Hcu&_&_&E1&E2&E3&_). cbn [axs movers].
    rewrite Hcu, E1, E2, E3. repeat split; assumption.
  - cbn [axs movers]. repeat split; assumption.
  - cbn [axs movers]. destruct (_ && _); repeat split; assumption.
  - cbn [axs movers]. destruct (_ && _); repeat split; assumption.
Qed.

Theorem executed_names_command_until_newer c es : forall st cnt cm,
  supersedes c cm = true -> fresh st cnt -> Forall not_cmd es ->
  let st' := run c (step c st (ECmd cnt cm)) es in
  ecnt (axs st') = cnt /\ ecmd (axs st') = mode_id cm /\ (eans (axs st') = 1 \/ eans (axs st') = 2).
Proof.
  intros st cnt cm Hs Hf Hes. cbn zeta.
  assert (H : Names (run c (step c st (ECmd cnt cm)) es) cnt (mode_id cm)).
  { pose proof (names_after_cmd c st cnt cm Hs Hf) as H0.
    revert H0. generalize (step c st (ECmd cnt cm)). induction es as [|e r IH]; intros s H0; [exact H0|].
    inversion Hes as [|? ? He Hr]; subst. cbn [run fold_left]. apply IH; [assumption|].
    now apply names_step. }
  destruct H as (_ & H1 & H2 & H3 & _). tauto.
Qed.

(* an immediate command (stop) is reported executed at once and stays so *)
Theorem stop_stays_executed c es st cnt : fresh st cnt -> Forall not_cmd es ->
  exec_of (run c (step c st (ECmd cnt CStop)) es) = (cnt, 7, 1).
Proof.
  intros Hf Hes.
  assert (H : forall s, Names s cnt 7 -> eans (axs s) = 1 ->
              Forall (fun m => match m with MMove _ c' _ _ _ => c' <> cnt | _ => True end) (movers s) ->
              exec_of (run c s es) = (cnt, 7, 1)).
  { induction es as [|e r IH]; intros s Hn Ha Hfr.
    - destruct Hn as (_ & H1 & H2 & _). unfold exec_of, ex3. cbn. congruence.
    - inversion Hes as [|? ? He Hr]; subst. cbn [run fold_left]. apply (IH Hr).
      + now apply names_step.
      + (* the answer can only be rewritten by a current thread with counter cnt: there is none *)
        destruct (executed_written_by_named_thread c s e) as [H|[(cnt' & cm & -> & _)|(id & k & c' & kd & t & rt & -> & Hin & Hcu & _)]].
        * unfold exec_of, ex3 in H. congruence.
        * contradiction.
        * exfalso. destruct Hn as (Hc & _). rewrite Hc in Hcu. injection Hcu as <-.
          rewrite Forall_forall in Hfr. now apply (Hfr _ Hin).
      + destruct e as [cnt' cm|id k| |nx pt bahn|z|z]; cbn [step not_cmd] in *; try assumption; [contradiction|].
        rewrite tick_movers_spec.
        destruct (find_mover id (movers s)) as [[i c' kd tgt rate|i c' rate fin]|].
        * destruct (move_tick c (axs s) c' kd tgt rate (disp rate k)) as [s' [|]]; cbn [movers];
            [now apply Forall_remove_mover|assumption].
        * destruct (track_tick c (axs s) c' rate fin k) as [s' [[cnt' fin']|]]; cbn [movers];
            [apply Forall_replace_mover; [exact I|assumption]|now apply Forall_remove_mover].
        * assumption. }
  apply H.
  - apply names_after_cmd; [reflexivity|assumption].
  - cbn. reflexivity.
  - cbn [step cmd_step movers]. exact Hf.
Qed.

(* ---- (i) the received triple names the last mode command received ---- *)
Definition last_mode (acc : Z * Z * Z) (es : list revent) : Z * Z * Z :=
  fold_left (fun a e => match e with RMode cnt mid vd => recv_of cnt mid vd | _ => a end) es acc.

Lemma recv_rstep c r e :
  recv (rstep c r e) = match e with RMode cnt mid vd => recv_of cnt mid vd | _ => recv r end.
Proof.
  destruct e as [cnt mid vd|cnt pid z|id k| |nx pt bahn]; cbn [rstep]; try reflexivity.
  destruct (recv_of cnt mid vd) as [[a b] d]. reflexivity.
Qed.

Theorem received_names_last c es : forall r, recv (rrun c r es) = last_mode (recv r) es.
Proof.
  induction es as [|e rest IH]; intros r; [reflexivity|].
  cbn [rrun last_mode fold_left]. fold (rrun c (rstep c r e) rest).
  rewrite IH, recv_rstep. destruct e; reflexivity.
Qed.

Theorem received_echo c r cnt mid vd :
  let r' := rstep c r (RMode cnt mid vd) in
  rcnt r' = cnt /\
  match vd with
  | VUnknown => rcmd r' = 0 /\ rans r' = 0
  | VRefused a => rcmd r' = mid /\ rans r' = a
  | VAccepted cm => rcmd r' = mode_id cm /\ rans r' = 9 /\
                    ecnt (axs (base r')) = cnt /\ ecmd (axs (base r')) = mode_id cm
  end.
Proof.
  destruct vd as [|a|cm]; cbn; repeat split.
  - pose proof (cmd_step_ex c (axs (base r)) (nid (base r)) cnt cm) as (H & _).
    destruct (cmd_step c (axs (base r)) (nid (base r)) cnt cm) as [s' [m|]]; exact H.
  - pose proof (cmd_step_ex c (axs (base r)) (nid (base r)) cnt cm) as (_ & H & _).
    destruct (cmd_step c (axs (base r)) (nid (base r)) cnt cm) as [s' [m|]]; exact H.
Qed.

(* a refused or unknown command leaves the executed triple (and everything else) alone *)
Theorem refused_leaves_executed c r cnt mid vd :
  (match vd with VAccepted _ => False | _ => True end) -> base (rstep c r (RMode cnt mid vd)) = base r.
Proof. destruct vd; cbn; tauto. Qed.

(* ---- (iii) the parameter triple names the last parameter command ---- *)
Definition last_param (acc : Z * Z) (es : list revent) : Z * Z :=
  fold_left (fun a e => match e with RParam cnt pid _ => (cnt, pid) | _ => a end) es acc.

Theorem parameter_names_last c es : forall r,
  (pcnt (rrun c r es), pcmd (rrun c r es)) = last_param (pcnt r, pcmd r) es.
Proof.
  induction es as [|e rest IH]; intros r; [reflexivity|].
  cbn [rrun last_param fold_left]. fold (rrun c (rstep c r e) rest). rewrite IH.
  destruct e as [cnt mid vd|cnt pid z|id k| |nx pt bahn]; cbn [rstep]; try reflexivity.
  destruct (recv_of cnt mid vd) as [[a b] d]. reflexivity.
Qed.

(* its answer: 4 when the axis is not active, 1 for the two offsets, 5 otherwise -- except when the
   offset does not fit INT32 (the handler raises before writing the answer: KNOWN FINDING
   acu_param_offset_overflow, the previous answer stays) *)
Theorem parameter_answer_except_overflow c r cnt pid z a :
  param_answer (axs (base r)) pid z = Some a -> pans (rstep c r (RParam cnt pid z)) = a.
Proof. intros H. cbn [rstep pans]. rewrite H. reflexivity. Qed.

Theorem parameter_answer_overflow_refuted :
  exists c r cnt z, ast (axs (base r)) = 3 /\ pans r = 1 /\
    pans (rstep c r (RParam cnt 11 z)) = 1 /\ poff (axs (base (rstep c r (RParam cnt 11 z)))) = poff (axs (base r)).
Proof.
  exists az_cfg, (rrun az_cfg (rinit az_cfg 180000000) [RMode 1 2 (VAccepted CActive); RParam 2 11 1000]),
         3, 3000000000.
  vm_compute. repeat split.
Qed.

(* ---- lifting (ii-c) to the reply model ---- *)
Definition ev_of (e : revent) : list event :=
  match e with
  | RMode cnt _ (VAccepted cm) => [ECmd cnt cm]
  | RMode _ _ _ => []
  | RParam _ pid z => if pid =? 11 then [EOffAbs z] else if pid =? 12 then [EOffRel z] else []
  | RTick id k => [ETick id k]
  | RUpdate => [EUpdate]
  | RFeed nx pt bahn => [EFeed nx pt bahn]
  end.

Lemma base_rstep c r e : base (rstep c r e) = run c (base r) (ev_of e).
Proof.
  destruct e as [cnt mid vd|cnt pid z|id k| |nx pt bahn]; cbn [rstep ev_of]; try reflexivity.
  - destruct (recv_of cnt mid vd) as [[a b] d]. destruct vd; reflexivity.
  - cbn [base]. destruct (pid =? 11); [reflexivity|]. destruct (pid =? 12); reflexivity.
Qed.

Lemma run_app c st es1 es2 : run c st (es1 ++ es2) = run c (run c st es1) es2.
Proof. unfold run. apply fold_left_app. Qed.

Lemma base_rrun c es : forall r, base (rrun c r es) = run c (base r) (concat (map ev_of es)).
Proof.
  induction es as [|e rest IH]; intros r; [reflexivity|].
  cbn [rrun fold_left map concat]. fold (rrun c (rstep c r e) rest).
  rewrite IH, base_rstep, run_app. reflexivity.
Qed.

Definition not_accepted (e : revent) : Prop :=
  match e with RMode _ _ (VAccepted _) => False | _ => True end.

Theorem reply_names_executed_command_until_newer c es r cnt mid cm :
  supersedes c cm = true -> fresh (base r) cnt -> Forall not_accepted es ->
  let r' := rrun c (rstep c r (RMode cnt mid (VAccepted cm))) es in
  ecnt (axs (base r')) = cnt /\ ecmd (axs (base r')) = mode_id cm /\
  (eans (axs (base r')) = 1 \/ eans (axs (base r')) = 2).
Proof.
  intros Hs Hf Hes. cbn zeta. rewrite base_rrun.
  replace (base (rstep c r (RMode cnt mid (VAccepted cm)))) with (step c (base r) (ECmd cnt cm)) by reflexivity.
  apply executed_names_command_until_newer; try assumption.
  induction es as [|e rest IH]; [constructor|].
  inversion Hes as [|? ? He Hr]; subst. cbn [map concat]. apply Forall_app. split; [|now apply IH].
  destruct e as [n m vd|n pid z|id k| |nx pt bahn]; cbn [ev_of].
  - destruct vd; [constructor|constructor|contradiction].
  - destruct (pid =? 11); [repeat constructor|]. destruct (pid =? 12); repeat constructor.
  - repeat constructor.
  - repeat constructor.
  - repeat constructor.
Qed.

(* the same over reachable states (thread ids are distinct there) *)
Theorem superseded_thread_never_writes_reach c p0 : wf_cfg c -> in_range c p0 ->
  forall st id cnt kd tgt rate k, reach c p0 st ->
  In (MMove id cnt kd tgt rate) (movers st) -> cur (axs st) <> Some cnt ->
  exec_of (step c st (ETick id k)) = exec_of st.
Proof.
  intros Hwf Hp st id cnt kd tgt rate k Hr. apply superseded_thread_never_writes.
  apply (reach_good c p0 st Hwf Hp Hr).
Qed.

Theorem tracking_thread_never_writes_reach c p0 : wf_cfg c -> in_range c p0 ->
  forall st id cnt rate fin k, reach c p0 st ->
  In (MTrack id cnt rate fin) (movers st) -> exec_of (step c st (ETick id k)) = exec_of st.
Proof.
  intros Hwf Hp st id cnt rate fin k Hr. apply tracking_thread_never_writes.
  apply (reach_good c p0 st Hwf Hp Hr).
Qed.

(* non-vacuity / the seeded situation: slew, stop in mid-flight, the slew thread wakes and ends:
   executed stays (stop counter, 7, 1) *)
Example ex_interrupted_slew :
  let r := rrun az_cfg (rinit az_cfg 180000000)
             [RMode 101 2 (VAccepted CActive); RTick 0 0; RMode 201 5 (VAccepted (CSlew 400000)); RTick 1 0;
              RTick 1 1024; RMode 301 7 (VAccepted CStop); RTick 2 0; RTick 1 1024] in
  recv r = (301, 7, 9) /\ exec_of (base r) = (301, 7, 1) /\ movers (base r) = [].
Proof. vm_compute. repeat split. Qed.
