(* Single precision: decode . encode . decode is the identity on every 32-bit pattern that is not
   a signalling NaN (C09); signalling NaNs are quieted (the recorded finding). *)
From DS Require Import Base.Prelude Base.Bits Model.UtilsF32.

Ltac norm_pows :=
  repeat match goal with
  | |- context [Z.pow 2 (Zpos ?p)] =>
      let v := eval vm_compute in (Z.pow 2 (Zpos p)) in change (Z.pow 2 (Zpos p)) with v
  | H : context [Z.pow 2 (Zpos ?p)] |- _ =>
      let v := eval vm_compute in (Z.pow 2 (Zpos p)) in change (Z.pow 2 (Zpos p)) with v in H
  end.

Lemma fields32 p : 0 <= p < 2 ^ 32 ->
  let s := p / 2 ^ 31 in let e := (p / 2 ^ 23) mod 256 in let m := p mod 2 ^ 23 in
  p = s * 2 ^ 31 + e * 2 ^ 23 + m /\ 0 <= s <= 1 /\ 0 <= e < 256 /\ 0 <= m < 2 ^ 23.
Proof. intros H. norm_pows. cbv zeta. lia. Qed.

(* field extraction from a composed 64-bit pattern *)
Lemma fields64 s e m : 0 <= s <= 1 -> 0 <= e < 2048 -> 0 <= m < 2 ^ 52 ->
  let q := s * 2 ^ 63 + e * 2 ^ 52 + m in
  q / 2 ^ 63 = s /\ (q / 2 ^ 52) mod 2048 = e /\ q mod 2 ^ 52 = m.
Proof. intros Hs He Hm. norm_pows. cbv zeta. lia. Qed.

Lemma log2_2_52 M : 2 ^ 52 <= M < 2 ^ 53 -> Z.log2 M = 52.
Proof. intros H. apply Z.log2_unique; [lia|]. change (Z.succ 52) with 53. exact H. Qed.

Lemma rne_exact M sh q : 0 < sh -> M = q * 2 ^ sh -> rne_shift M sh = q.
Proof.
  intros Hsh HM. unfold rne_shift.
  replace (sh <=? 0) with false by lia.
  assert (Hp : 0 < 2 ^ sh) by (apply Z.pow_pos_nonneg; lia).
  assert (Hh : 0 < 2 ^ (sh - 1)) by (apply Z.pow_pos_nonneg; lia).
  subst M. rewrite Z.div_mul by lia. rewrite Z.mod_mul by lia.
  replace (2 ^ (sh - 1) <? 0) with false by lia.
  replace (0 =? 2 ^ (sh - 1)) with false by lia. reflexivity.
Qed.

Lemma lor_quiet m : 2 ^ 22 <= m < 2 ^ 23 -> Z.lor m (2 ^ 22) = m.
Proof.
  intros Hm. apply Z.bits_inj'. intros n Hn. rewrite Z.lor_spec, Z.pow2_bits_eqb by lia.
  destruct (Z.eqb_spec 22 n) as [<-|Hne]; [|apply orb_false_r].
  rewrite orb_true_r. symmetry. apply Z.testbit_true; [lia|].
  norm_pows. lia.
Qed.

Theorem real32_roundtrip p : 0 <= p < 2 ^ 32 -> is_snan32 p = false ->
  narrow64 (widen32 p) = Some p.
Proof.
  intros Hp Hq. destruct (fields32 p Hp) as [Ep [Hs [He Hm]]]. unfold is_snan32 in Hq.
  unfold widen32.
  set (s := p / 2 ^ 31) in *. set (e := (p / 2 ^ 23) mod 256) in *. set (m := p mod 2 ^ 23) in *.
  destruct (Z.eqb_spec e 255) as [E255|N255].
  - (* infinities and NaNs *)
    destruct (Z.eqb_spec m 0) as [M0|MN0].
    + replace (s * 2 ^ 63 + 2047 * 2 ^ 52) with (s * 2 ^ 63 + 2047 * 2 ^ 52 + 0) by lia.
      unfold narrow64.
      destruct (fields64 s 2047 0 Hs ltac:(lia) ltac:(norm_pows; lia)) as [F1 [F2 F3]].
      cbv zeta in F1, F2, F3. rewrite F1, F2, F3. cbn [Z.eqb]. rewrite Pos.eqb_refl.
      f_equal. norm_pows. lia.
    + cbn [negb andb] in Hq. assert (Hmq : 2 ^ 22 <= m) by lia.
      replace (m <? 2 ^ 22) with false by lia.
      replace (s * 2 ^ 63 + 2047 * 2 ^ 52 + m * 2 ^ 29 + 0) with (s * 2 ^ 63 + 2047 * 2 ^ 52 + m * 2 ^ 29) by lia.
      unfold narrow64.
      destruct (fields64 s 2047 (m * 2 ^ 29) Hs ltac:(lia) ltac:(norm_pows; lia)) as [F1 [F2 F3]].
      cbv zeta in F1, F2, F3. rewrite F1, F2, F3. cbn [Z.eqb]. rewrite Pos.eqb_refl.
      replace (m * 2 ^ 29 =? 0) with false by (norm_pows; lia).
      rewrite Z.div_mul by (norm_pows; lia). rewrite lor_quiet by lia.
      f_equal. norm_pows. lia.
  - destruct (Z.eqb_spec e 0) as [E0|EN0].
    + destruct (Z.eqb_spec m 0) as [M0|MN0].
      * (* zeros *)
        replace (s * 2 ^ 63) with (s * 2 ^ 63 + 0 * 2 ^ 52 + 0) by lia.
        unfold narrow64.
        destruct (fields64 s 0 0 Hs ltac:(lia) ltac:(norm_pows; lia)) as [F1 [F2 F3]].
        cbv zeta in F1, F2, F3. rewrite F1, F2, F3. cbn [Z.eqb]. f_equal. norm_pows. lia.
      * (* subnormals *)
        assert (Hm0 : 0 < m) by lia.
        destruct (Z.log2_spec m Hm0) as [Hk1 Hk2]. set (k := Z.log2 m) in *.
        assert (Hk : 0 <= k <= 22).
        { split; [apply Z.log2_nonneg|].
          destruct (Z.le_gt_cases k 22) as [|Hgt]; [assumption|exfalso].
          assert (2 ^ 23 <= 2 ^ k) by (apply Z.pow_le_mono_r; lia). lia. }
        assert (Hsplit : 2 ^ k * 2 ^ (52 - k) = 2 ^ 52) by (rewrite <- Z.pow_add_r by lia; f_equal; lia).
        assert (Hpk : 0 < 2 ^ (52 - k)) by (apply Z.pow_pos_nonneg; lia).
        assert (Hpk' : 0 < 2 ^ k) by (apply Z.pow_pos_nonneg; lia).
        rewrite Z.pow_succ_r in Hk2 by lia.
        set (m' := (m - 2 ^ k) * 2 ^ (52 - k)).
        assert (Hm' : 0 <= m' < 2 ^ 52) by (unfold m'; nia).
        unfold narrow64.
        destruct (fields64 s (k - 149 + 1023) m' Hs ltac:(lia) Hm') as [F1 [F2 F3]].
        cbv zeta in F1, F2, F3. rewrite F1, F2, F3.
        replace (k - 149 + 1023 =? 2047) with false by lia.
        replace (k - 149 + 1023 =? 0) with false by lia.
        assert (HM : 2 ^ 52 + m' = m * 2 ^ (52 - k)) by (unfold m'; nia).
        rewrite HM.
        replace (m * 2 ^ (52 - k) =? 0) with false by nia.
        rewrite (log2_2_52 (m * 2 ^ (52 - k))) by nia.
        replace (-126 <=? 52 + (k - 149 + 1023 - 1075)) with false by lia.
        replace (-149 - (k - 149 + 1023 - 1075)) with (52 - k) by lia.
        rewrite (rne_exact _ _ m) by (try reflexivity; lia).
        replace (255 * 2 ^ 23 <=? 0 + m) with false by (norm_pows; lia).
        f_equal. norm_pows. lia.
    + (* normal numbers *)
      unfold narrow64.
      destruct (fields64 s (e - 127 + 1023) (m * 2 ^ 29) Hs ltac:(lia) ltac:(norm_pows; lia)) as [F1 [F2 F3]].
      cbv zeta in F1, F2, F3. rewrite F1, F2, F3.
      replace (e - 127 + 1023 =? 2047) with false by lia.
      replace (e - 127 + 1023 =? 0) with false by lia.
      replace (2 ^ 52 + m * 2 ^ 29 =? 0) with false by (norm_pows; lia).
      rewrite (log2_2_52 (2 ^ 52 + m * 2 ^ 29)) by (norm_pows; lia).
      replace (-126 <=? 52 + (e - 127 + 1023 - 1075)) with true by lia.
      replace (52 + (e - 127 + 1023 - 1075) - 23 - (e - 127 + 1023 - 1075)) with 29 by lia.
      rewrite (rne_exact _ _ (2 ^ 23 + m)) by (norm_pows; lia).
      replace (255 * 2 ^ 23 <=? (52 + (e - 127 + 1023 - 1075) + 126) * 2 ^ 23 + (2 ^ 23 + m)) with false
        by (norm_pows; lia).
      f_equal. norm_pows. lia.
Qed.

(* the recorded finding: a signalling NaN does not survive the round trip *)
Theorem real32_snan_refuted : exists p, 0 <= p < 2 ^ 32 /\ narrow64 (widen32 p) <> Some p.
Proof. exists 2139095041. split; [norm_pows; lia|vm_compute; discriminate]. Qed.

(* a finite double beyond the single range is refused, never wrapped: anything at or above
   2^128 (exponent field >= 1151) *)
Theorem real32_overflow_refused s e m : 0 <= s <= 1 -> 1151 <= e < 2047 -> 0 <= m < 2 ^ 52 ->
  narrow64 (s * 2 ^ 63 + e * 2 ^ 52 + m) = None.
Proof.
  intros Hs He Hm. unfold narrow64.
  destruct (fields64 s e m Hs ltac:(lia) Hm) as [F1 [F2 F3]].
  cbv zeta in F1, F2, F3. rewrite F1, F2, F3.
  replace (e =? 2047) with false by lia. replace (e =? 0) with false by lia.
  replace (2 ^ 52 + m =? 0) with false by (norm_pows; lia).
  rewrite (log2_2_52 (2 ^ 52 + m)) by (norm_pows; lia).
  replace (-126 <=? 52 + (e - 1075)) with true by lia.
  replace (52 + (e - 1075) - 23 - (e - 1075)) with 29 by lia.
  assert (HR : 2 ^ 23 <= rne_shift (2 ^ 52 + m) 29).
  { unfold rne_shift. cbn [Z.leb Z.compare].
    destruct ((2 ^ (29 - 1) <? (2 ^ 52 + m) mod 2 ^ 29)
              || (((2 ^ 52 + m) mod 2 ^ 29 =? 2 ^ (29 - 1)) && Z.odd ((2 ^ 52 + m) / 2 ^ 29)));
      norm_pows; lia. }
  replace (255 * 2 ^ 23 <=? (52 + (e - 1075) + 126) * 2 ^ 23 + rne_shift (2 ^ 52 + m) 29) with true
    by (norm_pows; lia).
  reflexivity.
Qed.

(* byte-string level: encode (decode b) = b for every 4-byte string that is not a signalling NaN *)
Theorem real32_bytes_roundtrip l le x : bytes l ->
  bytes_to_real32 l le = Some x ->
  is_snan32 (be_dec (if le then rev l else l)) = false ->
  real_to_bytes32 x le = Some l.
Proof.
  intros Hb H Hs. unfold bytes_to_real32 in H.
  destruct (Nat.eqb_spec (length l) 4) as [Hl|]; [|discriminate]. injection H as <-.
  set (l' := if le then rev l else l) in *.
  assert (Hb' : bytes l') by (unfold l'; destruct le; [apply bytes_rev|]; exact Hb).
  assert (Hl' : length l' = 4%nat) by (unfold l'; destruct le; [rewrite rev_length|]; exact Hl).
  assert (Hr : 0 <= be_dec l' < 2 ^ 32).
  { unfold be_dec. pose proof (le_dec_range (rev l') (bytes_rev _ Hb')) as R.
    rewrite rev_length, Hl' in R. exact R. }
  unfold real_to_bytes32. rewrite real32_roundtrip by assumption.
  rewrite <- Hl', be_enc_dec by exact Hb'.
  unfold l'. destruct le; [rewrite rev_involutive|]; reflexivity.
Qed.
