(* Lemmas about the W-band LO model (Model/SmbWLO.v, fixed code). *)
From DS Require Import Base.Prelude Model.SmbCommon Model.SmbWLO Proofs.SmbCommon.

Section WithOracle.
  Variable fl : list Z -> wfl.
  Variable cap : list Z -> option (list Z).

  (* a single command without '=' and ';' whose name (last character dropped) is a 0-ary method *)
  Lemma w_single0 d c k d' ans : ~ In SEMI c -> ~ In 61 c ->
    w_lookup (removelast c) = Some k -> (forall r, k <> WSet r) -> w_call0 cap d k = Some (d', ans) ->
    w_exec fl cap d c = (d', OReply ans).
  Proof.
    intros Hs He Hk Hns Hc. unfold w_exec. rewrite nosemi_split by exact Hs. cbn [w_cmds].
    assert (E : split_on 61 c = [c]).
    { unfold split_on. apply split_by_nosep. intros x Hx. destruct (61 =? x) eqn:E; [|reflexivity].
      apply Z.eqb_eq in E. subst x. contradiction. }
    rewrite E, Hk. destruct k; try (rewrite Hc; rewrite app_nil_l; cbn [nonempty]; rewrite join_semi_single; reflexivity).
    exfalso. exact (Hns r eq_refl).
  Qed.

  Definition w_query_cmd (q : list Z) : option wcmd := w_lookup (removelast q).

  Lemma w_query_cmds q : In q w_queries -> exists k, w_query_cmd q = Some k /\ (forall r, k <> WSet r) /\
    ~ In SEMI q /\ ~ In 61 q /\ no_lf q.
  Proof.
    unfold w_queries. cbn [map]. intros H.
    repeat (destruct H as [<-|H]; [eexists; split; [vm_compute; reflexivity|];
      split; [intros r; discriminate|]; repeat split; vm_compute; intuition discriminate|]).
    destruct H.
  Qed.

  (* every 0-ary getter answers when the capitalize oracle is total, and leaves the device alone *)
  Lemma w_call0_get d k : (forall s, cap s <> None) -> (forall r, k <> WSet r) -> k <> WEnable -> k <> WDisable ->
    exists ans, w_call0 cap d k = Some (d, ans).
  Proof.
    intros Hcap Hns He Hd. destruct k as [| |r|r| | | | |]; try congruence; try (eexists; reflexivity).
    destruct r; try (eexists; reflexivity); cbn.
      + destruct (cap (wtext (wrh d))) eqn:E; [eexists; reflexivity | exfalso; exact (Hcap _ E)].
      + destruct (cap (wtext (wrv d))) eqn:E; [eexists; reflexivity | exfalso; exact (Hcap _ E)].
  Qed.

  Lemma w_query d q : (forall s, cap s <> None) -> In q w_queries ->
    exists k ans, w_query_cmd q = Some k /\ w_call0 cap d k = Some (d, ans) /\
                  w_exec fl cap d q = (d, OReply ans).
  Proof.
    intros Hcap Hq. destruct (w_query_cmds q Hq) as (k & Hk & Hns & Hs & He & _).
    assert (Hget : k <> WEnable /\ k <> WDisable).
    { revert Hk. unfold w_queries in Hq. cbn [map] in Hq.
      repeat (destruct Hq as [<-|Hq]; [vm_compute; intros E; injection E as <-; split; discriminate|]).
      destruct Hq. }
    destruct (w_call0_get d k Hcap Hns (proj1 Hget) (proj2 Hget)) as [ans Ha].
    exists k, ans. repeat split; auto. eapply w_single0; eauto.
  Qed.

  Lemma w_answered s q : (forall x, cap x <> None) -> w_idle s = true -> In q w_queries ->
    exists ans, w_run fl cap s (q ++ [LF]) = (s, line_outs q (OReply ans)).
  Proof.
    intros Hcap Hi Hq. destruct (w_query (ldev s) q Hcap Hq) as (k & ans & _ & _ & E).
    destruct (w_query_cmds q Hq) as (_ & _ & _ & _ & _ & Hlf).
    exists ans. unfold w_run. rewrite lrun_line_idle by assumption. rewrite E. cbn [fst snd].
    rewrite <- (lidle_msg s Hi). reflexivity.
  Qed.

  (* ---------------------------------------------------------------- writes *)
  Definition plain_token (tok : list Z) : Prop := forall x, In x tok -> x <> SEMI /\ x <> 61.

  Lemma w_set_names_plain r : ~ In SEMI (w_set_name r) /\ ~ In 61 (w_set_name r) /\
    w_lookup (w_set_name r) = Some (WSet r).
  Proof. destruct r; repeat split; vm_compute; intuition discriminate. Qed.

  (* for EVERY parameter text without ';' and '=': the line stores float(tok) if it parses, else
     the text without its last character, and is acknowledged *)
  Lemma w_write_exec d r tok : plain_token tok ->
    w_exec fl cap d (w_write r tok) =
      match fl tok with
      | WFloat rp => (wset d r (WF rp), OReply (ACK ++ CRLF))
      | WNotFloat => (wset d r (WS (removelast tok)), OReply (ACK ++ CRLF))
      | WMissing => (d, ONoOracle)
      end.
  Proof.
    intros Ht. destruct (w_set_names_plain r) as (Hs & He & Hl). unfold w_exec, w_write.
    rewrite nosemi_split.
    2:{ intros Hin. apply in_app_or in Hin as [Hin|Hin]; [exact (Hs Hin)|].
        cbn in Hin. destruct Hin as [E|Hin]; [discriminate|]. apply Ht in Hin. tauto. }
    cbn [w_cmds]. unfold split_on. cbn [app]. rewrite split_by_app_sep.
    2:{ intros x Hx. destruct (61 =? x) eqn:E; [|reflexivity]. apply Z.eqb_eq in E. subst x. contradiction. }
    2:{ reflexivity. }
    rewrite split_by_nosep.
    2:{ intros x Hx. destruct (61 =? x) eqn:E; [|reflexivity]. apply Z.eqb_eq in E. subst x. apply Ht in Hx. tauto. }
    rewrite Hl. destruct (fl tok); try reflexivity;
      rewrite app_nil_l; cbn [w_cmds nonempty]; rewrite join_semi_single; reflexivity.
  Qed.

  Lemma wget_wset_same d r v : wget (wset d r v) r = v.
  Proof. destruct r; reflexivity. Qed.

  Lemma wget_wset_other d r r' v : r <> r' -> wget (wset d r v) r' = wget d r'.
  Proof. destruct r, r'; try reflexivity; congruence. Qed.
End WithOracle.
