(* C02, active-surface part at BYTE level: after ANY byte history (accepted commands, refused
   commands, garbage, truncated or rejected frames) followed by the protocol's resynchronisation
   sequence, each of the four read-only queries addressed to a unit of the line is framed as on a
   fresh parser and answered exactly once by a well-formed reply.  The byte-wise framer and dispatch
   are those of the line model of C03/C11 (Model/AslLine.v, tag Asl; theorem resync_then_command),
   instantiated with the USD model through [usd_sem] (Proofs/UsdLineLink.v). *)
From DS Require Import Base.Prelude Base.Bits Model.Utils Model.UsdModel Spec.UsdSpec.
From DS Require Import Proofs.UtilsProofs Proofs.UsdMotion Proofs.UsdInv Proofs.UsdRefine Proofs.UsdHistory.
From DS Require Import Proofs.UsdCatalogue.
From DS Require Import Model.AslLine Proofs.AslFrameProofs Proofs.AslLineProofs Proofs.AslReplyProofs.
From DS Require Import Proofs.UsdLineLink.

Notation alrun := (AslLine.lrun usd_sem usd_delay).
Notation alstep := (AslLine.lstep usd_sem usd_delay).
Notation aexec := (AslLine.exec usd_sem usd_delay true true).

(* the number of units never changes *)
Lemma exec_length min drv q : length (fst (aexec min drv q)) = length drv.
Proof.
  destruct q as [start code ps|start idx code ps].
  - rewrite exec_broadcast. cbn [fst]. apply map_length.
  - unfold AslLine.exec.
    destruct (negb (known code)); [reflexivity|].
    destruct (true && negb ((0 <=? idx - min) && (idx - min <? Z.of_nat (length drv)))); [reflexivity|].
    destruct (AslLine.decode code ps) as [| |c k]; try reflexivity.
    + destruct (py_nth drv (idx - min)); reflexivity.
    + destruct (py_pos drv (idx - min)) as [p|]; [|reflexivity].
      destruct (nth_error drv p) as [u|]; [|reflexivity].
      destruct (usd_sem u c) as [u' r]. destruct (build k start idx r); cbn [fst]; apply upd_length.
Qed.

Definition good_line (n : nat) (l : line) : Prop :=
  line_ok Inv l /\ freach (l_f l) /\ length (l_drv l) = n.

Lemma alstep_good n l b : byte b -> good_line n l -> good_line n (fst (alstep l b)).
Proof.
  intros Hb (Hok & Hr & Hl). split; [apply lstep_keeps_ok; [exact usd_inv_kept|exact Hok|exact Hb]|].
  pose proof (lrun_shape usd_sem usd_delay l [b]) as [_ Hs]. cbn [AslLine.lrun] in Hs.
  destruct (alstep l b) as [l1 o] eqn:E. cbn [fst] in *. split.
  - rewrite Hs. apply freach_run, Hr.
  - revert E. unfold AslLine.lstep, lstep_gen. destruct (fstep (l_f l) b) as [f' e].
    destruct e as [| |g|m]; try (intros [= <- _]; exact Hl).
    unfold AslLine.dispatch. destruct (parse_msg m) as [o'|q]; [intros [= <- _]; exact Hl|].
    pose proof (exec_length (l_min l) (l_drv l) q) as He.
    destruct (aexec (l_min l) (l_drv l) q) as [drv' o']. intros [= <- _]. cbn [l_drv fst] in *. lia.
Qed.

Lemma alrun_good n bs : forall l, bytes bs -> good_line n l -> good_line n (fst (alrun l bs)).
Proof.
  induction bs as [|b bs IH]; intros l Hb Hg; [exact Hg|].
  inversion Hb as [|? ? Hb1 Hb2]; subst. cbn [AslLine.lrun].
  pose proof (alstep_good n l b Hb1 Hg) as H1. destruct (alstep l b) as [l1 o]. cbn [fst] in H1.
  specialize (IH l1 Hb2 H1). destruct (alrun l1 bs) as [l2 os]. exact IH.
Qed.

(* one query to a unit of the line, in the model of the handlers of C11 *)
Lemma getter_unit_exec start idx code u : is_header start = true -> 0 <= idx <= 31 -> Inv u ->
  In code [16; 18; 19; 20] ->
  unit_exec usd_sem usd_delay start idx code [] u =
  (u, if delay_multiplier u =? 255 then OTrue
      else OReply (spec_frame start idx (payload_of code u))).
Proof.
  intros Hs Hi H Hc.
  assert (Hs0 : 0 <= start) by (unfold is_header in Hs; lia).
  assert (Hidx : 0 <= idx < 32) by lia.
  unfold unit_exec, usd_delay.
  destruct Hc as [<-|[<-|[<-|[<-|[]]]]]; cbn [known codes existsb Z.eqb Pos.eqb orb negb AslLine.decode];
    unfold usd_sem; cbn [c_code c_args Z.eqb Pos.eqb build].
  - rewrite (inv_ver u H). cbv zeta. change (zsum [1; 3] + 15) with 19.
    change ((0 <=? 19) && (19 <? 1114112)) with true. cbv iota beta.
    change (close (reply_head start idx 1 ++ [19])) with (data_frame start (Z.of_nat (length [19])) idx [19]).
    rewrite frame_refines; [reflexivity|assumption|assumption|repeat constructor; lia|cbn; auto].
  - cbn [as_int]. rewrite position_payload by apply (inv_pos u H).
    change (close (reply_head start idx 4 ++ be32 (current_position u)))
      with (data_frame start (Z.of_nat (length (be32 (current_position u)))) idx (be32 (current_position u))).
    rewrite frame_refines; [reflexivity|assumption|assumption|apply be32_nonneg|cbn; auto].
  - rewrite status_refines by exact H.
    assert (Hl : length (status_bytes u) = 3%nat).
    { unfold status_bytes. destruct (io_dir u) as [[? ?] ?], (io_val u) as [[? ?] ?]. reflexivity. }
    change (close (reply_head start idx 3 ++ status_bytes u))
      with (data_frame start 3 idx (status_bytes u)).
    change 3 with (Z.of_nat 3). rewrite <- Hl.
    rewrite frame_refines; [reflexivity|assumption|assumption|apply status_bytes_nonneg, H|rewrite Hl; cbn; auto].
  - cbn [as_int]. rewrite (inv_drv u H). change (int_to_bytes 32 1 false) with (Some [32]). cbv iota beta.
    change (close (reply_head start idx 1 ++ [32])) with (data_frame start (Z.of_nat (length [32])) idx [32]).
    rewrite frame_refines; [reflexivity|assumption|assumption|repeat constructor; lia|cbn; auto].
Qed.

(* after any byte history and the resynchronisation sequence every query is answered exactly once *)
Theorem bytes_then_query min drv hist resync start idx code :
  Forall Inv drv -> bytes hist -> bytes resync -> Forall non_header resync ->
  (10 <= length resync)%nat -> is_header start = true -> In code [16; 18; 19; 20] ->
  0 <= idx <= 31 -> 0 <= idx - min < Z.of_nat (length drv) ->
  exists drv1 os u o,
    alrun (mkL min drv finit) (hist ++ resync) = (mkL min drv1 finit, os) /\
    nth_error drv1 (Z.to_nat (idx - min)) = Some u /\ Inv u /\
    alrun (mkL min drv finit) ((hist ++ resync) ++ frame_of (QUni start idx code [])) =
      (mkL min drv1 finit, os ++ [OTrue; OTrue; OTrue; o]) /\
    (if delay_multiplier u =? 255 then o = OTrue
     else exists r, o = OReply r /\ answer_frame start idx (payload_of code u) r).
Proof.
  intros Hinv Hh Hrs Hnh Hlen Hs Hc Hi Hon.
  set (l0 := mkL min drv finit).
  assert (G0 : good_line (length drv) l0).
  { split; [apply line_ok_init, Hinv|]. split; [exists []; reflexivity|reflexivity]. }
  pose proof (alrun_good (length drv) hist l0 Hh G0) as G1.
  pose proof (lrun_shape usd_sem usd_delay l0 hist) as [Hm1 _].
  destruct (alrun l0 hist) as [l1 os1] eqn:E1. cbn [fst] in *. cbn [l_min l0] in Hm1.
  destruct G1 as (Hok1 & Hr1 & Hl1).
  assert (Hw : wf_req (QUni start idx code [])) by (cbn; split; [assumption|split; [lia|lia]]).
  assert (Hb : bytes_req (QUni start idx code [])).
  { cbn. split; [unfold is_header in Hs; unfold byte; lia|]. split; [|constructor].
    destruct Hc as [<-|[<-|[<-|[<-|[]]]]]; unfold byte; lia. }
  destruct (resync_then_command usd_sem usd_delay l1 resync (QUni start idx code []) Hr1 Hnh Hlen Hw Hb)
    as (drv1 & os2 & E2 & E3).
  rewrite Hm1 in *.
  (* the line after history + resync *)
  assert (G2 : good_line (length drv) (fst (alrun l1 resync)))
    by (apply alrun_good; [exact Hrs|split; [exact Hok1|split; [exact Hr1|exact Hl1]]]).
  rewrite E2 in G2. cbn [fst] in G2. destruct G2 as ((_ & _ & Hinv2) & _ & Hl2). cbn [l_drv] in *.
  assert (Hon1 : on_line min drv1 idx) by (unfold on_line; lia).
  destruct (on_line_nth min drv1 idx Hon1) as [u Hu].
  assert (HIu : Inv u) by (rewrite Forall_forall in Hinv2; apply Hinv2; eapply nth_error_In; exact Hu).
  rewrite (exec_unicast usd_sem usd_delay min drv1 start idx code [] u Hon1 Hu) in E3.
  rewrite (getter_unit_exec start idx code u Hs Hi HIu Hc) in E3. cbn [fst snd] in E3.
  rewrite (upd_same _ _ _ Hu) in E3.
  exists drv1, (os1 ++ os2), u.
  eexists. split; [|split; [exact Hu|split; [exact HIu|split]]].
  - unfold l0. rewrite (lrun_app usd_sem usd_delay hist). fold l0. rewrite E1, E2. reflexivity.
  - unfold l0. rewrite <- app_assoc. rewrite (lrun_app usd_sem usd_delay hist). fold l0. rewrite E1, E3.
    cbn [frame_of close app length Nat.sub repeat]. rewrite <- app_assoc. reflexivity.
  - destruct (delay_multiplier u =? 255); [reflexivity|]. eexists. split; [reflexivity|].
    destruct (payload_ok code u HIu Hc) as [Hp Hl].
    apply spec_frame_answer; auto.
    + unfold is_header in Hs. destruct (Z.eqb_spec start 250); [left; auto|right; left; lia].
    + lia.
    + rewrite Hl. destruct (code =? 18), (code =? 19); lia.
Qed.
