(* MJD sub-day part (C09), over the reals: the microsecond count recovered by mjd_to_date differs
   from the original by at most 1, GIVEN the four named facts about IEEE-754 binary64 arithmetic and
   Python's repr/float that the code relies on.  They are premises of the theorem (not axioms): the
   theorem isolates exactly what is assumed about the float rounding; the correspondence suite
   (bit-exact primitive-float model of mjd / mjd_to_date) and the oracle check the conclusion on the
   real functions.  Dates 1900..2200 have MJD day numbers 15020..88069 < 2^17, where one ulp of a
   double is at most 2^-36 day = 1.257 us. *)
From Coq Require Import Reals Lra ZArith Lia.
Open Scope R_scope.

Definition day_us : R := 86400000000.
Definition half_ulp : R := / 2 * / 2 ^ 36.     (* in days *)

Lemma Rabs_le_bounds x a : Rabs x <= a -> - a <= x <= a.
Proof. unfold Rabs. destruct (Rcase_abs x); lra. Qed.

Theorem mjd_us_within_one :
  forall (D us micro : Z) (mjdv S x : R),
  (* the value returned by mjd(): exact day number plus day fraction, up to the rounding of the
     quotient us / 86400000000. (relative 2^-53, far below 2^-50 day) and one rounding of the sum *)
  Rabs (mjdv - (IZR D + IZR us / day_us)) <= half_ulp + / 2 ^ 50 ->
  (* repr() prints a decimal S that reads back as the same double: within half an ulp of it *)
  Rabs (S - mjdv) <= half_ulp ->
  (* '0.' + fraction digits is S - D exactly; float() and the product with 86400000000 are each
     correctly rounded: absolute error far below a thousandth of a microsecond *)
  Rabs (x - (S - IZR D) * day_us) <= / 1000 ->
  (* round(): nearest integer *)
  Rabs (IZR micro - x) <= / 2 ->
  (Z.abs (micro - us) <= 1)%Z.
Proof.
  intros D us micro mjdv S x H1 H2 H3 H4.
  unfold half_ulp, day_us in *.
  apply Rabs_le_bounds in H1. apply Rabs_le_bounds in H2. apply Rabs_le_bounds in H3. apply Rabs_le_bounds in H4.
  assert (E : IZR us / 86400000000 * 86400000000 = IZR us) by (field).
  assert (B : -2 < IZR micro - IZR us < 2).
  { set (q := IZR us / 86400000000) in *.
    assert (Hq : q * 86400000000 = IZR us) by exact E.
    assert (P36 : / 2 ^ 36 * 86400000000 <= 1.258) by (simpl; lra).
    assert (P50 : / 2 ^ 50 * 86400000000 <= 0.0001) by (simpl; lra).
    assert (N36 : 0 <= / 2 ^ 36) by (left; apply Rinv_0_lt_compat; apply pow_lt; lra).
    assert (N50 : 0 <= / 2 ^ 50) by (left; apply Rinv_0_lt_compat; apply pow_lt; lra).
    (* (S - D) * day_us - us = ((S - mjdv) + (mjdv - (D + q))) * day_us *)
    assert (T : (S - IZR D) * 86400000000 - IZR us
                = ((S - mjdv) + (mjdv - (IZR D + q))) * 86400000000) by (rewrite <- Hq; ring).
    set (a := S - mjdv) in *. set (b := mjdv - (IZR D + q)) in *.
    assert (Ha : - (0.629 + 0) <= a * 86400000000 <= 0.629) by nra.
    assert (Hb : - 0.6291 <= b * 86400000000 <= 0.6291) by nra.
    assert (Hab : -1.2581 <= (a + b) * 86400000000 <= 1.2581) by nra.
    lra. }
  destruct B as [B1 B2].
  rewrite <- minus_IZR in B1, B2.
  apply lt_IZR in B1. apply lt_IZR in B2. lia.
Qed.

(* the premises are satisfiable (exact arithmetic is the trivial instance) *)
Example mjd_us_premises_satisfiable :
  let D := 58138%Z in let us := 37845100000%Z in
  let mjdv := IZR D + IZR us / day_us in
  Rabs (mjdv - (IZR D + IZR us / day_us)) <= half_ulp + / 2 ^ 50 /\
  Rabs (mjdv - mjdv) <= half_ulp /\
  Rabs ((mjdv - IZR D) * day_us - (mjdv - IZR D) * day_us) <= / 1000 /\
  Rabs (IZR us - (mjdv - IZR D) * day_us) <= / 2.
Proof.
  cbv zeta. unfold half_ulp, day_us.
  assert (N36 : 0 < / 2 ^ 36) by (apply Rinv_0_lt_compat; apply pow_lt; lra).
  assert (N50 : 0 < / 2 ^ 50) by (apply Rinv_0_lt_compat; apply pow_lt; lra).
  repeat split.
  - replace (58138 + 37845100000 / 86400000000 - (58138 + 37845100000 / 86400000000)) with 0 by ring.
    rewrite Rabs_R0. lra.
  - replace (58138 + 37845100000 / 86400000000 - (58138 + 37845100000 / 86400000000)) with 0 by ring.
    rewrite Rabs_R0. lra.
  - match goal with |- Rabs ?t <= _ => replace t with 0 by ring end. rewrite Rabs_R0. lra.
  - match goal with |- Rabs ?t <= _ => replace t with 0 by field end. rewrite Rabs_R0. lra.
Qed.
