(* IFD_14_channels: device invariant, specification of one executed line, byte-level statements. *)
From DS Require Import Base.Prelude Model.SmaCommon Model.SmaIfd14 Proofs.SmaBase Proofs.SmaFramer.

Definition mult_ok (v : Z) : Prop := 0 <= v <= 127.

Definition i14_inv (d : i14_dev) : Prop := length (chans d) = 96%nat /\ Forall mult_ok (chans d).

Lemma Forall_repeat' {A} (P : A -> Prop) x n : P x -> Forall P (repeat x n).
Proof. intros H. induction n; cbn; constructor; auto. Qed.

Lemma i14_inv0 : i14_inv i14_dev0.
Proof. split; [reflexivity|]. apply Forall_repeat'. unfold mult_ok, i14_max_mult. lia. Qed.

Definition i14_wf_reply (r : list Z) : Prop :=
  r = i14_version \/ r = i14_unknown \/ r = i14_swt_reply true \/ r = i14_swt_reply false \/
  exists v, mult_ok v /\ r = i14_att_reply v.

(* the command word of an accepted set request *)
Definition i14_set_cmd (m : list Z) : option (list Z) :=
  match i14_parse m with RSet (c :: _) => Some c | _ => None end.

Definition i14_post (m : list Z) (d d' : i14_dev) (o : outcome) : Prop :=
  i14_inv d' /\
  (o <> OEmpty -> o <> ONone -> d' = d) /\
  (o = OEmpty -> (i14_set_cmd m = Some tok_ATT /\ switched d' = switched d) \/
                 (i14_set_cmd m = Some tok_SWT /\ chans d' = chans d)) /\
  (forall r, o = OReply r -> i14_wf_reply r) /\
  o <> OTrue /\ o <> OFalse.

Ltac i14_same Hi := solve [split; [exact Hi|]; split; [reflexivity|]; split; [discriminate|];
                           split; [discriminate|]; split; discriminate].

Lemma zlist_eqb_true a b : zlist_eqb a b = true -> a = b.
Proof. apply zlist_eqb_eq. Qed.

Lemma i14_exec_post d m d' o : i14_inv d -> i14_exec d m = (d', o) -> i14_post m d d' o.
Proof.
  intros Hi H. unfold i14_exec in H. unfold i14_post, i14_set_cmd.
  destruct (i14_parse m) as [toks|toks| | |]; cbn [i14_apply] in H.
  - (* set *) unfold i14_set in H.
    destruct toks as [|cmd [|chn [|val [|x r]]]]; try (injection H as <- <-; i14_same Hi).
    destruct (zlist_eqb cmd tok_ATT || zlist_eqb cmd tok_SWT) eqn:Ec; cbn [negb] in H;
      [|injection H as <- <-; i14_same Hi].
    destruct (parse_int chn) as [ch|]; [|injection H as <- <-; i14_same Hi].
    destruct (chan_ok ch) eqn:Eok; cbn [negb] in H; [|injection H as <- <-; i14_same Hi].
    destruct (parse_int val) as [v|]; [|injection H as <- <-; i14_same Hi].
    destruct (zlist_eqb cmd tok_ATT) eqn:Ea.
    + apply zlist_eqb_true in Ea. subst cmd.
      destruct ((v <? 0) || (i14_max_mult <=? v)) eqn:Ev; [injection H as <- <-; i14_same Hi|].
      destruct (set_nth (Z.to_nat ch) v (chans d)) as [l|] eqn:El; [|injection H as <- <-; i14_same Hi].
      injection H as <- <-. destruct Hi as [Hl Hf].
      split; [|split; [intros; congruence|]; split; [left; auto|]; split; [discriminate|];
                split; discriminate].
      split; cbn [chans].
      * rewrite (set_nth_length _ _ _ _ El). exact Hl.
      * eapply set_nth_Forall; eauto. unfold mult_ok, i14_max_mult in *. lia.
    + cbn [orb] in Ec. apply zlist_eqb_true in Ec. subst cmd.
      destruct (v =? 0); [|destruct (v =? 1)]; injection H as <- <-; try i14_same Hi;
        (split; [exact Hi|]; split; [intros; congruence|]; split; [right; auto|];
         split; [discriminate|]; split; discriminate).
  - (* get *) unfold i14_get in H.
    destruct toks as [|cmd [|chn [|x r]]]; try (injection H as <- <-; i14_same Hi).
    destruct (parse_int chn) as [ch|]; [|injection H as <- <-; i14_same Hi].
    destruct (chan_ok ch) eqn:Eok; cbn [negb] in H; [|injection H as <- <-; i14_same Hi].
    destruct (zlist_eqb cmd tok_ATT).
    + destruct (nth_error (chans d) (Z.to_nat ch)) as [v|] eqn:En; injection H as <- <-;
        [|i14_same Hi].
      split; [exact Hi|]. split; [reflexivity|]. split; [discriminate|].
      split; [|split; discriminate]. intros r Hr. injection Hr as <-.
      right. right. right. right. exists v. split; [|reflexivity].
      destruct Hi as [_ Hf]. rewrite Forall_forall in Hf. apply Hf. eapply nth_error_In; eauto.
    + destruct (zlist_eqb cmd tok_SWT); injection H as <- <-; [|i14_same Hi].
      split; [exact Hi|]. split; [reflexivity|]. split; [discriminate|].
      split; [|split; discriminate]. intros r Hr. injection Hr as <-.
      destruct (switched d); [right; right; left|right; right; right; left]; reflexivity.
  - injection H as <- <-. split; [exact Hi|]. split; [reflexivity|]. split; [discriminate|].
    split; [|split; discriminate]. intros r Hr. injection Hr as <-. left. reflexivity.
  - injection H as <- <-. split; [exact i14_inv0|]. split; [intros; congruence|].
    split; [discriminate|]. split; [discriminate|]. split; discriminate.
  - injection H as <- <-. split; [exact Hi|]. split; [reflexivity|]. split; [discriminate|].
    split; [|split; discriminate]. intros r Hr. injection Hr as <-. right. left. reflexivity.
Qed.

(* ---- framer instance ---- *)
Lemma i14_fcfg_max : 2 <= maxlen i14_fcfg.
Proof. cbn. lia. Qed.
Lemma i14_tail_not_hdr b : is_tail i14_fcfg b = true -> is_hdr i14_fcfg b = false.
Proof. cbn. unfold i14_is_tail, i14_is_hdr. lia. Qed.

Definition i14_sinv (s : i14_state) : Prop := sbounded i14_fcfg s /\ i14_inv (dev s).
Lemma i14_init_sinv : i14_sinv i14_init.
Proof. split; [unfold sbounded, fbounded; cbn; lia|exact i14_inv0]. Qed.

Definition i14_executed (s : i14_state) (b : Z) : option (list Z) :=
  match snd (fstep i14_fcfg (buf s) b) with EExec m => Some m | EOut _ => None end.

Lemma i14_step_cases s b :
  (i14_executed s b = None /\ dev (fst (i14_step s b)) = dev s /\
   (snd (i14_step s b) = OTrue \/ snd (i14_step s b) = OFalse \/ snd (i14_step s b) = OValueError)) \/
  (exists m, i14_executed s b = Some m /\
             i14_exec (dev s) m = (dev (fst (i14_step s b)), snd (i14_step s b))).
Proof.
  unfold i14_executed, i14_step, sstep.
  destruct (fstep i14_fcfg (buf s) b) as [bf [o1|m]] eqn:Ef; cbn [fst snd dev].
  - left. repeat split. unfold fstep in Ef.
    repeat match type of Ef with (if ?c then _ else _) = _ => destruct c end;
      try discriminate; injection Ef as _ <-; auto.
  - right. exists m. split; [reflexivity|]. destruct (i14_exec (dev s) m) as [d1 o1]. reflexivity.
Qed.

Lemma i14_step_sinv s b : i14_sinv s -> i14_sinv (fst (i14_step s b)).
Proof.
  intros [Hb Hi]. split.
  - apply (sstep_bounded i14_fcfg i14_fcfg_max i14_tail_not_hdr i14_exec s b Hb).
  - destruct (i14_step_cases s b) as [(_ & -> & _)|(m & _ & He)]; [exact Hi|].
    exact (proj1 (i14_exec_post _ _ _ _ Hi He)).
Qed.

Lemma i14_run_sinv bs : forall s, i14_sinv s -> i14_sinv (fst (i14_run s bs)).
Proof.
  induction bs as [|b r IH]; intros s H; cbn.
  - exact H.
  - unfold i14_run. cbn [srun]. pose proof (i14_step_sinv s b H) as H1. unfold i14_step in H1.
    destruct (sstep (fstep i14_fcfg) i14_exec s b) as [s1 o]. cbn [fst] in H1.
    specialize (IH s1 H1). unfold i14_run in IH.
    destruct (srun (fstep i14_fcfg) i14_exec s1 r) as [s2 os]. exact IH.
Qed.

Definition i14_reachable (s : i14_state) : Prop := exists bs, s = fst (i14_run i14_init bs).
Lemma i14_reachable_sinv s : i14_reachable s -> i14_sinv s.
Proof. intros [bs ->]. apply i14_run_sinv. exact i14_init_sinv. Qed.

(* ---- C04 ---- *)
Theorem i14_replies_wf s b r : i14_reachable s -> snd (i14_step s b) = OReply r -> i14_wf_reply r.
Proof.
  intros Hr H. apply i14_reachable_sinv in Hr. destruct Hr as [_ Hi].
  destruct (i14_step_cases s b) as [(_ & _ & [H1|[H1|H1]])|(m & _ & He)]; try congruence.
  destruct (i14_exec_post _ _ _ _ Hi He) as (_ & _ & _ & Hw & _). apply Hw. exact H.
Qed.

(* shape: '#' first and a single '\n' at the end, ASCII only — except the identification string,
   which the simulator sends bare (its own convention) *)
Definition i14_shape_okb (r : list Z) : bool :=
  zlist_eqb r i14_version ||
  (match r with 35 :: _ => true | _ => false end && (last r 0 =? 10) &&
   (Z.of_nat (length (filter (Z.eqb 10) r)) =? 1) && forallb (fun c => (10 <=? c) && (c <? 127)) r).

Theorem i14_wf_reply_shape r : i14_wf_reply r -> i14_shape_okb r = true.
Proof.
  intros [->|[->|[->|[->|(v & Hv & ->)]]]]; try (vm_compute; reflexivity).
  apply (range_sweep (fun v => i14_shape_okb (i14_att_reply v)) 128); [vm_compute; reflexivity|].
  unfold mult_ok in Hv. lia.
Qed.

(* ---- C05 ---- *)
(* a step whose outcome is neither '' (accepted set) nor None (the RST command) leaves the registers unchanged *)
Theorem i14_refused_unchanged s b :
  i14_reachable s -> snd (i14_step s b) <> OEmpty -> snd (i14_step s b) <> ONone ->
  dev (fst (i14_step s b)) = dev s.
Proof.
  intros Hr H1 H2. apply i14_reachable_sinv in Hr. destruct Hr as [_ Hi].
  destruct (i14_step_cases s b) as [(_ & H & _)|(m & _ & He)]; [exact H|].
  destruct (i14_exec_post _ _ _ _ Hi He) as (_ & Hsame & _). apply Hsame; assumption.
Qed.

(* an accepted set of command word c, or a reset *)
Definition i14_writes (c : list Z) (s : i14_state) (b : Z) : Prop :=
  snd (i14_step s b) = ONone \/
  (snd (i14_step s b) = OEmpty /\ exists m, i14_executed s b = Some m /\ i14_set_cmd m = Some c).

Fixpoint i14_quiet (c : list Z) (s : i14_state) (h : list Z) : Prop :=
  match h with
  | [] => True
  | b :: r => ~ i14_writes c s b /\ i14_quiet c (fst (i14_step s b)) r
  end.

Lemma outcome_dec_empty o : o = OEmpty \/ o <> OEmpty.
Proof. destruct o; auto; right; discriminate. Qed.
Lemma outcome_dec_none o : o = ONone \/ o <> ONone.
Proof. destruct o; auto; right; discriminate. Qed.

Lemma i14_step_frame s b : i14_sinv s ->
  (~ i14_writes tok_ATT s b -> chans (dev (fst (i14_step s b))) = chans (dev s)) /\
  (~ i14_writes tok_SWT s b -> switched (dev (fst (i14_step s b))) = switched (dev s)).
Proof.
  intros [_ Hi]. unfold i14_writes.
  destruct (i14_step_cases s b) as [(_ & -> & _)|(m & Hm & He)]; [auto|].
  destruct (i14_exec_post _ _ _ _ Hi He) as (_ & Hsame & Hset & _).
  destruct (outcome_dec_none (snd (i14_step s b))) as [Hn|Hn]; [split; intros Hq; exfalso; apply Hq; auto|].
  destruct (outcome_dec_empty (snd (i14_step s b))) as [Hemp|Hemp].
  - destruct (Hset Hemp) as [[Hc Hsw]|[Hc Hch]]; split; intros Hq; auto.
    + exfalso. apply Hq. right. split; auto. exists m. auto.
    + exfalso. apply Hq. right. split; auto. exists m. auto.
  - rewrite (Hsame Hemp Hn). auto.
Qed.

Lemma i14_quiet_att h : forall s, i14_sinv s -> i14_quiet tok_ATT s h ->
  chans (dev (fst (i14_run s h))) = chans (dev s).
Proof.
  induction h as [|b r IH]; intros s Hs Hq; cbn; [reflexivity|].
  destruct Hq as [Hq1 Hq2].
  pose proof (proj1 (i14_step_frame s b Hs) Hq1) as E1.
  pose proof (i14_step_sinv s b Hs) as Hs1.
  unfold i14_run. cbn [srun]. unfold i14_step in *.
  destruct (sstep (fstep i14_fcfg) i14_exec s b) as [s1 o]. cbn [fst] in *.
  pose proof (IH s1 Hs1 Hq2) as F1. unfold i14_run in F1.
  destruct (srun (fstep i14_fcfg) i14_exec s1 r) as [s2 os]. cbn [fst] in *. congruence.
Qed.

Lemma i14_quiet_swt h : forall s, i14_sinv s -> i14_quiet tok_SWT s h ->
  switched (dev (fst (i14_run s h))) = switched (dev s).
Proof.
  induction h as [|b r IH]; intros s Hs Hq; cbn; [reflexivity|].
  destruct Hq as [Hq1 Hq2].
  pose proof (proj2 (i14_step_frame s b Hs) Hq1) as E1.
  pose proof (i14_step_sinv s b Hs) as Hs1.
  unfold i14_run. cbn [srun]. unfold i14_step in *.
  destruct (sstep (fstep i14_fcfg) i14_exec s b) as [s1 o]. cbn [fst] in *.
  pose proof (IH s1 Hs1 Hq2) as F1. unfold i14_run in F1.
  destruct (srun (fstep i14_fcfg) i14_exec s1 r) as [s2 os]. cbn [fst] in *. congruence.
Qed.

(* canonical lines (with header, without terminator) *)
Definition i14_line_set (c : list Z) (ch v : Z) : list Z := [35] ++ c ++ [32] ++ render_int ch ++ [32] ++ render_int v.
Definition i14_line_get (c : list Z) (ch : Z) : list Z := [35] ++ c ++ [32] ++ render_int ch ++ [63].
Definition i14_line_idn : list Z := 35 :: msg_IDN.

Definition i14_line_okb (l : list Z) : bool :=
  match l with
  | [] => false
  | h :: r => i14_is_hdr h && forallb (fun b => negb (i14_is_tail b)) r && (Z.of_nat (length l) <? 12)
  end.

Lemma i14_line_okb_ok l : i14_line_okb l = true -> line_ok i14_fcfg l.
Proof.
  destruct l as [|h r]; cbn; [discriminate|]. intros H.
  apply andb_true_iff in H as [H H3]. apply andb_true_iff in H as [H1 H2].
  repeat split; auto.
  - apply Forall_forall. intros x Hx. rewrite forallb_forall in H2. specialize (H2 x Hx).
    destruct (i14_is_tail x); [discriminate|reflexivity].
  - lia.
Qed.

Definition toks_eqb := list_eqb zlist_eqb.
Lemma toks_eqb_eq a b : toks_eqb a b = true -> a = b.
Proof.
  revert b. induction a as [|x a IH]; intros [|y b] H; cbn in H; try discriminate; [reflexivity|].
  apply andb_true_iff in H as [H1 H2]. apply zlist_eqb_eq in H1. f_equal; auto.
Qed.

Definition req_eqb (a b : i14_req) : bool :=
  match a, b with
  | RSet x, RSet y | RGet x, RGet y => toks_eqb x y
  | RIdn, RIdn | RRst, RRst | RUnknown, RUnknown => true
  | _, _ => false
  end.
Lemma req_eqb_eq a b : req_eqb a b = true -> a = b.
Proof. destruct a, b; cbn; try discriminate; intros H; try reflexivity; f_equal; apply toks_eqb_eq; auto. Qed.

Definition i14_line_check (l : list Z) (r : i14_req) : bool :=
  i14_line_okb l && req_eqb (i14_parse (tl l)) r.

Lemma i14_run_line s l r :
  sidle s = true -> i14_line_check l r = true ->
  i14_run s (l ++ [10]) =
  let (d', o) := i14_apply (dev s) r in ({| buf := []; dev := d' |}, repeat OTrue (length l) ++ [o]).
Proof.
  intros Hi Hc. apply andb_true_iff in Hc as [H1 H2]. apply req_eqb_eq in H2.
  pose proof (i14_line_okb_ok _ H1) as Hok. unfold i14_run.
  rewrite (line_from_idle i14_fcfg i14_fcfg_max i14_tail_not_hdr i14_exec s l 10 Hi Hok eq_refl).
  assert (Hb : body i14_fcfg (l ++ [10]) = tl l).
  { cbn. destruct l as [|h t]; [discriminate|]. cbn. apply removelast_last. }
  rewrite Hb. unfold i14_exec. rewrite H2. reflexivity.
Qed.

Definition int_rt (z : Z) : bool := match parse_int (render_int z) with Some z' => z' =? z | None => false end.
Lemma int_rt_eq z : int_rt z = true -> parse_int (render_int z) = Some z.
Proof. unfold int_rt. destruct (parse_int (render_int z)); [|discriminate]. intros H. f_equal. lia. Qed.

Lemma i14_set_att_lines ch v : 0 <= ch < 96 -> 0 <= v < 127 ->
  i14_line_check (i14_line_set tok_ATT ch v) (RSet [tok_ATT; render_int ch; render_int v]) = true /\
  parse_int (render_int ch) = Some ch /\ parse_int (render_int v) = Some v.
Proof.
  intros Hc Hv.
  pose proof (range_sweep2 (fun ch v => i14_line_check (i14_line_set tok_ATT ch v)
                               (RSet [tok_ATT; render_int ch; render_int v]) && int_rt ch && int_rt v)
                96 127 ltac:(vm_compute; reflexivity) ch v ltac:(lia) ltac:(lia)) as H.
  cbv beta in H. apply andb_true_iff in H as [H H3]. apply andb_true_iff in H as [H1 H2].
  repeat split; auto using int_rt_eq.
Qed.

Lemma i14_set_swt_lines ch v : 0 <= ch < 96 -> 0 <= v < 2 ->
  i14_line_check (i14_line_set tok_SWT ch v) (RSet [tok_SWT; render_int ch; render_int v]) = true /\
  parse_int (render_int ch) = Some ch /\ parse_int (render_int v) = Some v.
Proof.
  intros Hc Hv.
  pose proof (range_sweep2 (fun ch v => i14_line_check (i14_line_set tok_SWT ch v)
                               (RSet [tok_SWT; render_int ch; render_int v]) && int_rt ch && int_rt v)
                96 2 ltac:(vm_compute; reflexivity) ch v ltac:(lia) ltac:(lia)) as H.
  cbv beta in H. apply andb_true_iff in H as [H H3]. apply andb_true_iff in H as [H1 H2].
  repeat split; auto using int_rt_eq.
Qed.

Lemma i14_get_lines c ch : c = tok_ATT \/ c = tok_SWT -> 0 <= ch < 96 ->
  i14_line_check (i14_line_get c ch) (RGet [c; render_int ch]) = true /\
  parse_int (render_int ch) = Some ch.
Proof.
  intros Hc Hch.
  assert (H : forall c0, (c0 = tok_ATT \/ c0 = tok_SWT) ->
            forallb (fun ch => i14_line_check (i14_line_get c0 ch) (RGet [c0; render_int ch]) && int_rt ch)
                    (zrange 96) = true).
  { intros c0 [->| ->]; vm_compute; reflexivity. }
  pose proof (range_sweep _ _ (H c Hc) ch ltac:(lia)) as H2. cbv beta in H2.
  apply andb_true_iff in H2 as [H1 H3]. split; auto using int_rt_eq.
Qed.

Lemma chan_ok_range ch : 0 <= ch < 96 -> chan_ok ch = true.
Proof. unfold chan_ok, i14_max_channels. lia. Qed.

(* get ATT from an idle state *)
Lemma i14_get_att_from_idle s ch :
  i14_sinv s -> sidle s = true -> 0 <= ch < 96 ->
  exists v, nth_error (chans (dev s)) (Z.to_nat ch) = Some v /\ mult_ok v /\
    i14_run s (i14_line_get tok_ATT ch ++ [10]) =
    (Build_sstate [] (dev s), repeat OTrue (length (i14_line_get tok_ATT ch)) ++ [OReply (i14_att_reply v)]).
Proof.
  intros [_ [Hl Hf]] Hidle Hc.
  destruct (i14_get_lines tok_ATT ch (or_introl eq_refl) Hc) as [H1 H2].
  destruct (nth_error (chans (dev s)) (Z.to_nat ch)) as [v|] eqn:En;
    [|apply nth_error_None in En; lia].
  exists v. split; [reflexivity|]. split.
  { rewrite Forall_forall in Hf. apply Hf. eapply nth_error_In; eauto. }
  rewrite (i14_run_line s _ _ Hidle H1). cbn [i14_apply i14_get]. rewrite H2, (chan_ok_range _ Hc).
  cbn [negb]. replace (zlist_eqb tok_ATT tok_ATT) with true by reflexivity. rewrite En. reflexivity.
Qed.

Lemma i14_get_swt_from_idle s ch :
  sidle s = true -> 0 <= ch < 96 ->
  i14_run s (i14_line_get tok_SWT ch ++ [10]) =
  (Build_sstate [] (dev s),
   repeat OTrue (length (i14_line_get tok_SWT ch)) ++ [OReply (i14_swt_reply (switched (dev s)))]).
Proof.
  intros Hidle Hc.
  destruct (i14_get_lines tok_SWT ch (or_intror eq_refl) Hc) as [H1 H2].
  rewrite (i14_run_line s _ _ Hidle H1). cbn [i14_apply i14_get]. rewrite H2, (chan_ok_range _ Hc).
  cbn [negb]. replace (zlist_eqb tok_SWT tok_ATT) with false by reflexivity.
  replace (zlist_eqb tok_SWT tok_SWT) with true by reflexivity. reflexivity.
Qed.

(* C05: `#ATT ch v` (0 <= ch < 96, 0 <= v < 127) is accepted (parse returns '') and `#ATT ch?` then
   answers '#' + str(v * 0.25) until the next accepted ATT set or RST command *)
Theorem i14_att_readback s ch v :
  i14_reachable s -> sidle s = true -> 0 <= ch < 96 -> 0 <= v < 127 ->
  let s1 := fst (i14_run s (i14_line_set tok_ATT ch v ++ [10])) in
  snd (i14_run s (i14_line_set tok_ATT ch v ++ [10])) =
    repeat OTrue (length (i14_line_set tok_ATT ch v)) ++ [OEmpty] /\
  forall h, i14_quiet tok_ATT s1 h -> sidle (fst (i14_run s1 h)) = true ->
    snd (i14_run (fst (i14_run s1 h)) (i14_line_get tok_ATT ch ++ [10])) =
    repeat OTrue (length (i14_line_get tok_ATT ch)) ++ [OReply (i14_att_reply v)].
Proof.
  intros Hr Hidle Hc Hv. apply i14_reachable_sinv in Hr.
  pose proof (i14_run_sinv (i14_line_set tok_ATT ch v ++ [10]) s Hr) as Hs1.
  destruct (i14_set_att_lines ch v Hc Hv) as (H1 & H2 & H3).
  rewrite (i14_run_line s _ _ Hidle H1) in *. cbn [i14_apply i14_set] in *.
  replace (zlist_eqb tok_ATT tok_ATT) with true in * by reflexivity. cbn [orb negb] in *.
  rewrite H2, H3, (chan_ok_range _ Hc) in *. cbn [negb] in *.
  replace ((v <? 0) || (i14_max_mult <=? v)) with false in * by (unfold i14_max_mult; lia).
  destruct Hr as [_ [Hl Hf]].
  destruct (set_nth_some (Z.to_nat ch) v (chans (dev s))) as [l El]; [lia|].
  rewrite El in *. cbn [fst snd] in *. split; [reflexivity|].
  intros h Hq Hi'.
  pose proof (i14_quiet_att h _ Hs1 Hq) as E. cbn [dev chans] in E.
  pose proof (i14_run_sinv h _ Hs1) as Hs2.
  destruct (i14_get_att_from_idle _ ch Hs2 Hi' Hc) as (v' & Hn & _ & Hrun).
  rewrite Hrun. cbn [snd]. rewrite E in Hn. rewrite (set_nth_eq _ _ _ _ El) in Hn.
  injection Hn as <-. reflexivity.
Qed.

Theorem i14_swt_readback s ch v ch' :
  i14_reachable s -> sidle s = true -> 0 <= ch < 96 -> 0 <= v < 2 -> 0 <= ch' < 96 ->
  let s1 := fst (i14_run s (i14_line_set tok_SWT ch v ++ [10])) in
  snd (i14_run s (i14_line_set tok_SWT ch v ++ [10])) =
    repeat OTrue (length (i14_line_set tok_SWT ch v)) ++ [OEmpty] /\
  forall h, i14_quiet tok_SWT s1 h -> sidle (fst (i14_run s1 h)) = true ->
    snd (i14_run (fst (i14_run s1 h)) (i14_line_get tok_SWT ch' ++ [10])) =
    repeat OTrue (length (i14_line_get tok_SWT ch')) ++ [OReply (i14_swt_reply (v =? 1))].
Proof.
  intros Hr Hidle Hc Hv Hc'. apply i14_reachable_sinv in Hr.
  pose proof (i14_run_sinv (i14_line_set tok_SWT ch v ++ [10]) s Hr) as Hs1.
  destruct (i14_set_swt_lines ch v Hc Hv) as (H1 & H2 & H3).
  rewrite (i14_run_line s _ _ Hidle H1) in *. cbn [i14_apply i14_set] in *.
  replace (zlist_eqb tok_SWT tok_ATT) with false in * by reflexivity.
  replace (zlist_eqb tok_SWT tok_SWT) with true in * by reflexivity. cbn [orb negb] in *.
  rewrite H2, H3, (chan_ok_range _ Hc) in *. cbn [negb] in *.
  assert (Hcase : v = 0 \/ v = 1) by lia.
  destruct Hcase as [-> | ->]; cbn [Z.eqb fst snd] in *; (split; [reflexivity|]);
    intros h Hq Hi'; pose proof (i14_quiet_swt h _ Hs1 Hq) as E; cbn [dev switched] in E;
    rewrite (i14_get_swt_from_idle _ ch' Hi' Hc'); cbn [snd]; rewrite E; reflexivity.
Qed.

(* ---- C02 ---- *)
Inductive i14_query : list Z -> Prop :=
| iq_att ch : 0 <= ch < 96 -> i14_query (i14_line_get tok_ATT ch)
| iq_swt ch : 0 <= ch < 96 -> i14_query (i14_line_get tok_SWT ch)
| iq_idn : i14_query i14_line_idn.

Theorem i14_queries_answered s q :
  i14_reachable s -> sidle s = true -> i14_query q ->
  exists r, snd (i14_run s (q ++ [10])) = repeat OTrue (length q) ++ [OReply r] /\ i14_wf_reply r /\
            dev (fst (i14_run s (q ++ [10]))) = dev s /\ sidle (fst (i14_run s (q ++ [10]))) = true.
Proof.
  intros Hr Hidle Hq. apply i14_reachable_sinv in Hr. destruct Hq as [ch Hc|ch Hc|].
  - destruct (i14_get_att_from_idle s ch Hr Hidle Hc) as (v & _ & Hv & Hrun). rewrite Hrun.
    cbn [fst snd dev]. eexists. split; [reflexivity|]. split; [|split; reflexivity].
    right. right. right. right. exists v. auto.
  - rewrite (i14_get_swt_from_idle s ch Hidle Hc). cbn [fst snd dev]. eexists.
    split; [reflexivity|]. split; [|split; reflexivity].
    destruct (switched (dev s)); [right; right; left|right; right; right; left]; reflexivity.
  - assert (Hc : i14_line_check i14_line_idn RIdn = true) by (vm_compute; reflexivity).
    rewrite (i14_run_line s _ _ Hidle Hc). cbn [i14_apply fst snd dev]. eexists.
    split; [reflexivity|]. split; [left; reflexivity|split; reflexivity].
Qed.

Example i14_reachable_example :
  let s := fst (i14_run i14_init ([35; 65; 84; 84; 32; 53; 32; 51; 10; 35; 83; 87; 84; 32; 48; 32; 49; 10])) in
  i14_reachable s /\ sidle s = true /\ nth_error (chans (dev s)) 5 = Some 3 /\ switched (dev s) = true.
Proof. cbv zeta. split; [eexists; reflexivity|]. vm_compute. auto. Qed.
