(* Agreement of the abbreviated and the extended form for broadcast requests: every board gets the same
   answer code and data in both forms, the address maps stay equal up to the recorded command code. *)
From DS Require Import Base.Prelude Gen.RcvTables Model.RcvModel Proofs.RcvAssoc Proofs.RcvProofs Proofs.RcvBoards.

Section FB.
  Variable clk : nat -> Z.
  Variable mkdate : list Z -> option Z.
  Variable render : Z -> option (list Z).
  Notation exec_req := (exec_req clk mkdate render).
  Notation run_targets := (run_targets clk mkdate render).
  Notation handle := (handle clk mkdate render).

  Definition frames_of (q : req) (tr : bool) (l : list (Z * list Z)) : list Z :=
    flat_map (fun x => frame q (fst x) (snd x) tr) l.

  Lemma run_targets_forms ma cid k pa pe : params_agree k pa pe ->
    let qa := mkReq ma (abbr_code k) cid false false pa in
    let qe := mkReq ma (ext_code k) cid true false pe in
    forall targets sla sle t acca acce,
      NoDup targets -> incl targets (keys_of sla) -> sl_rel sla sle ->
      (forall x, In x targets -> aget Z.eqb sla x = aget Z.eqb sle x) ->
      exists l : list (Z * list Z),
        let '(sla', ta, ra) := run_targets qa targets sla t acca in
        let '(sle', te, re) := run_targets qe targets sle t acce in
        ta = te /\ sl_rel sla' sle' /\
        ((ra = None /\ re = None) \/
         (ra = Some (acca ++ frames_of qa false l) /\ re = Some (acce ++ frames_of qe true l) /\
          map fst l = targets)).
  Proof.
    intros Hp qa qe. induction targets as [|a rest IH]; intros sla sle t acca acce Hnd Hincl Hrel Hsame.
    - exists []. cbn. rewrite !app_nil_r. split; [reflexivity|]. split; [assumption|]. right. auto.
    - inversion Hnd as [|? ? Hni Hnd']; subst.
      destruct (aget_in sla a (Hincl a (or_introl eq_refl))) as [b Hb].
      assert (Hbe : aget Z.eqb sle a = Some b) by (rewrite <- Hsame; [assumption|left; reflexivity]).
      assert (Hkeys : keys_of sle = keys_of sla) by (symmetry; apply (map_rel_keys _ _ _ Hrel)).
      cbn [RcvModel.run_targets]. rewrite Hb, Hbe, Hkeys.
      destruct (exec_req_forms clk mkdate render ma cid k pa pe (keys_of sla) b t Hp) as (H1 & H2 & H3 & H4 & H5 & H6).
      cbv zeta in H1, H2, H3, H4, H5, H6. fold qa qe in H1, H2, H3, H4, H5, H6.
      pose proof (exec_req_addr clk mkdate render qe (keys_of sla) b t) as Haddr. cbv zeta in Haddr.
      set (ra := exec_req qa (keys_of sla) b t) in *. set (re := exec_req qe (keys_of sla) b t) in *.
      assert (Hrel1 : sl_rel (aset Z.eqb sla a (r_board ra)) (aset Z.eqb sle a (r_board re)))
        by (apply map_rel_aset; assumption).
      rewrite H1, H2, H3, H5, H6.
      destruct (r_tail re) as [tail|] eqn:Et.
      2:{ exists []. split; [reflexivity|]. split; [assumption|]. left. auto. }
      destruct (r_moved re) as [[a'|]|] eqn:Em.
      + (* re-keyed *)
        destruct Haddr as (_ & Hnew & _).
        specialize (IH (aset Z.eqb (adel Z.eqb (aset Z.eqb sla a (r_board ra)) a) a' (r_board ra))
                       (aset Z.eqb (adel Z.eqb (aset Z.eqb sle a (r_board re)) a) a' (r_board re))
                       (r_tick re) (acca ++ frame qa a tail false) (acce ++ frame qe a tail true) Hnd').
        destruct IH as (l & IH).
        * intros x Hx. apply in_keys_aset. left. apply in_keys_adel; [intros ->; contradiction|].
          apply in_keys_aset. left. apply Hincl. right. assumption.
        * apply map_rel_aset; [|assumption]. apply map_rel_adel. assumption.
        * intros x Hx. assert (x <> a) by (intros ->; contradiction).
          assert (x <> a').
          { intros ->. apply Hnew. apply Hincl. right. assumption. }
          rewrite !aget_aset_other by assumption. rewrite !aget_adel_other by assumption.
          rewrite !aget_aset_other by assumption. apply Hsame. right. assumption.
        * exists ((a, tail) :: l).
          destruct (run_targets qa rest _ (r_tick re) _) as [[sla' ta] ra'].
          destruct (run_targets qe rest _ (r_tick re) _) as [[sle' te] re'].
          destruct IH as (I1 & I2 & I3). split; [assumption|]. split; [assumption|].
          destruct I3 as [I3|(I3 & I4 & I5)]; [left; assumption|right].
          cbn [frames_of flat_map fst snd map]. fold (frames_of qa false l). fold (frames_of qe true l).
          rewrite <- !app_assoc in I3, I4. rewrite I5. auto.
      + exists []. split; [reflexivity|]. split; [assumption|]. left. auto.
      + specialize (IH (aset Z.eqb sla a (r_board ra)) (aset Z.eqb sle a (r_board re))
                       (r_tick re) (acca ++ frame qa a tail false) (acce ++ frame qe a tail true) Hnd').
        destruct IH as (l & IH).
        * intros x Hx. apply in_keys_aset. left. apply Hincl. right. assumption.
        * assumption.
        * intros x Hx. assert (x <> a) by (intros ->; contradiction).
          rewrite !aget_aset_other by assumption. apply Hsame. right. assumption.
        * exists ((a, tail) :: l).
          destruct (run_targets qa rest _ (r_tick re) _) as [[sla' ta] ra'].
          destruct (run_targets qe rest _ (r_tick re) _) as [[sle' te] re'].
          destruct IH as (I1 & I2 & I3). split; [assumption|]. split; [assumption|].
          destruct I3 as [I3|(I3 & I4 & I5)]; [left; assumption|right].
          cbn [frames_of flat_map fst snd map]. fold (frames_of qa false l). fold (frames_of qe true l).
          rewrite <- !app_assoc in I3, I4. rewrite I5. auto.
  Qed.

  (* broadcast (with or without answer): same effect up to the recorded command code, and board by board
     the same answer code and data *)
  Theorem forms_agree_broadcast sl t ma_ mb_ sa ma cid k pa pe :
    decode ma_ = Some (sa, mkReq ma (abbr_code k) cid false false pa) ->
    decode mb_ = Some (sa, mkReq ma (ext_code k) cid true false pe) ->
    params_agree k pa pe -> is_broadcast sa = true -> NoDup (keys_of sl) ->
    exists l : list (Z * list Z),
      let '(sla, ta, oa) := handle sl t ma_ in
      let '(sle, te, oe) := handle sl t mb_ in
      ta = te /\ sl_rel sla sle /\
      ((oa = OExc /\ oe = OExc) \/
       (map fst l = keys_of sl /\
        oa = reply_of (send_answer sa) (frames_of (mkReq ma (abbr_code k) cid false false pa) false l) /\
        oe = reply_of (send_answer sa) (frames_of (mkReq ma (ext_code k) cid true false pe) true l))).
  Proof.
    intros Hda Hde Hp Hb Hnd. unfold RcvModel.handle. rewrite Hda, Hde.
    unfold targets_of. unfold is_broadcast in Hb. rewrite Hb. cbn [negb].
    destruct (run_targets_forms ma cid k pa pe Hp (keys_of sl) sl sl t [] [] Hnd (incl_refl _)
                (map_rel_refl _ sl regs_eq_refl) (fun x _ => eq_refl)) as (l & Hl).
    exists l.
    destruct (run_targets _ (keys_of sl) sl t []) as [[sla ta] ra].
    destruct (run_targets (mkReq ma (ext_code k) cid true false pe) (keys_of sl) sl t []) as [[sle te] re].
    destruct Hl as (H1 & H2 & H3). destruct H3 as [[-> ->]|(-> & -> & H5)].
    - split; [assumption|]. split; [assumption|]. left. auto.
    - split; [assumption|]. split; [assumption|]. right. cbn [app]. split; [assumption|]. split; reflexivity.
  Qed.
  (* ---- broadcast with answer, refined: each frame is the answer of that very board, computed on the
     state the board had before the broadcast (the boards answer in turn, none is affected by the
     others except through the occupancy of addresses passed as `keys`) ---- *)
  Definition own_frame (q : req) (sl0 : slaves) (a : Z) (f : list Z) : Prop :=
    exists b keys' t1 tail, aget Z.eqb sl0 a = Some b /\
      r_tail (exec_req q keys' b t1) = Some tail /\ f = frame q a tail (r_trailer (exec_req q keys' b t1)).

  Lemma run_targets_own q sl0 : forall targets sl t acc sl' t' total,
    NoDup targets -> incl targets (keys_of sl) ->
    (forall x, In x targets -> aget Z.eqb sl x = aget Z.eqb sl0 x) ->
    run_targets q targets sl t acc = (sl', t', Some total) ->
    exists frames, total = acc ++ concat frames /\ Forall2 (own_frame q sl0) targets frames.
  Proof.
    induction targets as [|a rest IH]; intros sl t acc sl' t' total Hnd Hincl Hsame Hr; cbn in Hr.
    - injection Hr as <- <- <-. exists []. rewrite app_nil_r. split; [reflexivity|constructor].
    - inversion Hnd as [|? ? Hni Hnd']; subst.
      destruct (aget_in sl a (Hincl a (or_introl eq_refl))) as [b Hb]. rewrite Hb in Hr.
      pose proof (exec_req_addr clk mkdate render q (keys_of sl) b t) as Haddr. cbv zeta in Haddr.
      set (r := exec_req q (keys_of sl) b t) in *.
      destruct (r_tail r) as [tail|] eqn:Et; [|discriminate].
      assert (Hown : own_frame q sl0 a (frame q a tail (r_trailer r))).
      { exists b, (keys_of sl), t, tail. split; [rewrite <- Hsame; [assumption|left; reflexivity]|].
        fold r. split; [assumption|reflexivity]. }
      destruct (r_moved r) as [[a'|]|] eqn:Em; [| discriminate |].
      + destruct Haddr as (_ & Hnew & _).
        apply IH in Hr as (frames & -> & Hf); [| assumption | |].
        * exists (frame q a tail (r_trailer r) :: frames). cbn. rewrite <- app_assoc. split; [reflexivity|].
          constructor; assumption.
        * intros x Hx. apply in_keys_aset. left. apply in_keys_adel; [intros ->; contradiction|].
          apply in_keys_aset. left. apply Hincl. right. assumption.
        * intros x Hx. assert (x <> a) by (intros ->; contradiction).
          assert (x <> a') by (intros ->; apply Hnew; apply Hincl; right; assumption).
          rewrite aget_aset_other by assumption. rewrite aget_adel_other by assumption.
          rewrite aget_aset_other by assumption. apply Hsame. right. assumption.
      + apply IH in Hr as (frames & -> & Hf); [| assumption | |].
        * exists (frame q a tail (r_trailer r) :: frames). cbn. rewrite <- app_assoc. split; [reflexivity|].
          constructor; assumption.
        * intros x Hx. apply in_keys_aset. left. apply Hincl. right. assumption.
        * intros x Hx. assert (x <> a) by (intros ->; contradiction).
          rewrite aget_aset_other by assumption. apply Hsame. right. assumption.
  Qed.

  Theorem broadcast_all_own sl t m q sl' t' o :
    decode m = Some (SLAVE_ADDR_BROADCAST_WITH_ANSWER, q) -> NoDup (keys_of sl) -> sl <> [] ->
    handle sl t m = (sl', t', o) -> o <> OExc ->
    exists frames, o = OReply (concat frames) /\ Forall2 (own_frame q sl) (keys_of sl) frames.
  Proof.
    intros Hd Hnd Hne Hh Ho. unfold RcvModel.handle in Hh. rewrite Hd in Hh.
    change (targets_of SLAVE_ADDR_BROADCAST_WITH_ANSWER sl) with (keys_of sl) in Hh.
    destruct (run_targets q (keys_of sl) sl t []) as [[sl2 t2] [total|]] eqn:Er.
    - apply (run_targets_own q sl) in Er as (frames & -> & Hf); [|assumption|apply incl_refl|auto].
      injection Hh as <- <- <-. exists frames. split; [|assumption].
      change (send_answer SLAVE_ADDR_BROADCAST_WITH_ANSWER) with true. cbn.
      destruct sl as [|[a b] sl0]; [contradiction|].
      inversion Hf as [|? f ? fs (b0 & k0 & t0 & tail & _ & _ & ->) Hfs]; subst.
      cbn. destruct (frame q a tail _) eqn:E; [exfalso; eapply frame_nonempty; eauto|reflexivity].
    - injection Hh as <- <- <-. contradiction.
  Qed.
End FB.
