(* Lemmas about Model/Utils.v and Model/UtilsFloat.v (C09). *)
From DS Require Import Base.Prelude Base.Bits Model.Utils Model.UtilsFloat.
From Flocq Require Import IEEE754.Binary IEEE754.Bits.

(* ---------- checksum ---------- *)
Lemma zsum_nonneg l : Forall (fun b => 0 <= b) l -> 0 <= zsum l.
Proof. unfold zsum. induction 1; cbn [fold_right]; lia. Qed.

Lemma lxor_255 x : byte x -> Z.lxor x 255 = 255 - x.
Proof.
  intros Hx. apply Z.eqb_eq.
  apply (byte_sweep (fun x => Z.lxor x 255 =? 255 - x)); [vm_compute; reflexivity|exact Hx].
Qed.

Lemma checksum_spec msg : Forall (fun b => 0 <= b) msg -> checksum msg = 255 - (zsum msg) mod 256.
Proof.
  intros H. unfold checksum. pose proof (zsum_nonneg _ H) as Hs.
  rewrite int2_lastn by (rewrite zfill_length; lia).
  rewrite int2_zfill, int2_bin by exact Hs.
  change (2 ^ Z.of_nat 8) with 256. apply lxor_255. unfold byte. lia.
Qed.

Lemma checksum_byte msg : Forall (fun b => 0 <= b) msg -> byte (checksum msg).
Proof. intros H. rewrite checksum_spec by exact H. unfold byte. lia. Qed.

(* a message followed by its checksum sums to 255 modulo 256 *)
Lemma checksum_closes msg : Forall (fun b => 0 <= b) msg ->
  (zsum (msg ++ [checksum msg])) mod 256 = 255.
Proof.
  intros H. rewrite checksum_spec by exact H.
  assert (E : forall a b, zsum (a ++ [b]) = zsum a + b).
  { unfold zsum. induction a as [|x a IH]; intros b; cbn [app fold_right]; [lia|rewrite IH; lia]. }
  rewrite E. pose proof (zsum_nonneg _ H). lia.
Qed.

(* ---------- signed / unsigned integers <-> bytes ---------- *)
Lemma pow_split w : 0 < w -> 2 ^ w = 2 * 2 ^ (w - 1).
Proof. intros H. replace w with (Z.succ (w - 1)) at 1 by lia. rewrite Z.pow_succ_r by lia. reflexivity. Qed.

Lemma of_signed_range w v : 0 < w -> 0 <= of_signed w v < 2 ^ w.
Proof. intros H. unfold of_signed. apply Z.mod_pos_bound. apply Z.pow_pos_nonneg; lia. Qed.

Lemma int_to_bytes_length v n le l : int_to_bytes v n le = Some l -> length l = n.
Proof.
  unfold int_to_bytes. destruct (match n with O => _ | _ => _ end); [|discriminate].
  intros [= <-]. destruct le; [apply le_enc_length|apply be_enc_length].
Qed.

Lemma bytes_to_int_nonempty l le : l <> [] ->
  bytes_to_int l le = to_signed (8 * Z.of_nat (length l)) (if le then le_dec l else be_dec l).
Proof. intros H. destruct l; [congruence|reflexivity]. Qed.

Lemma int_to_bytes_some v n le l : (0 < n)%nat -> int_to_bytes v n le = Some l ->
  - 2 ^ (8 * Z.of_nat n - 1) <= v < 2 ^ (8 * Z.of_nat n - 1) /\ l = (if le then le_enc n (of_signed (8 * Z.of_nat n) v) else be_enc n (of_signed (8 * Z.of_nat n) v)).
Proof.
  intros Hn H. unfold int_to_bytes in H. destruct n as [|n']; [lia|].
  remember (S n') as n eqn:En. clear En Hn.
  destruct ((- 2 ^ (8 * Z.of_nat n - 1) <=? v) && (v <? 2 ^ (8 * Z.of_nat n - 1))) eqn:Hf; [|discriminate].
  injection H as <-. split; [lia|reflexivity].
Qed.

Theorem int_bytes_roundtrip v n le l : (0 < n)%nat ->
  int_to_bytes v n le = Some l -> bytes_to_int l le = v /\ length l = n /\ bytes l.
Proof.
  intros Hn H. pose proof (int_to_bytes_length _ _ _ _ H) as Hl.
  destruct (int_to_bytes_some _ _ _ _ Hn H) as [Hv El].
  set (w := 8 * Z.of_nat n) in *.
  assert (Hw : 0 < w) by (unfold w; lia).
  pose proof (of_signed_range w v Hw) as Hr.
  assert (Hw' : 2 ^ w = 256 ^ Z.of_nat n) by (unfold w; now rewrite pow256).
  assert (Hne : l <> []) by (destruct l; [cbn in Hl; lia|congruence]).
  rewrite bytes_to_int_nonempty by exact Hne. rewrite Hl. fold w. subst l. destruct le.
  - rewrite le_dec_enc_small by (rewrite <- Hw'; exact Hr).
    repeat split; [apply to_of_signed; lia|apply le_enc_bytes].
  - rewrite be_dec_enc_small by (rewrite <- Hw'; exact Hr).
    repeat split; [apply to_of_signed; lia|].
    unfold be_enc. apply bytes_rev, le_enc_bytes.
Qed.

Theorem bytes_int_roundtrip l le : bytes l -> l <> [] ->
  int_to_bytes (bytes_to_int l le) (length l) le = Some l.
Proof.
  intros Hb Hne. set (n := length l). set (w := 8 * Z.of_nat n).
  assert (Hn : (0 < n)%nat) by (unfold n; destruct l; [congruence|cbn; lia]).
  assert (Hw : 0 < w) by (unfold w; lia).
  assert (Hw' : 2 ^ w = 256 ^ Z.of_nat n) by (unfold w; now rewrite pow256).
  set (u := if le then le_dec l else be_dec l).
  assert (Hu : 0 <= u < 2 ^ w).
  { rewrite Hw'. unfold u, n. destruct le; [apply le_dec_range, Hb|].
    unfold be_dec. rewrite <- rev_length. apply le_dec_range, bytes_rev, Hb. }
  assert (Hv : bytes_to_int l le = to_signed w u).
  { unfold bytes_to_int. destruct l; [congruence|reflexivity]. }
  rewrite Hv. unfold int_to_bytes. fold w.
  pose proof (to_signed_range w u Hw Hu) as Hr.
  destruct n as [|n'] eqn:En; [lia|].
  replace ((- 2 ^ (w - 1) <=? to_signed w u) && (to_signed w u <? 2 ^ (w - 1))) with true by lia.
  rewrite of_to_signed by lia. unfold u. rewrite <- En. unfold n.
  destruct le; f_equal; [apply le_enc_dec|apply be_enc_dec]; exact Hb.
Qed.

Theorem int_out_of_range_refused v n le :
  (0 < n)%nat -> (v < - 2 ^ (8 * Z.of_nat n - 1) \/ 2 ^ (8 * Z.of_nat n - 1) <= v) ->
  int_to_bytes v n le = None.
Proof.
  intros Hn Hv. unfold int_to_bytes. destruct n as [|n]; [lia|].
  replace ((- 2 ^ (8 * Z.of_nat (S n) - 1) <=? v) && (v <? 2 ^ (8 * Z.of_nat (S n) - 1))) with false by lia.
  reflexivity.
Qed.

(* ---------- bit strings <-> bytes ---------- *)
Lemma chunks8_app8 c s fuel : length c = 8%nat -> (length s < fuel)%nat ->
  chunks8 (S fuel) (c ++ s) = c :: chunks8 fuel s.
Proof.
  intros Hc Hf. cbn [chunks8].
  destruct (c ++ s) eqn:E.
  { apply (f_equal (@length bool)) in E. rewrite app_length in E. cbn in E. lia. }
  rewrite <- E. f_equal.
  - rewrite <- Hc. rewrite firstn_app, Nat.sub_diag, firstn_all. cbn [firstn]. apply app_nil_r.
  - f_equal. rewrite <- Hc. rewrite skipn_app, skipn_all, Nat.sub_diag. reflexivity.
Qed.

Lemma chunks8_fuel s : forall f1 f2, (length s <= f1)%nat -> (length s <= f2)%nat ->
  chunks8 f1 s = chunks8 f2 s.
Proof.
  remember (length s) as n eqn:Hn. revert s Hn.
  induction n as [n IH] using lt_wf_ind. intros s Hn f1 f2 H1 H2.
  destruct s as [|b s].
  - destruct f1, f2; reflexivity.
  - destruct f1 as [|f1]; [cbn in Hn; lia|]. destruct f2 as [|f2]; [cbn in Hn; lia|].
    cbn [chunks8]. f_equal.
    assert (Hs : (length (skipn 8 (b :: s)) < n)%nat) by (rewrite skipn_length; cbn [length] in *; lia).
    apply (IH _ Hs _ eq_refl); lia.
Qed.

Definition chunk_ok (c : list bool) : Prop := length c = 8%nat.

Lemma byte_chunk c : chunk_ok c -> zfill 8 (bin (Z.land (int2 c) 255)) = c.
Proof.
  intros Hc. unfold chunk_ok in Hc. pose proof (int2_range c) as Hr. rewrite Hc in Hr.
  change 255 with (Z.ones 8). rewrite Z.land_ones by lia.
  change (2 ^ Z.of_nat 8) with 256 in Hr. change (2 ^ 8) with 256.
  rewrite Z.mod_small by lia. rewrite <- Hc. apply zfill_bin_int2.
  destruct c; [discriminate Hc|congruence].
Qed.

Lemma chunks8_concat cs : Forall chunk_ok cs ->
  chunks8 (length (concat cs)) (concat cs) = cs.
Proof.
  induction 1 as [|c cs Hc Hcs IH]; [reflexivity|].
  cbn [concat]. rewrite app_length.
  unfold chunk_ok in Hc. rewrite Hc. cbn [Nat.add].
  rewrite chunks8_app8 by (try exact Hc; lia). f_equal.
  rewrite (chunks8_fuel _ _ (length (concat cs))) by lia. exact IH.
Qed.

Lemma byte_bits b : byte b -> chunk_ok (zfill 8 (bin b)) /\ Z.land (int2 (zfill 8 (bin b))) 255 = b.
Proof.
  intros Hb.
  assert (H := byte_sweep (fun b => (length (zfill 8 (bin b)) =? 8)%nat
                                    && (Z.land (int2 (zfill 8 (bin b))) 255 =? b))).
  specialize (H ltac:(vm_compute; reflexivity) b Hb).
  apply andb_true_iff in H as [H1 H2]. split; [apply Nat.eqb_eq, H1|apply Z.eqb_eq, H2].
Qed.

Theorem bytes_binary_roundtrip l le : bytes l -> binary_to_bytes (bytes_to_binary l le) le = l.
Proof.
  intros Hb. unfold binary_to_bytes, bytes_to_binary.
  set (l' := if le then rev l else l).
  assert (Hb' : bytes l') by (unfold l'; destruct le; [apply bytes_rev|]; exact Hb).
  rewrite chunks8_concat.
  - rewrite map_map.
    assert (E : map (fun x => Z.land (int2 (zfill 8 (bin x))) 255) l' = l').
    { clear -Hb'. induction Hb' as [|b l0 Hb0 _ IH]; [reflexivity|]. cbn [map].
      rewrite IH. f_equal. apply byte_bits, Hb0. }
    rewrite E. unfold l'. destruct le; [apply rev_involutive|reflexivity].
  - clear -Hb'. induction Hb' as [|b l0 Hb0 _ IH]; constructor; [apply byte_bits, Hb0|exact IH].
Qed.

(* every bit string of 8k characters is the concatenation of k 8-character chunks *)
Lemma split_chunks k : forall s, length s = (8 * k)%nat ->
  exists cs, s = concat cs /\ Forall chunk_ok cs /\ length cs = k.
Proof.
  induction k as [|k IH]; intros s Hs.
  - exists []. destruct s; [|discriminate Hs]. repeat split; constructor.
  - destruct (IH (skipn 8 s)) as [cs [E [Hc Hl]]]; [rewrite skipn_length; lia|].
    exists (firstn 8 s :: cs). cbn [concat]. rewrite <- E, firstn_skipn. repeat split.
    + constructor; [unfold chunk_ok; rewrite firstn_length; lia|exact Hc].
    + cbn. now rewrite Hl.
Qed.

Theorem binary_bytes_roundtrip s le k : length s = (8 * k)%nat ->
  bytes_to_binary (binary_to_bytes s le) le = s.
Proof.
  intros Hs. destruct (split_chunks k s Hs) as [cs [-> [Hc _]]].
  unfold binary_to_bytes. rewrite chunks8_concat by exact Hc.
  unfold bytes_to_binary.
  assert (E : (if le then rev (if le then rev (map (fun c => Z.land (int2 c) 255) cs)
                                else map (fun c => Z.land (int2 c) 255) cs)
               else (if le then rev (map (fun c => Z.land (int2 c) 255) cs)
                     else map (fun c => Z.land (int2 c) 255) cs))
              = map (fun c => Z.land (int2 c) 255) cs).
  { destruct le; [apply rev_involutive|reflexivity]. }
  rewrite E, map_map. f_equal. clear E Hs.
  induction Hc as [|c cs0 Hc0 _ IH]; [reflexivity|]. cbn [map]. rewrite IH. f_equal.
  apply byte_chunk, Hc0.
Qed.

Lemma binary_to_bytes_bytes s le : bytes (binary_to_bytes s le).
Proof.
  unfold binary_to_bytes.
  assert (H : bytes (map (fun c => Z.land (int2 c) 255) (chunks8 (length s) s))).
  { unfold bytes. apply Forall_forall. intros x Hx. apply in_map_iff in Hx as [c [<- _]].
    unfold byte. change 255 with (Z.ones 8). rewrite Z.land_ones by lia. change (2 ^ 8) with 256. lia. }
  destruct le; [apply bytes_rev|]; exact H.
Qed.

Theorem uint_bytes_roundtrip v n le l : (0 < n)%nat ->
  uint_to_bytes v n le = Some l -> bytes_to_uint l le = Some v /\ length l = n /\ bytes l.
Proof.
  intros Hn H. unfold uint_to_bytes in H.
  destruct ((v <? 0) || (2 ^ Z.of_nat (8 * n) - 1 <? v)) eqn:Hr; [discriminate|].
  assert (El : l = binary_to_bytes (zfill (8 * n) (bin v)) le) by congruence.
  subst l. clear H.
  assert (Hv : 0 <= v < 2 ^ Z.of_nat (8 * n)) by lia.
  destruct (zfill_bin_small v (8 * n) ltac:(lia) Hv) as [Hlen Hint].
  set (s := zfill (8 * n) (bin v)) in *.
  assert (Hl : length (binary_to_bytes s le) = n).
  { pose proof (binary_bytes_roundtrip s le n Hlen) as E.
    apply (f_equal (@length bool)) in E. rewrite Hlen in E.
    unfold bytes_to_binary in E.
    assert (L : forall l0, bytes l0 -> length (concat (map (fun c => zfill 8 (bin c)) l0)) = (8 * length l0)%nat).
    { induction 1 as [|b l0 Hb0 _ IH]; [reflexivity|]. cbn [map concat]. rewrite app_length, IH.
      destruct (byte_bits b Hb0) as [Hc _]. unfold chunk_ok in Hc. rewrite Hc. cbn [length]. lia. }
    rewrite L in E.
    - destruct le; [rewrite rev_length in E|]; lia.
    - destruct le; [apply bytes_rev|]; apply binary_to_bytes_bytes. }
  repeat split; [|exact Hl|apply binary_to_bytes_bytes].
  assert (Hne : binary_to_bytes s le <> []).
  { intros E. rewrite E in Hl. cbn in Hl. lia. }
  assert (U : forall l0, l0 <> [] -> bytes_to_uint l0 le = Some (int2 (bytes_to_binary l0 le))).
  { intros [|z l0] Hz; [congruence|reflexivity]. }
  rewrite (U _ Hne), (binary_bytes_roundtrip s le n Hlen), Hint. reflexivity.
Qed.

Theorem uint_out_of_range_refused v n le :
  (v < 0 \/ 2 ^ Z.of_nat (8 * n) <= v) -> uint_to_bytes v n le = None.
Proof.
  intros Hv. unfold uint_to_bytes.
  replace ((v <? 0) || (2 ^ Z.of_nat (8 * n) - 1 <? v)) with true by lia. reflexivity.
Qed.

(* ---------- two's complement strings ---------- *)
Lemma twos_to_int_ne s : s <> [] ->
  twos_to_int s = Some (if Z.land (int2 s) (Z.shiftl 1 (Z.of_nat (length s) - 1)) =? 0 then int2 s
                        else int2 s - Z.shiftl 1 (Z.of_nat (length s))).
Proof. intros H. destruct s; [congruence|reflexivity]. Qed.

Theorem twos_roundtrip v n s : (0 < n)%nat ->
  int_to_twos v n = Some s -> twos_to_int s = Some v /\ length s = (8 * n)%nat.
Proof.
  intros Hn H. unfold int_to_twos in H.
  set (w := Z.of_nat (8 * n)) in *.
  destruct ((v <? - 2 ^ (w - 1)) || (2 ^ (w - 1) - 1 <? v)) eqn:Hr; [discriminate|].
  assert (Es : s = zfill (8 * n) (bin (Z.land v (int2 (repeat true (8 * n)))))) by congruence.
  subst s. clear H.
  assert (Hw : 0 < w) by (unfold w; lia).
  rewrite int2_repeat_true. fold w.
  replace (2 ^ w - 1) with (Z.ones w) by (rewrite Z.ones_equiv; lia).
  rewrite Z.land_ones by lia.
  assert (Hm : 0 <= v mod 2 ^ w < 2 ^ w) by (apply Z.mod_pos_bound, Z.pow_pos_nonneg; lia).
  destruct (zfill_bin_small (v mod 2 ^ w) (8 * n) ltac:(lia) Hm) as [Hlen Hint].
  split; [|exact Hlen].
  rewrite twos_to_int_ne by (intros E; rewrite E in Hlen; cbn in Hlen; lia).
  rewrite Hlen, Hint. fold w.
  rewrite land_pow2_zero by (try lia; replace (w - 1 + 1) with w by lia; exact Hm).
  rewrite Z.shiftl_1_l. f_equal.
  change (to_signed w (of_signed w v) = v). apply to_of_signed; lia.
Qed.

Theorem twos_roundtrip' s n : (0 < n)%nat -> length s = (8 * n)%nat ->
  exists v, twos_to_int s = Some v /\ int_to_twos v n = Some s.
Proof.
  intros Hn Hl. set (w := Z.of_nat (8 * n)).
  assert (Hw : 0 < w) by (unfold w; lia).
  pose proof (int2_range s) as Hr. rewrite Hl in Hr. fold w in Hr.
  exists (to_signed w (int2 s)). split.
  - rewrite twos_to_int_ne by (intros E; rewrite E in Hl; cbn in Hl; lia). rewrite Hl. fold w.
    rewrite land_pow2_zero by (try lia; replace (w - 1 + 1) with w by lia; exact Hr).
    rewrite Z.shiftl_1_l. reflexivity.
  - unfold int_to_twos. fold w.
    pose proof (to_signed_range w (int2 s) Hw Hr) as Hs.
    replace ((to_signed w (int2 s) <? - 2 ^ (w - 1)) || (2 ^ (w - 1) - 1 <? to_signed w (int2 s)))
      with false by lia.
    rewrite int2_repeat_true. fold w.
    replace (2 ^ w - 1) with (Z.ones w) by (rewrite Z.ones_equiv; lia).
    rewrite Z.land_ones by lia.
    change (to_signed w (int2 s) mod 2 ^ w) with (of_signed w (to_signed w (int2 s))).
    rewrite of_to_signed by lia. f_equal. rewrite <- Hl. apply zfill_bin_int2.
    destruct s; [cbn in Hl; lia|congruence].
Qed.

Theorem twos_out_of_range_refused v n :
  (v < - 2 ^ (Z.of_nat (8 * n) - 1) \/ 2 ^ (Z.of_nat (8 * n) - 1) <= v) -> int_to_twos v n = None.
Proof.
  intros Hv. unfold int_to_twos.
  replace ((v <? - 2 ^ (Z.of_nat (8 * n) - 1)) || (2 ^ (Z.of_nat (8 * n) - 1) - 1 <? v)) with true by lia.
  reflexivity.
Qed.

(* ---------- IEEE-754 doubles ---------- *)
Lemma bits64_range (x : binary64) : 0 <= bits_of_b64 x < 256 ^ Z.of_nat 8.
Proof.
  pose proof (bits_of_binary_float_range 52 11 eq_refl eq_refl x) as H.
  unfold bits_of_b64. change (256 ^ Z.of_nat 8) with (2 ^ (52 + 11 + 1)). exact H.
Qed.

Theorem real64_roundtrip (x : binary64) le : bytes_to_real64 (real_to_bytes64 x le) le = Some x.
Proof.
  unfold bytes_to_real64, real_to_bytes64.
  assert (Hl : length (if le then rev (be_enc 8 (bits_of_b64 x)) else be_enc 8 (bits_of_b64 x)) = 8%nat).
  { destruct le; [rewrite rev_length|]; apply be_enc_length. }
  rewrite Hl. cbn [Nat.eqb]. f_equal.
  assert (E : (if le then rev (if le then rev (be_enc 8 (bits_of_b64 x)) else be_enc 8 (bits_of_b64 x))
               else (if le then rev (be_enc 8 (bits_of_b64 x)) else be_enc 8 (bits_of_b64 x)))
              = be_enc 8 (bits_of_b64 x)) by (destruct le; [apply rev_involutive|reflexivity]).
  rewrite E, be_dec_enc_small by apply bits64_range.
  exact (binary_float_of_bits_of_binary_float 52 11 eq_refl eq_refl eq_refl x).
Qed.

Theorem real64_bytes_roundtrip l le x : bytes l ->
  bytes_to_real64 l le = Some x -> real_to_bytes64 x le = l.
Proof.
  intros Hb H. unfold bytes_to_real64 in H.
  destruct (Nat.eqb_spec (length l) 8) as [Hl|]; [|discriminate]. injection H as <-.
  unfold real_to_bytes64. set (l' := if le then rev l else l).
  assert (Hb' : bytes l') by (unfold l'; destruct le; [apply bytes_rev|]; exact Hb).
  assert (Hl' : length l' = 8%nat) by (unfold l'; destruct le; [rewrite rev_length|]; exact Hl).
  assert (Hr : 0 <= be_dec l' < 2 ^ (52 + 11 + 1)).
  { unfold be_dec. pose proof (le_dec_range (rev l') (bytes_rev _ Hb')) as R.
    rewrite rev_length, Hl' in R. exact R. }
  pose proof (bits_of_binary_float_of_bits 52 11 eq_refl eq_refl eq_refl (be_dec l') Hr) as Hbits.
  change (bits_of_b64 (b64_of_bits (be_dec l')) = be_dec l') in Hbits. rewrite Hbits.
  rewrite <- Hl', be_enc_dec by exact Hb'.
  unfold l'. destruct le; [apply rev_involutive|reflexivity].
Qed.
