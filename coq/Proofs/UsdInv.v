(* The state invariant of one USD and its preservation by every command of the protocol
   specification (Spec/UsdSpec.v) and by calc_position.  Preservation by the code-faithful
   handlers follows through the refinement theorem (Proofs/UsdRefine.v). *)
From DS Require Import Base.Prelude Base.Bits Model.Utils Model.UsdModel Spec.UsdSpec.
From DS Require Import Proofs.UsdMotion.

Definition bit01 (z : Z) : Prop := z = 0 \/ z = 1.
Definition tri01 (t : tri) : Prop := let '(a, b, c) := t in bit01 a /\ bit01 b /\ bit01 c.

Record Inv (u : usd) : Prop := {
  inv_pos : pos_ok u;
  inv_res : exists k, 0 <= k <= 7 /\ resolution u = 2 ^ k;
  inv_freq : 20 <= min_frequency u /\ min_frequency u <= max_frequency u /\ max_frequency u <= 10000;
  inv_ready : ready u = true <-> position_queue u <> [];
  inv_sb : 0 <= standby_mode u <= 2;
  inv_iodir : tri01 (io_dir u);
  inv_ioval : tri01 (io_val u);
  inv_idx : 0 <= usd_index u < 32;
  inv_ver : version u = [1; 3];
  inv_drv : driver_type u = 32
}.

Lemma inv_default idx lm : 0 <= idx < 32 -> Inv (usd_default idx lm).
Proof.
  intros Hi. constructor; cbn; unfold pos_ok, bit01, min_position, max_position; cbn; try lia; auto.
  - exists 1. split; [lia|reflexivity].
  - split; [discriminate|congruence].
Qed.

Lemma inv_init idx : 0 <= idx < 32 -> Inv (usd_init idx).
Proof. apply inv_default. Qed.

Lemma bitz_01 b i : bit01 (bitz b i).
Proof. unfold bit01, bitz. pose proof (Z.mod_pos_bound (b / 2 ^ i) 2). lia. Qed.

Lemma bit01_mul a b : bit01 a -> bit01 b -> bit01 (a * b).
Proof. unfold bit01. intros [->| ->] [->| ->]; cbn; auto. Qed.

Ltac inv_fields H :=
  destruct H as [Hpos Hres Hfreq Hready Hsb Hiodir Hioval Hidx Hver Hdrv].

(* a state that differs from an invariant one only in attributes the invariant does not read *)
Ltac keep_inv H :=
  inv_fields H; constructor; unfold pos_ok in *; cbn in *; auto.

Lemma pow2_in_table b : 0 <= b -> (8 <=? b) = false -> exists k, 0 <= k <= 7 /\ 2 ^ b = 2 ^ k.
Proof. intros H0 H8. exists b. split; [lia|reflexivity]. Qed.

(* the parameter bytes a decoded command carries are bytes *)
Definition cmd_wf (c : command) : Prop :=
  match c with
  | CSetResolution b | CSetCurrentReduction b => byte b
  | _ => True
  end.

Lemma decode_wf code p c : bytes p -> decode code p = DCmd c -> cmd_wf c.
Proof.
  intros Hp Hd.
  assert (Hc : (exists b, p = [b] /\ (c = CSetResolution b \/ c = CSetCurrentReduction b))
               \/ cmd_wf c).
  { unfold decode in Hd.
    repeat match type of Hd with
           | context [match ?x with _ => _ end] => destruct x; try discriminate Hd
           end;
    injection Hd as <-; try (right; exact I); left; eexists; split; try reflexivity; auto. }
  destruct Hc as [(b & -> & [-> | ->])|Hc]; try exact Hc; cbn; inversion Hp; assumption.
Qed.

Lemma exec_inv c byte_start u : cmd_wf c -> Inv u -> Inv (fst (exec c byte_start u)).
Proof.
  intros Hwf H. destruct c; cbn [exec fst acked refused].
  - (* reset *) apply inv_default. apply H.
  - (* trigger *)
    destruct (position_queue u) as [|[p a] rest] eqn:Hq; cbn [fst]; [exact H|].
    destruct (moving_by_velocity u); destruct rest; destruct u; keep_inv H;
      try (split; [discriminate|congruence]); try (split; [reflexivity|discriminate]).
  - exact H.
  - destruct u; keep_inv H.
  - exact H.
  - exact H.
  - exact H.
  - (* min frequency *)
    destruct (frequency_ok f && (f <=? max_frequency u)) eqn:E; cbn [fst]; [|exact H].
    unfold frequency_ok in E. destruct u; keep_inv H. lia.
  - destruct (frequency_ok f && (min_frequency u <=? f)) eqn:E; cbn [fst]; [|exact H].
    unfold frequency_ok in E. destruct u; keep_inv H. lia.
  - destruct u; keep_inv H.
  - destruct u; keep_inv H.
  - (* io pins *)
    destruct u; keep_inv H; unfold io_directions, io_values, tri01;
      repeat split; auto using bitz_01, bit01_mul.
  - (* resolution *)
    destruct (8 <=? b) eqn:E; cbn [fst]; destruct u; keep_inv H.
    + exists 0. split; [lia|reflexivity].
    + exists b. cbn in Hwf. unfold byte in Hwf. split; [lia|reflexivity].
  - (* current reduction *) cbn in Hwf. unfold byte in Hwf. destruct u; keep_inv H.
    destruct (b / 64 <=? 1) eqn:E; lia.
  - destruct u; keep_inv H.
  - destruct u; keep_inv H. split; [discriminate|congruence].
  - (* absolute *)
    unfold request_position. destruct (delayed_execution u) eqn:Ed; [|destruct (running u)];
      cbn [fst acked refused]; try exact H; destruct u; keep_inv H.
    split; [intros _; destruct position_queue; discriminate|reflexivity].
  - unfold request_position. destruct (delayed_execution u) eqn:Ed; [|destruct (running u)];
      cbn [fst acked refused]; try exact H; destruct u; keep_inv H.
    split; [intros _; destruct position_queue; discriminate|reflexivity].
  - destruct (running u); cbn [fst]; [exact H|]. destruct u; keep_inv H.
  - (* velocity *)
    destruct ((v <? -100000) || (100000 <? v)); cbn [fst refused]; [exact H|].
    destruct (negb (auto_resolution u) && (Z.abs v <? 10) && negb (v =? 0)); cbn [fst];
      [exact H|]. destruct u; keep_inv H.
  - destruct u; keep_inv H.
  - destruct u; keep_inv H.
  - destruct u; keep_inv H.
  - destruct u; keep_inv H.
Qed.

Lemma spec_handle_inv code b p u : bytes p -> Inv u -> Inv (fst (spec_handle code b p u)).
Proof.
  intros Hp H. unfold spec_handle. destruct (decode code p) as [c| |] eqn:Hd; cbn [fst refused]; auto.
  apply exec_inv; [eapply decode_wf; eassumption|exact H].
Qed.

(* calc_position leaves every attribute the invariant reads, except the position, alone *)
Definition same_config (u u' : usd) : Prop :=
  resolution u' = resolution u /\ min_frequency u' = min_frequency u /\
  max_frequency u' = max_frequency u /\ ready u' = ready u /\
  position_queue u' = position_queue u /\ standby_mode u' = standby_mode u /\
  io_dir u' = io_dir u /\ io_val u' = io_val u /\ usd_index u' = usd_index u /\
  version u' = version u /\ driver_type u' = driver_type u /\
  delayed_execution u' = delayed_execution u /\ auto_resolution u' = auto_resolution u /\
  reference_position u' = reference_position u.

Lemma same_config_refl u : same_config u u.
Proof. unfold same_config. tauto. Qed.

Lemma same_config_trans a b c : same_config a b -> same_config b c -> same_config a c.
Proof. unfold same_config. intuition congruence. Qed.

Lemma standby_part_config now u : same_config u (standby_part now u).
Proof.
  unfold standby_part.
  destruct (negb (running u) && negb (standby u)); [|apply same_config_refl].
  destruct (last_movement u) as [lm|]; [|apply same_config_refl].
  destruct (negb (lm =? 0) && standby_due (now - lm) (standby_delay_multiplier u));
    [|apply same_config_refl].
  destruct u; unfold same_config; cbn. tauto.
Qed.

Lemma calc_config d now u : same_config u (calc_position d now u).
Proof.
  unfold calc_position. eapply same_config_trans; [|apply standby_part_config].
  destruct (truthy (velocity u)).
  - destruct (velocity u); [|apply same_config_refl].
    destruct u; unfold same_config; cbn. tauto.
  - destruct (cmd_position u) as [cmd|].
    + cbv zeta. match goal with |- context [if ?c then _ else _] => destruct c end;
        destruct u; unfold same_config; cbn; tauto.
    + destruct u; unfold same_config; cbn. tauto.
Qed.

Lemma calc_inv d now u : Inv u -> Inv (calc_position d now u).
Proof.
  intros H. pose proof (calc_config d now u) as C. pose proof (calc_range d now u (inv_pos u H)) as R.
  unfold same_config in C. destruct C as (C1 & C2 & C3 & C4 & C5 & C6 & C7 & C8 & C9 & C10 & C11 & _).
  inv_fields H. constructor; rewrite ?C1, ?C2, ?C3, ?C4, ?C5, ?C6, ?C7, ?C8, ?C9, ?C10, ?C11; auto.
Qed.

(* the rounded displacement of the grid model is never negative *)
Lemma round_half_even_nonneg n m : 0 <= n -> 0 < m -> 0 <= round_half_even n m.
Proof.
  intros Hn Hm. unfold round_half_even.
  assert (0 <= n / m) by (apply Z.div_pos; lia).
  destruct (2 * (n mod m) <? m); [lia|]. destruct (m <? 2 * (n mod m)); [lia|].
  destruct (Z.even (n / m)); lia.
Qed.

Lemma displacement_nonneg u k : Inv u -> 0 <= k -> 0 <= displacement u k.
Proof.
  intros H Hk. unfold displacement. apply round_half_even_nonneg; [|lia].
  destruct (inv_res u H) as (j & Hj & Hr). destruct (inv_freq u H) as (F1 & F2 & F3).
  assert (0 <= frequency_of u).
  { unfold frequency_of. destruct (truthy (velocity u)); [destruct (velocity u)|]; lia. }
  assert (0 <= 128 / resolution u).
  { rewrite Hr. apply Z.div_pos; [lia|]. apply Z.pow_pos_nonneg; lia. }
  apply Z.mul_nonneg_nonneg; [apply Z.mul_nonneg_nonneg|]; lia.
Qed.
