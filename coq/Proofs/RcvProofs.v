(* Lemmas about Model/RcvModel.v: table obligations (re-opened whenever DEFINITIONS.py changes),
   addressing (unicast / broadcast / absent), checksum refusal, the system invariant and
   re-addressing. *)
From DS Require Import Base.Prelude Gen.RcvTables Model.RcvModel Proofs.RcvAssoc.

(* ------------------------------------------------------------------ *)
(* obligations on the generated tables *)

Lemma idx_ok : SLAVE_IDX = 1 /\ MASTER_IDX = 2 /\ CMD_IDX = 3 /\ ID_IDX = 4 /\ PAR_LEN_IDX = 5 /\
               PAR_LIST_IDX = 6 /\ CHECKSUM_IDX = -2.
Proof. repeat split; reflexivity. Qed.

Definition has_params (k : cmdk) : bool :=
  match k with
  | KSetAddr | KSetTime | KSetFrame | KGetPort | KSetPort | KGetData | KSetData => true
  | _ => false
  end.

Lemma kinds_ok k :
  classify (ext_code k) = Some k /\ classify (abbr_code k) = Some k /\
  mem (ext_code k) CMD_EXT = true /\ mem (abbr_code k) CMD_EXT = false /\
  mem (ext_code k) ACCEPTED_COMMANDS = true /\ mem (abbr_code k) ACCEPTED_COMMANDS = true /\
  with_params (ext_code k) = has_params k /\ with_params (abbr_code k) = has_params k.
Proof. destruct k; vm_compute; repeat split; reflexivity. Qed.

Lemma framing_classes k :
  mem (abbr_code k) CMD_ABBR_NO_PARAMS = negb (has_params k) /\
  mem (abbr_code k) CMD_ABBR_WITH_PARAMS = has_params k /\
  mem (abbr_code k) CMD_EXT_NO_PARAMS = false /\
  mem (ext_code k) CMD_EXT_NO_PARAMS = negb (has_params k) /\
  mem (ext_code k) CMD_ABBR_NO_PARAMS = false /\
  mem (ext_code k) CMD_ABBR_WITH_PARAMS = false.
Proof. destruct k; vm_compute; repeat split; reflexivity. Qed.

Lemma ext_accepted : forallb (fun c => mem c ACCEPTED_COMMANDS) CMD_EXT = true.
Proof. reflexivity. Qed.

Lemma classify_total : forallb (fun c => match classify c with Some _ => true | None => false end)
                               ACCEPTED_COMMANDS = true.
Proof. reflexivity. Qed.

(* the code recorded by _set_last_cmd is the code that was received *)
Lemma classify_code_sweep :
  forallb (fun c => match classify c with
                    | Some k => code_of k (mem c CMD_EXT) =? c
                    | None => true end) (map Z.of_nat (seq 0 256)) = true.
Proof. vm_compute. reflexivity. Qed.

Lemma broadcast_addrs : SLAVE_ADDR_BROADCAST = [SLAVE_ADDR_BROADCAST_NO_ANSWER; SLAVE_ADDR_BROADCAST_WITH_ANSWER]
  /\ SLAVE_ADDR_BROADCAST_NO_ANSWER = 0 /\ SLAVE_ADDR_BROADCAST_WITH_ANSWER = 127.
Proof. repeat split; reflexivity. Qed.

Lemma codes_distinct : CMD_ACK = 0 /\ CMD_ERR_CMD = 1 /\ CMD_ERR_CHKS = 2 /\ CMD_ERR_FORM = 3 /\ CMD_ERR_DATA = 4
  /\ CMD_ERR_FRAME_SIZE = 8 /\ CMD_ERR_DATA_TYPE = 9 /\ CMD_ERR_PORT_TYPE = 10 /\ CMD_ERR_PORT_NUMBER = 11.
Proof. repeat split; reflexivity. Qed.

Lemma addr_accepted_spec a : mem a SLAVE_ADDR_ACCEPTED = (1 <=? a) && (a <=? 126).
Proof.
  destruct (Z_lt_dec a 0); [destruct a; try lia; reflexivity|].
  destruct (Z_lt_dec 200 a).
  - assert (H : mem a SLAVE_ADDR_ACCEPTED = false).
    { unfold mem. apply Bool.not_true_is_false. intros H. apply existsb_exists in H as (x & Hx & He).
      apply Z.eqb_eq in He. subst x.
      assert (Hb : forallb (fun y => y <=? 200) SLAVE_ADDR_ACCEPTED = true) by reflexivity.
      rewrite forallb_forall in Hb. specialize (Hb _ Hx). lia. }
    rewrite H. lia.
  - assert (Hs : forallb (fun a => Bool.eqb (mem a SLAVE_ADDR_ACCEPTED) ((1 <=? a) && (a <=? 126)))
                         (map Z.of_nat (seq 0 201)) = true) by (vm_compute; reflexivity).
    rewrite forallb_forall in Hs. apply Bool.eqb_prop. apply Hs.
    apply in_map_iff. exists (Z.to_nat a). split; [lia|]. apply in_seq. lia.
Qed.


(* the protocol constants as the properties were written for them ("golden" values transcribed from the
   pinned tree): an edit of DEFINITIONS.py that changes any of them re-opens this obligation *)
Lemma golden_tables :
  CMD_SOH = 1 /\ CMD_STX = 2 /\ CMD_ETX = 3 /\ CMD_EOT = 4 /\
  CMD_EXT_NO_PARAMS = [65; 66; 67; 68; 69; 70; 72; 74] /\ CMD_EXT_WITH_PARAMS = [71; 73; 75; 76; 77; 78; 79] /\
  CMD_ABBR_NO_PARAMS = [97; 98; 99; 100; 101; 102; 104; 106] /\
  CMD_ABBR_WITH_PARAMS = [103; 105; 107; 108; 109; 110; 111] /\
  CMD_EXT = CMD_EXT_NO_PARAMS ++ CMD_EXT_WITH_PARAMS /\
  ACCEPTED_COMMANDS = CMD_EXT_NO_PARAMS ++ CMD_EXT_WITH_PARAMS ++ CMD_ABBR_NO_PARAMS ++ CMD_ABBR_WITH_PARAMS /\
  SLAVE_ADDR_ACCEPTED = map Z.of_nat (seq 1 126) /\ FRAME_SIZE_ACCEPTED = map Z.of_nat (seq 1 126) /\
  DATA_TYPES = map Z.of_nat (seq 0 27) ++ map Z.of_nat (seq 32 26) ++ [64] /\
  PORT_TYPES = map Z.of_nat (seq 0 9) ++ [64; 122; 123; 124; 125; 126; 127] /\
  PORT_NUMBERS = map Z.of_nat (seq 0 118) /\
  VERSION = [0; 0; 0; 0; 0; 0; 0; 0] /\
  DATA_TYPE_B01 = 3 /\ DATA_TYPE_U08 = 8 /\ DATA_TYPE_F32 = 24 /\ PORT_TYPE_DIO = 4 /\ PORT_TYPE_AD24 = 8 /\
  PORT_NUMBER_00_07 = 96.
Proof. repeat split; reflexivity. Qed.

(* the DIO port chains of slaves.py (read by the translator) are the ones the model implements *)
Lemma dio_chains_ok :
  DEWAR_get_data_ports = [PORT_NUMBER_00; PORT_NUMBER_04; PORT_NUMBER_05; PORT_NUMBER_06; PORT_NUMBER_07;
    PORT_NUMBER_08; PORT_NUMBER_11; PORT_NUMBER_12; PORT_NUMBER_13; PORT_NUMBER_14; PORT_NUMBER_16;
    PORT_NUMBER_17; PORT_NUMBER_18; PORT_NUMBER_24; PORT_NUMBER_26; PORT_NUMBER_29; PORT_NUMBER_30] /\
  DEWAR_set_data_ports = [PORT_NUMBER_00; PORT_NUMBER_04; PORT_NUMBER_05; PORT_NUMBER_07; PORT_NUMBER_08;
    PORT_NUMBER_11; PORT_NUMBER_12; PORT_NUMBER_13; PORT_NUMBER_14] /\
  SWITCH_get_data_ports = [PORT_NUMBER_00; PORT_NUMBER_01; PORT_NUMBER_02; PORT_NUMBER_04; PORT_NUMBER_05;
    PORT_NUMBER_06; PORT_NUMBER_07; PORT_NUMBER_08; PORT_NUMBER_11; PORT_NUMBER_12; PORT_NUMBER_13;
    PORT_NUMBER_14; PORT_NUMBER_16; PORT_NUMBER_17; PORT_NUMBER_18; PORT_NUMBER_19; PORT_NUMBER_24;
    PORT_NUMBER_26; PORT_NUMBER_29; PORT_NUMBER_30] /\
  SWITCH_set_data_ports = [PORT_NUMBER_00; PORT_NUMBER_01; PORT_NUMBER_02; PORT_NUMBER_04; PORT_NUMBER_05;
    PORT_NUMBER_07; PORT_NUMBER_08; PORT_NUMBER_11; PORT_NUMBER_12; PORT_NUMBER_13; PORT_NUMBER_14].
Proof. repeat split; reflexivity. Qed.

(* ------------------------------------------------------------------ *)
Section P.
  Variable clk : nat -> Z.
  Variable mkdate : list Z -> option Z.
  Variable render : Z -> option (list Z).

  Notation exec := (exec clk mkdate render).
  Notation exec_req := (exec_req clk mkdate render).
  Notation run_targets := (run_targets clk mkdate render).
  Notation handle := (handle clk mkdate render).
  Notation parse := (parse clk mkdate render).
  Notation run := (run clk mkdate render).

  Definition is_broadcast (sa : Z) : bool := mem sa SLAVE_ADDR_BROADCAST.

  (* what the slaves map becomes after one board ran a command *)
  Definition sl_after (sl : slaves) (a : Z) (r : bres) : slaves :=
    let sl1 := aset Z.eqb sl a (r_board r) in
    match r_tail r, r_moved r with
    | Some _, Some (Some a') => aset Z.eqb (adel Z.eqb sl1 a) a' (r_board r)
    | _, _ => sl1
    end.

  Definition one_outcome (q : req) (a : Z) (r : bres) : outcome :=
    match r_tail r, r_moved r with
    | None, _ => OExc
    | Some _, Some None => OExc
    | Some tail, _ => OReply (frame q a tail (r_trailer r))
    end.

  Lemma frame_nonempty q a tail tr : frame q a tail tr <> [].
  Proof. unfold frame. destruct tr; discriminate. Qed.

  (* ---- absent address ---- *)
  Lemma absent_silent_unchanged sl t m sa q :
    decode m = Some (sa, q) -> is_broadcast sa = false -> aget Z.eqb sl sa = None ->
    handle sl t m = (sl, t, OTrue).
  Proof.
    intros Hd Hb Ha. unfold handle. rewrite Hd. unfold targets_of. unfold is_broadcast in Hb. rewrite Hb.
    cbn. rewrite Ha. rewrite andb_false_r. reflexivity.
  Qed.

  (* ---- unicast ---- *)
  Lemma unicast_once sl t m sa q b :
    decode m = Some (sa, q) -> is_broadcast sa = false -> aget Z.eqb sl sa = Some b ->
    let r := exec_req q (keys_of sl) b t in
    handle sl t m = (sl_after sl sa r, r_tick r, one_outcome q sa r).
  Proof.
    intros Hd Hb Ha r. unfold handle. rewrite Hd. unfold targets_of. unfold is_broadcast in Hb. rewrite Hb.
    cbn [negb run_targets]. rewrite Ha. fold r. unfold sl_after, one_outcome, send_answer. rewrite Hb.
    destruct (r_tail r) as [tail|]; [|destruct (r_moved r) as [[?|]|]; reflexivity].
    destruct (r_moved r) as [[a'|]|]; cbn; try reflexivity.
    - destruct (frame q sa tail (r_trailer r)) eqn:E; [exfalso; eapply frame_nonempty; eauto|reflexivity].
    - destruct (frame q sa tail (r_trailer r)) eqn:E; [exfalso; eapply frame_nonempty; eauto|reflexivity].
  Qed.

  (* the other boards are not touched by a unicast request *)
  Lemma sl_after_other sl a r a' :
    a' <> a -> (forall x, r_moved r = Some (Some x) -> a' <> x) ->
    aget Z.eqb (sl_after sl a r) a' = aget Z.eqb sl a'.
  Proof.
    intros Hne Hm. unfold sl_after. destruct (r_tail r); [|apply aget_aset_other; assumption].
    destruct (r_moved r) as [[x|]|].
    - rewrite aget_aset_other by (apply Hm; reflexivity).
      rewrite aget_adel_other by assumption. apply aget_aset_other. assumption.
    - apply aget_aset_other. assumption.
    - apply aget_aset_other. assumption.
  Qed.

  (* ---- requests whose execution does not depend on the board: unknown command, bad checksum ---- *)
  Definition present (sl : slaves) (targets : list Z) : list Z :=
    filter (fun a => match aget Z.eqb sl a with Some _ => true | None => false end) targets.

  Lemma run_targets_const q tail tr :
    (forall keys b t, exec_req q keys b t = mkB b t (Some tail) tr None) ->
    forall targets sl t acc,
      run_targets q targets sl t acc =
      (sl, t, Some (acc ++ flat_map (fun a => frame q a tail tr) (present sl targets))).
  Proof.
    intros Hc. induction targets as [|a rest IH]; intros sl t acc; cbn.
    - rewrite app_nil_r. reflexivity.
    - destruct (aget Z.eqb sl a) as [b|] eqn:Ha; [|apply IH].
      rewrite Hc. cbn. rewrite (aset_same _ _ _ Ha). rewrite IH. rewrite <- app_assoc. reflexivity.
  Qed.

  Definition reply_of (send : bool) (total : list Z) : outcome :=
    if send && negb (match total with [] => true | _ => false end) then OReply total else OTrue.

  Lemma handle_const sl t m sa q tail tr :
    decode m = Some (sa, q) ->
    (forall keys b t, exec_req q keys b t = mkB b t (Some tail) tr None) ->
    handle sl t m = (sl, t, reply_of (send_answer sa)
                               (flat_map (fun a => frame q a tail tr) (present sl (targets_of sa sl)))).
  Proof.
    intros Hd Hc. unfold handle. rewrite Hd. rewrite (run_targets_const q tail tr Hc). reflexivity.
  Qed.

  Lemma exec_req_bad_checksum q keys b t :
    q_chk q = true -> mem (q_cmd q) ACCEPTED_COMMANDS = true ->
    exec_req q keys b t = mkB b t (Some [CMD_ERR_CHKS]) (q_ext q) None.
  Proof. intros Hc Ha. unfold RcvModel.exec_req. rewrite Ha, Hc. reflexivity. Qed.

  Lemma exec_req_unknown q keys b t :
    mem (q_cmd q) ACCEPTED_COMMANDS = false ->
    exec_req q keys b t = mkB b t (Some [CMD_ERR_CMD]) false None.
  Proof. intros Ha. unfold RcvModel.exec_req. rewrite Ha. reflexivity. Qed.

  Lemma mem_in x l : mem x l = true <-> In x l.
  Proof.
    unfold mem. rewrite existsb_exists. split.
    - intros (y & Hy & He). apply Z.eqb_eq in He. subst. assumption.
    - intros H. exists x. split; [assumption|apply Z.eqb_refl].
  Qed.

  Lemma chk_implies_accepted m sa q : decode m = Some (sa, q) -> q_chk q = true ->
    mem (q_cmd q) ACCEPTED_COMMANDS = true.
  Proof.
    unfold decode. destruct m as [|x0 [|x1 [|x2 [|x3 [|x4 rest]]]]]; try discriminate.
    destruct (nth_error _ _); [|discriminate]. intros H. injection H as <- <-. cbn [q_chk q_cmd].
    intros Hc. apply andb_true_iff in Hc as [He _].
    pose proof ext_accepted as Hf. rewrite forallb_forall in Hf. apply Hf. apply mem_in. exact He.
  Qed.

  Lemma bad_checksum sl t m sa q :
    decode m = Some (sa, q) -> q_chk q = true ->
    handle sl t m = (sl, t, reply_of (send_answer sa)
       (flat_map (fun a => frame q a [CMD_ERR_CHKS] (q_ext q)) (present sl (targets_of sa sl)))).
  Proof.
    intros Hd Hc. apply handle_const; [assumption|]. intros. apply exec_req_bad_checksum; [assumption|].
    eapply chk_implies_accepted; eauto.
  Qed.

  Lemma unknown_command sl t m sa q :
    decode m = Some (sa, q) -> mem (q_cmd q) ACCEPTED_COMMANDS = false ->
    handle sl t m = (sl, t, reply_of (send_answer sa)
       (flat_map (fun a => frame q a [CMD_ERR_CMD] false) (present sl (targets_of sa sl)))).
  Proof.
    intros Hd Hc. apply handle_const; [assumption|]. intros. apply exec_req_unknown; assumption.
  Qed.

  (* ---- silent broadcast = answered broadcast without the answer ---- *)
  Definition silence (o : outcome) : outcome := match o with OReply _ => OTrue | _ => o end.

  Lemma broadcast_silent_same_effect sl t m0 m1 q :
    decode m0 = Some (SLAVE_ADDR_BROADCAST_NO_ANSWER, q) ->
    decode m1 = Some (SLAVE_ADDR_BROADCAST_WITH_ANSWER, q) ->
    let '(sl0, t0, o0) := handle sl t m0 in
    let '(sl1, t1, o1) := handle sl t m1 in
    sl0 = sl1 /\ t0 = t1 /\ o0 = silence o1 /\ (o0 = OTrue \/ o0 = OExc).
  Proof.
    intros H0 H1. unfold handle. rewrite H0, H1.
    change (targets_of SLAVE_ADDR_BROADCAST_NO_ANSWER sl) with (keys_of sl).
    change (targets_of SLAVE_ADDR_BROADCAST_WITH_ANSWER sl) with (keys_of sl).
    destruct (run_targets q (keys_of sl) sl t []) as [[sl' t'] [total|]].
    - change (send_answer SLAVE_ADDR_BROADCAST_NO_ANSWER) with false.
      change (send_answer SLAVE_ADDR_BROADCAST_WITH_ANSWER) with true. cbn.
      destruct total; cbn; auto.
    - auto.
  Qed.

  (* ---- broadcast with answer: one frame per board, in the order of the map ---- *)
  Definition answer_frame_of (q : req) (a : Z) (f : list Z) : Prop :=
    exists tail tr, f = frame q a tail tr.

  Lemma run_targets_frames q : forall targets sl t acc sl' t' total,
    NoDup targets -> incl targets (keys_of sl) ->
    run_targets q targets sl t acc = (sl', t', Some total) ->
    exists frames, total = acc ++ concat frames /\ Forall2 (answer_frame_of q) targets frames.
  Proof.
    induction targets as [|a rest IH]; intros sl t acc sl' t' total Hnd Hincl Hr; cbn in Hr.
    - injection Hr as <- <- <-. exists []. rewrite app_nil_r. split; [reflexivity|constructor].
    - inversion Hnd as [|? ? Hni Hnd']; subst.
      destruct (aget_in sl a (Hincl a (or_introl eq_refl))) as [b Hb]. rewrite Hb in Hr.
      set (r := exec_req q (keys_of sl) b t) in *.
      assert (Hrest : forall sl2, (forall x, In x rest -> In x (keys_of sl2)) -> incl rest (keys_of sl2))
        by (intros sl2 H x Hx; auto).
      destruct (r_tail r) as [tail|] eqn:Et; [|discriminate].
      destruct (r_moved r) as [[a'|]|] eqn:Em; [| discriminate |].
      + apply IH in Hr as (frames & -> & Hf); [| assumption |].
        * exists (frame q a tail (r_trailer r) :: frames). cbn. rewrite <- app_assoc. split; [reflexivity|].
          constructor; [eexists; eexists; reflexivity|assumption].
        * intros x Hx. apply in_keys_aset. left. apply in_keys_adel; [intros ->; contradiction|].
          apply in_keys_aset. left. apply Hincl. right. assumption.
      + apply IH in Hr as (frames & -> & Hf); [| assumption |].
        * exists (frame q a tail (r_trailer r) :: frames). cbn. rewrite <- app_assoc. split; [reflexivity|].
          constructor; [eexists; eexists; reflexivity|assumption].
        * intros x Hx. apply in_keys_aset. left. apply Hincl. right. assumption.
  Qed.

  Lemma broadcast_all sl t m q sl' t' o :
    decode m = Some (SLAVE_ADDR_BROADCAST_WITH_ANSWER, q) -> NoDup (keys_of sl) -> sl <> [] ->
    handle sl t m = (sl', t', o) -> o <> OExc ->
    exists frames, o = OReply (concat frames) /\ Forall2 (answer_frame_of q) (keys_of sl) frames.
  Proof.
    intros Hd Hnd Hne Hh Ho. unfold handle in Hh. rewrite Hd in Hh.
    change (targets_of SLAVE_ADDR_BROADCAST_WITH_ANSWER sl) with (keys_of sl) in Hh.
    destruct (run_targets q (keys_of sl) sl t []) as [[sl2 t2] [total|]] eqn:Er.
    - apply run_targets_frames in Er as (frames & -> & Hf); [|assumption|apply incl_refl].
      injection Hh as <- <- <-. exists frames. split; [|assumption].
      change (send_answer SLAVE_ADDR_BROADCAST_WITH_ANSWER) with true. cbn.
      destruct sl as [|[a b] sl0]; [contradiction|]. inversion Hf as [|? f ? fs [tail [tr ->]] Hfs]; subst.
      cbn. destruct (frame q a tail tr) eqn:E; [exfalso; eapply frame_nonempty; eauto|reflexivity].
    - injection Hh as <- <- <-. contradiction.
  Qed.
End P.
