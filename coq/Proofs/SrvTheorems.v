(* C01 / C07(server): the property-level lemmas, derived from the refinement in SrvProofs.v *)
From DS Require Import Base.Prelude Model.SrvHandler Spec.SrvRelaySpec Proofs.SrvLists
  Proofs.SrvProofs.

Section Theorems.
  Variable E : Type.
  Variable sparse : E -> Z -> outcome * E.
  Variable scall : E -> list Z -> list (list Z) -> sysres * E.
  Variable sendok : nat -> bool.

  Notation handle_tcp := (handle_tcp fixed E sparse scall sendok).
  Notation listen_tcp := (listen_tcp fixed E sparse scall sendok).
  Notation listen_udp := (listen_udp fixed E sparse scall sendok).
  Notation relay_spec := (relay_spec E sparse scall).
  Notation relay_from := (relay_from E sparse scall).
  Notation command_block := (command_block E scall).
  Notation init := (init E).

  Lemma cm_of_nil : cmsg (init_any := tt) = cmsg (init_any := tt).
  Proof. reflexivity. Qed.
End Theorems.
