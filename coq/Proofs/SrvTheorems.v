(* C01 / C07(server): the property-level lemmas, derived from the refinement in SrvProofs.v *)
From DS Require Import Base.Prelude Model.SrvHandler Spec.SrvRelaySpec Proofs.SrvLists Proofs.SrvProofs.

Definition nonempty (s : list Z) : Prop := s <> [].

Lemma concat_nil_nonempty (segs : list (list Z)) :
  Forall nonempty segs -> concat segs = [] -> segs = [].
Proof.
  destruct segs as [|s segs]; [reflexivity|].
  intros H Hc. inversion H as [|? ? Hs _]; subst. cbn in Hc.
  apply app_eq_nil in Hc as [Hs' _]. contradiction.
Qed.

(* ---- body grammar --------------------------------------------------------- *)

Lemma py_split_length c s : length (py_split c s) = S (count_occ Z.eq_dec s c).
Proof.
  induction s as [|x r IH]; cbn.
  - reflexivity.
  - destruct (x =? c) eqn:Ex.
    + apply Z.eqb_eq in Ex. subst x. destruct (Z.eq_dec c c); [|congruence]. cbn. rewrite IH.
      reflexivity.
    + apply Z.eqb_neq in Ex. destruct (Z.eq_dec x c); [congruence|].
      pose proof (py_split_nonempty c r).
      destruct (py_split c r) as [|h t]; [congruence|]. cbn in *. lia.
Qed.

(* malformed = two or more ':' in the body *)
Lemma parse_body_malformed body :
  parse_body body = None <-> (2 <= count_occ Z.eq_dec body COLON)%nat.
Proof.
  unfold parse_body. pose proof (py_split_length COLON body) as Hl.
  destruct (py_split COLON body) as [|a [|b [|c l]]]; cbn in Hl; split; intros H;
    try discriminate; try lia; reflexivity.
Qed.

(* a well-formed body is  name  or  name ':' ps ; the parameters are the comma-separated
   pieces of ps (none when ps is empty) *)
Lemma parse_body_sound body name params :
  parse_body body = Some (name, params) ->
  ~ In COLON name /\
  ((body = name /\ params = []) \/
   (exists ps, body = name ++ COLON :: ps /\ ~ In COLON ps /\
               (ps = [] -> params = []) /\
               (ps <> [] -> join COMMA params = ps /\ forall p, In p params -> ~ In COMMA p))).
Proof.
  unfold parse_body. intros H.
  pose proof (py_split_join COLON body) as Hj.
  pose proof (py_split_parts COLON body) as Hp.
  destruct (py_split COLON body) as [|a [|b [|c l]]]; try discriminate.
  - injection H as <- <-. cbn in Hj. split.
    + apply Hp. left. reflexivity.
    + left. auto.
  - injection H as <- <-. cbn in Hj. split.
    + apply Hp. left. reflexivity.
    + right. exists b. split; [symmetry; exact Hj|]. split.
      * apply Hp. right. left. reflexivity.
      * split.
        -- intros ->. reflexivity.
        -- intros Hb. destruct b as [|b0 b']; [congruence|]. split.
           ++ apply py_split_join.
           ++ intros p. apply py_split_parts.
Qed.

  (* [scan] finds exactly the declaratively defined occurrences *)
  Lemma scan_from_complete rest : forall pre body,
    In body (scan_from pre rest) <->
    exists k, (0 < k <= length rest)%nat /\ command_ends (pre ++ firstn k rest) body.
  Proof.
    induction rest as [|b r IH]; intros pre body.
    - cbn. split; [tauto|]. intros (k & Hk & _). lia.
    - cbn [scan_from].
      assert (Hstep : In body (scan_from (pre ++ [b]) r) <->
                      exists k, (1 < k <= length (b :: r))%nat /\
                                command_ends (pre ++ firstn k (b :: r)) body).
      { rewrite IH. split.
        - intros (k & Hk & Hc). exists (S k). cbn [length firstn]. split; [lia|].
          rewrite <- app_assoc in Hc. exact Hc.
        - intros (k & Hk & Hc). destruct k as [|k]; [lia|]. exists k. cbn [length] in Hk.
          split; [lia|]. cbn [firstn] in Hc. rewrite <- app_assoc. exact Hc. }
      assert (Hone : completes (pre ++ [b]) = Some body <->
                     command_ends (pre ++ firstn 1 (b :: r)) body).
      { cbn [firstn]. apply completes_iff. }
      destruct (completes (pre ++ [b])) as [body'|] eqn:Ec.
      + cbn [In]. rewrite Hstep. split.
        * intros [<-|(k & Hk & Hc)].
          -- exists 1%nat. cbn [length]. split; [lia|]. apply Hone. reflexivity.
          -- exists k. split; [lia | exact Hc].
        * intros (k & Hk & Hc). destruct (Nat.eq_dec k 1) as [->|Hk1].
          -- left. apply Hone in Hc. congruence.
          -- right. exists k. split; [lia | exact Hc].
      + rewrite Hstep. split.
        * intros (k & Hk & Hc). exists k. split; [lia | exact Hc].
        * intros (k & Hk & Hc). destruct (Nat.eq_dec k 1) as [->|Hk1].
          -- apply Hone in Hc. discriminate.
          -- exists k. split; [lia | exact Hc].
  Qed.

  Lemma scan_complete bs body :
    In body (scan bs) <->
    exists k, (0 < k <= length bs)%nat /\ command_ends (firstn k bs) body.
  Proof. apply (scan_from_complete bs [] body). Qed.

(* the greeting of a TCP connection: system_greet() returned None or a latin-1 str *)
Definition greeting_ok (greet : option (list Z)) : Prop :=
  match greet with Some g => encode_latin1 g = Some g | None => True end.
Definition greeting_actions (greet : option (list Z)) : list action :=
  match greet with Some (c :: g) => [Send (c :: g)] | _ => [] end.

Section Theorems.
  Variable E : Type.
  Variable sparse : E -> Z -> outcome * E.
  Variable scall : E -> list Z -> list (list Z) -> sysres * E.
  Variable sendok : nat -> bool.

  Notation handle_tcp := (handle_tcp fixed E sparse scall sendok).
  Notation handle_segment := (handle_segment fixed E sparse scall sendok).
  Notation handle_bytes := (handle_bytes fixed E sparse scall sendok).
  Notation listen_tcp := (listen_tcp fixed E sparse scall sendok).
  Notation listen_udp := (listen_udp fixed E sparse scall sendok).
  Notation send_loop := (send_loop fixed E scall sendok).
  Notation send_iter := (send_iter fixed E scall sendok).
  Notation send_handle := (send_handle fixed E scall sendok).
  Notation exec_custom := (exec_custom fixed E scall sendok).
  Notation relay_spec := (relay_spec E sparse scall).
  Notation relay_from := (relay_from E sparse scall).
  Notation command_block := (command_block E scall).
  Notation block_at := (block_at E scall).
  Notation init := (init E).

  Lemma cm_of_nil : cm_of [] = [].
  Proof. reflexivity. Qed.

  Section SendsSucceed.
    Hypothesis Hsend : forall k, sendok k = true.

    (* relay = specification, for any partition into non-empty segments *)
    Lemma tcp_relay e segs bs :
      Forall nonempty segs -> concat segs = bs ->
      let r := handle_tcp (init e) (map Some segs) in
      actions_of r = fst (relay_spec bs e) /\ env (state_of r) = snd (relay_spec bs e) /\
      flow_of r = Continue.
    Proof.
      intros Hne <-.
      pose proof (handle_tcp_spec E sparse scall sendok Hsend segs [] (init e) Hne eq_refl) as H.
      cbn zeta in *. unfold SrvRelaySpec.relay_spec. tauto.
    Qed.

    (* segmentation independence: any partition behaves as the single segment *)
    Lemma tcp_segmentation e segs :
      Forall nonempty segs ->
      let r1 := handle_tcp (init e) (map Some segs) in
      let r2 := handle_tcp (init e) [Some (concat segs)] in
      actions_of r1 = actions_of r2 /\ env (state_of r1) = env (state_of r2) /\
      cmsg (state_of r1) = cmsg (state_of r2).
    Proof.
      intros Hne. cbn zeta.
      destruct (concat segs) as [|c s] eqn:Ec.
      - rewrite (concat_nil_nonempty segs Hne Ec). cbn. auto.
      - pose proof (handle_tcp_spec E sparse scall sendok Hsend segs [] (init e) Hne eq_refl) as H1.
        assert (Hne2 : Forall nonempty [c :: s]) by (constructor; [discriminate | constructor]).
        pose proof (handle_tcp_spec E sparse scall sendok Hsend [c :: s] [] (init e) Hne2 eq_refl)
          as H2.
        cbn zeta in *. rewrite Ec in H1. cbn [concat map] in H2. rewrite app_nil_r in H2.
        cbn [map] in H2.
        destruct H1 as (A1 & B1 & C1 & _). destruct H2 as (A2 & B2 & C2 & _).
        rewrite A1, A2, B1, B2, C1, C2. auto.
    Qed.

    (* whole TCP connection: setup (greeting) then handle *)
    Lemma listen_tcp_relay greet e segs bs :
      greeting_ok greet -> Forall nonempty segs -> concat segs = bs ->
      actions_of (listen_tcp greet e (map Some segs))
        = greeting_actions greet ++ fst (relay_spec bs e).
    Proof.
      intros Hg Hne <-. unfold SrvHandler.listen_tcp, SrvHandler.setup_tcp.
      assert (Hgen : forall h, cmsg h = [] -> env h = e ->
                actions_of (handle_tcp h (map Some segs)) = fst (relay_spec (concat segs) e)).
      { intros h Hc He.
        pose proof (handle_tcp_spec E sparse scall sendok Hsend segs [] h Hne Hc) as H.
        cbn zeta in H. rewrite He in H. unfold SrvRelaySpec.relay_spec. tauto. }
      destruct greet as [[|c g]|]; cbn [greeting_actions].
      - specialize (Hgen (init e) eq_refl eq_refl).
        destruct (handle_tcp (init e) (map Some segs)) as [[a h] f].
        unfold actions_of in *. cbn [fst snd app] in *. exact Hgen.
      - cbn in Hg. rewrite Hg. cbn [nsend SrvHandler.init]. rewrite Hsend.
        specialize (Hgen (bump E (init e)) eq_refl eq_refl).
        destruct (handle_tcp (bump E (init e)) (map Some segs)) as [[a h] f].
        unfold actions_of in *. cbn [fst snd app] in *. rewrite Hgen. reflexivity.
      - specialize (Hgen (init e) eq_refl eq_refl).
        destruct (handle_tcp (init e) (map Some segs)) as [[a h] f].
        unfold actions_of in *. cbn [fst snd app] in *. exact Hgen.
    Qed.

    (* UDP: one datagram is the stream datagram ++ newline in one piece *)
    Lemma udp_relay e msg :
      let r := listen_udp e msg in
      actions_of r = fst (relay_spec (msg ++ [NEWLINE]) e) /\
      env (state_of r) = snd (relay_spec (msg ++ [NEWLINE]) e) /\ flow_of r = Continue.
    Proof.
      unfold SrvHandler.listen_udp, SrvHandler.handle_segment.
      pose proof (handle_bytes_spec E sparse scall sendok Hsend (msg ++ [NEWLINE]) [] VNone (init e)
                    I eq_refl) as H.
      cbn zeta in *. unfold SrvRelaySpec.relay_spec. tauto.
    Qed.
  End SendsSucceed.

  (* ---- projections of the specification ---------------------------------- *)

  Lemma parses_app a b : parses (a ++ b) = parses a ++ parses b.
  Proof. unfold parses. apply flat_map_app. Qed.
  Lemma calls_app a b : calls (a ++ b) = calls a ++ calls b.
  Proof. unfold calls. apply flat_map_app. Qed.

  Lemma parses_reply o : parses (reply_of o) = [].
  Proof.
    destruct o as [[| b | [|c s] | |]| |]; try reflexivity.
    cbn. destruct (encode_latin1 (c :: s)); reflexivity.
  Qed.
  Lemma calls_reply o : calls (reply_of o) = [].
  Proof.
    destruct o as [[| b | [|c s] | |]| |]; try reflexivity.
    cbn. destruct (encode_latin1 (c :: s)); reflexivity.
  Qed.

  Lemma parses_result r : parses (result_actions r) = [].
  Proof.
    destruct r as [s| | |]; try reflexivity. cbn.
    destruct (encode_latin1 s); [|reflexivity]. destruct (zlist_eqb s shutdown_ack); reflexivity.
  Qed.
  Lemma calls_result r : calls (result_actions r) = [].
  Proof.
    destruct r as [s| | |]; try reflexivity. cbn.
    destruct (encode_latin1 s); [|reflexivity]. destruct (zlist_eqb s shutdown_ack); reflexivity.
  Qed.

  Definition call_of_body (body : list Z) : list (list Z * list (list Z)) :=
    match parse_body body with Some np => [np] | None => [] end.

  Lemma parses_block e body : parses (fst (command_block e body)) = [].
  Proof.
    unfold SrvRelaySpec.command_block. destruct (parse_body body) as [[n p]|]; [|reflexivity].
    destruct (scall e n p) as [r e']. cbn [fst]. cbn. apply parses_result.
  Qed.
  Lemma calls_block e body : calls (fst (command_block e body)) = call_of_body body.
  Proof.
    unfold SrvRelaySpec.command_block, call_of_body.
    destruct (parse_body body) as [[n p]|]; [|reflexivity].
    destruct (scall e n p) as [r e']. cbn [fst]. cbn. rewrite calls_result. reflexivity.
  Qed.

  (* every byte reaches the parser exactly once, in order *)
  Lemma spec_parses rest : forall pre e, parses (fst (relay_from pre rest e)) = rest.
  Proof.
    induction rest as [|b r IH]; intros pre e.
    - reflexivity.
    - rewrite relay_from_cons. cbn zeta. cbn [fst].
      change (Parse b :: ?x) with ([Parse b] ++ x).
      rewrite !parses_app, parses_reply, IH. unfold SrvProofs.block_at.
      destruct (completes (pre ++ [b])); [rewrite parses_block|]; reflexivity.
  Qed.

  (* the outcomes of the successive parses when no custom command intervenes *)
  Fixpoint outs_from (e : E) (bs : list Z) : list outcome :=
    match bs with
    | [] => []
    | b :: r => let (o, e') := sparse e b in o :: outs_from e' r
    end.

  Lemma sends_app a b : sends (a ++ b) = sends a ++ sends b.
  Proof. unfold sends. apply flat_map_app. Qed.

  (* without custom commands in the stream, what is transmitted is exactly the replies of the
     parser, once each, in order *)
  Lemma spec_sends rest : forall pre e, scan_from pre rest = [] ->
    sends (fst (relay_from pre rest e)) = flat_map (fun o => sends (reply_of o)) (outs_from e rest).
  Proof.
    induction rest as [|b r IH]; intros pre e Hs.
    - reflexivity.
    - rewrite relay_from_cons. cbn zeta. cbn [fst]. cbn [scan_from] in Hs.
      cbn [outs_from]. unfold SrvProofs.block_at.
      destruct (completes (pre ++ [b])) as [body|]; [discriminate|].
      destruct (sparse e b) as [o e1]. cbn [fst snd flat_map].
      change (Parse b :: ?x) with ([Parse b] ++ x).
      rewrite !sends_app. cbn [app]. rewrite (IH _ _ Hs). reflexivity.
  Qed.

  (* the operations invoked are exactly the well-formed commands of the stream, in order, once *)
  Lemma spec_calls rest : forall pre e,
    calls (fst (relay_from pre rest e)) = flat_map call_of_body (scan_from pre rest).
  Proof.
    induction rest as [|b r IH]; intros pre e.
    - reflexivity.
    - rewrite relay_from_cons. cbn zeta. cbn [fst].
      change (Parse b :: ?x) with ([Parse b] ++ x).
      rewrite !calls_app, calls_reply, IH. unfold SrvProofs.block_at. cbn [scan_from].
      destruct (completes (pre ++ [b])) as [body|].
      + rewrite calls_block. cbn. reflexivity.
      + reflexivity.
  Qed.

  (* the same two facts on the handler itself, for any segmentation *)
  Lemma tcp_parses e segs :
    (forall k, sendok k = true) -> Forall nonempty segs ->
    parses (actions_of (handle_tcp (init e) (map Some segs))) = concat segs.
  Proof.
    intros Hsend Hne. destruct (tcp_relay Hsend e segs _ Hne eq_refl) as (-> & _).
    apply spec_parses.
  Qed.

  Lemma tcp_sends e segs :
    (forall k, sendok k = true) -> Forall nonempty segs -> scan (concat segs) = [] ->
    sends (actions_of (handle_tcp (init e) (map Some segs)))
      = flat_map (fun o => sends (reply_of o)) (outs_from e (concat segs)).
  Proof.
    intros Hsend Hne Hs. destruct (tcp_relay Hsend e segs _ Hne eq_refl) as (-> & _).
    apply spec_sends. exact Hs.
  Qed.

  Lemma tcp_calls e segs :
    (forall k, sendok k = true) -> Forall nonempty segs ->
    calls (actions_of (handle_tcp (init e) (map Some segs)))
      = flat_map call_of_body (scan (concat segs)).
  Proof.
    intros Hsend Hne. destruct (tcp_relay Hsend e segs _ Hne eq_refl) as (-> & _).
    apply spec_calls.
  Qed.

  (* a byte the parser rejects, or answers with anything but a non-empty str, is silent *)
  Lemma reply_silent o :
    (forall c s, o <> ORet (VStr (c :: s))) -> reply_of o = [].
  Proof.
    intros H. destruct o as [[| b | [|c s] | |]| |]; try reflexivity.
    exfalso. apply (H c s). reflexivity.
  Qed.

  (* a reply is transmitted byte for byte *)
  Lemma reply_exact c s :
    Forall (fun x => x < 256) (c :: s) -> reply_of (ORet (VStr (c :: s))) = [Send (c :: s)].
  Proof.
    intros H. unfold reply_of, encode_latin1.
    replace (forallb (fun c0 => c0 <? 256) (c :: s)) with true; [reflexivity|].
    symmetry. apply forallb_forall. intros x Hx. rewrite Forall_forall in H.
    apply Z.ltb_lt. apply H. exact Hx.
  Qed.

  (* malformed and unknown commands *)
  Lemma block_malformed e body : parse_body body = None -> command_block e body = ([], e).
  Proof. unfold SrvRelaySpec.command_block. intros ->. reflexivity. Qed.

  Lemma block_unknown e body name params :
    parse_body body = Some (name, params) ->
    (fst (scall e name params) = RAttrErr \/ fst (scall e name params) = RExc \/
     fst (scall e name params) = RNonStr) ->
    fst (command_block e body) = [Call name params].
  Proof.
    unfold SrvRelaySpec.command_block. intros -> H.
    destruct (scall e name params) as [r e']. cbn [fst] in *.
    destruct H as [->|[->| ->]]; reflexivity.
  Qed.

  (* ---- no exception leaves the handler (any socket behaviour, any recv events) ---- *)

  Lemma tcp_alive e evs :
    no_dies (actions_of (handle_tcp (init e) evs)) /\ flow_of (handle_tcp (init e) evs) = Continue.
  Proof. apply handle_tcp_alive. Qed.

  Lemma udp_alive e msg :
    no_dies (actions_of (listen_udp e msg)) /\ flow_of (listen_udp e msg) = Continue.
  Proof. unfold SrvHandler.listen_udp, SrvHandler.handle_segment. apply handle_bytes_alive. Qed.

  (* ---- C07: $system_stop%%%%% ------------------------------------------- *)

  Lemma stop_completes x : completes (x ++ stop_command) = Some stop_name.
  Proof.
    apply completes_iff. exists x. split; [reflexivity|]. split.
    - cbn. unfold HEADER. lia.
    - apply contains_tail_false_iff. reflexivity.
  Qed.

  (* what the device answers to system_stop() *)
  Definition stop_answers (s : list Z) : Prop :=
    forall e, fst (scall e stop_name []) = RStr s.

  Definition stop_block (s : list Z) : list action :=
    Call stop_name [] :: Send s :: (if zlist_eqb s shutdown_ack then [Stop] else []).

  Lemma command_block_some e body n p : parse_body body = Some (n, p) ->
    command_block e body = (Call n p :: result_actions (fst (scall e n p)), snd (scall e n p)).
  Proof.
    unfold SrvRelaySpec.command_block. intros ->. destruct (scall e n p). reflexivity.
  Qed.

  Lemma stop_block_eq e s : stop_answers s -> encode_latin1 s = Some s ->
    fst (command_block e stop_name) = stop_block s.
  Proof.
    intros Hs He. rewrite (command_block_some e stop_name stop_name [] eq_refl). cbn [fst].
    rewrite (Hs e). unfold result_actions. rewrite He. reflexivity.
  Qed.

  (* specification level: wherever the command is in the stream *)
  Lemma spec_stop s x y e : stop_answers s -> encode_latin1 s = Some s ->
    exists a1 a2, fst (relay_spec (x ++ stop_command ++ y) e) = a1 ++ stop_block s ++ a2.
  Proof.
    intros Hs He. unfold SrvRelaySpec.relay_spec.
    set (ini := HEADER :: stop_name ++ [PCT; PCT; PCT; PCT]).
    assert (Hsc : stop_command = ini ++ [PCT]) by reflexivity.
    rewrite Hsc. rewrite <- !app_assoc. rewrite (app_assoc x ini).
    rewrite relay_from_app. cbn zeta. cbn [fst app].
    set (r1 := relay_from [] (x ++ ini) e).
    cbn [app]. rewrite relay_from_cons. cbn zeta. cbn [fst].
    unfold SrvProofs.block_at.
    replace ((x ++ ini) ++ [PCT]) with (x ++ stop_command)
      by (rewrite Hsc, app_assoc; reflexivity).
    rewrite stop_completes. rewrite (stop_block_eq _ s Hs He).
    exists (fst r1 ++ Parse PCT :: reply_of (fst (sparse (snd r1) PCT))). eexists.
    rewrite <- app_assoc. cbn [app]. reflexivity.
  Qed.

  (* listening server, any segmentation *)
  Lemma listen_stop s x y e segs :
    (forall k, sendok k = true) -> stop_answers s -> encode_latin1 s = Some s ->
    Forall nonempty segs -> concat segs = x ++ stop_command ++ y ->
    exists a1 a2, actions_of (handle_tcp (init e) (map Some segs)) = a1 ++ stop_block s ++ a2.
  Proof.
    intros Hsend Hs He Hne Hc.
    destruct (tcp_relay Hsend e segs _ Hne Hc) as (Ha & _). rewrite Ha.
    apply spec_stop; assumption.
  Qed.

  Lemma udp_stop s x y e :
    (forall k, sendok k = true) -> stop_answers s -> encode_latin1 s = Some s ->
    exists a1 a2, actions_of (listen_udp e (x ++ stop_command ++ y)) = a1 ++ stop_block s ++ a2.
  Proof.
    intros Hsend Hs He.
    destruct (udp_relay Hsend e (x ++ stop_command ++ y)) as (Ha & _). rewrite Ha.
    rewrite <- !app_assoc. apply spec_stop; assumption.
  Qed.

  (* sending server: the command must be a whole chunk *)
  Lemma exec_stop s h :
    (forall k, sendok k = true) -> stop_answers s -> encode_latin1 s = Some s ->
    exists h', exec_custom h stop_name = (stop_block s, h', Continue).
  Proof.
    intros Hsend Hs He.
    destruct (exec_custom_spec E scall sendok Hsend h stop_name) as (h' & Hx & _).
    rewrite (stop_block_eq _ s Hs He) in Hx. eauto.
  Qed.

  Definition live_chunk (r : recv_ev) : Prop := r <> RChunk [].

  Lemma send_iter_continue h r q :
    (forall k, sendok k = true) -> live_chunk r ->
    snd (send_iter false h r q) = Continue.
  Proof.
    intros Hsend Hl. unfold SrvHandler.send_iter.
    assert (Hq : forall h0, snd (send_queue E sendok false h0 q) = Continue).
    { intros h0. unfold send_queue. destruct q; [reflexivity|]. rewrite Hsend. reflexivity. }
    destruct r as [[|c l]|].
    - exfalso. apply Hl. reflexivity.
    - unfold send_chunk.
      destruct (starts_with_header (c :: l) && ends_with custom_tail (c :: l)).
      + pose proof (exec_custom_alive E scall sendok h (slice_1_m5 (c :: l))) as [_ Hf].
        destruct (exec_custom h (slice_1_m5 (c :: l))) as [[a h1] f]. cbn [snd] in Hf. subst f.
        specialize (Hq h1). destruct (send_queue E sendok false h1 q) as [[a2 h2] f2].
        exact Hq.
      + specialize (Hq h). destruct (send_queue E sendok false h q) as [[a2 h2] f2]. exact Hq.
    - apply Hq.
  Qed.

  Lemma send_loop_stop s r1 : forall h r2 qs,
    (forall k, sendok k = true) -> stop_answers s -> encode_latin1 s = Some s ->
    Forall live_chunk r1 ->
    exists a1 a2,
      actions_of (send_loop false h (r1 ++ RChunk stop_command :: r2) qs) = a1 ++ stop_block s ++ a2.
  Proof.
    induction r1 as [|r r1 IH]; intros h r2 qs Hsend Hs He Hl.
    - cbn [app SrvHandler.send_loop]. unfold SrvHandler.send_iter, send_chunk.
      unfold stop_command. lazy beta iota. fold stop_command.
      change (starts_with_header stop_command && ends_with custom_tail stop_command) with true.
      change (slice_1_m5 stop_command) with stop_name. lazy beta iota.
      destruct (exec_stop s h Hsend Hs He) as (h' & ->).
      destruct (send_queue E sendok false h' (hd_queue qs)) as [[a2 h2] f2].
      exists [].
      destruct f2.
      + destruct (send_loop false h2 r2 (tl qs)) as [[a3 h3] f3].
        unfold actions_of. cbn [fst app]. eexists. rewrite <- app_assoc. reflexivity.
      + unfold actions_of. cbn [fst app]. eexists. reflexivity.
      + unfold actions_of. cbn [fst app]. eexists. reflexivity.
    - inversion Hl as [|? ? Hr Hl']; subst.
      cbn [app SrvHandler.send_loop].
      pose proof (send_iter_continue h r (hd_queue qs) Hsend Hr) as Hf.
      destruct (send_iter false h r (hd_queue qs)) as [[a h1] f]. cbn [snd] in Hf. subst f.
      destruct (IH h1 r2 (tl qs) Hsend Hs He Hl') as (a1 & a2 & Ha).
      destruct (send_loop false h1 (r1 ++ RChunk stop_command :: r2) (tl qs)) as [[a' h'] f'].
      unfold actions_of in *. cbn [fst] in *. rewrite Ha.
      exists (a ++ a1), a2. rewrite <- app_assoc. reflexivity.
  Qed.

  Lemma send_handle_stop s r1 r2 qs e :
    (forall k, sendok k = true) -> stop_answers s -> encode_latin1 s = Some s ->
    Forall live_chunk r1 ->
    exists a1 a2,
      actions_of (send_handle None e (r1 ++ RChunk stop_command :: r2) qs)
        = a1 ++ stop_block s ++ a2.
  Proof.
    intros Hsend Hs He Hl. unfold SrvHandler.send_handle.
    destruct (send_loop_stop s r1 (init e) r2 qs Hsend Hs He Hl) as (a1 & a2 & Ha).
    destruct (send_loop false (init e) (r1 ++ RChunk stop_command :: r2) qs) as [[a h] f].
    unfold actions_of in *. cbn [fst] in *. subst a.
    destruct f; unfold actions_of; cbn [fst].
    - exists (Subscribe :: a1), (a2 ++ [Unsubscribe]). cbn [app]. rewrite <- !app_assoc. reflexivity.
    - exists (Subscribe :: a1), (a2 ++ [Unsubscribe]). cbn [app]. rewrite <- !app_assoc. reflexivity.
    - exists (Subscribe :: a1), a2. reflexivity.
  Qed.

End Theorems.
