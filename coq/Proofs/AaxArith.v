(* Aax — arithmetic lemmas for the axis kinematics model: rounding, displacement, _calc_position. *)
From DS Require Import Base.Prelude Model.AaxModel.

Lemma rhe_pos_bound n d : 0 < d ->
  2 * n - d <= 2 * d * rhe_pos n d <= 2 * n + d.
Proof.
  intros Hd. unfold rhe_pos.
  destruct (2 * (n mod d) <? d) eqn:E1; [nia|].
  destruct (d <? 2 * (n mod d)) eqn:E2; [nia|].
  destruct (Z.even (n / d)); nia.
Qed.

Lemma rhe_pos_nonneg n d : 0 < d -> 0 <= n -> 0 <= rhe_pos n d.
Proof.
  intros Hd Hn. unfold rhe_pos.
  assert (0 <= n / d) by (apply Z.div_pos; lia).
  destruct (2 * (n mod d) <? d); [lia|].
  destruct (d <? 2 * (n mod d)); [lia|].
  destruct (Z.even (n / d)); lia.
Qed.

Lemma disp_nonneg r k : 0 <= k -> 0 <= disp r k.
Proof.
  intros Hk. unfold disp, rhe. cbn. apply rhe_pos_nonneg; nia.
Qed.

(* the rounded displacement exceeds |rate| * dt by at most half a microdegree *)
Lemma disp_bound r k : 0 <= k -> 2 * 1024 * disp r k <= 2 * (Z.abs r * k) + 1024.
Proof.
  intros Hk. unfold disp, rhe. cbn [Z.ltb Z.compare].
  pose proof (rhe_pos_bound (Z.abs r * k) 1024 ltac:(lia)). lia.
Qed.

Lemma disp_lower r k : 0 <= k -> 2 * (Z.abs r * k) - 1024 <= 2 * 1024 * disp r k.
Proof.
  intros Hk. unfold disp, rhe. cbn [Z.ltb Z.compare].
  pose proof (rhe_pos_bound (Z.abs r * k) 1024 ltac:(lia)). lia.
Qed.

Lemma disp_spec r k : 0 <= k ->
  0 <= disp r k /\ 2 * 1024 * disp r k <= 2 * (Z.abs r * k) + 1024.
Proof. intros Hk. exact (conj (disp_nonneg r k Hk) (disp_bound r k Hk)). Qed.

Lemma disp_zero r : disp r 0 = 0.
Proof. unfold disp. rewrite Z.mul_0_r. reflexivity. Qed.

(* rounding is monotone *)
Lemma rhe_pos_mono n m d : 0 < d -> n <= m -> rhe_pos n d <= rhe_pos m d.
Proof.
  intros Hd Hnm.
  destruct (Z.eq_dec (n / d) (m / d)) as [E|E].
  - assert (Hmod : n mod d <= m mod d).
    { pose proof (Z.div_mod n d ltac:(lia)). pose proof (Z.div_mod m d ltac:(lia)). nia. }
    unfold rhe_pos. rewrite E.
    destruct (2 * (n mod d) <? d) eqn:E1; destruct (2 * (m mod d) <? d) eqn:E2;
      destruct (d <? 2 * (n mod d)) eqn:E3; destruct (d <? 2 * (m mod d)) eqn:E4;
      destruct (Z.even (m / d)); lia.
  - assert (n / d + 1 <= m / d).
    { assert (n / d <= m / d) by (apply Z.div_le_mono; lia). lia. }
    assert (rhe_pos n d <= n / d + 1).
    { unfold rhe_pos. destruct (2 * (n mod d) <? d); [lia|].
      destruct (d <? 2 * (n mod d)); [lia|]. destruct (Z.even (n / d)); lia. }
    assert (m / d <= rhe_pos m d).
    { unfold rhe_pos. destruct (2 * (m mod d) <? d); [lia|].
      destruct (d <? 2 * (m mod d)); [lia|]. destruct (Z.even (m / d)); lia. }
    lia.
Qed.

Lemma disp_mono r1 r2 k : 0 <= k -> Z.abs r1 <= Z.abs r2 -> disp r1 k <= disp r2 k.
Proof.
  intros Hk Hr. unfold disp, rhe. cbn [Z.ltb Z.compare].
  apply rhe_pos_mono; nia.
Qed.

(* ---- _calc_position ---- *)
Lemma sgn_cases z : (0 < z /\ sgn z = 1) \/ (z < 0 /\ sgn z = -1) \/ (z = 0 /\ sgn z = 0).
Proof. unfold sgn. destruct (0 <? z) eqn:E1; [lia|]. destruct (z <? 0) eqn:E2; lia. Qed.

Lemma calc_range c p tgt d : lo c <= hi c -> lo c <= calc c p tgt d <= hi c.
Proof. intros H. unfold calc. lia. Qed.

Lemma calc_bound c p tgt d : 0 <= d -> lo c <= p <= hi c -> Z.abs (calc c p tgt d - p) <= d.
Proof.
  intros Hd Hp. unfold calc.
  destruct (sgn_cases (tgt - p)) as [[H1 ->]|[[H1 ->]|[H1 ->]]]; cbn [Z.eqb].
  - destruct (sgn_cases (tgt - (p + 1 * d))) as [[H2 ->]|[[H2 ->]|[H2 ->]]]; cbn [Z.eqb Pos.eqb]; lia.
  - destruct (sgn_cases (tgt - (p + -1 * d))) as [[H2 ->]|[[H2 ->]|[H2 ->]]]; cbn [Z.eqb Pos.eqb]; lia.
  - lia.
Qed.

(* with target and position inside the range the clamp is the identity and the step is
   "toward the target by d, stopping on it" *)
Lemma calc_toward c p tgt d : 0 <= d -> lo c <= p <= hi c -> lo c <= tgt <= hi c ->
  Z.abs (tgt - calc c p tgt d) = Z.max 0 (Z.abs (tgt - p) - d) /\
  (p <= tgt -> p <= calc c p tgt d <= tgt) /\ (tgt <= p -> tgt <= calc c p tgt d <= p).
Proof.
  intros Hd Hp Ht. unfold calc.
  destruct (sgn_cases (tgt - p)) as [[H1 ->]|[[H1 ->]|[H1 ->]]]; cbn [Z.eqb].
  - destruct (sgn_cases (tgt - (p + 1 * d))) as [[H2 ->]|[[H2 ->]|[H2 ->]]]; cbn [Z.eqb Pos.eqb]; lia.
  - destruct (sgn_cases (tgt - (p + -1 * d))) as [[H2 ->]|[[H2 ->]|[H2 ->]]]; cbn [Z.eqb Pos.eqb]; lia.
  - lia.
Qed.

(* a target outside the range: the clamp holds the axis on the limit, never beyond, never farther *)
Lemma calc_no_overshoot c p tgt d : 0 <= d -> lo c <= p <= hi c ->
  Z.abs (tgt - calc c p tgt d) <= Z.abs (tgt - p).
Proof.
  intros Hd Hp. unfold calc.
  destruct (sgn_cases (tgt - p)) as [[H1 ->]|[[H1 ->]|[H1 ->]]]; cbn [Z.eqb].
  - destruct (sgn_cases (tgt - (p + 1 * d))) as [[H2 ->]|[[H2 ->]|[H2 ->]]]; cbn [Z.eqb Pos.eqb]; lia.
  - destruct (sgn_cases (tgt - (p + -1 * d))) as [[H2 ->]|[[H2 ->]|[H2 ->]]]; cbn [Z.eqb Pos.eqb]; lia.
  - lia.
Qed.

Lemma calc_arrives c p tgt d : 0 <= d -> lo c <= p <= hi c -> lo c <= tgt <= hi c ->
  Z.abs (tgt - p) <= d -> calc c p tgt d = tgt.
Proof.
  intros Hd Hp Ht Hdist. pose proof (calc_toward c p tgt d Hd Hp Ht) as [H _]. lia.
Qed.

Lemma calc_zero c p tgt : lo c <= p <= hi c -> calc c p tgt 0 = p.
Proof. intros Hp. pose proof (calc_bound c p tgt 0 ltac:(lia) Hp). lia. Qed.

Lemma clampS_id c z : lo c <= z <= hi c -> clampS c z = z.
Proof. unfold clampS. lia. Qed.
