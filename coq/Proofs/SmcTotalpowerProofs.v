(* Proofs about Model/SmcTotalpower.v: framing (C03), queries (C02), reply shape (C04),
   register read-back and refusals (C05). *)
From DS Require Import Base.Prelude Model.SmcBase Model.SmcTotalpower Proofs.SmcBaseProofs.

(* ---------------- framing ---------------- *)
Lemma tp_eta s : s = {| msg := msg s; dv := dv s |}.
Proof. destruct s; reflexivity. Qed.

Lemma tp_buffering e s b : is_tail b = false ->
  step e s b = ({| msg := msg s ++ [b]; dv := dv s |}, OTrue).
Proof. intros H. unfold step. rewrite H. reflexivity. Qed.

Lemma tp_tail_step e s t : is_tail t = true ->
  step e s t = ({| msg := []; dv := fst (exec e (dv s) (decode e (msg s))) |},
                snd (exec e (dv s) (decode e (msg s)))).
Proof. intros H. unfold step. rewrite H. destruct (exec e (dv s) (decode e (msg s))); reflexivity. Qed.

Lemma tp_resync e s bs t : is_tail t = true -> idle (fst (run (step e) s (bs ++ [t]))) = true.
Proof. intros H. rewrite run_snoc. rewrite tp_tail_step by exact H. reflexivity. Qed.

Lemma decode_empty e : decode e [] = KUnknown.
Proof. reflexivity. Qed.

Lemma tp_idle_tail e s t : idle s = true -> is_tail t = true -> step e s t = (s, OFalse).
Proof.
  intros Hi Ht. rewrite tp_tail_step by exact Ht. destruct s as [m d]. cbn in Hi.
  destruct m; [|discriminate]. cbn [msg dv]. rewrite decode_empty. reflexivity.
Qed.

Lemma tp_fresh s : idle s = true -> s = {| msg := []; dv := dv s |}.
Proof. destruct s as [m d]; cbn. destruct m; [reflexivity|discriminate]. Qed.

Lemma tp_run_buffer e line : Forall (fun b => is_tail b = false) line -> forall s,
  run (step e) s line = ({| msg := msg s ++ line; dv := dv s |}, repeat OTrue (length line)).
Proof.
  induction 1 as [|b line Hb _ IH]; intros s; cbn [run].
  - rewrite app_nil_r. rewrite <- tp_eta. reflexivity.
  - rewrite tp_buffering by exact Hb. rewrite IH. cbn [msg dv length repeat].
    rewrite <- app_assoc. reflexivity.
Qed.

(* one complete line from an idle parser: exactly the handler applied to the decoded line *)
Lemma tp_run_line e s line t :
  idle s = true -> Forall (fun b => is_tail b = false) line -> is_tail t = true ->
  run (step e) s (line ++ [t]) =
  ({| msg := []; dv := fst (exec e (dv s) (decode e line)) |},
   repeat OTrue (length line) ++ [snd (exec e (dv s) (decode e line))]).
Proof.
  intros Hi Hl Ht. rewrite run_app. rewrite (tp_run_buffer e line Hl s). cbn [fst snd run].
  rewrite tp_tail_step by exact Ht. cbn [msg dv fst snd].
  rewrite (tp_fresh s Hi). reflexivity.
Qed.

(* ---------------- rendering ---------------- *)
Definition ascii (c : Z) : Prop := 0 <= c < 128.

Lemma udigits_ascii fuel : forall n acc, 0 <= n -> Forall ascii acc -> Forall ascii (udigits fuel n acc).
Proof.
  induction fuel as [|f IH]; intros n acc Hn Ha; cbn [udigits]; [exact Ha|].
  destruct (n <? 10) eqn:E.
  - constructor; [unfold ascii; lia|exact Ha].
  - apply IH; [lia|]. constructor; [unfold ascii; lia|exact Ha].
Qed.

Lemma zstr_ascii z : Forall ascii (zstr z).
Proof.
  unfold zstr. destruct (z <? 0) eqn:E.
  - constructor; [unfold ascii; lia|]. apply udigits_ascii; [lia|constructor].
  - apply udigits_ascii; [lia|constructor].
Qed.

Lemma Forall_app_intro {A} (P : A -> Prop) l1 l2 : Forall P l1 -> Forall P l2 -> Forall P (l1 ++ l2).
Proof. intros; apply Forall_app; split; assumption. Qed.

Lemma s2z_ascii_check (l : list Z) : forallb (fun c => (0 <=? c) && (c <? 128)) l = true -> Forall ascii l.
Proof.
  rewrite forallb_forall, Forall_forall. intros H x Hx. specialize (H x Hx). unfold ascii. lia.
Qed.

Ltac lit_ascii := apply s2z_ascii_check; vm_compute; reflexivity.

Lemma src_name_ascii s : Forall ascii (src_name s).
Proof. destruct s; lit_ascii. Qed.

Lemma hex2_ascii n : 0 <= n < 256 -> Forall ascii (hex2 n).
Proof.
  intros H. unfold hex2, hexdig.
  repeat constructor; unfold ascii; destruct (_ <? 10); lia.
Qed.

Lemma join_ascii sep ls : Forall ascii sep -> Forall (Forall ascii) ls -> Forall ascii (join sep ls).
Proof.
  intros Hs. induction 1 as [|x r Hx _ IH]; cbn [join]; [constructor|].
  destruct r; [exact Hx|]. repeat apply Forall_app_intro; assumption.
Qed.

Lemma rnd_list_ascii e k : forall start, Forall (Forall ascii) (rnd_list e start k).
Proof. induction k; intros start; cbn; constructor; [apply zstr_ascii|apply IHk]. Qed.

Lemma concat_ascii ls : Forall (Forall ascii) ls -> Forall ascii (concat ls).
Proof. induction 1; cbn; [constructor|apply Forall_app_intro; assumption]. Qed.

Lemma board_status_ascii b : Forall ascii (board_status b).
Proof.
  unfold board_status. repeat apply Forall_app_intro;
    try apply zstr_ascii; try apply src_name_ascii; lit_ascii.
Qed.

Lemma ends_with_LF_app a b : ends_with [LF] b = true -> ends_with [LF] (a ++ b) = true.
Proof.
  unfold ends_with. rewrite rev_app_distr. cbn [rev app].
  destruct (rev b) as [|x r]; cbn; [discriminate|]. intros H. exact H.
Qed.

Lemma ends_with_LF_cons x l : ends_with [LF] l = true -> ends_with [LF] (x :: l) = true.
Proof. intros H. apply (ends_with_LF_app [x] l H). Qed.

Ltac solve_ends := repeat first [ reflexivity | apply ends_with_LF_cons | apply ends_with_LF_app ].

Lemma ends_crlf l : ends_with [LF] (l ++ crlf) = true.
Proof. apply ends_with_LF_app. reflexivity. Qed.

(* ---------------- C04: shape of every reply ---------------- *)
(* every reply ends with '\n' - except the firmware string of V, which the simulator sends bare -
   and is pure ASCII, whatever the oracle values are *)
Definition calOn_bit (d : dev) : Prop := calOn d = 0 \/ calOn d = 1.

Lemma tp_reply_shape e d c d' r :
  exec e d c = (d', OReply r) ->
  (c = KV /\ r = firmware) \/ ends_with [LF] r = true.
Proof.
  intros H. destruct c; cbn in H;
    repeat match type of H with
           | context [match ?x with _ => _ end] => destruct x eqn:?; cbn in H
           | context [if ?x then _ else _] => destruct x eqn:?; cbn in H
           end;
    try discriminate; injection H as <- <-; try (left; split; reflexivity); right;
    unfold time_reply, status_reply;
    repeat match goal with |- context [let '(_, _) := ?t in _] => destruct t end;
    solve_ends.
Qed.

Lemma boards_status_ascii bs : Forall (Forall ascii) (map board_status bs).
Proof. induction bs; cbn [map]; constructor; [apply board_status_ascii|assumption]. Qed.

Ltac solve_ascii :=
  repeat first
    [ apply Forall_nil | lit_ascii | apply zstr_ascii | apply src_name_ascii | apply rnd_list_ascii
    | apply boards_status_ascii | apply board_status_ascii
    | (apply hex2_ascii; lia)
    | (apply Forall_cons; [unfold ascii; lia|])
    | apply Forall_app_intro | apply concat_ascii | apply join_ascii ].

(* the only state the status rendering depends on being a bit: calOn is 0 or 1 *)
Lemma exec_calOn_bit e d c : calOn_bit d -> calOn_bit (fst (exec e d c)).
Proof.
  intros Hd. unfold calOn_bit in *. destruct c; cbn;
    repeat match goal with
           | |- context [match ?x with _ => _ end] => destruct x eqn:?; cbn
           end; try assumption; lia.
Qed.

Lemma tp_reply_ascii e d c d' r : calOn_bit d -> exec e d c = (d', OReply r) -> Forall ascii r.
Proof.
  intros Hd H. unfold calOn_bit in Hd. destruct Hd as [Hd|Hd]; destruct c; cbn in H;
    repeat match type of H with
           | context [match ?x with _ => _ end] => destruct x eqn:?; cbn in H
           | context [if ?x then _ else _] => destruct x eqn:?; cbn in H
           end;
    try discriminate; injection H as <- <-;
    unfold time_reply, status_reply, status_ascii, firmware;
    repeat match goal with |- context [let '(_, _) := ?t in _] => destruct t end;
    try solve [solve_ascii]; try lit_ascii.
Qed.

(* ---------------- C02: queries ---------------- *)
Definition is_query (c : cmd) : Prop :=
  c = KStatus \/ c = KV \/ c = KR \/ exists p0 p1, c = KE [p0; p1].

(* the counters of the time / random oracles are the only thing a query touches *)
Definition same_registers (d d' : dev) : Prop :=
  boards d' = boards d /\ calOn d' = calOn d /\ extNoise d' = extNoise d /\
  sample_period d' = sample_period d /\ calOnPeriod d' = calOnPeriod d /\ zeroPeriod d' = zeroPeriod d /\
  data_address d' = data_address d /\ data_port d' = data_port d /\ configured d' = configured d /\
  paused d' = paused d /\ stopped d' = stopped d /\ timer_set d' = timer_set d.

Lemma tp_query_exec e d c : is_query c ->
  exists r, snd (exec e d c) = OReply r /\ same_registers d (fst (exec e d c)).
Proof.
  intros [-> | [-> | [-> | (p0 & p1 & ->)]]]; cbn.
  - eexists; split; [reflexivity|]. repeat split.
  - eexists; split; [reflexivity|]. repeat split.
  - destruct (tm e (ntm d)) as [[t0 t1] t2]. eexists; split; [reflexivity|]. repeat split.
  - eexists; split; [reflexivity|]. repeat split.
Qed.

(* from every idle state (whatever history led there) each query line yields exactly one reply *)
Lemma tp_query_answered e s line t c :
  idle s = true -> Forall (fun b => is_tail b = false) line -> is_tail t = true ->
  decode e line = c -> is_query c ->
  exists r, snd (run (step e) s (line ++ [t])) = repeat OTrue (length line) ++ [OReply r]
            /\ same_registers (dv s) (dv (fst (run (step e) s (line ++ [t]))))
            /\ idle (fst (run (step e) s (line ++ [t]))) = true.
Proof.
  intros Hi Hl Ht Hd Hq. rewrite (tp_run_line e s line t Hi Hl Ht). cbn [fst snd dv].
  rewrite Hd. destruct (tp_query_exec e (dv s) c Hq) as (r & Hr & Hsame).
  exists r. rewrite Hr. repeat split; try apply Hsame.
Qed.

(* the query lines themselves, for every oracle *)
Lemma decode_status e : decode e $"?" = KStatus. Proof. reflexivity. Qed.
Lemma decode_V e : decode e $"V" = KV. Proof. reflexivity. Qed.
Lemma decode_R e : decode e $"R" = KR. Proof. reflexivity. Qed.

(* ---------------- C05: registers ---------------- *)
Definition is_write (c : cmd) : bool :=
  match c with
  | KI _ _ _ | KA _ _ _ _ | KN _ | KM _ | KZ _ | KS _ | KX _ _ _ _ _ | KNak | KUnknown => true
  | _ => false
  end.
Definition acked (o : outcome) : bool :=
  match o with OReply r => zlist_eqb r ack | _ => false end.

(* a refused write (nak, 'nak n', False, ValueError) leaves the whole device state unchanged *)
Lemma tp_refused_unchanged e d c :
  is_write c = true -> acked (snd (exec e d c)) = false -> fst (exec e d c) = d.
Proof.
  intros Hw Ha. destruct c; try discriminate Hw; cbn in *;
    repeat match goal with
           | |- context [match ?x with _ => _ end] => destruct x eqn:?; cbn in *
           end; try reflexivity; try discriminate Ha.
Qed.

(* T with a negative microsecond field raises ValueError before anything is stored *)
Lemma tp_T_negative e d p0 p1 : p1 < 0 -> exec e d (KT [p0; p1]) = (d, OValueError).
Proof. intros H. cbn. destruct (p1 <? 0) eqn:E; [reflexivity|lia]. Qed.

(* A b s a f acknowledged: the board reads back s, a, f and nothing else changed *)
Lemma tp_A_ack e d b s a f :
  acked (snd (exec e d (KA b s a f))) = true ->
  exists s' bd,
    src_of_letter s = Some s' /\ 0 <= b - 1 < Z.of_nat (length (boards d)) /\ 0 <= a < 16 /\ 1 <= f < 5 /\
    nth_opt (Z.to_nat (b - 1)) (boards d) = Some bd /\
    fst (exec e d (KA b s a f)) =
      set_boards (set_nth (Z.to_nat (b - 1)) (board_set_all s' a f bd) (boards d)) d.
Proof.
  cbn. unfold in_range. intros H.
  destruct ((0 <=? b - 1) && (b - 1 <? Z.of_nat (length (boards d)))) eqn:E1; cbn in *; [|discriminate H].
  destruct (src_of_letter s) as [s'|] eqn:E2; cbn in *; [|discriminate H].
  destruct ((0 <=? a) && (a <? 16)) eqn:E3; cbn in *; [|discriminate H].
  destruct ((1 <=? f) && (f <? 5)) eqn:E4; cbn in *; [|discriminate H].
  destruct (nth_opt (Z.to_nat (b - 1)) (boards d)) as [bd|] eqn:E5; cbn in *; [|discriminate H].
  exists s', bd. repeat split; try lia; reflexivity.
Qed.

(* what the status query prints for board i *)
Definition readback (d : dev) (i : nat) : option (list Z) := option_map board_status (nth_opt i (boards d)).

Lemma tp_A_readback e d b s a f :
  acked (snd (exec e d (KA b s a f))) = true ->
  exists s', src_of_letter s = Some s' /\
    readback (fst (exec e d (KA b s a f))) (Z.to_nat (b - 1)) =
      Some ([SP] ++ src_name s' ++ [SP] ++ zstr a ++ [SP] ++ zstr (bandwidth f)).
Proof.
  intros H. destruct (tp_A_ack e d b s a f H) as (s' & bd & Hs & Hb & Ha & Hf & Hn & ->).
  exists s'. split; [exact Hs|]. unfold readback, set_boards. cbn [boards].
  rewrite nth_opt_set_nth_same by (apply nth_opt_Some_lt in Hn; exact Hn). reflexivity.
Qed.

(* commands that can change what board i reads back *)
Definition writes_board (i : nat) (c : cmd) : bool :=
  match c with
  | KA b _ _ _ => Z.to_nat (b - 1) =? i
  | KI _ _ _ | KZ _ => true
  | _ => false
  end%nat.

Lemma tp_frame_board e d c i :
  writes_board i c = false -> nth_opt i (boards (fst (exec e d c))) = nth_opt i (boards d).
Proof.
  intros Hw. destruct c; try discriminate Hw; cbn;
    repeat match goal with
           | |- context [match ?x with _ => _ end] => destruct x eqn:?; cbn
           end; try reflexivity.
  cbn in Hw. apply nth_opt_set_nth_other. apply Nat.eqb_neq in Hw. exact Hw.
Qed.

Fixpoint exec_all (e : env) (d : dev) (cs : list cmd) : dev :=
  match cs with [] => d | c :: r => exec_all e (fst (exec e d c)) r end.

(* ... until the next write of that board: any number of other commands in between *)
Lemma tp_readback_stable e i : forall cs d,
  Forall (fun c => writes_board i c = false) cs -> readback (exec_all e d cs) i = readback d i.
Proof.
  induction cs as [|c cs IH]; intros d H; cbn [exec_all]; [reflexivity|].
  inversion H as [|? ? Hc Hcs]; subst. rewrite IH by exact Hcs.
  unfold readback. rewrite tp_frame_board by exact Hc. reflexivity.
Qed.

Lemma tp_A_readback_until e d b s a f cs :
  acked (snd (exec e d (KA b s a f))) = true ->
  Forall (fun c => writes_board (Z.to_nat (b - 1)) c = false) cs ->
  exists s', src_of_letter s = Some s' /\
    readback (exec_all e (fst (exec e d (KA b s a f))) cs) (Z.to_nat (b - 1)) =
      Some ([SP] ++ src_name s' ++ [SP] ++ zstr a ++ [SP] ++ zstr (bandwidth f)).
Proof.
  intros Ha Hcs. destruct (tp_A_readback e d b s a f Ha) as (s' & Hs & Hr).
  exists s'. split; [exact Hs|]. rewrite tp_readback_stable by exact Hcs. exact Hr.
Qed.

(* the status reply is the time triple, the status word, the three periods and then the read-back of
   every board in order *)
Lemma tp_status_shows_boards e d :
  exists head, snd (exec e d KStatus) = OReply (head ++ concat (map board_status (boards d)) ++ crlf).
Proof.
  cbn. unfold status_reply. destruct (tm e (ntm d)) as [[t0 t1] t2].
  eexists. repeat rewrite app_assoc. reflexivity.
Qed.

(* scalar registers: N (calibration mark) and S (sample period) *)
Lemma tp_N_readback e d v : acked (snd (exec e d (KN [v]))) = true ->
  calOn (fst (exec e d (KN [v]))) = v /\ (v = 0 \/ v = 1).
Proof. cbn. destruct ((v =? 0) || (v =? 1)) eqn:E; cbn; [|discriminate]. intros _. split; [reflexivity|lia]. Qed.

Lemma tp_S_readback e d v : sample_period (fst (exec e d (KS [v]))) = v /\ acked (snd (exec e d (KS [v]))) = true.
Proof. cbn. split; reflexivity. Qed.

(* a byte history that is a sequence of complete lines runs the handlers of the decoded lines *)
Fixpoint lines_bytes (ls : list (list Z * Z)) : list Z :=
  match ls with [] => [] | (l, t) :: r => l ++ [t] ++ lines_bytes r end.
Definition line_ok (lt : list Z * Z) : Prop :=
  Forall (fun b => is_tail b = false) (fst lt) /\ is_tail (snd lt) = true.

Lemma tp_run_lines e : forall ls s, idle s = true -> Forall line_ok ls ->
  fst (run (step e) s (lines_bytes ls)) =
  {| msg := []; dv := exec_all e (dv s) (map (fun lt => decode e (fst lt)) ls) |}.
Proof.
  induction ls as [|[l t] ls IH]; intros s Hi H; cbn [lines_bytes map exec_all run fst].
  - apply tp_fresh. exact Hi.
  - inversion H as [|? ? [Hl Ht] Hls]; subst. cbn [fst snd] in *.
    rewrite app_assoc. rewrite run_app. cbn [fst].
    rewrite (tp_run_line e s l t Hi Hl Ht). cbn [fst].
    rewrite IH by (try reflexivity; exact Hls). reflexivity.
Qed.

(* ---------------- reachable states ---------------- *)
Inductive reachable (e : env) (ch : nat) : st -> Prop :=
| r_init : reachable e ch (init ch)
| r_step s b : reachable e ch s -> reachable e ch (fst (step e s b)).

Lemma tp_step_calOn e s b : calOn_bit (dv s) -> calOn_bit (dv (fst (step e s b))).
Proof.
  intros H. unfold step. destruct (is_tail b); [|exact H].
  pose proof (exec_calOn_bit e (dv s) (decode e (msg s)) H) as H'.
  destruct (exec e (dv s) (decode e (msg s))). exact H'.
Qed.

Lemma tp_reachable_calOn e ch s : reachable e ch s -> calOn_bit (dv s).
Proof. induction 1; [left; reflexivity|apply tp_step_calOn; assumption]. Qed.

(* every reply a reachable state can emit, byte level *)
Lemma tp_reply_wellformed e ch s b r :
  reachable e ch s -> snd (step e s b) = OReply r ->
  Forall ascii r /\ (r = firmware \/ ends_with [LF] r = true).
Proof.
  intros Hr H. unfold step in H. destruct (is_tail b); [|discriminate H].
  destruct (exec e (dv s) (decode e (msg s))) as [d' o] eqn:E. cbn in H. subst o.
  split.
  - eapply tp_reply_ascii; [eapply tp_reachable_calOn; exact Hr|exact E].
  - destruct (tp_reply_shape _ _ _ _ _ E) as [[_ ->]|H]; [left; reflexivity|right; exact H].
Qed.

(* what the protocol echoes: the two arguments of T / E, the board number of a refused A *)
Lemma tp_T_echo e d p0 p1 : 0 <= p1 ->
  exists rest, snd (exec e d (KT [p0; p1])) = OReply (zstr p0 ++ $", " ++ zstr p1 ++ $", " ++ rest).
Proof.
  intros H. cbn. destruct (p1 <? 0) eqn:E; [lia|]. unfold time_reply.
  destruct (tm e (ntm d)) as [[t0 t1] t2]. eexists. cbn [snd]. reflexivity.
Qed.

Lemma tp_E_echo e d p0 p1 :
  exists rest, snd (exec e d (KE [p0; p1])) = OReply (zstr p0 ++ $", " ++ zstr p1 ++ $", " ++ rest).
Proof.
  cbn. unfold time_reply. destruct (tm e (ntm d)) as [[t0 t1] t2]. eexists. reflexivity.
Qed.

Lemma tp_A_refusal_echo e d b s a f r :
  snd (exec e d (KA b s a f)) = OReply r -> r = ack \/ r = $"nak " ++ zstr b ++ [LF].
Proof.
  cbn. repeat match goal with
              | |- context [match ?x with _ => _ end] => destruct x eqn:?; cbn
              end; intros H; try discriminate H; injection H as <-; auto.
Qed.

(* ---------------- C05, further registers ---------------- *)
(* 'I s a f' acknowledged: EVERY board reads back source s, attenuation a, filter f *)
Lemma tp_I_readback e d s a f :
  acked (snd (exec e d (KI s a f))) = true ->
  exists s', src_of_letter s = Some s' /\ 0 <= a < 16 /\ 1 <= f < 5 /\
    forall i, (i < length (boards d))%nat ->
      readback (fst (exec e d (KI s a f))) i =
      Some ([SP] ++ src_name s' ++ [SP] ++ zstr a ++ [SP] ++ zstr (bandwidth f)).
Proof.
  cbn. unfold in_range. destruct (src_of_letter s) as [s'|]; cbn; [|discriminate].
  destruct ((0 <=? a) && (a <? 16)) eqn:E1; cbn; [|discriminate].
  destruct ((1 <=? f) && (f <? 5)) eqn:E2; cbn; [|discriminate].
  intros _. exists s'. repeat split; try lia. intros i Hi. unfold readback, set_boards. cbn [boards].
  revert i Hi. induction (boards d) as [|b l IH]; intros [|i] Hi; cbn in *; try lia; [reflexivity|].
  apply IH. lia.
Qed.

(* the scalar registers shown by '?': sample period (S, X), calibration mark (N), the two periods (X) *)
Definition scalars (d : dev) : Z * Z * Z * Z := (sample_period d, calOn d, calOnPeriod d, zeroPeriod d).
Definition writes_scalars (c : cmd) : bool :=
  match c with KS _ | KN _ | KX _ _ _ _ _ => true | _ => false end.

Lemma tp_frame_scalars e d c : writes_scalars c = false -> scalars (fst (exec e d c)) = scalars d.
Proof.
  intros Hw. destruct c; try discriminate Hw; cbn;
    repeat match goal with
           | |- context [match ?x with _ => _ end] => destruct x eqn:?; cbn
           end; reflexivity.
Qed.

Lemma tp_scalars_stable e : forall cs d,
  Forall (fun c => writes_scalars c = false) cs -> scalars (exec_all e d cs) = scalars d.
Proof.
  induction cs as [|c cs IH]; intros d H; cbn [exec_all]; [reflexivity|].
  inversion H as [|? ? Hc Hcs]; subst. rewrite IH by exact Hcs. apply tp_frame_scalars. exact Hc.
Qed.

(* S v (always acknowledged), then any commands other than S / N / X: '?' still prints v *)
Lemma tp_S_until e d v cs : Forall (fun c => writes_scalars c = false) cs ->
  sample_period (exec_all e (fst (exec e d (KS [v]))) cs) = v.
Proof.
  intros H. pose proof (tp_scalars_stable e cs (fst (exec e d (KS [v]))) H) as E.
  unfold scalars in E. injection E as E1 _ _ _. cbn in E1. cbn. exact E1.
Qed.

Lemma tp_N_until e d v cs : acked (snd (exec e d (KN [v]))) = true ->
  Forall (fun c => writes_scalars c = false) cs ->
  calOn (exec_all e (fst (exec e d (KN [v]))) cs) = v.
Proof.
  intros Ha H. pose proof (tp_scalars_stable e cs (fst (exec e d (KN [v]))) H) as E.
  destruct (tp_N_readback e d v Ha) as [Hv _]. unfold scalars in E. injection E as _ E2 _ _. etransitivity; [exact E2|exact Hv].
Qed.

(* where the status reply prints them *)
Lemma tp_status_shows_scalars e d :
  exists head tail, snd (exec e d KStatus) =
    OReply (head ++ zstr (sample_period d) ++ [SP] ++ zstr (calOnPeriod d) ++ [SP] ++ zstr (zeroPeriod d) ++ tail)
    /\ (exists t, head = t ++ status_ascii d ++ [SP]).
Proof.
  cbn. unfold status_reply. destruct (tm e (ntm d)) as [[t0 t1] t2].
  eexists (zstr t0 ++ [SP] ++ zstr t1 ++ [SP] ++ zstr t2 ++ [SP] ++ status_ascii d ++ [SP]), _. split.
  - repeat rewrite <- app_assoc. reflexivity.
  - eexists (zstr t0 ++ [SP] ++ zstr t1 ++ [SP] ++ zstr t2 ++ [SP]). repeat rewrite <- app_assoc. reflexivity.
Qed.
