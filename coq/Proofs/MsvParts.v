(* Minor-servo PLC (tag Msv): lemmas for the minor-servo parts of the cross-cutting properties
   C03 (framing), C04 (reply shape), C05 (read-back); generic in the number type. *)
From DS Require Import Base.Prelude Model.MsvTypes Model.MsvModel Proofs.MsvProofs.

Section Parts.
Context {T : Type} (ops : numops T) (orc : oracles T) (cf : cfg T).

(* ---- no handler touches the receive buffer ------------------------------------------------------- *)
Ltac msg_tac :=
  repeat match goal with
  | |- context [match ?x with _ => _ end] => destruct x
  | |- context [if ?x then _ else _] => destruct x
  end; reflexivity.

Lemma h_status_msg s e args : s_msg (fst (h_status ops orc cf s e args)) = s_msg s.
Proof. unfold h_status, bad. msg_tac. Qed.
Lemma h_setup_msg s e args : s_msg (fst (h_setup ops cf s e args)) = s_msg s.
Proof. unfold h_setup, bad. msg_tac. Qed.
Lemma h_stow_msg s e args : s_msg (fst (h_stow orc cf s e args)) = s_msg s.
Proof. unfold h_stow, bad. msg_tac. Qed.
Lemma h_stop_msg s e args : s_msg (fst (h_stop cf s e args)) = s_msg s.
Proof. unfold h_stop, bad. msg_tac. Qed.
Lemma h_preset_msg s e args : s_msg (fst (h_preset ops orc cf s e args)) = s_msg s.
Proof. unfold h_preset, bad. msg_tac. Qed.
Lemma h_offset_msg s e args : s_msg (fst (h_offset orc cf s e args)) = s_msg s.
Proof. unfold h_offset, bad. msg_tac. Qed.
Lemma h_programtrack_msg s e args : s_msg (fst (h_programtrack ops orc cf s e args)) = s_msg s.
Proof. unfold h_programtrack, bad. msg_tac. Qed.

Lemma dispatch_msg h f s e args : dispatch ops orc cf h = Some f -> s_msg (fst (f s e args)) = s_msg s.
Proof.
  unfold dispatch. intros Hd.
  repeat match type of Hd with (if ?c then _ else _) = _ => destruct c end; try discriminate;
    injection Hd as <-;
    auto using h_status_msg, h_setup_msg, h_stow_msg, h_stop_msg, h_preset_msg, h_offset_msg,
               h_programtrack_msg.
Qed.

Lemma execute_msg s e m : s_msg (fst (execute ops orc cf s e m)) = s_msg s.
Proof.
  unfold execute. destruct (tokens m) as [|c args]; [reflexivity|].
  destruct (assoc c (c_commands cf)) as [h|]; [|reflexivity].
  destruct (dispatch ops orc cf h) as [f|] eqn:Hd; [|reflexivity].
  pose proof (dispatch_msg h f s e args Hd) as H.
  destruct (f s e args) as [s1 [| |]]; exact H.
Qed.

(* execute never answers True: a completed line always yields a reply (or a Python exception) *)
Lemma execute_not_true s e m : snd (execute ops orc cf s e m) <> OTrue.
Proof.
  unfold execute. destruct (tokens m) as [|c args]; [discriminate|].
  destruct (assoc c (c_commands cf)) as [h|]; [|discriminate].
  destruct (dispatch ops orc cf h) as [f|]; [|discriminate].
  destruct (f s e args) as [s1 [| |]]; discriminate.
Qed.

(* ---- System.parse: the buffer and the kind of outcome depend on the buffer only ----------------- *)
Lemma parse_buffer s e b :
  s_msg (fst (parse ops orc cf s e b)) = if ends_crlf (s_msg s ++ [b]) then [] else s_msg s ++ [b].
Proof.
  unfold parse. destruct (ends_crlf (s_msg s ++ [b])); [|reflexivity].
  rewrite execute_msg. reflexivity.
Qed.

Definition completes (o : outcome) : bool := match o with OTrue => false | _ => true end.

Lemma parse_completes s e b : completes (snd (parse ops orc cf s e b)) = ends_crlf (s_msg s ++ [b]).
Proof.
  unfold parse. destruct (ends_crlf (s_msg s ++ [b])); [|reflexivity].
  pose proof (execute_not_true (set_msg s []) e (s_msg s ++ [b])) as H.
  destruct (snd (execute ops orc cf (set_msg s []) e (s_msg s ++ [b]))); [congruence|reflexivity|reflexivity].
Qed.

Lemma fire_msg tick (s : sys T) : s_msg (fire tick s) = s_msg s.
Proof. unfold fire. destruct (s_cover s) as [[t p]|]; [destruct (t <=? tick)|]; reflexivity. Qed.

Lemma step_buffer w ev :
  s_msg (snd (fst (step ops orc cf w ev))) =
  match ev with
  | EvByte b => if ends_crlf (s_msg (snd w) ++ [b]) then [] else s_msg (snd w) ++ [b]
  | _ => s_msg (snd w)
  end.
Proof.
  destruct w as [e s]. destruct ev as [e'|b|spls]; cbn [step fst snd].
  - apply fire_msg.
  - pose proof (parse_buffer s e b) as H. destruct (parse ops orc cf s e b). exact H.
  - unfold refresh. destruct (refresh_all ops e (c_servos cf) (s_servos s) spls). reflexivity.
Qed.

Lemma step_completes w ev :
  completes (snd (step ops orc cf w ev)) =
  match ev with EvByte b => ends_crlf (s_msg (snd w) ++ [b]) | _ => false end.
Proof.
  destruct w as [e s]. destruct ev as [e'|b|spls]; cbn [step fst snd]; try reflexivity.
  pose proof (parse_completes s e b) as H. destruct (parse ops orc cf s e b). exact H.
Qed.

Lemma run_app w evs1 evs2 :
  run ops orc cf w (evs1 ++ evs2) =
  let '(w1, os1) := run ops orc cf w evs1 in
  let '(w2, os2) := run ops orc cf w1 evs2 in (w2, os1 ++ os2).
Proof.
  revert w. induction evs1 as [|ev evs IH]; intros w; cbn [app run].
  - destruct (run ops orc cf w evs2). reflexivity.
  - destruct (step ops orc cf w ev) as [w1 o]. rewrite IH.
    destruct (run ops orc cf w1 evs) as [w2 os]. destruct (run ops orc cf w2 evs2). reflexivity.
Qed.

Lemma ends_crlf_last13 l : ends_crlf (l ++ [13]) = false.
Proof.
  induction l as [|a l IH]; [reflexivity|]. cbn [app].
  destruct l as [|b l]; [cbn; apply andb_false_r|]. destruct l as [|c l]; [cbn; apply andb_false_r|]. exact IH.
Qed.

(* C03 resynchronisation: after ANY history, CR LF leaves the parser idle (empty buffer) *)
Theorem resync w evs :
  s_msg (snd (fst (run ops orc cf w (evs ++ [EvByte 13; EvByte 10])))) = [].
Proof.
  rewrite run_app. destruct (run ops orc cf w evs) as [w1 os1]. cbn [run].
  pose proof (step_buffer w1 (EvByte 13)) as H1. cbn beta iota in H1. rewrite ends_crlf_last13 in H1.
  destruct (step ops orc cf w1 (EvByte 13)) as [w2 o2]. cbn [fst] in H1.
  pose proof (step_buffer w2 (EvByte 10)) as H2. cbn beta iota in H2. rewrite H1 in H2.
  rewrite <- app_assoc in H2. cbn [app] in H2. rewrite ends_crlf_app in H2.
  destruct (step ops orc cf w2 (EvByte 10)) as [w3 o3]. cbn [fst snd] in *. exact H2.
Qed.

(* C03 fresh-after-idle: which bytes complete a command, and the buffer, are functions of the
   buffer alone — two worlds with the same buffer (e.g. an idle one and a fresh one) frame any
   further input identically, whatever their device states, clocks and oracle inputs *)
Theorem framing_depends_on_buffer : forall evs w1 w2,
  s_msg (snd w1) = s_msg (snd w2) ->
  map completes (snd (run ops orc cf w1 evs)) = map completes (snd (run ops orc cf w2 evs)) /\
  s_msg (snd (fst (run ops orc cf w1 evs))) = s_msg (snd (fst (run ops orc cf w2 evs))).
Proof.
  induction evs as [|ev evs IH]; intros w1 w2 H; [split; [reflexivity|exact H]|].
  cbn [run].
  pose proof (step_buffer w1 ev) as B1. pose proof (step_buffer w2 ev) as B2.
  pose proof (step_completes w1 ev) as C1. pose proof (step_completes w2 ev) as C2.
  destruct (step ops orc cf w1 ev) as [w1' o1]. destruct (step ops orc cf w2 ev) as [w2' o2].
  cbn [fst snd] in *.
  assert (Hb : s_msg (snd w1') = s_msg (snd w2')) by (rewrite B1, B2, H; reflexivity).
  assert (Hc : completes o1 = completes o2) by (rewrite C1, C2, H; reflexivity).
  specialize (IH w1' w2' Hb).
  destruct (run ops orc cf w1' evs) as [w1'' os1]. destruct (run ops orc cf w2' evs) as [w2'' os2].
  cbn [fst snd map] in *. destruct IH as [IH1 IH2]. split; [congruence|exact IH2].
Qed.

(* a byte that does not complete CR LF is answered True and only buffered *)
Lemma parse_buffers s e b : ends_crlf (s_msg s ++ [b]) = false ->
  parse ops orc cf s e b = (set_msg s (s_msg s ++ [b]), OTrue).
Proof. intros H. unfold parse. rewrite H. reflexivity. Qed.

(* ---- a whole line -------------------------------------------------------------------------------------- *)
Fixpoint has_crlf (l : list Z) : bool :=
  match l with
  | a :: ((b :: _) as r) => ((a =? 13) && (b =? 10)) || has_crlf r
  | _ => false
  end.

Lemma has_crlf_app_r l1 l2 : has_crlf (l1 ++ 13 :: 10 :: l2) = true.
Proof.
  induction l1 as [|a l1 IH]; [reflexivity|]. cbn [app].
  destruct l1 as [|b l1]; cbn [app] in *.
  - cbn. destruct (a =? 13); reflexivity.
  - change (((a =? 13) && (b =? 10)) || has_crlf (b :: l1 ++ 13 :: 10 :: l2) = true).
    rewrite IH. apply orb_true_r.
Qed.

Lemma no_crlf_prefix l : has_crlf l = false -> forall p q, l = p ++ q -> ends_crlf p = false.
Proof.
  intros H p q E. destruct (ends_crlf p) eqn:Ep; [|reflexivity].
  apply ends_crlf_spec in Ep as [p' ->]. subst l. rewrite <- app_assoc in H. cbn [app] in H.
  rewrite has_crlf_app_r in H. discriminate.
Qed.

Fixpoint feed (s : sys T) (e : env T) (bs : list Z) : sys T * list outcome :=
  match bs with
  | [] => (s, [])
  | b :: r => let '(s1, o) := parse ops orc cf s e b in let '(s2, os) := feed s1 e r in (s2, o :: os)
  end.

Lemma set_msg_set_msg (s : sys T) m m' : set_msg (set_msg s m) m' = set_msg s m'.
Proof. reflexivity. Qed.

(* C03/C02: on an idle parser a line without an embedded CR LF, followed by CR LF, is answered True
   for every byte but the last, and the last byte yields exactly the outcome of executing that line *)
Lemma feed_line_gen : forall line s e,
  has_crlf (s_msg s ++ line ++ [13]) = false ->
  feed s e (line ++ [13; 10]) =
  (fst (execute ops orc cf (set_msg s []) e (s_msg s ++ line ++ [13; 10])),
   repeat OTrue (length line + 1) ++ [snd (execute ops orc cf (set_msg s []) e (s_msg s ++ line ++ [13; 10]))]).
Proof.
  induction line as [|b line IH]; intros s e H.
  - cbn [app feed length Nat.add repeat].
    assert (H1 : ends_crlf (s_msg s ++ [13]) = false) by apply ends_crlf_last13.
    rewrite (parse_buffers s e 13 H1).
    unfold parse. cbn [s_msg set_msg]. rewrite <- app_assoc. cbn [app]. rewrite ends_crlf_app.
    rewrite set_msg_set_msg. destruct (execute ops orc cf (set_msg s []) e (s_msg s ++ [13; 10])). reflexivity.
  - cbn [app feed length].
    assert (H1 : ends_crlf (s_msg s ++ [b]) = false).
    { eapply no_crlf_prefix; [exact H|]. rewrite <- app_assoc. reflexivity. }
    rewrite (parse_buffers s e b H1).
    specialize (IH (set_msg s (s_msg s ++ [b])) e). cbn [s_msg set_msg] in IH.
    rewrite <- !app_assoc in IH. cbn [app] in IH. rewrite IH; [|exact H].
    rewrite set_msg_set_msg. reflexivity.
Qed.

Theorem feed_line s e line : s_msg s = [] -> has_crlf (line ++ [13]) = false ->
  feed s e (line ++ [13; 10]) =
  (fst (execute ops orc cf s e (line ++ [13; 10])),
   repeat OTrue (length line + 1) ++ [snd (execute ops orc cf s e (line ++ [13; 10]))]).
Proof.
  intros Hm H. pose proof (feed_line_gen line s e) as G. rewrite Hm in G. cbn [app] in G.
  assert (Hs : set_msg s [] = s) by (destruct s; cbn in Hm; subst; reflexivity).
  rewrite Hs in G. apply G. exact H.
Qed.

(* ---- C04: shape of every reply ------------------------------------------------------------------------ *)
Theorem reply_shape s e b s' r : parse ops orc cf s e b = (s', OReply r) ->
  r = c_bad cf ++ crlf \/ exists body, r = c_good_prefix cf ++ fmt6 orc (e_now e) ++ body ++ crlf.
Proof.
  unfold parse. destruct (ends_crlf (s_msg s ++ [b])); [|discriminate].
  unfold execute. destruct (tokens (s_msg s ++ [b])) as [|c args]; [discriminate|].
  destruct (assoc c (c_commands cf)) as [h|]; [|intros H; injection H as _ <-; left; reflexivity].
  destruct (dispatch ops orc cf h) as [f|]; [|discriminate].
  destruct (f (set_msg s []) e args) as [s1 [|body|]]; intros H; try discriminate;
    injection H as _ <-; [left; reflexivity|right].
  exists body. unfold good. rewrite <- app_assoc. reflexivity.
Qed.

Lemma ends_crlf_app2 a b : ends_crlf (a ++ b ++ crlf) = true.
Proof. rewrite app_assoc. apply ends_crlf_app. Qed.

Theorem reply_terminated s e b s' r : parse ops orc cf s e b = (s', OReply r) -> ends_crlf r = true.
Proof.
  intros H. apply reply_shape in H as [-> | (body & ->)].
  - apply ends_crlf_app.
  - rewrite !app_assoc. apply ends_crlf_app.
Qed.

(* ---- C05: refused writes; offsets ---------------------------------------------------------------------- *)
Theorem refused_same_future s e b s' : pt_law ops cf -> replies_distinct cf = true ->
  parse ops orc cf s e b = (s', OReply (c_bad cf ++ crlf)) -> s' = set_msg s [].
Proof.
  intros Hlaw Hd H. apply (parse_bad ops orc cf) in H as [H1 H2]; [|exact Hlaw|exact Hd].
  destruct s, s'. unfold dev in H1. cbn in *. injection H1 as -> -> -> -> ->. subst. reflexivity.
Qed.

Lemma set_offsets_exact : forall (xs offs offs' : list T), set_offsets offs xs = Some offs' -> length xs = length offs ->
  offs' = xs.
Proof.
  induction xs as [|x xs IH]; intros [|o offs] offs' H L; cbn in *; try discriminate.
  - injection H as <-. reflexivity.
  - destruct (set_offsets offs xs) as [l|] eqn:E; [|discriminate]. cbn in H. injection H as <-.
    f_equal. eapply IH; eauto.
Qed.

(* an accepted OFFSET stores exactly the parsed values *)
Theorem h_offset_good s e args s' body : h_offset orc cf s e args = (s', RGood body) ->
  exists sid toks i sc xs sv offs',
    args = sid :: toks /\ find_servo sid 0 (c_servos cf) = Some (i, sc) /\ length toks = sc_dof sc /\
    floats orc toks = Some xs /\ nth_error (s_servos s) i = Some sv /\
    set_offsets (sv_offs sv) xs = Some offs' /\
    s' = set_last (set_servo s i (mk_servo (sv_mode sv) (sv_future sv) (sv_coords sv) (sv_cmd sv) offs'
                                           (sv_last sv) (sv_timer sv) (sv_alias sv) (sv_trk sv))) (e_now e).
Proof.
  unfold h_offset, bad. destruct args as [|sid [|t0 toks]]; try discriminate.
  destruct (find_servo sid 0 (c_servos cf)) as [[i sc]|] eqn:Hf; [|discriminate].
  destruct (length (t0 :: toks) =? sc_dof sc)%nat eqn:Hl; cbn [negb]; [|discriminate].
  destruct (floats orc (t0 :: toks)) as [xs|] eqn:Hfl; [|discriminate].
  destruct (nth_error (s_servos s) i) as [sv|] eqn:Hsv; [|discriminate].
  destruct (set_offsets (sv_offs sv) xs) as [offs'|] eqn:Ho; [|discriminate].
  intros H. injection H as <- _. apply Nat.eqb_eq in Hl.
  exists sid, (t0 :: toks), i, sc, xs, sv, offs'. repeat split; auto.
Qed.

(* offsets are changed by nothing but OFFSET: timer ticks and refreshes keep them *)
Theorem offsets_persist sv qs : sv_offs (qrun ops sv qs) = sv_offs sv.
Proof.
  revert sv. induction qs as [|q qs IH]; intros sv; [reflexivity|]. cbn [qrun fold_left]. fold (qrun ops (qstep ops sv q) qs). rewrite IH.
  destruct q as [tick|sc e]; cbn [qstep].
  - unfold fire_servo. destruct (sv_timer sv) as [[t m]|]; [destruct (t <=? tick)|]; reflexivity.
  - apply get_status_offs.
Qed.

End Parts.
