(* Lemmas about the weather station model (Model/SmbWeather.v). *)
From DS Require Import Base.Prelude Model.SmbCommon Model.SmbWeather Proofs.SmbCommon.

(* ---------------------------------------------------------------- the per-thread buffer map *)
Lemma buf_get_del_same t m : buf_get t (buf_del t m) = None.
Proof.
  induction m as [|[k v] r IH]; cbn; [reflexivity|].
  destruct (k =? t) eqn:E; [exact IH | cbn; rewrite E; exact IH].
Qed.

Lemma buf_get_del_other t t' m : t <> t' -> buf_get t' (buf_del t m) = buf_get t' m.
Proof.
  intros H. induction m as [|[k v] r IH]; cbn; [reflexivity|].
  destruct (k =? t) eqn:E.
  - apply Z.eqb_eq in E. subst k. destruct (t =? t') eqn:E2; [lia | exact IH].
  - cbn. destruct (k =? t'); [reflexivity | exact IH].
Qed.

Lemma buf_get_set_other t t' v m : t <> t' -> buf_get t' (buf_set t v m) = buf_get t' m.
Proof.
  intros H. unfold buf_set. cbn. destruct (t =? t') eqn:E; [lia|]. apply buf_get_del_other. exact H.
Qed.

Section WithOracle.
  Variable fmt : list Z -> option (list Z).

  (* the completed line: the thread's buffer is gone, except on the two error outcomes *)
  Lemma ws_line_resync d t m :
    ws_idle (fst (ws_line fmt d t m)) t = true \/
    snd (ws_line fmt d t m) = OException TypeError \/ snd (ws_line fmt d t m) = ONoOracle.
  Proof.
    assert (Hc : ws_idle (mkWs (buf_del t (bufs d)) (sensors d)) t = true).
    { unfold ws_idle. cbn. rewrite buf_get_del_same. reflexivity. }
    unfold ws_line. destruct (split_ws (strip m)) as [|a0 [|a1 [|a2 [|a3 [|a4 rest]]]]].
    - left; exact Hc.
    - left; exact Hc.
    - destruct (zlist_eqb a0 [R_CHAR]); [left; exact Hc|].
      destruct (zlist_eqb a0 [W_CHAR]); [left; exact Hc | right; left; reflexivity].
    - destruct (zlist_eqb a0 [R_CHAR] || zlist_eqb a0 [W_CHAR]); [left; exact Hc | right; left; reflexivity].
    - destruct (zlist_eqb a0 [W_CHAR]).
      + destruct (fmt a2); [left | right; right; reflexivity].
        unfold ws_idle. cbn. rewrite buf_get_del_same. reflexivity.
      + destruct (zlist_eqb a0 [R_CHAR]); [left; exact Hc | right; left; reflexivity].
    - destruct (zlist_eqb a0 [R_CHAR] || zlist_eqb a0 [W_CHAR]); [left; exact Hc | right; left; reflexivity].
  Qed.

  (* C03: the terminator on thread t leaves thread t idle, from ANY state *)
  Lemma ws_resync d t :
    ws_idle (fst (ws_step fmt d t LF)) t = true \/
    snd (ws_step fmt d t LF) = OException TypeError \/ snd (ws_step fmt d t LF) = ONoOracle.
  Proof.
    assert (Hc : ws_idle (mkWs (buf_del t (bufs d)) (sensors d)) t = true).
    { unfold ws_idle. cbn. rewrite buf_get_del_same. reflexivity. }
    unfold ws_step. set (cur := match buf_get t (bufs d) with Some v => v | None => [] end).
    destruct (cur ++ [LF]) as [|x [|y [|z rest]]] eqn:E.
    - destruct cur; discriminate.
    - left. exact Hc.
    - left. exact Hc.
    - change (LF =? LF) with true. cbv iota. apply ws_line_resync.
  Qed.

  (* an idle thread discards a byte that is not a command letter: False, nothing changes for it *)
  Lemma ws_idle_discards d t b : ws_idle d t = true -> b <> R_CHAR -> b <> W_CHAR ->
    ws_step fmt d t b = (mkWs (buf_del t (bufs d)) (sensors d), OFalse).
  Proof.
    intros Hi Hr Hw. unfold ws_step, ws_idle in *. destruct (buf_get t (bufs d)); [discriminate|].
    cbn [app]. destruct (b =? R_CHAR) eqn:E1; [lia|]. destruct (b =? W_CHAR) eqn:E2; [lia|]. reflexivity.
  Qed.

  Lemma ws_idle_accepts d t b : ws_idle d t = true -> (b = R_CHAR \/ b = W_CHAR) ->
    ws_step fmt d t b = (mkWs (buf_set t [b] (bufs d)) (sensors d), OTrue).
  Proof.
    intros Hi Hb. unfold ws_step, ws_idle in *. destruct (buf_get t (bufs d)); [discriminate|].
    cbn [app]. destruct Hb as [-> | ->]; reflexivity.
  Qed.

  (* threads do not see each other's buffers *)
  Lemma ws_line_other d t t' m : t <> t' ->
    buf_get t' (bufs (fst (ws_line fmt d t m))) = buf_get t' (bufs d).
  Proof.
    intros H. unfold ws_line.
    destruct (split_ws (strip m)) as [|a0 [|a1 [|a2 [|a3 [|a4 rest]]]]]; cbn [fst bufs];
      repeat match goal with
             | |- context [if ?c then _ else _] => destruct c; cbn [fst bufs]
             | |- context [match fmt ?x with _ => _ end] => destruct (fmt x); cbn [fst bufs]
             end;
      auto using buf_get_del_other, buf_get_set_other.
  Qed.

  Lemma ws_step_other d t t' b : t <> t' ->
    buf_get t' (bufs (fst (ws_step fmt d t b))) = buf_get t' (bufs d).
  Proof.
    intros H. unfold ws_step. set (cur := match buf_get t (bufs d) with Some v => v | None => [] end).
    destruct (cur ++ [b]) as [|x [|y [|z rest]]];
      repeat match goal with
             | |- context [if ?c then _ else _] => destruct c; cbn [fst bufs]
             end;
      cbn [fst bufs]; auto using buf_get_del_other, buf_get_set_other, ws_line_other.
  Qed.
End WithOracle.

(* ---------------------------------------------------------------- the sensor table *)
Lemma sen_update_found id v dt l s : sen_find id l = Some s ->
  sen_find id (sen_update id v dt l) = Some (mkSen (sid s) v dt (sinfo s)).
Proof.
  induction l as [|x r IH]; cbn; [discriminate|].
  destruct (zlist_eqb (sid x) id) eqn:E.
  - intros H; injection H as <-. cbn. rewrite E. reflexivity.
  - intros H. cbn. rewrite E. apply IH. exact H.
Qed.

Lemma sen_update_other id id' v dt l : id <> id' ->
  sen_find id' (sen_update id v dt l) = sen_find id' l.
Proof.
  intros H. induction l as [|x r IH]; cbn; [reflexivity|].
  destruct (zlist_eqb (sid x) id) eqn:E; cbn.
  - apply zlist_eqb_eq in E. destruct (zlist_eqb (sid x) id') eqn:E2; [|reflexivity].
    apply zlist_eqb_eq in E2. congruence.
  - destruct (zlist_eqb (sid x) id'); [reflexivity | exact IH].
Qed.

Lemma sen_update_unknown id v dt l : sen_find id l = None -> sen_update id v dt l = l.
Proof.
  induction l as [|x r IH]; cbn; [reflexivity|].
  destruct (zlist_eqb (sid x) id); [discriminate|]. intros H. rewrite IH by exact H. reflexivity.
Qed.

Lemma ws_read_cases l id :
  (sen_find id l = None /\ ws_read l id = WS_ERR) \/
  (exists s, sen_find id l = Some s /\
     ws_read l id = WS_OPEN ++ id ++ WS_VAL ++ sval s ++ WS_DATE ++ sdate s ++ WS_INFO ++ sinfo s ++ WS_CLOSE).
Proof. unfold ws_read. destruct (sen_find id l) as [s|]; [right; exists s; auto | left; auto]. Qed.

Lemma ws_read_found l id s : sen_find id l = Some s ->
  ws_read l id = WS_OPEN ++ id ++ WS_VAL ++ sval s ++ WS_DATE ++ sdate s ++ WS_INFO ++ sinfo s ++ WS_CLOSE.
Proof. intros H. unfold ws_read. rewrite H. reflexivity. Qed.
