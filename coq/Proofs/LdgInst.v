(* C07 — the instances run inside the generic theory, and the generated tables of the current tree
   satisfy its side conditions (vm_compute; re-checked whenever the translator output changes). *)
From Coq Require Import String.
From DS Require Import Base.Prelude Model.LdgLedger Model.LdgInst Proofs.LdgLedger Proofs.LdgQuiesce Gen.LdgLedger.
Open Scope string_scope.
Open Scope Z_scope.
Open Scope list_scope.

Section Driver.
  Context {C E : Type}.
  Variable opf : table -> C -> ledger -> E -> option (C * op).

  Lemma istep_reachable T st e st' :
    reachable T (snd st) -> istep opf T st e = Some st' -> reachable T (snd st').
  Proof.
    unfold istep. intros Hr H.
    destruct (opf T (fst st) (snd st) e) as [[c' o]|]; [|discriminate].
    destruct (exec_op T (snd st) o) as [l'|] eqn:E1; [|discriminate].
    injection H as <-. cbn. eapply reachable_step; eassumption.
  Qed.

  Lemma iruns_reachable T evs : forall st st',
    reachable T (snd st) -> iruns opf T st evs = Some st' -> reachable T (snd st').
  Proof.
    induction evs as [|e es IH]; intros st st' Hr H; cbn in H.
    - injection H as <-. exact Hr.
    - destruct (istep opf T st e) as [st1|] eqn:E1; [|discriminate].
      eapply IH; [|exact H]. eapply istep_reachable; eassumption.
  Qed.

  (* any instance history, stopped anywhere: nothing that blocks process exit is left *)
  Theorem inst_clean T init c0 l0 evs st :
    ledger_ok T = true -> boot T init = Some l0 -> iruns opf T (c0, l0) evs = Some st ->
    blocking_alive (stop T (snd st)) = [].
  Proof.
    intros Hok Hb Hr. apply clean_after_stop; [exact Hok|].
    eapply iruns_reachable; [|exact Hr]. cbn. exists init, [], l0. split; [exact Hb | reflexivity].
  Qed.

  Theorem inst_nothing T init c0 l0 evs st :
    starts_nothing T = true -> boot T init = Some l0 -> iruns opf T (c0, l0) evs = Some st ->
    l_live (snd st) = [].
  Proof.
    intros Hn Hb Hr. apply (nothing_started T); [exact Hn|].
    eapply iruns_reachable; [|exact Hr]. cbn. exists init, [], l0. split; [exact Hb | reflexivity].
  Qed.
End Driver.

(* ---- the generated tables ---- *)
Definition active_units : list string :=
  ["totalpower"; "mscu"; "minor_servos"; "acu"; "active_surface"].
Definition smem (x : string) (l : list string) : bool := existsb (String.eqb x) l.
(* backend_* tables belong to the part c07_backend *)
Definition mine (name : string) : bool := negb (String.prefix "backend" name).

Definition unit_ok (p : string * table) : bool :=
  reply_ok (snd p) &&
  (if mine (fst p)
   then ledger_ok (snd p) && (smem (fst p) active_units || starts_nothing (snd p))
   else true).

Lemma tables_ok : forallb unit_ok tables = true.
Proof. vm_compute. reflexivity. Qed.

Lemma units_present : forallb (fun n => existsb (fun p => String.eqb n (fst p)) tables) active_units = true.
Proof. vm_compute. reflexivity. Qed.

Lemma table_ok name T : In (name, T) tables -> unit_ok (name, T) = true.
Proof. intros H. pose proof tables_ok as Hall. rewrite forallb_forall in Hall. exact (Hall _ H). Qed.

Lemma table_reply name T : In (name, T) tables -> stop_reply T = Some ack.
Proof.
  intros H. apply table_ok in H. unfold unit_ok in H. apply andb_true_iff in H as [H _].
  unfold reply_ok, stop_reply in *. cbn in H. destruct (t_reply T) as [r|]; cbn in H; [|discriminate].
  apply zlist_eqb_eq in H. congruence.
Qed.

Lemma table_ledger_ok name T : In (name, T) tables -> mine name = true -> ledger_ok T = true.
Proof.
  intros H Hm. apply table_ok in H. unfold unit_ok in H. cbn [fst snd] in H. rewrite Hm in H.
  apply andb_true_iff in H as [_ H]. apply andb_true_iff in H as [H _]. exact H.
Qed.

Lemma table_nothing name T : In (name, T) tables -> mine name = true -> smem name active_units = false ->
  starts_nothing T = true.
Proof.
  intros H Hm Hn. apply table_ok in H. unfold unit_ok in H. cbn [fst snd] in H. rewrite Hm, Hn in H.
  apply andb_true_iff in H as [_ H]. apply andb_true_iff in H as [_ H]. exact H.
Qed.

Theorem clean_any_unit name T l : In (name, T) tables -> mine name = true ->
  reachable T l -> blocking_alive (stop T l) = [] /\ stop_reply T = Some ack.
Proof.
  intros Hin Hm Hr. split.
  - apply clean_after_stop; [eapply table_ledger_ok; eassumption | exact Hr].
  - eapply table_reply; eassumption.
Qed.

Theorem others_start_nothing name T l : In (name, T) tables -> mine name = true ->
  smem name active_units = false -> reachable T l -> l_live l = [].
Proof.
  intros Hin Hm Hn Hr. apply (nothing_started T); [|exact Hr]. eapply table_nothing; eassumption.
Qed.

Lemma ok_totalpower : ledger_ok tbl_totalpower = true. Proof. vm_compute. reflexivity. Qed.
Lemma ok_mscu : ledger_ok tbl_mscu = true. Proof. vm_compute. reflexivity. Qed.
Lemma ok_minor_servos : ledger_ok tbl_minor_servos = true. Proof. vm_compute. reflexivity. Qed.
Lemma ok_acu : ledger_ok tbl_acu = true. Proof. vm_compute. reflexivity. Qed.
Lemma ok_active_surface : ledger_ok tbl_active_surface = true. Proof. vm_compute. reflexivity. Qed.

Theorem clean_totalpower evs st :
  iruns tp_op tbl_totalpower (tp_init_ctrl, empty_ledger) evs = Some st ->
  blocking_alive (stop tbl_totalpower (snd st)) = [].
Proof. apply (inst_clean tp_op tbl_totalpower tp_boot); [exact ok_totalpower | reflexivity]. Qed.

Theorem clean_mscu evs st :
  iruns ms_op tbl_mscu (tt, empty_ledger) evs = Some st ->
  blocking_alive (stop tbl_mscu (snd st)) = [].
Proof. apply (inst_clean ms_op tbl_mscu ms_boot); [exact ok_mscu | reflexivity]. Qed.

Theorem clean_minor_servos rest init l0 evs st :
  mv_boot tbl_minor_servos rest = Some init -> boot tbl_minor_servos init = Some l0 ->
  iruns mv_op tbl_minor_servos (mkMv 1 [], l0) evs = Some st ->
  blocking_alive (stop tbl_minor_servos (snd st)) = [].
Proof. intros _ Hb. apply (inst_clean mv_op tbl_minor_servos init); [exact ok_minor_servos | exact Hb]. Qed.

Theorem clean_acu init l0 evs st :
  acu_boot tbl_acu = Some init -> boot tbl_acu init = Some l0 ->
  iruns acu_op tbl_acu (tt, l0) evs = Some st ->
  blocking_alive (stop tbl_acu (snd st)) = [].
Proof. intros _ Hb. apply (inst_clean acu_op tbl_acu init); [exact ok_acu | exact Hb]. Qed.

(* totalpower: system_stop of the current tree sets the stop flag or closes the data socket, after
   which the chains end *)
Lemma totalpower_stop_quiet c l st :
  istep tp_op tbl_totalpower (c, l) TpSysStop = Some st -> tp_quiet (fst st) = true.
Proof. apply tp_sysstop_quiet. vm_compute. reflexivity. Qed.

Theorem totalpower_chains_end_after_stop c l st1 evs st :
  istep tp_op tbl_totalpower (c, l) TpSysStop = Some st1 ->
  forallb tp_is_fire evs = true -> iruns tp_op tbl_totalpower st1 evs = Some st ->
  (List.length evs + wt (l_live (snd st)) <= wt (l_live (snd st1)))%nat.
Proof.
  intros H1 Hf Hr. destruct st1 as [c1 l1].
  pose proof (totalpower_stop_quiet c l (c1, l1) H1) as Hs. cbn in Hs.
  exact (proj2 (tp_stopped_chains_end tbl_totalpower evs c1 l1 st Hs Hf Hr)).
Qed.

(* hypotheses are satisfiable: the boot sequences of the current tables run *)
Example boot_minor_servos_runs :
  exists init l0, mv_boot tbl_minor_servos true = Some init /\ boot tbl_minor_servos init = Some l0
                  /\ blocking_ids l0 = [10].
Proof. eexists. eexists. split; [reflexivity|]. split; vm_compute; reflexivity. Qed.

Example totalpower_streaming_is_stopped :
  exists st, iruns tp_op tbl_totalpower (tp_init_ctrl, empty_ledger)
               [TpX true false; TpResume; TpFire 1 false; TpResume; TpStop; TpSysStop] = Some st
             /\ alive_ids (snd st) <> [] /\ blocking_ids (snd st) = [].
Proof. eexists. split; [vm_compute; reflexivity|]. split; vm_compute; congruence. Qed.

Example totalpower_chain_ends :   (* streaming, stopped, the armed timer was cancelled: nothing can fire *)
  exists st, iruns tp_op tbl_totalpower (tp_init_ctrl, empty_ledger)
               [TpX true false; TpResume; TpFire 1 false; TpSysStop] = Some st
             /\ wt (l_live (snd st)) = 0%nat.
Proof. eexists. split; vm_compute; reflexivity. Qed.

Example mscu_setup_twice_one_timer :
  exists st, iruns ms_op tbl_mscu (tt, empty_ledger) [MsSetup 1; MsSetup 1; MsSetup 2] = Some st
             /\ blocking_ids (snd st) = [1; 2] /\ blocking_ids (stop tbl_mscu (snd st)) = [].
Proof. eexists. split; [vm_compute; reflexivity|]. split; vm_compute; reflexivity. Qed.

(* the check is not vacuous: the same machinery rejects the shapes of the known defects *)
Definition tbl_blind_overwrite : table :=   (* totalpower before fix 30: non-daemon timers, no system_stop *)
  mkTable [mkSite "_resume" KTimer (Some "data_timer") false false true GNone] [] [] false (Some ack).
Example blind_overwrite_rejected : ledger_ok tbl_blind_overwrite = false.
Proof. vm_compute. reflexivity. Qed.
Example blind_overwrite_leaks :
  exists l, run tbl_blind_overwrite empty_ledger
              [OCmd [SCreate (mkSite "_resume" KTimer (Some "data_timer") false false true GNone) 0 false]]
            = Some l /\ blocking_ids (stop tbl_blind_overwrite l) = [0].
Proof. eexists. split; vm_compute; reflexivity. Qed.
