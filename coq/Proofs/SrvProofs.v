(* C01: the handler model (fixed code) refines the stream specification; segmentation
   independence; no handler death; custom commands.  C07 (server part): $system_stop%%%%%. *)
From DS Require Import Base.Prelude Model.SrvHandler Spec.SrvRelaySpec Proofs.SrvLists.

(* `response` values that make an iteration whose parse raised do nothing *)
Definition inert (v : value) : Prop :=
  match v with
  | VStr (c :: s) => encode_latin1 (c :: s) = None
  | _ => True
  end.

(* the content of self.custom_msg after the bytes [pre] of the connection *)
Definition cm_of (pre : list Z) : list Z :=
  match since_header pre with
  | Some t => if contains_tail t then [] else HEADER :: t
  | None => []
  end.

Section Refinement.
  Variable E : Type.
  Variable sparse : E -> Z -> outcome * E.
  Variable scall : E -> list Z -> list (list Z) -> sysres * E.
  Variable sendok : nat -> bool.

  Notation relay_step := (relay_step fixed E sparse sendok).
  Notation exec_custom := (exec_custom fixed E scall sendok).
  Notation custom_step := (custom_step fixed E scall sendok).
  Notation step_byte := (step_byte fixed E sparse scall sendok).
  Notation handle_bytes := (handle_bytes fixed E sparse scall sendok).
  Notation handle_segment := (handle_segment fixed E sparse scall sendok).
  Notation handle_tcp := (handle_tcp fixed E sparse scall sendok).
  Notation command_block := (command_block E scall).
  Notation relay_from := (relay_from E sparse scall).

  (* the command block the spec attaches to position |pre|+1 *)
  Definition block_at (pre : list Z) (b : Z) (e : E) : list action * E :=
    match completes (pre ++ [b]) with
    | Some body => command_block e body
    | None => ([], e)
    end.

  Lemma relay_from_cons pre b r e :
    relay_from pre (b :: r) e =
      let sp := sparse e b in
      let blk := block_at pre b (snd sp) in
      let rr := relay_from (pre ++ [b]) r (snd blk) in
      (Parse b :: reply_of (fst sp) ++ fst blk ++ fst rr, snd rr).
  Proof.
    cbn [SrvRelaySpec.relay_from]. unfold block_at.
    destruct (sparse e b) as [o e1]. cbn [fst snd].
    destruct (completes (pre ++ [b])) as [body|].
    - destruct (command_block e1 body) as [ca e2]. cbn [fst snd].
      destruct (relay_from (pre ++ [b]) r e2) as [ra e3]. reflexivity.
    - cbn [fst snd]. destruct (relay_from (pre ++ [b]) r e1) as [ra e3]. reflexivity.
  Qed.

  Lemma relay_from_app s1 : forall pre s2 e,
    relay_from pre (s1 ++ s2) e =
      let r1 := relay_from pre s1 e in
      let r2 := relay_from (pre ++ s1) s2 (snd r1) in
      (fst r1 ++ fst r2, snd r2).
  Proof.
    induction s1 as [|b r IH]; intros pre s2 e.
    - cbn. rewrite app_nil_r. destruct (relay_from pre s2 e). reflexivity.
    - rewrite <- app_comm_cons. rewrite !relay_from_cons. cbn zeta.
      rewrite IH. cbn zeta. cbn [fst snd].
      replace ((pre ++ [b]) ++ r) with (pre ++ b :: r) by (rewrite <- app_assoc; reflexivity).
      rewrite !app_comm_cons, !app_assoc. reflexivity.
  Qed.

  Section SendsSucceed.
    Hypothesis Hsend : forall k, sendok k = true.

    Lemma relay_step_spec resp h b : inert resp ->
      exists resp' h',
        relay_step resp h b =
          (Parse b :: reply_of (fst (sparse (env h) b)), resp', h', Continue) /\
        inert resp' /\ env h' = snd (sparse (env h) b) /\ cmsg h' = cmsg h.
    Proof.
      intros Hi. unfold SrvHandler.relay_step.
      destruct (sparse (env h) b) as [o e1]. cbn [fst snd].
      assert (Hin : forall v, inert v ->
        exists resp' h',
          match v with
          | VBool _ => ([Parse b], v, set_env E h e1, Continue)
          | VStr (c :: s) =>
              match encode_latin1 (c :: s) with
              | Some p =>
                  if sendok (nsend (set_env E h e1))
                  then ([Parse b; Send p], VBytes, bump E (set_env E h e1), Continue)
                  else ([Parse b; SendFail p], VBytes, bump E (set_env E h e1), Break)
              | None =>
                  if fix02 fixed then ([Parse b], v, set_env E h e1, Continue)
                  else ([Parse b; Dies EUnicodeEncode], v, set_env E h e1, Died)
              end
          | _ => ([Parse b], v, set_env E h e1, Continue)
          end = ([Parse b], resp', h', Continue) /\
          inert resp' /\ env h' = e1 /\ cmsg h' = cmsg h).
      { intros v Hv. destruct v as [| bb | [|c s] | |]; try (do 2 eexists; repeat split; exact I).
        cbn in Hv. rewrite Hv. cbn. do 2 eexists. repeat split. exact Hv. }
      destruct o as [v| |].
      - (* parse returned v *)
        destruct v as [| bb | [|c s] | |]; cbn [reply_of];
          try (do 2 eexists; repeat split; exact I).
        destruct (encode_latin1 (c :: s)) as [p|] eqn:Ee.
        + rewrite Hsend. do 2 eexists. repeat split.
        + cbn. do 2 eexists. repeat split. exact Ee.
      - cbn [reply_of]. apply Hin. exact Hi.
      - cbn [reply_of]. apply Hin. exact Hi.
    Qed.

    Lemma exec_custom_spec h body :
      exists h',
        exec_custom h body = (fst (command_block (env h) body), h', Continue) /\
        env h' = snd (command_block (env h) body) /\ cmsg h' = cmsg h.
    Proof.
      unfold SrvHandler.exec_custom, SrvRelaySpec.command_block.
      rewrite split_command_parse_body.
      destruct (parse_body body) as [[name params]|].
      - destruct (scall (env h) name params) as [r e'].
        destruct r as [s| | |]; cbn [result_actions fst snd];
          [| eexists; repeat split ..].
        destruct (encode_latin1 s) as [p|].
        + cbn [nsend set_env]. rewrite Hsend. eexists. repeat split.
        + eexists. repeat split.
      - cbn. eexists. repeat split.
    Qed.

    Lemma slice_header_cons u :
      slice_1_m5 (HEADER :: u) = firstn (length u - 5) u.
    Proof.
      unfold slice_1_m5. cbn [length skipn].
      replace (S (length u) - 6)%nat with (length u - 5)%nat by lia. reflexivity.
    Qed.

    Lemma set_cmsg_same (h : hst E) : set_cmsg E h (cmsg h) = h.
    Proof. destruct h. reflexivity. Qed.

    Lemma custom_step_spec pre h b : cmsg h = cm_of pre ->
      exists h',
        custom_step h b = (fst (block_at pre b (env h)), h', Continue) /\
        env h' = snd (block_at pre b (env h)) /\ cmsg h' = cm_of (pre ++ [b]).
    Proof.
      intros Hcm. unfold SrvHandler.custom_step, block_at, completes.
      destruct (b =? HEADER) eqn:Eb.
      - apply Z.eqb_eq in Eb. subst b.
        unfold cm_of. rewrite since_header_snoc_header. cbn.
        eexists. repeat split.
      - apply Z.eqb_neq in Eb.
        unfold cm_of in *. rewrite (since_header_snoc pre b Eb).
        destruct (since_header pre) as [t|]; cbn [option_map].
        + rewrite removelast_last, contains_tail_snoc.
          destruct (contains_tail t) eqn:Ect.
          * rewrite Hcm. cbn. rewrite andb_false_r. cbn.
            eexists. repeat split. exact Hcm.
          * rewrite Hcm. cbn [starts_with_header]. rewrite Z.eqb_refl.
            rewrite <- app_comm_cons, ends_with_tail_cons_header.
            destruct (ends_with custom_tail (t ++ [b])) eqn:Ee; cbn [andb negb orb].
            -- rewrite slice_header_cons.
               destruct (exec_custom_spec (set_cmsg E h []) (firstn (length (t ++ [b]) - 5) (t ++ [b])))
                 as (h' & He & Henv & Hc).
               exists h'. repeat split; assumption.
            -- eexists. repeat split.
        + rewrite Hcm. cbn. eexists. repeat split. exact Hcm.
    Qed.

    Lemma step_byte_spec pre resp h b : inert resp -> cmsg h = cm_of pre ->
      exists resp' h',
        step_byte resp h b =
          (Parse b :: reply_of (fst (sparse (env h) b))
             ++ fst (block_at pre b (snd (sparse (env h) b))), resp', h', Continue) /\
        inert resp' /\
        env h' = snd (block_at pre b (snd (sparse (env h) b))) /\
        cmsg h' = cm_of (pre ++ [b]).
    Proof.
      intros Hi Hcm. unfold SrvHandler.step_byte.
      destruct (relay_step_spec resp h b Hi) as (resp' & h1 & -> & Hi' & He1 & Hc1).
      rewrite Hcm in Hc1.
      destruct (custom_step_spec pre h1 b Hc1) as (h2 & -> & He2 & Hc2).
      rewrite He1 in *. exists resp', h2. repeat split; assumption.
    Qed.

    (* the loop of _handle from any inert `response` refines the spec *)
    Lemma handle_bytes_spec rest : forall pre resp h,
      inert resp -> cmsg h = cm_of pre ->
      let r := handle_bytes resp h rest in
      let sp := relay_from pre rest (env h) in
      actions_of r = fst sp /\ env (state_of r) = snd sp /\
      cmsg (state_of r) = cm_of (pre ++ rest) /\ flow_of r = Continue.
    Proof.
      induction rest as [|b r IH]; intros pre resp h Hi Hcm.
      - cbn. rewrite app_nil_r. auto.
      - cbn zeta. rewrite relay_from_cons. cbn zeta.
        cbn [SrvHandler.handle_bytes].
        destruct (step_byte_spec pre resp h b Hi Hcm) as (resp' & h' & -> & Hi' & He & Hc).
        specialize (IH (pre ++ [b]) resp' h' Hi' Hc). cbn zeta in IH.
        destruct (handle_bytes resp' h' r) as [[a2 h2] f2].
        unfold actions_of, state_of, flow_of in *. cbn [fst snd] in *.
        rewrite He in IH. destruct IH as (Ha & Hen & Hcm2 & Hf).
        rewrite <- app_assoc in Hcm2. cbn [app] in Hcm2.
        repeat split; try assumption.
        rewrite Ha. cbn [app]. rewrite <- app_assoc. reflexivity.
    Qed.

    (* the TCP receive loop over any sequence of non-empty segments *)
    Lemma handle_tcp_spec segs : forall pre h,
      Forall (fun s => s <> []) segs -> cmsg h = cm_of pre ->
      let r := handle_tcp h (map Some segs) in
      let sp := relay_from pre (concat segs) (env h) in
      actions_of r = fst sp /\ env (state_of r) = snd sp /\
      cmsg (state_of r) = cm_of (pre ++ concat segs) /\ flow_of r = Continue.
    Proof.
      induction segs as [|s segs IH]; intros pre h Hne Hcm.
      - cbn. rewrite app_nil_r. auto.
      - inversion Hne as [|? ? Hs Hne']; subst.
        cbn [map concat]. cbn zeta. rewrite relay_from_app. cbn zeta.
        destruct s as [|c s]; [congruence|].
        cbn [SrvHandler.handle_tcp]. unfold SrvHandler.handle_segment.
        pose proof (handle_bytes_spec (c :: s) pre VNone h I Hcm) as Hseg. cbn zeta in Hseg.
        destruct (handle_bytes VNone h (c :: s)) as [[a h'] f].
        unfold actions_of, state_of, flow_of in *. cbn [fst snd] in *.
        destruct Hseg as (Ha & He & Hc & Hf). subst f.
        specialize (IH (pre ++ c :: s) h' Hne' Hc). cbn zeta in IH.
        destruct (handle_tcp h' (map Some segs)) as [[a2 h2] f2].
        cbn [fst snd] in *. rewrite He in IH.
        destruct IH as (Ha2 & He2 & Hc2 & Hf2).
        rewrite <- app_assoc in Hc2.
        repeat split; try assumption. rewrite Ha, Ha2. reflexivity.
    Qed.
  End SendsSucceed.

  (* ---- no exception leaves the fixed handler, whatever the device and the socket do ---- *)

  Definition no_dies (a : list action) : Prop := forallb (fun x => negb (is_dies x)) a = true.

  Lemma no_dies_app a b : no_dies a -> no_dies b -> no_dies (a ++ b).
  Proof. unfold no_dies. rewrite forallb_app. intros -> ->. reflexivity. Qed.

  Lemma exec_custom_alive h body :
    no_dies (fst (fst (exec_custom h body))) /\ snd (exec_custom h body) = Continue.
  Proof.
    unfold SrvHandler.exec_custom.
    destruct (split_command body) as [[name params]|]; [|unfold no_dies, actions_of, flow_of; cbn; auto].
    destruct (scall (env h) name params) as [r e']. destruct r as [s| | |]; try (unfold no_dies, actions_of, flow_of; cbn; auto).
    destruct (encode_latin1 s); [|unfold no_dies, actions_of, flow_of; cbn; auto].
    destruct (sendok _); [|unfold no_dies, actions_of, flow_of; cbn; auto].
    destruct (zlist_eqb s shutdown_ack); unfold no_dies, actions_of, flow_of; cbn; auto.
  Qed.

  Lemma custom_step_alive h b :
    no_dies (fst (fst (custom_step h b))) /\ snd (custom_step h b) = Continue.
  Proof.
    unfold SrvHandler.custom_step.
    destruct (b =? HEADER); [unfold no_dies, actions_of, flow_of; cbn; auto|].
    destruct (starts_with_header (cmsg h)); [|unfold no_dies, actions_of, flow_of; cbn; auto].
    destruct (ends_with custom_tail (cmsg h ++ [b])); [|unfold no_dies, actions_of, flow_of; cbn; auto].
    apply exec_custom_alive.
  Qed.

  Lemma relay_step_alive resp h b :
    no_dies (fst (fst (fst (relay_step resp h b)))) /\ snd (relay_step resp h b) <> Died.
  Proof.
    unfold SrvHandler.relay_step. destruct (sparse (env h) b) as [o e1].
    destruct (match o with ORet v => v | _ => resp end) as [| bb | [|c s] | |];
      try (unfold no_dies; cbn; split; [reflexivity | discriminate]).
    destruct (encode_latin1 (c :: s)).
    - destruct (sendok _); unfold no_dies; cbn; split; try reflexivity; discriminate.
    - unfold no_dies; cbn. split; [reflexivity | discriminate].
  Qed.

  Lemma step_byte_alive resp h b :
    no_dies (fst (fst (fst (step_byte resp h b)))) /\ snd (step_byte resp h b) <> Died.
  Proof.
    unfold SrvHandler.step_byte.
    pose proof (relay_step_alive resp h b) as [Hn Hf].
    destruct (relay_step resp h b) as [[[a1 resp'] h1] f1]. cbn [fst snd] in *.
    destruct f1; cbn [fst snd]; try (split; [assumption | first [discriminate | assumption]]).
    pose proof (custom_step_alive h1 b) as [Hn2 Hf2].
    destruct (custom_step h1 b) as [[a2 h2] f2]. cbn [fst snd] in *.
    split; [apply no_dies_app; assumption | rewrite Hf2; discriminate].
  Qed.

  Lemma handle_bytes_alive bs : forall resp h,
    no_dies (actions_of (handle_bytes resp h bs)) /\ flow_of (handle_bytes resp h bs) = Continue.
  Proof.
    induction bs as [|b r IH]; intros resp h.
    - unfold no_dies, actions_of, flow_of; cbn; auto.
    - cbn [SrvHandler.handle_bytes].
      pose proof (step_byte_alive resp h b) as [Hn Hf].
      destruct (step_byte resp h b) as [[[a resp'] h'] f]. cbn [fst snd] in *.
      destruct f; [| unfold no_dies, actions_of, flow_of; cbn; auto | congruence].
      specialize (IH resp' h'). destruct (handle_bytes resp' h' r) as [[a2 h2] f2].
      unfold actions_of, flow_of in *. cbn [fst snd] in *.
      destruct IH as [Hn2 Hf2]. split; [apply no_dies_app; assumption | assumption].
  Qed.

  Lemma handle_tcp_alive evs : forall h,
    no_dies (actions_of (handle_tcp h evs)) /\ flow_of (handle_tcp h evs) = Continue.
  Proof.
    induction evs as [|ev evs IH]; intros h.
    - unfold no_dies, actions_of, flow_of; cbn; auto.
    - destruct ev as [[|c s]|]; try solve [unfold no_dies, actions_of, flow_of; cbn; auto].
      cbn [SrvHandler.handle_tcp]. unfold SrvHandler.handle_segment.
      pose proof (handle_bytes_alive (c :: s) VNone h) as [Hn Hf].
      destruct (handle_bytes VNone h (c :: s)) as [[a h'] f].
      unfold actions_of, flow_of in *. cbn [fst snd] in *. subst f.
      specialize (IH h'). destruct (handle_tcp h' evs) as [[a2 h2] f2]. cbn [fst snd] in *.
      destruct IH as [Hn2 Hf2]. split; [apply no_dies_app; assumption | assumption].
  Qed.

End Refinement.
