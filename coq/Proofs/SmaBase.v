(* General lemmas used by the Sma proofs: list update, finite range sweeps, str(int) digits. *)
From DS Require Import Base.Prelude Model.SmaCommon.

Lemma set_nth_length {A} n (v : A) l l' : set_nth n v l = Some l' -> length l' = length l.
Proof.
  revert l l'. induction n as [|n IH]; intros [|x r] l' H; cbn in H; try discriminate.
  - injection H as <-. reflexivity.
  - destruct (set_nth n v r) as [r'|] eqn:E; cbn in H; [|discriminate].
    injection H as <-. cbn. f_equal. eapply IH; eauto.
Qed.

Lemma set_nth_some {A} n (v : A) l : (n < length l)%nat -> exists l', set_nth n v l = Some l'.
Proof.
  revert l. induction n as [|n IH]; intros [|x r] H; cbn in H; try lia.
  - eexists; reflexivity.
  - destruct (IH r) as [r' Hr]; [lia|]. exists (x :: r'). cbn. rewrite Hr. reflexivity.
Qed.

Lemma set_nth_eq {A} n (v : A) l l' : set_nth n v l = Some l' -> nth_error l' n = Some v.
Proof.
  revert l l'. induction n as [|n IH]; intros [|x r] l' H; cbn in H; try discriminate.
  - injection H as <-. reflexivity.
  - destruct (set_nth n v r) as [r'|] eqn:E; cbn in H; [|discriminate].
    injection H as <-. cbn. eapply IH; eauto.
Qed.

Lemma set_nth_neq {A} n m (v : A) l l' :
  set_nth n v l = Some l' -> m <> n -> nth_error l' m = nth_error l m.
Proof.
  revert m l l'. induction n as [|n IH]; intros m [|x r] l' H Hm; cbn in H; try discriminate.
  - injection H as <-. destruct m; [congruence|reflexivity].
  - destruct (set_nth n v r) as [r'|] eqn:E; cbn in H; [|discriminate].
    injection H as <-. destruct m; [reflexivity|]. cbn. eapply IH; eauto.
Qed.

Lemma set_nth_Forall {A} (P : A -> Prop) n v l l' :
  set_nth n v l = Some l' -> Forall P l -> P v -> Forall P l'.
Proof.
  revert l l'. induction n as [|n IH]; intros [|x r] l' H HF Hv; cbn in H; try discriminate.
  - injection H as <-. inversion HF; subst. constructor; auto.
  - destruct (set_nth n v r) as [r'|] eqn:E; cbn in H; [|discriminate].
    injection H as <-. inversion HF; subst. constructor; eauto.
Qed.

(* finite sweep over 0 .. n-1, lifted to a statement for every z in the range *)
Definition zrange (n : nat) : list Z := map Z.of_nat (seq 0 n).

Lemma zrange_in n z : 0 <= z < Z.of_nat n -> In z (zrange n).
Proof.
  intros H. unfold zrange. apply in_map_iff. exists (Z.to_nat z). split; [lia|].
  apply in_seq. lia.
Qed.

Lemma range_sweep (P : Z -> bool) (n : nat) :
  forallb P (zrange n) = true -> forall z, 0 <= z < Z.of_nat n -> P z = true.
Proof. intros H z Hz. rewrite forallb_forall in H. apply H. apply zrange_in. exact Hz. Qed.

Lemma range_sweep2 (P : Z -> Z -> bool) (n m : nat) :
  forallb (fun a => forallb (P a) (zrange m)) (zrange n) = true ->
  forall a b, 0 <= a < Z.of_nat n -> 0 <= b < Z.of_nat m -> P a b = true.
Proof.
  intros H a b Ha Hb.
  pose proof (range_sweep _ _ H a Ha) as H1. cbv beta in H1.
  exact (range_sweep _ _ H1 b Hb).
Qed.

Lemma in01_spec v : Model.SmaCommon.is_digit v = true -> 48 <= v <= 57.
Proof. unfold is_digit. lia. Qed.

Lemma digits_fuel_length_ge f : forall n a, (length a <= length (digits_fuel f n a))%nat.
Proof.
  induction f as [|f IH]; intros n a; cbn [digits_fuel]; [lia|].
  destruct (n <? 10); cbn [length]; [lia|].
  specialize (IH (n / 10) ((48 + n mod 10) :: a)). cbn [length] in IH. lia.
Qed.

Lemma render_nat_nonempty n : (1 <= length (render_nat n))%nat.
Proof.
  unfold render_nat. cbn [digits_fuel]. destruct (n <? 10); cbn [length]; [lia|].
  pose proof (digits_fuel_length_ge (Z.to_nat (Z.log2 n)) (n / 10) [48 + n mod 10]) as H.
  cbn [length] in H. lia.
Qed.

Lemma render_int_nonempty z : (1 <= length (render_int z))%nat.
Proof.
  unfold render_int. destruct (z <? 0); cbn [length].
  - pose proof (render_nat_nonempty (- z)). lia.
  - apply render_nat_nonempty.
Qed.
