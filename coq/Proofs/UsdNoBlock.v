(* C07, active-surface part: no command handler of the USD line ever blocks.  The only blocking
   primitive of the active-surface code is Queue.get() on a unit's position queue (soft_trigger);
   it is called only when [ready] is set, and in every reachable state [ready] implies a non-empty
   queue (invariant Inv, Proofs/UsdInv.v), so the call returns at once. *)
From DS Require Import Base.Prelude Base.Bits Model.Utils Model.UsdModel Spec.UsdSpec.
From DS Require Import Proofs.UsdMotion Proofs.UsdInv Proofs.UsdRefine Proofs.UsdHistory.

(* event e, received in line state us, would leave a handler blocked inside System.parse *)
Definition would_block (us : list usd) (e : levent) : Prop :=
  match e with
  | LUni j c b p => exists u, nth_error us j = Some u /\ snd (handle c b p u) = OBlock
  | LBcast c b p => exists u, In u us /\ snd (handle c b p u) = OBlock
  | LTick _ => False            (* calc_position calls no blocking primitive *)
  end.

Lemma trigger_returns u : Inv u -> soft_trigger u <> MBlock.
Proof.
  intros H. unfold soft_trigger. destruct (ready u) eqn:Hr; [|discriminate].
  destruct (position_queue u) as [|[p a] rest] eqn:Hq; [|discriminate].
  exfalso. apply (proj1 (inv_ready u H) Hr). exact Hq.
Qed.

Lemma no_block_in_state us e : Forall Inv us -> wf_levent e -> ~ would_block us e.
Proof.
  intros Hf Hw. destruct e as [j c b p|c b p|k]; cbn [would_block wf_levent] in *; [| |tauto].
  - intros (u & Hn & Hb). destruct Hw as [Hb0 Hp].
    assert (Hu : Inv u) by (rewrite Forall_forall in Hf; apply Hf; eapply nth_error_In; exact Hn).
    exact (proj1 (never_blocks c b p u Hb0 Hp Hu) Hb).
  - intros (u & Hin & Hb). destruct Hw as [Hb0 Hp].
    assert (Hu : Inv u) by (rewrite Forall_forall in Hf; auto).
    exact (proj1 (never_blocks c b p u Hb0 Hp Hu) Hb).
Qed.

(* after any history of unicast / broadcast commands and time steps, whatever arrives next returns *)
Theorem never_blocks_line idxs clk h e : Forall (fun i => 0 <= i < 32) idxs -> Forall wf_levent h ->
  wf_levent e -> ~ would_block (fst (fst (lrun (map usd_init idxs, clk) h))) e.
Proof.
  intros Hi Hw He. apply no_block_in_state; [|exact He].
  apply (lrun_refines h (map usd_init idxs, clk) Hw (init_line_inv idxs Hi)).
Qed.

(* every outcome recorded along a history is a return of parse (reply, silence or rejection) *)
Theorem outcomes_are_returns idxs clk h : Forall (fun i => 0 <= i < 32) idxs -> Forall wf_levent h ->
  Forall (fun o => o <> Some OBlock) (snd (lrun (map usd_init idxs, clk) h)).
Proof.
  intros Hi Hw. pose proof (init_line_inv idxs Hi) as Hinv.
  generalize dependent (map usd_init idxs). revert clk.
  induction h as [|e h IH]; intros clk us Hinv; cbn [lrun]; [constructor|].
  inversion Hw as [|? ? He Hh]; subst.
  destruct (lstep_refines (us, clk) e He Hinv) as [_ Hi1].
  assert (Ho : snd (lstep (us, clk) e) <> Some OBlock).
  { destruct e as [j c b p|c b p|k]; cbn [lstep wf_levent] in *.
    - destruct (nth_error us j) as [u|] eqn:Hn.
      + assert (Hu : Inv u) by (rewrite Forall_forall in Hinv; apply Hinv; eapply nth_error_In; exact Hn).
        destruct (never_blocks c b p u (proj1 He) (proj2 He) Hu) as [N1 N2].
        unfold parse1. destruct (handle c b p u) as [u' o]. cbn [snd] in *.
        destruct o as [r| | | |]; try congruence.
        destruct (delay_multiplier u' =? 255); discriminate.
      + discriminate.       (* j is not a unit of the line: the model's explicit IndexError outcome *)
    - destruct (known_code c); cbn; discriminate.
    - cbn. discriminate. }
  destruct (lstep (us, clk) e) as [[us1 clk1] o]. cbn [fst snd] in *.
  specialize (IH Hh clk1 us1 Hi1). destruct (lrun (us1, clk1) h) as [s2 os]. cbn [snd] in *.
  constructor; assumption.
Qed.
