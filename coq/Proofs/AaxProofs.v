(* Aax — invariants of the axis model over all histories, and the C15 theorems. *)
From DS Require Import Base.Prelude Model.AaxModel Proofs.AaxArith Proofs.AaxStep.

(* what command validation (C14) guarantees about the parameters of an accepted command; the
   state conditions of validation (axis active, ...) are not needed by any theorem below *)
Definition accepted (c : cfg) (s : ax) (cm : cmd) : Prop :=
  match cm with
  | CAbs tgt r => in_range c tgt /\ Z.abs r <= vmax c
  | CRel d r => in_range c (p s + d) /\ Z.abs r <= vmax c
  | CSlew r => Z.abs r <= vmax c
  | CTrack r => Z.abs r <= vmax c
  | CDriveStow _ r => Z.abs r <= vmax c
  | _ => True
  end.

Definition ev_ok (c : cfg) (st : sys) (e : event) : Prop :=
  match e with
  | ECmd _ cm => accepted c (axs st) cm
  | ETick _ k => 0 <= k
  | _ => True
  end.

Inductive reach (c : cfg) (p0 : Z) : sys -> Prop :=
| reach_init : reach c p0 (init c p0)
| reach_step st e : reach c p0 st -> ev_ok c st e -> reach c p0 (step c st e).

Definition mover_ok (c : cfg) (m : mover) : Prop :=
  match m with
  | MMove _ _ _ tgt rate => in_range c tgt /\ Z.abs rate <= vmax c
  | MTrack _ _ rate _ => Z.abs rate <= vmax c
  end.

Record Good (c : cfg) (st : sys) : Prop := mkGood {
  g_range : in_range c (p (axs st));
  g_v : Z.abs (v (axs st)) <= vmax c;
  g_movers : Forall (mover_ok c) (movers st);
  g_ids : Forall (fun m => mover_id m < nid st) (movers st);
  g_nodup : NoDup (map mover_id (movers st)) }.

Lemma good_init c p0 : wf_cfg c -> in_range c p0 -> Good c (init c p0).
Proof.
  intros (Hc & Hv & _) Hp. unfold in_range in *. constructor; cbn.
  - unfold in_range. rewrite clampS_id; lia.
  - lia.
  - constructor.
  - constructor.
  - constructor.
Qed.

Lemma Forall_remove_mover (P : mover -> Prop) id ms : Forall P ms -> Forall P (remove_mover id ms).
Proof.
  intros H. apply Forall_forall. intros m Hm. apply remove_mover_incl in Hm.
  rewrite Forall_forall in H. auto.
Qed.

Lemma Forall_replace_mover (P : mover -> Prop) id m' ms :
  P m' -> Forall P ms -> Forall P (replace_mover id m' ms).
Proof.
  intros Hm' H. apply Forall_forall. intros m Hm. apply replace_mover_in in Hm as [->|Hm]; auto.
  rewrite Forall_forall in H. auto.
Qed.

Lemma NoDup_app_one (l : list Z) (x : Z) : NoDup l -> ~ In x l -> NoDup (l ++ [x]).
Proof.
  induction l as [|y r IH]; cbn; intros Hn Hx.
  - constructor; [tauto|constructor].
  - inversion Hn as [|? ? Hy Hr]; subst. constructor.
    + rewrite in_app_iff. cbn. intuition.
    + apply IH; tauto.
Qed.

Lemma cmd_step_mover c s id cnt cm m : wf_cfg c -> in_range c (p s) -> accepted c s cm ->
  snd (cmd_step c s id cnt cm) = Some m -> mover_ok c m /\ mover_id m = id.
Proof.
  intros (Hc & Hv & Hst) Hp Hacc. unfold in_range in *.
  unfold cmd_step. destruct cm; cbn [snd accepted] in *; unfold in_range in *; try discriminate.
  - intros [= <-]. cbn. unfold in_range. tauto.
  - intros [= <-]. cbn. unfold in_range. axs. tauto.
  - intros [= <-]. cbn. unfold in_range. axs. split; [|reflexivity]. split; [|lia].
    destruct (0 <? sgn rate); [lia|]. destruct (sgn rate <? 0); lia.
  - destruct (pta _); cbn; [discriminate|]. intros [= <-]. cbn. tauto.
  - destruct (has_stow c); [|discriminate].
    destruct (nthZ (stows c) idx) eqn:E; cbn; [|discriminate].
    intros [= <-]. cbn. unfold in_range. split; [|reflexivity]. split; [|lia].
    apply nthZ_in in E. rewrite Forall_forall in Hst. auto.
Qed.

Lemma good_step c st e : wf_cfg c -> Good c st -> ev_ok c st e -> Good c (step c st e).
Proof.
  intros Hwf [Hr Hv Hm Hi Hn] Hok. pose proof Hwf as (Hc & Hvm & Hst).
  destruct e as [cnt cm|id k| |nx pt bahn|z|z]; cbn [step ev_ok] in *.
  - (* command *)
    pose proof (cmd_step_mover c (axs st) (nid st) cnt cm) as Hmv.
    pose proof (cmd_step_p c (axs st) (nid st) cnt cm) as Hp'.
    pose proof (cmd_step_v c (axs st) (nid st) cnt cm) as Hv'.
    destruct (cmd_step c (axs st) (nid st) cnt cm) as [s' [m|]]; cbn [fst snd] in *.
    + destruct (Hmv m Hwf Hr Hok eq_refl) as [Hmok Hmid].
      constructor; cbn.
      * now rewrite Hp'.
      * destruct Hv' as [-> | ->]; lia.
      * apply Forall_app. split; [assumption|]. constructor; [assumption|constructor].
      * apply Forall_app. split.
        -- eapply Forall_impl; [|exact Hi]. cbn. intros; lia.
        -- constructor; [lia|constructor].
      * rewrite map_app. cbn. apply NoDup_app_one; [assumption|].
        intros Hin. apply in_map_iff in Hin as (x & Hx & Hin). rewrite Forall_forall in Hi.
        specialize (Hi x Hin). cbn in Hi. lia.
    + constructor; cbn.
      * now rewrite Hp'.
      * destruct Hv' as [-> | ->]; lia.
      * assumption.
      * eapply Forall_impl; [|exact Hi]. cbn. intros; lia.
      * assumption.
  - (* iteration of a command thread *)
    rewrite tick_movers_spec.
    destruct (find_mover id (movers st)) as [[i cnt kd tgt rate|i cnt rate fin]|] eqn:Ef.
    + apply find_mover_in in Ef as [Hin Hid]. rewrite Forall_forall in Hm.
      pose proof (Hm _ Hin) as [Htgt Hrate]. cbn in Htgt, Hrate.
      pose proof (move_tick_p c (axs st) cnt kd tgt rate (disp rate k)) as Hp'.
      pose proof (move_tick_v c (axs st) cnt kd tgt rate (disp rate k)) as Hv'.
      destruct (move_tick c (axs st) cnt kd tgt rate (disp rate k)) as [s' ended]. cbn [fst] in *.
      assert (Hr' : in_range c (p s')).
      { rewrite Hp'. destruct (_ && _); [|assumption].
        pose proof (calc_range c (p (axs st)) tgt (disp rate k) Hc) as H.
        unfold in_range. rewrite clampS_id; lia. }
      assert (Hv'' : Z.abs (v s') <= vmax c) by (destruct Hv' as [-> | ->]; lia).
      destruct ended; constructor; cbn; auto.
      * apply Forall_remove_mover. now apply Forall_forall.
      * now apply Forall_remove_mover.
      * apply (remove_mover_ids id _ Hn).
      * now apply Forall_forall.
    + apply find_mover_in in Ef as [Hin Hid]. pose proof Hm as Hm0. rewrite Forall_forall in Hm.
      pose proof (Hm _ Hin) as Hrate. cbn in Hrate.
      pose proof (track_tick_spec c (axs st) cnt rate fin k Hc Hvm Hr Hok Hrate) as H.
      destruct (track_tick c (axs st) cnt rate fin k) as [s' [[cnt' fin']|]]; cbn [fst] in H;
        destruct H as (H1 & _ & _ & _ & H5 & _); constructor; cbn; auto.
      * apply Forall_replace_mover; [exact Hrate|assumption].
      * apply Forall_replace_mover; [|assumption]. cbn. cbn in Hid. subst id.
        rewrite Forall_forall in Hi. apply (Hi _ Hin).
      * rewrite replace_mover_ids; [assumption|exact Hid].
      * now apply Forall_remove_mover.
      * now apply Forall_remove_mover.
      * apply (remove_mover_ids id _ Hn).
    + constructor; assumption.
  - (* update_status *)
    pose proof (update_status_frame c (axs st)) as (H1 & H2 & _).
    constructor; cbn [axs movers nid]; try assumption; [rewrite H1|rewrite H2]; assumption.
  - constructor; cbn; assumption.
  - constructor; cbn; try assumption; destruct (_ && _); assumption.
  - constructor; cbn; try assumption; destruct (_ && _); assumption.
Qed.

Lemma reach_good c p0 st : wf_cfg c -> in_range c p0 -> reach c p0 st -> Good c st.
Proof.
  intros Hwf Hp. induction 1 as [|st e _ IH Hok]; [now apply good_init|now apply good_step].
Qed.

(* ---- the event that ticks a given live mover ---- *)
Lemma step_tick_move c st id cnt kd tgt rate k :
  NoDup (map mover_id (movers st)) -> In (MMove id cnt kd tgt rate) (movers st) ->
  step c st (ETick id k) =
  mkSys (fst (move_tick c (axs st) cnt kd tgt rate (disp rate k)))
        (if snd (move_tick c (axs st) cnt kd tgt rate (disp rate k))
         then remove_mover id (movers st) else movers st) (nid st).
Proof.
  intros Hn Hin. cbn [step]. rewrite tick_movers_spec.
  pose proof (in_find_mover _ _ Hn Hin) as Hf. cbn [mover_id] in Hf. rewrite Hf.
  destruct (move_tick c (axs st) cnt kd tgt rate (disp rate k)) as [s' ended]. reflexivity.
Qed.

Lemma step_tick_track c st id cnt rate fin k :
  NoDup (map mover_id (movers st)) -> In (MTrack id cnt rate fin) (movers st) ->
  axs (step c st (ETick id k)) = fst (track_tick c (axs st) cnt rate fin k) /\
  (snd (track_tick c (axs st) cnt rate fin k) = None ->
   movers (step c st (ETick id k)) = remove_mover id (movers st)).
Proof.
  intros Hn Hin. cbn [step]. rewrite tick_movers_spec.
  pose proof (in_find_mover _ _ Hn Hin) as Hf. cbn [mover_id] in Hf. rewrite Hf.
  destruct (track_tick c (axs st) cnt rate fin k) as [s' [[cnt' fin']|]]; cbn; split;
    try reflexivity; discriminate.
Qed.

Section Theorems.
Variable c : cfg.
Variable p0 : Z.
Hypothesis Hwf : wf_cfg c.
Hypothesis Hp0 : in_range c p0.

(* C15 (a): the encoder position stays inside the operating range, for every history *)
Theorem range_all st : reach c p0 st -> lo c <= p (axs st) <= hi c.
Proof. intros H. apply (reach_good c p0 st Hwf Hp0 H). Qed.

(* C15 (b): the position changes only in a loop iteration of a live command thread, and only
   while the axis is active (axis_state 3) and not stowed *)
Theorem moves_only_if_active_unstowed st e : reach c p0 st -> ev_ok c st e ->
  p (axs (step c st e)) <> p (axs st) ->
  ast (axs st) = 3 /\ stowed (axs st) = false /\
  exists id k m, e = ETick id k /\ In m (movers st) /\ mover_id m = id.
Proof.
  intros Hreach Hok Hne. pose proof (reach_good c p0 st Hwf Hp0 Hreach) as [Hr Hv Hm Hi Hn].
  pose proof Hwf as (Hc & Hvm & Hst).
  assert (Hmov : forall s, moving s = true -> ast s = 3 /\ stowed s = false).
  { unfold moving. intros s H. apply andb_true_iff in H as [H1 H2].
    split; [lia|]. now destruct (stowed s). }
  destruct e as [cnt cm|id k| |nx pt bahn|z|z]; cbn [step ev_ok] in *.
  - exfalso. apply Hne.
    pose proof (cmd_step_p c (axs st) (nid st) cnt cm) as Hp'.
    destruct (cmd_step c (axs st) (nid st) cnt cm) as [s' [m|]]; exact Hp'.
  - rewrite tick_movers_spec in Hne.
    destruct (find_mover id (movers st)) as [[i cnt kd tgt rate|i cnt rate fin]|] eqn:Ef.
    + pose proof (find_mover_in _ _ _ Ef) as [Hin Hid].
      pose proof (move_tick_p c (axs st) cnt kd tgt rate (disp rate k)) as Hp'.
      destruct (move_tick c (axs st) cnt kd tgt rate (disp rate k)) as [s' ended].
      cbn [fst axs] in *. rewrite Hp' in Hne.
      destruct (opt_is (cur (axs st)) cnt); cbn [andb] in Hne; [|congruence].
      destruct (moving (axs st)) eqn:Em; [|congruence].
      destruct (Hmov _ Em). repeat split; auto. eauto 8.
    + pose proof (find_mover_in _ _ _ Ef) as [Hin Hid]. rewrite Forall_forall in Hm.
      pose proof (Hm _ Hin) as Hrate. cbn in Hrate.
      pose proof (track_tick_spec c (axs st) cnt rate fin k Hc Hvm Hr Hok Hrate) as (_ & H2 & _).
      destruct (track_tick c (axs st) cnt rate fin k) as [s' [[cnt' fin']|]]; cbn [fst axs] in *;
        destruct (Hmov _ (H2 Hne)); repeat split; eauto 8.
    + cbn in Hne. congruence.
  - exfalso. apply Hne. apply update_status_frame.
  - cbn in Hne. congruence.
  - exfalso. apply Hne. cbn. now destruct (_ && _).
  - exfalso. apply Hne. cbn. now destruct (_ && _).
Qed.

(* C15 (c): per iteration the position moves by at most the rounded displacement of the axis'
   maximum rate; for a positioning thread (preset, relative preset, slew, drive to stow) by at
   most that of the commanded rate; displacement <= |rate| * dt + 1/2 microdegree. *)
Theorem rate_axis_max st id k : reach c p0 st -> 0 <= k ->
  Z.abs (p (axs (step c st (ETick id k))) - p (axs st)) <= disp (vmax c) k.
Proof.
  intros Hreach Hk. pose proof (reach_good c p0 st Hwf Hp0 Hreach) as [Hr Hv Hm Hi Hn].
  pose proof Hwf as (Hc & Hvm & Hst).
  pose proof (disp_nonneg (vmax c) k Hk) as Hd.
  cbn [step]. rewrite tick_movers_spec.
  destruct (find_mover id (movers st)) as [[i cnt kd tgt rate|i cnt rate fin]|] eqn:Ef.
  - pose proof (find_mover_in _ _ _ Ef) as [Hin Hid]. rewrite Forall_forall in Hm.
    pose proof (Hm _ Hin) as [Htgt Hrate]. cbn in Htgt, Hrate.
    pose proof (move_tick_p c (axs st) cnt kd tgt rate (disp rate k)) as Hp'.
    destruct (move_tick c (axs st) cnt kd tgt rate (disp rate k)) as [s' ended].
    cbn [fst axs] in *. rewrite Hp'.
    pose proof (disp_mono rate (vmax c) k Hk ltac:(lia)).
    pose proof (disp_nonneg rate k Hk).
    destruct (_ && _); [|lia].
    pose proof (calc_range c (p (axs st)) tgt (disp rate k) Hc).
    pose proof (calc_bound c (p (axs st)) tgt (disp rate k) ltac:(lia) Hr).
    rewrite clampS_id; lia.
  - pose proof (find_mover_in _ _ _ Ef) as [Hin Hid]. rewrite Forall_forall in Hm.
    pose proof (Hm _ Hin) as Hrate. cbn in Hrate.
    pose proof (track_tick_spec c (axs st) cnt rate fin k Hc Hvm Hr Hk Hrate) as (_ & _ & H3 & _).
    destruct (track_tick c (axs st) cnt rate fin k) as [s' [[cnt' fin']|]]; exact H3.
  - cbn [axs]. lia.
Qed.

Theorem rate_commanded st id cnt kd tgt rate k : reach c p0 st -> 0 <= k ->
  In (MMove id cnt kd tgt rate) (movers st) ->
  Z.abs (p (axs (step c st (ETick id k))) - p (axs st)) <= disp rate k.
Proof.
  intros Hreach Hk Hin. pose proof (reach_good c p0 st Hwf Hp0 Hreach) as [Hr Hv Hm Hi Hn].
  pose proof Hwf as (Hc & Hvm & Hst).
  rewrite (step_tick_move c st id cnt kd tgt rate k Hn Hin). cbn [axs].
  rewrite move_tick_p. pose proof (disp_nonneg rate k Hk).
  destruct (_ && _); [|lia].
  pose proof (calc_range c (p (axs st)) tgt (disp rate k) Hc).
  pose proof (calc_bound c (p (axs st)) tgt (disp rate k) ltac:(lia) Hr).
  rewrite clampS_id; lia.
Qed.

(* while positioning on the first point of a track (ptState 2) the commanded rate of the
   program_track command that started the thread applies *)
Theorem rate_track_positioning st id cnt rate fin k : reach c p0 st -> 0 <= k ->
  In (MTrack id cnt rate fin) (movers st) -> ptst (axs st) = 2 ->
  Z.abs (p (axs (step c st (ETick id k))) - p (axs st)) <= disp rate k.
Proof.
  intros Hreach Hk Hin Hpt. pose proof (reach_good c p0 st Hwf Hp0 Hreach) as [Hr Hv Hm Hi Hn].
  pose proof Hwf as (Hc & Hvm & Hst).
  destruct (step_tick_track c st id cnt rate fin k Hn Hin) as [-> _].
  rewrite Forall_forall in Hm. pose proof (Hm _ Hin) as Hrate. cbn in Hrate.
  apply (track_tick_spec c (axs st) cnt rate fin k Hc Hvm Hr Hk Hrate). exact Hpt.
Qed.

(* C15 (d): a positioning thread never overshoots or backs off; while it is the current command
   and the axis is active and unstowed the remaining distance shrinks by exactly the displacement,
   down to 0 *)
Theorem no_overshoot st id cnt kd tgt rate k : reach c p0 st -> 0 <= k ->
  In (MMove id cnt kd tgt rate) (movers st) ->
  Z.abs (tgt - p (axs (step c st (ETick id k)))) <= Z.abs (tgt - p (axs st)).
Proof.
  intros Hreach Hk Hin. pose proof (reach_good c p0 st Hwf Hp0 Hreach) as [Hr Hv Hm Hi Hn].
  pose proof Hwf as (Hc & Hvm & Hst).
  rewrite (step_tick_move c st id cnt kd tgt rate k Hn Hin). cbn [axs].
  rewrite move_tick_p. pose proof (disp_nonneg rate k Hk).
  destruct (_ && _); [|lia].
  pose proof (calc_range c (p (axs st)) tgt (disp rate k) Hc).
  pose proof (calc_no_overshoot c (p (axs st)) tgt (disp rate k) ltac:(lia) Hr).
  rewrite clampS_id; lia.
Qed.

Definition current (st : sys) (cnt : Z) : Prop :=
  cur (axs st) = Some cnt /\ ast (axs st) = 3 /\ stowed (axs st) = false.

Lemma current_flags st cnt : current st cnt ->
  opt_is (cur (axs st)) cnt = true /\ moving (axs st) = true.
Proof.
  intros (H1 & H2 & H3). unfold opt_is, moving. rewrite H1, H2, H3, Z.eqb_refl. split; reflexivity.
Qed.

Theorem progress st id cnt kd tgt rate k : reach c p0 st -> 0 <= k ->
  In (MMove id cnt kd tgt rate) (movers st) -> current st cnt ->
  Z.abs (tgt - p (axs (step c st (ETick id k)))) = Z.max 0 (Z.abs (tgt - p (axs st)) - disp rate k).
Proof.
  intros Hreach Hk Hin Hcur. pose proof (reach_good c p0 st Hwf Hp0 Hreach) as [Hr Hv Hm Hi Hn].
  pose proof Hwf as (Hc & Hvm & Hst). destruct (current_flags _ _ Hcur) as [H1 H2].
  rewrite Forall_forall in Hm. pose proof (Hm _ Hin) as [Htgt Hrate]. cbn in Htgt.
  rewrite (step_tick_move c st id cnt kd tgt rate k Hn Hin). cbn [axs].
  rewrite move_tick_p, H1, H2. cbn [andb]. pose proof (disp_nonneg rate k Hk).
  pose proof (calc_range c (p (axs st)) tgt (disp rate k) Hc).
  pose proof (calc_toward c (p (axs st)) tgt (disp rate k) ltac:(lia) Hr Htgt) as [Ht _].
  rewrite clampS_id; lia.
Qed.

(* C15 (e): exact arrival.  When the displacement of this iteration covers the remaining
   distance, the position is exactly the target, the velocity is 0, the executed-command fields
   name this command with answer 1 (executed), and the thread has left the ledger *)
Theorem arrival_exact st id cnt kd tgt rate k : reach c p0 st -> 0 <= k ->
  In (MMove id cnt kd tgt rate) (movers st) -> current st cnt ->
  Z.abs (tgt - p (axs st)) <= disp rate k ->
  let st' := step c st (ETick id k) in
  p (axs st') = tgt /\ v (axs st') = 0 /\
  ecnt (axs st') = cnt /\ ecmd (axs st') = kind_code kd /\ eans (axs st') = 1 /\
  (kd = KStow -> stowed (axs st') = true) /\
  ~ In id (map mover_id (movers st')).
Proof.
  intros Hreach Hk Hin Hcur Hdist. pose proof (reach_good c p0 st Hwf Hp0 Hreach) as [Hr Hv Hm Hi Hn].
  pose proof Hwf as (Hc & Hvm & Hst). destruct (current_flags _ _ Hcur) as [H1 H2].
  rewrite Forall_forall in Hm. pose proof (Hm _ Hin) as [Htgt Hrate]. cbn in Htgt.
  cbn zeta. rewrite (step_tick_move c st id cnt kd tgt rate k Hn Hin). cbn [axs movers].
  pose proof (move_tick_arrives c (axs st) cnt kd tgt rate (disp rate k) Hc Hr Htgt
                (disp_nonneg rate k Hk) H1 H2 Hdist) as (A1 & A2 & A3 & A4 & A5 & A6 & A7).
  rewrite A1. repeat split; try assumption. apply (remove_mover_ids id _ Hn).
Qed.

(* the same over a run of iterations of that thread: as soon as the displacements add up to the
   distance the target has been reached exactly and the command is reported executed *)
Fixpoint ticks (id : Z) (ks : list Z) : list event :=
  match ks with [] => [] | k :: r => ETick id k :: ticks id r end.
Definition zsum_disp (rate : Z) (ks : list Z) : Z := fold_right (fun k a => disp rate k + a) 0 ks.

Theorem arrival_eventually ks : forall st id cnt kd tgt rate, reach c p0 st ->
  Forall (fun k => 0 <= k) ks ->
  In (MMove id cnt kd tgt rate) (movers st) -> current st cnt ->
  Z.abs (tgt - p (axs st)) <= zsum_disp rate ks -> ks <> [] ->
  let st' := run c st (ticks id ks) in
  p (axs st') = tgt /\ v (axs st') = 0 /\
  ecnt (axs st') = cnt /\ ecmd (axs st') = kind_code kd /\ eans (axs st') = 1 /\
  ~ In id (map mover_id (movers st')).
Proof.
  induction ks as [|k ks IH]; intros st id cnt kd tgt rate Hreach Hks Hin Hcur Hsum Hne; [congruence|].
  inversion Hks as [|? ? Hk Hks']; subst. cbn [zsum_disp fold_right] in Hsum. fold (zsum_disp rate ks) in Hsum.
  cbn [ticks run fold_left]. fold (run c (step c st (ETick id k)) (ticks id ks)).
  pose proof (reach_good c p0 st Hwf Hp0 Hreach) as [Hr Hv Hm Hi Hn].
  pose proof Hwf as (Hc & Hvm & Hst). destruct (current_flags _ _ Hcur) as [H1 H2].
  pose proof Hm as Hm0. rewrite Forall_forall in Hm. pose proof (Hm _ Hin) as [Htgt Hrate]. cbn in Htgt.
  assert (Hreach' : reach c p0 (step c st (ETick id k))) by (apply reach_step; [assumption|exact Hk]).
  destruct (Z_le_gt_dec (Z.abs (tgt - p (axs st))) (disp rate k)) as [Hle|Hgt].
  - (* arrives in this iteration; later iterations find no such thread and change nothing *)
    pose proof (arrival_exact st id cnt kd tgt rate k Hreach Hk Hin Hcur Hle) as A. cbn zeta in A.
    set (st1 := step c st (ETick id k)) in *.
    assert (Hidle : forall ks' s1, ~ In id (map mover_id (movers s1)) -> run c s1 (ticks id ks') = s1).
    { induction ks' as [|k' ks' IH']; intros s1 Hnot; [reflexivity|].
      cbn [ticks run fold_left]. fold (run c (step c s1 (ETick id k')) (ticks id ks')).
      assert (Hs : step c s1 (ETick id k') = s1).
      { cbn [step]. rewrite tick_movers_spec.
        destruct (find_mover id (movers s1)) eqn:Ef.
        - apply find_mover_in in Ef as [Hin' Hid']. exfalso. apply Hnot. rewrite <- Hid'. now apply in_map.
        - destruct s1; reflexivity. }
      rewrite Hs. now apply IH'. }
    destruct A as (A1 & A2 & A3 & A4 & A5 & _ & A7). rewrite (Hidle ks st1 A7). repeat split; assumption.
  - (* still on the way: same thread, same command, axis still active *)
    pose proof (step_tick_move c st id cnt kd tgt rate k Hn Hin) as Hstep.
    pose proof (move_tick_continues c (axs st) cnt kd tgt rate (disp rate k) Hc Hr Htgt
                  (disp_nonneg rate k Hk) H1 H2 ltac:(lia)) as (B1 & B2 & B3 & B4 & B5 & B6).
    rewrite B1 in Hstep.
    apply (IH (step c st (ETick id k)) id cnt kd tgt rate Hreach' Hks').
    + rewrite Hstep. exact Hin.
    + rewrite Hstep. cbn [axs]. destruct Hcur as (C1 & C2 & C3). unfold current. cbn [axs].
      rewrite B4, B5, B6. tauto.
    + rewrite Hstep. cbn [axs]. lia.
    + destruct ks; [|discriminate]. cbn [zsum_disp fold_right] in Hsum. lia.
Qed.
End Theorems.

(* ---- supersession ---- *)
Lemma step_keeps_mover c st e m : In m (movers st) ->
  (forall k, e <> ETick (mover_id m) k) -> In m (movers (step c st e)).
Proof.
  intros Hin Hne. destruct e as [cnt cm|id k| |nx pt bahn|z|z]; cbn [step]; try assumption.
  - destruct (cmd_step c (axs st) (nid st) cnt cm) as [s' [m'|]]; cbn; [|assumption].
    apply in_app_iff. now left.
  - assert (Hid : mover_id m <> id) by (intros E; apply (Hne k); now rewrite E).
    rewrite tick_movers_spec.
    destruct (find_mover id (movers st)) as [[i cnt kd tgt rate|i cnt rate fin]|].
    + destruct (move_tick c (axs st) cnt kd tgt rate (disp rate k)) as [s' [|]]; cbn [movers].
      * now apply remove_mover_keeps.
      * assumption.
    + destruct (track_tick c (axs st) cnt rate fin k) as [s' [[cnt' fin']|]]; cbn [movers].
      * now apply replace_mover_keeps.
      * now apply remove_mover_keeps.
    + cbn [movers]. assumption.
Qed.

Lemma step_cur c st e :
  cur (axs (step c st e)) = cur (axs st) \/
  exists cnt cm, e = ECmd cnt cm /\ cur (axs (step c st e)) = Some cnt.
Proof.
  destruct e as [cnt cm|id k| |nx pt bahn|z|z]; cbn [step].
  - pose proof (cmd_step_cur c (axs st) (nid st) cnt cm) as H.
    destruct (cmd_step c (axs st) (nid st) cnt cm) as [s' [m'|]]; cbn [fst axs] in *;
      (destruct (supersedes c cm); [right; eauto|left; assumption]).
  - left. rewrite tick_movers_spec.
    destruct (find_mover id (movers st)) as [[i cnt kd tgt rate|i cnt rate fin]|]; [| |reflexivity].
    + pose proof (move_tick_cur c (axs st) cnt kd tgt rate (disp rate k)) as H.
      destruct (move_tick c (axs st) cnt kd tgt rate (disp rate k)) as [s' e']. exact H.
    + pose proof (track_tick_cur c (axs st) cnt rate fin k) as H.
      destruct (track_tick c (axs st) cnt rate fin k) as [s' [[cnt' fin']|]]; exact H.
  - left. apply update_status_frame.
  - left. reflexivity.
  - left. cbn. now destruct (_ && _).
  - left. cbn. now destruct (_ && _).
Qed.

(* events that neither run the thread [id] nor carry the command counter [cnt] *)
Definition quiet (id cnt : Z) (e : event) : Prop :=
  match e with
  | ETick i _ => i <> id
  | ECmd n _ => n <> cnt
  | _ => True
  end.

Fixpoint all_ok (c : cfg) (st : sys) (es : list event) : Prop :=
  match es with
  | [] => True
  | e :: r => ev_ok c st e /\ all_ok c (step c st e) r
  end.

Lemma reach_run c p0 st es : reach c p0 st -> all_ok c st es -> reach c p0 (run c st es).
Proof.
  revert st. induction es as [|e r IH]; intros st Hr Hok; [assumption|].
  destruct Hok as [H1 H2]. cbn [run fold_left]. apply IH; [now apply reach_step|assumption].
Qed.

Section Supersession.
Variable c : cfg.
Variable p0 : Z.
Hypothesis Hwf : wf_cfg c.
Hypothesis Hp0 : in_range c p0.

(* a positioning thread whose counter is not the current one ends in its next iteration:
   position untouched, velocity 0, thread gone *)
Theorem superseded_move_one_tick st id cnt kd tgt rate k : reach c p0 st ->
  In (MMove id cnt kd tgt rate) (movers st) -> cur (axs st) <> Some cnt ->
  let st' := step c st (ETick id k) in
  p (axs st') = p (axs st) /\ v (axs st') = 0 /\ ~ In id (map mover_id (movers st')).
Proof.
  intros Hreach Hin Hcur. pose proof (reach_good c p0 st Hwf Hp0 Hreach) as [Hr Hv Hm Hi Hn].
  cbn zeta. rewrite (step_tick_move c st id cnt kd tgt rate k Hn Hin).
  assert (Hs : opt_is (cur (axs st)) cnt = false).
  { unfold opt_is. destruct (cur (axs st)) as [y|]; [|reflexivity].
    destruct (y =? cnt) eqn:E; [|reflexivity]. exfalso. apply Hcur. f_equal. lia. }
  rewrite (move_tick_stale c (axs st) cnt kd tgt rate (disp rate k) Hs). cbn.
  repeat split. apply (remove_mover_ids id _ Hn).
Qed.

(* the tracking thread likewise, once the trajectory state is no longer "tracking" *)
Theorem superseded_track_one_tick st id cnt rate fin k : reach c p0 st ->
  In (MTrack id cnt rate fin) (movers st) -> cnt <> cur (axs st) -> traj (axs st) <> 7 ->
  let st' := step c st (ETick id k) in
  p (axs st') = p (axs st) /\ v (axs st') = 0 /\ pta (axs st') = false /\
  ~ In id (map mover_id (movers st')).
Proof.
  intros Hreach Hin Hcur Htr. pose proof (reach_good c p0 st Hwf Hp0 Hreach) as [Hr Hv Hm Hi Hn].
  destruct (step_tick_track c st id cnt rate fin k Hn Hin) as [Ha Hmv]. cbn zeta.
  assert (Hs : stale_track (axs st) cnt = true).
  { unfold stale_track. apply andb_true_iff. split.
    - unfold oeqb, option_eqb. destruct cnt as [x|]; destruct (cur (axs st)) as [y|]; try reflexivity.
      + destruct (x =? y) eqn:E; [|reflexivity]. exfalso. apply Hcur. f_equal. lia.
      + congruence.
    - destruct (traj (axs st) =? 7) eqn:E; [lia|reflexivity]. }
  rewrite (track_tick_stale c (axs st) cnt rate fin k Hs) in *. cbn [fst snd] in *.
  rewrite Ha, (Hmv eq_refl). cbn. repeat split. apply (remove_mover_ids id _ Hn).
Qed.

(* an accepted stop / preset / relative preset / slew / program track (and, on an axis with stow
   positions, stow / unstow / drive to stow) makes its own counter the current one, and the
   first four leave the trajectory state different from "tracking" *)
Theorem command_supersedes st cnt cm : supersedes c cm = true ->
  cur (axs (step c st (ECmd cnt cm))) = Some cnt /\
  (ends_tracking c cm = true -> traj (axs (step c st (ECmd cnt cm))) <> 7).
Proof.
  intros Hs. cbn [step].
  pose proof (cmd_step_cur c (axs st) (nid st) cnt cm) as H.
  pose proof (cmd_step_traj c (axs st) (nid st) cnt cm) as H'.
  rewrite Hs in H.
  destruct (cmd_step c (axs st) (nid st) cnt cm) as [s' [m'|]]; cbn [fst axs] in *; split; assumption.
Qed.

(* C15 (f): a stop or newer motion command whose counter differs from that of a running
   positioning thread ends that motion within one iteration of the thread, whatever happens in
   between (other threads' iterations, updates, feeds, further commands with other counters):
   that iteration leaves the position untouched, sets the velocity to 0 and ends the thread *)
Theorem stop_or_newer_command_ends_motion es : forall st id cnt kd tgt rate cnt' cm k,
  reach c p0 st -> In (MMove id cnt kd tgt rate) (movers st) ->
  supersedes c cm = true -> cnt' <> cnt -> accepted c (axs st) cm ->
  let st1 := step c st (ECmd cnt' cm) in
  all_ok c st1 es -> Forall (quiet id cnt) es ->
  let st2 := run c st1 es in
  let st3 := step c st2 (ETick id k) in
  p (axs st3) = p (axs st2) /\ v (axs st3) = 0 /\ ~ In id (map mover_id (movers st3)).
Proof.
  intros st id cnt kd tgt rate cnt' cm k Hreach Hin Hs Hne Hacc st1 Hok Hq st2 st3.
  assert (Hreach1 : reach c p0 st1) by (apply reach_step; assumption).
  assert (Hin1 : In (MMove id cnt kd tgt rate) (movers st1)).
  { apply step_keeps_mover; [assumption|discriminate]. }
  assert (Hcur1 : cur (axs st1) <> Some cnt).
  { destruct (command_supersedes st cnt' cm Hs) as [E _]. unfold st1. rewrite E. congruence. }
  assert (Hgen : forall es st1, reach c p0 st1 -> In (MMove id cnt kd tgt rate) (movers st1) ->
            cur (axs st1) <> Some cnt -> all_ok c st1 es -> Forall (quiet id cnt) es ->
            reach c p0 (run c st1 es) /\ In (MMove id cnt kd tgt rate) (movers (run c st1 es)) /\
            cur (axs (run c st1 es)) <> Some cnt).
  { clear. induction es as [|e r IH]; intros s1 Hr Hi Hc Hok Hq; [cbn; tauto|].
    destruct Hok as [Hok1 Hok2]. inversion Hq as [|? ? Hq1 Hq2]; subst.
    cbn [run fold_left]. apply IH; try assumption.
    - now apply reach_step.
    - apply step_keeps_mover; [assumption|]. cbn [mover_id]. intros k' ->. now apply Hq1.
    - destruct (step_cur c s1 e) as [->|(n & cm' & -> & ->)]; [assumption|].
      cbn in Hq1. congruence. }
  destruct (Hgen es st1 Hreach1 Hin1 Hcur1 Hok Hq) as (Hr2 & Hi2 & Hc2).
  exact (superseded_move_one_tick st2 id cnt kd tgt rate k Hr2 Hi2 Hc2).
Qed.

(* C15 (g): limit and rate warning bits after update_status agree with position and velocity *)
Theorem limit_bits_agree st : reach c p0 st ->
  let s' := axs (step c st EUpdate) in
  pre_dn s' = (p (axs st) =? lo c) /\ fin_dn s' = false /\
  pre_up s' = (p (axs st) =? hi c) /\ fin_up s' = false /\ rate_lim s' = false /\
  p s' = p (axs st) /\ v s' = v (axs st).
Proof.
  intros Hreach. pose proof (reach_good c p0 st Hwf Hp0 Hreach) as [Hr Hv Hm Hi Hn].
  cbn [step axs].
  pose proof (update_status_bits c (axs st) Hr Hv) as (H1 & H2 & H3 & H4 & H5 & _).
  pose proof (update_status_frame c (axs st)) as (H6 & H7 & _).
  cbn zeta in *. tauto.
Qed.

(* the reported velocity never exceeds the axis maximum; every positioning target lies in the
   operating range (in particular that of a relative preset, computed from p_Ist like its
   validation: fixes/15a) *)
Theorem velocity_bounded st : reach c p0 st -> Z.abs (v (axs st)) <= vmax c.
Proof. intros H. apply (reach_good c p0 st Hwf Hp0 H). Qed.

Theorem targets_in_range st id cnt kd tgt rate : reach c p0 st ->
  In (MMove id cnt kd tgt rate) (movers st) -> lo c <= tgt <= hi c /\ Z.abs rate <= vmax c.
Proof.
  intros H Hin. pose proof (reach_good c p0 st Hwf Hp0 H) as [_ _ Hm _ _].
  rewrite Forall_forall in Hm. exact (Hm _ Hin).
Qed.
End Supersession.

(* ---- non-vacuity and witnesses (concrete histories on the shipped azimuth / elevation axes) ---- *)
Definition az_cfg : cfg := mkCfg (-90000000) 450000000 850000 [].
Definition el_cfg : cfg := mkCfg 5000000 90000000 500000 [90000000].

Lemma az_wf : wf_cfg az_cfg /\ in_range az_cfg 180000000.
Proof. unfold wf_cfg, in_range; cbn. repeat split; try lia. constructor. Qed.
Lemma el_wf : wf_cfg el_cfg /\ in_range el_cfg 90000000.
Proof. unfold wf_cfg, in_range; cbn. repeat split; try lia. repeat constructor; lia. Qed.

Fixpoint all_okb (c : cfg) (st : sys) (es : list event) : bool :=
  match es with
  | [] => true
  | e :: r =>
      (match e with
       | ECmd _ (CAbs t r') => (lo c <=? t) && (t <=? hi c) && (Z.abs r' <=? vmax c)
       | ECmd _ (CRel d r') => (lo c <=? p (axs st) + d) && (p (axs st) + d <=? hi c) && (Z.abs r' <=? vmax c)
       | ECmd _ (CSlew r') | ECmd _ (CTrack r') | ECmd _ (CDriveStow _ r') => Z.abs r' <=? vmax c
       | ETick _ k => 0 <=? k
       | _ => true
       end) && all_okb c (step c st e) r
  end.

Lemma all_okb_ok c es : forall st, all_okb c st es = true -> all_ok c st es.
Proof.
  induction es as [|e r IH]; intros st H; [exact I|].
  cbn [all_okb] in H. apply andb_true_iff in H as [H1 H2]. split; [|now apply IH].
  destruct e as [cnt cm|id k| |nx pt bahn|z|z]; cbn [ev_ok]; try exact I; [|lia].
  destruct cm; cbn [accepted]; unfold in_range; try exact I; lia.
Qed.

(* preset 180 -> 181 deg at 0.5 deg/s in steps of 0.25 s: the hypotheses of arrival_exact hold
   in the state before the 8th step *)
Definition ex_hist : list event :=
  [ECmd 1 CActive; ETick 0 0; ECmd 2 (CAbs 181000000 500000); ETick 1 0;
   ETick 1 256; ETick 1 256; ETick 1 256; ETick 1 256; ETick 1 256; ETick 1 256; ETick 1 256].

Example ex_arrival_hyps :
  let st := run az_cfg (init az_cfg 180000000) ex_hist in
  reach az_cfg 180000000 st /\ In (MMove 1 2 KAbs 181000000 500000) (movers st) /\
  current st 2 /\ Z.abs (181000000 - p (axs st)) <= disp 500000 256 /\ p (axs st) = 180875000.
Proof.
  cbn zeta. split.
  - apply reach_run; [constructor|]. apply all_okb_ok. vm_compute. reflexivity.
  - vm_compute. repeat split; try (now left); discriminate.
Qed.

(* KNOWN FINDING same_counter: supersession compares command counters for equality; a stop that
   carries the same counter as the running preset does not stop it *)
Example same_counter_stop_refuted :
  let st1 := run az_cfg (init az_cfg 180000000)
                 [ECmd 1 CActive; ETick 0 0; ECmd 5 (CAbs 181000000 500000); ETick 1 0; ETick 1 256] in
  let st2 := run az_cfg st1 [ECmd 5 CStop; ETick 2 0; ETick 1 256] in
  all_ok az_cfg (init az_cfg 180000000)
         [ECmd 1 CActive; ETick 0 0; ECmd 5 (CAbs 181000000 500000); ETick 1 0; ETick 1 256;
          ECmd 5 CStop; ETick 2 0; ETick 1 256] /\
  ecmd (axs st2) = 7 /\ eans (axs st2) = 1 /\
  p (axs st2) = p (axs st1) + 125000 /\ v (axs st2) = 500000 /\ In 1 (map mover_id (movers st2)).
Proof.
  cbn zeta. split; [apply all_okb_ok; vm_compute; reflexivity|].
  vm_compute. repeat split. now left.
Qed.

(* KNOWN FINDING track_rate_stale: a second program_track command while the first one's thread is
   alive is reported executed, but the thread keeps the first command's rate: the axis then moves
   faster than the newest commanded rate (0.5 deg/s instead of 0.1 deg/s) *)
Example track_rate_stale_refuted :
  let es := [ECmd 1 CActive; ETick 0 0; ECmd 2 (CTrack 500000); ETick 1 0;
             EFeed (Some 185000000) 2 185000000; ECmd 3 (CTrack 100000); ETick 2 0] in
  let st1 := run az_cfg (init az_cfg 180000000) es in
  let st2 := step az_cfg st1 (ETick 1 1024) in
  all_ok az_cfg (init az_cfg 180000000) (es ++ [ETick 1 1024]) /\
  ecnt (axs st1) = 3 /\ ecmd (axs st1) = 8 /\ eans (axs st1) = 1 /\
  p (axs st2) - p (axs st1) = 500000 /\ disp 100000 1024 = 100000.
Proof.
  cbn zeta. split; [apply all_okb_ok; vm_compute; reflexivity|].
  vm_compute. repeat split.
Qed.
