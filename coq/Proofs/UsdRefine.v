(* C13 — the code-faithful model of the USD (Model/UsdModel.v: string slicing, bin/zfill/int(.,2),
   utils codecs) refines the arithmetic protocol specification (Spec/UsdSpec.v): same reply and
   same complete state for every command, every parameter byte string, every time step, in every
   state satisfying the invariant; lifted to all histories in Proofs/UsdHistory.v. *)
From DS Require Import Base.Prelude Base.Bits Model.Utils Model.UsdModel Spec.UsdSpec.
From DS Require Import Proofs.UtilsProofs Proofs.UsdMotion Proofs.UsdInv.

(* ---------- finite sweeps ---------- *)
Lemma byte_all (P : Z -> Prop) : Forall P all_bytes -> forall b, byte b -> P b.
Proof. intros H b Hb. rewrite Forall_forall in H. apply H, all_bytes_in, Hb. Qed.

Ltac sweep_list :=
  repeat (apply Forall_cons; [vm_compute; repeat split; reflexivity|]); apply Forall_nil.

(* what the string manipulations of the setters compute, for each of the 256 parameter bytes *)
Definition byte_facts (p : Z) : Prop :=
  digit (bstr p) 0 = Some (bitz p 7) /\ digit (bstr p) 1 = Some (bitz p 6) /\
  digit (bstr p) 2 = Some (bitz p 5) /\ digit (bstr p) 3 = Some (bitz p 4) /\
  digit (bstr p) 4 = Some (bitz p 3) /\ digit (bstr p) 5 = Some (bitz p 2) /\
  digit (bstr p) 6 = Some (bitz p 1) /\ digit (bstr p) 7 = Some (bitz p 0) /\
  nth_error (bstr p) 0 = Some (bitb p 7) /\
  level_enable (bstr p) = Some (io_levels p, io_enables p) /\
  nth_error (zfill 4 (bin p)) 0 = Some (8 <=? p) /\
  ((8 <=? p) || (int2 (lastn 3 (zfill 4 (bin p))) =? p)) = true /\
  int2 (firstn 2 (bstr p)) = p / 64 /\ int2 (skipn 2 (bstr p)) = p mod 64 /\
  option_map sign (twos_to_int (bstr p))
  = Some (if p =? 0 then 0 else if p <? 128 then 1 else -1).

Lemma byte_facts_all : Forall byte_facts all_bytes.
Proof.
  let l := eval vm_compute in all_bytes in change all_bytes with l.
  unfold byte_facts. sweep_list.
Qed.

Lemma byte_facts_ok p : byte p -> byte_facts p.
Proof. apply byte_all, byte_facts_all. Qed.

(* address field of the answers: [payload length : 3 | index : 5] *)
Definition idx_facts (i : Z) : Prop :=
  address_field 1 i = [1 * 32 + i] /\ address_field 3 i = [3 * 32 + i] /\
  address_field 4 i = [4 * 32 + i].

Lemma idx_facts_all : Forall idx_facts (map Z.of_nat (seq 0 32)).
Proof.
  let l := eval vm_compute in (map Z.of_nat (seq 0 32)) in change (map Z.of_nat (seq 0 32)) with l.
  unfold idx_facts. sweep_list.
Qed.

Lemma idx_facts_ok i : 0 <= i < 32 -> idx_facts i.
Proof.
  intros Hi. pose proof idx_facts_all as H. rewrite Forall_forall in H. apply H.
  apply in_map_iff. exists (Z.to_nat i). split; [lia|]. apply in_seq. lia.
Qed.

(* ---------- big-endian two's complement parameters ---------- *)
Lemma bti2 a b : byte a -> byte b -> bytes_to_int [a; b] false = s16 a b.
Proof.
  unfold byte. intros Ha Hb. unfold bytes_to_int, be_dec, to_signed, s16, signed.
  cbn [length rev app le_dec]. change (8 * Z.of_nat 2) with 16.
  replace (b + 256 * (a + 256 * 0)) with (a * 256 + b) by ring. reflexivity.
Qed.

Lemma bti3 a b c : byte a -> byte b -> byte c -> bytes_to_int [a; b; c] false = s24 a b c.
Proof.
  unfold byte. intros Ha Hb Hc. unfold bytes_to_int, be_dec, to_signed, s24, signed.
  cbn [length rev app le_dec]. change (8 * Z.of_nat 3) with 24.
  replace (c + 256 * (b + 256 * (a + 256 * 0))) with ((a * 256 + b) * 256 + c) by ring. reflexivity.
Qed.

Lemma bti4 a b c d : byte a -> byte b -> byte c -> byte d ->
  bytes_to_int [a; b; c; d] false = s32 a b c d.
Proof.
  unfold byte. intros Ha Hb Hc Hd. unfold bytes_to_int, be_dec, to_signed, s32, signed.
  cbn [length rev app le_dec]. change (8 * Z.of_nat 4) with 32.
  replace (d + 256 * (c + 256 * (b + 256 * (a + 256 * 0))))
    with (((a * 256 + b) * 256 + c) * 256 + d) by ring. reflexivity.
Qed.

(* ---------- answer frames ---------- *)
Lemma frame_refines b idx payload : 0 <= b -> 0 <= idx < 32 -> Forall (fun x => 0 <= x) payload ->
  In (length payload) [1; 3; 4]%nat ->
  data_frame b (Z.of_nat (length payload)) idx payload = spec_frame b idx payload.
Proof.
  intros Hb Hi Hp Hl. unfold data_frame, spec_frame.
  destruct (idx_facts_ok idx Hi) as (A1 & A3 & A4).
  assert (Ha : address_field (Z.of_nat (length payload)) idx = [Z.of_nat (length payload) * 32 + idx]).
  { destruct Hl as [<-|[<-|[<-|[]]]]; assumption. }
  rewrite Ha. f_equal. f_equal. unfold spec_checksum. fold (zsum ([6; b] ++ (if b =? 252 then [Z.of_nat (length payload) * 32 + idx] else []) ++ payload)).
  apply checksum_spec.
  repeat (apply Forall_cons; [lia|]). cbn [app]. destruct (b =? 252); cbn [app]; [apply Forall_cons; [lia|]|]; exact Hp.
Qed.

(* ---------- status bytes ---------- *)
Lemma zbit_b2z z : bit01 z -> exists b, zbit z = Some b /\ z = b2z b.
Proof. intros [-> | ->]; [exists false|exists true]; split; reflexivity. Qed.

Lemma par1_val a b c d e f :
  int2 [false; a; b; c; false; d; e; f]
  = b2z a * 64 + b2z b * 32 + b2z c * 16 + b2z d * 4 + b2z e * 2 + b2z f.
Proof. destruct a, b, c, d, e, f; reflexivity. Qed.

Lemma small_cases k : 0 <= k <= 7 ->
  k = 0 \/ k = 1 \/ k = 2 \/ k = 3 \/ k = 4 \/ k = 5 \/ k = 6 \/ k = 7.
Proof. lia. Qed.

Lemma par2_val r de rd fc ar k : 0 <= k <= 7 ->
  int2 ([r; de; rd; fc; ar] ++ zfill 3 (bin k))
  = flag r * 128 + flag de * 64 + flag rd * 32 + flag fc * 16 + flag ar * 8 + k.
Proof.
  intros Hk. destruct (small_cases k Hk) as [->|[->|[->|[->|[->|[->|[->| ->]]]]]]];
    destruct r, de, rd, fc, ar; reflexivity.
Qed.

Lemma res_key_pow k : 0 <= k <= 7 -> res_key (2 ^ k) = Some k.
Proof.
  intros Hk. destruct (small_cases k Hk) as [->|[->|[->|[->|[->|[->|[->| ->]]]]]]]; reflexivity.
Qed.

Lemma status_refines u : Inv u -> get_status u = Some (status_bytes u).
Proof.
  intros H. inv_fields H. unfold get_status, status_bytes.
  destruct (io_dir u) as [[d0 d1] d2]. destruct (io_val u) as [[v0 v1] v2].
  destruct Hiodir as (D0 & D1 & D2). destruct Hioval as (V0 & V1 & V2).
  destruct (zbit_b2z _ D0) as (bd0 & -> & ->). destruct (zbit_b2z _ D1) as (bd1 & -> & ->).
  destruct (zbit_b2z _ D2) as (bd2 & -> & ->). destruct (zbit_b2z _ V0) as (bv0 & -> & ->).
  destruct (zbit_b2z _ V1) as (bv1 & -> & ->). destruct (zbit_b2z _ V2) as (bv2 & -> & ->).
  destruct Hres as (k & Hk & ->). rewrite res_key_pow by exact Hk.
  rewrite par1_val, par2_val by exact Hk. rewrite Z.log2_pow2 by lia. reflexivity.
Qed.

Lemma status_bytes_nonneg u : Inv u -> Forall (fun x => 0 <= x) (status_bytes u).
Proof.
  intros H. inv_fields H. unfold status_bytes.
  destruct (io_dir u) as [[d0 d1] d2]. destruct (io_val u) as [[v0 v1] v2].
  destruct Hiodir as (D0 & D1 & D2). destruct Hioval as (V0 & V1 & V2).
  destruct Hres as (k & Hk & ->). rewrite Z.log2_pow2 by lia. unfold bit01, flag in *.
  repeat (apply Forall_cons); try apply Forall_nil; try lia.
  destruct (running u), (delayed_execution u), (ready u), (full_current u), (auto_resolution u); lia.
Qed.

(* ---------- position / driver type payloads ---------- *)
Lemma position_payload p : min_position <= p <= max_position ->
  int_to_bytes p 4 false = Some (be32 p).
Proof.
  unfold min_position, max_position. intros Hp. unfold int_to_bytes.
  change (8 * Z.of_nat 4) with 32.
  replace ((- 2 ^ (32 - 1) <=? p) && (p <? 2 ^ (32 - 1))) with true by (cbn; lia).
  f_equal. unfold be_enc, of_signed, be32. cbn [le_enc rev app].
  assert (0 <= p mod 2 ^ 32 < 2 ^ 32) by (apply Z.mod_pos_bound; lia).
  set (v := p mod 2 ^ 32) in *. change (2 ^ 32) with 4294967296 in *.
  change (2 ^ 24) with 16777216. change (2 ^ 16) with 65536. change (2 ^ 8) with 256.
  repeat (f_equal; try lia).
Qed.

Lemma be32_nonneg p : Forall (fun x => 0 <= x) (be32 p).
Proof.
  unfold be32. assert (0 <= p mod 2 ^ 32 < 2 ^ 32) by (apply Z.mod_pos_bound; lia).
  set (v := p mod 2 ^ 32) in *. change (2 ^ 32) with 4294967296 in *.
  change (2 ^ 24) with 16777216. change (2 ^ 16) with 65536. change (2 ^ 8) with 256.
  repeat apply Forall_cons; try apply Forall_nil; lia.
Qed.

(* ---------- one lemma per command code ---------- *)
Ltac open_handle := unfold handle, spec_handle; cbn [Z.eqb Pos.eqb decode].

Lemma ite_mul a b : bit01 a -> (if a =? 1 then b else 0) = a * b.
Proof. intros [-> | ->]; cbn; [reflexivity|destruct b; reflexivity]. Qed.

Lemma bytes1 x : bytes [x] -> byte x.
Proof. intros H. inversion H. assumption. Qed.
Lemma bytes2 x y : bytes [x; y] -> byte x /\ byte y.
Proof. intros H. inversion H as [|? ? ? H1]. inversion H1. auto. Qed.
Lemma bytes3 x y z : bytes [x; y; z] -> byte x /\ byte y /\ byte z.
Proof. intros H. inversion H as [|? ? ? H1]. apply bytes2 in H1. tauto. Qed.
Lemma bytes4 x y z w : bytes [x; y; z; w] -> byte x /\ byte y /\ byte z /\ byte w.
Proof. intros H. inversion H as [|? ? ? H1]. apply bytes3 in H1. tauto. Qed.

Section PerCommand.
  Variables (b : Z) (p : list Z) (u : usd).
  Hypothesis Hb : 0 <= b.
  Hypothesis Hp : bytes p.
  Hypothesis H : Inv u.

  Lemma ref_reset : handle 1 b p u = spec_handle 1 b p u.
  Proof. open_handle. destruct p; reflexivity. Qed.

  Lemma ref_trigger : handle 2 b p u = spec_handle 2 b p u.
  Proof.
    open_handle. destruct p; [|reflexivity]. cbn [exec]. unfold soft_trigger.
    pose proof (inv_ready u H) as Hr.
    destruct (position_queue u) as [|[np ab] rest] eqn:Hq.
    - destruct (ready u); [|reflexivity]. exfalso. apply (proj1 Hr); reflexivity.
    - assert (Hrd : ready u = true) by (apply Hr; discriminate). rewrite Hrd.
      unfold moving_by_velocity, acked.
      destruct u; cbn in *. subst.
      destruct velocity as [v|]; cbn; [destruct (v =? 0); cbn|]; destruct ab, rest; reflexivity.
  Qed.

  Lemma ref_get_version : handle 16 b p u = spec_handle 16 b p u.
  Proof.
    open_handle. destruct p; [|reflexivity]. cbn [exec]. rewrite (inv_ver u H). cbn [zsum fold_right].
    f_equal. f_equal. apply (frame_refines b (usd_index u) [19]); auto using (inv_idx u H).
    - repeat constructor; lia.
    - cbn. auto.
  Qed.

  Lemma ref_stop : handle 17 b p u = spec_handle 17 b p u.
  Proof. open_handle. destruct p; reflexivity. Qed.

  Lemma ref_get_position : handle 18 b p u = spec_handle 18 b p u.
  Proof.
    open_handle. destruct p; [|reflexivity]. cbn [exec].
    rewrite position_payload by apply (inv_pos u H). f_equal. f_equal.
    apply (frame_refines b (usd_index u) (be32 (current_position u))); auto using (inv_idx u H).
    - apply be32_nonneg.
    - cbn. auto.
  Qed.

  Lemma ref_get_status : handle 19 b p u = spec_handle 19 b p u.
  Proof.
    open_handle. destruct p; [|reflexivity]. cbn [exec]. rewrite status_refines by exact H.
    f_equal. f_equal.
    assert (Hl : length (status_bytes u) = 3%nat).
    { unfold status_bytes. destruct (io_dir u) as [[? ?] ?], (io_val u) as [[? ?] ?]. reflexivity. }
    change 3 with (Z.of_nat 3). rewrite <- Hl.
    apply frame_refines; auto using (inv_idx u H), status_bytes_nonneg.
    rewrite Hl. cbn. auto.
  Qed.

  Lemma ref_get_driver_type : handle 20 b p u = spec_handle 20 b p u.
  Proof.
    open_handle. destruct p; [|reflexivity]. cbn [exec]. rewrite (inv_drv u H).
    change (int_to_bytes 32 1 false) with (Some [32]). cbv iota beta. f_equal. f_equal.
    apply (frame_refines b (usd_index u) [32]); auto using (inv_idx u H).
    - repeat constructor; lia.
    - cbn. auto.
  Qed.

  Lemma ref_min_frequency : handle 32 b p u = spec_handle 32 b p u.
  Proof.
    open_handle. destruct p as [|x [|y [|z q]]]; try reflexivity. cbn [length Nat.eqb exec].
    destruct (bytes2 _ _ Hp) as [Hx Hy]. rewrite bti2 by assumption.
    unfold set_min_frequency, of_bool, frequency_ok, acked, refused.
    destruct (s16 x y <? 20) eqn:E1, (10000 <? s16 x y) eqn:E2, (max_frequency u <? s16 x y) eqn:E3,
      (20 <=? s16 x y) eqn:E4, (s16 x y <=? 10000) eqn:E5, (s16 x y <=? max_frequency u) eqn:E6;
      try reflexivity; lia.
  Qed.

  Lemma ref_max_frequency : handle 33 b p u = spec_handle 33 b p u.
  Proof.
    open_handle. destruct p as [|x [|y [|z q]]]; try reflexivity. cbn [length Nat.eqb exec].
    destruct (bytes2 _ _ Hp) as [Hx Hy]. rewrite bti2 by assumption.
    unfold set_max_frequency, of_bool, frequency_ok, acked, refused.
    destruct (s16 x y <? 20) eqn:E1, (10000 <? s16 x y) eqn:E2, (s16 x y <? min_frequency u) eqn:E3,
      (20 <=? s16 x y) eqn:E4, (s16 x y <=? 10000) eqn:E5, (min_frequency u <=? s16 x y) eqn:E6;
      try reflexivity; lia.
  Qed.

  Lemma ref_slope_delayer : handle 34 b p u = spec_handle 34 b p u.
  Proof. open_handle. destruct p as [|x [|y q]]; reflexivity. Qed.

  Lemma ref_reference_position : handle 35 b p u = spec_handle 35 b p u.
  Proof.
    open_handle. destruct p as [|x [|y [|z [|w [|v q]]]]]; try reflexivity.
    cbn [length Nat.eqb exec]. destruct (bytes4 _ _ _ _ Hp) as (Hx & Hy & Hz & Hw).
    rewrite bti4 by assumption. reflexivity.
  Qed.

  Lemma ref_io_pins : handle 37 b p u = spec_handle 37 b p u.
  Proof.
    open_handle. destruct p as [|x [|y q]]; try reflexivity. cbn [exec].
    destruct (byte_facts_ok x (bytes1 _ Hp)) as (_ & F1 & F2 & F3 & _ & F5 & F6 & F7 & _).
    unfold set_io_pins. rewrite F1, F2, F3, F5, F6, F7. unfold of_opt, acked, io_values, io_directions.
    rewrite !ite_mul by apply bitz_01. reflexivity.
  Qed.

  Lemma ref_resolution : handle 38 b p u = spec_handle 38 b p u.
  Proof.
    open_handle. destruct p as [|x [|y q]]; try reflexivity. cbn [exec].
    pose proof (bytes1 _ Hp) as Hx.
    destruct (byte_facts_ok x Hx) as (_ & _ & _ & _ & _ & _ & _ & _ & _ & _ & F1 & F2 & _).
    rewrite F1. destruct (8 <=? x) eqn:E; [reflexivity|].
    cbn [orb] in F2. apply Z.eqb_eq in F2. rewrite F2. unfold set_resolution, resolutions_get.
    unfold byte in Hx. replace ((0 <=? x) && (x <=? 7)) with true by lia. reflexivity.
  Qed.

  Lemma ref_current_reduction : handle 39 b p u = spec_handle 39 b p u.
  Proof.
    open_handle. destruct p as [|x [|y q]]; try reflexivity. cbn [exec].
    pose proof (bytes1 _ Hp) as Hx.
    destruct (byte_facts_ok x Hx) as (_ & _ & _ & _ & _ & _ & _ & _ & _ & _ & _ & _ & F1 & F2 & _).
    rewrite F1, F2. unfold byte in Hx.
    assert (Hm : x / 64 = 0 \/ x / 64 = 1 \/ x / 64 = 2 \/ x / 64 = 3) by lia.
    destruct Hm as [-> |[-> |[-> | ->]]]; reflexivity.
  Qed.

  Lemma ref_response_delay : handle 40 b p u = spec_handle 40 b p u.
  Proof. open_handle. destruct p as [|x [|y q]]; reflexivity. Qed.

  Lemma ref_delayed_execution : handle 41 b p u = spec_handle 41 b p u.
  Proof.
    open_handle. destruct p as [|x [|y q]]; try reflexivity. cbn [exec].
    destruct (byte_facts_ok x (bytes1 _ Hp)) as (_ & _ & _ & _ & _ & _ & _ & _ & F1 & F2 & _).
    unfold set_delayed_execution. rewrite F1, F2. reflexivity.
  Qed.

  Lemma ref_absolute_position : handle 48 b p u = spec_handle 48 b p u.
  Proof.
    open_handle. destruct p as [|x [|y [|z [|w [|v q]]]]]; try reflexivity.
    cbn [length Nat.eqb exec]. destruct (bytes4 _ _ _ _ Hp) as (Hx & Hy & Hz & Hw).
    rewrite bti4 by assumption. unfold set_absolute_position, request_position, of_bool.
    destruct (delayed_execution u); [reflexivity|]. destruct (running u); reflexivity.
  Qed.

  Lemma ref_relative_position : handle 49 b p u = spec_handle 49 b p u.
  Proof.
    open_handle. destruct p as [|x [|y [|z [|w [|v q]]]]]; try reflexivity.
    cbn [length Nat.eqb exec]. destruct (bytes4 _ _ _ _ Hp) as (Hx & Hy & Hz & Hw).
    rewrite bti4 by assumption. unfold set_relative_position, request_position, of_bool.
    destruct (delayed_execution u); [reflexivity|]. destruct (running u); reflexivity.
  Qed.

  Lemma ref_rotate : handle 50 b p u = spec_handle 50 b p u.
  Proof.
    open_handle. destruct p as [|x [|y q]]; try reflexivity. cbn [exec].
    destruct (byte_facts_ok x (bytes1 _ Hp)) as (_ & _ & _ & _ & _ & _ & _ & _ & _ & _ & _ & _ & _ & _ & F).
    destruct (twos_to_int (bstr x)) as [t|]; [|discriminate F]. cbn [option_map] in F.
    injection F as F. rewrite F. unfold rotate, of_bool. destruct (running u); reflexivity.
  Qed.

  Lemma ref_velocity : handle 53 b p u = spec_handle 53 b p u.
  Proof.
    open_handle. destruct p as [|x [|y [|z [|w q]]]]; try reflexivity.
    cbn [length Nat.eqb exec]. destruct (bytes3 _ _ _ Hp) as (Hx & Hy & Hz).
    rewrite bti3 by assumption. set (v := s24 x y z). unfold set_velocity, of_bool, acked, refused.
    destruct (100000 <? v), (v <? -100000), (auto_resolution u), (Z.abs v <? 10), (v =? 0);
      reflexivity.
  Qed.

  Lemma ref_stop_io : handle 42 b p u = spec_handle 42 b p u.
  Proof.
    open_handle. destruct p as [|x [|y q]]; try reflexivity. cbn [exec].
    destruct (byte_facts_ok x (bytes1 _ Hp)) as (_ & _ & _ & _ & _ & _ & _ & _ & _ & F & _).
    unfold set_stop_io. rewrite F. reflexivity.
  Qed.

  Lemma ref_positioning_io : handle 43 b p u = spec_handle 43 b p u.
  Proof.
    open_handle. destruct p as [|x [|y q]]; try reflexivity. cbn [exec].
    destruct (byte_facts_ok x (bytes1 _ Hp)) as (_ & _ & _ & _ & _ & _ & _ & _ & _ & F & _).
    unfold set_positioning_io. rewrite F. reflexivity.
  Qed.

  Lemma ref_home_io : handle 44 b p u = spec_handle 44 b p u.
  Proof.
    open_handle. destruct p as [|x [|y q]]; try reflexivity. cbn [exec].
    destruct (byte_facts_ok x (bytes1 _ Hp)) as (_ & _ & _ & _ & _ & _ & _ & _ & _ & F & _).
    unfold set_home_io. rewrite F. reflexivity.
  Qed.

  Lemma ref_working_mode : handle 45 b p u = spec_handle 45 b p u.
  Proof.
    open_handle. destruct p as [|x [|y [|z q]]]; try reflexivity. cbn [exec].
    destruct (bytes2 _ _ Hp) as [Hx Hy].
    destruct (byte_facts_ok x Hx) as (_ & _ & _ & _ & _ & _ & _ & F & _).
    unfold set_working_mode. rewrite F. unfold bitb.
    destruct (bitz_01 x 0) as [-> | ->]; reflexivity.
  Qed.
End PerCommand.

(* ---------- every command code ---------- *)
Lemma decode_unknown code p :
  code <> 1 -> code <> 2 -> code <> 16 -> code <> 17 -> code <> 18 -> code <> 19 -> code <> 20 ->
  code <> 32 -> code <> 33 -> code <> 34 -> code <> 35 -> code <> 37 -> code <> 38 -> code <> 39 ->
  code <> 40 -> code <> 41 -> code <> 42 -> code <> 43 -> code <> 44 -> code <> 45 -> code <> 48 ->
  code <> 49 -> code <> 50 -> code <> 53 -> decode code p = DUnknown.
Proof.
  intros. destruct code as [|q|q]; try reflexivity.
  repeat (destruct q as [q|q|]; try reflexivity; try lia).
Qed.

Theorem handle_refines code b p u : 0 <= b -> bytes p -> Inv u ->
  handle code b p u = spec_handle code b p u.
Proof.
  intros Hb Hp H.
  destruct (Z.eq_dec code 1) as [->|N1]; [apply ref_reset; assumption|].
  destruct (Z.eq_dec code 2) as [->|N2]; [apply ref_trigger; assumption|].
  destruct (Z.eq_dec code 16) as [->|N16]; [apply ref_get_version; assumption|].
  destruct (Z.eq_dec code 17) as [->|N17]; [apply ref_stop; assumption|].
  destruct (Z.eq_dec code 18) as [->|N18]; [apply ref_get_position; assumption|].
  destruct (Z.eq_dec code 19) as [->|N19]; [apply ref_get_status; assumption|].
  destruct (Z.eq_dec code 20) as [->|N20]; [apply ref_get_driver_type; assumption|].
  destruct (Z.eq_dec code 32) as [->|N32]; [apply ref_min_frequency; assumption|].
  destruct (Z.eq_dec code 33) as [->|N33]; [apply ref_max_frequency; assumption|].
  destruct (Z.eq_dec code 34) as [->|N34]; [apply ref_slope_delayer; assumption|].
  destruct (Z.eq_dec code 35) as [->|N35]; [apply ref_reference_position; assumption|].
  destruct (Z.eq_dec code 37) as [->|N37]; [apply ref_io_pins; assumption|].
  destruct (Z.eq_dec code 38) as [->|N38]; [apply ref_resolution; assumption|].
  destruct (Z.eq_dec code 39) as [->|N39]; [apply ref_current_reduction; assumption|].
  destruct (Z.eq_dec code 40) as [->|N40]; [apply ref_response_delay; assumption|].
  destruct (Z.eq_dec code 41) as [->|N41]; [apply ref_delayed_execution; assumption|].
  destruct (Z.eq_dec code 42) as [->|N42]; [apply ref_stop_io; assumption|].
  destruct (Z.eq_dec code 43) as [->|N43]; [apply ref_positioning_io; assumption|].
  destruct (Z.eq_dec code 44) as [->|N44]; [apply ref_home_io; assumption|].
  destruct (Z.eq_dec code 45) as [->|N45]; [apply ref_working_mode; assumption|].
  destruct (Z.eq_dec code 48) as [->|N48]; [apply ref_absolute_position; assumption|].
  destruct (Z.eq_dec code 49) as [->|N49]; [apply ref_relative_position; assumption|].
  destruct (Z.eq_dec code 50) as [->|N50]; [apply ref_rotate; assumption|].
  destruct (Z.eq_dec code 53) as [->|N53]; [apply ref_velocity; assumption|].
  unfold spec_handle. rewrite decode_unknown by assumption.
  unfold handle.
  repeat match goal with
         | |- context [?c =? ?k] => replace (c =? k) with false by lia
         end.
  reflexivity.
Qed.

(* ---------- time steps ---------- *)
Lemma round_half_even_1024 n : 0 <= n ->
  round_half_even n 1024 = (n + 512) / 1024 - (if n mod 2048 =? 512 then 1 else 0).
Proof.
  intros Hn. unfold round_half_even.
  destruct (2 * (n mod 1024) <? 1024) eqn:E1.
  - destruct (n mod 2048 =? 512) eqn:E2; lia.
  - destruct (1024 <? 2 * (n mod 1024)) eqn:E2.
    + destruct (n mod 2048 =? 512) eqn:E3; lia.
    + assert (Hm : n mod 1024 = 512) by lia.
      destruct (Z.even (n / 1024)) eqn:Ev.
      * apply Z.even_spec in Ev. destruct Ev as [j Hj].
        destruct (n mod 2048 =? 512) eqn:E3; lia.
      * assert (Ho : Z.odd (n / 1024) = true) by (rewrite <- Z.negb_even, Ev; reflexivity).
        apply Z.odd_spec in Ho. destruct Ho as [j Hj].
        destruct (n mod 2048 =? 512) eqn:E3; lia.
Qed.

Lemma moving_truthy u : moving_by_velocity u = truthy (velocity u).
Proof. reflexivity. Qed.

Lemma displacement_refines u k : Inv u -> 0 <= k -> displacement u k = spec_displacement u k.
Proof.
  intros H Hk. unfold displacement, spec_displacement, spec_rate, frequency_of.
  rewrite moving_truthy. apply round_half_even_1024.
  destruct (inv_res u H) as (j & Hj & Hr). destruct (inv_freq u H) as (F1 & F2 & F3).
  assert (0 <= 128 / resolution u).
  { rewrite Hr. apply Z.div_pos; [lia|]. apply Z.pow_pos_nonneg; lia. }
  apply Z.mul_nonneg_nonneg; [apply Z.mul_nonneg_nonneg|]; try lia.
  destruct (truthy (velocity u)); [destruct (velocity u)|]; lia.
Qed.

Lemma clamp_limit p : clamp p = limit p.
Proof.
  unfold clamp, limit, min_position, max_position.
  destruct (p <? -21000 * 128) eqn:E1; [lia|]. destruct (21000 * 128 <? p) eqn:E2; lia.
Qed.

Lemma sign_direction x : sign x = direction_of x.
Proof.
  unfold sign, direction_of. destruct (x =? 0) eqn:E0, (x <? 0) eqn:E1, (0 <? x) eqn:E2;
    try reflexivity; lia.
Qed.

Lemma standby_refines now u : Inv u -> standby_part now u = rest now u.
Proof.
  intros H. unfold standby_part, rest. destruct (running u), (standby u); cbn [negb andb orb];
    try reflexivity.
  destruct (last_movement u) as [lm|]; [|reflexivity].
  unfold standby_due.
  replace (standby_delay_multiplier u * 4096 * 1024 <=? (now - lm) * 1000000)
    with (standby_delay_multiplier u * 65536 <=? (now - lm) * 15625)
    by (destruct (standby_delay_multiplier u * 65536 <=? (now - lm) * 15625) eqn:E; lia).
  destruct (negb (lm =? 0) && (standby_delay_multiplier u * 65536 <=? (now - lm) * 15625));
    [|reflexivity].
  pose proof (inv_sb u H) as Hs.
  replace (negb (0 <? standby_mode u)) with (standby_mode u =? 0) by lia. reflexivity.
Qed.

Lemma arrival_cond pos tgt d : min_position <= pos <= max_position -> 0 <= d ->
  ((sign (tgt - pos) =? 0)
   || negb (sign (tgt - clamp (pos + sign (tgt - pos) * d)) =? sign (tgt - pos)))
  = in_range tgt && (Z.abs (tgt - pos) <=? d).
Proof.
  intros Hp Hd. unfold in_range.
  destruct ((min_position <=? tgt) && (tgt <=? max_position) && (Z.abs (tgt - pos) <=? d)) eqn:E;
    sign_split; unfold clamp, min_position, max_position in *; lia.
Qed.

Theorem calc_refines d now u : Inv u -> 0 <= d -> calc_position d now u = spec_calc d now u.
Proof.
  intros H Hd. pose proof (inv_pos u H) as Hp. pose proof (inv_sb u H) as Hs. unfold pos_ok in Hp.
  unfold calc_position, spec_calc. rewrite moving_truthy.
  assert (Hrest : forall x, standby_mode x = standby_mode u -> standby_part now x = rest now x).
  { intros x Hx. unfold standby_part, rest. destruct (running x), (standby x); cbn [negb andb orb];
      try reflexivity.
    destruct (last_movement x) as [lm|]; [|reflexivity]. unfold standby_due.
    replace (standby_delay_multiplier x * 4096 * 1024 <=? (now - lm) * 1000000)
      with (standby_delay_multiplier x * 65536 <=? (now - lm) * 15625)
      by (destruct (standby_delay_multiplier x * 65536 <=? (now - lm) * 15625) eqn:E; lia).
    destruct (negb (lm =? 0) && (standby_delay_multiplier x * 65536 <=? (now - lm) * 15625));
      [|reflexivity].
    replace (negb (0 <? standby_mode x)) with (standby_mode x =? 0) by lia. reflexivity. }
  destruct (truthy (velocity u)) eqn:Ht.
  - destruct (velocity u) as [v|] eqn:Hv; [|discriminate Ht].
    rewrite clamp_limit, sign_direction. rewrite Hrest by (destruct u; reflexivity).
    try (f_equal; destruct u; reflexivity).
  - destruct (cmd_position u) as [tgt|] eqn:Hc.
    + cbv zeta. rewrite arrival_cond by assumption.
      destruct (in_range tgt && (Z.abs (tgt - current_position u) <=? d)).
      * rewrite Hrest by (destruct u; reflexivity). try (f_equal; destruct u; reflexivity).
      * rewrite clamp_limit, sign_direction. rewrite Hrest by (destruct u; reflexivity).
        try (f_equal; destruct u; reflexivity).
    + rewrite Hrest by (destruct u; reflexivity). try reflexivity.
Qed.

Theorem tick_refines k now u : Inv u -> 0 <= k -> tick k now u = spec_tick k now u.
Proof.
  intros H Hk. unfold tick, spec_tick. rewrite <- displacement_refines by assumption.
  apply calc_refines; [exact H|apply displacement_nonneg; assumption].
Qed.
