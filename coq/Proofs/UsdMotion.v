(* C12 — lemmas about the motion of one USD (Model/UsdModel.v: calc_position, the positioning
   commands, soft_stop), for every displacement and every history. *)
From DS Require Import Base.Prelude Base.Bits Model.Utils Model.UsdModel.

Definition pos_ok (u : usd) : Prop := min_position <= current_position u <= max_position.
Definition vel_idle (u : usd) : Prop := truthy (velocity u) = false.

Ltac usd_unfold :=
  unfold calc_position, standby_part, moving_part, soft_stop, set_absolute_position,
    set_relative_position, rotate, set_velocity, pos_ok, vel_idle in *.

Lemma sign_cases z : (z = 0 /\ sign z = 0) \/ (z < 0 /\ sign z = -1) \/ (0 < z /\ sign z = 1).
Proof. unfold sign. destruct (Z.eqb_spec z 0); [auto|]. destruct (Z.ltb_spec z 0); [auto|]. right. right. lia. Qed.

Ltac sign_split :=
  repeat match goal with
         | |- context [sign ?z] =>
             let H := fresh "Hs" in let E := fresh "Es" in
             destruct (sign_cases z) as [[H E]|[[H E]|[H E]]]; rewrite ?E in *; clear E
         | H0 : context [sign ?z] |- _ =>
             let H := fresh "Hs" in let E := fresh "Es" in
             destruct (sign_cases z) as [[H E]|[[H E]|[H E]]]; rewrite ?E in *; clear E
         end.

Ltac kin_arith :=
  sign_split; unfold clamp, min_position, max_position, out_of_scale_position in *;
  repeat match goal with
         | |- context [if ?c then _ else _] => destruct c eqn:?
         end; cbn [fst snd] in *; try lia.

(* the standby bookkeeping never touches the kinematic attributes *)
Lemma standby_part_kin now u :
  current_position (standby_part now u) = current_position u /\
  running (standby_part now u) = running u /\
  cmd_position (standby_part now u) = cmd_position u /\
  velocity (standby_part now u) = velocity u.
Proof.
  unfold standby_part.
  destruct (negb (running u) && negb (standby u)); [|tauto].
  destruct (last_movement u) as [lm|]; [|tauto].
  destruct (negb (lm =? 0) && standby_due (now - lm) (standby_delay_multiplier u)); [|tauto].
  destruct u; cbn. tauto.
Qed.

(* what calc_position does to the four kinematic attributes, as one case analysis *)
Definition kin_step (d : Z) (u : usd) : Z * bool * option Z :=
  if truthy (velocity u) then
    match velocity u with
    | Some v => (clamp (current_position u + sign v * d), true, cmd_position u)
    | None => (current_position u, running u, cmd_position u)
    end
  else match cmd_position u with
       | Some cmd =>
           let s0 := sign (cmd - current_position u) in
           let np := clamp (current_position u + s0 * d) in
           if (s0 =? 0) || negb (sign (cmd - np) =? s0) then (cmd, false, None)
           else (np, true, Some cmd)
       | None => (current_position u, false, None)
       end.

Lemma calc_kin d now u :
  (current_position (calc_position d now u), running (calc_position d now u),
   cmd_position (calc_position d now u)) = kin_step d u /\
  velocity (calc_position d now u) = velocity u.
Proof.
  unfold calc_position, kin_step.
  match goal with |- context [standby_part now ?x] => pose proof (standby_part_kin now x) as (E1 & E2 & E3 & E4) end.
  rewrite E1, E2, E3, E4. clear E1 E2 E3 E4.
  destruct (truthy (velocity u)) eqn:Ht.
  - destruct (velocity u) as [v|] eqn:Hv.
    + destruct u; cbn in *. subst. split; reflexivity.
    + discriminate Ht.
  - destruct (cmd_position u) as [cmd|] eqn:Hc.
    + cbv zeta.
      destruct ((sign (cmd - current_position u) =? 0)
                || negb (sign (cmd - clamp (current_position u + sign (cmd - current_position u) * d))
                         =? sign (cmd - current_position u))) eqn:Ha.
      * destruct u; cbn in *. split; reflexivity.
      * destruct u; cbn in *. subst. split; reflexivity.
    + destruct u; cbn in *. subst. split; reflexivity.
Qed.

Lemma calc_pos d now u : current_position (calc_position d now u) = fst (fst (kin_step d u)).
Proof. destruct (calc_kin d now u) as [E _]. rewrite <- E. reflexivity. Qed.
Lemma calc_running d now u : running (calc_position d now u) = snd (fst (kin_step d u)).
Proof. destruct (calc_kin d now u) as [E _]. rewrite <- E. reflexivity. Qed.
Lemma calc_cmd d now u : cmd_position (calc_position d now u) = snd (kin_step d u).
Proof. destruct (calc_kin d now u) as [E _]. rewrite <- E. reflexivity. Qed.
Lemma calc_velocity d now u : velocity (calc_position d now u) = velocity u.
Proof. apply calc_kin. Qed.

(* ---- range ---- *)
Lemma calc_range d now u : pos_ok u -> pos_ok (calc_position d now u).
Proof.
  unfold pos_ok. rewrite calc_pos. unfold kin_step.
  destruct (truthy (velocity u)); [destruct (velocity u)|destruct (cmd_position u)]; cbn [fst snd];
    intros H; kin_arith.
Qed.

(* ---- no active command: the position does not move ---- *)
Lemma calc_idle d now u : vel_idle u -> cmd_position u = None ->
  current_position (calc_position d now u) = current_position u /\
  running (calc_position d now u) = false /\
  cmd_position (calc_position d now u) = None /\ vel_idle (calc_position d now u).
Proof.
  unfold vel_idle. intros Hv Hc. rewrite calc_pos, calc_running, calc_cmd, calc_velocity.
  unfold kin_step. rewrite Hv, Hc. cbn. auto.
Qed.

(* ---- step bound and direction ---- *)
Lemma calc_step_bound d now u : 0 <= d -> pos_ok u ->
  Z.abs (current_position (calc_position d now u) - current_position u) <= d.
Proof.
  unfold pos_ok. intros Hd H. rewrite calc_pos. unfold kin_step.
  destruct (truthy (velocity u)); [destruct (velocity u)|destruct (cmd_position u)]; cbn [fst snd];
    kin_arith.
Qed.

(* velocity mode: the position moves in the direction of the velocity's sign *)
Lemma calc_direction_velocity d now u v : 0 <= d -> pos_ok u ->
  velocity u = Some v -> v <> 0 ->
  0 <= sign v * (current_position (calc_position d now u) - current_position u).
Proof.
  unfold pos_ok. intros Hd H Hv Hnz. rewrite calc_pos. unfold kin_step, truthy. rewrite Hv.
  destruct (Z.eqb_spec v 0) as [?|_]; [contradiction|]. cbn [negb fst]. kin_arith.
Qed.

(* positioning: the position moves toward the target and never passes it *)
Lemma calc_direction_target d now u tgt : 0 <= d -> pos_ok u ->
  vel_idle u -> cmd_position u = Some tgt ->
  let p := current_position u in let p' := current_position (calc_position d now u) in
  0 <= sign (tgt - p) * (p' - p) /\ Z.abs (tgt - p') <= Z.abs (tgt - p) /\
  0 <= sign (tgt - p) * (tgt - p').
Proof.
  unfold pos_ok, vel_idle. intros Hd H Hv Hc. cbv zeta. rewrite calc_pos. unfold kin_step.
  rewrite Hv, Hc. cbv zeta.
  destruct ((sign (tgt - current_position u) =? 0)
            || negb (sign (tgt - clamp (current_position u + sign (tgt - current_position u) * d))
                     =? sign (tgt - current_position u))) eqn:Ha; cbn [fst snd]; kin_arith.
Qed.

(* ---- one positioning step, the two possible results ---- *)
Definition heading (u : usd) (tgt : Z) : Prop :=
  pos_ok u /\ vel_idle u /\ cmd_position u = Some tgt.
Definition arrived (u : usd) (tgt : Z) : Prop :=
  vel_idle u /\ cmd_position u = None /\ current_position u = tgt /\ running u = false.

Lemma heading_step d now u tgt : 1 <= d -> min_position <= tgt <= max_position ->
  heading u tgt ->
  let u' := calc_position d now u in
  (Z.abs (tgt - current_position u) <= d /\ arrived u' tgt) \/
  (d < Z.abs (tgt - current_position u) /\ heading u' tgt /\
   Z.abs (tgt - current_position u') = Z.abs (tgt - current_position u) - d /\ running u' = true).
Proof.
  unfold heading, arrived, pos_ok, vel_idle. intros Hd Ht (Hp & Hv & Hc). cbv zeta.
  rewrite calc_pos, calc_running, calc_cmd, calc_velocity. unfold kin_step. rewrite Hv, Hc. cbv zeta.
  destruct ((sign (tgt - current_position u) =? 0)
            || negb (sign (tgt - clamp (current_position u + sign (tgt - current_position u) * d))
                     =? sign (tgt - current_position u))) eqn:Ha; cbn [fst snd].
  - left. repeat split; auto. kin_arith.
  - right. repeat split; auto; kin_arith.
Qed.

(* a target equal to the present position is reached by any tick (fix 06) *)
Lemma heading_at_target d now u tgt : heading u tgt -> current_position u = tgt ->
  arrived (calc_position d now u) tgt.
Proof.
  unfold heading, arrived, vel_idle. intros (Hp & Hv & Hc) He.
  rewrite calc_pos, calc_running, calc_cmd, calc_velocity. unfold kin_step. rewrite Hv, Hc, He.
  cbv zeta. replace (tgt - tgt) with 0 by lia. cbn. auto.
Qed.

Lemma arrived_stable d now u tgt : arrived u tgt -> arrived (calc_position d now u) tgt.
Proof.
  unfold arrived. intros (Hv & Hc & Hp & Hr).
  destruct (calc_idle d now u Hv Hc) as (E1 & E2 & E3 & E4). rewrite E1. auto.
Qed.

(* a sequence of iterations of the positioning thread, each with its displacement and clock *)
Definition ticks (ds : list (Z * Z)) (u : usd) : usd :=
  fold_left (fun u dn => calc_position (fst dn) (snd dn) u) ds u.
Definition total (ds : list (Z * Z)) : Z := fold_right Z.add 0 (map fst ds).

Lemma arrived_ticks ds : forall u tgt, arrived u tgt -> arrived (ticks ds u) tgt.
Proof.
  induction ds as [|dn ds IH]; intros u tgt H; [exact H|]. cbn. apply IH, arrived_stable, H.
Qed.

Lemma arrival_aux ds : forall u tgt, min_position <= tgt <= max_position ->
  Forall (fun dn => 1 <= fst dn) ds -> heading u tgt ->
  Z.abs (tgt - current_position u) <= total ds ->
  arrived (ticks ds u) tgt \/ (heading (ticks ds u) tgt /\ current_position (ticks ds u) = tgt).
Proof.
  induction ds as [|[d now] ds IH]; intros u tgt Ht Hds Hh Hsum.
  - right. split; [exact Hh|]. cbn in *. lia.
  - inversion Hds as [|x l Hd Hds']; subst. cbn [fst] in Hd. cbn [ticks fold_left fst snd].
    unfold total in Hsum. cbn [map fold_right fst] in Hsum. fold (total ds) in Hsum.
    destruct (heading_step d now u tgt Hd Ht Hh) as [[_ Ha]|(Hlt & Hh' & Hdist & _)].
    + left. apply arrived_ticks, Ha.
    + apply IH; auto. lia.
Qed.

(* exact arrival: when the displacements (each >= 1) add up to the distance the position is the
   target, and after at most one further iteration running is cleared, for good *)
Theorem arrival u tgt ds : min_position <= tgt <= max_position ->
  heading u tgt -> Forall (fun dn => 1 <= fst dn) ds ->
  Z.abs (tgt - current_position u) <= total ds ->
  current_position (ticks ds u) = tgt /\
  forall d now more, arrived (ticks more (calc_position d now (ticks ds u))) tgt.
Proof.
  intros Ht Hh Hds Hsum.
  destruct (arrival_aux ds u tgt Ht Hds Hh Hsum) as [Ha|[Hh' He]].
  - split; [apply Ha|]. intros d now more. apply arrived_ticks, arrived_stable, Ha.
  - split; [exact He|]. intros d now more. apply arrived_ticks, heading_at_target; assumption.
Qed.

(* progress while under way: running is reported and the distance shrinks by exactly d *)
Theorem under_way u tgt d now : min_position <= tgt <= max_position -> heading u tgt -> 1 <= d ->
  d < Z.abs (tgt - current_position u) ->
  running (calc_position d now u) = true /\
  Z.abs (tgt - current_position (calc_position d now u)) = Z.abs (tgt - current_position u) - d.
Proof.
  intros Ht Hh Hd Hlt. destruct (heading_step d now u tgt Hd Ht Hh) as [[Hle _]|(_ & _ & E & R)];
    [lia|auto].
Qed.

(* ---- targets outside the range and rotate: clamp at the limit and keep running ---- *)
Lemma out_of_scale_step d now u tgt : 0 <= d -> heading u tgt ->
  (tgt < min_position \/ max_position < tgt) ->
  let u' := calc_position d now u in
  heading u' tgt /\ running u' = true /\
  current_position u' = clamp (current_position u + sign (tgt - current_position u) * d).
Proof.
  unfold heading, pos_ok, vel_idle. intros Hd (Hp & Hv & Hc) Ho. cbv zeta.
  rewrite calc_pos, calc_running, calc_cmd, calc_velocity. unfold kin_step. rewrite Hv, Hc. cbv zeta.
  destruct ((sign (tgt - current_position u) =? 0)
            || negb (sign (tgt - clamp (current_position u + sign (tgt - current_position u) * d))
                     =? sign (tgt - current_position u))) eqn:Ha; cbn [fst snd].
  - exfalso. kin_arith.
  - repeat split; auto; kin_arith.
Qed.

(* ---- stop ---- *)
Lemma soft_stop_idle u : vel_idle (soft_stop u) /\ cmd_position (soft_stop u) = None /\
  current_position (soft_stop u) = current_position u.
Proof. unfold vel_idle, soft_stop. destruct u; cbn. auto. Qed.

Lemma idle_ticks ds : forall u, vel_idle u -> cmd_position u = None ->
  current_position (ticks ds u) = current_position u /\ vel_idle (ticks ds u) /\
  cmd_position (ticks ds u) = None.
Proof.
  induction ds as [|[d now] ds IH]; intros u Hv Hc; [auto|].
  cbn [ticks fold_left fst snd]. destruct (calc_idle d now u Hv Hc) as (E1 & E2 & E3 & E4).
  destruct (IH _ E4 E3) as (F1 & F2 & F3). unfold ticks in *. rewrite F1, E1. auto.
Qed.

Theorem stop_halts u d now more :
  let u' := ticks more (calc_position d now (soft_stop u)) in
  current_position u' = current_position u /\
  running (calc_position d now (soft_stop u)) = false.
Proof.
  cbv zeta. destruct (soft_stop_idle u) as (Hv & Hc & Hp).
  destruct (calc_idle d now _ Hv Hc) as (E1 & E2 & E3 & E4).
  destruct (idle_ticks more _ E4 E3) as (F1 & _). rewrite F1, E1, Hp. auto.
Qed.

(* ---- busy refusal ---- *)
Lemma busy_refused u p : running u = true -> delayed_execution u = false ->
  set_absolute_position p u = (u, false) /\ set_relative_position p u = (u, false) /\
  rotate p u = (u, false).
Proof.
  intros Hr Hd. unfold set_absolute_position, set_relative_position, rotate. rewrite Hr, Hd. auto.
Qed.

Lemma idle_accepted u p : running u = false -> delayed_execution u = false ->
  set_absolute_position p u = (set_cmd_position (Some (reference_position u + p)) u, true) /\
  set_relative_position p u = (set_cmd_position (Some (current_position u + p)) u, true).
Proof.
  intros Hr Hd. unfold set_absolute_position, set_relative_position. rewrite Hr, Hd. auto.
Qed.
