(* Which frames can make System._parse raise (on the tree with fixes 25 / 25b): only the two time queries
   (inquiry, get_time), and only when the time rendering oracle is undefined on the instant asked for
   (datetime overflow beyond year 9999).  Consequences: with a total rendering parse never raises; a frame
   that completes in the `len == 8 + msg[5]` branch of System.parse never raises at all. *)
From DS Require Import Base.Prelude Gen.RcvTables Model.RcvModel Proofs.RcvAssoc Proofs.RcvProofs Proofs.RcvBoards Proofs.RcvFraming Proofs.RcvDecode Proofs.RcvBytes Proofs.RcvBytes2.

#[local] Arguments mem : simpl never.

Definition time_query (k : cmdk) : Prop := k = KInquiry \/ k = KGetTime.

Lemma time_query_classes c k : classify c = Some k -> time_query k ->
  mem c CMD_ABBR_NO_PARAMS = true \/ mem c CMD_EXT_NO_PARAMS = true.
Proof.
  intros Hc Hk. destruct (classify_codes c k Hc) as [-> | ->]; destruct Hk as [-> | ->];
    vm_compute; auto.
Qed.

Section T.
  Variable clk : nat -> Z.
  Variable mkdate : list Z -> option Z.
  Variable render : Z -> option (list Z).
  Notation exec := (exec clk mkdate render).
  Notation exec_req := (exec_req clk mkdate render).
  Notation run_targets := (run_targets clk mkdate render).
  Notation handle := (handle clk mkdate render).
  Notation parse := (parse clk mkdate render).
  Notation run := (run clk mkdate render).

  Ltac unf := unfold RcvModel.exec, gen_get, get_data, set_data, fin, store, dio_value, get_extra.
  Ltac go := repeat (progress (unf; cbn [b_com b_kind e_board e_ans e_tick]; brk)).

  (* a handler raises only in inquiry / get_time, and only when the rendering is undefined *)
  Lemma exec_exc_class keys b t k ext cid p :
    e_ans (exec keys b t k ext cid p) = None -> time_query k /\ exists z, render z = None.
  Proof.
    destruct b as [c kd]. unfold time_query.
    destruct k; go; intros H; try discriminate;
      try (split; [auto|eexists; eassumption]).
    all: match goal with Hl : (zlen _ <? 4) = false |- _ => vm_compute in Hl; discriminate end.
  Qed.

  Lemma exec_req_exc_class q keys b t :
    r_tail (exec_req q keys b t) = None ->
    (exists k, classify (q_cmd q) = Some k /\ time_query k) /\ exists z, render z = None.
  Proof.
    unfold RcvModel.exec_req.
    destruct (negb (mem (q_cmd q) ACCEPTED_COMMANDS)); [discriminate|].
    destruct (q_chk q); [discriminate|].
    destruct (classify (q_cmd q)) as [k|]; [|discriminate].
    destruct (e_ans (exec keys b t k (q_ext q) (q_cid q) (q_params q))) as [[code extra]|] eqn:Ee; [discriminate|].
    intros _. destruct (exec_exc_class _ _ _ _ _ _ _ Ee) as [Hk Hz]. split; [eauto|assumption].
  Qed.

  Lemma run_targets_exc_class q : forall targets sl t acc sl' t',
    run_targets q targets sl t acc = (sl', t', None) ->
    (exists k, classify (q_cmd q) = Some k /\ time_query k) /\ exists z, render z = None.
  Proof.
    induction targets as [|a rest IH]; intros sl t acc sl' t' Hr; cbn in Hr; [discriminate|].
    destruct (aget Z.eqb sl a) as [b|]; [|eapply IH; eauto].
    pose proof (exec_req_exc_class q (keys_of sl) b t) as He.
    pose proof (exec_req_addr clk mkdate render q (keys_of sl) b t) as Ha. cbv zeta in Ha.
    set (r := exec_req q (keys_of sl) b t) in *.
    destruct (r_tail r) as [tail|]; [|apply He; reflexivity].
    destruct (r_moved r) as [[a'|]|]; [eapply IH; eauto|contradiction|eapply IH; eauto].
  Qed.

  (* the exception class of System._parse on a message it can index (at least five bytes) *)
  Theorem handle_exc_class sl t m sl' t' :
    (5 <= length m)%nat -> handle sl t m = (sl', t', OExc) ->
    exists sa q k, decode m = Some (sa, q) /\ classify (q_cmd q) = Some k /\ time_query k /\
                   exists z, render z = None.
  Proof.
    intros Hlen. unfold RcvModel.handle.
    destruct (decode m) as [[sa q]|] eqn:Hd.
    - destruct (run_targets q (targets_of sa sl) sl t []) as [[sl2 t2] [total|]] eqn:Er.
      + destruct (_ && _); discriminate.
      + intros _. destruct (run_targets_exc_class _ _ _ _ _ _ _ Er) as [(k & Hk & Ht) Hz].
        exists sa, q, k. auto.
    - exfalso. unfold decode in Hd. destruct m as [|x0 [|x1 [|x2 [|x3 [|x4 rest]]]]]; cbn in Hlen; try lia.
      destruct (nth_error _ _) eqn:E; [discriminate|]. apply nth_error_None in E. cbn [length] in E. lia.
  Qed.

  Lemma fdone_len msg b m : frame_step msg b = FDone m -> m = msg ++ [b] /\ (5 <= length m)%nat.
  Proof.
    unfold frame_step. intros E.
    assert (Hm : m = msg ++ [b]).
    { destruct (length msg) as [|[|[|[|[|[|n]]]]]]; try discriminate;
        repeat match type of E with (if ?c then _ else _) = _ => destruct c end;
        try discriminate; injection E as <-; reflexivity. }
    split; [exact Hm|]. subst m. rewrite app_length. cbn [length].
    destruct (length msg) as [|[|[|[|[|[|n]]]]]]; try discriminate; try lia.
    destruct (b =? CMD_SOH); discriminate.
  Qed.

  (* with a total time rendering, parse never raises: in any state, on any byte *)
  Theorem parse_never_raises : (forall z, render z <> None) ->
    forall s b, snd (parse s b) <> OExc.
  Proof.
    intros Hr s b. unfold RcvModel.parse. destruct (frame_step (s_msg s) b) as [|m|m] eqn:E; try discriminate.
    destruct (handle (s_slaves s) (s_tick s) m) as [[sl t] o] eqn:Eh. cbn [snd]. intros ->.
    destruct (fdone_len _ _ _ E) as [_ Hl].
    destruct (handle_exc_class _ _ _ _ _ Hl Eh) as (sa & q & k & _ & _ & _ & z & Hz). exact (Hr z Hz).
  Qed.

  (* ---- frames completing in the last branch of System.parse (len == 8 + msg[5]) never raise ---- *)
  Definition class5 (c : Z) : bool := mem c CMD_ABBR_NO_PARAMS || negb (mem c ACCEPTED_COMMANDS).
  Definition buf_inv3 (msg : list Z) : Prop :=
    (5 <= zlen msg -> class5 (nth 3 msg 0) = false) /\
    (7 <= zlen msg -> mem (nth 3 msg 0) CMD_EXT_NO_PARAMS = false).

  Lemma buf_inv3_nil : buf_inv3 [].
  Proof. split; rewrite zlen_nil; intros; lia. Qed.

  Lemma frame_step_inv3 msg b m : buf_inv3 msg -> frame_step msg b = FMore m -> buf_inv3 m.
  Proof.
    intros [H5 H7] E.
    destruct msg as [|x0 [|x1 [|x2 [|x3 [|x4 [|x5 rest]]]]]].
    - cbn in E. destruct (b =? CMD_SOH); [|discriminate]. injection E as <-. split; unfold zlen; cbn; intros; lia.
    - cbn in E. injection E as <-. split; unfold zlen; cbn; intros; lia.
    - cbn in E. injection E as <-. split; unfold zlen; cbn; intros; lia.
    - cbn in E. injection E as <-. split; unfold zlen; cbn; intros; lia.
    - unfold frame_step in E. cbn [length app nth] in E. fold (class5 x3) in E.
      destruct (class5 x3) eqn:Ec; [discriminate|]. injection E as <-.
      split; [intros _; exact Ec|unfold zlen; cbn; intros; lia].
    - cbn in E. injection E as <-. split; [intros _; apply H5; unfold zlen; cbn; lia|unfold zlen; cbn; intros; lia].
    - unfold frame_step in E. cbn [length] in E.
      set (msg := x0 :: x1 :: x2 :: x3 :: x4 :: x5 :: rest) in *.
      change (nth 3 (msg ++ [b]) 0) with x3 in E. change (nth 5 (msg ++ [b]) 0) with x5 in E.
      assert (H6 : 6 <= zlen msg) by (unfold msg; rewrite !zlen_cons; pose proof (zlen_nonneg rest); lia).
      assert (Hz : zlen (msg ++ [b]) = zlen msg + 1) by (rewrite zlen_app; reflexivity).
      assert (Hm : m = msg ++ [b]).
      { repeat match type of E with (if ?c then _ else _) = _ => destruct c end;
          try discriminate; injection E as <-; reflexivity. }
      subst m. change (nth 3 msg 0) with x3 in H5, H7.
      split; change (nth 3 (msg ++ [b]) 0) with x3.
      + intros _. apply H5. lia.
      + intros _. destruct (Z.eq_dec (zlen msg) 6) as [E6|E6]; [|apply H7; lia].
        rewrite Hz, E6 in E. change (6 + 1 =? 7) with true in E. cbn [andb] in E.
        destruct (mem x3 CMD_EXT_NO_PARAMS); [discriminate|reflexivity].
  Qed.

  Theorem last_branch_never_raises s b m :
    buf_inv3 (s_msg s) -> frame_step (s_msg s) b = FDone m -> 8 <= zlen m ->
    snd (parse s b) <> OExc.
  Proof.
    intros [H5 H7] E H8. unfold RcvModel.parse. rewrite E.
    destruct (handle (s_slaves s) (s_tick s) m) as [[sl t] o] eqn:Eh. cbn [snd]. intros ->.
    destruct (fdone_len _ _ _ E) as [Hm Hl].
    destruct (handle_exc_class _ _ _ _ _ Hl Eh) as (sa & q & k & Hd & Hk & Ht & _).
    destruct (decode_cmd _ _ _ Hd) as [Hc _].
    assert (Hz : zlen m = zlen (s_msg s) + 1) by (subst m; rewrite zlen_app; reflexivity).
    assert (Hn : nth 3 m 0 = nth 3 (s_msg s) 0).
    { subst m. apply app_nth1. unfold zlen in *. lia. }
    rewrite Hc, Hn in Hk.
    destruct (time_query_classes _ _ Hk Ht) as [Ha|He].
    - specialize (H5 ltac:(lia)). unfold class5 in H5. rewrite Ha in H5. discriminate.
    - specialize (H7 ltac:(lia)). congruence.
  Qed.

  Lemma run_inv3 : forall bs s, buf_inv3 (s_msg s) -> buf_inv3 (s_msg (fst (run s bs))).
  Proof.
    induction bs as [|b r IH]; intros s Hi; [assumption|]. cbn [RcvModel.run].
    destruct (parse s b) as [s1 o] eqn:Ep. specialize (IH s1).
    destruct (run s1 r) as [s2 os]. cbn [fst] in *. apply IH.
    unfold RcvModel.parse in Ep. destruct (frame_step (s_msg s) b) as [|m|m] eqn:E.
    - injection Ep as <- _. apply buf_inv3_nil.
    - injection Ep as <- _. cbn [s_msg]. eapply frame_step_inv3; eauto.
    - destruct (handle _ _ m) as [[sl t] o']. injection Ep as <- _. apply buf_inv3_nil.
  Qed.
End T.

(* the exception is reachable when the rendering is undefined (board clock beyond year 9999), and the
   parser is idle afterwards: a version request, then an inquiry whose rendering fails, then a query *)
Example raising_reachable_and_idle :
  let r := run (fun n => Z.of_nat n) (fun _ => Some 0) (fun _ => None) (init_sys 0 1 [1])
               ([1; 1; 1; 99; 0] ++ [1; 1; 1; 97; 1] ++ [1; 1; 1; 106; 2]) in
  snd r = repeat OTrue 4 ++ [OReply [2; 1; 1; 99; 0; 0; 8; 0; 0; 0; 0; 0; 0; 0; 0]] ++
          repeat OTrue 4 ++ [OExc] ++ repeat OTrue 4 ++ [OReply [2; 1; 1; 106; 2; 0; 1; 126]] /\
  s_msg (fst r) = [].
Proof. vm_compute. split; reflexivity. Qed.
