(* gaia: framing theorems (C03) and the reply frame / refused-write lemma (C04, C05 partial). *)
From DS Require Import Base.Prelude Model.SmaCommon Model.SmaGaia Proofs.SmaBase Proofs.SmaFramer.

Lemma gaia_fstep_tail buf0 : fst (gaia_fstep buf0 10) = [].
Proof.
  unfold gaia_fstep. destruct (buf0 ++ [10]) as [|h r] eqn:E; [reflexivity|].
  destruct h; try reflexivity. do 6 (destruct p; try reflexivity).
Qed.

Lemma gaia_fstep_idle_nonhdr b : b <> 35 -> gaia_fstep [] b = ([], EOut OTrue).
Proof.
  intros H. unfold gaia_fstep. cbn [app]. destruct b; try reflexivity.
  do 6 (destruct p; try reflexivity). congruence.
Qed.

Section G.
  Variable temp : Z.

  (* C03: after ANY byte history from ANY state the terminator leaves the framer idle *)
  Theorem gaia_resync_on_terminator (s : gaia_state) bs :
    gaia_idle (fst (gaia_run temp s (bs ++ [10]))) = true.
  Proof.
    apply sidle_buf. unfold gaia_run, gaia_state.
    rewrite (srun_app_fst gaia_fstep (gaia_exec temp) s bs [10]).
    set (s1 := fst (srun gaia_fstep (gaia_exec temp) s bs)). cbn [srun].
    pose proof (sstep_buf gaia_fstep (gaia_exec temp) s1 10) as Hb.
    destruct (sstep gaia_fstep (gaia_exec temp) s1 10) as [s2 o]. cbn [fst] in *. rewrite Hb.
    apply gaia_fstep_tail.
  Qed.

  (* C03: idle discards bytes other than the header; gaia's parse answers True (not False) then *)
  Theorem gaia_idle_discards (s : gaia_state) b :
    gaia_idle s = true -> b <> 35 -> gaia_step temp s b = (s, OTrue).
  Proof.
    intros Hi Hb. apply sidle_buf in Hi. unfold gaia_step, sstep. rewrite Hi, (gaia_fstep_idle_nonhdr b Hb).
    destruct s as [bf d]. cbn in *. subst. reflexivity.
  Qed.

  Theorem gaia_fresh_after_idle (s : gaia_state) bs :
    gaia_idle s = true -> snd (frun gaia_fstep (buf s) bs) = snd (frun gaia_fstep (buf gaia_init) bs).
  Proof. intros H. apply sidle_buf in H. rewrite H. reflexivity. Qed.

  Theorem gaia_idle_is_initial_framing (s : gaia_state) :
    gaia_idle s = true -> s = Build_sstate [] (dev s).
  Proof. intros H. apply sidle_buf in H. destruct s as [bf d]. cbn in *. congruence. Qed.

End G.


(* ====================================================================================== *)
(* Device level: invariant, decoding of a request, handlers                                 *)

Definition gaia_inv (d : gdev) : Prop := length (vd d) = 10%nat /\ length (vg d) = 10%nat.

Lemma gaia_inv0 : gaia_inv gaia_dev0.
Proof. split; reflexivity. Qed.

Lemma gaia_inv_with_id d c : gaia_inv d -> gaia_inv (with_id d c).
Proof. intros H. exact H. Qed.

Definition gregs (d : gdev) : list Z * list Z * Z := (vd d, vg d, conf d).

Definition set_kind (k : gkind) : bool :=
  match k with KSetd | KSetg | KLoadconf => true | _ => false end.

Definition arity (k : gkind) : Z :=
  match k with KIdn | KConf | KName => 0 | KSetd | KSetg => 2 | _ => 1 end.

Lemma gaia_lookup_arity tok k l : gaia_lookup gaia_table tok = Some (k, l) -> l = arity k.
Proof.
  unfold gaia_table. cbn [gaia_lookup].
  repeat (destruct (zlist_eqb _ tok); [intros H; injection H as <- <-; reflexivity|]).
  discriminate.
Qed.

(* what _execute guarantees about the converted arguments it hands to a handler *)
Definition args_valid (k : gkind) (args : list Z) : Prop :=
  match arity k with
  | 0 => args = []
  | 2 => exists x y, args = [x; y] /\ 1 <= x <= 10 /\ 0 <= y < 1024
  | _ => exists x, args = [x] /\ gaia_in_first k x = true
  end.

Lemma gaia_decode_ok toks k args cid :
  gaia_decode toks = DOk k args cid -> args_valid k args /\ cid = snd (mid_last toks).
Proof.
  unfold gaia_decode. destruct toks as [|a0 rest0]; [discriminate|].
  destruct (gaia_lookup gaia_table a0) as [[k' l]|] eqn:El; [|discriminate].
  apply gaia_lookup_arity in El.
  destruct (mid_last (a0 :: rest0)) as [margs cid'] eqn:Em. cbn [snd].
  destruct (l <? Z.of_nat (length margs)); [discriminate|].
  destruct (l =? 0) eqn:E0.
  - intros H. injection H as <- <- <-. split; [|reflexivity].
    unfold args_valid. rewrite <- El. replace l with 0 by lia. reflexivity.
  - destruct margs as [|t0 rest]; [discriminate|].
    destruct (parse_int t0) as [x|]; [|discriminate].
    destruct (gaia_in_first k' x) eqn:Ef; cbn [negb]; [|discriminate].
    destruct (l =? 2) eqn:E2.
    + destruct rest as [|t1 r]; [discriminate|].
      destruct (parse_int t1) as [y|]; [|discriminate].
      destruct ((0 <=? y) && (y <? 1024)) eqn:Er; cbn [negb]; [|discriminate].
      intros H. injection H as <- <- <-. split; [|reflexivity].
      unfold args_valid. destruct k'; cbn [arity] in *; try lia.
      all: exists x, y; unfold gaia_in_first in Ef; repeat split; lia.
    + intros H. injection H as <- <- <-. split; [|reflexivity].
      unfold args_valid. destruct k'; cbn [arity] in *; try lia; exists x; auto.
Qed.

Lemma gpy_index_in l i : 0 <= i < Z.of_nat (length l) -> gpy_index l i = Some (Z.to_nat i).
Proof. intros H. unfold gpy_index. replace (0 <=? i) with true by lia. replace (i <? Z.of_nat (length l)) with true by lia. reflexivity. Qed.

Lemma nth_error_some_len {A} (l : list A) n : (n < length l)%nat -> exists v, nth_error l n = Some v.
Proof. intros H. destruct (nth_error l n) eqn:E; [eauto|]. apply nth_error_None in E. lia. Qed.

Section H.
  Variable temp : Z.

  Lemma handle_setd d x y : gaia_inv d -> 1 <= x <= 10 ->
    exists l, set_nth (Z.to_nat (x - 1)) y (vd d) = Some l /\
      gaia_handle temp KSetd d [x; y] =
      let d' := {| vd := l; vg := vg d; conf := conf d; cmd_id := cmd_id d |} in
      (d', OReply (gaia_reply (render_int x) d')).
  Proof.
    intros [H1 H2] Hx. destruct (set_nth_some (Z.to_nat (x - 1)) y (vd d)) as [l Hl]; [lia|].
    exists l. split; [exact Hl|]. cbn [gaia_handle hd].
    rewrite gpy_index_in by lia. rewrite Hl. reflexivity.
  Qed.

  Lemma handle_setg d x y : gaia_inv d -> 1 <= x <= 10 ->
    exists l, set_nth (Z.to_nat (x - 1)) y (vg d) = Some l /\
      gaia_handle temp KSetg d [x; y] =
      let d' := {| vd := vd d; vg := l; conf := conf d; cmd_id := cmd_id d |} in
      (d', OReply (gaia_reply (render_int x) d')).
  Proof.
    intros [H1 H2] Hx. destruct (set_nth_some (Z.to_nat (x - 1)) y (vg d)) as [l Hl]; [lia|].
    exists l. split; [exact Hl|]. cbn [gaia_handle hd].
    rewrite gpy_index_in by lia. rewrite Hl. reflexivity.
  Qed.

  Lemma handle_getvd d x : gaia_inv d -> 1 <= x <= 10 ->
    exists v, nth_error (vd d) (Z.to_nat (x - 1)) = Some v /\
      gaia_handle temp KGetvd d [x] = (d, OReply (gaia_reply (render_int v) d)).
  Proof.
    intros [H1 H2] Hx. destruct (nth_error_some_len (vd d) (Z.to_nat (x - 1))) as [v Hv]; [lia|].
    exists v. split; [exact Hv|]. cbn [gaia_handle hd]. rewrite gpy_index_in by lia. rewrite Hv. reflexivity.
  Qed.

  Lemma handle_getvg d x : gaia_inv d -> 1 <= x <= 10 ->
    exists v, nth_error (vg d) (Z.to_nat (x - 1)) = Some v /\
      gaia_handle temp KGetvg d [x] = (d, OReply (gaia_reply (render_int v) d)).
  Proof.
    intros [H1 H2] Hx. destruct (nth_error_some_len (vg d) (Z.to_nat (x - 1))) as [v Hv]; [lia|].
    exists v. split; [exact Hv|]. cbn [gaia_handle hd]. rewrite gpy_index_in by lia. rewrite Hv. reflexivity.
  Qed.

  (* every handler call that _execute can make yields exactly one framed reply; only the three
     set commands touch the registers *)
  Lemma handle_reply k d args : gaia_inv d -> args_valid k args ->
    exists raw d', gaia_handle temp k d args = (d', OReply (gaia_reply raw d')) /\
                   cmd_id d' = cmd_id d /\ gaia_inv d' /\ (set_kind k = false -> d' = d).
  Proof.
    intros Hi Hv. pose proof Hi as [H1 H2].
    destruct k; unfold args_valid in Hv; cbn [arity] in Hv;
      try (subst args);
      try (destruct Hv as (x & y & -> & Hx & Hy));
      try (destruct Hv as (x & -> & Hf); unfold gaia_in_first in Hf).
    - eexists _, d. cbn [gaia_handle hd]. split; [reflexivity|]. repeat split; auto.
    - eexists _, _. cbn [gaia_handle hd]. split; [reflexivity|]. repeat split; auto. discriminate.
    - eexists _, d. cbn [gaia_handle hd]. split; [reflexivity|]. repeat split; auto.
    - destruct (handle_setd d x y Hi Hx) as (l & Hl & ->). eexists _, _. split; [reflexivity|].
      split; [reflexivity|]. split; [|discriminate].
      split; cbn [vd vg]; [rewrite (set_nth_length _ _ _ _ Hl); exact H1|exact H2].
    - destruct (handle_setg d x y Hi Hx) as (l & Hl & ->). eexists _, _. split; [reflexivity|].
      split; [reflexivity|]. split; [|discriminate].
      split; cbn [vd vg]; [exact H1|rewrite (set_nth_length _ _ _ _ Hl); exact H2].
    - eexists _, d. cbn [gaia_handle hd]. split; [reflexivity|]. repeat split; auto.
    - destruct (handle_getvg d x Hi ltac:(lia)) as (v & _ & ->). eexists _, d. repeat split; auto.
    - destruct (handle_getvd d x Hi ltac:(lia)) as (v & _ & ->). eexists _, d. repeat split; auto.
    - eexists _, d. cbn [gaia_handle hd]. split; [reflexivity|]. repeat split; auto.
    - eexists _, d. cbn [gaia_handle hd]. split; [reflexivity|]. repeat split; auto.
    - eexists _, d. cbn [gaia_handle hd]. split; [reflexivity|]. repeat split; auto.
    - eexists _, d. cbn [gaia_handle hd]. split; [reflexivity|]. repeat split; auto.
  Qed.

  (* specification of one executed line: always exactly one reply, framed '#' body ' ' id '\n' with
     the id held after this step; what happens to the device is determined by the decoding *)
  Definition gaia_post (d : gdev) (m : list Z) (d' : gdev) (o : outcome) : Prop :=
    gaia_inv d' /\
    match gaia_decode (gaia_tokens m) with
    | DEmpty => d' = d /\ o = OReply (gaia_error 1000 (cmd_id d))
    | DUnknown => d' = d /\ o = OReply (gaia_error 1001 (cmd_id d))
    | DErr c cid => d' = with_id d cid /\ o = OReply (gaia_error c cid)
    | DOk k args cid =>
        args_valid k args /\ cmd_id d' = cid /\ (set_kind k = false -> d' = with_id d cid) /\
        exists raw, o = OReply (gaia_frame raw cid) /\
                    gaia_handle temp k (with_id d cid) args = (d', o)
    end.

  Lemma gaia_exec_post d m d' o : gaia_inv d -> gaia_exec temp d m = (d', o) -> gaia_post d m d' o.
  Proof.
    intros Hi H. unfold gaia_exec in H. unfold gaia_post.
    destruct (gaia_decode (gaia_tokens m)) as [| |c cid|k args cid] eqn:Ed.
    - injection H as <- <-. auto.
    - injection H as <- <-. auto.
    - injection H as <- <-. auto.
    - destruct (gaia_decode_ok _ _ _ _ Ed) as [Hv _].
      destruct (handle_reply k (with_id d cid) args (gaia_inv_with_id d cid Hi) Hv)
        as (raw & d1 & Hh & Hid & Hinv & Hsame).
      rewrite Hh in H. injection H as <- <-. split; [exact Hinv|].
      split; [exact Hv|]. split; [exact Hid|]. split; [exact Hsame|].
      exists raw. unfold gaia_reply. rewrite Hid. cbn [with_id cmd_id]. split; [reflexivity|].
      rewrite Hh. unfold gaia_reply. rewrite Hid. reflexivity.
  Qed.

  (* ---- steps ---- *)
  Definition gaia_executed (s : gaia_state) (b : Z) : option (list Z) :=
    match snd (gaia_fstep (buf s) b) with EExec m => Some m | EOut _ => None end.

  Lemma gaia_step_cases s b :
    (gaia_executed s b = None /\ dev (fst (gaia_step temp s b)) = dev s /\
     snd (gaia_step temp s b) = OTrue) \/
    (exists m, gaia_executed s b = Some m /\
               gaia_exec temp (dev s) m = (dev (fst (gaia_step temp s b)), snd (gaia_step temp s b))).
  Proof.
    unfold gaia_executed, gaia_step, sstep.
    destruct (gaia_fstep (buf s) b) as [bf [o1|m]] eqn:Ef; cbn [fst snd dev].
    - left. repeat split. unfold gaia_fstep in Ef.
      destruct (buf s ++ [b]) as [|h r]; [injection Ef as _ <-; reflexivity|].
      destruct h; try (injection Ef as _ <-; reflexivity).
      do 6 (destruct p; try (injection Ef as _ <-; reflexivity)).
      destruct (b =? 10); [discriminate|injection Ef as _ <-; reflexivity].
    - right. exists m. split; [reflexivity|]. destruct (gaia_exec temp (dev s) m). reflexivity.
  Qed.

  Definition gaia_sinv (s : gaia_state) : Prop := gaia_inv (dev s).

  Lemma gaia_step_sinv s b : gaia_sinv s -> gaia_sinv (fst (gaia_step temp s b)).
  Proof.
    intros Hi. unfold gaia_sinv in *.
    destruct (gaia_step_cases s b) as [(_ & -> & _)|(m & _ & He)]; [exact Hi|].
    exact (proj1 (gaia_exec_post _ _ _ _ Hi He)).
  Qed.

  Lemma gaia_run_sinv bs : forall s, gaia_sinv s -> gaia_sinv (fst (gaia_run temp s bs)).
  Proof.
    induction bs as [|b r IH]; intros s H; cbn; [exact H|].
    unfold gaia_run. cbn [srun]. pose proof (gaia_step_sinv s b H) as H1. unfold gaia_step in H1.
    destruct (sstep gaia_fstep (gaia_exec temp) s b) as [s1 o]. cbn [fst] in H1.
    specialize (IH s1 H1). unfold gaia_run in IH.
    destruct (srun gaia_fstep (gaia_exec temp) s1 r) as [s2 os]. exact IH.
  Qed.

  Definition gaia_reachable (s : gaia_state) : Prop := exists bs, s = fst (gaia_run temp gaia_init bs).
  Lemma gaia_reachable_sinv s : gaia_reachable s -> gaia_sinv s.
  Proof. intros [bs ->]. apply gaia_run_sinv. exact gaia_inv0. Qed.

  (* ---- C04: every reply is framed and carries the id of the request it answers ---- *)
  Theorem gaia_replies_framed s b r :
    gaia_reachable s -> snd (gaia_step temp s b) = OReply r ->
    exists m body, gaia_executed s b = Some m /\
      r = gaia_frame body (cmd_id (dev (fst (gaia_step temp s b)))) /\
      match gaia_decode (gaia_tokens m) with
      | DEmpty | DUnknown =>       (* nothing recognisable: the PREVIOUS id is echoed (quirk) *)
          cmd_id (dev (fst (gaia_step temp s b))) = cmd_id (dev s)
      | DErr _ _ | DOk _ _ _ =>    (* recognised command, accepted or refused: the CURRENT id *)
          cmd_id (dev (fst (gaia_step temp s b))) = last (gaia_tokens m) []
      end.
  Proof.
    intros Hr H. apply gaia_reachable_sinv in Hr.
    destruct (gaia_step_cases s b) as [(_ & _ & H1)|(m & Hm & He)]; [congruence|].
    pose proof (gaia_exec_post _ _ _ _ Hr He) as [_ Hp]. exists m.
    destruct (gaia_decode (gaia_tokens m)) as [| |c cid|k args cid] eqn:Ed.
    - destruct Hp as [Hd Ho]. rewrite Ho in H. injection H as <-.
      exists (gaia_error_body 1000). rewrite Hd. auto.
    - destruct Hp as [Hd Ho]. rewrite Ho in H. injection H as <-.
      exists (gaia_error_body 1001). rewrite Hd. auto.
    - destruct Hp as [Hd Ho]. rewrite Ho in H. injection H as <-.
      exists (gaia_error_body c). rewrite Hd. cbn [with_id cmd_id]. repeat split; auto.
      unfold gaia_decode in Ed. destruct (gaia_tokens m) as [|a0 rest0]; [discriminate|].
      destruct (gaia_lookup gaia_table a0) as [[k' l]|]; [|discriminate].
      cbn [mid_last] in Ed.
      repeat match type of Ed with
             | (if ?c then _ else _) = _ => destruct c
             | match ?x with _ => _ end = _ => destruct x
             end; try discriminate; injection Ed as _ <-; reflexivity.
    - destruct Hp as (_ & Hid & _ & raw & Ho & _). rewrite Ho in H. injection H as <-.
      exists raw. rewrite Hid. repeat split; auto.
      destruct (gaia_decode_ok _ _ _ _ Ed) as [_ ->]. reflexivity.
  Qed.

  (* ---- C05: refused requests change no register ---- *)
  Theorem gaia_refused_unchanged s b :
    gaia_reachable s ->
    (forall m k args cid, gaia_executed s b = Some m -> gaia_decode (gaia_tokens m) <> DOk k args cid) ->
    gregs (dev (fst (gaia_step temp s b))) = gregs (dev s).
  Proof.
    intros Hr Hn. apply gaia_reachable_sinv in Hr.
    destruct (gaia_step_cases s b) as [(_ & -> & _)|(m & Hm & He)]; [reflexivity|].
    pose proof (gaia_exec_post _ _ _ _ Hr He) as [_ Hp]. specialize (Hn m).
    destruct (gaia_decode (gaia_tokens m)) as [| |c cid|k args cid].
    - destruct Hp as [-> _]. reflexivity.
    - destruct Hp as [-> _]. reflexivity.
    - destruct Hp as [-> _]. reflexivity.
    - exfalso. eapply Hn; eauto.
  Qed.

  (* only an accepted SETD / SETG / LOADCONF changes registers *)
  Lemma gaia_step_regs s b : gaia_sinv s ->
    gregs (dev (fst (gaia_step temp s b))) = gregs (dev s) \/
    exists m k args cid, gaia_executed s b = Some m /\ gaia_decode (gaia_tokens m) = DOk k args cid /\
                         set_kind k = true /\ args_valid k args /\
                         gaia_handle temp k (with_id (dev s) cid) args =
                         (dev (fst (gaia_step temp s b)), snd (gaia_step temp s b)).
  Proof.
    intros Hr. destruct (gaia_step_cases s b) as [(_ & -> & _)|(m & Hm & He)]; [left; reflexivity|].
    pose proof (gaia_exec_post _ _ _ _ Hr He) as [_ Hp].
    destruct (gaia_decode (gaia_tokens m)) as [| |c cid|k args cid] eqn:Ed.
    - destruct Hp as [-> _]. left. reflexivity.
    - destruct Hp as [-> _]. left. reflexivity.
    - destruct Hp as [-> _]. left. reflexivity.
    - destruct Hp as (Hv & _ & Hsame & raw & _ & Hh). destruct (set_kind k) eqn:Ek.
      + right. exists m, k, args, cid. auto.
      + left. rewrite (Hsame eq_refl). reflexivity.
  Qed.

  (* the step is an accepted write of register (k, x):  SETD x _ / SETG x _ / LOADCONF _ *)
  Definition gaia_sets (k : gkind) (x : Z) (s : gaia_state) (b : Z) : Prop :=
    exists m args cid, gaia_executed s b = Some m /\ gaia_decode (gaia_tokens m) = DOk k args cid /\
                       (k = KLoadconf \/ hd 0 args = x).

  Fixpoint gaia_quiet (P : gaia_state -> Z -> Prop) (s : gaia_state) (h : list Z) : Prop :=
    match h with
    | [] => True
    | b :: r => ~ P s b /\ gaia_quiet P (fst (gaia_step temp s b)) r
    end.

  (* per-channel frame of one step *)
  Lemma gaia_step_frame s b x : gaia_sinv s -> 1 <= x <= 10 ->
    (~ gaia_sets KSetd x s b ->
       nth_error (vd (dev (fst (gaia_step temp s b)))) (Z.to_nat (x - 1)) =
       nth_error (vd (dev s)) (Z.to_nat (x - 1))) /\
    (~ gaia_sets KSetg x s b ->
       nth_error (vg (dev (fst (gaia_step temp s b)))) (Z.to_nat (x - 1)) =
       nth_error (vg (dev s)) (Z.to_nat (x - 1))) /\
    (~ gaia_sets KLoadconf x s b -> conf (dev (fst (gaia_step temp s b))) = conf (dev s)).
  Proof.
    intros Hr Hx.
    destruct (gaia_step_regs s b Hr) as [Hsame|(m & k & args & cid & Hm & Hd & Hk & Hv & Hh)].
    - unfold gregs in Hsame. injection Hsame as E1 E2 E3. rewrite E1, E2, E3. auto.
    - destruct k; try discriminate; unfold args_valid in Hv; cbn [arity] in Hv.
      + (* LOADCONF *) destruct Hv as (x' & -> & _). cbn [gaia_handle hd] in Hh.
        injection Hh as Hd' _. rewrite <- Hd'. cbn [vd vg conf with_id].
        repeat split; auto. intros Hq. exfalso. apply Hq. exists m, [x'], cid. auto.
      + (* SETD *) destruct Hv as (x' & y & -> & Hx' & Hy).
        destruct (handle_setd (with_id (dev s) cid) x' y Hr Hx') as (l & Hl & Hh').
        rewrite Hh' in Hh. cbv zeta in Hh. injection Hh as Hd' _. rewrite <- Hd'.
        cbn [vd vg conf with_id] in *. repeat split; auto. intros Hq.
        destruct (Z.eq_dec x' x) as [->|Hne].
        * exfalso. apply Hq. exists m, [x; y], cid. auto.
        * eapply set_nth_neq; eauto. lia.
      + (* SETG *) destruct Hv as (x' & y & -> & Hx' & Hy).
        destruct (handle_setg (with_id (dev s) cid) x' y Hr Hx') as (l & Hl & Hh').
        rewrite Hh' in Hh. cbv zeta in Hh. injection Hh as Hd' _. rewrite <- Hd'.
        cbn [vd vg conf with_id] in *. repeat split; auto. intros Hq.
        destruct (Z.eq_dec x' x) as [->|Hne].
        * exfalso. apply Hq. exists m, [x; y], cid. auto.
        * eapply set_nth_neq; eauto. lia.
  Qed.

  Lemma gaia_quiet_frame (sel : nat) x h : forall s, gaia_sinv s -> 1 <= x <= 10 ->
    (gaia_quiet (gaia_sets KSetd x) s h ->
       nth_error (vd (dev (fst (gaia_run temp s h)))) (Z.to_nat (x - 1)) =
       nth_error (vd (dev s)) (Z.to_nat (x - 1))) /\
    (gaia_quiet (gaia_sets KSetg x) s h ->
       nth_error (vg (dev (fst (gaia_run temp s h)))) (Z.to_nat (x - 1)) =
       nth_error (vg (dev s)) (Z.to_nat (x - 1))) /\
    (gaia_quiet (gaia_sets KLoadconf x) s h -> conf (dev (fst (gaia_run temp s h))) = conf (dev s)).
  Proof.
    induction h as [|b r IH]; intros s Hs Hx; [cbn; auto|].
    pose proof (gaia_step_sinv s b Hs) as Hs1.
    destruct (gaia_step_frame s b x Hs Hx) as (F1 & F2 & F3).
    destruct (IH _ Hs1 Hx) as (G1 & G2 & G3).
    unfold gaia_run in *. cbn [srun gaia_quiet]. unfold gaia_step in *.
    destruct (sstep gaia_fstep (gaia_exec temp) s b) as [s1 o]. cbn [fst] in *.
    destruct (srun gaia_fstep (gaia_exec temp) s1 r) as [s2 os]. cbn [fst] in *.
    repeat split; intros [Q1 Q2].
    - rewrite (G1 Q2). exact (F1 Q1).
    - rewrite (G2 Q2). exact (F2 Q1).
    - rewrite (G3 Q2). exact (F3 Q1).
  Qed.
End H.

(* ====================================================================================== *)
(* Request lines built from tokens                                                          *)

Definition nonws (c : Z) : Prop := is_ws c = false.
Definition tok_ok (t : list Z) : Prop := t <> [] /\ Forall nonws t.

Lemma split_ws_aux_tok tok : Forall nonws tok ->
  forall cur l, split_ws_aux cur (tok ++ l) = split_ws_aux (rev tok ++ cur) l.
Proof.
  induction 1 as [|c t Hc Ht IH]; intros cur l; [reflexivity|].
  cbn [app split_ws_aux rev]. unfold nonws in Hc. rewrite Hc. rewrite IH. rewrite <- app_assoc. reflexivity.
Qed.

Lemma split_ws_aux_flush cur rest : cur <> [] ->
  split_ws_aux cur (32 :: rest) = rev cur :: split_ws_aux [] rest.
Proof. intros H. cbn [split_ws_aux]. change (is_ws 32) with true. cbv iota. destruct cur; [congruence|reflexivity]. Qed.

Lemma split_ws_aux_end cur : cur <> [] -> split_ws_aux cur [] = [rev cur].
Proof. intros H. cbn. destruct cur; [congruence|reflexivity]. Qed.

Lemma rev_nonempty {A} (l : list A) : l <> [] -> rev l <> [].
Proof. intros H E. apply H. rewrite <- (rev_involutive l), E. reflexivity. Qed.

Lemma split_ws_join toks : Forall tok_ok toks -> split_ws_aux [] (join [32] toks) = toks.
Proof.
  induction 1 as [|t r [Hne Hnw] Hr IH]; [reflexivity|].
  destruct r as [|t2 r].
  - cbn [join]. rewrite <- (app_nil_r t) at 1. rewrite (split_ws_aux_tok t Hnw), app_nil_r.
    rewrite split_ws_aux_end by (apply rev_nonempty; exact Hne). rewrite rev_involutive. reflexivity.
  - change (join [32] (t :: t2 :: r)) with (t ++ [32] ++ join [32] (t2 :: r)).
    rewrite (split_ws_aux_tok t Hnw), app_nil_r. cbn [app].
    rewrite split_ws_aux_flush by (apply rev_nonempty; exact Hne). rewrite rev_involutive, IH. reflexivity.
Qed.

Lemma join_snoc_nonws toks : toks <> [] -> Forall tok_ok toks ->
  exists J e, join [32] toks = J ++ [e] /\ nonws e.
Proof.
  intros Hne H. induction H as [|t r [Htn Hnw] Hr IH]; [congruence|].
  destruct r as [|t2 r].
  - cbn [join]. destruct (exists_last Htn) as (t' & e & ->). exists t', e. split; [reflexivity|].
    apply Forall_app in Hnw as [_ He]. inversion He; auto.
  - destruct (IH ltac:(discriminate)) as (J & e & HJ & He).
    change (join [32] (t :: t2 :: r)) with (t ++ [32] ++ join [32] (t2 :: r)). rewrite HJ.
    exists (t ++ [32] ++ J), e. split; [rewrite <- !app_assoc; reflexivity|exact He].
Qed.

Lemma rstrip_nonws_end l e : nonws e -> rstrip (l ++ [e]) = l ++ [e].
Proof.
  intros He. unfold rstrip. rewrite rev_unit. cbn [lstrip]. unfold nonws in He. rewrite He.
  cbn [rev]. rewrite rev_involutive. reflexivity.
Qed.

Lemma join_Forall (P : Z -> Prop) toks : P 32 -> Forall (Forall P) toks -> Forall P (join [32] toks).
Proof.
  intros Hs H. induction H as [|t r Ht Hr IH]; [constructor|].
  destruct r as [|t2 r]; [exact Ht|].
  change (join [32] (t :: t2 :: r)) with (t ++ [32] ++ join [32] (t2 :: r)).
  apply Forall_app. split; [exact Ht|]. constructor; [exact Hs|exact IH].
Qed.

(* the request line '#' + ' '.join(tokens) *)
Definition gline (toks : list (list Z)) : list Z := 35 :: join [32] toks.

Lemma gaia_tokens_gline t0 rest :
  Forall tok_ok (t0 :: rest) -> hd 0 t0 <> 35 -> gaia_tokens (gline (t0 :: rest)) = t0 :: rest.
Proof.
  intros Hok Hh. unfold gaia_tokens, gline.
  pose proof Hok as Hok'. inversion Hok' as [|? ? [Hne Hnw] Hr]; subst.
  destruct t0 as [|c t0']; [congruence|]. cbn [hd] in Hh. inversion Hnw as [|? ? Hc Hnw']; subst.
  assert (HJ : exists X, join [32] ((c :: t0') :: rest) = c :: X).
  { destruct rest as [|t2 r]; [exists t0'; reflexivity|]. eexists. reflexivity. }
  destruct HJ as [X HX].
  assert (E1 : lstrip_ch 35 (35 :: join [32] ((c :: t0') :: rest)) = join [32] ((c :: t0') :: rest)).
  { rewrite HX. cbn [lstrip_ch]. rewrite Z.eqb_refl. replace (c =? 35) with false by lia. reflexivity. }
  rewrite E1. unfold strip.
  assert (E2 : lstrip (join [32] ((c :: t0') :: rest)) = join [32] ((c :: t0') :: rest)).
  { rewrite HX. cbn [lstrip]. unfold nonws in Hc. rewrite Hc. reflexivity. }
  rewrite E2. destruct (join_snoc_nonws ((c :: t0') :: rest) ltac:(discriminate) Hok) as (J & e & HJ & He).
  rewrite HJ, (rstrip_nonws_end J e He), <- HJ. unfold split_ws. apply split_ws_join. exact Hok.
Qed.

Lemma nonws_not_nl c : nonws c -> c <> 10.
Proof. unfold nonws, is_ws. lia. Qed.

Section L.
  Variable temp : Z.

  Lemma gaia_run_body pre body (d : gdev) :
    Forall (fun c => c <> 10) body ->
    gaia_run temp {| buf := 35 :: pre; dev := d |} body =
    ({| buf := 35 :: pre ++ body; dev := d |}, repeat OTrue (length body)).
  Proof.
    revert pre. induction body as [|c r IH]; intros pre Hf.
    - cbn. rewrite app_nil_r. reflexivity.
    - inversion Hf as [|? ? Hc Hr]; subst. unfold gaia_run in *. cbn [srun].
      assert (Hs : sstep gaia_fstep (gaia_exec temp) {| buf := 35 :: pre; dev := d |} c =
                   ({| buf := 35 :: (pre ++ [c]); dev := d |}, OTrue)).
      { unfold sstep, gaia_fstep. cbn [buf dev app]. replace (c =? 10) with false by lia. reflexivity. }
      rewrite Hs, (IH (pre ++ [c]) Hr). rewrite <- app_assoc. reflexivity.
  Qed.

  (* a complete line from idle: True for every byte but the last, which executes the line *)
  Lemma gaia_line_from_idle (s : gaia_state) body :
    sidle s = true -> Forall (fun c => c <> 10) body ->
    gaia_run temp s (35 :: body ++ [10]) =
    let (d', o) := gaia_exec temp (dev s) (35 :: body) in
    ({| buf := []; dev := d' |}, repeat OTrue (S (length body)) ++ [o]).
  Proof.
    intros Hi Hf. apply sidle_buf in Hi. destruct s as [bf d]. cbn [buf dev] in *. subst bf.
    unfold gaia_run. cbn [srun].
    assert (H1 : sstep gaia_fstep (gaia_exec temp) {| buf := []; dev := d |} 35 =
                 ({| buf := [35]; dev := d |}, OTrue)) by reflexivity.
    rewrite H1. pose proof (srun_app gaia_fstep (gaia_exec temp) {| buf := [35]; dev := d |} body [10]) as Ha.
    rewrite Ha. pose proof (gaia_run_body [] body d Hf) as Hb. unfold gaia_run in Hb. cbn [app] in Hb.
    rewrite Hb. cbn [srun].
    assert (H2 : sstep gaia_fstep (gaia_exec temp) {| buf := 35 :: body; dev := d |} 10 =
                 let (d', o) := gaia_exec temp d (35 :: body) in ({| buf := []; dev := d' |}, o)).
    { unfold sstep, gaia_fstep. cbn [buf dev app Z.eqb Pos.eqb].
      replace (removelast (35 :: body ++ [10])) with (35 :: body)
        by (change (35 :: body ++ [10]) with ((35 :: body) ++ [10]); rewrite removelast_last; reflexivity).
      reflexivity. }
    rewrite H2. destruct (gaia_exec temp d (35 :: body)) as [d' o]. cbn [repeat app]. reflexivity.
  Qed.

  (* a request given by its tokens, from idle *)
  Lemma gaia_request_from_idle (s : gaia_state) t0 rest :
    sidle s = true -> Forall tok_ok (t0 :: rest) -> hd 0 t0 <> 35 ->
    gaia_run temp s (gline (t0 :: rest) ++ [10]) =
    (let (d', o) := gaia_exec temp (dev s) (gline (t0 :: rest)) in
     ({| buf := []; dev := d' |}, repeat OTrue (length (gline (t0 :: rest))) ++ [o])) /\
    gaia_tokens (gline (t0 :: rest)) = t0 :: rest.
  Proof.
    intros Hi Hok Hh. split; [|apply gaia_tokens_gline; auto].
    unfold gline. cbn [app length]. apply gaia_line_from_idle; [exact Hi|].
    apply join_Forall; [lia|]. eapply Forall_impl; [|exact Hok].
    intros t [_ Ht]. eapply Forall_impl; [|exact Ht]. intros c. apply nonws_not_nl.
  Qed.

  (* C02 in its strongest form: ANY line '#...' without newline, from any reachable idle state,
     gets exactly one reply, framed with header, id and terminator *)
  Theorem gaia_every_line_answered (s : gaia_state) body :
    gaia_reachable temp s -> sidle s = true -> Forall (fun c => c <> 10) body ->
    exists r bdy cid, snd (gaia_run temp s (35 :: body ++ [10])) = repeat OTrue (S (length body)) ++ [OReply r] /\
                      r = gaia_frame bdy cid /\ sidle (fst (gaia_run temp s (35 :: body ++ [10]))) = true.
  Proof.
    intros Hr Hi Hf. apply gaia_reachable_sinv in Hr.
    rewrite (gaia_line_from_idle s body Hi Hf).
    destruct (gaia_exec temp (dev s) (35 :: body)) as [d' o] eqn:He.
    pose proof (gaia_exec_post temp _ _ _ _ Hr He) as [_ Hp]. cbn [fst snd].
    destruct (gaia_decode (gaia_tokens (35 :: body))) as [| |c cid|k args cid].
    - destruct Hp as [_ ->]. eexists _, _, _. repeat split; reflexivity.
    - destruct Hp as [_ ->]. eexists _, _, _. repeat split; reflexivity.
    - destruct Hp as [_ ->]. eexists _, _, _. repeat split; reflexivity.
    - destruct Hp as (_ & _ & _ & raw & -> & _). eexists _, _, _. repeat split; reflexivity.
  Qed.

  (* decoding of well-formed requests *)
  Lemma decode_q0 c k cid : gaia_lookup gaia_table c = Some (k, 0) -> gaia_decode [c; cid] = DOk k [] cid.
  Proof. intros H. unfold gaia_decode. rewrite H. reflexivity. Qed.

  Lemma decode_a1 c k tx cid x : gaia_lookup gaia_table c = Some (k, 1) ->
    parse_int tx = Some x -> gaia_in_first k x = true -> gaia_decode [c; tx; cid] = DOk k [x] cid.
  Proof.
    intros H Hp Hf. unfold gaia_decode. rewrite H. cbn [mid_last tl removelast last length].
    change (1 <? Z.of_nat 1) with false. change (1 =? 0) with false. cbv iota. rewrite Hp, Hf. reflexivity.
  Qed.

  Lemma decode_a2 c k tx ty cid x y : gaia_lookup gaia_table c = Some (k, 2) ->
    parse_int tx = Some x -> gaia_in_first k x = true -> parse_int ty = Some y -> 0 <= y < 1024 ->
    gaia_decode [c; tx; ty; cid] = DOk k [x; y] cid.
  Proof.
    intros H Hp Hf Hq Hy. unfold gaia_decode. rewrite H. cbn [mid_last tl removelast last length].
    change (2 <? Z.of_nat 2) with false. change (2 =? 0) with false. cbv iota. rewrite Hp, Hf.
    cbn [negb]. change (2 =? 2) with true. cbv iota. rewrite Hq.
    replace ((0 <=? y) && (y <? 1024)) with true by lia. reflexivity.
  Qed.

  (* the four refusal classes of the property, for any recognised command word *)
  Theorem gaia_refusal_classes c k l margs cid :
    gaia_lookup gaia_table c = Some (k, l) ->
    (l < Z.of_nat (length margs) -> gaia_decode (c :: margs ++ [cid]) = DErr 1015 cid) /\
    (0 < l -> margs = [] -> gaia_decode (c :: margs ++ [cid]) = DErr 1004 cid) /\
    (forall t0 rest, 0 < l -> margs = t0 :: rest -> Z.of_nat (length margs) <= l ->
       (parse_int t0 = None -> gaia_decode (c :: margs ++ [cid]) = DErr 1002 cid) /\
       (forall x, parse_int t0 = Some x -> gaia_in_first k x = false ->
                  gaia_decode (c :: margs ++ [cid]) = DErr 1003 cid) /\
       (forall x, parse_int t0 = Some x -> gaia_in_first k x = true -> l = 2 ->
          (rest = [] -> gaia_decode (c :: margs ++ [cid]) = DErr 1008 cid) /\
          (forall t1, rest = [t1] ->
             (parse_int t1 = None -> gaia_decode (c :: margs ++ [cid]) = DErr 1009 cid) /\
             (forall y, parse_int t1 = Some y -> ~ 0 <= y < 1024 ->
                        gaia_decode (c :: margs ++ [cid]) = DErr 1010 cid)))).
  Proof.
    intros H.
    assert (Hm : mid_last (c :: margs ++ [cid]) = (margs, cid)).
    { unfold mid_last. cbn [tl]. rewrite removelast_last.
      change (c :: margs ++ [cid]) with ((c :: margs) ++ [cid]). rewrite last_last. reflexivity. }
    unfold gaia_decode. rewrite H, Hm.
    split; [intros Hl; replace (l <? Z.of_nat (length margs)) with true by lia; reflexivity|].
    split; [intros Hl ->; cbn [length]; replace (l <? Z.of_nat 0) with false by lia;
            replace (l =? 0) with false by lia; reflexivity|].
    intros t0 rest Hl -> Hlen.
    replace (l <? Z.of_nat (length (t0 :: rest))) with false by lia.
    replace (l =? 0) with false by lia.
    split; [intros ->; reflexivity|].
    split; [intros x -> ->; reflexivity|].
    intros x -> -> ->. change (2 =? 2) with true. cbn [negb]. cbv iota.
    split; [intros ->; reflexivity|].
    intros t1 ->. split; [intros ->; reflexivity|].
    intros y -> Hy. replace ((0 <=? y) && (y <? 1024)) with false by lia. reflexivity.
  Qed.

  Definition tSETD : list Z := [83; 69; 84; 68].
  Definition tSETG : list Z := [83; 69; 84; 71].
  Definition tGETVD : list Z := [71; 69; 84; 86; 68].
  Definition tGETVG : list Z := [71; 69; 84; 86; 71].
  Definition tLOADCONF : list Z := [76; 79; 65; 68; 67; 79; 78; 70].
  Definition tCONFQ : list Z := [67; 79; 78; 70; 63].

  Lemma tok_ok_const t : t <> [] -> forallb (fun c => negb (is_ws c)) t = true -> tok_ok t.
  Proof.
    intros Hn H. split; [exact Hn|]. apply Forall_forall. intros c Hc. rewrite forallb_forall in H.
    specialize (H c Hc). unfold nonws. destruct (is_ws c); [discriminate|reflexivity].
  Qed.

  Ltac const_tok := apply tok_ok_const; [discriminate|reflexivity].

  (* run of a request whose decoding is known *)
  Lemma gaia_run_decoded (s : gaia_state) t0 rest k args cid :
    sidle s = true -> Forall tok_ok (t0 :: rest) -> hd 0 t0 <> 35 ->
    gaia_decode (t0 :: rest) = DOk k args cid ->
    gaia_run temp s (gline (t0 :: rest) ++ [10]) =
    let (d', o) := gaia_handle temp k (with_id (dev s) cid) args in
    ({| buf := []; dev := d' |}, repeat OTrue (length (gline (t0 :: rest))) ++ [o]).
  Proof.
    intros Hi Hok Hh Hd. destruct (gaia_request_from_idle s t0 rest Hi Hok Hh) as [Hrun Htok].
    rewrite Hrun. unfold gaia_exec. rewrite Htok, Hd. reflexivity.
  Qed.

  (* C05, drain voltage register x: SETD x y is acknowledged ('#x id') and GETVD x reads back y
     until the next accepted SETD of the same channel x *)
  Theorem gaia_setd_readback (s : gaia_state) tx ty cid x y :
    gaia_reachable temp s -> sidle s = true ->
    tok_ok tx -> tok_ok ty -> tok_ok cid -> parse_int tx = Some x -> parse_int ty = Some y ->
    1 <= x <= 10 -> 0 <= y < 1024 ->
    let req := gline [tSETD; tx; ty; cid] in
    let s1 := fst (gaia_run temp s (req ++ [10])) in
    snd (gaia_run temp s (req ++ [10])) =
      repeat OTrue (length req) ++ [OReply (gaia_frame (render_int x) cid)] /\
    forall h tx' cid', gaia_quiet temp (gaia_sets KSetd x) s1 h -> sidle (fst (gaia_run temp s1 h)) = true ->
      tok_ok tx' -> tok_ok cid' -> parse_int tx' = Some x ->
      snd (gaia_run temp (fst (gaia_run temp s1 h)) (gline [tGETVD; tx'; cid'] ++ [10])) =
      repeat OTrue (length (gline [tGETVD; tx'; cid'])) ++ [OReply (gaia_frame (render_int y) cid')].
  Proof.
    intros Hr Hi Htx Hty Hcid Hpx Hpy Hx Hy. cbv zeta. apply gaia_reachable_sinv in Hr.
    assert (Hok : Forall tok_ok [tSETD; tx; ty; cid]) by (repeat (apply Forall_cons; [first [assumption|const_tok]|]); apply Forall_nil).
    assert (Hd : gaia_decode [tSETD; tx; ty; cid] = DOk KSetd [x; y] cid).
    { apply decode_a2; auto. unfold gaia_in_first. lia. }
    pose proof (gaia_run_sinv temp (gline [tSETD; tx; ty; cid] ++ [10]) s Hr) as Hs1.
    rewrite (gaia_run_decoded s tSETD _ _ _ _ Hi Hok ltac:(cbn; lia) Hd) in *.
    destruct (handle_setd temp (with_id (dev s) cid) x y Hr Hx) as (l & Hl & Hh).
    rewrite Hh in *. cbv zeta in *. cbn [fst snd] in *. split; [reflexivity|].
    intros h tx' cid' Hq Hi' Htx' Hcid' Hpx'.
    pose proof (proj1 (gaia_quiet_frame temp 0%nat x h _ Hs1 Hx) Hq) as E. cbn [dev vd] in E.
    pose proof (gaia_run_sinv temp h _ Hs1) as Hs2.
    assert (Hok' : Forall tok_ok [tGETVD; tx'; cid']) by (repeat (apply Forall_cons; [first [assumption|const_tok]|]); apply Forall_nil).
    assert (Hd' : gaia_decode [tGETVD; tx'; cid'] = DOk KGetvd [x] cid').
    { apply decode_a1; auto. unfold gaia_in_first. lia. }
    rewrite (gaia_run_decoded _ tGETVD _ _ _ _ Hi' Hok' ltac:(cbn; lia) Hd').
    destruct (handle_getvd temp (with_id (dev (fst (gaia_run temp _ h))) cid') x Hs2 Hx) as (v & Hv & Hg).
    rewrite Hg. cbn [snd]. cbn [with_id vd] in Hv. rewrite E, (set_nth_eq _ _ _ _ Hl) in Hv.
    injection Hv as <-. reflexivity.
  Qed.

  Theorem gaia_setg_readback (s : gaia_state) tx ty cid x y :
    gaia_reachable temp s -> sidle s = true ->
    tok_ok tx -> tok_ok ty -> tok_ok cid -> parse_int tx = Some x -> parse_int ty = Some y ->
    1 <= x <= 10 -> 0 <= y < 1024 ->
    let req := gline [tSETG; tx; ty; cid] in
    let s1 := fst (gaia_run temp s (req ++ [10])) in
    snd (gaia_run temp s (req ++ [10])) =
      repeat OTrue (length req) ++ [OReply (gaia_frame (render_int x) cid)] /\
    forall h tx' cid', gaia_quiet temp (gaia_sets KSetg x) s1 h -> sidle (fst (gaia_run temp s1 h)) = true ->
      tok_ok tx' -> tok_ok cid' -> parse_int tx' = Some x ->
      snd (gaia_run temp (fst (gaia_run temp s1 h)) (gline [tGETVG; tx'; cid'] ++ [10])) =
      repeat OTrue (length (gline [tGETVG; tx'; cid'])) ++ [OReply (gaia_frame (render_int y) cid')].
  Proof.
    intros Hr Hi Htx Hty Hcid Hpx Hpy Hx Hy. cbv zeta. apply gaia_reachable_sinv in Hr.
    assert (Hok : Forall tok_ok [tSETG; tx; ty; cid]) by (repeat (apply Forall_cons; [first [assumption|const_tok]|]); apply Forall_nil).
    assert (Hd : gaia_decode [tSETG; tx; ty; cid] = DOk KSetg [x; y] cid).
    { apply decode_a2; auto. unfold gaia_in_first. lia. }
    pose proof (gaia_run_sinv temp (gline [tSETG; tx; ty; cid] ++ [10]) s Hr) as Hs1.
    rewrite (gaia_run_decoded s tSETG _ _ _ _ Hi Hok ltac:(cbn; lia) Hd) in *.
    destruct (handle_setg temp (with_id (dev s) cid) x y Hr Hx) as (l & Hl & Hh).
    rewrite Hh in *. cbv zeta in *. cbn [fst snd] in *. split; [reflexivity|].
    intros h tx' cid' Hq Hi' Htx' Hcid' Hpx'.
    pose proof (proj1 (proj2 (gaia_quiet_frame temp 0%nat x h _ Hs1 Hx)) Hq) as E. cbn [dev vg] in E.
    pose proof (gaia_run_sinv temp h _ Hs1) as Hs2.
    assert (Hok' : Forall tok_ok [tGETVG; tx'; cid']) by (repeat (apply Forall_cons; [first [assumption|const_tok]|]); apply Forall_nil).
    assert (Hd' : gaia_decode [tGETVG; tx'; cid'] = DOk KGetvg [x] cid').
    { apply decode_a1; auto. unfold gaia_in_first. lia. }
    rewrite (gaia_run_decoded _ tGETVG _ _ _ _ Hi' Hok' ltac:(cbn; lia) Hd').
    destruct (handle_getvg temp (with_id (dev (fst (gaia_run temp _ h))) cid') x Hs2 Hx) as (v & Hv & Hg).
    rewrite Hg. cbn [snd]. cbn [with_id vg] in Hv. rewrite E, (set_nth_eq _ _ _ _ Hl) in Hv.
    injection Hv as <-. reflexivity.
  Qed.

  (* C05, configuration: LOADCONF x is acknowledged ('#x id'), CONF? reads back x until the next
     accepted LOADCONF *)
  Theorem gaia_conf_readback (s : gaia_state) tx cid x :
    gaia_reachable temp s -> sidle s = true ->
    tok_ok tx -> tok_ok cid -> parse_int tx = Some x -> 1 <= x <= 10 ->
    let req := gline [tLOADCONF; tx; cid] in
    let s1 := fst (gaia_run temp s (req ++ [10])) in
    snd (gaia_run temp s (req ++ [10])) =
      repeat OTrue (length req) ++ [OReply (gaia_frame (render_int x) cid)] /\
    forall h cid', gaia_quiet temp (gaia_sets KLoadconf x) s1 h -> sidle (fst (gaia_run temp s1 h)) = true ->
      tok_ok cid' ->
      snd (gaia_run temp (fst (gaia_run temp s1 h)) (gline [tCONFQ; cid'] ++ [10])) =
      repeat OTrue (length (gline [tCONFQ; cid'])) ++ [OReply (gaia_frame (render_int x) cid')].
  Proof.
    intros Hr Hi Htx Hcid Hpx Hx. cbv zeta. apply gaia_reachable_sinv in Hr.
    assert (Hok : Forall tok_ok [tLOADCONF; tx; cid]) by (repeat (apply Forall_cons; [first [assumption|const_tok]|]); apply Forall_nil).
    assert (Hd : gaia_decode [tLOADCONF; tx; cid] = DOk KLoadconf [x] cid).
    { apply decode_a1; auto. unfold gaia_in_first. lia. }
    pose proof (gaia_run_sinv temp (gline [tLOADCONF; tx; cid] ++ [10]) s Hr) as Hs1.
    rewrite (gaia_run_decoded s tLOADCONF _ _ _ _ Hi Hok ltac:(cbn; lia) Hd) in *.
    cbn [gaia_handle hd fst snd] in *. split; [reflexivity|].
    intros h cid' Hq Hi' Hcid'.
    pose proof (proj2 (proj2 (gaia_quiet_frame temp 0%nat x h _ Hs1 Hx)) Hq) as E. cbn [dev conf] in E.
    assert (Hok' : Forall tok_ok [tCONFQ; cid']) by (repeat (apply Forall_cons; [first [assumption|const_tok]|]); apply Forall_nil).
    rewrite (gaia_run_decoded _ tCONFQ _ _ _ _ Hi' Hok' ltac:(cbn; lia) (decode_q0 tCONFQ KConf cid' eq_refl)).
    cbn [gaia_handle snd with_id conf cmd_id]. cbn [with_id conf cmd_id] in E. rewrite E. reflexivity.
  Qed.

  (* C02: the query catalogue (every command without a register write), any id token, arguments
     in domain: exactly one reply, non-error, registers unchanged, framer idle, id echoed *)
  Theorem gaia_queries_answered (s : gaia_state) c k margs cid args :
    gaia_reachable temp s -> sidle s = true ->
    Forall tok_ok (c :: margs ++ [cid]) -> hd 0 c <> 35 ->
    gaia_decode (c :: margs ++ [cid]) = DOk k args cid -> set_kind k = false ->
    exists raw, snd (gaia_run temp s (gline (c :: margs ++ [cid]) ++ [10])) =
                  repeat OTrue (length (gline (c :: margs ++ [cid]))) ++ [OReply (gaia_frame raw cid)] /\
                gregs (dev (fst (gaia_run temp s (gline (c :: margs ++ [cid]) ++ [10])))) = gregs (dev s) /\
                sidle (fst (gaia_run temp s (gline (c :: margs ++ [cid]) ++ [10]))) = true.
  Proof.
    intros Hr Hi Hok Hh Hd Hk. apply gaia_reachable_sinv in Hr.
    rewrite (gaia_run_decoded s c _ _ _ _ Hi Hok Hh Hd).
    destruct (gaia_decode_ok _ _ _ _ Hd) as [Hv _].
    destruct (handle_reply temp k (with_id (dev s) cid) args Hr Hv) as (raw & d1 & Hhd & Hid & _ & Hsame).
    rewrite Hhd. cbn [fst snd dev]. exists raw. rewrite (Hsame Hk). unfold gaia_reply.
    cbn [with_id cmd_id]. repeat split; reflexivity.
  Qed.
End L.

(* hypotheses are satisfiable: concrete tokens, a non-trivial reachable idle state *)
Example gaia_tokens_example :
  tok_ok [49; 48] /\ parse_int [49; 48] = Some 10 /\ tok_ok [105; 100; 55] /\
  gaia_decode [tGETVD; [49; 48]; [105; 100; 55]] = DOk KGetvd [10] [105; 100; 55].
Proof.
  repeat split; try discriminate; try reflexivity; repeat constructor.
Qed.

Example gaia_reachable_example :
  let s := fst (gaia_run 33 gaia_init (gline [tSETD; [51]; [55; 55]; [97]] ++ [10])) in
  gaia_reachable 33 s /\ sidle s = true /\ nth_error (vd (dev s)) 2 = Some 77 /\ cmd_id (dev s) = [97].
Proof. cbv zeta. split; [eexists; reflexivity|]. vm_compute. auto. Qed.
