(* gaia: framing theorems (C03) and the reply frame / refused-write lemma (C04, C05 partial). *)
From DS Require Import Base.Prelude Model.SmaCommon Model.SmaGaia Proofs.SmaBase Proofs.SmaFramer.

Lemma gaia_fstep_tail buf0 : fst (gaia_fstep buf0 10) = [].
Proof.
  unfold gaia_fstep. destruct (buf0 ++ [10]) as [|h r] eqn:E; [reflexivity|].
  destruct h; try reflexivity. do 6 (destruct p; try reflexivity).
Qed.

Lemma gaia_fstep_idle_nonhdr b : b <> 35 -> gaia_fstep [] b = ([], EOut OTrue).
Proof.
  intros H. unfold gaia_fstep. cbn [app]. destruct b; try reflexivity.
  do 6 (destruct p; try reflexivity). congruence.
Qed.

Section G.
  Variable temp : Z.

  (* C03: after ANY byte history from ANY state the terminator leaves the framer idle *)
  Theorem gaia_resync_on_terminator (s : gaia_state) bs :
    gaia_idle (fst (gaia_run temp s (bs ++ [10]))) = true.
  Proof.
    apply sidle_buf. unfold gaia_run, gaia_state.
    rewrite (srun_app_fst gaia_fstep (gaia_exec temp) s bs [10]).
    set (s1 := fst (srun gaia_fstep (gaia_exec temp) s bs)). cbn [srun].
    pose proof (sstep_buf gaia_fstep (gaia_exec temp) s1 10) as Hb.
    destruct (sstep gaia_fstep (gaia_exec temp) s1 10) as [s2 o]. cbn [fst] in *. rewrite Hb.
    apply gaia_fstep_tail.
  Qed.

  (* C03: idle discards bytes other than the header; gaia's parse answers True (not False) then *)
  Theorem gaia_idle_discards (s : gaia_state) b :
    gaia_idle s = true -> b <> 35 -> gaia_step temp s b = (s, OTrue).
  Proof.
    intros Hi Hb. apply sidle_buf in Hi. unfold gaia_step, sstep. rewrite Hi, (gaia_fstep_idle_nonhdr b Hb).
    destruct s as [bf d]. cbn in *. subst. reflexivity.
  Qed.

  Theorem gaia_fresh_after_idle (s : gaia_state) bs :
    gaia_idle s = true -> snd (frun gaia_fstep (buf s) bs) = snd (frun gaia_fstep (buf gaia_init) bs).
  Proof. intros H. apply sidle_buf in H. rewrite H. reflexivity. Qed.

  Theorem gaia_idle_is_initial_framing (s : gaia_state) :
    gaia_idle s = true -> s = Build_sstate [] (dev s).
  Proof. intros H. apply sidle_buf in H. destruct s as [bf d]. cbn in *. congruence. Qed.

End G.
