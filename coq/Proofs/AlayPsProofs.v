(* C16 (tag Alay) — PointingStatus.update_status (Model/AlayPs.v): it changes only the fields it
   lists, byte for byte, for every block and every input; the clock / encoder fields then hold the
   inputs. *)
From Coq Require Import String.
From DS Require Import Base.Prelude Base.Bits Model.Utils Proofs.UtilsProofs.
From DS Require Import Model.AlayModel Model.AlayWf Model.AlayPs Gen.AlayLayout.
From DS Require Import Proofs.AlayLists Proofs.AlayProofs Proofs.AlayFrame Proofs.AlayInst Proofs.AlayLimits.

(* ---------- sequences of assignments, any well-formed table ---------- *)
Lemma last_assign_none ops m : (forall op, In op ops -> fst op <> m) -> last_assign ops m = None.
Proof.
  induction ops as [|op ops IH]; intros H; [reflexivity|]. cbn [last_assign].
  rewrite IH by (intros o Ho; apply H; right; exact Ho).
  destruct (String.eqb_spec (fst op) m) as [E|E]; [|reflexivity].
  exfalso. apply (H op); [left; reflexivity|exact E].
Qed.

(* the slice (o, n) meets the extent of none of the named fields *)
Definition untouched (t : list field) (names : list string) (o n : nat) : bool :=
  forallb (fun m => match find_field t m with
                    | Some f => disjoint (o, n) (extent f)
                    | None => true
                    end) names.

Section Frame.
  Variable size : nat.
  Variable t : list field.
  Hypothesis Hok : layout_ok size t = true.
  Variable e : axis_env.

  (* an accepted assignment rewrites the extent of its field and nothing else *)
  Lemma set_outside f v b b' o n : In f t -> length b = size -> bytes b -> set e f v b = Some b' ->
    disjoint (o, n) (extent f) = true -> slice o n b' = slice o n b.
  Proof.
    intros Hf Hl Hb Hs Hd. pose proof (table_field_ok size t Hok f Hf) as Hfo.
    apply set_written in Hs as (new & Hw & Hsp).
    destruct (written_shape size f Hfo e b Hl Hb v new Hw) as [Hn _].
    apply (slice_splice_disjoint _ _ _ _ o n Hsp). rewrite Hn.
    unfold disjoint in Hd. cbn [fst snd] in Hd. apply orb_true_iff in Hd as [H|H]; apply Nat.leb_le in H; lia.
  Qed.

  Lemma seq_sets_outside ops : forall b b' o n, length b = size -> bytes b ->
    seq_sets t e ops b = Some b' -> untouched t (map fst ops) o n = true ->
    (length b' = size /\ bytes b') /\ slice o n b' = slice o n b.
  Proof.
    induction ops as [|op ops IH]; intros b b' o n Hl Hb H Hu.
    - cbn in H. injection H as <-. auto.
    - rewrite (seq_sets_cons t e) in H. apply bind_some in H as (b1 & H1 & H2).
      destruct (setn_keeps size t Hok e _ _ _ _ Hl Hb H1) as [Hl1 Hb1].
      cbn [map untouched forallb] in Hu. apply andb_true_iff in Hu as [Hu1 Hu2].
      destruct (IH b1 b' o n Hl1 Hb1 H2 Hu2) as [Hk Hs]. split; [exact Hk|].
      rewrite Hs. apply setn_some in H1 as (f & Hfind & Hf & _ & Hset).
      rewrite Hfind in Hu1. exact (set_outside f _ b b1 o n Hf Hl Hb Hset Hu1).
  Qed.

  Lemma untouched_incl names names' o n : incl names' names ->
    untouched t names o n = true -> untouched t names' o n = true.
  Proof.
    unfold untouched. rewrite !forallb_forall. intros Hi H m Hm. apply H, Hi, Hm.
  Qed.

  (* names written by update_status, whatever the inputs *)
  Lemma head_names i : incl (map fst (ps_head_ops i)) ps_written_names.
  Proof. intros m Hm. cbn in Hm. cbn. intuition. Qed.

  Lemma track_names i st : incl (map fst (ps_track_ops i st)) ps_written_names.
  Proof.
    intros m Hm. unfold ps_track_ops, ps_running_ops in Hm.
    destruct (Z.eqb st 2), (pi_before_start i), (Z.eqb st 3), (Z.eqb (pi_index i) (pi_ntimes i));
      cbn in Hm; cbn; intuition.
  Qed.

  Lemma not_named (ops : list (string * value)) m : incl (map fst ops) ps_written_names -> ~ In m ps_written_names ->
    forall op, In op ops -> fst op <> m.
  Proof. intros Hi Hn op Ho E. apply Hn, Hi. rewrite <- E. apply in_map, Ho. Qed.

  (* update_status changes only the listed fields: size and byte-ness are kept, every other
     settable field reads as before, every slice outside the listed fields' bytes is unchanged *)
  Theorem ps_update_frame_gen i b b' : length b = size -> bytes b -> ps_update t e i b = Some b' ->
    (length b' = size /\ bytes b') /\
    (forall m g, find_field t m = Some g -> is_view g = false -> ~ In m ps_written_names ->
       getn t m b' = getn t m b) /\
    (forall o n, untouched t ps_written_names o n = true -> slice o n b' = slice o n b).
  Proof.
    intros Hl Hb H. unfold ps_update in H.
    apply bind_some in H as (b1 & H1 & H). apply bind_some in H as (st & _ & H2).
    assert (K1 : length b1 = size /\ bytes b1).
    { destruct (seq_sets_outside _ b b1 0 0 Hl Hb H1) as [K _]; [|exact K].
      unfold untouched. apply forallb_forall. intros m _. destruct (find_field t m); [|reflexivity].
      unfold disjoint. cbn [fst snd]. apply orb_true_iff. left. apply Nat.leb_le. lia. }
    destruct K1 as [Hl1 Hb1].
    assert (K2 : length b' = size /\ bytes b').
    { destruct (seq_sets_outside _ b1 b' 0 0 Hl1 Hb1 H2) as [K _]; [|exact K].
      unfold untouched. apply forallb_forall. intros m _. destruct (find_field t m); [|reflexivity].
      unfold disjoint. cbn [fst snd]. apply orb_true_iff. left. apply Nat.leb_le. lia. }
    split; [exact K2|]. split.
    - intros m g Hm Hv Hn.
      destruct (seq_sets_get size t Hok e _ b b1 m g Hl Hb H1 Hm Hv) as [_ G1].
      destruct (seq_sets_get size t Hok e _ b1 b' m g Hl1 Hb1 H2 Hm Hv) as [_ G2].
      rewrite (last_assign_none _ m (not_named _ m (head_names i) Hn)) in G1.
      rewrite (last_assign_none _ m (not_named _ m (track_names i st) Hn)) in G2.
      congruence.
    - intros o n Hu.
      destruct (seq_sets_outside _ b b1 o n Hl Hb H1 (untouched_incl _ _ o n (head_names i) Hu)) as [_ S1].
      destruct (seq_sets_outside _ b1 b' o n Hl1 Hb1 H2 (untouched_incl _ _ o n (track_names i st) Hu)) as [_ S2].
      congruence.
  Qed.

  (* a clock / encoder field holds, afterwards, what the head of the method assigned to it *)
  Lemma ps_update_head_gen i b b' m g v : length b = size -> bytes b -> ps_update t e i b = Some b' ->
    find_field t m = Some g -> is_view g = false ->
    last_assign (ps_head_ops i) m = Some v ->
    ~ In m ["ptState"; "ptTableLength"; "ptActTableIndex"; "ptEndTableIndex"]%string ->
    getn t m b' = stored e g v.
  Proof.
    intros Hl Hb H Hm Hv Hla Hn. unfold ps_update in H.
    apply bind_some in H as (b1 & H1 & H). apply bind_some in H as (st & _ & H2).
    destruct (seq_sets_get size t Hok e _ b b1 m g Hl Hb H1 Hm Hv) as [[Hl1 Hb1] G1].
    destruct (seq_sets_get size t Hok e _ b1 b' m g Hl1 Hb1 H2 Hm Hv) as [_ G2].
    rewrite Hla in G1. rewrite last_assign_none in G2; [congruence|].
    intros op Ho E. apply Hn. rewrite <- E.
    unfold ps_track_ops, ps_running_ops in Ho.
    destruct (Z.eqb st 2), (pi_before_start i), (Z.eqb st 3), (Z.eqb (pi_index i) (pi_ntimes i));
      cbn in Ho; cbn; intuition (subst; cbn; auto).
  Qed.

  (* a bookkeeping field holds, afterwards, what the tracking part assigned to it last — or what it
     held before when that part does not name it; [st] is the ptState the block held before the call *)
  Lemma ps_update_track_gen i b b' st gs m g : length b = size -> bytes b -> ps_update t e i b = Some b' ->
    find_field t "ptState" = Some gs -> is_view gs = false -> get_int t "ptState" b = Some st ->
    find_field t m = Some g -> is_view g = false ->
    ~ In m (map fst (ps_head_ops i)) ->
    getn t m b' = match last_assign (ps_track_ops i st) m with
                  | Some v => stored e g v
                  | None => getn t m b
                  end.
  Proof.
    intros Hl Hb H Hgs Hvs Hst Hm Hv Hnh. unfold ps_update in H.
    apply bind_some in H as (b1 & H1 & H). apply bind_some in H as (st1 & Hst1 & H2).
    destruct (seq_sets_get size t Hok e _ b b1 "ptState" gs Hl Hb H1 Hgs Hvs) as [[Hl1 Hb1] G0].
    change (last_assign (ps_head_ops i) "ptState") with (@None value) in G0.
    assert (st1 = st) as ->.
    { unfold get_int in Hst1, Hst. rewrite G0 in Hst1. rewrite Hst in Hst1. congruence. }
    destruct (seq_sets_get size t Hok e _ b b1 m g Hl Hb H1 Hm Hv) as [_ G1].
    destruct (seq_sets_get size t Hok e _ b1 b' m g Hl1 Hb1 H2 Hm Hv) as [_ G2].
    rewrite last_assign_none in G1.
    - rewrite G2. destruct (last_assign (ps_track_ops i st) m); [reflexivity|exact G1].
    - intros op Ho E. apply Hnh. rewrite <- E. apply in_map, Ho.
  Qed.
End Frame.

(* ---------- the generated pointing table ---------- *)
Local Open Scope string_scope.

Theorem ps_update_frame i b b' : length b = AlayLayout.ps_size -> bytes b ->
  ps_update AlayLayout.ps_table AlayLayout.env_default i b = Some b' ->
  (length b' = AlayLayout.ps_size /\ bytes b') /\
  (forall m g, find_field AlayLayout.ps_table m = Some g -> is_view g = false -> ~ In m ps_written_names ->
     getn AlayLayout.ps_table m b' = getn AlayLayout.ps_table m b) /\
  (forall o n, untouched AlayLayout.ps_table ps_written_names o n = true -> slice o n b' = slice o n b).
Proof. exact (ps_update_frame_gen AlayLayout.ps_size AlayLayout.ps_table ps_ok AlayLayout.env_default i b b'). Qed.

(* the bytes update_status may rewrite: 47 of the 129 (each of the others is [untouched]) *)
Lemma ps_written_bytes :
  filter (fun k => negb (untouched AlayLayout.ps_table ps_written_names k 1)) (seq 0 AlayLayout.ps_size)
  = (seq 9 8 ++ seq 28 8 ++ seq 57 8 ++ seq 75 12 ++ seq 95 2 ++ seq 109 12)%list.
Proof. vm_compute. reflexivity. Qed.

(* the published encoder positions, offsets and the clock are the inputs (mirror the axes) *)
Theorem ps_update_mirrors i b b' : length b = AlayLayout.ps_size -> bytes b ->
  ps_update AlayLayout.ps_table AlayLayout.env_default i b = Some b' ->
  getn AlayLayout.ps_table "posEncAz" b' = Some (VInt (pi_az_p i)) /\
  getn AlayLayout.ps_table "pointOffsetAz" b' = Some (VInt (pi_az_off i)) /\
  getn AlayLayout.ps_table "posEncEl" b' = Some (VInt (pi_el_p i)) /\
  getn AlayLayout.ps_table "pointOffsetEl" b' = Some (VInt (pi_el_off i)) /\
  getn AlayLayout.ps_table "year" b' = Some (VInt (pi_year i)) /\
  getn AlayLayout.ps_table "month" b' = Some (VInt (pi_month i)) /\
  getn AlayLayout.ps_table "day" b' = Some (VInt (pi_day i)) /\
  getn AlayLayout.ps_table "hour" b' = Some (VInt (pi_hour i)) /\
  getn AlayLayout.ps_table "minute" b' = Some (VInt (pi_minute i)) /\
  getn AlayLayout.ps_table "second" b' = Some (VInt (pi_second i)).
Proof.
  intros Hl Hb H.
  assert (G : forall m g v, find_field AlayLayout.ps_table m = Some g -> is_view g = false ->
            last_assign (ps_head_ops i) m = Some v ->
            ~ In m ["ptState"; "ptTableLength"; "ptActTableIndex"; "ptEndTableIndex"] ->
            getn AlayLayout.ps_table m b' = stored AlayLayout.env_default g v).
  { intros m g v. exact (ps_update_head_gen _ _ ps_ok _ i b b' m g v Hl Hb H). }
  repeat split.
  all: match goal with
       | |- getn _ ?m _ = Some ?v =>
           let f := eval vm_compute in (find_field AlayLayout.ps_table m) in
           match f with
           | Some ?g =>
               rewrite (G m g v); [reflexivity|vm_compute; reflexivity|reflexivity|reflexivity|
                                   cbn; intuition discriminate]
           end
       end.
Qed.

(* the table bookkeeping after update_status, by the tracking state the block held before the call:
   idle / loaded / finished states keep the four fields; a running track (state 3) publishes the
   lookup index, the remaining length and the last index, or, when the table is exhausted, state 4
   and zeros *)
Theorem ps_update_tracking i b b' st : length b = AlayLayout.ps_size -> bytes b ->
  ps_update AlayLayout.ps_table AlayLayout.env_default i b = Some b' ->
  get_int AlayLayout.ps_table "ptState" b = Some st ->
  let T := AlayLayout.ps_table in
  (st <> 2 -> st <> 3 ->
     getn T "ptState" b' = getn T "ptState" b /\ getn T "ptActTableIndex" b' = getn T "ptActTableIndex" b /\
     getn T "ptTableLength" b' = getn T "ptTableLength" b /\ getn T "ptEndTableIndex" b' = getn T "ptEndTableIndex" b) /\
  (st = 2 -> pi_before_start i = true ->
     getn T "ptState" b' = getn T "ptState" b /\ getn T "ptActTableIndex" b' = getn T "ptActTableIndex" b /\
     getn T "ptTableLength" b' = getn T "ptTableLength" b /\ getn T "ptEndTableIndex" b' = getn T "ptEndTableIndex" b) /\
  (st = 3 \/ (st = 2 /\ pi_before_start i = false) -> pi_index i <> pi_ntimes i ->
     getn T "ptState" b' = Some (VInt 3) /\
     getn T "ptActTableIndex" b' = Some (VInt (pi_index i)) /\
     getn T "ptTableLength" b' = Some (VInt (pi_ntimes i - pi_index i)) /\
     getn T "ptEndTableIndex" b' = Some (VInt (Z.max (pi_ntimes i - pi_index i - 1) 0))) /\
  (st = 3 \/ (st = 2 /\ pi_before_start i = false) -> pi_index i = pi_ntimes i ->
     getn T "ptState" b' = Some (VInt 4) /\ getn T "ptActTableIndex" b' = Some (VInt 0) /\
     getn T "ptTableLength" b' = Some (VInt 0) /\ getn T "ptEndTableIndex" b' = Some (VInt 0)).
Proof.
  intros Hl Hb H Hst T.
  assert (G : forall m g, find_field T m = Some g -> is_view g = false ->
            ~ In m (map fst (ps_head_ops i)) ->
            getn T m b' = match last_assign (ps_track_ops i st) m with
                          | Some v => stored AlayLayout.env_default g v
                          | None => getn T m b
                          end).
  { intros m g. eapply (ps_update_track_gen _ _ ps_ok _ i b b' st _ m g Hl Hb H); try exact Hst.
    - vm_compute. reflexivity.
    - reflexivity. }
  assert (Hsame : get_int T "ptState" b = Some st -> getn T "ptState" b = Some (VInt st)).
  { unfold get_int. destruct (getn T "ptState" b) as [[| z | | | | |]|]; try discriminate. congruence. }
  specialize (Hsame Hst).
  assert (F : forall m, In m ["ptState"; "ptActTableIndex"; "ptTableLength"; "ptEndTableIndex"] ->
            exists g, find_field T m = Some g /\ is_view g = false /\ ~ In m (map fst (ps_head_ops i)) /\
                      forall z, stored AlayLayout.env_default g (VInt z) = Some (VInt z)).
  { intros m Hm. cbn in Hm.
    destruct Hm as [<-|[<-|[<-|[<-|[]]]]]; eexists; (split; [vm_compute; reflexivity|]);
      (split; [reflexivity|]); (split; [cbn; intuition discriminate|]); intros z; reflexivity. }
  assert (R : forall m, In m ["ptState"; "ptActTableIndex"; "ptTableLength"; "ptEndTableIndex"] ->
            getn T m b' = match last_assign (ps_track_ops i st) m with
                          | Some (VInt z) => Some (VInt z)
                          | Some _ => getn T m b'
                          | None => getn T m b
                          end).
  { intros m Hm. destruct (F m Hm) as (g & Hf & Hv & Hn & Hs). rewrite (G m g Hf Hv Hn).
    destruct (last_assign (ps_track_ops i st) m) as [[| z | | | | |]|] eqn:E; try reflexivity; try apply Hs;
      symmetry; rewrite (G m g Hf Hv Hn), E; reflexivity. }
  assert (I4 : forall m, m = "ptState" \/ m = "ptActTableIndex" \/ m = "ptTableLength" \/ m = "ptEndTableIndex" ->
            In m ["ptState"; "ptActTableIndex"; "ptTableLength"; "ptEndTableIndex"]) by (cbn; intuition).
  split; [|split; [|split]].
  - intros N2 N3. unfold ps_track_ops in R.
    replace (Z.eqb st 2) with false in R by lia. replace (Z.eqb st 3) with false in R by lia.
    repeat split; apply R, I4; auto.
  - intros -> Hbs. unfold ps_track_ops in R. rewrite Hbs in R. cbn [Z.eqb Pos.eqb] in R.
    repeat split; apply R, I4; auto.
  - intros Hc Hne. unfold ps_track_ops, ps_running_ops in R.
    replace (Z.eqb (pi_index i) (pi_ntimes i)) with false in R by lia.
    destruct Hc as [->|[-> Hbs]]; [|rewrite Hbs in R]; cbn [Z.eqb Pos.eqb] in R;
      repeat split;
      match goal with |- getn _ ?m _ = _ => rewrite (R m); [|apply I4; auto] end;
      first [reflexivity|exact Hsame].
  - intros Hc He. unfold ps_track_ops, ps_running_ops in R.
    replace (Z.eqb (pi_index i) (pi_ntimes i)) with true in R by lia.
    destruct Hc as [->|[-> Hbs]]; [|rewrite Hbs in R]; cbn [Z.eqb Pos.eqb] in R;
      repeat split;
      match goal with |- getn _ ?m _ = _ => rewrite (R m); [|apply I4; auto] end;
      reflexivity.
Qed.

(* the published ACU time is the clock's MJD (a binary64 pattern) *)
Theorem ps_update_mirrors_time i b b' : length b = AlayLayout.ps_size -> bytes b ->
  0 <= pi_mjd i < 2 ^ 64 ->
  ps_update AlayLayout.ps_table AlayLayout.env_default i b = Some b' ->
  getn AlayLayout.ps_table "actTime" b' = Some (VReal (pi_mjd i)).
Proof.
  intros Hl Hb Hr H.
  let f := eval vm_compute in (find_field AlayLayout.ps_table "actTime") in
  match f with
  | Some ?g =>
      rewrite (ps_update_head_gen _ _ ps_ok _ i b b' "actTime" g (VReal (pi_mjd i)) Hl Hb H);
        [|vm_compute; reflexivity|reflexivity|reflexivity|cbn; intuition discriminate]
  end.
  unfold stored. cbn [fkind as_f64 option_map]. unfold fits.
  destruct (Z.leb_spec 0 (pi_mjd i)); [|lia]. destruct (Z.ltb_spec (pi_mjd i) (2 ^ 64)); [|lia]. reflexivity.
Qed.
