(* C10, part c10_usd: the ARGUMENTS given to the encoders of command_library.py reach the state of
   the addressed USD with the meaning the protocol gives them.  Composition of
   - C10_as (Proofs/AslEncoderProofs.v, tag Asl): the encoder's message is framed and dispatched
     once, to the intended target, and the handler decodes its parameter bytes to the call
     [expected e] written in terms of the encoder's arguments;
   - the USD model seen through that call interface ([usd_sem], Proofs/UsdLineLink.v);
   - the protocol specification Spec/UsdSpec.v ([UsdSpec.exec] of the typed command the arguments
     denote), to which the USD methods are related by the byte sweeps of Proofs/UsdRefine.v. *)
From DS Require Import Base.Prelude Base.Bits Model.Utils Model.UsdModel Spec.UsdSpec.
From DS Require Import Proofs.UtilsProofs Proofs.UsdMotion Proofs.UsdInv Proofs.UsdRefine Proofs.UsdHistory.
From DS Require Import Model.AslLine Model.AslEncoder.
From DS Require Import Proofs.AslFrameProofs Proofs.AslLineProofs Proofs.AslEncoderProofs.
From DS Require Import Proofs.UsdLineLink.

Notation alrun := (AslLine.lrun usd_sem usd_delay).
Notation aexec := (AslLine.exec usd_sem usd_delay true true).

(* the typed protocol command an encoder call denotes, in terms of its arguments *)
Definition arg_command (e : ecmd) : command :=
  match e with
  | ESoftReset => CReset | ESoftTrigger => CTrigger | EGetVersion => CGetVersion
  | ESoftStop => CStop | EGetPosition => CGetPosition | EGetStatus => CGetStatus
  | EGetDriverType => CGetDriverType
  | ESetMinFrequency f => CSetMinFrequency f
  | ESetMaxFrequency f => CSetMaxFrequency f
  | ESetSlopeMultiplier m => CSetSlopeDelayer (m mod 256)       (* stored: multiplier + 1 *)
  | ESetReferencePosition p => CSetReferencePosition p
  | ESetIoPins b => CSetIoPins (bval b)
  | ESetResolution b => CSetResolution (bval b)
  | EReduceCurrent b => CSetCurrentReduction (bval b)
  | ESetResponseDelay d => CSetResponseDelay d
  | EToggleDelayedExecution b => CSetDelayedExecution (bval b)
  | ESetAbsolutePosition p => CSetAbsolutePosition p
  | ESetRelativePosition p => CSetRelativePosition p
  | ERotate d => CRotate (d mod 256)                            (* direction = sign d, see below *)
  | ESetVelocity v => CSetVelocity v
  | ESetStopIo b => CSetStopIo (bval b)
  | ESetPositioningIo b => CSetPositioningIo (bval b)
  | ESetHomeIo b => CSetHomeIo (bval b)
  | ESetWorkingMode b => CSetWorkingMode (bval b) 0
  end.

Definition meaning (e : ecmd) (start : Z) (u : usd) : usd := fst (UsdSpec.exec (arg_command e) start u).

Lemma bval_byte e b : in_domain e -> chr_ok e ->
  (e = ESetIoPins b \/ e = ESetResolution b \/ e = EReduceCurrent b \/ e = EToggleDelayedExecution b \/
   e = ESetStopIo b \/ e = ESetPositioningIo b \/ e = ESetHomeIo b \/ e = ESetWorkingMode b) ->
  byte (bval b).
Proof.
  intros Hd Hc He. destruct b as [z|c]; cbn [bval];
    repeat (destruct He as [->|He]; [cbn in Hd, Hc; assumption|]); subst; cbn in Hd, Hc; assumption.
Qed.

Lemma of_opt_some u o u' r : of_opt u o = (u', UsdModel.OReply r) -> o = Some u'.
Proof. destruct o; cbn; [intros [= <- _]; reflexivity|discriminate]. Qed.

(* a one-byte setter: the USD method on the byte = the specification of the typed command *)
Lemma byte_setter code x u (f : Z -> usd -> option usd) (c : command) start :
  0 <= start -> byte x -> Inv u ->
  handle code start [x] u = of_opt u (f x u) -> spec_handle code start [x] u = acked (fst (UsdSpec.exec c start u)) ->
  f x u = Some (fst (UsdSpec.exec c start u)).
Proof.
  intros Hs Hx H Hh Hsp. rewrite handle_refines in Hh; [|assumption|constructor; [assumption|constructor]|assumption].
  rewrite Hsp in Hh. symmetry in Hh. apply of_opt_some in Hh. exact Hh.
Qed.

Lemma sign_mod d : -128 <= d < 128 ->
  sign d = (if d mod 256 =? 0 then 0 else if d mod 256 <? 128 then 1 else -1).
Proof.
  intros Hd. unfold sign.
  destruct (d =? 0) eqn:E0, (d <? 0) eqn:E1, (d mod 256 =? 0) eqn:E2, (d mod 256 <? 128) eqn:E3;
    try reflexivity; lia.
Qed.

(* the method call the handler makes (in terms of the arguments) has the effect the protocol
   specification gives to the typed command the arguments denote *)
Lemma sem_is_spec e u start c k : 0 <= start -> Inv u -> in_domain e -> chr_ok e ->
  expected e = DCall c k -> fst (usd_sem u c) = meaning e start u.
Proof.
  intros Hs H Hd Hc He. unfold meaning.
  destruct e; cbn [expected] in He;
    try (injection He as <- <-); cbn [arg_command];
    try (unfold usd_sem; cbn [c_code c_args Z.eqb Pos.eqb]).
  - reflexivity.
  - (* trigger *)
    pose proof (handle_refines 2 start [] u Hs (Forall_nil _) H) as E.
    unfold handle in E. cbn [Z.eqb Pos.eqb] in E. unfold spec_handle in E. cbn [UsdSpec.decode] in E.
    rewrite <- E. unfold of_mres. destruct (soft_trigger u); reflexivity.
  - reflexivity.
  - reflexivity.
  - reflexivity.
  - destruct (get_status u); reflexivity.
  - reflexivity.
  - (* min frequency *)
    cbn [UsdSpec.exec]. unfold of_pair, set_min_frequency, frequency_ok, acked, refused.
    destruct (f <? 20) eqn:E1, (10000 <? f) eqn:E2, (max_frequency u <? f) eqn:E3,
      (20 <=? f) eqn:E4, (f <=? 10000) eqn:E5, (f <=? max_frequency u) eqn:E6; try reflexivity; lia.
  - cbn [UsdSpec.exec]. unfold of_pair, set_max_frequency, frequency_ok, acked, refused.
    destruct (f <? 20) eqn:E1, (10000 <? f) eqn:E2, (f <? min_frequency u) eqn:E3,
      (20 <=? f) eqn:E4, (f <=? 10000) eqn:E5, (min_frequency u <=? f) eqn:E6; try reflexivity; lia.
  - reflexivity.
  - reflexivity.
  - (* io pins *)
    pose proof (bval_byte _ b Hd Hc ltac:(auto)) as Hb. unfold of_opt_usd.
    rewrite (byte_setter 37 (bval b) u set_io_pins (CSetIoPins (bval b)) start Hs Hb H); reflexivity.
  - (* resolution *)
    pose proof (bval_byte _ b Hd Hc ltac:(auto 10)) as Hb.
    destruct (byte_facts_ok _ Hb) as (_ & _ & _ & _ & _ & _ & _ & _ & _ & _ & F1 & F2 & _).
    cbn [UsdSpec.exec]. unfold byte in Hb.
    destruct (bval b <? 8) eqn:E; cbn [c_code c_args Z.eqb Pos.eqb].
    + replace (8 <=? bval b) with false by lia. unfold of_opt_usd, set_resolution, resolutions_get.
      replace ((0 <=? bval b) && (bval b <=? 7)) with true by lia. reflexivity.
    + replace (8 <=? bval b) with true by lia. reflexivity.
  - (* current reduction *)
    pose proof (bval_byte _ b Hd Hc ltac:(auto 10)) as Hb. cbn [UsdSpec.exec]. unfold byte in Hb.
    unfold of_opt_usd, set_current_reduction.
    assert (Hm : bval b / 64 = 0 \/ bval b / 64 = 1 \/ bval b / 64 = 2 \/ bval b / 64 = 3) by lia.
    destruct Hm as [-> |[-> |[-> | ->]]]; reflexivity.
  - reflexivity.
  - (* delayed execution *)
    pose proof (bval_byte _ b Hd Hc ltac:(auto 10)) as Hb. unfold of_opt_usd.
    rewrite (byte_setter 41 (bval b) u set_delayed_execution (CSetDelayedExecution (bval b)) start Hs Hb H);
      reflexivity.
  - (* absolute *)
    cbn [UsdSpec.exec]. unfold of_pair, set_absolute_position, request_position.
    destruct (delayed_execution u); [reflexivity|]. destruct (running u); reflexivity.
  - cbn [UsdSpec.exec]. unfold of_pair, set_relative_position, request_position.
    destruct (delayed_execution u); [reflexivity|]. destruct (running u); reflexivity.
  - (* rotate *)
    cbn [in_domain] in Hd. cbn [UsdSpec.exec]. rewrite <- sign_mod by exact Hd.
    unfold of_pair, rotate. destruct (running u); reflexivity.
  - (* velocity *)
    destruct ((100000 <? v) || (v <? -100000)) eqn:E; [discriminate He|]. injection He as <- <-.
    unfold usd_sem; cbn [c_code c_args Z.eqb Pos.eqb UsdSpec.exec].
    replace ((v <? -100000) || (100000 <? v)) with false by lia.
    unfold of_pair, set_velocity, acked, refused.
    destruct (auto_resolution u), (Z.abs v <? 10), (v =? 0); reflexivity.
  - pose proof (bval_byte _ b Hd Hc ltac:(auto 10)) as Hb. unfold of_opt_usd.
    rewrite (byte_setter 42 (bval b) u set_stop_io (CSetStopIo (bval b)) start Hs Hb H); reflexivity.
  - pose proof (bval_byte _ b Hd Hc ltac:(auto 10)) as Hb. unfold of_opt_usd.
    rewrite (byte_setter 43 (bval b) u set_positioning_io (CSetPositioningIo (bval b)) start Hs Hb H); reflexivity.
  - pose proof (bval_byte _ b Hd Hc ltac:(auto 10)) as Hb. unfold of_opt_usd.
    rewrite (byte_setter 44 (bval b) u set_home_io (CSetHomeIo (bval b)) start Hs Hb H); reflexivity.
  - (* working mode *)
    pose proof (bval_byte _ b Hd Hc ltac:(auto 10)) as Hb.
    destruct (byte_facts_ok _ Hb) as (_ & _ & _ & _ & _ & _ & _ & F & _).
    cbn [UsdSpec.exec]. unfold of_opt_usd, set_working_mode. rewrite F. unfold bitb.
    destruct (bitz_01 (bval b) 0) as [-> | ->]; reflexivity.
Qed.

(* a refused call (velocity outside +-100000: no method call at all) is also what the
   specification says: nothing changes *)
Lemma nak_is_spec e u start : expected e = DNak -> meaning e start u = u.
Proof.
  unfold meaning. destruct e; cbn [expected]; try discriminate.
  destruct ((100000 <? v) || (v <? -100000)) eqn:E; [|discriminate]. intros _.
  cbn [arg_command UsdSpec.exec]. replace ((v <? -100000) || (100000 <? v)) with true by lia. reflexivity.
Qed.

Lemma expected_not_exc e : expected e <> DExc.
Proof. destruct e; cbn [expected]; try discriminate. destruct ((100000 <? v) || (v <? -100000)); discriminate. Qed.

Lemma start_nonneg aor : 0 <= start_of aor.
Proof. destruct aor; cbn; lia. Qed.

(* what the addressed unit becomes, for any request whose parameter bytes decode to [expected e] *)
Lemma unit_effect e ps u idx aor : Inv u -> in_domain e -> chr_ok e ->
  AslLine.decode (AslEncoder.code_of e) ps = expected e ->
  fst (unit_exec usd_sem usd_delay (start_of aor) idx (AslEncoder.code_of e) ps u) = meaning e (start_of aor) u.
Proof.
  intros H Hd Hc Hdec. unfold unit_exec. rewrite code_known, Hdec. cbn [negb].
  destruct (expected e) as [| |c k] eqn:He.
  - cbn [fst]. symmetry. apply nak_is_spec, He.
  - exfalso. exact (expected_not_exc e He).
  - rewrite <- (sem_is_spec e u (start_of aor) c k (start_nonneg aor) H Hd Hc He).
    destruct (usd_sem u c) as [u' r]. destruct (build k (start_of aor) idx r); reflexivity.
Qed.

(* unicast: the encoder's bytes, from the idle parser of any line whose units satisfy the
   invariant, leave the addressed unit in the state the arguments mean and every other unit alone *)
Theorem args_reach_state e i aor bs min drv : in_domain e -> chr_ok e ->
  enc e (Some i) aor = Some bs -> on_line min drv i -> Forall Inv drv ->
  exists u os, nth_error drv (Z.to_nat (i - min)) = Some u /\
    alrun (mkL min drv finit) bs =
      (mkL min (upd drv (Z.to_nat (i - min)) (meaning e (start_of aor) u)) finit, os).
Proof.
  intros Hd Hc He Hon Hinv.
  destruct (enc_through usd_sem usd_delay e (Some i) aor bs min drv Hc He) as (ps & Hr & Hdec & _).
  cbn [target_req] in Hr. destruct (on_line_nth min drv i Hon) as [u Hu].
  rewrite (exec_unicast usd_sem usd_delay min drv (start_of aor) i (AslEncoder.code_of e) ps u Hon Hu) in Hr.
  cbn [fst snd] in Hr.
  assert (HIu : Inv u) by (rewrite Forall_forall in Hinv; apply Hinv; eapply nth_error_In; exact Hu).
  rewrite (unit_effect e ps u i aor HIu Hd Hc Hdec) in Hr. exists u. eexists. split; [exact Hu|exact Hr].
Qed.

(* broadcast: every unit, no answer *)
Theorem args_reach_state_broadcast e aor bs min drv : in_domain e -> chr_ok e ->
  enc e None aor = Some bs -> Forall Inv drv ->
  alrun (mkL min drv finit) bs =
    (mkL min (map (meaning e (start_of aor)) drv) finit, repeat OTrue (length bs)).
Proof.
  intros Hd Hc He Hinv.
  destruct (enc_through usd_sem usd_delay e None aor bs min drv Hc He) as (ps & Hr & Hdec & Hk).
  cbn [target_req] in Hr. rewrite Hr, exec_broadcast. cbn [fst snd]. rewrite Hk.
  assert (Hl : (1 <= length bs)%nat).
  { destruct (enc_spec e None aor bs Hc He) as (ps' & -> & _). cbn [target_req frame_of].
    unfold close. rewrite app_length. cbn. lia. }
  replace (repeat OTrue (length bs)) with (repeat OTrue (length bs - 1) ++ [OTrue]).
  2:{ replace (length bs) with (length bs - 1 + 1)%nat at 2 by lia. rewrite repeat_app. reflexivity. }
  f_equal. f_equal. apply map_ext_in. intros u Hin.
  assert (HIu : Inv u) by (rewrite Forall_forall in Hinv; auto).
  unfold bcast_effect. rewrite Hk, Hdec. cbn [negb].
  destruct (expected e) as [| |c k] eqn:Hex.
  - symmetry. apply nak_is_spec, Hex.
  - exfalso. exact (expected_not_exc e Hex).
  - destruct (is_getter k) eqn:Hg.
    + (* getters: the specification leaves the unit alone *)
      unfold meaning. destruct e; cbn [expected] in Hex; try (injection Hex as <- <-); cbn in Hg;
        try discriminate; try reflexivity.
      destruct ((100000 <? v) || (v <? -100000)); [discriminate|]. injection Hex as <- <-. discriminate.
    + apply (sem_is_spec e u (start_of aor) c k (start_nonneg aor) HIu Hd Hc Hex).
Qed.

(* the meaning of the arguments of set_io_pins, bit for bit (protocol table: bit 4+k direction of
   line k, bit k its value when it is an output) *)
Lemma io_pins_meaning b start u :
  io_dir (meaning (ESetIoPins b) start u) = (bitz (bval b) 4, bitz (bval b) 5, bitz (bval b) 6) /\
  io_val (meaning (ESetIoPins b) start u)
  = (bitz (bval b) 4 * bitz (bval b) 0, bitz (bval b) 5 * bitz (bval b) 1, bitz (bval b) 6 * bitz (bval b) 2).
Proof. unfold meaning. cbn [arg_command UsdSpec.exec acked fst]. destruct u; split; reflexivity. Qed.
