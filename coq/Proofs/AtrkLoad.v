(* C17 — lemmas about [load] (PointingStatus._program_track_parameter_command). *)
From DS Require Import Base.Prelude Model.AtrkModel Proofs.AtrkSpec.
From Coq Require Import QArith_base.
#[local] Close Scope Q_scope.
#[local] Open Scope Z_scope.

(* ------------------------------------------------------------------ the entry loop *)

(* the time conditions checked by [scan], as a proposition on the times alone *)
Fixpoint chain (last delta : option Z) (ts : list Z) : Prop :=
  match ts with
  | [] => True
  | t :: r =>
      match last with
      | None => t = 0 /\ chain (Some t) delta r
      | Some l =>
          0 < t - l /\ (forall ex, delta = Some ex -> t - l = ex) /\
          chain (Some t) (Some (match delta with Some ex => ex | None => t - l end)) r
      end
  end.

Lemma mk_point_some e p : mk_point e = Some p ->
  representable e /\ p_t p = e_t e /\ p_azb p = c_bits (e_az e) /\ p_elb p = c_bits (e_el e) /\
  c_ud (e_az e) = Some (p_az p) /\ c_ud (e_el e) = Some (p_el p).
Proof.
  unfold mk_point, representable. destruct (c_ud (e_az e)) eqn:Ea; [|discriminate].
  destruct (c_ud (e_el e)) eqn:Ee; [|discriminate].
  intros H. injection H as <-. cbn. repeat split; congruence.
Qed.

Lemma mk_point_repr e : representable e -> exists p, mk_point e = Some p.
Proof.
  unfold mk_point, representable. intros [Ha He].
  destruct (c_ud (e_az e)); [|congruence]. destruct (c_ud (e_el e)); [|congruence]. eauto.
Qed.

Lemma scan_sound es : forall last delta ps, scan last delta es = Some ps ->
  chain last delta (etimes es) /\ Forall2 (fun e p => mk_point e = Some p) es ps.
Proof.
  induction es as [|e r IH]; intros last delta ps H.
  - injection H as <-. split; [exact I|constructor].
  - cbn [scan] in H. cbn [etimes map chain].
    destruct last as [l|].
    + destruct ((e_t e - l <=? 0) || negb (e_t e - l =? match delta with Some x => x | None => e_t e - l end)) eqn:Hc;
        [discriminate|].
      destruct (mk_point e) as [p|] eqn:Hp; [|discriminate].
      destruct (scan (Some (e_t e)) (Some (match delta with Some x => x | None => e_t e - l end)) r)
        as [ps'|] eqn:Hs; [|discriminate].
      injection H as <-. apply IH in Hs as [Hch HF].
      apply orb_false_iff in Hc as [Hc1 Hc2]. apply negb_false_iff in Hc2.
      split; [|constructor; assumption].
      split; [lia|]. split; [|exact Hch].
      intros ex ->. lia.
    + destruct (e_t e =? 0) eqn:Hz; [|discriminate].
      destruct (mk_point e) as [p|] eqn:Hp; [|discriminate].
      destruct (scan (Some (e_t e)) delta r) as [ps'|] eqn:Hs; [|discriminate].
      injection H as <-. apply IH in Hs as [Hch HF].
      split; [|constructor; assumption]. split; [lia|exact Hch].
Qed.

Lemma scan_complete es : forall last delta, chain last delta (etimes es) -> Forall representable es ->
  exists ps, scan last delta es = Some ps.
Proof.
  induction es as [|e r IH]; intros last delta Hch HF.
  - exists []. reflexivity.
  - inversion HF as [|? ? He Hr]; subst. cbn [etimes map chain] in Hch. cbn [scan].
    destruct (mk_point_repr _ He) as [p Hp]. rewrite Hp.
    destruct last as [l|].
    + destruct Hch as [H1 [H2 H3]].
      assert (Hc : (e_t e - l <=? 0) || negb (e_t e - l =? match delta with Some x => x | None => e_t e - l end) = false).
      { apply orb_false_iff. split; [lia|]. apply negb_false_iff.
        destruct delta as [x|]; [specialize (H2 _ eq_refl)|]; lia. }
      rewrite Hc. destruct (IH _ _ H3 Hr) as [ps' ->]. eauto.
    + destruct Hch as [H1 H2]. replace (e_t e =? 0) with true by lia.
      destruct (IH _ _ H2 Hr) as [ps' ->]. eauto.
Qed.

Lemma Forall2_mk_point es ps : Forall2 (fun e p => mk_point e = Some p) es ps ->
  times ps = etimes es /\ length ps = length es /\ Forall representable es.
Proof.
  induction 1 as [|e p es ps H _ IH]; [repeat split; constructor|].
  destruct IH as [I1 [I2 I3]]. apply mk_point_some in H as [Hr [Ht _]].
  unfold times, etimes in *. cbn [map length]. repeat split; [congruence|congruence|constructor; assumption].
Qed.

(* chain against arithmetic progressions *)
Lemma chain_ss r : forall l d, chain (Some l) (Some d) r <-> ap d (l :: r) /\ (r = [] \/ 0 < d).
Proof.
  induction r as [|t r IH]; intros l d; cbn [chain].
  - split; [intros _; split; [apply ap_one|left; reflexivity]|tauto].
  - rewrite IH, ap_cons. split.
    + intros [H1 [H2 [H3 H4]]]. specialize (H2 _ eq_refl). subst d. repeat split; auto.
    + intros [[H1 H2] [H3|H3]]; [discriminate|]. subst d.
      repeat split; auto. intros ex Hex. congruence.
Qed.

Lemma chain_sn r : forall l, chain (Some l) None r <-> r = [] \/ exists d, 0 < d /\ ap d (l :: r).
Proof.
  intros l. destruct r as [|t r]; cbn [chain].
  - split; [left; reflexivity|tauto].
  - rewrite chain_ss. split.
    + intros [H1 [_ [H3 _]]]. right. exists (t - l). split; [exact H1|]. apply ap_cons. tauto.
    + intros [H|[d [Hd H]]]; [discriminate|]. apply ap_cons in H as [H1 H2]. subst d.
      repeat split; auto. intros ex Hex. discriminate.
Qed.

Lemma chain_nn r : chain None None r <-> r = [] \/ (hd_error r = Some 0 /\ equally_spaced r).
Proof.
  destruct r as [|t r]; cbn [chain].
  - split; [left; reflexivity|tauto].
  - rewrite chain_sn. cbn [hd_error]. split.
    + intros [H1 H2]. right. subst t. split; [reflexivity|].
      destruct H2 as [->|H2]; [exists 1; split; [lia|apply ap_one]|exact H2].
    + intros [H|[H1 H2]]; [discriminate|]. injection H1 as ->. split; [reflexivity|].
      right. exact H2.
Qed.

Definition zdelta (T : list Z) : option Z :=
  match T with
  | a :: b :: _ => Some (b - a)
  | _ => None
  end.

Lemma table_delta_times tb : table_delta tb = zdelta (times tb).
Proof. destruct tb as [|a [|b l]]; reflexivity. Qed.

Lemma chain_continue T new : T <> [] -> equally_spaced T ->
  (chain (last_opt T) (zdelta T) new <-> equally_spaced (T ++ new)).
Proof.
  intros Hne [d [Hd Hap]]. destruct T as [|a [|b l]]; [congruence| |].
  - cbn [last_opt zdelta app]. rewrite chain_sn. split.
    + intros [->|H]; [exists 1; split; [lia|apply ap_one]|exact H].
    + intros H. right. exact H.
  - cbn [zdelta]. pose proof Hap as Hap0. apply ap_cons in Hap0 as [Hd0 _].
    destruct (last_opt (a :: b :: l)) as [lt|] eqn:Hl; [|apply last_opt_none in Hl; discriminate].
    destruct (last_opt_split _ _ Hl) as [l' El]. rewrite El, <- app_assoc. cbn [app].
    rewrite chain_ss. rewrite El in Hap. split.
    + intros [H1 _]. exists d. split; [exact Hd|]. apply ap_app. split; [exact Hap|]. congruence.
    + intros [d' [Hd' H]]. apply ap_app in H as [H1 H2].
      assert (d' = d).
      { rewrite <- El in H1. apply ap_cons in H1 as [H1 _]. lia. }
      subst d'. split; [congruence|]. right. lia.
Qed.

(* ------------------------------------------------------------------ the accepting path *)

Definition accepted_state (st : pstate) (h : header) (s : Z) (new : list point) (n : Z) : pstate :=
  let tb := base st h ++ new in
  let newtab := h_mode h =? 1 in
  {| tbl := tb; tck := Some tb; start := Some s;
     lastc := option_map (fun lp => (p_az lp, p_el lp)) (last_opt tb);
     pt_state := if newtab then 2 else if pt_state st =? 3 then 3 else 2;
     pt_len := Z.of_nat (length tb);
     pt_act := pt_act st;
     pt_end := (if newtab then 0 else pt_end st) + n;
     interp := 4;
     cnt := h_cnt h; cmd := h_param h; ans := 1;
     pt_id := if newtab then Some (h_cnt h) else pt_id st;
     az_bahn := az_bahn st; el_bahn := el_bahn st;
     az_next := az_next st; el_next := el_next st |}.

(* the executable acceptance condition *)
Definition accepts (st : pstate) (h : header) (es : list entry) (s : Z) (new : list point) : Prop :=
  h_param h = 61 /\ h_interp h = 4 /\ h_track h = 1 /\ (h_mode h = 1 \/ h_mode h = 2) /\
  (length es <= 50)%nat /\ (h_mode h = 1 -> (5 <= length es)%nat) /\
  (h_mode h = 2 -> pt_len st <> 0) /\ h_start h = Some s /\
  (h_mode h = 2 -> start st = Some s) /\
  scan (option_map p_t (last_opt (base st h))) (table_delta (base st h)) es = Some new /\
  (4 <= length (base st h ++ new))%nat /\
  (forall lp, last_opt (base st h ++ new) = Some lp -> p_t lp * 1000 <= h_room h).

Lemma opt_eqb_some s o : opt_eqb (Some s) o = true <-> o = Some s.
Proof.
  unfold opt_eqb, option_eqb. destruct o as [x|]; [|split; discriminate].
  rewrite Z.eqb_eq. split; congruence.
Qed.

Ltac refused := cbn [ans answer]; try discriminate; try lia.

(* a load either refuses (only the three answer fields change) or takes the accepting path *)
Lemma load_cases st h es :
  (exists a, (a = 0 \/ a = 5) /\ load st h es = answer st h a /\ (a = 0 <-> h_param h <> 61)) \/
  (exists s new, accepts st h es s new /\
     load st h es = accepted_state st h s new (Z.of_nat (length es))).
Proof.
  unfold load.
  destruct (h_param h =? 61) eqn:Hp; cbn [negb];
    [|left; exists 0; repeat split; auto; intros; lia].
  assert (Hp' : ~ (0 = 0 <-> h_param h <> 61)) by lia.
  assert (H5 : forall P : Prop, (5 = 0 <-> P) <-> ~ P) by (intros; split; [intros [_ H] HP; apply H in HP; lia | intros HN; split; [lia|tauto]]).
  assert (L5 : exists a, (a = 0 \/ a = 5) /\ answer st h 5 = answer st h a /\ (a = 0 <-> h_param h <> 61)).
  { exists 5. split; [right; reflexivity|]. split; [reflexivity|]. apply H5. lia. }
  destruct (h_interp h =? 4) eqn:Hi; cbn [negb]; [|left; exact L5].
  destruct (h_track h =? 1) eqn:Ht; cbn [negb]; [|left; exact L5].
  destruct ((h_mode h =? 1) || (h_mode h =? 2)) eqn:Hm; cbn [negb]; [|left; exact L5].
  destruct (50 <? Z.of_nat (length es)) eqn:Hn; [left; exact L5|].
  destruct ((h_mode h =? 1) && (Z.of_nat (length es) <? 5)) eqn:Hs; [left; exact L5|].
  destruct ((h_mode h =? 2) && (pt_len st =? 0)) eqn:Hl; [left; exact L5|].
  destruct (h_start h) as [s|] eqn:Hst; [|left; exact L5].
  destruct ((h_mode h =? 2) && negb (opt_eqb (Some s) (start st))) eqn:Hq; [left; exact L5|].
  fold (base st h).
  destruct (scan (option_map p_t (last_opt (base st h))) (table_delta (base st h)) es) as [new|] eqn:Hsc;
    [|left; exact L5].
  destruct (last_opt (base st h ++ new)) as [lp|] eqn:Hlast; [|left; exact L5].
  destruct (Z.of_nat (length (base st h ++ new)) <? 4) eqn:H4; [left; exact L5|].
  destruct (h_room h <? p_t lp * 1000) eqn:Hroom; [left; exact L5|].
  right. exists s, new. split.
  - unfold accepts. repeat split; try lia; try assumption.
    2:{ intros lp' Hlp'. assert (lp' = lp) by congruence. subst lp'. lia. }
    + intros Hm2. apply andb_false_iff in Hq as [Hq|Hq]; [lia|].
      apply negb_false_iff in Hq. apply opt_eqb_some in Hq. exact Hq.
  - unfold accepted_state. rewrite Hlast. reflexivity.
Qed.

Lemma load_accepted st h es : ans (load st h es) = 1 ->
  exists s new, accepts st h es s new /\
    load st h es = accepted_state st h s new (Z.of_nat (length es)).
Proof.
  intros H. destruct (load_cases st h es) as [[a [Ha [E _]]]|HR]; [|exact HR].
  rewrite E in H. cbn in H. lia.
Qed.

Lemma accepts_load st h es s new : accepts st h es s new ->
  load st h es = accepted_state st h s new (Z.of_nat (length es)).
Proof.
  intros HA. destruct (load_cases st h es) as [[a [Ha [E Hz]]]|[s' [new' [HA' E]]]].
  - exfalso. unfold accepts in HA.
    destruct HA as [Hp [Hi [Ht [Hm [Hn [H5 [Hl [Hs [Hq [Hsc [H4 Hroom]]]]]]]]]]].
    (* the refusing branches contradict [accepts]: replay the decision *)
    unfold load in E. rewrite Hp, Hi, Ht in E. cbn [Z.eqb negb Pos.eqb] in E.
    replace ((h_mode h =? 1) || (h_mode h =? 2)) with true in E by lia. cbn [negb] in E.
    replace (50 <? Z.of_nat (length es)) with false in E by lia.
    replace ((h_mode h =? 1) && (Z.of_nat (length es) <? 5)) with false in E
      by (destruct (h_mode h =? 1) eqn:M; cbn; [specialize (H5 ltac:(lia)); lia|reflexivity]).
    replace ((h_mode h =? 2) && (pt_len st =? 0)) with false in E
      by (destruct (h_mode h =? 2) eqn:M; cbn; [specialize (Hl ltac:(lia)); lia|reflexivity]).
    rewrite Hs in E.
    replace ((h_mode h =? 2) && negb (opt_eqb (Some s) (start st))) with false in E.
    2:{ destruct (h_mode h =? 2) eqn:M; cbn; [|reflexivity].
        specialize (Hq ltac:(lia)). symmetry. apply negb_false_iff. apply opt_eqb_some. exact Hq. }
    fold (base st h) in E. rewrite Hsc in E.
    destruct (last_opt (base st h ++ new)) as [lp|] eqn:Hlast.
    + replace (Z.of_nat (length (base st h ++ new)) <? 4) with false in E by lia.
      specialize (Hroom _ eq_refl).
      replace (h_room h <? p_t lp * 1000) with false in E by lia.
      apply (f_equal ans) in E. cbn in E. lia.
    + apply last_opt_none in Hlast. rewrite Hlast in H4. cbn in H4. lia.
  - assert (s' = s) by (unfold accepts in *; destruct HA as (_&_&_&_&_&_&_&A&_), HA' as (_&_&_&_&_&_&_&B&_); congruence).
    subst s'.
    assert (new' = new) by (unfold accepts in *; destruct HA as (_&_&_&_&_&_&_&_&_&A&_), HA' as (_&_&_&_&_&_&_&_&_&B&_); congruence).
    subst new'. exact E.
Qed.

(* ------------------------------------------------------------------ refusal is atomic *)

Lemma same_track_answer st h a : same_track (answer st h a) st.
Proof. unfold same_track. cbn. repeat split. Qed.

Lemma refused_atomic st h es : ans (load st h es) <> 1 ->
  same_track (load st h es) st /\ cnt (load st h es) = h_cnt h /\ cmd (load st h es) = h_param h /\
  (ans (load st h es) = 0 \/ ans (load st h es) = 5).
Proof.
  intros H. destruct (load_cases st h es) as [[a [Ha [E _]]]|[s [new [_ E]]]].
  - rewrite E. split; [apply same_track_answer|]. cbn. repeat split; lia.
  - rewrite E in H. cbn in H. congruence.
Qed.

Lemma answer_domain st h es :
  (ans (load st h es) = 0 \/ ans (load st h es) = 1 \/ ans (load st h es) = 5) /\
  (ans (load st h es) = 0 <-> h_param h <> 61).
Proof.
  destruct (load_cases st h es) as [[a [Ha [E Hz]]]|[s [new [HA E]]]]; rewrite E; cbn.
  - split; [lia|exact Hz].
  - split; [lia|]. destruct HA as [Hp _]. lia.
Qed.

(* ------------------------------------------------------------------ acceptance rule *)

Lemma base_cases st h : (h_mode h = 1 /\ base st h = []) \/ (h_mode h <> 1 /\ base st h = tbl st).
Proof. unfold base. destruct (h_mode h =? 1) eqn:E; [left|right]; split; auto; lia. Qed.

Lemma scan_args tb :
  option_map p_t (last_opt tb) = last_opt (times tb) /\ table_delta tb = zdelta (times tb).
Proof. split; [unfold times; rewrite last_opt_map; reflexivity|apply table_delta_times]. Qed.

Lemma times_nil tb : times tb = [] <-> tb = [].
Proof. destruct tb; cbn; split; congruence. Qed.

Lemma times_app a b : times (a ++ b) = times a ++ times b.
Proof. unfold times. apply map_app. Qed.

Lemma last_times tb : last_opt (times tb) = option_map p_t (last_opt tb).
Proof. unfold times. apply last_opt_map. Qed.

Theorem accept_iff st h es : inv st ->
  (ans (load st h es) = 1 <-> h_param h = 61 /\ acceptable st h es /\ feasible st h es).
Proof.
  intros [I1 [I2 _]]. split.
  - intros H. apply load_accepted in H as [s [new [HA _]]].
    destruct HA as [Hp [Hi [Ht [Hm [Hn [H5 [Hl [Hs [Hq [Hsc [H4 Hroom]]]]]]]]]]].
    apply scan_sound in Hsc as [Hch HF]. apply Forall2_mk_point in HF as [Htm [Hlen Hrep]].
    destruct (scan_args (base st h)) as [A1 A2]. rewrite A1, A2 in Hch.
    split; [exact Hp|]. split.
    + unfold acceptable. repeat split; auto.
      destruct (base_cases st h) as [[Hm1 Hb]|[Hm1 Hb]]; rewrite Hb in *.
      * left. cbn in Hch. apply chain_nn in Hch. specialize (H5 Hm1).
        destruct Hch as [Hch|Hch]; [|tauto].
        unfold etimes in Hch. apply map_eq_nil in Hch. subst es. cbn in H5. lia.
      * right. assert (Hm2 : h_mode h = 2) by lia.
        assert (Hne : tbl st <> []) by (specialize (Hl Hm2); intros E; rewrite E in I1; cbn in I1; lia).
        repeat split; auto; [exists s; auto|].
        apply chain_continue; auto. intros E. apply times_nil in E. contradiction.
    + unfold feasible. split; [congruence|]. split; [exact Hrep|]. split.
      * rewrite app_length in H4. lia.
      * intros lt Hlt. rewrite <- Htm, <- times_app, last_times in Hlt.
        destruct (last_opt (base st h ++ new)) as [lp|] eqn:El; [|discriminate].
        injection Hlt as <-. apply Hroom. reflexivity.
  - intros [Hp [[Hi [Ht [Hn Hmode]]] [Hs [Hrep [H4 Hroom]]]]].
    destruct (h_start h) as [s|] eqn:Hst; [|congruence].
    assert (Hch : chain (last_opt (times (base st h))) (zdelta (times (base st h))) (etimes es) /\
                  (h_mode h = 1 \/ h_mode h = 2) /\ (h_mode h = 1 -> (5 <= length es)%nat) /\
                  (h_mode h = 2 -> pt_len st <> 0) /\ (h_mode h = 2 -> start st = Some s)).
    { destruct Hmode as [[Hm [H5 [Hhd Heq]]]|[Hm [Hne [[s' [Hs1 Hs2]] Heq]]]].
      - unfold base. rewrite Hm. cbn. split; [apply chain_nn; right; tauto|].
        repeat split; auto; lia.
      - unfold base. rewrite Hm. cbn. split.
        + apply chain_continue; auto. intros E. apply times_nil in E. contradiction.
        + repeat split; auto; try lia.
          * intros _ E. rewrite E in I1. apply Hne. destruct (tbl st); [reflexivity|cbn in I1; lia].
          * intros _. congruence. }
    destruct Hch as [Hch [Hm [H5 [Hl Hq]]]].
    destruct (scan_args (base st h)) as [A1 A2]. rewrite <- A1, <- A2 in Hch.
    destruct (scan_complete _ _ _ Hch Hrep) as [new Hsc].
    pose proof Hsc as Hsc'. apply scan_sound in Hsc' as [_ HF].
    apply Forall2_mk_point in HF as [Htm [Hlen _]].
    assert (HA : accepts st h es s new).
    { unfold accepts. repeat split; auto.
      - rewrite app_length. lia.
      - intros lp Hlp. apply Hroom. rewrite <- Htm, <- times_app, last_times, Hlp. reflexivity. }
    rewrite (accepts_load _ _ _ _ _ HA). reflexivity.
Qed.

(* ------------------------------------------------------------------ effect of an accepted load *)

Lemma accepted_effect st h es : ans (load st h es) = 1 ->
  exists s new,
    h_start h = Some s /\
    Forall2 (fun e p => mk_point e = Some p) es new /\
    tbl (load st h es) = base st h ++ new /\
    tck (load st h es) = Some (tbl (load st h es)) /\
    start (load st h es) = Some s /\
    pt_len (load st h es) = Z.of_nat (length (tbl (load st h es))) /\
    lastc (load st h es) = option_map (fun lp => (p_az lp, p_el lp)) (last_opt (tbl (load st h es))) /\
    pt_state (load st h es) =
      (if h_mode h =? 1 then 2 else if pt_state st =? 3 then 3 else 2) /\
    az_bahn (load st h es) = az_bahn st /\ el_bahn (load st h es) = el_bahn st.
Proof.
  intros H. apply load_accepted in H as [s [new [HA E]]]. exists s, new. rewrite E. cbn.
  destruct HA as (_&_&_&_&_&_&_&Hs&_&Hsc&_&_). apply scan_sound in Hsc as [_ HF].
  repeat split; auto.
Qed.

(* ------------------------------------------------------------------ the invariant *)

Lemma inv_init a e : inv (init a e).
Proof.
  unfold inv, init. cbn. repeat split; try tauto; try congruence.
  - exists 1. split; [lia|apply ap_nil].
  - intros [H|H]; lia.
Qed.

Lemma same_track_inv a b : same_track a b -> inv b -> inv a.
Proof.
  unfold same_track, inv.
  intros (E1&E2&E3&E4&E5&E6&_&_&_&_&_&_&_&_). rewrite E1, E2, E3, E4, E5, E6. tauto.
Qed.

Lemma chain_nonneg r : forall l d, 0 <= l -> chain (Some l) d r -> Forall (fun t => 0 <= t) r.
Proof.
  induction r as [|t r IH]; intros l d Hl H; [constructor|].
  cbn [chain] in H. destruct H as [H1 [_ H3]]. constructor; [lia|]. eapply IH; [|exact H3]. lia.
Qed.

Lemma Forall_times (P : Z -> Prop) tb : Forall (fun p => P (p_t p)) tb <-> Forall P (times tb).
Proof. unfold times. rewrite Forall_map. reflexivity. Qed.

Lemma inv_load st h es : inv st -> inv (load st h es).
Proof.
  intros Hinv. destruct (Z.eq_dec (ans (load st h es)) 1) as [H1|H1].
  2:{ apply refused_atomic in H1 as [Hs _]. eapply same_track_inv; eauto. }
  apply load_accepted in H1 as [s [new [HA E]]]. rewrite E. clear E.
  pose proof Hinv as [I1 [I2 [I3 [I4 [I5 I6]]]]].
  destruct HA as [Hp [Hi [Ht [Hm [Hn [H5 [Hl [Hs [Hq [Hsc [H4 Hroom]]]]]]]]]]].
  pose proof Hsc as Hsc'. apply scan_sound in Hsc' as [Hch HF].
  apply Forall2_mk_point in HF as [Htm [Hlen Hrep]].
  destruct (scan_args (base st h)) as [A1 A2]. rewrite A1, A2 in Hch.
  set (tb := base st h ++ new).
  assert (Hne : tb <> []) by (intros E; unfold tb in E; rewrite E in H4; cbn in H4; lia).
  assert (Htimes : times tb = times (base st h) ++ etimes es)
    by (unfold tb, times; rewrite map_app; fold (times new); rewrite Htm; reflexivity).
  (* spacing and non-negativity of the new table *)
  assert (Hsp : equally_spaced (times tb) /\ Forall (fun p => 0 <= p_t p) tb).
  { rewrite Htimes. rewrite Forall_times, Htimes.
    destruct (base_cases st h) as [[Hm1 Hb]|[Hm1 Hb]]; rewrite Hb in *; cbn [times map app] in *.
    - apply chain_nn in Hch. destruct Hch as [Hch|[Hhd Heq]].
      + unfold etimes in Hch. apply map_eq_nil in Hch. subst es.
        exfalso. apply Hne. unfold tb. rewrite Hb. cbn. destruct new; [reflexivity|discriminate].
      + split; [exact Heq|]. destruct (etimes es) as [|t0 r]; [constructor|].
        injection Hhd as ->. destruct Heq as [d [Hd Hap]].
        eapply Forall_impl; [|apply (ap_lower _ _ _ Hd Hap)]. cbn. intros; lia.
    - assert (Hm2 : h_mode h = 2) by lia.
      assert (Hne0 : tbl st <> []) by (specialize (Hl Hm2); intros E; rewrite E in I1; cbn in I1; lia).
      destruct (I6 Hne0) as [pre [lp [_ [_ [Hnn [Hlp _]]]]]].
      assert (Hnn' : Forall (fun t => 0 <= t) (times (tbl st))).
      { apply Forall_times. apply Forall_app in Hnn. tauto. }
      split.
      + apply chain_continue; auto. intros E. apply times_nil in E. contradiction.
      + apply Forall_app. split; [exact Hnn'|].
        assert (Hlt : last_opt (times (tbl st)) = Some (p_t lp))
          by (unfold times; rewrite last_opt_map, Hlp; reflexivity).
        rewrite Hlt in Hch. eapply chain_nonneg; [|exact Hch].
        destruct (last_opt_split _ _ Hlt) as [l' El]. rewrite El in Hnn'.
        apply Forall_app in Hnn' as [_ Hx]. inversion Hx; assumption. }
  destruct Hsp as [Hsp Hnn].
  destruct (last_opt tb) as [lp|] eqn:Hlast; [|apply last_opt_none in Hlast; contradiction].
  unfold inv, accepted_state. fold tb. cbn. rewrite Hlast. cbn.
  assert (Hst : (if h_mode h =? 1 then 2 else if pt_state st =? 3 then 3 else 2) = 2 \/
                (if h_mode h =? 1 then 2 else if pt_state st =? 3 then 3 else 2) = 3)
    by (destruct (h_mode h =? 1); [tauto|]; destruct (pt_state st =? 3); tauto).
  split; [reflexivity|]. split; [exact Hsp|]. split; [tauto|].
  split; [split; [intros _; exact Hne|intros _; exact Hst]|].
  split; [intros _; split; congruence|].
  intros _. exists [], lp. cbn. repeat split; auto.

Qed.
